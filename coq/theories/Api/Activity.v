(* C18 model: the activity dispatcher (server/activity.go) over the Raft log.

   The Raft log is a list of entries; the entry with Raft index i is the (i-1)-th element.
   A command that has an activity event (create/delete/pause/resume/read-only stream, group
   create/join/leave) is [ECmd true]; any other command [ECmd false]; Raft's own entries
   [ENoop]; PUBLISH_ACTIVITY j is [ERec j].

   Variant switch v (true = repaired code): the FSM snapshot carries lastPublishedRaftIndex, the
   dispatcher starts no lower than the first index still in the log store, and when the entry it
   stands at has been compacted meanwhile it continues at that first index.  The pinned code lost
   the index with the compacted PUBLISH_ACTIVITY entries, started at lastPublished+1 and panicked
   on an entry that is gone. *)
From LB Require Import Base.Prelude.
From Coq Require Import Arith.

Inductive entry := ECmd (ev : bool) | ENoop | ERec (j : nat).

Record ast := mkAst {
  a_log : list entry;
  a_first : nat;          (* first index still in the log store; 1 when nothing was compacted *)
  a_lastpub : nat;        (* lastPublishedRaftIndex in the FSM *)
  a_snap : nat;           (* what restoring the latest snapshot sets it to *)
  a_snap_idx : nat;       (* entries up to this index are covered by the snapshot, not replayed *)
  a_stream : list nat;    (* ids of the events in the activity stream, in stream order *)
  a_disp : option nat     (* the dispatcher's position while this server is the controller *)
}.

Definition init : ast := mkAst [] 1 0 0 0 [] None.

Definition entry_at (log : list entry) (i : nat) : option entry :=
  match i with O => None | S k => nth_error log k end.

Definition is_ev (log : list entry) (j : nat) : bool :=
  match entry_at log j with Some (ECmd true) => true | _ => false end.

Inductive outcome := PubFail | PubOkRecFail | PubOk.

Inductive step :=
| XCommit (e : entry)              (* an operation is committed (ECmd / ENoop only) *)
| XStart                           (* this server becomes the controller: the dispatcher starts *)
| XStop                            (* it loses leadership *)
| XStep (o : outcome)              (* the dispatcher handles the entry it stands at *)
| XSnapshot (trailing : nat)       (* Raft snapshots the FSM and compacts the log *)
| XRestart.                        (* the server restarts: FSM restored from the snapshot + replay *)

Inductive res := Ok (s : ast) | Panic | NotEnabled.

(* lastPublished after restoring the snapshot and replaying the entries above its index *)
Fixpoint replay_lastpub (log : list entry) (pos : nat) (from : nat) (acc : nat) : nat :=
  match log with
  | [] => acc
  | e :: r => replay_lastpub r (S pos) from
                (match e with ERec j => if from <? pos then j else acc | _ => acc end)
  end.

(* may the log be compacted so that newfirst becomes its first index?  Only entries whose events
   are published and recorded go (Raft's trailing-log allowance is what provides this in
   production).  The dispatcher itself may stand at a lower index: entries that are not commands
   (barriers, no-ops) do not wake it, so it trails behind them until the next command commits.
   The repaired dispatcher then continues at the first entry there is; the pinned one panics. *)
Definition compact_ok (s : ast) (newfirst : nat) : bool :=
  forallb (fun j => negb (is_ev (a_log s) j) || (j <=? a_lastpub s)) (seq 1 (newfirst - 1)).

Definition astep (v : bool) (s : ast) (x : step) : res :=
  match x with
  | XCommit e =>
    match e with
    | ERec _ => NotEnabled
    | _ => Ok (mkAst (a_log s ++ [e]) (a_first s) (a_lastpub s) (a_snap s) (a_snap_idx s) (a_stream s) (a_disp s))
    end
  | XStart =>
    match a_disp s with
    | Some _ => NotEnabled
    | None => Ok (mkAst (a_log s) (a_first s) (a_lastpub s) (a_snap s) (a_snap_idx s) (a_stream s)
                        (Some (if v then Nat.max (S (a_lastpub s)) (a_first s) else S (a_lastpub s))))
    end
  | XStop => Ok (mkAst (a_log s) (a_first s) (a_lastpub s) (a_snap s) (a_snap_idx s) (a_stream s) None)
  | XStep o =>
    match a_disp s with
    | None => NotEnabled
    | Some i =>
      if length (a_log s) <? i then NotEnabled          (* caught up: waits for a commit *)
      else if i <? a_first s then                       (* GetLog fails *)
        (if v then Ok (mkAst (a_log s) (a_first s) (a_lastpub s) (a_snap s) (a_snap_idx s) (a_stream s) (Some (a_first s)))
         else Panic)                                     (* pinned: panic(err) *)
      else match entry_at (a_log s) i with
           | Some (ECmd true) =>
             match o with
             | PubFail => Ok s
             | PubOkRecFail => Ok (mkAst (a_log s) (a_first s) (a_lastpub s) (a_snap s) (a_snap_idx s) (a_stream s ++ [i]) (a_disp s))
             | PubOk => Ok (mkAst (a_log s ++ [ERec i]) (a_first s) i (a_snap s) (a_snap_idx s) (a_stream s ++ [i]) (Some (S i)))
             end
           | _ => Ok (mkAst (a_log s) (a_first s) (a_lastpub s) (a_snap s) (a_snap_idx s) (a_stream s) (Some (S i)))
           end
    end
  | XSnapshot t =>
    let n := length (a_log s) in
    let newfirst := Nat.max (a_first s) (S n - t) in
    if compact_ok s newfirst
    then Ok (mkAst (a_log s) newfirst (a_lastpub s) (if v then a_lastpub s else 0) n (a_stream s) (a_disp s))
    else NotEnabled
  | XRestart =>
    Ok (mkAst (a_log s) (a_first s) (replay_lastpub (a_log s) 1 (a_snap_idx s) (a_snap s)) (a_snap s) (a_snap_idx s) (a_stream s) None)
  end.

(* a schedule: steps that are not enabled are skipped, a panic ends the run *)
Fixpoint arun (v : bool) (s : ast) (xs : list step) : res :=
  match xs with
  | [] => Ok s
  | x :: r => match astep v s x with
              | Ok s' => arun v s' r
              | Panic => Panic
              | NotEnabled => arun v s r
              end
  end.

(* ---- what the property says about a stream of event ids, decidable ---- *)
(* every id is the index of an event operation; an id appears for the first time only after
   every earlier event operation has appeared *)
Fixpoint first_seen_ok (log : list entry) (seen : list nat) (stream : list nat) : bool :=
  match stream with
  | [] => true
  | j :: r =>
    is_ev log j &&
    (if existsb (Nat.eqb j) seen then true
     else forallb (fun k => negb (is_ev log k) || existsb (Nat.eqb k) seen) (seq 1 (j - 1))) &&
    first_seen_ok log (j :: seen) r
  end.

Definition all_delivered (log : list entry) (stream : list nat) : bool :=
  forallb (fun k => negb (is_ev log k) || existsb (Nat.eqb k) stream) (seq 1 (length log)).

Definition records_ok (log : list entry) (stream : list nat) : bool :=
  forallb (fun e => match e with ERec j => is_ev log j && existsb (Nat.eqb j) stream | _ => true end) log.

(* correspondence: (Raft log as observed, event ids as read from the activity stream) pairs that
   fail one of the three checks; code 1 = order / unknown id, 2 = an operation never delivered,
   3 = a recorded index without a delivered event *)
Fixpoint act_mismatches (cs : list (list entry * list nat)) (i : nat) : list (nat * nat) :=
  match cs with
  | [] => []
  | (log, stream) :: r =>
    (if first_seen_ok log [] stream then [] else [(i, 1)]) ++
    (if all_delivered log stream then [] else [(i, 2)]) ++
    (if records_ok log stream then [] else [(i, 3)]) ++ act_mismatches r (S i)
  end.
