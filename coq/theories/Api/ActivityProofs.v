From LB Require Import Base.Prelude Api.Activity.
From Coq Require Import Arith Lia.
Local Arguments Nat.max : simpl never.
Local Arguments Nat.sub : simpl never.

(* ---------------------------------------------------------------- entries and indices *)
Lemma is_ev_bound log j : is_ev log j = true -> 1 <= j <= length log.
Proof.
  unfold is_ev, entry_at. destruct j as [|k]; [discriminate|]. destruct (nth_error log k) eqn:E; [|discriminate].
  intros _. assert (k < length log) by (apply nth_error_Some; congruence). lia.
Qed.

Lemma is_ev_app_old log l j : j <= length log -> is_ev (log ++ l) j = is_ev log j.
Proof.
  intros H. unfold is_ev, entry_at. destruct j as [|k]; [reflexivity|]. rewrite nth_error_app1 by lia. reflexivity.
Qed.

Lemma is_ev_app_iff log e j : is_ev (log ++ [e]) j = true ->
  is_ev log j = true \/ (j = S (length log) /\ e = ECmd true).
Proof.
  intros H. destruct (le_lt_dec j (length log)) as [Hle|Hgt]; [left; rewrite <- (is_ev_app_old log [e]) by exact Hle; exact H|].
  right. pose proof (is_ev_bound _ _ H) as Hb. rewrite app_length in Hb. cbn in Hb. assert (j = S (length log)) by lia. subst j. split; [reflexivity|].
  unfold is_ev, entry_at in H. rewrite nth_error_app2 in H by lia. rewrite Nat.sub_diag in H. cbn in H. destruct e as [[|]| |]; try discriminate. reflexivity.
Qed.

Lemma is_ev_snoc_not_ev log e j : e <> ECmd true -> is_ev (log ++ [e]) j = is_ev log j.
Proof.
  intros He. destruct (le_lt_dec j (length log)) as [Hle|Hgt]; [apply is_ev_app_old; exact Hle|].
  destruct (is_ev (log ++ [e]) j) eqn:E.
  - apply is_ev_app_iff in E. destruct E as [E|[_ E]]; [apply is_ev_bound in E; lia|contradiction].
  - destruct (is_ev log j) eqn:E2; [apply is_ev_bound in E2; lia|reflexivity].
Qed.

Lemma existsb_eqb_in j l : existsb (Nat.eqb j) l = true <-> In j l.
Proof.
  rewrite existsb_exists. split; [intros (x & Hx & E); apply Nat.eqb_eq in E; subst; exact Hx|intros H; exists j; split; [exact H|apply Nat.eqb_refl]].
Qed.

(* ---------------------------------------------------------------- the order check *)
Definition seen_ok (log : list entry) (seen : list nat) (j : nat) : Prop :=
  In j seen \/ forall k, is_ev log k = true -> k < j -> In k seen.

Lemma seen_ok_b log seen j :
  (if existsb (Nat.eqb j) seen then true
   else forallb (fun k => negb (is_ev log k) || existsb (Nat.eqb k) seen) (seq 1 (j - 1))) = true <-> seen_ok log seen j.
Proof.
  unfold seen_ok. destruct (existsb (Nat.eqb j) seen) eqn:E.
  - split; [intros _; left; apply existsb_eqb_in; exact E|reflexivity].
  - rewrite forallb_forall. split.
    + intros H. right. intros k Hk Hlt. pose proof (is_ev_bound _ _ Hk) as Hb. specialize (H k ltac:(apply in_seq; lia)).
      rewrite Hk in H. cbn in H. apply existsb_eqb_in. exact H.
    + intros [H|H] k Hk; [apply existsb_eqb_in in H; congruence|]. apply in_seq in Hk. destruct (is_ev log k) eqn:Ek; [|reflexivity].
      cbn. apply existsb_eqb_in. apply H; [exact Ek|lia].
Qed.

Fixpoint fs_ok (log : list entry) (seen : list nat) (stream : list nat) : Prop :=
  match stream with
  | [] => True
  | j :: r => is_ev log j = true /\ seen_ok log seen j /\ fs_ok log (j :: seen) r
  end.

Lemma first_seen_ok_iff log stream : forall seen, first_seen_ok log seen stream = true <-> fs_ok log seen stream.
Proof.
  induction stream as [|j r IH]; intros seen; cbn [first_seen_ok fs_ok]; [tauto|].
  rewrite !andb_true_iff, seen_ok_b, IH. tauto.
Qed.

Lemma seen_ok_ext log s1 s2 j : (forall x, In x s1 <-> In x s2) -> seen_ok log s1 j -> seen_ok log s2 j.
Proof. intros H [H1|H1]; [left; apply H; exact H1|right; intros k Hk Hlt; apply H; apply H1; assumption]. Qed.

Lemma fs_ok_ext log stream : forall s1 s2, (forall x, In x s1 <-> In x s2) -> fs_ok log s1 stream -> fs_ok log s2 stream.
Proof.
  induction stream as [|j r IH]; intros s1 s2 H; cbn [fs_ok]; [tauto|]. intros (H1 & H2 & H3). split; [exact H1|]. split; [apply (seen_ok_ext log s1); assumption|].
  apply (IH (j :: s1)); [|exact H3]. intros x. cbn. rewrite H. tauto.
Qed.

Lemma fs_ok_snoc log stream i : forall seen, fs_ok log seen stream -> is_ev log i = true -> seen_ok log (stream ++ seen) i ->
  fs_ok log seen (stream ++ [i]).
Proof.
  induction stream as [|j r IH]; intros seen H Hi Hs; cbn [app fs_ok] in *; [tauto|]. destruct H as (H1 & H2 & H3).
  split; [exact H1|]. split; [exact H2|]. apply IH; [exact H3|exact Hi|]. apply (seen_ok_ext log (j :: r ++ seen)); [|exact Hs].
  intros x. cbn. rewrite !in_app_iff. cbn. tauto.
Qed.

(* the log grows: nothing already checked changes (ids in the stream are indices of the old log) *)
Lemma seen_ok_grow log e seen j : j <= length log -> seen_ok log seen j -> seen_ok (log ++ [e]) seen j.
Proof.
  intros Hj [H|H]; [left; exact H|right]. intros k Hk Hlt. apply H; [|exact Hlt]. rewrite <- (is_ev_app_old log [e]) by lia. exact Hk.
Qed.

Lemma fs_ok_grow log e stream : forall seen, fs_ok log seen stream -> fs_ok (log ++ [e]) seen stream.
Proof.
  induction stream as [|j r IH]; intros seen; cbn [fs_ok]; [tauto|]. intros (H1 & H2 & H3). pose proof (is_ev_bound _ _ H1) as Hb.
  split; [rewrite is_ev_app_old by lia; exact H1|]. split; [apply seen_ok_grow; [lia|exact H2]|apply IH; exact H3].
Qed.

Lemma fs_ok_in log stream : forall seen j, fs_ok log seen stream -> In j stream -> is_ev log j = true.
Proof.
  induction stream as [|x r IH]; intros seen j H Hin; [destruct Hin|]. cbn [fs_ok] in H. destruct H as (H1 & _ & H3).
  destruct Hin as [<-|Hin]; [exact H1|apply (IH (x :: seen)); assumption].
Qed.

(* ---------------------------------------------------------------- replaying the FSM *)
Lemma replay_app log : forall l pos from acc,
  replay_lastpub (log ++ l) pos from acc = replay_lastpub l (pos + length log) from (replay_lastpub log pos from acc).
Proof.
  induction log as [|e r IH]; intros l pos from acc; cbn [app replay_lastpub length]; [rewrite Nat.add_0_r; reflexivity|].
  rewrite IH. f_equal. lia.
Qed.

Lemma replay_above log : forall pos from acc, pos + length log <= S from -> replay_lastpub log pos from acc = acc.
Proof.
  induction log as [|e r IH]; intros pos from acc H; cbn [replay_lastpub length] in *; [reflexivity|].
  rewrite IH by lia. destruct e; try reflexivity. destruct (Nat.ltb_spec from pos); [lia|reflexivity].
Qed.

(* ---------------------------------------------------------------- the invariant *)
Record Inv (s : ast) : Prop := {
  inv_pub : forall j, is_ev (a_log s) j = true -> j <= a_lastpub s -> In j (a_stream s);
  inv_disp : forall i, a_disp s = Some i ->
             a_lastpub s < i /\ i <= S (length (a_log s)) /\
             forall j, is_ev (a_log s) j = true -> j < i -> In j (a_stream s);
  inv_order : fs_ok (a_log s) [] (a_stream s);
  inv_replay : replay_lastpub (a_log s) 1 (a_snap_idx s) (a_snap s) = a_lastpub s;
  inv_snapidx : a_snap_idx s <= length (a_log s);
  inv_lp : a_lastpub s <= length (a_log s);
  inv_compact : forall j, is_ev (a_log s) j = true -> j < a_first s -> j <= a_lastpub s;
  inv_first : 1 <= a_first s <= S (length (a_log s));
  inv_records : forall j, In (ERec j) (a_log s) -> is_ev (a_log s) j = true /\ In j (a_stream s)
}.

Lemma is_ev_nil j : is_ev [] j = false.
Proof. unfold is_ev, entry_at. destruct j as [|[|k]]; reflexivity. Qed.

Lemma inv_init : Inv init.
Proof.
  constructor; cbn [init a_log a_first a_lastpub a_snap a_snap_idx a_stream a_disp length replay_lastpub fs_ok]; intros;
    try lia; try exact I; try discriminate; try contradiction;
    try (match goal with H : is_ev [] _ = true |- _ => rewrite is_ev_nil in H; discriminate end).
Qed.

Lemma compact_ok_spec s nf : compact_ok s nf = true ->
  forall j, is_ev (a_log s) j = true -> j < nf -> j <= a_lastpub s.
Proof.
  unfold compact_ok. rewrite forallb_forall. intros H1.
  intros j Hj Hlt. pose proof (is_ev_bound _ _ Hj) as Hb. specialize (H1 j ltac:(apply in_seq; lia)). rewrite Hj in H1. cbn in H1.
  apply Nat.leb_le in H1. exact H1.
Qed.

Lemma entry_at_ev log i : entry_at log i = Some (ECmd true) -> is_ev log i = true.
Proof. unfold is_ev. intros ->. reflexivity. Qed.

(* committing an operation *)
Lemma commit_inv s e : Inv s -> (forall j, e <> ERec j) ->
  Inv (mkAst (a_log s ++ [e]) (a_first s) (a_lastpub s) (a_snap s) (a_snap_idx s) (a_stream s) (a_disp s)).
Proof.
  intros [Hpub Hdisp Hord Hrep Hsi Hlp Hcomp Hfirst Hrec] Hne.
  assert (Hold : forall j, is_ev (a_log s ++ [e]) j = true -> j <= length (a_log s) -> is_ev (a_log s) j = true)
    by (intros j Hj Hle; rewrite is_ev_app_old in Hj by exact Hle; exact Hj).
  constructor; cbn [a_log a_first a_lastpub a_snap a_snap_idx a_stream a_disp]; rewrite ?app_length; cbn [length]; try lia.
  - intros j Hj Hle. apply Hpub; [apply Hold; [exact Hj|lia]|exact Hle].
  - intros i Hi. destruct (Hdisp i Hi) as (H2 & H3 & H4). repeat split; try lia. intros j Hj Hlt. apply H4; [apply Hold; [exact Hj|lia]|exact Hlt].
  - apply fs_ok_grow. exact Hord.
  - rewrite replay_app, Hrep. cbn [replay_lastpub]. destruct e as [ev| |j]; [reflexivity|reflexivity|exfalso; apply (Hne j); reflexivity].
  - intros j Hj Hlt. apply Hcomp; [apply Hold; [exact Hj|lia]|exact Hlt].
  - intros j Hin. apply in_app_or in Hin. destruct Hin as [Hin|[->|[]]]; [|exfalso; apply (Hne j); reflexivity].
    destruct (Hrec j Hin) as [H1 H2]. split; [|exact H2]. pose proof (is_ev_bound _ _ H1). rewrite is_ev_app_old by lia. exact H1.
Qed.

Theorem step_inv s x s' : Inv s -> astep true s x = Ok s' -> Inv s'.
Proof.
  intros HI H. pose proof HI as [Hpub Hdisp Hord Hrep Hsi Hlp Hcomp Hfirst Hrec]. destruct x as [e| | |o|t|]; cbn [astep] in H.
  - (* commit *)
    destruct e as [ev| |j]; [| |discriminate]; injection H as <-; apply commit_inv; try exact HI; intros j; discriminate.
  - (* start *)
    destruct (a_disp s) eqn:Ed; [discriminate|]. injection H as <-.
    constructor; cbn [a_log a_first a_lastpub a_snap a_snap_idx a_stream a_disp]; try assumption.
    intros i [= <-]. repeat split; try lia. intros j Hj Hlt. destruct (le_lt_dec j (a_lastpub s)) as [Hle|Hgt]; [apply Hpub; assumption|].
    exfalso. assert (j < a_first s) by lia. specialize (Hcomp j Hj H). lia.
  - (* stop *)
    injection H as <-. constructor; cbn [a_log a_first a_lastpub a_snap a_snap_idx a_stream a_disp]; try assumption. intros i [=].
  - (* dispatcher step *)
    destruct (a_disp s) as [i|] eqn:Ed; [|discriminate]. destruct (Hdisp i eq_refl) as (D2 & D3 & D4).
    destruct (Nat.ltb_spec (length (a_log s)) i); [discriminate|]. destruct (Nat.ltb_spec i (a_first s)) as [Hgone|D1].
    { (* the entry it stands at was compacted: it continues at the first entry there is *)
      injection H as <-. constructor; cbn [a_log a_first a_lastpub a_snap a_snap_idx a_stream a_disp]; try assumption.
      intros i0 [= <-]. repeat split; try lia. intros j Hj Hlt. apply Hpub; [exact Hj|apply Hcomp; assumption]. }
    destruct (entry_at (a_log s) i) as [[[|]| |j]|] eqn:Ee.
    + (* an event entry *)
      pose proof (entry_at_ev _ _ Ee) as Hev. destruct o; injection H as <-.
      * exact HI.
      * constructor; cbn [a_log a_first a_lastpub a_snap a_snap_idx a_stream a_disp]; try assumption.
        -- intros j Hj Hle. apply in_or_app. left. apply Hpub; assumption.
        -- intros i0 [= <-]. repeat split; try lia. intros j Hj Hlt. apply in_or_app. left. apply D4; assumption.
        -- apply fs_ok_snoc; [exact Hord|exact Hev|]. right. intros k Hk Hlt. rewrite app_nil_r. apply D4; assumption.
        -- intros j Hin. destruct (Hrec j Hin) as [R1 R2]. split; [exact R1|apply in_or_app; left; exact R2].
      * assert (Hnev : forall j, is_ev (a_log s ++ [ERec i]) j = is_ev (a_log s) j) by (intros j; apply is_ev_snoc_not_ev; discriminate).
        constructor; cbn [a_log a_first a_lastpub a_snap a_snap_idx a_stream a_disp]; rewrite ?app_length; cbn [length]; try lia.
        -- intros j Hj Hle. rewrite Hnev in Hj. apply in_or_app. destruct (Nat.eq_dec j i) as [->|Hn]; [right; left; reflexivity|left; apply D4; [exact Hj|lia]].
        -- intros i0 [= <-]. repeat split; try lia. intros j Hj Hlt. rewrite Hnev in Hj. apply in_or_app.
           destruct (Nat.eq_dec j i) as [->|Hn]; [right; left; reflexivity|left; apply D4; [exact Hj|lia]].
        -- apply fs_ok_grow. apply fs_ok_snoc; [exact Hord|exact Hev|]. right. intros k Hk Hlt. rewrite app_nil_r. apply D4; assumption.
        -- rewrite replay_app, Hrep. cbn [replay_lastpub]. destruct (Nat.ltb_spec (a_snap_idx s) (1 + length (a_log s))); [reflexivity|lia].
        -- intros j Hin. rewrite Hnev. apply in_app_or in Hin. destruct Hin as [Hin|[[= <-]|[]]].
           ++ destruct (Hrec j Hin) as [R1 R2]. split; [exact R1|apply in_or_app; left; exact R2].
           ++ split; [exact Hev|apply in_or_app; right; left; reflexivity].
    + injection H as <-. constructor; cbn [a_log a_first a_lastpub a_snap a_snap_idx a_stream a_disp]; try assumption.
      intros i0 [= <-]. repeat split; try lia. intros j Hj Hlt. destruct (Nat.eq_dec j i) as [->|Hn]; [unfold is_ev in Hj; rewrite Ee in Hj; discriminate|apply D4; [exact Hj|lia]].
    + injection H as <-. constructor; cbn [a_log a_first a_lastpub a_snap a_snap_idx a_stream a_disp]; try assumption.
      intros i0 [= <-]. repeat split; try lia. intros j Hj Hlt. destruct (Nat.eq_dec j i) as [->|Hn]; [unfold is_ev in Hj; rewrite Ee in Hj; discriminate|apply D4; [exact Hj|lia]].
    + injection H as <-. constructor; cbn [a_log a_first a_lastpub a_snap a_snap_idx a_stream a_disp]; try assumption.
      intros i0 [= <-]. repeat split; try lia. intros j0 Hj Hlt. destruct (Nat.eq_dec j0 i) as [->|Hn]; [unfold is_ev in Hj; rewrite Ee in Hj; discriminate|apply D4; [exact Hj|lia]].
    + injection H as <-. constructor; cbn [a_log a_first a_lastpub a_snap a_snap_idx a_stream a_disp]; try assumption.
      intros i0 [= <-]. repeat split; try lia. intros j Hj Hlt. destruct (Nat.eq_dec j i) as [->|Hn]; [unfold is_ev in Hj; rewrite Ee in Hj; discriminate|apply D4; [exact Hj|lia]].
  - (* snapshot *)
    destruct (compact_ok s (Nat.max (a_first s) (S (length (a_log s)) - t))) eqn:Ec; [|discriminate]. injection H as <-.
    pose proof (compact_ok_spec _ _ Ec) as C1.
    constructor; cbn [a_log a_first a_lastpub a_snap a_snap_idx a_stream a_disp]; try assumption; try lia.
    + apply replay_above. lia.
  - (* restart *)
    injection H as <-. rewrite Hrep. constructor; cbn [a_log a_first a_lastpub a_snap a_snap_idx a_stream a_disp]; try assumption. intros i [=].
Qed.

(* the repaired dispatcher never asks the log store for an entry that is gone *)
Theorem step_no_panic s x : Inv s -> astep true s x <> Panic.
Proof.
  intros HI. destruct x as [e| | |o|t|]; cbn [astep]; try discriminate.
  - destruct e; discriminate.
  - destruct (a_disp s); discriminate.
  - destruct (a_disp s) as [i|] eqn:Ed; [|discriminate].
    destruct (Nat.ltb_spec (length (a_log s)) i); [discriminate|]. destruct (Nat.ltb_spec i (a_first s)); [discriminate|].
    destruct (entry_at (a_log s) i) as [[[|]| |j]|]; try discriminate. destruct o; discriminate.
  - destruct (compact_ok s _); discriminate.
Qed.

Theorem run_inv xs : forall s, Inv s -> arun true s xs <> Panic /\ forall s', arun true s xs = Ok s' -> Inv s'.
Proof.
  induction xs as [|x r IH]; intros s HI; cbn [arun]; [split; [discriminate|intros s' [= <-]; exact HI]|].
  destruct (astep true s x) as [s1| |] eqn:E; [apply IH; apply (step_inv s x s1 HI E)|exfalso; apply (step_no_panic s x HI E)|apply IH; exact HI].
Qed.

(* ---------------------------------------------------------------- the property, for every schedule *)
Theorem activity_order xs s : arun true init xs = Ok s -> first_seen_ok (a_log s) [] (a_stream s) = true.
Proof. intros H. apply first_seen_ok_iff. apply (inv_order s). apply (proj2 (run_inv xs init inv_init) s H). Qed.

Theorem activity_ids_are_operations xs s j : arun true init xs = Ok s -> In j (a_stream s) -> is_ev (a_log s) j = true.
Proof. intros H Hin. apply (fs_ok_in (a_log s) (a_stream s) [] j); [apply (inv_order s); apply (proj2 (run_inv xs init inv_init) s H)|exact Hin]. Qed.

Theorem activity_at_least_once xs s i : arun true init xs = Ok s -> a_disp s = Some i -> length (a_log s) < i ->
  all_delivered (a_log s) (a_stream s) = true.
Proof.
  intros H Hd Hi. pose proof (proj2 (run_inv xs init inv_init) s H) as HI. destruct (inv_disp s HI i Hd) as (_ & _ & D4).
  unfold all_delivered. apply forallb_forall. intros k Hk. apply in_seq in Hk. destruct (is_ev (a_log s) k) eqn:Ek; [|reflexivity]. cbn.
  apply existsb_eqb_in. apply D4; [exact Ek|lia].
Qed.

Theorem activity_records_published xs s : arun true init xs = Ok s -> records_ok (a_log s) (a_stream s) = true.
Proof.
  intros H. pose proof (proj2 (run_inv xs init inv_init) s H) as HI. unfold records_ok. apply forallb_forall. intros e He. destruct e as [ev| |j]; try reflexivity.
  destruct (inv_records s HI j He) as [H1 H2]. rewrite H1. apply existsb_eqb_in. exact H2.
Qed.

Theorem activity_never_panics xs : arun true init xs <> Panic.
Proof. apply (run_inv xs init inv_init). Qed.

(* the pinned code: an operation, its event, a snapshot that compacts the log, a restart -- and the
   dispatcher of the next controller asks for index 1 *)
Theorem pinned_panics : arun false init [XCommit (ECmd true); XStart; XStep PubOk; XStop; XSnapshot 0; XRestart; XStart; XStep PubOk] = Panic.
Proof. vm_compute. reflexivity. Qed.

(* the dispatcher trails behind entries that do not wake it (two barriers after the recorded event),
   the log is compacted with every event published, the next operation wakes it: the code before the
   second repair panics on the barrier that is gone, the repaired one goes on and delivers *)
Definition trailing_schedule : list step :=
  [XCommit (ECmd true); XStart; XStep PubOk; XCommit ENoop; XCommit ENoop; XSnapshot 0; XCommit (ECmd true);
   XStep PubOk; XStep PubOk; XStep PubOk; XStep PubOk].

Theorem trailing_dispatcher_survives :
  option_map a_stream (match arun true init trailing_schedule with Ok s => Some s | _ => None end) = Some [1; 5] /\
  arun false init trailing_schedule = Panic.
Proof. vm_compute. split; reflexivity. Qed.

(* ... or, with the entries still there, publishes the whole history again *)
Theorem pinned_republishes_everything :
  option_map a_stream (match arun false init [XCommit (ECmd true); XCommit (ECmd true); XStart; XStep PubOk; XStep PubOk; XStep PubOk; XStep PubOk; XStop;
                                              XSnapshot 100; XRestart; XStart; XStep PubOk; XStep PubOk] with Ok s => Some s | _ => None end)
  = Some [1; 2; 1; 2] /\
  option_map a_stream (match arun true init [XCommit (ECmd true); XCommit (ECmd true); XStart; XStep PubOk; XStep PubOk; XStep PubOk; XStep PubOk; XStop;
                                             XSnapshot 100; XRestart; XStart; XStep PubOk; XStep PubOk] with Ok s => Some s | _ => None end)
  = Some [1; 2].
Proof. vm_compute. split; reflexivity. Qed.
