(* C15: client-API handlers as control-flow terms over authorisation checks and effects
   (produced from server/api.go by translate/authz.go on every run), their execution by a
   client that LACKS the policy entry, and a decidable syntactic condition that guarantees
   such a client is refused and causes no effect. *)
From Coq Require Import List String Bool.
Import ListNotations.

Inductive hstep :=
| Check (deny : list hstep)     (* x := ensureAuthorizationPermission(...); if x != nil { deny } *)
| CheckNoBranch                 (* the check's result is not tested *)
| Effect (name : string)        (* state change or data delivery *)
| Branch (a b : list hstep)
| Loop (forever : bool) (body : list hstep)   (* forever: `for { }`, left only by return / break *)
| RetOk | RetErr | Continue | Break.

Inductive outcome := Fell | Returned (ok : bool) | Cont | Brk.

(* executions of a handler on behalf of a client without the policy entry: every Check fails,
   branch conditions and loop counts are arbitrary *)
Inductive exec : list hstep -> list string -> outcome -> Prop :=
| ex_nil : exec [] [] Fell
| ex_check_stop deny rest tr o : exec deny tr o -> o <> Fell -> exec (Check deny :: rest) tr o
| ex_check_fall deny rest tr1 tr2 o : exec deny tr1 Fell -> exec rest tr2 o -> exec (Check deny :: rest) (tr1 ++ tr2) o
| ex_check_nb rest tr o : exec rest tr o -> exec (CheckNoBranch :: rest) tr o
| ex_effect n rest tr o : exec rest tr o -> exec (Effect n :: rest) (n :: tr) o
| ex_branch_stop (l : bool) a b rest tr o : exec (if l then a else b) tr o -> o <> Fell -> exec (Branch a b :: rest) tr o
| ex_branch_fall (l : bool) a b rest tr1 tr2 o : exec (if l then a else b) tr1 Fell -> exec rest tr2 o ->
    exec (Branch a b :: rest) (tr1 ++ tr2) o
| ex_loop_exit fv body rest tr1 tr2 o : iter fv body tr1 None -> exec rest tr2 o -> exec (Loop fv body :: rest) (tr1 ++ tr2) o
| ex_loop_ret fv body rest tr ok : iter fv body tr (Some ok) -> exec (Loop fv body :: rest) tr (Returned ok)
| ex_retok rest : exec (RetOk :: rest) [] (Returned true)
| ex_reterr rest : exec (RetErr :: rest) [] (Returned false)
| ex_continue rest : exec (Continue :: rest) [] Cont
| ex_break rest : exec (Break :: rest) [] Brk
(* iterations of a loop body: None = the loop was left normally, Some ok = a return inside *)
with iter : bool -> list hstep -> list string -> option bool -> Prop :=
| it_done body : iter false body [] None
| it_break fv body tr : exec body tr Brk -> iter fv body tr None
| it_ret fv body tr ok : exec body tr (Returned ok) -> iter fv body tr (Some ok)
| it_next fv body tr1 tr2 r o : exec body tr1 o -> (o = Fell \/ o = Cont) -> iter fv body tr2 r -> iter fv body (tr1 ++ tr2) r.

(* ---- the decidable condition ---- *)
Record flow := mkFlow { bad : bool; ft : bool; ct : bool; bk : bool }.
Definition f_unit := mkFlow false true false false.
Definition f_stop := mkFlow false false false false.
Definition f_bad := mkFlow true false false false.
Definition seqf (d r : flow) : flow :=
  mkFlow (bad d || (ft d && bad r)) (ft d && ft r) (ct d || (ft d && ct r)) (bk d || (ft d && bk r)).
Definition joinf (a b : flow) : flow := mkFlow (bad a || bad b) (ft a || ft b) (ct a || ct b) (bk a || bk b).

Fixpoint den1 (x : hstep) : flow :=
  let den := fix den (l : list hstep) : flow :=
    match l with [] => f_unit | y :: r => seqf (den1 y) (den r) end in
  match x with
  | Check deny => den deny
  | CheckNoBranch => f_unit
  | Effect _ => f_bad
  | Branch a b => joinf (den a) (den b)
  | Loop fv body => mkFlow (bad (den body)) (negb fv || bk (den body)) false false
  | RetOk => f_bad
  | RetErr => f_stop
  | Continue => mkFlow false false true false
  | Break => mkFlow false false false true
  end.

Fixpoint den (l : list hstep) : flow :=
  match l with [] => f_unit | y :: r => seqf (den1 y) (den r) end.

(* every path of an unauthorised call ends in an error return before any effect *)
Definition guarded (h : list hstep) : bool :=
  negb (bad (den h)) && negb (ft (den h)) && negb (ct (den h)) && negb (bk (den h)).

(* names of the handlers that are not guarded *)
Definition unguarded (hs : list (string * list hstep)) : list string :=
  map fst (filter (fun h => negb (guarded (snd h))) hs).
