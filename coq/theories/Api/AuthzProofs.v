From Coq Require Import List String Bool.
From LB Require Import Api.Authz.
Import ListNotations.

Lemma den1_check deny : den1 (Check deny) = den deny.
Proof. reflexivity. Qed.
Lemma den1_branch a b : den1 (Branch a b) = joinf (den a) (den b).
Proof. reflexivity. Qed.
Lemma den1_loop fv body : den1 (Loop fv body) = mkFlow (bad (den body)) (negb fv || bk (den body)) false false.
Proof. reflexivity. Qed.

(* what an execution can do is covered by the flow summary *)
Definition covers (s : list hstep) (tr : list string) (o : outcome) : Prop :=
  bad (den s) = false ->
  tr = [] /\ o <> Returned true /\
  (o = Fell -> ft (den s) = true) /\ (o = Cont -> ct (den s) = true) /\ (o = Brk -> bk (den s) = true).

Definition covers_iter (fv : bool) (body : list hstep) (tr : list string) (r : option bool) : Prop :=
  bad (den body) = false -> tr = [] /\ r <> Some true /\ (r = None -> negb fv || bk (den body) = true).

Scheme exec_ind2 := Minimality for exec Sort Prop
  with iter_ind2 := Minimality for iter Sort Prop.
Combined Scheme exec_iter_ind from exec_ind2, iter_ind2.

Ltac flow_simpl :=
  cbn [den seqf joinf bad ft ct bk f_unit f_stop f_bad] in *;
  repeat rewrite den1_check in *; repeat rewrite den1_branch in *; repeat rewrite den1_loop in *;
  cbn [den seqf joinf bad ft ct bk f_unit f_stop f_bad] in *.

Lemma exec_covered : (forall s tr o, exec s tr o -> covers s tr o) /\
                     (forall fv b tr r, iter fv b tr r -> covers_iter fv b tr r).
Proof.
  apply exec_iter_ind; unfold covers, covers_iter.
  - (* nil *) intros _. repeat split; try discriminate; reflexivity.
  - (* check, deny terminates *) intros deny rest tr o _ IH Hne Hb. flow_simpl.
    apply orb_false_iff in Hb. destruct Hb as [Hb1 Hb2].
    destruct (IH Hb1) as (-> & H1 & H2 & H3 & H4). split; [reflexivity|]. split; [exact H1|].
    split; [intros E; contradiction|]. split.
    + intros E. rewrite (H3 E). reflexivity.
    + intros E. rewrite (H4 E). reflexivity.
  - (* check, deny falls through *) intros deny rest tr1 tr2 o _ IH1 _ IH2 Hb. flow_simpl.
    apply orb_false_iff in Hb. destruct Hb as [Hb1 Hb2].
    destruct (IH1 Hb1) as (-> & _ & Hf & _ & _). rewrite (Hf eq_refl) in *. cbn [andb] in *.
    destruct (IH2 Hb2) as (-> & H1 & H2 & H3 & H4). split; [reflexivity|]. split; [exact H1|].
    split; [exact H2|]. split; intros E; [rewrite (H3 E)|rewrite (H4 E)]; apply orb_true_r.
  - (* CheckNoBranch *) intros rest tr o _ IH Hb. flow_simpl. apply IH. exact Hb.
  - (* effect *) intros n rest tr o _ _ Hb. flow_simpl. discriminate.
  - (* branch terminates *) intros l a b rest tr o _ IH Hne Hb. flow_simpl.
    apply orb_false_iff in Hb. destruct Hb as [Hb1 Hb2]. apply orb_false_iff in Hb1. destruct Hb1 as [Ha Hbb].
    assert (Hc : bad (den (if l then a else b)) = false) by (destruct l; assumption).
    destruct (IH Hc) as (-> & H1 & H2 & H3 & H4). split; [reflexivity|]. split; [exact H1|].
    split; [intros E; contradiction|]. split; intros E.
    + specialize (H3 E). destruct l; rewrite H3; [reflexivity|rewrite orb_true_r; reflexivity].
    + specialize (H4 E). destruct l; rewrite H4; [reflexivity|rewrite orb_true_r; reflexivity].
  - (* branch falls through *) intros l a b rest tr1 tr2 o _ IH1 _ IH2 Hb. flow_simpl.
    apply orb_false_iff in Hb. destruct Hb as [Hb1 Hb2]. apply orb_false_iff in Hb1. destruct Hb1 as [Ha Hbb].
    assert (Hc : bad (den (if l then a else b)) = false) by (destruct l; assumption).
    destruct (IH1 Hc) as (-> & _ & Hf & _ & _). specialize (Hf eq_refl).
    assert (Hft : ft (den a) || ft (den b) = true) by (destruct l; rewrite Hf; [reflexivity|apply orb_true_r]).
    rewrite Hft in *. cbn [andb] in *.
    destruct (IH2 Hb2) as (-> & H1 & H2 & H3 & H4). split; [reflexivity|]. split; [exact H1|].
    split; [exact H2|]. split; intros E; [rewrite (H3 E)|rewrite (H4 E)]; apply orb_true_r.
  - (* loop left normally *) intros fv body rest tr1 tr2 o _ IH1 _ IH2 Hb. flow_simpl.
    apply orb_false_iff in Hb. destruct Hb as [Hb1 Hb2].
    destruct (IH1 Hb1) as (-> & _ & Hex). rewrite (Hex eq_refl) in *. cbn [andb] in *.
    destruct (IH2 Hb2) as (-> & H1 & H2 & H3 & H4).
    split; [reflexivity|]. split; [exact H1|]. split; [exact H2|]. split; [exact H3|exact H4].
  - (* return inside the loop *) intros fv body rest tr ok _ IH Hb. flow_simpl.
    apply orb_false_iff in Hb. destruct Hb as [Hb1 Hb2].
    destruct (IH Hb1) as (-> & Hr & _). split; [reflexivity|]. split; [intros E; injection E as ->; contradiction|].
    repeat split; discriminate.
  - intros rest Hb. flow_simpl. discriminate.
  - intros rest _. repeat split; discriminate.
  - intros rest _. flow_simpl. repeat split; try discriminate; reflexivity.
  - intros rest _. flow_simpl. repeat split; try discriminate; reflexivity.
  - (* iter done *) intros body _. split; [reflexivity|]. split; [discriminate|]. intros _. reflexivity.
  - (* iter break *) intros fv body tr _ IH Hb. destruct (IH Hb) as (-> & _ & _ & _ & Hk). split; [reflexivity|].
    split; [discriminate|]. intros _. rewrite (Hk eq_refl). apply orb_true_r.
  - (* iter ret *) intros fv body tr ok _ IH Hb. destruct (IH Hb) as (-> & H1 & _). split; [reflexivity|].
    split; [intros E; injection E as ->; contradiction|discriminate].
  - (* iter next *) intros fv body tr1 tr2 r o _ IH1 _ _ IH2 Hb.
    destruct (IH1 Hb) as (-> & _). destruct (IH2 Hb) as (-> & H & H'). split; [reflexivity|]. split; [exact H|exact H'].
Qed.

(* A guarded handler, run for a client that lacks the policy entry, has no effect at all and
   ends by returning an error -- whatever the request, the branch conditions and the number of
   loop iterations. *)
Theorem guarded_sound h tr o : guarded h = true -> exec h tr o -> tr = [] /\ o = Returned false.
Proof.
  unfold guarded. intros Hg Hex.
  apply andb_true_iff in Hg. destruct Hg as [Hg Gbk]. apply andb_true_iff in Hg. destruct Hg as [Hg Gct].
  apply andb_true_iff in Hg. destruct Hg as [Gbad Gft].
  apply negb_true_iff in Gbad, Gft, Gct, Gbk.
  destruct (proj1 exec_covered _ _ _ Hex Gbad) as (-> & H1 & H2 & H3 & H4).
  split; [reflexivity|]. destruct o as [|[|]| |].
  - rewrite (H2 eq_refl) in Gft. discriminate.
  - contradiction.
  - reflexivity.
  - rewrite (H3 eq_refl) in Gct. discriminate.
  - rewrite (H4 eq_refl) in Gbk. discriminate.
Qed.

(* the condition is not vacuous and not trivially false *)
Example guarded_example :
  guarded [Branch [RetErr] []; Check [RetErr]; Effect "x"; RetOk] = true /\
  guarded [Effect "x"; Check [RetErr]; RetOk] = false /\
  guarded [Loop false [Check []; Effect "x"]; RetOk] = false /\
  guarded [Loop true [Branch [RetErr] []; Check [Continue]; Effect "x"]; RetOk] = true /\
  guarded [Loop false [Check [Continue]; Effect "x"]; RetErr] = true /\
  guarded [Branch [RetErr] []; Effect "x"; RetOk] = false.
Proof. vm_compute. repeat split. Qed.

(* the unguarded shapes really do misbehave: an execution with an effect, or a success *)
Example unguarded_misbehaves :
  exec [Effect "subscribe"; Check [RetErr]; RetOk] ["subscribe"%string] (Returned false) /\
  exec [Loop false [Check []; Effect "publish"]; RetOk] ["publish"%string] (Returned true).
Proof.
  split.
  - apply ex_effect. apply ex_check_stop; [apply ex_reterr|discriminate].
  - change ["publish"%string] with ((["publish"%string] ++ []) ++ []). apply ex_loop_exit; [|apply ex_retok].
    eapply it_next; [|left; reflexivity|apply it_done].
    change ["publish"%string] with ([] ++ ["publish"%string]). apply ex_check_fall; [apply ex_nil|].
    apply ex_effect. apply ex_nil.
Qed.
