(* C11 model: the cursors partition as a keyed log with compaction, the LRU cache as an arbitrary
   set of entries that may be evicted at any time, SetCursor (ALL-policy publish, then cache) and
   GetCursor (cache, else reverse scan from the latest committed message with early exit). *)
From LB Require Import Base.Prelude.
Open Scope Z_scope.

Definition ckey := N.

Record cstate := mkC {
  c_log : list (ckey * Z);        (* committed cursor messages, oldest first *)
  c_cache : list (ckey * Z)       (* most recent entry first *)
}.

Fixpoint scan_back (k : ckey) (rlog : list (ckey * Z)) : Z :=   (* rlog: newest first *)
  match rlog with
  | [] => -1
  | (k', v) :: r => if N.eqb k' k then v else scan_back k r
  end.

Definition latest (k : ckey) (log : list (ckey * Z)) : Z := scan_back k (rev log).

Fixpoint cache_get (k : ckey) (c : list (ckey * Z)) : option Z :=
  match c with
  | [] => None
  | (k', v) :: r => if N.eqb k' k then Some v else cache_get k r
  end.

Definition cache_put (k : ckey) (v : Z) (c : list (ckey * Z)) : list (ckey * Z) :=
  (k, v) :: filter (fun e => negb (N.eqb (fst e) k)) c.

Inductive cop :=
| CSet (k : ckey) (v : Z)             (* SetCursor that succeeded *)
| CSetFailed (k : ckey) (v : Z)       (* SetCursor that failed before anything was published *)
| CGet (k : ckey)                     (* FetchCursor *)
| CGetScan (k : ckey)                 (* FetchCursor with the cache disabled: always scans *)
| CEvict (k : ckey)                   (* the LRU drops an entry (any entry, any time) *)
| CPurge                              (* BecomePartitionLeader / restart *)
| CCompact (newlog : list (ckey * Z)). (* segment roll + clean: the log content is replaced *)

(* a compaction is legal when it keeps the latest message of every key *)
Definition keeps_latest (newlog log : list (ckey * Z)) : Prop :=
  forall k, latest k newlog = latest k log.

Definition cstep (s : cstate) (o : cop) : cstate * option Z :=
  match o with
  | CSet k v => (mkC (c_log s ++ [(k, v)]) (cache_put k v (c_cache s)), None)
  | CSetFailed _ _ => (s, None)
  | CGet k =>
    match cache_get k (c_cache s) with
    | Some v => (s, Some v)
    | None => let v := latest k (c_log s) in (mkC (c_log s) (cache_put k v (c_cache s)), Some v)
    end
  | CGetScan k => let v := latest k (c_log s) in (mkC (c_log s) (cache_put k v (c_cache s)), Some v)
  | CEvict k => (mkC (c_log s) (filter (fun e => negb (N.eqb (fst e) k)) (c_cache s)), None)
  | CPurge => (mkC (c_log s) [], None)
  | CCompact newlog => (mkC newlog (c_cache s), None)
  end.

(* the specification: the offset passed to the most recent successful SetCursor, or -1 *)
Fixpoint spec_value (k : ckey) (ops : list cop) (acc : Z) : Z :=
  match ops with
  | [] => acc
  | CSet k' v :: r => spec_value k r (if N.eqb k' k then v else acc)
  | _ :: r => spec_value k r acc
  end.

(* ---- interleavings: a fetch that misses the cache is two steps, the log scan and the cache
   fill.  [locked] is the variant switch: with the lock held across both (SetCursor takes the
   write lock for its publish and cache update) no SetCursor can run while a scan is pending;
   the pinned code released it, so the three could interleave freely. ---- *)
Inductive aop :=
| ASet (k : ckey) (v : Z)
| AHit (k : ckey)                       (* fetch answered from the cache *)
| AScan (t : nat) (k : ckey)            (* fetch t missed the cache and scanned the log *)
| AFill (t : nat)                       (* fetch t caches and returns what it scanned *)
| AEvict (k : ckey)
| APurge
| ACompact (newlog : list (ckey * Z)).

Record astate := mkA { a_c : cstate; a_pending : list (nat * (ckey * Z)) }.

Fixpoint pend_get (t : nat) (p : list (nat * (ckey * Z))) : option (ckey * Z) :=
  match p with
  | [] => None
  | (t', e) :: r => if Nat.eqb t' t then Some e else pend_get t r
  end.

Definition pend_del (t : nat) (p : list (nat * (ckey * Z))) := filter (fun e => negb (Nat.eqb (fst e) t)) p.

(* None: the step is not enabled; the Z is the answer of a fetch that completes *)
Definition astep (locked : bool) (s : astate) (o : aop) : option (astate * option (ckey * Z)) :=
  let c := a_c s in
  match o with
  | ASet k v =>
    if locked && negb (match a_pending s with [] => true | _ => false end) then None
    else Some (mkA (fst (cstep c (CSet k v))) (a_pending s), None)
  | AHit k => match cache_get k (c_cache c) with Some v => Some (s, Some (k, v)) | None => None end
  | AScan t k =>
    match cache_get k (c_cache c), pend_get t (a_pending s) with
    | None, None => Some (mkA c ((t, (k, latest k (c_log c))) :: a_pending s), None)
    | _, _ => None
    end
  | AFill t =>
    match pend_get t (a_pending s) with
    | Some (k, v) => Some (mkA (mkC (c_log c) (cache_put k v (c_cache c))) (pend_del t (a_pending s)), Some (k, v))
    | None => None
    end
  | AEvict k => Some (mkA (fst (cstep c (CEvict k))) (a_pending s), None)
  | APurge => Some (mkA (fst (cstep c CPurge)) (a_pending s), None)
  | ACompact newlog => Some (mkA (fst (cstep c (CCompact newlog))) (a_pending s), None)
  end.

(* runs a schedule; returns the answers of the completed fetches with the value the
   specification demands at the moment each one returned; None when a step was not enabled *)
Fixpoint arun (locked : bool) (s : astate) (ops : list aop) : option (list (Z * Z)) :=
  match ops with
  | [] => Some []
  | o :: r =>
    match astep locked s o with
    | None => None
    | Some (s', ans) =>
      match arun locked s' r with
      | None => None
      | Some rest =>
        Some (match ans with
              | Some (k, v) => (v, latest k (c_log (a_c s'))) :: rest
              | None => rest
              end)
      end
    end
  end.

(* what the specification demands for key k after a schedule prefix *)
Fixpoint aspec (k : ckey) (ops : list aop) (acc : Z) : Z :=
  match ops with
  | [] => acc
  | ASet k' v :: r => aspec k r (if N.eqb k' k then v else acc)
  | _ :: r => aspec k r acc
  end.
