(* Correspondence checker for C11: replays an observed history of the cursor manager on the
   model and reports the first event on which they differ. *)
From LB Require Import Base.Prelude Api.Cursors.
Open Scope Z_scope.

Inductive tev :=
| TSet (k : ckey) (v : Z) (ok : bool)
| TGet (k : ckey) (scan : bool) (got : Z)
| TEvict (k : ckey)
| TPurge
| TClean (obs : list (ckey * Z))                           (* log content read back after a clean *)
| TObs (cache : list (ckey * Z)) (log : list (ckey * Z)).  (* cache entries and log content as observed *)

Fixpoint kv_eqb (a b : list (ckey * Z)) : bool :=
  match a, b with
  | [], [] => true
  | (k, v) :: a', (k', v') :: b' => N.eqb k k' && (v =? v') && kv_eqb a' b'
  | _, _ => false
  end.

Definition keys_of (l : list (ckey * Z)) : list ckey := map fst l.

Definition tstep (s : cstate) (e : tev) : cstate * bool :=
  match e with
  | TSet k v true => (fst (cstep s (CSet k v)), true)
  | TSet k v false => (fst (cstep s (CSetFailed k v)), true)
  | TGet k scan got =>
    let '(s', r) := cstep s (if scan then CGetScan k else CGet k) in
    (s', match r with Some v => v =? got | None => false end)
  | TEvict k => (fst (cstep s (CEvict k)), true)
  | TPurge => (fst (cstep s CPurge), true)
  | TClean obs =>
    (fst (cstep s (CCompact obs)),
     forallb (fun k => latest k obs =? latest k (c_log s)) (keys_of (c_log s) ++ keys_of obs))
  | TObs cache log =>
    (s, kv_eqb log (c_log s) &&
        forallb (fun e => match cache_get (fst e) (c_cache s) with Some v => v =? snd e | None => false end) cache)
  end.

Fixpoint trun (s : cstate) (evs : list tev) (i : nat) : option nat :=
  match evs with
  | [] => None
  | e :: r => let '(s', ok) := tstep s e in if ok then trun s' r (S i) else Some i
  end.

Fixpoint tcases_mismatches (cs : list (list tev)) (i : nat) : list (nat * nat) :=
  match cs with
  | [] => []
  | c :: r => match trun (mkC [] []) c 0 with
              | None => tcases_mismatches r (S i)
              | Some j => (i, j) :: tcases_mismatches r (S i)
              end
  end.
