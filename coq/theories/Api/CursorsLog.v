(* C11 on the commit-log model: what GetCursor's reverse scan finds -- the newest committed
   record carrying the cursor key -- is the same record before and after a compaction of the
   cursors partition.  This is the fact the key/value model (Api.Cursors) calls keeps_latest. *)
From LB Require Import Base.Prelude Log.Model Log.Retention Log.Compact Log.Proofs Log.Refine Log.CompactProofs Api.RangeProofs.
From Coq Require Import ZifyBool.
Open Scope Z_scope.

Section Bridge.
  Variable key_of : bytes -> option bytes.

  (* a committed record carrying key k *)
  Definition cmatch (hw : Z) (k : bytes) (r : rec) : bool :=
    (r_off r <=? hw) && has_key key_of r && bytes_eqb (kstr key_of r) k.

  (* the scan: newest first, first match *)
  Definition scan_log (hw : Z) (k : bytes) (recs : list rec) : option rec := find (cmatch hw k) (rev recs).

  Lemma find_filter_first {A} (p f : A -> bool) l :
    (forall pre r post, l = pre ++ r :: post -> p r = true -> (forall x, In x pre -> p x = false) -> f r = true) ->
    find p (filter f l) = find p l.
  Proof.
    induction l as [|a t IH]; intros H; [reflexivity|]. cbn [filter find]. destruct (p a) eqn:Ep.
    - rewrite (H [] a t eq_refl Ep) by (intros x []). cbn [find]. rewrite Ep. reflexivity.
    - assert (IH' : find p (filter f t) = find p t).
      { apply IH. intros pre r post E Hr Hpre. apply (H (a :: pre) r post); [rewrite E; reflexivity|exact Hr|].
        intros x [<-|Hx]; [exact Ep|apply Hpre; exact Hx]. }
      destruct (f a); [cbn [find]; rewrite Ep|]; exact IH'.
  Qed.

  Lemma sorted_split lo a r b : 0 <= lo -> sorted_from lo (a ++ r :: b) ->
    lo <= r_off r /\ (forall x, In x a -> r_off x < r_off r) /\ (forall x, In x b -> r_off r < r_off x).
  Proof.
    intros Hlo Hs. apply sorted_app in Hs; [|exact Hlo]. destruct Hs as [Ha [Hr Hb]].
    pose proof (sorted_all_lt lo a Hlo Ha) as Fa. rewrite Forall_forall in Fa.
    pose proof (next_after_ge lo a Hlo Ha) as Hn.
    pose proof (sorted_all_lt (r_off r + 1) b ltac:(lia) Hb) as Fb. rewrite Forall_forall in Fb.
    split; [lia|]. split; intros x Hx; [specialize (Fa x Hx)|specialize (Fb x Hx)]; lia.
  Qed.

  Theorem scan_after_compaction hw k lo older last : 0 <= lo -> older <> [] -> segs_wf lo (older ++ [last]) ->
    scan_log hw k (flat (compact_segs key_of false hw (older ++ [last]))) = scan_log hw k (flat (older ++ [last])).
  Proof.
    intros Hlo Hne Hw. unfold scan_log. rewrite (compact_content key_of false hw lo) by assumption.
    set (all := flat (older ++ [last])). rewrite <- filter_rev'.
    apply find_filter_first. intros pre r post E Hr Hpre.
    assert (Eall : all = rev post ++ r :: rev pre).
    { rewrite <- (rev_involutive all), E, rev_app_distr. cbn [rev]. rewrite <- app_assoc. reflexivity. }
    destruct (flat_sorted lo (older ++ [last]) Hlo Hw) as [Hs _]. fold all in Hs. rewrite Eall in Hs.
    destruct (sorted_split lo _ _ _ Hlo Hs) as (H0 & Hbefore & Hafter).
    unfold cmatch in Hr. apply andb_true_iff in Hr. destruct Hr as [Hr Hk]. apply andb_true_iff in Hr. destruct Hr as [Hh Hkey].
    apply bytes_eqb_eq in Hk.
    unfold keep, retained. rewrite Hkey. cbn [negb orb].
    rewrite (latest_for_is_max key_of hw all r); [rewrite Z.eqb_refl; reflexivity| | | | |].
    - rewrite Eall. apply in_or_app. right. left. reflexivity.
    - exact Hkey.
    - lia.
    - lia.
    - intros r' Hin Hk' Hks Hh'. rewrite Eall in Hin. apply in_app_or in Hin. destruct Hin as [Hin|[<-|Hin]].
      + specialize (Hbefore r' Hin). lia.
      + lia.
      + (* newer than r: the scan would have stopped there *)
        exfalso. apply in_rev in Hin. specialize (Hpre r' Hin). unfold cmatch in Hpre.
        rewrite Hk', Hks, Hk, bytes_eqb_refl in Hpre. destruct (Z.leb_spec (r_off r') hw); [discriminate|lia].
  Qed.

  (* getLatestCursorOffset: -1 without committed messages or on an emptied log, else the first
     message with the key in a committed reverse read from the latest offset *)
  Definition kmatch (k : bytes) (r : rec) : bool := has_key key_of r && bytes_eqb (kstr key_of r) k.

  Definition get_cursor_log (l : log) (k : bytes) : option (option rec) :=
    if (l_hw l =? -1) || (oldest l =? -1) then Some None
    else match read_reverse true l (-1) false (-1) with
         | Some rs => Some (find (kmatch k) rs)
         | None => None                      (* the subscription fails: an error, not an answer *)
         end.

  Lemma find_filter_and {A} (p f : A -> bool) l : find p (filter f l) = find (fun x => f x && p x) l.
  Proof.
    induction l as [|a t IH]; [reflexivity|]. cbn [filter find]. destruct (f a); cbn [andb find]; [destruct (p a)|]; auto.
  Qed.

  Lemma find_ext' {A} (p q : A -> bool) l : (forall x, p x = q x) -> find p l = find q l.
  Proof. intros H. induction l as [|a t IH]; [reflexivity|]. cbn [find]. rewrite H, IH. reflexivity. Qed.

  Lemma take_while_ge_none rs : take_while_ge (-1) rs = rs.
  Proof. induction rs as [|r t IH]; [reflexivity|]. cbn [take_while_ge]. cbn. rewrite IH. reflexivity. Qed.

  (* on a well-formed log whose HW is a stored offset the scan answers with the newest committed
     record carrying the key, never with an error *)
  Theorem get_cursor_log_scan l k : wf l -> 0 <= l_hw l <= newest l -> oldest l <> -1 ->
    get_cursor_log l k = Some (scan_log (l_hw l) k (all_recs l)).
  Proof.
    intros Hw Hhw Hold. unfold get_cursor_log.
    destruct (Z.eqb_spec (l_hw l) (-1)); [lia|]. destruct (Z.eqb_spec (oldest l) (-1)); [contradiction|]. cbn [orb].
    assert (E : read_reverse true l (-1) false (-1) = read_reverse true l (l_hw l) true (-1)).
    { unfold read_reverse. destruct (Z.eqb_spec (l_hw l) (-1)); [lia|]. cbn [Z.eqb orb]. rewrite orb_true_r. reflexivity. }
    rewrite E. pose proof (read_reverse_refines l (l_hw l) (-1) Hw) as R.
    destruct (read_reverse true l (l_hw l) true (-1)) as [rs|]; [|lia].
    rewrite R, take_while_ge_none. f_equal. unfold scan_log. rewrite <- filter_rev', find_filter_and.
    apply find_ext'. intros r. unfold le_off, cmatch, kmatch. rewrite andb_assoc. reflexivity.
  Qed.
End Bridge.
