From LB Require Import Base.Prelude Api.Cursors.
From Coq Require Import ZifyBool.
Open Scope Z_scope.

Definition coherent (s : cstate) : Prop :=
  forall k v, cache_get k (c_cache s) = Some v -> v = latest k (c_log s).

Lemma latest_snoc_same k v log : latest k (log ++ [(k, v)]) = v.
Proof. unfold latest. rewrite rev_app_distr. cbn. rewrite N.eqb_refl. reflexivity. Qed.

Lemma latest_snoc_other k k' v log : k' <> k -> latest k (log ++ [(k', v)]) = latest k log.
Proof. intros H. unfold latest. rewrite rev_app_distr. cbn. destruct (N.eqb_spec k' k); [contradiction|reflexivity]. Qed.

Lemma cache_get_filter_other k k' c : k' <> k ->
  cache_get k (filter (fun e => negb (N.eqb (fst e) k')) c) = cache_get k c.
Proof.
  intros H. induction c as [|[a b] r IH]; [reflexivity|]. cbn [filter fst].
  destruct (N.eqb_spec a k') as [->|Ha]; cbn [negb].
  - cbn [cache_get]. destruct (N.eqb_spec k' k); [contradiction|exact IH].
  - cbn [cache_get]. destruct (N.eqb a k); [reflexivity|exact IH].
Qed.

Lemma cache_get_filter_same k c : cache_get k (filter (fun e => negb (N.eqb (fst e) k)) c) = None.
Proof.
  induction c as [|[a b] r IH]; [reflexivity|]. cbn [filter fst].
  destruct (N.eqb_spec a k) as [->|Ha]; cbn [negb]; [exact IH|]. cbn [cache_get].
  destruct (N.eqb_spec a k); [contradiction|exact IH].
Qed.

Lemma cache_get_put k k' v c : cache_get k (cache_put k' v c) = if N.eqb k' k then Some v else cache_get k c.
Proof.
  unfold cache_put. cbn [cache_get]. destruct (N.eqb_spec k' k) as [->|H]; [reflexivity|]. apply cache_get_filter_other. exact H.
Qed.

(* the cache only ever holds the value a scan of the log would find *)
Theorem cstep_coherent s o : coherent s -> (forall keep, o = CCompact keep -> keeps_latest keep (c_log s)) ->
  coherent (fst (cstep s o)).
Proof.
  intros Hc Hk. destruct o as [k v|k v|k|k|k| |keep]; cbn [cstep].
  - intros k0 v0. cbn [fst c_cache c_log]. rewrite cache_get_put. destruct (N.eqb_spec k k0) as [->|Hne].
    + intros [= <-]. symmetry. apply latest_snoc_same.
    + intros H. rewrite latest_snoc_other by exact Hne. apply Hc. exact H.
  - exact Hc.
  - destruct (cache_get k (c_cache s)) as [v|] eqn:E; [exact Hc|]. intros k0 v0. cbn [fst c_cache c_log].
    rewrite cache_get_put. destruct (N.eqb_spec k k0) as [->|Hne]; [intros [= <-]; reflexivity|apply Hc].
  - intros k0 v0. cbn [fst c_cache c_log].
    rewrite cache_get_put. destruct (N.eqb_spec k k0) as [->|Hne]; [intros [= <-]; reflexivity|apply Hc].
  - intros k0 v0. cbn [fst c_cache c_log]. destruct (N.eq_dec k k0) as [->|Hne].
    + rewrite cache_get_filter_same. discriminate.
    + rewrite cache_get_filter_other by exact Hne. apply Hc.
  - intros k0 v0. cbn. discriminate.
  - intros k0 v0. cbn [fst c_cache c_log]. intros H. rewrite (Hk keep eq_refl k0). apply Hc. exact H.
Qed.

(* what a fetch answers is what a scan of the log would find *)
Theorem get_returns_latest s k : coherent s -> snd (cstep s (CGet k)) = Some (latest k (c_log s)).
Proof.
  intros Hc. cbn [cstep]. destruct (cache_get k (c_cache s)) as [v|] eqn:E; cbn [snd]; [|reflexivity].
  rewrite (Hc k v E). reflexivity.
Qed.

(* the log's latest value of a key is the specification's: the last successful set *)
Definition legal (s : cstate) (o : cop) : Prop := forall keep, o = CCompact keep -> keeps_latest keep (c_log s).

Fixpoint run (s : cstate) (ops : list cop) : cstate :=
  match ops with [] => s | o :: r => run (fst (cstep s o)) r end.

Fixpoint all_legal (s : cstate) (ops : list cop) : Prop :=
  match ops with [] => True | o :: r => legal s o /\ all_legal (fst (cstep s o)) r end.

Lemma run_props s ops k : coherent s -> all_legal s ops ->
  coherent (run s ops) /\ latest k (c_log (run s ops)) = spec_value k ops (latest k (c_log s)).
Proof.
  revert s. induction ops as [|o r IH]; intros s Hc Hl; [split; [exact Hc|reflexivity]|].
  destruct Hl as [Hl1 Hl2]. cbn [run].
  destruct (IH (fst (cstep s o)) (cstep_coherent s o Hc Hl1) Hl2) as [IH1 IH2]. split; [exact IH1|].
  rewrite IH2. cbn [spec_value]. destruct o as [k' v|k' v|k'|k'|k'| |keep]; cbn [cstep fst c_log]; try reflexivity.
  - destruct (N.eqb_spec k' k) as [->|Hne]; [rewrite latest_snoc_same|rewrite latest_snoc_other by exact Hne]; reflexivity.
  - destruct (cache_get k' (c_cache s)); reflexivity.
  - rewrite (Hl1 keep eq_refl k). reflexivity.
Qed.

(* FetchCursor returns the offset passed to the most recent successful SetCursor for that key,
   or -1 -- regardless of what is cached, evicted or purged and of any compaction of the
   cursors partition that keeps the latest message of every key. *)
Theorem fetch_returns_last_set ops k : all_legal (mkC [] []) ops ->
  snd (cstep (run (mkC [] []) ops) (CGet k)) = Some (spec_value k ops (-1)).
Proof.
  intros Hl. assert (Hc : coherent (mkC [] [])) by (intros k0 v0; cbn; discriminate).
  destruct (run_props (mkC [] []) ops k Hc Hl) as [H1 H2]. rewrite get_returns_latest by exact H1. rewrite H2. reflexivity.
Qed.

(* compaction as the commit log does it (keeps exactly the last message of each key, plus
   anything else it likes) is legal *)
Lemma scan_back_filter_keep k (f : ckey * Z -> bool) rlog :
  (forall e r, rlog = e :: r -> True) ->
  (forall pre e post, rlog = pre ++ e :: post -> fst e = k -> (forall x, In x pre -> fst x <> k) -> f e = true) ->
  scan_back k (filter f rlog) = scan_back k rlog.
Proof.
  intros _. induction rlog as [|[a b] r IH]; intros H; [reflexivity|]. cbn [filter scan_back].
  destruct (N.eqb_spec a k) as [->|Hne].
  - assert (E : f (k, b) = true) by (apply (H [] (k, b) r); [reflexivity|reflexivity|intros x []]).
    rewrite E. cbn [scan_back]. rewrite N.eqb_refl. reflexivity.
  - assert (IH' : scan_back k (filter f r) = scan_back k r).
    { apply IH. intros pre e post E Hk Hpre. apply (H ((a, b) :: pre) e post); [rewrite E; reflexivity|exact Hk|].
      intros x [<-|Hx]; [exact Hne|apply Hpre; exact Hx]. }
    destruct (f (a, b)); [cbn [scan_back]; destruct (N.eqb_spec a k); [contradiction|exact IH']|exact IH'].
Qed.

(* ---- interleavings ---- *)
Definition ainv (s : astate) : Prop :=
  coherent (a_c s) /\ forall t k v, pend_get t (a_pending s) = Some (k, v) -> v = latest k (c_log (a_c s)).

Definition alegal (s : astate) (o : aop) : Prop :=
  forall newlog, o = ACompact newlog -> keeps_latest newlog (c_log (a_c s)).

Lemma pend_get_del t t' p e : pend_get t (pend_del t' p) = Some e -> pend_get t p = Some e.
Proof.
  induction p as [|[a b] r IH]; [discriminate|]. unfold pend_del. cbn [filter fst].
  destruct (Nat.eqb_spec a t') as [->|Hne]; cbn [negb].
  - intros H. cbn [pend_get]. destruct (Nat.eqb_spec t' t) as [->|Hn].
    + (* t = t': the deleted list holds no entry of t *)
      exfalso. clear IH. revert H. induction r as [|[a2 b2] r2 IH2]; [discriminate|]. cbn [filter fst].
      destruct (Nat.eqb_spec a2 t) as [->|Hne2]; cbn [negb]; [exact IH2|]. cbn [pend_get].
      destruct (Nat.eqb_spec a2 t); [contradiction|exact IH2].
    + apply IH. exact H.
  - cbn [pend_get]. destruct (Nat.eqb a t); [auto|exact IH].
Qed.

(* with the lock held across scan and fill, the invariant survives every enabled step *)
Theorem astep_inv s o s' ans : ainv s -> alegal s o -> astep true s o = Some (s', ans) -> ainv s'.
Proof.
  intros [Hc Hp] Hl E. destruct o as [k v|k|t k|t|k| |newlog]; cbn [astep andb] in E.
  - destruct (a_pending s) as [|x r] eqn:Ep; cbn [negb] in E; [|discriminate]. injection E as <- <-.
    split; cbn [a_c a_pending]; [apply (cstep_coherent (a_c s) (CSet k v)); [exact Hc|intros ? [=]]|intros t k0 v0 [=]].
  - destruct (cache_get k (c_cache (a_c s))); [|discriminate]. injection E as <- <-. split; assumption.
  - destruct (cache_get k (c_cache (a_c s))); [discriminate|]. destruct (pend_get t (a_pending s)) eqn:Et; [discriminate|].
    injection E as <- <-. split; [exact Hc|]. cbn [a_c a_pending pend_get]. intros t0 k0 v0.
    destruct (Nat.eqb t t0); [intros [= <- <-]; reflexivity|apply Hp].
  - destruct (pend_get t (a_pending s)) as [[k v]|] eqn:Et; [|discriminate]. injection E as <- <-.
    pose proof (Hp t k v Et) as Hv. split; cbn [a_c a_pending c_log c_cache].
    + intros k0 v0. cbn [c_cache c_log]. rewrite cache_get_put. destruct (N.eqb_spec k k0) as [->|Hne]; [intros [= <-]; exact Hv|apply Hc].
    + intros t0 k0 v0 H. apply pend_get_del in H. apply Hp in H. exact H.
  - injection E as <- <-. split; cbn [a_c a_pending]; [apply (cstep_coherent (a_c s) (CEvict k)); [exact Hc|intros ? [=]]|]. exact Hp.
  - injection E as <- <-. split; cbn [a_c a_pending]; [apply (cstep_coherent (a_c s) CPurge); [exact Hc|intros ? [=]]|]. exact Hp.
  - injection E as <- <-. pose proof (Hl newlog eq_refl) as Hk. split; cbn [a_c a_pending].
    + apply (cstep_coherent (a_c s) (CCompact newlog)); [exact Hc|]. intros keep [= <-]. exact Hk.
    + intros t k v H. cbn [cstep fst c_log]. rewrite (Hk k). apply Hp in H. exact H.
Qed.

(* ... and every fetch that completes answers what the log holds at that moment *)
Theorem astep_answer s o s' k v : ainv s -> astep true s o = Some (s', Some (k, v)) -> v = latest k (c_log (a_c s')).
Proof.
  intros [Hc Hp] E. destruct o as [k0 v0|k0|t k0|t|k0| |newlog]; cbn [astep andb] in E.
  - destruct (a_pending s); cbn [negb] in E; discriminate.
  - destruct (cache_get k0 (c_cache (a_c s))) eqn:Eg; [|discriminate]. injection E as <- <- <-. apply Hc. exact Eg.
  - destruct (cache_get k0 (c_cache (a_c s))); [discriminate|]. destruct (pend_get t (a_pending s)); [discriminate|]. discriminate.
  - destruct (pend_get t (a_pending s)) as [[k1 v1]|] eqn:Et; [|discriminate]. injection E as <- <- <-. cbn [a_c c_log]. apply (Hp t). exact Et.
  - discriminate.
  - discriminate.
  - discriminate.
Qed.

Fixpoint all_alegal (locked : bool) (s : astate) (ops : list aop) : Prop :=
  match ops with
  | [] => True
  | o :: r => alegal s o /\ match astep locked s o with Some (s', _) => all_alegal locked s' r | None => True end
  end.

(* the log's latest value of a key follows the specification along any schedule *)
Lemma astep_latest locked s o s' ans k : alegal s o -> astep locked s o = Some (s', ans) ->
  latest k (c_log (a_c s')) = aspec k [o] (latest k (c_log (a_c s))).
Proof.
  intros Hl E. destruct o as [k0 v0|k0|t k0|t|k0| |newlog]; cbn [astep] in E; cbn [aspec].
  - destruct (locked && _); [discriminate|]. injection E as <- <-. cbn [a_c cstep fst c_log].
    destruct (N.eqb_spec k0 k) as [->|Hne]; [apply latest_snoc_same|apply latest_snoc_other; exact Hne].
  - destruct (cache_get k0 _); [|discriminate]. injection E as <- <-. reflexivity.
  - destruct (cache_get k0 _); [discriminate|]. destruct (pend_get t _); [discriminate|]. injection E as <- <-. reflexivity.
  - destruct (pend_get t _) as [[k1 v1]|]; [|discriminate]. injection E as <- <-. reflexivity.
  - injection E as <- <-. reflexivity.
  - injection E as <- <-. reflexivity.
  - injection E as <- <-. cbn [a_c cstep fst c_log]. apply (Hl newlog eq_refl).
Qed.

Lemma aspec_app k a b acc : aspec k (a ++ b) acc = aspec k b (aspec k a acc).
Proof. revert acc. induction a as [|o r IH]; intros acc; [reflexivity|]. destruct o; cbn [app aspec]; apply IH. Qed.

(* Every fetch of every enabled schedule -- any interleaving of sets, cache hits, scans, fills,
   evictions, purges and latest-preserving compactions -- returns the value of the most recent
   SetCursor for its key that completed before it returned. *)
Theorem arun_correct s ops answers : ainv s -> all_alegal true s ops -> arun true s ops = Some answers ->
  Forall (fun p => fst p = snd p) answers.
Proof.
  revert s answers. induction ops as [|o r IH]; intros s answers Hi Hl E; cbn [arun] in E.
  - injection E as <-. constructor.
  - destruct Hl as [Hl1 Hl2]. destruct (astep true s o) as [[s' ans]|] eqn:Es; [|discriminate].
    destruct (arun true s' r) as [rest|] eqn:Er; [|discriminate]. injection E as <-.
    pose proof (astep_inv s o s' ans Hi Hl1 Es) as Hi'. pose proof (IH s' rest Hi' Hl2 Er) as Hrest.
    destruct ans as [[k v]|]; [|exact Hrest]. constructor; [|exact Hrest]. cbn [fst snd].
    apply (astep_answer s o s' k v Hi Es).
Qed.

(* The pinned code (no lock across scan and fill): fetch 1 scans, SetCursor(7, 5) completes,
   fetch 1 caches the -1 it found, and the next fetch is served -1 from the cache although 5
   was stored -- and so is every later one until the entry is evicted. *)
Theorem unlocked_refuted :
  arun false (mkA (mkC [] []) []) [AScan 1 7%N; ASet 7%N 5; AFill 1; AHit 7%N; AHit 7%N] = Some [(-1, 5); (-1, 5); (-1, 5)] /\
  arun true (mkA (mkC [] []) []) [AScan 1 7%N; ASet 7%N 5; AFill 1; AHit 7%N] = None /\
  arun true (mkA (mkC [] []) []) [AScan 1 7%N; AFill 1; ASet 7%N 5; AHit 7%N] = Some [(-1, -1); (5, 5)].
Proof. vm_compute. repeat split; reflexivity. Qed.
