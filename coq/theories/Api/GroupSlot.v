(* Model of the per-(partition, group) subscriber slot of server/partition.go:
   Subscribe (epoch comparison and replacement under consumersMu) and the deferred
   removeGroupSubscriber of a subscription loop.

   [ident] is the variant switch:
     ident = true  : a finished loop removes the slot only if the slot still holds THIS
                     subscription (tree with the fix: commit)
     ident = false : it removes the slot if the slot names the same consumer id (pinned commit) *)
From LB Require Import Base.Prelude.

Record sub := mkSub { sb_id : nat; sb_cons : N; sb_ep : N }.

Record gst := mkGst {
  slot : option sub;        (* p.consumers[group] *)
  active : list nat;        (* accepted subscriptions that are neither closed nor finished *)
  subs : list sub;          (* every accepted subscription, by id *)
  nxt : nat
}.

Definition gst0 : gst := mkGst None [] [] 0.

Inductive gev :=
| ESub (c e : N)            (* partition.Subscribe with consumer id c and group epoch e *)
| EClose (i : nat)          (* subscription i is closed (client went away) *)
| EExit (i : nat).          (* the loop of subscription i returns: deferred removeGroupSubscriber *)

Definition remove_id (i : nat) (l : list nat) : list nat := filter (fun j => negb (Nat.eqb j i)) l.

Definition cons_of (st : gst) (i : nat) : option N :=
  match find (fun s => Nat.eqb (sb_id s) i) (subs st) with Some s => Some (sb_cons s) | None => None end.

(* result: true = accepted *)
Definition gstep (ident : bool) (st : gst) (ev : gev) : gst * bool :=
  match ev with
  | ESub c e =>
    let accept (act : list nat) :=
      let n := mkSub (nxt st) c e in
      (mkGst (Some n) (nxt st :: act) (subs st ++ [n]) (S (nxt st)), true) in
    match slot st with
    | Some x => if (e <? sb_ep x)%N then (st, false) else accept (remove_id (sb_id x) (active st))
    | None => accept (active st)
    end
  | EClose i => (mkGst (slot st) (remove_id i (active st)) (subs st) (nxt st), true)
  | EExit i =>
    let sl := match slot st with
              | Some x =>
                if ident then (if Nat.eqb (sb_id x) i then None else slot st)
                else match cons_of st i with
                     | Some c => if N.eqb (sb_cons x) c then None else slot st
                     | None => slot st
                     end
              | None => None
              end in
    (mkGst sl (remove_id i (active st)) (subs st) (nxt st), true)
  end.

Definition grun (ident : bool) (evs : list gev) : gst := fold_left (fun st ev => fst (gstep ident st ev)) evs gst0.

(* ---- observation check used by the generated case files ---- *)
Inductive gobs :=
| GEv (ev : gev) (accepted : bool)
| GSlot (present : bool) (id : nat) (c e : N) (nactive : nat).

Fixpoint gcheck (ident : bool) (st : gst) (os : list gobs) (i : nat) : option nat :=
  match os with
  | [] => None
  | GEv ev acc :: r => let '(st', a) := gstep ident st ev in
                       if Bool.eqb a acc then gcheck ident st' r (S i) else Some i
  | GSlot pr id c e na :: r =>
    let ok := match slot st with
              | Some x => pr && Nat.eqb (sb_id x) id && N.eqb (sb_cons x) c && N.eqb (sb_ep x) e
              | None => negb pr
              end && Nat.eqb (length (active st)) na in
    if ok then gcheck ident st r (S i) else Some i
  end.

Fixpoint slot_mismatches (ident : bool) (cs : list (list gobs)) (i : nat) : list (nat * nat) :=
  match cs with
  | [] => []
  | c :: r => match gcheck ident gst0 c 0 with
              | None => slot_mismatches ident r (S i)
              | Some j => (i, j) :: slot_mismatches ident r (S i)
              end
  end.
