From LB Require Import Base.Prelude Api.GroupSlot.

(* at most the subscription held by the slot is active *)
Definition slot_inv (st : gst) : Prop :=
  active st = [] \/ exists x, slot st = Some x /\ active st = [sb_id x].

Lemma remove_id_nil i : remove_id i [] = [].
Proof. reflexivity. Qed.

Lemma remove_id_single i j : remove_id i [j] = if Nat.eqb j i then [] else [j].
Proof. unfold remove_id. cbn. destruct (Nat.eqb j i); reflexivity. Qed.

Theorem gstep_inv st ev : slot_inv st -> slot_inv (fst (gstep true st ev)).
Proof.
  intros Hinv. destruct ev as [c e|i|i]; cbn [gstep].
  - destruct (slot st) as [x|] eqn:Es.
    + destruct (e <? sb_ep x)%N; [exact Hinv|]. cbn [fst]. right. eexists. split; [reflexivity|]. cbn [active sb_id].
      destruct Hinv as [H|(y & Hy & H)]; rewrite H.
      * reflexivity.
      * rewrite Es in Hy. injection Hy as <-. rewrite remove_id_single, Nat.eqb_refl. reflexivity.
    + cbn [fst]. right. eexists. split; [reflexivity|]. cbn [active sb_id].
      destruct Hinv as [H|(y & Hy & H)]; [rewrite H; reflexivity|congruence].
  - cbn [fst]. unfold slot_inv. cbn [active slot].
    destruct Hinv as [H|(y & Hy & H)]; rewrite H.
    + left. reflexivity.
    + rewrite remove_id_single. destruct (Nat.eqb (sb_id y) i); [left; reflexivity|right; eauto].
  - cbn [fst]. unfold slot_inv. cbn [active slot].
    destruct Hinv as [H|(y & Hy & H)]; rewrite H.
    + left. reflexivity.
    + rewrite Hy, remove_id_single. destruct (Nat.eqb (sb_id y) i); [left; reflexivity|right; eauto].
Qed.

Theorem grun_inv evs : slot_inv (grun true evs).
Proof.
  unfold grun. assert (H : slot_inv gst0) by (left; reflexivity). revert H. generalize gst0.
  induction evs as [|ev r IH]; intros st H; [exact H|]. cbn [fold_left]. apply IH. apply gstep_inv. exact H.
Qed.

(* however subscribes, closes and loop exits interleave: at most one active subscription *)
Theorem at_most_one_active evs : length (active (grun true evs)) <= 1.
Proof. destruct (grun_inv evs) as [H|(x & Hx & H)]; rewrite H; cbn; lia. Qed.

(* a subscriber with an older group epoch is refused and changes nothing *)
Theorem stale_epoch_refused ident st x c e : slot st = Some x -> (e < sb_ep x)%N ->
  gstep ident st (ESub c e) = (st, false).
Proof. intros Hs He. cbn [gstep]. rewrite Hs. destruct (N.ltb_spec e (sb_ep x)); [reflexivity|lia]. Qed.

(* an equal or newer epoch replaces the current subscriber: the old one is no longer active,
   the new one is, and it holds the slot *)
Theorem newer_epoch_replaces st x c e : slot_inv st -> slot st = Some x -> (sb_ep x <= e)%N ->
  let st' := fst (gstep true st (ESub c e)) in
  snd (gstep true st (ESub c e)) = true /\ active st' = [nxt st] /\
  slot st' = Some (mkSub (nxt st) c e).
Proof.
  intros Hinv Hs He. cbn [gstep]. rewrite Hs. destruct (N.ltb_spec e (sb_ep x)); [lia|]. cbn.
  split; [reflexivity|]. split; [|reflexivity].
  destruct Hinv as [Ha|(y & Hy & Ha)]; rewrite Ha; [reflexivity|].
  rewrite Hs in Hy. injection Hy as <-. rewrite remove_id_single, Nat.eqb_refl. reflexivity.
Qed.

(* the pinned code (slot removed by consumer id) admits two active subscriptions *)
Definition two_active_witness : list gev := [ESub 1 5; ESub 1 5; EExit 0; ESub 2 1]%N.
Theorem by_consumer_id_refuted : length (active (grun false two_active_witness)) = 2.
Proof. vm_compute. reflexivity. Qed.

(* ---- the replaced loop's clean-up racing the replacement (the schedule the tests never run) ---- *)

(* the loop exit (or the close) of any subscription other than the one in the slot leaves the
   slot and the active subscription alone *)
Theorem exit_of_other_keeps_current st x i : slot_inv st -> slot st = Some x -> i <> sb_id x ->
  let st' := fst (gstep true st (EExit i)) in
  slot st' = Some x /\ active st' = active st /\
  active (fst (gstep true st (EClose i))) = active st /\ slot (fst (gstep true st (EClose i))) = Some x.
Proof.
  intros Hinv Hs Hi. cbn [gstep fst slot active]. rewrite Hs.
  assert (E : Nat.eqb (sb_id x) i = false) by (apply Nat.eqb_neq; congruence).
  rewrite E.
  assert (Ha : remove_id i (active st) = active st).
  { destruct Hinv as [H|(y & Hy & H)]; rewrite H; [reflexivity|].
    rewrite Hs in Hy. injection Hy as <-. rewrite remove_id_single, E. reflexivity. }
  rewrite Ha. repeat split; reflexivity.
Qed.

(* an empty slot accepts any epoch and the newcomer is the only active subscription *)
Theorem empty_slot_accepts st c e : slot_inv st -> slot st = None ->
  let st' := fst (gstep true st (ESub c e)) in
  snd (gstep true st (ESub c e)) = true /\ active st' = [nxt st] /\ slot st' = Some (mkSub (nxt st) c e).
Proof.
  intros Hinv Hs. cbn [gstep]. rewrite Hs. cbn [fst snd active slot].
  destruct Hinv as [H|(y & Hy & _)]; [rewrite H; repeat split; reflexivity|congruence].
Qed.

(* while the slot stays occupied its group epoch never goes back, whatever the event and in
   both variants of the clean-up *)
Theorem slot_epoch_monotone ident st ev x y : slot st = Some x -> slot (fst (gstep ident st ev)) = Some y ->
  (sb_ep x <= sb_ep y)%N.
Proof.
  intros Hx Hy. destruct ev as [c e|i|i]; cbn [gstep] in Hy; rewrite Hx in Hy.
  - destruct (N.ltb_spec e (sb_ep x)) as [Hlt|Hge]; cbn [fst slot] in Hy.
    + try rewrite Hx in Hy. injection Hy as <-. lia.
    + injection Hy as <-. cbn [sb_ep]. exact Hge.
  - cbn [fst slot] in Hy. injection Hy as <-. lia.
  - cbn [fst slot] in Hy. destruct ident.
    + destruct (Nat.eqb (sb_id x) i); [discriminate|]. injection Hy as <-. lia.
    + destruct (cons_of st i) as [c|]; [destruct (N.eqb (sb_cons x) c); [discriminate|]|];
        injection Hy as <-; lia.
Qed.

(* the slot always names the active subscription: whoever is active is the one
   GetGroupConsumer reports *)
Theorem active_is_slot evs i : In i (active (grun true evs)) ->
  exists x, slot (grun true evs) = Some x /\ sb_id x = i.
Proof.
  intros Hin. destruct (grun_inv evs) as [H|(x & Hx & H)]; rewrite H in Hin.
  - destruct Hin.
  - destruct Hin as [<-|[]]. eauto.
Qed.

(* non-vacuity: c1/5 accepted, c2/7 replaces it, c1's loop returns late, c3/6 is refused *)
Example race_example :
  let st := grun true [ESub 1 5; ESub 2 7; EExit 0; ESub 3 6]%N in
  active st = [1] /\ slot st = Some (mkSub 1 2%N 7%N).
Proof. vm_compute. split; reflexivity. Qed.
