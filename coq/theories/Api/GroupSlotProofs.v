From LB Require Import Base.Prelude Api.GroupSlot.

(* at most the subscription held by the slot is active *)
Definition slot_inv (st : gst) : Prop :=
  active st = [] \/ exists x, slot st = Some x /\ active st = [sb_id x].

Lemma remove_id_nil i : remove_id i [] = [].
Proof. reflexivity. Qed.

Lemma remove_id_single i j : remove_id i [j] = if Nat.eqb j i then [] else [j].
Proof. unfold remove_id. cbn. destruct (Nat.eqb j i); reflexivity. Qed.

Theorem gstep_inv st ev : slot_inv st -> slot_inv (fst (gstep true st ev)).
Proof.
  intros Hinv. destruct ev as [c e|i|i]; cbn [gstep].
  - destruct (slot st) as [x|] eqn:Es.
    + destruct (e <? sb_ep x)%N; [exact Hinv|]. cbn [fst]. right. eexists. split; [reflexivity|]. cbn [active sb_id].
      destruct Hinv as [H|(y & Hy & H)]; rewrite H.
      * reflexivity.
      * rewrite Es in Hy. injection Hy as <-. rewrite remove_id_single, Nat.eqb_refl. reflexivity.
    + cbn [fst]. right. eexists. split; [reflexivity|]. cbn [active sb_id].
      destruct Hinv as [H|(y & Hy & H)]; [rewrite H; reflexivity|congruence].
  - cbn [fst]. unfold slot_inv. cbn [active slot].
    destruct Hinv as [H|(y & Hy & H)]; rewrite H.
    + left. reflexivity.
    + rewrite remove_id_single. destruct (Nat.eqb (sb_id y) i); [left; reflexivity|right; eauto].
  - cbn [fst]. unfold slot_inv. cbn [active slot].
    destruct Hinv as [H|(y & Hy & H)]; rewrite H.
    + left. reflexivity.
    + rewrite Hy, remove_id_single. destruct (Nat.eqb (sb_id y) i); [left; reflexivity|right; eauto].
Qed.

Theorem grun_inv evs : slot_inv (grun true evs).
Proof.
  unfold grun. assert (H : slot_inv gst0) by (left; reflexivity). revert H. generalize gst0.
  induction evs as [|ev r IH]; intros st H; [exact H|]. cbn [fold_left]. apply IH. apply gstep_inv. exact H.
Qed.

(* however subscribes, closes and loop exits interleave: at most one active subscription *)
Theorem at_most_one_active evs : length (active (grun true evs)) <= 1.
Proof. destruct (grun_inv evs) as [H|(x & Hx & H)]; rewrite H; cbn; lia. Qed.

(* a subscriber with an older group epoch is refused and changes nothing *)
Theorem stale_epoch_refused ident st x c e : slot st = Some x -> (e < sb_ep x)%N ->
  gstep ident st (ESub c e) = (st, false).
Proof. intros Hs He. cbn [gstep]. rewrite Hs. destruct (N.ltb_spec e (sb_ep x)); [reflexivity|lia]. Qed.

(* an equal or newer epoch replaces the current subscriber: the old one is no longer active,
   the new one is, and it holds the slot *)
Theorem newer_epoch_replaces st x c e : slot_inv st -> slot st = Some x -> (sb_ep x <= e)%N ->
  let st' := fst (gstep true st (ESub c e)) in
  snd (gstep true st (ESub c e)) = true /\ active st' = [nxt st] /\
  slot st' = Some (mkSub (nxt st) c e).
Proof.
  intros Hinv Hs He. cbn [gstep]. rewrite Hs. destruct (N.ltb_spec e (sb_ep x)); [lia|]. cbn.
  split; [reflexivity|]. split; [|reflexivity].
  destruct Hinv as [Ha|(y & Hy & Ha)]; rewrite Ha; [reflexivity|].
  rewrite Hs in Hy. injection Hy as <-. rewrite remove_id_single, Nat.eqb_refl. reflexivity.
Qed.

(* the pinned code (slot removed by consumer id) admits two active subscriptions *)
Definition two_active_witness : list gev := [ESub 1 5; ESub 1 5; EExit 0; ESub 2 1]%N.
Theorem by_consumer_id_refuted : length (active (grun false two_active_witness)) = 2.
Proof. vm_compute. reflexivity. Qed.
