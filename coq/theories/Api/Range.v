(* Model of subscription ranges: partition.getStartOffset / getStopOffset, the timestamp
   look-ups of the commit log, the validation of the range, and the delivery loop of
   newSubscribeLoop over a committed forward or reverse reader (quiescent log).
   This is the tree WITH the range fixes: stop checked by inequality, reverse ranges
   accepted, timestamp look-ups reaching the last / an empty active segment. *)
From LB Require Import Base.Prelude Log.Model Log.Compact.
Open Scope Z_scope.

Inductive startpos := SOffset (o : Z) | SEarliest | SLatest | SNewOnly | STimestamp (t : Z).
Inductive stoppos := TCancel | TOffset (o : Z) | TLatest | TTimestamp (t : Z).
Inductive sub_end := EStop | EReadonlyEnd | EWait | EEof | EInvalid | EEmpty | ENoReader | ETsError.

Definition first_ts (s : seg) : option Z := match s_recs s with [] => None | r :: _ => Some (r_ts r) end.

(* findSegmentIndexByTimestamp: index of the first segment whose first timestamp is > t; an
   empty segment counts as newer *)
Fixpoint seg_index_by_ts (segs : list seg) (t : Z) : nat :=
  match segs with
  | [] => O
  | s :: r => match first_ts s with
              | None => O
              | Some ft => if t <? ft then O else S (seg_index_by_ts r t)
              end
  end.

(* findEntryByTimestamp: first entry whose timestamp is >= t *)
Fixpoint entry_by_ts (rs : list rec) (t : Z) : option rec :=
  match rs with
  | [] => None
  | r :: q => if t <=? r_ts r then Some r else entry_by_ts q t
  end.

Definition nth_seg (segs : list seg) (i : nat) : seg := nth i segs dummy_seg.

(* EarliestOffsetAfterTimestamp *)
Definition earliest_after_ts (l : log) (t : Z) : Z :=
  let segs := l_segs l in
  let idx := seg_index_by_ts segs t in
  let s := if Nat.eqb idx 0 then nth_seg segs 0 else nth_seg segs (idx - 1) in
  match entry_by_ts (s_recs s) t with
  | Some e => r_off e
  | None =>
    if Nat.ltb idx (length segs) then
      match entry_by_ts (s_recs (nth_seg segs idx)) t with
      | Some e => r_off e
      | None => newest l + 1
      end
    else newest l + 1
  end.

(* findEntryBeforeTimestamp: the entry just before the first one whose timestamp is >= t *)
Fixpoint entry_before_ts (prev : option rec) (rs : list rec) (t : Z) : option rec :=
  match rs with
  | [] => prev
  | r :: q => if t <=? r_ts r then prev else entry_before_ts (Some r) q t
  end.

(* LatestOffsetBeforeTimestamp: None = "timestamp is before the beginning of the log" *)
Definition latest_before_ts (l : log) (t : Z) : option Z :=
  let segs := l_segs l in
  let idx := seg_index_by_ts segs t in
  let s := if Nat.eqb idx 0 then nth_seg segs 0 else nth_seg segs (idx - 1) in
  if Nat.eqb idx 0 && (t <? match first_ts s with Some ft => ft | None => 0 end) then None
  else match entry_by_ts (s_recs s) t with
       | Some e => Some (if r_ts e =? t then r_off e
                         else match entry_before_ts None (s_recs s) t with
                              | Some pe => r_off pe            (* the preceding entry: offsets may have gaps *)
                              | None => r_off e - 1
                              end)
       | None => Some (s_last s)
       end.

Definition resolve_start (l : log) (sp : startpos) : Z :=
  let o := match sp with
           | SOffset o => o
           | SEarliest => oldest l
           | SLatest => newest l
           | SNewOnly => newest l + 1
           | STimestamp t => earliest_after_ts l t
           end in
  if o <? 0 then 0 else o.

(* -1 means "wait for new messages" (the code's sentinel) *)
Definition resolve_stop (l : log) (tp : stoppos) : res Z :=
  match tp with
  | TCancel => Ok (if l_ro l then newest l else -1)
  | TOffset o => Ok o
  | TLatest => if newest l =? -1 then Err else Ok (newest l)
  | TTimestamp t => match latest_before_ts l t with Some o => Ok o | None => Panic end
  end.

(* the delivery loop: stop at the first message beyond the stop offset (not delivered), or
   after delivering the stop offset itself *)
Fixpoint deliver (rev : bool) (stop : Z) (rs : list rec) (at_end : sub_end) : list Z * sub_end :=
  match rs with
  | [] => ([], at_end)
  | r :: q =>
    if negb (stop =? -1) && (if rev then r_off r <? stop else stop <? r_off r) then ([], EStop)
    else if r_off r =? stop then ([r_off r], EStop)
    else let '(d, e) := deliver rev stop q at_end in (r_off r :: d, e)
  end.

Definition subscribe (l : log) (sp : startpos) (tp : stoppos) (rev : bool) : list Z * sub_end :=
  let start := resolve_start l sp in
  match resolve_stop l tp with
  | Err => ([], EEmpty)
  | Panic => ([], ETsError)
  | Ok stop =>
    if negb (stop =? -1) && (if rev then start <? stop else stop <? start) then ([], EInvalid)
    else if rev then
      match read_reverse true l start false (-1) with
      | None => ([], ENoReader)
      | Some rs => deliver true stop rs EEof
      end
    else
      let '(rs, e) := read_committed l start in
      match e with
      | EndNotFound | EndOther => ([], ENoReader)
      | EndWait => deliver false stop rs EWait
      | EndReadonly => deliver false stop rs EReadonlyEnd
      end
  end.
