(* C10, "in offset order, each once": consequences of the exact-range theorems -- what a
   forward subscription delivers is strictly increasing, what a reverse one delivers has no
   repetition, and every delivered offset lies inside the requested window. *)
From LB Require Import Base.Prelude Log.Model Log.Proofs Log.Refine Log.CompactProofs Log.CommittedProofs Api.Range Api.RangeProofs.
From Coq Require Import Sorted.
Open Scope Z_scope.

Lemma sorted_offsets_ge lo rs : sorted_from lo rs -> Forall (fun x => lo <= x) (map r_off rs).
Proof.
  revert lo. induction rs as [|r t IH]; intros lo H; [constructor|]. destruct H as [H1 H2].
  cbn [map]. constructor; [exact H1|]. eapply Forall_impl; [|apply (IH _ H2)]. cbn. intros x Hx. lia.
Qed.

Lemma sorted_offsets_strict lo rs : sorted_from lo rs -> StronglySorted Z.lt (map r_off rs).
Proof.
  revert lo. induction rs as [|r t IH]; intros lo H; [constructor|]. destruct H as [H1 H2].
  cbn [map]. constructor; [apply (IH _ H2)|].
  eapply Forall_impl; [|apply (sorted_offsets_ge _ _ H2)]. cbn. intros x Hx. lia.
Qed.

Lemma strict_nodup l : StronglySorted Z.lt l -> NoDup l.
Proof.
  induction 1 as [|x t _ IH Hall]; [constructor|]. constructor; [|exact IH].
  intros Hin. rewrite Forall_forall in Hall. specialize (Hall x Hin). lia.
Qed.

(* forward: strictly increasing offsets (in order, each once), all inside [start, HW] and not
   beyond the stop offset *)
Theorem forward_ordered_once l sp tp stop : wf l -> oldest l <> -1 ->
  (exists r, In r (all_recs l) /\ r_off r = l_hw l) ->
  resolve_stop l tp = Ok stop -> resolve_start l sp <= l_hw l ->
  (stop = -1 \/ resolve_start l sp <= stop) ->
  let out := fst (subscribe l sp tp false) in
  StronglySorted Z.lt out /\ NoDup out /\
  Forall (fun o => resolve_start l sp <= o <= l_hw l /\ (stop = -1 \/ o <= stop)) out.
Proof.
  intros Hw Ho Hhw Hs Hle Hst out.
  assert (E : out = map r_off (filter (in_fwd_range (resolve_start l sp) (l_hw l) stop) (all_recs l)))
    by (apply subscribe_forward_exact; assumption).
  pose proof (wf_all_sorted l Hw) as Hsorted.
  pose proof (filter_sorted (in_fwd_range (resolve_start l sp) (l_hw l) stop) 0 _ Hsorted) as Hf.
  assert (Hss : StronglySorted Z.lt out) by (rewrite E; eapply sorted_offsets_strict; exact Hf).
  split; [exact Hss|]. split; [apply strict_nodup; exact Hss|].
  rewrite E. apply Forall_forall. intros o Hin. apply in_map_iff in Hin. destruct Hin as (r & <- & Hr).
  apply filter_In in Hr. destruct Hr as [_ Hr]. unfold in_fwd_range, in_window in Hr.
  apply andb_prop in Hr. destruct Hr as [Hwin Hstop]. apply andb_prop in Hwin. destruct Hwin as [Ha Hb].
  unfold ge_off, le_off in *. split; [lia|].
  apply orb_prop in Hstop. destruct Hstop as [Hm|Hm]; [left|right]; lia.
Qed.

(* reverse: no offset twice, all at or below the effective start and not below the stop *)
Theorem reverse_once l sp tp stop : wf l -> l_hw l <> -1 ->
  resolve_stop l tp = Ok stop -> (stop = -1 \/ stop <= resolve_start l sp) ->
  let eff := if (l_hw l <? resolve_start l sp) || (resolve_start l sp =? -1) then l_hw l else resolve_start l sp in
  eff <= newest l ->
  let out := fst (subscribe l sp tp true) in
  NoDup out /\ StronglySorted Z.lt (rev out) /\ Forall (fun o => o <= eff /\ (stop = -1 \/ stop <= o)) out.
Proof.
  intros Hw Hh Hs Hst eff Heff out.
  assert (E : out = map r_off (rev (filter (in_rev_range eff stop) (all_recs l))))
    by (apply subscribe_reverse_exact; assumption).
  pose proof (wf_all_sorted l Hw) as Hsorted.
  pose proof (filter_sorted (in_rev_range eff stop) 0 _ Hsorted) as Hf.
  assert (Er : rev out = map r_off (filter (in_rev_range eff stop) (all_recs l)))
    by (rewrite E, map_rev, rev_involutive; reflexivity).
  assert (Hss : StronglySorted Z.lt (rev out)) by (rewrite Er; eapply sorted_offsets_strict; exact Hf).
  split; [|split; [exact Hss|]].
  - apply strict_nodup in Hss. apply NoDup_rev in Hss. rewrite rev_involutive in Hss. exact Hss.
  - apply Forall_forall. intros o Hin. apply in_rev in Hin. rewrite Er in Hin.
    apply in_map_iff in Hin. destruct Hin as (r & <- & Hr).
    apply filter_In in Hr. destruct Hr as [_ Hr]. unfold in_rev_range in Hr.
    apply andb_prop in Hr. destruct Hr as [Ha Hb]. split; [lia|].
    apply orb_prop in Hb. destruct Hb as [Hm|Hm]; [left|right]; lia.
Qed.
