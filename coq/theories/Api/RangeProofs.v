(* A subscription delivers exactly the requested range (model of the tree with the range fixes). *)
From LB Require Import Base.Prelude Log.Model Log.Compact Log.Proofs Log.Refine Log.CompactProofs Log.CommittedProofs Api.Range.
From Coq Require Import ZifyBool.
Open Scope Z_scope.

(* ---- the delivery loop on an ascending list ---- *)
Lemma deliver_forward lo rs stop at_end : sorted_from lo rs -> stop <> -1 ->
  fst (deliver false stop rs at_end) = map r_off (filter (le_off stop) rs) /\
  (snd (deliver false stop rs at_end) = EStop \/
   (snd (deliver false stop rs at_end) = at_end /\ Forall (fun r => r_off r < stop) rs)).
Proof.
  intros Hs Hne. revert lo Hs. induction rs as [|r t IH]; intros lo Hs.
  - cbn. split; [reflexivity|]. right. split; [reflexivity|constructor].
  - destruct Hs as [H1 H2]. cbn [deliver filter]. unfold le_off at 1.
    destruct (Z.eqb_spec stop (-1)); [contradiction|]. cbn [negb andb].
    destruct (Z.ltb_spec stop (r_off r)) as [Hgt|Hle].
    + destruct (Z.leb_spec (r_off r) stop); [lia|]. cbn [fst snd]. split; [|left; reflexivity].
      symmetry. rewrite (filter_le_none (r_off r + 1) t stop) by (assumption || lia). reflexivity.
    + destruct (Z.leb_spec (r_off r) stop); [|lia]. destruct (Z.eqb_spec (r_off r) stop) as [E|E].
      * cbn [fst snd map]. split; [|left; reflexivity].
        rewrite (filter_le_none (r_off r + 1) t stop) by (assumption || lia). reflexivity.
      * destruct (IH (r_off r + 1) H2) as [IH1 IH2].
        destruct (deliver false stop t at_end) as [d e]. cbn [fst snd] in *. cbn [map]. rewrite IH1. split; [reflexivity|].
        destruct IH2 as [->|[-> HF]]; [left; reflexivity|right]. split; [reflexivity|]. constructor; [lia|exact HF].
Qed.

Lemma deliver_nostop rev rs at_end : Forall (fun r => 0 <= r_off r) rs ->
  deliver rev (-1) rs at_end = (map r_off rs, at_end).
Proof.
  induction 1 as [|r t Hr _ IH]; [reflexivity|]. cbn [deliver]. cbn [Z.eqb negb andb].
  destruct (Z.eqb_spec (r_off r) (-1)) as [E|E]; [lia|]. rewrite IH. reflexivity.
Qed.

Lemma sorted_nonneg rs : sorted_from 0 rs -> Forall (fun r => 0 <= r_off r) rs.
Proof.
  intros Hs. pose proof (sorted_all_lt 0 rs ltac:(lia) Hs) as HF. eapply Forall_impl; [|exact HF]. cbn beta. intros; lia.
Qed.

(* ---- descending lists ---- *)
Fixpoint desc (rs : list rec) : Prop :=
  match rs with [] => True | r :: t => Forall (fun x => r_off x < r_off r) t /\ desc t end.

Lemma desc_snoc a r : desc a -> Forall (fun x => r_off r < r_off x) a -> desc (a ++ [r]).
Proof.
  induction a as [|x t IH]; intros Hd Hf; [cbn; split; [constructor|exact I]|].
  destruct Hd as [H1 H2]. inversion Hf as [|? ? Hx Ht]; subst. cbn [app desc]. split.
  - apply Forall_app. split; [exact H1|]. constructor; [lia|constructor].
  - apply IH; assumption.
Qed.

Lemma desc_rev lo rs : 0 <= lo -> sorted_from lo rs -> desc (rev rs).
Proof.
  revert lo. induction rs as [|r t IH]; intros lo Hlo Hs; [exact I|]. destruct Hs as [H1 H2].
  cbn [rev]. apply desc_snoc; [apply (IH (r_off r + 1)); [lia|exact H2]|].
  pose proof (sorted_all_lt (r_off r + 1) t ltac:(lia) H2) as HF.
  rewrite Forall_forall in *. intros x Hx. apply in_rev in Hx. specialize (HF x Hx). lia.
Qed.

Definition ge_stop (stop : Z) (r : rec) : bool := stop <=? r_off r.

Lemma deliver_reverse rs stop at_end : desc rs -> stop <> -1 ->
  fst (deliver true stop rs at_end) = map r_off (filter (ge_stop stop) rs).
Proof.
  intros Hd Hne. induction rs as [|r t IH]; [reflexivity|]. destruct Hd as [H1 H2].
  cbn [deliver filter]. unfold ge_stop at 1. destruct (Z.eqb_spec stop (-1)); [contradiction|]. cbn [negb andb].
  destruct (Z.ltb_spec (r_off r) stop) as [Hlt|Hge].
  - destruct (Z.leb_spec stop (r_off r)); [lia|]. cbn [fst]. symmetry.
    assert (E : filter (ge_stop stop) t = []).
    { clear - H1 Hlt. induction t as [|x q IHq]; [reflexivity|]. inversion H1 as [|? ? Hx Hq]. cbn [filter]. unfold ge_stop at 1.
      destruct (Z.leb_spec stop (r_off x)); [lia|]. apply IHq. assumption. }
    rewrite E. reflexivity.
  - destruct (Z.leb_spec stop (r_off r)); [|lia]. destruct (Z.eqb_spec (r_off r) stop) as [E|E].
    + cbn [fst map]. f_equal.
      assert (E' : filter (ge_stop stop) t = []).
      { clear - H1 E. induction t as [|x q IHq]; [reflexivity|]. inversion H1 as [|? ? Hx Hq]. cbn [filter]. unfold ge_stop at 1.
        destruct (Z.leb_spec stop (r_off x)); [lia|]. apply IHq. assumption. }
      rewrite E'. reflexivity.
    + specialize (IH H2). destruct (deliver true stop t at_end) as [d e]. cbn [fst] in *. cbn [map]. rewrite IH. reflexivity.
Qed.

Lemma filter_rev' {A} (f : A -> bool) l : filter f (rev l) = rev (filter f l).
Proof.
  induction l as [|x t IH]; [reflexivity|]. cbn [rev filter]. rewrite filter_app, IH. cbn [filter].
  destruct (f x); cbn [rev]; [reflexivity|apply app_nil_r].
Qed.

(* ---- the whole subscription ---- *)
Definition in_fwd_range (start hw stop : Z) (r : rec) : bool :=
  in_window start hw r && ((stop =? -1) || (r_off r <=? stop)).

Definition in_rev_range (eff stop : Z) (r : rec) : bool :=
  (r_off r <=? eff) && ((stop =? -1) || (stop <=? r_off r)).

Lemma filter_and {A} (f g : A -> bool) l : filter g (filter f l) = filter (fun x => f x && g x) l.
Proof.
  induction l as [|x t IH]; [reflexivity|]. cbn [filter]. destruct (f x); cbn [filter andb]; [destruct (g x)|]; rewrite ?IH; reflexivity.
Qed.

(* Forward: exactly the committed retained records between the resolved start and stop, in
   offset order -- on any well-formed log (dense, compacted, trimmed, read-only). *)
Theorem subscribe_forward_exact l sp tp stop : wf l -> oldest l <> -1 ->
  (exists r, In r (all_recs l) /\ r_off r = l_hw l) ->
  resolve_stop l tp = Ok stop -> resolve_start l sp <= l_hw l ->
  (stop = -1 \/ resolve_start l sp <= stop) ->
  fst (subscribe l sp tp false) =
  map r_off (filter (in_fwd_range (resolve_start l sp) (l_hw l) stop) (all_recs l)).
Proof.
  intros Hw Hold Hhw Hstop Hstart Hvalid. unfold subscribe. rewrite Hstop.
  assert (Hv : negb (stop =? -1) && (stop <? resolve_start l sp) = false).
  { destruct (Z.eqb_spec stop (-1)); cbn [negb andb]; [reflexivity|]. destruct (Z.ltb_spec stop (resolve_start l sp)); [lia|reflexivity]. }
  rewrite Hv.
  pose proof (read_committed_refines l (resolve_start l sp) Hw Hstart Hold Hhw) as Hrc.
  destruct (read_committed l (resolve_start l sp)) as [rs e] eqn:Erc. cbn [fst] in Hrc.
  assert (He : e = EndWait \/ e = EndReadonly).
  { unfold read_committed in Erc. destruct (Z.ltb_spec (l_hw l) (resolve_start l sp)); [lia|].
    destruct (Z.eqb_spec (oldest l) (-1)); [contradiction|]. cbn [orb] in Erc.
    rewrite (upto_hw_filter 0) in Erc by (try lia; apply Hw || exact Hhw).
    destruct (find_segment (l_segs l) (resolve_start l sp)) as [[i s]|] eqn:Ef.
    - injection Erc as _ <-. unfold end_of. destruct (l_ro l && (l_hw l =? newest l)); auto.
    - exfalso. destruct Hhw as (x & Hx & Ex). apply find_segment_none in Ef.
      pose proof (segs_below_all_lt 0 (l_segs l) _ ltac:(lia) (proj2 Hw) Ef) as HF. rewrite Forall_forall in HF.
      specialize (HF x Hx). lia. }
  assert (Hsorted : sorted_from 0 rs) by (rewrite Hrc; apply filter_sorted; apply wf_all_sorted; exact Hw).
  assert (Hgoal : forall at_end, fst (deliver false stop rs at_end) =
                  map r_off (filter (in_fwd_range (resolve_start l sp) (l_hw l) stop) (all_recs l))).
  { intros at_end. destruct (Z.eq_dec stop (-1)) as [->|Hne].
    - rewrite deliver_nostop by (apply sorted_nonneg; exact Hsorted). cbn [fst]. rewrite Hrc. f_equal. apply filter_ext. intros r. unfold in_fwd_range.
      cbn [Z.eqb orb]. rewrite andb_true_r. reflexivity.
    - rewrite (proj1 (deliver_forward 0 rs stop at_end Hsorted Hne)). rewrite Hrc, filter_and. f_equal.
      apply filter_ext. intros r. unfold in_fwd_range, le_off. destruct (Z.eqb_spec stop (-1)); [contradiction|]. reflexivity. }
  destruct He as [-> | ->]; apply Hgoal.
Qed.

(* Reverse: exactly the committed retained records from min(start, HW) down to the stop offset,
   newest first. *)
Theorem subscribe_reverse_exact l sp tp stop : wf l -> l_hw l <> -1 ->
  resolve_stop l tp = Ok stop -> (stop = -1 \/ stop <= resolve_start l sp) ->
  let eff := if (l_hw l <? resolve_start l sp) || (resolve_start l sp =? -1) then l_hw l else resolve_start l sp in
  eff <= newest l ->
  fst (subscribe l sp tp true) = map r_off (rev (filter (in_rev_range eff stop) (all_recs l))).
Proof.
  intros Hw Hhw Hstop Hvalid eff Heff. unfold subscribe. rewrite Hstop.
  assert (Hv : negb (stop =? -1) && (resolve_start l sp <? stop) = false).
  { destruct (Z.eqb_spec stop (-1)); cbn [negb andb]; [reflexivity|]. destruct (Z.ltb_spec (resolve_start l sp) stop); [lia|reflexivity]. }
  rewrite Hv.
  (* the committed reverse reader is the uncommitted one started at eff *)
  assert (Hrr : read_reverse true l (resolve_start l sp) false (-1) = read_reverse true l eff true (-1)).
  { unfold read_reverse. destruct (Z.eqb_spec (l_hw l) (-1)); [contradiction|]. reflexivity. }
  rewrite Hrr. pose proof (read_reverse_refines l eff (-1) Hw) as Hr.
  destruct (read_reverse true l eff true (-1)) as [rs|]; [|lia].
  assert (Htw : forall q, take_while_ge (-1) q = q).
  { induction q as [|x t IH]; [reflexivity|]. cbn [take_while_ge]. cbn. rewrite IH. reflexivity. }
  rewrite Htw in Hr. subst rs.
  assert (Hd : desc (rev (filter (le_off eff) (all_recs l)))).
  { apply (desc_rev 0); [lia|]. apply filter_sorted. apply wf_all_sorted. exact Hw. }
  destruct (Z.eq_dec stop (-1)) as [->|Hne].
  - rewrite deliver_nostop by (apply Forall_rev; apply sorted_nonneg; apply filter_sorted; apply wf_all_sorted; exact Hw).
    cbn [fst]. f_equal. f_equal. apply filter_ext. intros r. unfold in_rev_range, le_off.
    cbn [Z.eqb orb]. rewrite andb_true_r. reflexivity.
  - rewrite (deliver_reverse _ stop EEof Hd Hne). f_equal.
    rewrite filter_rev'. f_equal. rewrite filter_and. apply filter_ext. intros r.
    unfold in_rev_range, le_off, ge_stop. destruct (Z.eqb_spec stop (-1)); [contradiction|]. reflexivity.
Qed.

(* an empty range is refused; nothing is delivered *)
Theorem subscribe_empty_range_refused l sp tp stop (rv : bool) : resolve_stop l tp = Ok stop -> stop <> -1 ->
  (if rv then resolve_start l sp < stop else stop < resolve_start l sp) ->
  subscribe l sp tp rv = ([], EInvalid).
Proof.
  intros Hstop Hne Hbad. unfold subscribe. rewrite Hstop. destruct (Z.eqb_spec stop (-1)); [contradiction|]. cbn [negb andb].
  destruct rv.
  - destruct (Z.ltb_spec (resolve_start l sp) stop); [reflexivity|lia].
  - destruct (Z.ltb_spec stop (resolve_start l sp)); [reflexivity|lia].
Qed.
