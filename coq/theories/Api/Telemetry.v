(* C19 model: how the effective telemetry switch is resolved, when the collector sends, and
   what the payload may contain. The facts about the current sources come from
   Generated/Telemetry.v, which translate/telemetry.go rewrites from /repo on every run. *)
From Coq Require Import List String Bool.
From LB Require Import Generated.Telemetry.
Import ListNotations.
Open Scope string_scope.

(* ---- configuration resolution (NewDefaultConfig, config file, environment, programmatic) ---- *)
Record cfg_in := mkCfg { c_file : option bool; c_env : option bool; c_prog : option bool }.

(* env_honoured = false is the pinned commit: LIFTBRIDGE_TELEMETRY_ENABLED has no effect *)
Definition resolve (env_honoured : bool) (c : cfg_in) : bool :=
  let f := match c_file c with Some b => b | None => true end in
  let e := if env_honoured then match c_env c with Some b => b | None => f end else f in
  match c_prog c with Some b => b | None => e end.

(* ---- collector life cycle ---- *)
Inductive cev := CStart | CTick | CStop.

(* gate: server.go creates the collector only when enabled; check: Collector.Start returns
   early when disabled *)
Record cst := mkCst { created : bool; running : bool; sends : nat }.

Definition cstep (gate check enabled : bool) (st : cst) (ev : cev) : cst :=
  match ev with
  | CStart =>
    let cr := if gate then enabled else true in
    if cr && (if check then enabled else true)
    then mkCst true true (S (sends st))          (* run(): initial beacon *)
    else mkCst cr false (sends st)
  | CTick => if running st then mkCst (created st) true (S (sends st)) else st
  | CStop => mkCst (created st) false (sends st)
  end.

Definition crun (gate check enabled : bool) (evs : list cev) : cst :=
  fold_left (cstep gate check enabled) evs (mkCst false false 0).

(* ---- facts about the current sources (regenerated on every run) ---- *)
Definition str_mem (s : string) (l : list string) : bool := existsb (String.eqb s) l.
Definition subset (a b : list string) : bool := forallb (fun s => str_mem s b) a.
Fixpoint list_str_eqb (a b : list string) : bool :=
  match a, b with
  | [], [] => true
  | x :: a', y :: b' => String.eqb x y && list_str_eqb a' b'
  | _, _ => false
  end.

(* the collector is only created under the Enabled switch and only started when it exists *)
Definition gate_in_source : bool :=
  list_str_eqb server_new_guards ["s.config.Telemetry.Enabled"] &&
  list_str_eqb server_start_guards ["s.telemetry!=nil"] &&
  (Nat.eqb (List.length server_telemetry_assignments) 1).

(* requests are only made by sendTelemetry, called only from run, started only from Start *)
Definition send_path_in_source : bool :=
  list_str_eqb send_callers ["run"] && list_str_eqb run_callers ["Start"].

(* the documented report: instance id, timestamp, version, OS, CPU and memory figures *)
Definition documented_keys : list string :=
  ["instance_id"; "timestamp"; "liftbridge_version";
   "os"; "os.name"; "os.version"; "os.architecture"; "os.platform";
   "cpu"; "cpu.physical_cores"; "cpu.logical_cores"; "cpu.frequency_mhz";
   "memory"; "memory.total_gb"].

(* everything collectPayload may read: the instance id, the version string, runtime.* and the clock *)
Definition allowed_sources : list string :=
  ["c.instanceID"; "c.version"; "fmt.Sprintf"; "memStats.Sys";
   "runtime.GOARCH"; "runtime.GOOS"; "runtime.MemStats"; "runtime.NumCPU";
   "runtime.ReadMemStats"; "runtime.Version"; "time.Now().UTC().Format"].

(* what sendTelemetry may touch besides the payload: its own fields, the logger, HTTP plumbing *)
Definition allowed_send_sources : list string :=
  ["bytes.NewReader"; "c.client.Do"; "c.collectPayload"; "c.ctx"; "c.instanceID";
   "c.logger.Errorf"; "c.logger.Infof"; "c.logger.Warnf"; "c.version"; "fmt.Sprintf";
   "http.NewRequestWithContext"; "json.Marshal"; "req.Header.Set"; "resp.Body.Close"; "resp.StatusCode"].

Definition only_http_client : bool := subset http_importers ["server/telemetry/telemetry.go"].
