From Coq Require Import List String Bool Lia.
From LB Require Import Generated.Telemetry Api.Telemetry.
Import ListNotations.

(* every documented way of switching telemetry off resolves to "off" *)
Theorem disabling_routes_work c :
  c_prog c = Some false \/ (c_prog c = None /\ c_env c = Some false) \/
  (c_prog c = None /\ c_env c = None /\ c_file c = Some false) ->
  resolve true c = false.
Proof.
  unfold resolve. intros [H|[[H1 H2]|[H1 [H2 H3]]]].
  - rewrite H. reflexivity.
  - rewrite H1, H2. reflexivity.
  - rewrite H1, H2, H3. reflexivity.
Qed.

(* the pinned commit ignores the documented environment variable *)
Theorem env_route_refuted : resolve false (mkCfg None (Some false) None) = true.
Proof. reflexivity. Qed.

Lemma cstep_no_send gate check st ev : gate || check = true -> running st = false ->
  let st' := cstep gate check false st ev in running st' = false /\ sends st' = sends st.
Proof.
  intros Hg Hr. destruct ev; cbn [cstep].
  - destruct gate, check; cbn in *; try discriminate; auto.
  - rewrite Hr. auto.
  - auto.
Qed.

(* with telemetry disabled no request is ever made, for every sequence of start / tick / stop,
   as long as the server gates the collector or Start checks the switch *)
Theorem disabled_never_sends gate check evs : gate || check = true ->
  sends (crun gate check false evs) = 0.
Proof.
  intros Hg. unfold crun.
  assert (H : forall st, running st = false -> running (fold_left (cstep gate check false) evs st) = false /\
                         sends (fold_left (cstep gate check false) evs st) = sends st).
  { induction evs as [|ev r IH]; intros st Hr; [auto|]. cbn [fold_left].
    destruct (cstep_no_send gate check st ev Hg Hr) as [H1 H2].
    destruct (IH _ H1) as [H3 H4]. split; [exact H3|]. cbv zeta in H2. congruence. }
  destruct (H (mkCst false false 0) eq_refl) as [_ E]. exact E.
Qed.

(* facts about the current sources, decided by computation over the generated (finite) lists *)
Theorem source_gates_collector : gate_in_source = true.
Proof. vm_compute. reflexivity. Qed.

Theorem source_start_checks_switch : start_returns_when_disabled = true.
Proof. vm_compute. reflexivity. Qed.

Theorem source_single_send_path : send_path_in_source = true.
Proof. vm_compute. reflexivity. Qed.

Theorem payload_keys_documented : subset payload_keys documented_keys = true.
Proof. vm_compute. reflexivity. Qed.

Theorem payload_sources_allowed : subset payload_sources allowed_sources = true.
Proof. vm_compute. reflexivity. Qed.

Theorem send_sources_allowed : subset send_sources allowed_send_sources = true.
Proof. vm_compute. reflexivity. Qed.

Theorem single_http_client : only_http_client = true.
Proof. vm_compute. reflexivity. Qed.
