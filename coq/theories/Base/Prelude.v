(* Common definitions: Go-like results, Go slice expressions on lists of bytes (as N). *)
From Coq Require Export List NArith ZArith Bool Lia Arith.
From Coq Require Import ZifyBool ZifyNat ZifyN.
Export ListNotations.

(* Outcome of a Go function that returns (value, error) and may panic. *)
Inductive res (A : Type) : Type :=
| Ok (a : A)
| Err
| Panic.
Arguments Ok {A} a.
Arguments Err {A}.
Arguments Panic {A}.

Definition res_class {A} (r : res A) : N :=
  match r with Ok _ => 0 | Err => 1 | Panic => 2 end%N.

Definition bytes := list N.

(* data[lo:] -- panics when lo > len(data) *)
Definition slice_from (lo : nat) (data : bytes) : res bytes :=
  if Nat.ltb (length data) lo then Panic else Ok (skipn lo data).

(* data[lo:hi] -- panics when lo > hi or hi > len(data)  (cap = len in this model) *)
Definition slice (lo hi : nat) (data : bytes) : res bytes :=
  if Nat.ltb hi lo then Panic
  else if Nat.ltb (length data) hi then Panic
  else Ok (firstn (hi - lo) (skipn lo data)).

(* data[i] *)
Definition index (i : nat) (data : bytes) : res N :=
  match nth_error data i with Some b => Ok b | None => Panic end.

Fixpoint bytes_eqb (a b : bytes) : bool :=
  match a, b with
  | [], [] => true
  | x :: a', y :: b' => N.eqb x y && bytes_eqb a' b'
  | _, _ => false
  end.

Lemma bytes_eqb_eq a b : bytes_eqb a b = true <-> a = b.
Proof.
  revert b; induction a as [|x a IH]; intros [|y b]; simpl; split; intros H;
    try reflexivity; try discriminate.
  - apply andb_true_iff in H as [H1 H2]. apply N.eqb_eq in H1. apply IH in H2. congruence.
  - inversion H; subst. rewrite N.eqb_refl. simpl. apply IH. reflexivity.
Qed.

Lemma bytes_eqb_refl a : bytes_eqb a a = true.
Proof. apply bytes_eqb_eq. reflexivity. Qed.

(* big-endian decoding of a byte list *)
Definition be_decode (l : bytes) : N := fold_left (fun acc b => acc * 256 + b)%N l 0%N.

(* big-endian encoding on n bytes *)
Fixpoint be_encode (n : nat) (v : N) : bytes :=
  match n with
  | O => []
  | S n' => be_encode n' (v / 256) ++ [v mod 256]%N
  end.

Definition is_byte (b : N) : Prop := (b < 256)%N.
Definition all_bytes (l : bytes) : Prop := Forall is_byte l.

Lemma be_decode_app l b : be_decode (l ++ [b]) = (be_decode l * 256 + b)%N.
Proof. unfold be_decode. rewrite fold_left_app. reflexivity. Qed.

Lemma be_decode_encode n v : (v < 256 ^ N.of_nat n)%N -> be_decode (be_encode n v) = v.
Proof.
  revert v; induction n as [|n IH]; intros v Hv.
  - change (N.of_nat 0) with 0%N in Hv. rewrite N.pow_0_r in Hv. unfold be_decode. simpl. lia.
  - cbn [be_encode]. rewrite be_decode_app. rewrite IH.
    + pose proof (N.div_mod v 256). lia.
    + rewrite Nat2N.inj_succ, N.pow_succ_r' in Hv.
      apply N.div_lt_upper_bound; lia.
Qed.

Lemma be_encode_length n v : length (be_encode n v) = n.
Proof. revert v; induction n as [|n IH]; intros v; simpl; [reflexivity|]. rewrite app_length, IH. simpl. lia. Qed.

Lemma be_encode_bytes n v : all_bytes (be_encode n v).
Proof.
  revert v; induction n as [|n IH]; intros v; simpl; [constructor|].
  apply Forall_app; split; [apply IH|]. constructor; [|constructor].
  unfold is_byte. apply N.mod_lt. lia.
Qed.

(* nat list helpers used by the case checkers *)
Fixpoint find_mismatches {A} (chk : A -> bool) (l : list A) (i : nat) : list nat :=
  match l with
  | [] => []
  | x :: r => if chk x then find_mismatches chk r (S i) else i :: find_mismatches chk r (S i)
  end.

(* n, n+1, ..., n+k-1 *)
Fixpoint zseq (n : Z) (k : nat) : list Z :=
  match k with O => [] | S k' => n :: zseq (n + 1)%Z k' end.
