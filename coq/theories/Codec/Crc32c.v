(* Bitwise CRC-32C (Castagnoli, reflected polynomial 0x82F63B78), as hash/crc32 computes it.
   Validated against Go on every run of the C14 check ("123456789" -> 0xE3069283 and the
   generated cases).  The rejection theorem in EnvelopeProofs is stated for an arbitrary
   crc function, so it does not depend on this file. *)
From LB Require Import Base.Prelude.

Definition crc_poly : N := 2197175160%N. (* 0x82F63B78 *)
Definition crc_mask : N := 4294967295%N. (* 0xFFFFFFFF *)

Fixpoint crc_bits (n : nat) (c : N) : N :=
  match n with
  | O => c
  | S n' => crc_bits n' (if N.testbit c 0 then N.lxor (N.shiftr c 1) crc_poly else N.shiftr c 1)
  end.

Definition crc_byte (c b : N) : N := crc_bits 8 (N.lxor c b).

Definition crc32c (data : bytes) : N := N.lxor (fold_left crc_byte data crc_mask) crc_mask.

Example crc32c_check :
  crc32c [49;50;51;52;53;54;55;56;57]%N = 3808858755%N. (* 0xE3069283 *)
Proof. vm_compute. reflexivity. Qed.
