(* Model of server/encryption/localkey_handler.go: the stored form of an encrypted value is
     [n] ++ wrapped-key (n bytes) ++ nonce (12 bytes) ++ ciphertext||tag
   AES-GCM and RFC 5649 key wrap (tink KWP) are Section variables; their correctness and
   integrity are hypotheses of the theorems that need them (trusted base).

   [guard] is the variant switch for the bounds checks in Read / decryptData:
     true  : lengths are checked before slicing (tree with the fix: commit)
     false : encryptedData[0], encryptedData[1:n+1], ciphertext[:12] unchecked (pinned commit) *)
From LB Require Import Base.Prelude.

Definition nonce_len : nat := 12.

Section Enc.
  Variable wrap : bytes -> bytes.                       (* KWP wrap under the master key *)
  Variable unwrap : bytes -> option bytes.              (* KWP unwrap under the master key *)
  Variable key_ok : bytes -> bool.                      (* aes.NewCipher accepts the key length *)
  Variable aead_seal : bytes -> bytes -> bytes -> bytes.          (* key, nonce, plaintext *)
  Variable aead_open : bytes -> bytes -> bytes -> option bytes.   (* key, nonce, ciphertext *)

  Definition seal (dek nonce data : bytes) : bytes :=
    [N.of_nat (length (wrap dek))] ++ wrap dek ++ nonce ++ aead_seal dek nonce data.

  Definition fail (guard : bool) : res bytes := if guard then Err else Panic.

  Definition read (guard : bool) (d : bytes) : res bytes :=
    match d with
    | [] => fail guard                                   (* encryptedData[0] *)
    | ks :: _ =>
      let ke := S (N.to_nat ks) in
      if Nat.ltb (length d) ke then fail guard           (* encryptedData[1:keyEndPos] *)
      else
        let w := firstn (N.to_nat ks) (skipn 1 d) in
        let ct := skipn ke d in
        match unwrap w with
        | None => Err
        | Some dek =>
          if negb (key_ok dek) then Err
          else if Nat.ltb (length ct) nonce_len then fail guard   (* encryptedData[:nonceSize] *)
          else match aead_open dek (firstn nonce_len ct) (skipn nonce_len ct) with
               | Some p => Ok p
               | None => Err
               end
        end
    end.
End Enc.

(* ---- observation check: the cryptographic primitives' observed outcomes are inputs ---- *)
Record enc_case := {
  en_data : bytes;
  en_unwrap_ok : bool;     (* unwrapDEK succeeded on the key slice (when the slice exists) *)
  en_key_ok : bool;
  en_open_ok : bool;       (* GCM Open succeeded (when nonce and ciphertext exist) *)
  en_plain : bytes;        (* plaintext returned by Open / by Read *)
  en_cls : N               (* 0 ok, 1 error, 2 panic *)
}.

Definition enc_case_ok (guard : bool) (c : enc_case) : bool :=
  let r := read (fun _ => if en_unwrap_ok c then Some [] else None)
                (fun _ => en_key_ok c)
                (fun _ _ _ => if en_open_ok c then Some (en_plain c) else None)
                guard (en_data c) in
  match r with
  | Ok p => N.eqb (en_cls c) 0 && bytes_eqb p (en_plain c)
  | Err => N.eqb (en_cls c) 1
  | Panic => N.eqb (en_cls c) 2
  end.

Definition enc_mismatches (guard : bool) (cs : list enc_case) : list nat :=
  find_mismatches (enc_case_ok guard) cs 0.
