From LB Require Import Base.Prelude Codec.EncFrame.
From Coq Require Import ZifyBool ZifyNat ZifyN.

Section Proofs.
  Variable wrap : bytes -> bytes.
  Variable unwrap : bytes -> option bytes.
  Variable key_ok : bytes -> bool.
  Variable aead_seal : bytes -> bytes -> bytes -> bytes.
  Variable aead_open : bytes -> bytes -> bytes -> option bytes.

  Notation rd := (read unwrap key_ok aead_open).
  Notation sl := (seal wrap aead_seal).

  (* Reading never panics once the lengths are checked. *)
  Theorem read_total d : rd true d <> Panic.
  Proof.
    unfold read, fail. destruct d as [|ks t]; [discriminate|].
    destruct (Nat.ltb _ _); [discriminate|].
    destruct (unwrap _) as [dek|]; [|discriminate].
    destruct (negb (key_ok dek)); [discriminate|].
    destruct (Nat.ltb _ _); [discriminate|].
    destruct (aead_open _ _ _); discriminate.
  Qed.

  (* The pinned code panics on the empty value and on a key-size byte beyond the data. *)
  Theorem read_unguarded_panics : rd false [] = Panic /\ forall t, length t < 255 -> rd false (255%N :: t) = Panic.
  Proof.
    split; [reflexivity|]. intros t Ht. unfold read, fail. change (N.to_nat 255) with 255.
    destruct (Nat.ltb_spec (length (255%N :: t)) 256); [reflexivity|]. cbn [length] in *. lia.
  Qed.

  (* Every subscriber receives exactly the value that was published. *)
  Theorem seal_read_roundtrip g dek nonce data :
    unwrap (wrap dek) = Some dek -> key_ok dek = true -> length nonce = nonce_len ->
    length (wrap dek) < 256 ->
    aead_open dek nonce (aead_seal dek nonce data) = Some data ->
    rd g (sl dek nonce data) = Ok data.
  Proof.
    intros Hu Hk Hn Hw Ho. unfold read, seal. cbn [app].
    rewrite Nat2N.id.
    assert (Hlen : length (N.of_nat (length (wrap dek)) :: wrap dek ++ nonce ++ aead_seal dek nonce data)
                   = S (length (wrap dek)) + length nonce + length (aead_seal dek nonce data))
      by (cbn [length]; rewrite !app_length; lia).
    destruct (Nat.ltb_spec (length (N.of_nat (length (wrap dek)) :: wrap dek ++ nonce ++ aead_seal dek nonce data)) (S (length (wrap dek)))); [lia|].
    cbn [skipn]. rewrite firstn_app, Nat.sub_diag, firstn_all. cbn [firstn]. rewrite app_nil_r, Hu, Hk. cbn [negb].
    assert (Hs : skipn (length (wrap dek)) (wrap dek ++ nonce ++ aead_seal dek nonce data) = nonce ++ aead_seal dek nonce data).
    { rewrite skipn_app, Nat.sub_diag, skipn_all. reflexivity. }
    rewrite Hs.
    destruct (Nat.ltb_spec (length (nonce ++ aead_seal dek nonce data)) nonce_len) as [H1|H1]; [rewrite app_length in H1; lia|].
    rewrite <- Hn. rewrite firstn_app, Nat.sub_diag, firstn_all. cbn [firstn]. rewrite app_nil_r.
    rewrite skipn_app, Nat.sub_diag, skipn_all. cbn [skipn app]. rewrite Ho. reflexivity.
  Qed.

  (* Whatever Read accepts is a genuine sealing: the key slice unwraps under this master key
     and the rest authenticates under the unwrapped key. *)
  Theorem read_ok_authentic g d p : rd g d = Ok p ->
    exists ks t dek, d = ks :: t /\ S (N.to_nat ks) <= length d /\
      unwrap (firstn (N.to_nat ks) t) = Some dek /\ key_ok dek = true /\
      nonce_len <= length (skipn (N.to_nat ks) t) /\
      aead_open dek (firstn nonce_len (skipn (N.to_nat ks) t)) (skipn nonce_len (skipn (N.to_nat ks) t)) = Some p.
  Proof.
    unfold read, fail. destruct d as [|ks t]; [destruct g; discriminate|].
    destruct (Nat.ltb_spec (length (ks :: t)) (S (N.to_nat ks))) as [H1|H1]; [destruct g; discriminate|].
    cbn [skipn]. destruct (unwrap (firstn (N.to_nat ks) t)) as [dek|] eqn:Eu; [|discriminate].
    destruct (key_ok dek) eqn:Ek; cbn [negb]; [|discriminate].
    destruct (Nat.ltb_spec (length (skipn (N.to_nat ks) t)) nonce_len) as [H2|H2]; [destruct g; discriminate|].
    destruct (aead_open dek _ _) as [q|] eqn:Eo; [|discriminate]. intros [= <-].
    exists ks, t, dek. repeat split; auto.
  Qed.

  (* With ciphertext integrity of the AEAD and of the key wrap -- an opened ciphertext is the
     sealing of the returned plaintext, an unwrapped key comes from its wrapping -- every
     accepted byte string IS a sealed value; so a stored value that was changed in any way into
     something that is not a sealed value yields an error instead of data. *)
  Theorem tampered_value_rejected g d :
    (forall w k, unwrap w = Some k -> w = wrap k) ->
    (forall k n c q, aead_open k n c = Some q -> length n = nonce_len -> c = aead_seal k n q) ->
    (forall k, length (wrap k) < 256) ->
    (forall dek nonce data, length nonce = nonce_len -> d <> sl dek nonce data) ->
    forall p, rd g d <> Ok p.
  Proof.
    intros Hw Ha Hl Hne p H. destruct (read_ok_authentic g d p H) as (ks & t & dek & -> & H1 & Hu & Hk & H2 & Ho).
    set (nonce := firstn nonce_len (skipn (N.to_nat ks) t)) in *.
    assert (Hnl : length nonce = nonce_len) by (unfold nonce; rewrite firstn_length; lia).
    apply (Hne dek nonce p Hnl). unfold seal.
    pose proof (Hw _ _ Hu) as Ew. pose proof (Ha _ _ _ _ Ho Hnl) as Ec.
    assert (Hks : N.to_nat ks = length (wrap dek)).
    { rewrite <- Ew. rewrite firstn_length. cbn [length] in H1. lia. }
    cbn [app]. f_equal.
    - rewrite <- Hks. rewrite N2Nat.id. reflexivity.
    - rewrite <- Ew at 1. rewrite <- Ec. unfold nonce.
      rewrite (firstn_skipn nonce_len). rewrite (firstn_skipn (N.to_nat ks)). reflexivity.
  Qed.

  (* A value sealed under a different master key is rejected. *)
  Theorem wrong_master_key_rejected g (wrap' : bytes -> bytes) dek nonce data :
    unwrap (wrap' dek) = None -> length (wrap' dek) < 256 ->
    forall p, rd g (seal wrap' aead_seal dek nonce data) <> Ok p.
  Proof.
    intros Hu Hl p H. unfold read, seal in H. cbn [app] in H. rewrite Nat2N.id in H.
    destruct (Nat.ltb _ _) in H; [destruct g; discriminate|].
    cbn [skipn] in H. rewrite firstn_app, Nat.sub_diag, firstn_all in H. cbn [firstn] in H. rewrite app_nil_r, Hu in H.
    discriminate.
  Qed.
End Proofs.
