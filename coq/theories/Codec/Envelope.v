(* Model of server/protocol/envelope.go: marshalEnvelope, checkEnvelope,
   UnmarshalReplicationResponse, and of the publish-path decision in
   server/partition.go (getMessage / natsToProtoMessage).

   [guard] is the variant switch for the header-length bounds check:
     guard = true  : the code checks headerLen against len(data) before slicing
                     (tree with the fix: commit)
     guard = false : data[headerLen:] is evaluated unchecked (pinned commit) *)
From LB Require Import Base.Prelude.

Definition magic : bytes := [185; 14; 67; 180]%N.      (* B9 0E 43 B4 *)
Definition min_header_len : nat := 8.

Section Envelope.
  Variable crc : bytes -> N.

  Definition marshal (ty : N) (payload : bytes) : bytes :=
    magic ++ [0; N.of_nat min_header_len; 0; ty]%N ++ payload.

  (* marshal with the optional CRC-32C field (flag bit 0, header length 12); the Go server
     never emits it, clients may. *)
  Definition marshal_crc (ty : N) (payload : bytes) : bytes :=
    magic ++ [0; 12; 1; ty]%N ++ be_encode 4 (crc payload) ++ payload.

  Definition check_envelope (guard : bool) (data : bytes) (ty : N) : res bytes :=
    if Nat.ltb (length data) min_header_len then Err else
    if negb (bytes_eqb (firstn 4 data) magic) then Err else
    if negb (N.eqb (nth 4 data 0%N) 0) then Err else
    let hl := N.to_nat (nth 5 data 0%N) in
    let flags := nth 6 data 0%N in
    let aty := nth 7 data 0%N in
    if guard && (Nat.ltb hl min_header_len || Nat.ltb (length data) hl) then Err else
    match slice_from hl data with
    | Panic => Panic
    | Err => Err
    | Ok payload =>
      if negb (N.eqb aty ty) then Err else
      if N.testbit flags 0 then
        if negb (Nat.eqb hl (min_header_len + 4)) then Err else
        match slice min_header_len hl data with
        | Panic => Panic
        | Err => Err
        | Ok c => if N.eqb (crc payload) (be_decode c) then Ok payload else Err
        end
      else Ok payload
    end.

  (* UnmarshalReplicationResponse: (leader epoch, hw as uint64, message data) *)
  Definition unmarshal_repl_response (guard : bool) (data : bytes) : res (N * N * bytes) :=
    match check_envelope guard data 3%N with
    | Panic => Panic
    | Err => Err
    | Ok payload =>
      if Nat.ltb (length payload) 16 then Err
      else Ok (be_decode (firstn 8 payload), be_decode (firstn 8 (skipn 8 payload)), skipn 16 payload)
    end.

  (* The publish path: a NATS payload is either the envelope it encodes or a raw value. *)
  Section Publish.
    Variable msg : Type.
    Variable pb_unmarshal : bytes -> option msg.  (* golang/protobuf, assumed total *)

    Inductive stored : Type :=
    | Envelope (m : msg)
    | Raw (value : bytes)
    | Crash.

    Definition nats_to_message (guard : bool) (data : bytes) : stored :=
      match check_envelope guard data 0%N with
      | Panic => Crash
      | Err => Raw data
      | Ok payload =>
        match pb_unmarshal payload with
        | Some m => Envelope m
        | None => Raw data
        end
      end.
  End Publish.
End Envelope.

Arguments Envelope {msg} m.
Arguments Raw {msg} value.
Arguments Crash {msg}.
