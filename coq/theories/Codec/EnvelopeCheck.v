(* Executable comparison of observed implementation behaviour with the envelope model.
   Used by the generated case files of the C14 check. *)
From LB Require Import Base.Prelude Codec.Crc32c Codec.Envelope.

Record env_case := { ec_data : bytes; ec_ty : N; ec_cls : N; ec_payload : bytes }.

Definition env_case_ok (c : env_case) : bool :=
  match check_envelope crc32c true (ec_data c) (ec_ty c) with
  | Ok p => N.eqb (ec_cls c) 0 && bytes_eqb p (ec_payload c)
  | Err => N.eqb (ec_cls c) 1
  | Panic => N.eqb (ec_cls c) 2
  end.

Record repl_case := { rc_data : bytes; rc_cls : N; rc_epoch : N; rc_hw : N; rc_rest : bytes }.

Definition repl_case_ok (c : repl_case) : bool :=
  match unmarshal_repl_response crc32c true (rc_data c) with
  | Ok (e, h, r) => N.eqb (rc_cls c) 0 && N.eqb e (rc_epoch c) && N.eqb h (rc_hw c) && bytes_eqb r (rc_rest c)
  | Err => N.eqb (rc_cls c) 1
  | Panic => N.eqb (rc_cls c) 2
  end.

(* publish path: nc_pb_ok is the observed outcome of protobuf decoding of the payload
   (the protobuf library is an oracle, not modelled); nc_kind: 0 envelope, 1 raw, 2 crash *)
Record nats_case := { nc_data : bytes; nc_pb_ok : bool; nc_kind : N }.

Definition nats_case_ok (c : nats_case) : bool :=
  match nats_to_message crc32c unit (fun _ => if nc_pb_ok c then Some tt else None) true (nc_data c) with
  | Envelope _ => N.eqb (nc_kind c) 0
  | Raw v => N.eqb (nc_kind c) 1 && bytes_eqb v (nc_data c)
  | Crash => N.eqb (nc_kind c) 2
  end.

Record crc_case := { cc_data : bytes; cc_crc : N }.
Definition crc_case_ok (c : crc_case) : bool := N.eqb (crc32c (cc_data c)) (cc_crc c).

Definition c14_mismatches (e : list env_case) (r : list repl_case) (n : list nats_case) (c : list crc_case)
  : list nat * list nat * list nat * list nat :=
  (find_mismatches env_case_ok e 0, find_mismatches repl_case_ok r 0,
   find_mismatches nats_case_ok n 0, find_mismatches crc_case_ok c 0).
