From LB Require Import Base.Prelude Codec.Envelope.
From Coq Require Import ZifyBool ZifyNat ZifyN.

Section Proofs.
  Variable crc : bytes -> N.

  Lemma slice_from_ok lo data : lo <= length data -> slice_from lo data = Ok (skipn lo data).
  Proof. intros H. unfold slice_from. destruct (Nat.ltb_spec (length data) lo); [lia|reflexivity]. Qed.

  Lemma slice_ok lo hi data :
    lo <= hi -> hi <= length data -> slice lo hi data = Ok (firstn (hi - lo) (skipn lo data)).
  Proof.
    intros H1 H2. unfold slice.
    destruct (Nat.ltb_spec hi lo); [lia|]. destruct (Nat.ltb_spec (length data) hi); [lia|reflexivity].
  Qed.

  (* Totality with the bounds check. *)
  Theorem check_envelope_total data ty : check_envelope crc true data ty <> Panic.
  Proof.
    unfold check_envelope.
    destruct (Nat.ltb_spec (length data) min_header_len) as [Hlen|Hlen]; [discriminate|].
    destruct (negb (bytes_eqb (firstn 4 data) magic)); [discriminate|].
    destruct (negb (N.eqb (nth 4 data 0%N) 0)); [discriminate|].
    set (hl := N.to_nat (nth 5 data 0%N)).
    cbn [andb].
    destruct (Nat.ltb_spec hl min_header_len) as [H1|H1]; cbn [orb]; [discriminate|].
    destruct (Nat.ltb_spec (length data) hl) as [H2|H2]; [discriminate|].
    rewrite slice_from_ok by lia.
    destruct (negb (N.eqb (nth 7 data 0%N) ty)); [discriminate|].
    destruct (N.testbit (nth 6 data 0%N) 0); [|discriminate].
    destruct (Nat.eqb_spec hl (min_header_len + 4)) as [E|E]; cbn [negb]; [|discriminate].
    rewrite slice_ok by (unfold min_header_len in *; lia).
    destruct (N.eqb _ _); discriminate.
  Qed.

  (* The pinned code (no bounds check) panics on an 8-byte header whose length byte is 255. *)
  Definition panic_witness : bytes := [185; 14; 67; 180; 0; 255; 0; 0]%N.
  Theorem check_envelope_unguarded_panics : check_envelope crc false panic_witness 0%N = Panic.
  Proof. vm_compute. reflexivity. Qed.

  (* What an accepted envelope looks like: "decoded as exactly the envelope it encodes". *)
  Theorem check_envelope_ok_shape g data ty p :
    check_envelope crc g data ty = Ok p ->
    min_header_len <= length data /\ firstn 4 data = magic /\ nth 4 data 0%N = 0%N /\
    nth 7 data 0%N = ty /\ N.to_nat (nth 5 data 0%N) <= length data /\
    p = skipn (N.to_nat (nth 5 data 0%N)) data /\
    (N.testbit (nth 6 data 0%N) 0 = true ->
       N.to_nat (nth 5 data 0%N) = 12 /\ crc p = be_decode (firstn 4 (skipn 8 data))).
  Proof.
    unfold check_envelope.
    destruct (Nat.ltb_spec (length data) min_header_len) as [Hlen|Hlen]; [discriminate|].
    destruct (bytes_eqb (firstn 4 data) magic) eqn:Hm; cbn [negb]; [|discriminate].
    apply bytes_eqb_eq in Hm.
    destruct (N.eqb_spec (nth 4 data 0%N) 0) as [Hv|Hv]; cbn [negb]; [|discriminate].
    set (hl := N.to_nat (nth 5 data 0%N)).
    destruct (g && _); [discriminate|].
    unfold slice_from.
    destruct (Nat.ltb_spec (length data) hl) as [H2|H2]; [discriminate|].
    destruct (N.eqb_spec (nth 7 data 0%N) ty) as [Ht|Ht]; cbn [negb]; [|discriminate].
    destruct (N.testbit (nth 6 data 0%N) 0) eqn:Hf.
    - destruct (Nat.eqb_spec hl (min_header_len + 4)) as [E|E]; cbn [negb]; [|discriminate].
      rewrite slice_ok by (unfold min_header_len in *; lia).
      destruct (N.eqb_spec (crc (skipn hl data)) (be_decode (firstn (hl - min_header_len) (skipn min_header_len data)))) as [Hc|Hc];
        [|discriminate].
      intros [= <-].
      split; [lia|]. split; [assumption|]. split; [assumption|]. split; [assumption|].
      split; [lia|]. split; [reflexivity|]. intros _. split; [exact E|].
      rewrite Hc. fold hl. rewrite E. reflexivity.
    - intros [= <-].
      split; [lia|]. split; [assumption|]. split; [assumption|]. split; [assumption|].
      split; [lia|]. split; [reflexivity|]. discriminate.
  Qed.

  (* A payload whose optional checksum does not match is rejected. *)
  Theorem crc_mismatch_rejected g data ty :
    N.testbit (nth 6 data 0%N) 0 = true ->
    crc (skipn 12 data) <> be_decode (firstn 4 (skipn 8 data)) ->
    forall p, check_envelope crc g data ty <> Ok p.
  Proof.
    intros Hf Hc p Hok. apply check_envelope_ok_shape in Hok.
    destruct Hok as (_ & _ & _ & _ & _ & Hp & Hcrc).
    destruct (Hcrc Hf) as [H12 Heq]. rewrite H12 in Hp. subst p. contradiction.
  Qed.

  (* Round trip of the server's own encoder, for every payload and type byte. *)
  Theorem marshal_roundtrip g ty payload :
    (ty < 256)%N -> check_envelope crc g (marshal ty payload) ty = Ok payload.
  Proof.
    intros Hty. unfold check_envelope.
    assert (HL : length (marshal ty payload) = 8 + length payload) by reflexivity.
    assert (HM : firstn 4 (marshal ty payload) = magic) by reflexivity.
    assert (H4 : nth 4 (marshal ty payload) 0%N = 0%N) by reflexivity.
    assert (H5 : nth 5 (marshal ty payload) 0%N = 8%N) by reflexivity.
    assert (H6 : nth 6 (marshal ty payload) 0%N = 0%N) by reflexivity.
    assert (H7 : nth 7 (marshal ty payload) 0%N = ty) by reflexivity.
    assert (HS : skipn 8 (marshal ty payload) = payload) by reflexivity.
    rewrite HL, HM, H4, H5, H6, H7. change (N.to_nat 8) with 8. unfold min_header_len.
    destruct (Nat.ltb_spec (8 + length payload) 8); [lia|].
    rewrite bytes_eqb_refl, !N.eqb_refl. cbn [negb].
    change (Nat.ltb 8 8) with false. cbn [orb]. rewrite andb_false_r.
    rewrite slice_from_ok by lia. rewrite HS. reflexivity.
  Qed.

  Theorem marshal_crc_roundtrip g ty payload :
    (ty < 256)%N -> (crc payload < 256 ^ 4)%N ->
    check_envelope crc g (marshal_crc crc ty payload) ty = Ok payload.
  Proof.
    intros Hty Hc. unfold check_envelope.
    pose proof (be_encode_length 4 (crc payload)) as HE.
    assert (HD : marshal_crc crc ty payload =
                 magic ++ [0; 12; 1; ty]%N ++ be_encode 4 (crc payload) ++ payload) by reflexivity.
    destruct (be_encode 4 (crc payload)) as [|c0 [|c1 [|c2 [|c3 [|c4 rest]]]]] eqn:HB; try discriminate.
    set (data := marshal_crc crc ty payload) in *.
    assert (HL : length data = 12 + length payload) by (rewrite HD; reflexivity).
    assert (HM : firstn 4 data = magic) by (rewrite HD; reflexivity).
    assert (H4 : nth 4 data 0%N = 0%N) by (rewrite HD; reflexivity).
    assert (H5 : nth 5 data 0%N = 12%N) by (rewrite HD; reflexivity).
    assert (H6 : nth 6 data 0%N = 1%N) by (rewrite HD; reflexivity).
    assert (H7 : nth 7 data 0%N = ty) by (rewrite HD; reflexivity).
    assert (HS : skipn 12 data = payload) by (rewrite HD; reflexivity).
    assert (HC : firstn 4 (skipn 8 data) = [c0; c1; c2; c3]) by (rewrite HD; reflexivity).
    rewrite HL, HM, H4, H5, H6, H7. change (N.to_nat 12) with 12. unfold min_header_len.
    destruct (Nat.ltb_spec (12 + length payload) 8); [lia|].
    rewrite bytes_eqb_refl, !N.eqb_refl. cbn [negb].
    change (Nat.ltb 12 8) with false. cbn [orb].
    destruct (Nat.ltb_spec (12 + length payload) 12); [lia|]. rewrite andb_false_r.
    rewrite slice_from_ok by lia. rewrite HS.
    change (N.testbit 1 0) with true. cbv iota.
    change (Nat.eqb 12 (8 + 4)) with true. cbn [negb].
    rewrite slice_ok by lia. change (12 - 8) with 4. rewrite HC.
    rewrite <- HB. rewrite be_decode_encode by exact Hc. rewrite N.eqb_refl. reflexivity.
  Qed.

  Theorem repl_response_total data : unmarshal_repl_response crc true data <> Panic.
  Proof.
    unfold unmarshal_repl_response.
    destruct (check_envelope crc true data 3%N) eqn:E.
    - destruct (Nat.ltb _ _); discriminate.
    - discriminate.
    - exfalso. eapply check_envelope_total; eauto.
  Qed.

  Section Publish.
    Variable msg : Type.
    Variable pb_unmarshal : bytes -> option msg.

    (* envelope-or-raw: never a crash; a decoded message comes from a well-formed publish
       envelope whose payload decodes to it; everything else is stored verbatim. *)
    Theorem nats_to_message_cases data :
      (nats_to_message crc msg pb_unmarshal true data = Raw data) \/
      (exists m p, nats_to_message crc msg pb_unmarshal true data = Envelope m /\
                   check_envelope crc true data 0%N = Ok p /\ pb_unmarshal p = Some m).
    Proof.
      unfold nats_to_message.
      destruct (check_envelope crc true data 0%N) as [p| |] eqn:E.
      - destruct (pb_unmarshal p) as [m|] eqn:P; [right; exists m, p; auto | left; reflexivity].
      - left; reflexivity.
      - exfalso. eapply check_envelope_total; eauto.
    Qed.

    Theorem nats_to_message_marshalled m payload :
      pb_unmarshal payload = Some m ->
      nats_to_message crc msg pb_unmarshal true (marshal 0%N payload) = Envelope m.
    Proof.
      intros H. unfold nats_to_message. rewrite marshal_roundtrip by lia. rewrite H. reflexivity.
    Qed.
  End Publish.
End Proofs.
