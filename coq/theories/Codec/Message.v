(* Model of the stored message format (server/commitlog/message.go, encoder.go):
     crc(4) magic(1) attributes(1) key value int16(#headers) { int16 len, name, value }*
   where key, value and header values are "bytes": int32 length (-1 for nil) followed by the
   bytes, and header names are int16-length-prefixed strings.  nil and empty are distinct. *)
From LB Require Import Base.Prelude.
Open Scope Z_scope.

Record message := mkMessage {
  g_crc : N; g_magic : N; g_attr : N;
  g_key : option bytes; g_value : option bytes;
  g_headers : list (bytes * option bytes)       (* in encoding order *)
}.

Definition u32_minus1 : N := 4294967295%N.

Definition put_bytes (b : option bytes) : bytes :=
  match b with
  | None => be_encode 4 u32_minus1
  | Some x => be_encode 4 (N.of_nat (length x)) ++ x
  end.

Definition put_string (s : bytes) : bytes := be_encode 2 (N.of_nat (length s)) ++ s.

Definition put_header (h : bytes * option bytes) : bytes := put_string (fst h) ++ put_bytes (snd h).

Definition encode (m : message) : bytes :=
  be_encode 4 (g_crc m) ++ [g_magic m; g_attr m] ++ put_bytes (g_key m) ++ put_bytes (g_value m) ++
  be_encode 2 (N.of_nat (length (g_headers m))) ++ concat (map put_header (g_headers m)).

(* int32(uint32) *)
Definition i32 (l : bytes) : Z :=
  let n := Z.of_N (be_decode (firstn 4 l)) in if 2147483648 <=? n then n - 4294967296 else n.
Definition u16 (l : bytes) : nat := N.to_nat (be_decode (firstn 2 l)).

(* a length-prefixed "bytes" field at the head of l: (value, rest) *)
Definition get_bytes (l : bytes) : option bytes * bytes :=
  let sz := i32 l in
  if sz =? -1 then (None, skipn 4 l)
  else (Some (firstn (Z.to_nat sz) (skipn 4 l)), skipn (Z.to_nat sz) (skipn 4 l)).

Definition key_of (m : bytes) : option bytes := fst (get_bytes (skipn 6 m)).
Definition value_of (m : bytes) : option bytes := fst (get_bytes (snd (get_bytes (skipn 6 m)))).

Fixpoint get_headers (n : nat) (l : bytes) : list (bytes * option bytes) :=
  match n with
  | O => []
  | S n' =>
    let kl := u16 l in
    let name := firstn kl (skipn 2 l) in
    let '(v, rest) := get_bytes (skipn kl (skipn 2 l)) in
    (name, v) :: get_headers n' rest
  end.

Definition headers_of (m : bytes) : list (bytes * option bytes) :=
  let after_value := snd (get_bytes (snd (get_bytes (skipn 6 m)))) in
  get_headers (u16 after_value) (skipn 2 after_value).

(* the limits the encoder itself enforces *)
Definition bytes_wf (b : option bytes) : Prop :=
  match b with None => True | Some x => (Z.of_nat (length x) < 2147483648) end.
Definition message_wf (m : message) : Prop :=
  bytes_wf (g_key m) /\ bytes_wf (g_value m) /\ Z.of_nat (length (g_headers m)) < 32768 /\
  Forall (fun h => Z.of_nat (length (fst h)) < 32768 /\ bytes_wf (snd h)) (g_headers m).
