From LB Require Import Base.Prelude Codec.Message.
From Coq Require Import ZifyBool ZifyNat ZifyN.
Open Scope Z_scope.

Lemma firstn_app_exact {A} (a b : list A) : firstn (length a) (a ++ b) = a.
Proof. rewrite firstn_app, Nat.sub_diag, firstn_all. cbn. apply app_nil_r. Qed.

Lemma skipn_app_exact {A} (a b : list A) : skipn (length a) (a ++ b) = b.
Proof. rewrite skipn_app, Nat.sub_diag, skipn_all. reflexivity. Qed.

Lemma firstn_be n v (rest : bytes) : firstn n (be_encode n v ++ rest) = be_encode n v.
Proof. rewrite <- (be_encode_length n v) at 1. apply firstn_app_exact. Qed.

Lemma skipn_be n v (rest : bytes) : skipn n (be_encode n v ++ rest) = rest.
Proof. rewrite <- (be_encode_length n v) at 1. apply skipn_app_exact. Qed.

Lemma i32_minus1 rest : i32 (be_encode 4 u32_minus1 ++ rest) = -1.
Proof. unfold i32. rewrite firstn_be, be_decode_encode by (vm_compute; reflexivity). reflexivity. Qed.

Lemma i32_len n rest : Z.of_nat n < 2147483648 -> i32 (be_encode 4 (N.of_nat n) ++ rest) = Z.of_nat n.
Proof.
  intros H. unfold i32. rewrite firstn_be, be_decode_encode.
  - rewrite nat_N_Z. destruct (Z.leb_spec 2147483648 (Z.of_nat n)); lia.
  - change (256 ^ N.of_nat 4)%N with 4294967296%N. lia.
Qed.

Lemma u16_len n rest : Z.of_nat n < 32768 -> u16 (be_encode 2 (N.of_nat n) ++ rest) = n.
Proof.
  intros H. unfold u16. rewrite firstn_be, be_decode_encode; [lia|].
  change (256 ^ N.of_nat 2)%N with 65536%N. lia.
Qed.

(* nil stays nil, empty stays empty *)
Lemma get_put_bytes b rest : bytes_wf b -> get_bytes (put_bytes b ++ rest) = (b, rest).
Proof.
  intros Hwf. unfold get_bytes, put_bytes. destruct b as [x|].
  - rewrite <- app_assoc. rewrite i32_len by exact Hwf.
    destruct (Z.eqb_spec (Z.of_nat (length x)) (-1)); [lia|].
    rewrite skipn_be, Nat2Z.id, firstn_app_exact, skipn_app_exact. reflexivity.
  - rewrite i32_minus1. cbn [Z.eqb]. rewrite skipn_be. reflexivity.
Qed.

Lemma get_put_headers hs rest :
  Forall (fun h => Z.of_nat (length (fst h)) < 32768 /\ bytes_wf (snd h)) hs ->
  get_headers (length hs) (concat (map put_header hs) ++ rest) = hs.
Proof.
  induction 1 as [|[name v] t [Hn Hv] _ IH]; [reflexivity|].
  cbn [length map concat]. cbn [fst snd] in *.
  assert (E : (put_header (name, v) ++ concat (map put_header t)) ++ rest =
              be_encode 2 (N.of_nat (length name)) ++ (name ++ (put_bytes v ++ (concat (map put_header t) ++ rest)))).
  { unfold put_header, put_string. cbn [fst snd]. rewrite <- !app_assoc. reflexivity. }
  rewrite E. cbn [get_headers]. rewrite u16_len by exact Hn. rewrite skipn_be, firstn_app_exact, skipn_app_exact.
  rewrite get_put_bytes by exact Hv. rewrite IH. reflexivity.
Qed.

Lemma skipn6_encode m : skipn 6 (encode m) =
  put_bytes (g_key m) ++ put_bytes (g_value m) ++ be_encode 2 (N.of_nat (length (g_headers m))) ++
  concat (map put_header (g_headers m)).
Proof.
  unfold encode. pose proof (be_encode_length 4 (g_crc m)) as HL.
  destruct (be_encode 4 (g_crc m)) as [|a [|b [|c [|d [|e r]]]]]; try discriminate. reflexivity.
Qed.

(* Reading back the stored form returns exactly the key, value and headers that were stored,
   nil and empty distinguished. *)
Theorem message_roundtrip m : message_wf m ->
  key_of (encode m) = g_key m /\ value_of (encode m) = g_value m /\ headers_of (encode m) = g_headers m.
Proof.
  intros (Hk & Hv & Hn & Hh). unfold key_of, value_of, headers_of. rewrite skipn6_encode.
  rewrite get_put_bytes by exact Hk. cbn [fst snd]. rewrite get_put_bytes by exact Hv. cbn [fst snd].
  split; [reflexivity|]. split; [reflexivity|].
  rewrite u16_len by exact Hn. rewrite skipn_be.
  rewrite <- (app_nil_r (concat (map put_header (g_headers m)))). apply get_put_headers. exact Hh.
Qed.
