(* Replays an observed operation history on the model and reports the first observation
   that differs. Used by the generated case files (C01, C16, ...). *)
From LB Require Import Base.Prelude Log.Model Log.Retention Log.Compact Codec.Message Api.Range.
Open Scope Z_scope.

Inductive lop :=
| LAppend (ms : list msg) (res : N) (offs : list Z)
| LASet (rs : list rec) (res : N) (offs : list Z)
| LTrunc (o : Z)
| LReopen
| LHw (h : Z)
| LRo (b : bool)
| LRead (unc : bool) (o : Z) (recs : list rec) (e : N)
| LState (nw od hw : Z)
| LClean (ttl : Z)
| LLayout (lay : list (Z * Z * Z))
| LHwSet (h : Z)                       (* OverrideHighWatermark *)
| LSub (sp : startpos) (tp : stoppos) (rev : bool) (offs : list Z) (e : N)
| LCleanC (ttl : Z)                     (* Clean() on a log with Compact = true *)
| LRRead (unc : bool) (start stop : Z) (found : bool) (recs : list rec)   (* reverse reader *)
| LCleanRoll (ttl : Z) (during : list (list msg * N * list Z))   (* appends that arrive while Clean runs *)
| LCleanCRoll (ttl : Z) (during : list (list msg * N * list Z))   (* the same with Compact = true *)
| LROpen (id : nat) (unc : bool) (o : Z) (ok : bool)
| LRNext (id : nat) (recs : list rec) (e : N).   (* (base, message count, position) per segment *)

Definition rec_eqb (a b : rec) : bool :=
  (r_off a =? r_off b) && (r_ts a =? r_ts b) && N.eqb (r_ep a) (r_ep b) && bytes_eqb (r_body a) (r_body b).

Fixpoint list_eqb {A} (eq : A -> A -> bool) (a b : list A) : bool :=
  match a, b with
  | [], [] => true
  | x :: a', y :: b' => eq x y && list_eqb eq a' b'
  | _, _ => false
  end.

Definition end_code (e : rd_end) : N :=
  match e with EndWait => 0 | EndReadonly => 1 | EndNotFound => 2 | EndOther => 3 end%N.

Definition sub_end_code (e : sub_end) : N :=
  match e with EStop => 0 | EReadonlyEnd => 1 | EWait => 2 | EEof => 3 | EInvalid => 4 | EEmpty => 5 | ENoReader => 6 | ETsError => 7 end%N.

Record lcase := { lc_maxb : Z; lc_cc : bool; lc_lim : limits; lc_ops : list lop }.

Definition layout_eqb (a b : Z * Z * Z) : bool :=
  let '(x1, y1, z1) := a in let '(x2, y2, z2) := b in (x1 =? x2) && (y1 =? y2) && (z1 =? z2).

(* returns (new state, agrees?) *)
Definition rtab := list (nat * reader).
Fixpoint rt_get (t : rtab) (i : nat) : option reader :=
  match t with [] => None | (j, r) :: q => if Nat.eqb i j then Some r else rt_get q i end.

Definition step_log (maxb : Z) (cc : bool) (lim : limits) (l : log) (o : lop) : log * bool :=
  match o with
  | LAppend ms res offs =>
    match append maxb cc l ms with
    | Ok (l', os) => (l', N.eqb res 0 && list_eqb Z.eqb os offs)
    | Err => (append_log maxb cc l ms, N.eqb res 1)
    | Panic => (l, N.eqb res 2)
    end
  | LASet rs res offs =>
    match append_set maxb l rs with
    | Ok (l', os) => (l', N.eqb res 0 && list_eqb Z.eqb os offs)
    | Err => (l, N.eqb res 1)
    | Panic => (l, N.eqb res 2)
    end
  | LTrunc t => (truncate l t, true)
  | LReopen => (reopen l, true)
  | LHw h => (set_hw l h, true)
  | LRo b => (set_readonly l b, true)
  | LRead unc s recs e =>
    let '(rs, en) := if unc then read_uncommitted l s else read_committed l s in
    (l, list_eqb rec_eqb rs recs && N.eqb (end_code en) e)
  | LState nw od hw => (l, (newest l =? nw) && (oldest l =? od) && (l_hw l =? hw))
  | LClean ttl => (clean lim ttl l, true)
  | LCleanC ttl => (clean_compact key_of false lim ttl l, true)
  | LHwSet h => (mkLog (l_segs l) h (l_cache l) (l_ro l), true)
  | LSub sp tp rv offs e =>
    let '(d, en) := subscribe l sp tp rv in
    (l, list_eqb Z.eqb d offs && N.eqb (sub_end_code en) e)
  | LRRead unc start stop found recs =>
    match read_reverse true l start unc stop with
    | Some rs => (l, found && list_eqb rec_eqb rs recs)
    | None => (l, negb found)
    end
  | LCleanRoll ttl during =>
    let n := length (l_segs l) in
    let '(l1, ok) := fold_left (fun st a => let '(l0, ok0) := st in let '(ms, res, offs) := a in
                                 match append maxb cc l0 ms with
                                 | Ok (l', os) => (l', ok0 && N.eqb res 0 && list_eqb Z.eqb os offs)
                                 | Err => (append_log maxb cc l0 ms, ok0 && N.eqb res 1)
                                 | Panic => (l0, ok0 && N.eqb res 2)
                                 end) during (l, true) in
    let segs := retain lim ttl (firstn n (l_segs l1)) ++ skipn n (l_segs l1) in
    (mkLog segs (l_hw l1) (cache_clear_earliest (l_cache l1) (match segs with [] => 0 | s :: _ => s_base s end)) (l_ro l1), ok)
  | LCleanCRoll ttl during =>
    (* the cleaner works on the n segments it saw when it started (their content includes what
       was appended to the then-active one); segments rolled meanwhile are rebased behind *)
    let n := length (l_segs l) in
    let '(l1, ok) := fold_left (fun st a => let '(l0, ok0) := st in let '(ms, res, offs) := a in
                                 match append maxb cc l0 ms with
                                 | Ok (l', os) => (l', ok0 && N.eqb res 0 && list_eqb Z.eqb os offs)
                                 | Err => (append_log maxb cc l0 ms, ok0 && N.eqb res 1)
                                 | Panic => (l0, ok0 && N.eqb res 2)
                                 end) during (l, true) in
    let s1 := retain lim ttl (firstn n (l_segs l1)) in
    let rest := skipn n (l_segs l1) in
    match s1 with
    | [] | [_] =>
      let segs := s1 ++ rest in
      (mkLog segs (l_hw l1) (cache_clear_earliest (l_cache l1) (match segs with [] => 0 | s :: _ => s_base s end)) (l_ro l1), ok)
    | _ =>
      let segs := compact_segs key_of false (l_hw l1) s1 ++ rest in
      (mkLog segs (l_hw l1) (cache_assign_all [] (concat (map s_recs segs))) (l_ro l1), ok)
    end
  | LLayout lay => (l, list_eqb layout_eqb (map (fun s => (s_base s, s_count s, s_pos s)) (l_segs l)) lay)
  | LROpen _ _ _ _ => (l, true)
  | LRNext _ _ _ => (l, true)
  end.

Definition step (maxb : Z) (cc : bool) (lim : limits) (st : log * rtab) (o : lop) : (log * rtab) * bool :=
  let '(l, t) := st in
  match o with
  | LROpen id unc s ok =>
    match reader_open l unc s with
    | Some r => ((l, (id, r) :: t), ok)
    | None => ((l, t), negb ok)
    end
  | LRNext id recs e =>
    match rt_get t id with
    | None => ((l, t), false)
    | Some r => let '(rs, en, r') := reader_drain l r in
                ((l, (id, r') :: t), list_eqb rec_eqb rs recs && N.eqb (end_code en) e)
    end
  | _ => let '(l', ok) := step_log maxb cc lim l o in ((l', t), ok)
  end.

Fixpoint run_ops (maxb : Z) (cc : bool) (lim : limits) (l : log * rtab) (ops : list lop) (i : nat) : option nat :=
  match ops with
  | [] => None
  | o :: r => let '(l', ok) := step maxb cc lim l o in
              if ok then run_ops maxb cc lim l' r (S i) else Some i
  end.

Definition lcase_result (c : lcase) : option nat := run_ops (lc_maxb c) (lc_cc c) (lc_lim c) (new_log, []) (lc_ops c) 0.

(* list of (case index, op index) of the first disagreement in each disagreeing case *)
Fixpoint lcases_mismatches (cs : list lcase) (i : nat) : list (nat * nat) :=
  match cs with
  | [] => []
  | c :: r => match lcase_result c with
              | None => lcases_mismatches r (S i)
              | Some j => (i, j) :: lcases_mismatches r (S i)
              end
  end.
