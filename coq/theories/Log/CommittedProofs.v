(* The committed reader on a quiescent log: exactly the retained records from its start offset
   up to the high watermark. *)
From LB Require Import Base.Prelude Log.Model Log.Proofs Log.Refine Log.CompactProofs.
From Coq Require Import ZifyBool.
Open Scope Z_scope.

Definition in_window (o h : Z) (r : rec) : bool := (o <=? r_off r) && (r_off r <=? h).

(* ---- sorted lists: prefix up to an offset that is present ---- *)
Lemma upto_entry_filter lo rs h : 0 <= lo -> sorted_from lo rs -> (exists r, In r rs /\ r_off r = h) ->
  upto_entry rs h = Some (filter (le_off h) rs).
Proof.
  revert lo. induction rs as [|r t IH]; intros lo Hlo Hs (x & Hx & Ex); [destruct Hx|].
  destruct Hs as [H1 H2]. cbn [upto_entry filter]. unfold le_off at 1.
  destruct (Z.leb_spec h (r_off r)) as [Hle|Hgt].
  - (* first entry >= h: it must be h itself, everything after is larger *)
    assert (r_off r = h).
    { destruct Hx as [->|Hx]; [exact Ex|].
      pose proof (sorted_all_lt (r_off r + 1) t ltac:(lia) H2) as HF. rewrite Forall_forall in HF. specialize (HF x Hx). lia. }
    destruct (Z.leb_spec (r_off r) h); [|lia]. f_equal. f_equal. symmetry. apply (filter_le_none (r_off r + 1)); [exact H2|lia].
  - destruct (Z.leb_spec (r_off r) h); [|lia].
    destruct Hx as [->|Hx]; [lia|]. rewrite (IH (r_off r + 1) ltac:(lia) H2) by eauto. reflexivity.
Qed.

Lemma upto_hw_filter lo segs h : 0 <= lo -> segs_wf lo segs -> (exists r, In r (flat segs) /\ r_off r = h) ->
  upto_hw segs h = Ok (filter (le_off h) (flat segs)).
Proof.
  revert lo. induction segs as [|s t IH]; intros lo Hlo Hw (x & Hx & Ex); [destruct Hx|].
  destruct Hw as (H1 & H2 & H3). cbn [upto_hw]. pose proof (s_next_ge s ltac:(lia) H2) as Hn.
  unfold flat in *. cbn [map concat] in *. fold (flat t) in *.
  destruct (Z.ltb_spec h (s_next s)) as [Hlt|Hge].
  - (* the HW segment *)
    assert (Hin : In x (s_recs s)).
    { apply in_app_or in Hx. destruct Hx as [Hx|Hx]; [exact Hx|].
      destruct (flat_sorted (s_next s) t ltac:(lia) H3) as [Hst _].
      pose proof (sorted_all_lt (s_next s) (flat t) ltac:(lia) Hst) as HF. rewrite Forall_forall in HF. specialize (HF x Hx). lia. }
    rewrite (upto_entry_filter (s_base s)) by (try lia; eauto). rewrite filter_app.
    destruct (flat_sorted (s_next s) t ltac:(lia) H3) as [Hst _].
    rewrite (filter_le_none (s_next s) (flat t)) by (assumption || lia). rewrite app_nil_r. reflexivity.
  - assert (Hin : In x (flat t)).
    { apply in_app_or in Hx. destruct Hx as [Hx|Hx]; [|exact Hx].
      pose proof (seg_all_lt_next s ltac:(lia) H2) as HF. rewrite Forall_forall in HF. specialize (HF x Hx). lia. }
    rewrite (IH (s_next s)) by (try lia; eauto). rewrite filter_app. f_equal. f_equal.
    symmetry. apply filter_le_all. eapply Forall_impl; [|apply seg_all_lt_next; [lia|exact H2]]. cbn beta. intros; lia.
Qed.

(* on a sorted list, dropping the records below o is a skipn *)
Lemma skipn_filter_lt lo rs o : sorted_from lo rs ->
  skipn (length (filter (lt_off o) rs)) rs = filter (ge_off o) rs.
Proof.
  revert lo. induction rs as [|r t IH]; intros lo Hs; [reflexivity|]. destruct Hs as [H1 H2].
  cbn [filter]. unfold lt_off at 1, ge_off at 1.
  destruct (Z.ltb_spec (r_off r) o), (Z.leb_spec o (r_off r)); try lia.
  - cbn [length skipn]. apply (IH (r_off r + 1)). exact H2.
  - rewrite (filter_lt_none (r_off r + 1) t o) by (assumption || lia). cbn [length skipn]. f_equal.
    symmetry. apply (filter_ge_all (r_off r + 1)); [exact H2|lia].
Qed.

Lemma filter_le_sorted lo rs h : sorted_from lo rs -> sorted_from lo (filter (le_off h) rs).
Proof.
  revert lo. induction rs as [|r t IH]; intros lo Hs; [exact I|]. destruct Hs as [H1 H2]. cbn [filter].
  destruct (le_off h r).
  - split; [exact H1|]. apply IH. exact H2.
  - apply IH. eapply sorted_from_weaken; [|exact H2]. lia.
Qed.

Lemma filter_lt_le rs o h : o <= h + 1 -> filter (lt_off o) (filter (le_off h) rs) = filter (lt_off o) rs.
Proof.
  intros Hoh. induction rs as [|r t IH]; [reflexivity|]. cbn [filter]. unfold le_off at 1.
  destruct (Z.leb_spec (r_off r) h).
  - cbn [filter]. rewrite IH. reflexivity.
  - unfold lt_off at 2. destruct (Z.ltb_spec (r_off r) o); [lia|]. exact IH.
Qed.

Lemma filter_ge_le rs o h : filter (ge_off o) (filter (le_off h) rs) = filter (in_window o h) rs.
Proof.
  induction rs as [|r t IH]; [reflexivity|]. cbn [filter]. unfold le_off at 1, in_window at 1.
  destruct (Z.leb_spec (r_off r) h).
  - cbn [filter]. unfold ge_off at 1. destruct (Z.leb_spec o (r_off r)); cbn [andb]; rewrite IH; reflexivity.
  - rewrite andb_false_r. exact IH.
Qed.

(* number of records below o, counted the way the reader positions itself *)
Lemma skip_count l o i s : wf l -> find_segment (l_segs l) o = Some (i, s) ->
  (if s_base s <=? o
   then (length (concat (map s_recs (firstn i (l_segs l)))) + (length (s_recs s) - length (from_entry (s_recs s) o)))%nat
   else length (concat (map s_recs (firstn i (l_segs l))))) = length (filter (lt_off o) (all_recs l)).
Proof.
  intros Hw E. pose proof Hw as [Hne Hs].
  destruct (find_segment_some _ _ _ _ E) as (pre & post & Eseg & Hlen & Hlt & HF).
  assert (Hf : firstn i (l_segs l) = pre) by (rewrite Eseg, <- Hlen; apply firstn_app_exact_l).
  rewrite Hf. fold (flat pre). rewrite all_recs_eq, Eseg.
  rewrite Eseg in Hs. apply segs_wf_app in Hs. destruct Hs as [Hpre Hrest].
  cbn [segs_wf] in Hrest. destruct Hrest as (Hb & Hss & Hpost).
  assert (H0 : 0 <= chain_next 0 pre) by (apply chain_next_ge; [lia|assumption]).
  pose proof (s_next_ge s ltac:(lia) Hss) as Hn.
  change (pre ++ s :: post) with (pre ++ [s] ++ post). rewrite !flat_app, !filter_app, !app_length.
  rewrite (filter_lt_all (flat pre)) by (apply (segs_below_all_lt 0); [lia|assumption|assumption]).
  destruct (flat_sorted (s_next s) post ltac:(lia) Hpost) as [Hsp _].
  rewrite (filter_lt_none (s_next s) (flat post)) by (assumption || lia). cbn [length]. rewrite Nat.add_0_r.
  replace (flat [s]) with (s_recs s) by (unfold flat; cbn [map concat]; rewrite app_nil_r; reflexivity).
  destruct (Z.leb_spec (s_base s) o).
  - f_equal. rewrite (from_entry_filter (s_base s)) by exact Hss.
    (* |recs| = |filter lt| + |filter ge| *)
    assert (Hsplit : forall rs, (length rs = length (filter (lt_off o) rs) + length (filter (ge_off o) rs))%nat).
    { induction rs as [|r t IH]; [reflexivity|]. cbn [filter length]. unfold lt_off at 1, ge_off at 1.
      destruct (Z.ltb_spec (r_off r) o), (Z.leb_spec o (r_off r)); try lia; cbn [length]; lia. }
    specialize (Hsplit (s_recs s)). lia.
  - rewrite (filter_lt_none (s_base s) (s_recs s)) by (assumption || lia). cbn. lia.
Qed.

(* A committed reader started at or below the HW returns exactly the retained records from its
   start offset up to the HW (the HW's own record being present, as it always is: compaction
   retains it and truncation never goes below it). *)
Theorem read_committed_refines l o : wf l -> o <= l_hw l -> oldest l <> -1 ->
  (exists r, In r (all_recs l) /\ r_off r = l_hw l) ->
  fst (read_committed l o) = filter (in_window o (l_hw l)) (all_recs l).
Proof.
  intros Hw Ho Hold Hhw. pose proof Hw as [Hne Hs]. unfold read_committed.
  destruct (Z.ltb_spec (l_hw l) o); [lia|]. destruct (Z.eqb_spec (oldest l) (-1)); [contradiction|]. cbn [orb].
  rewrite (upto_hw_filter 0) by (try lia; assumption).
  destruct Hhw as (x & Hx & Ex).
  destruct (find_segment (l_segs l) o) as [[i s]|] eqn:E.
  - cbn [fst]. rewrite (skip_count l o i s Hw E). fold (all_recs l).
    rewrite <- (filter_lt_le (all_recs l) o (l_hw l)) by lia.
    rewrite (skipn_filter_lt 0) by (apply filter_le_sorted; apply wf_all_sorted; exact Hw).
    apply filter_ge_le.
  - exfalso. apply find_segment_none in E.
    pose proof (segs_below_all_lt 0 (l_segs l) o ltac:(lia) Hs E) as HF. rewrite Forall_forall in HF.
    specialize (HF x Hx). lia.
Qed.

(* above the HW, or on an empty log, nothing is returned *)
Theorem read_committed_beyond_hw l o : (l_hw l < o \/ oldest l = -1) -> fst (read_committed l o) = [].
Proof.
  intros H. unfold read_committed.
  destruct (Z.ltb_spec (l_hw l) o), (Z.eqb_spec (oldest l) (-1)); cbn [orb]; try reflexivity. lia.
Qed.

(* never a record above the high watermark *)
Corollary read_committed_never_above_hw l o r : wf l -> o <= l_hw l -> oldest l <> -1 ->
  (exists x, In x (all_recs l) /\ r_off x = l_hw l) -> In r (fst (read_committed l o)) -> r_off r <= l_hw l.
Proof.
  intros Hw Ho Hold Hhw Hin. rewrite (read_committed_refines l o Hw Ho Hold Hhw) in Hin.
  apply filter_In in Hin. destruct Hin as [_ H]. unfold in_window in H. lia.
Qed.
