(* Model of log compaction (compact_cleaner.go, commitLog.Clean with Compact = true) and of the
   reverse reader (reader.go ReverseReader, segment.go newReverseSegmentScanner).

   Variant switches (pinned commit = true / false):
     conflate  : the key scan also records messages WITHOUT a key under the empty string, so a
                 message with an empty (non-nil) key shares its entry with them
     slot_fixed: the reverse scanner starts at the last entry whose offset is <= the start offset;
                 the pinned code starts at index (start - base), which is only right for segments
                 without offset gaps *)
From LB Require Import Base.Prelude Log.Model Log.Retention.
Open Scope Z_scope.

Section Compact.
  Variable key_of : bytes -> option bytes.       (* SerializedMessage.Key(): nil / the key bytes *)

  Definition kstr (r : rec) : bytes := match key_of (r_body r) with None => [] | Some k => k end.
  Definition has_key (r : rec) : bool := match key_of (r_body r) with None => false | Some _ => true end.

  (* highest offset <= hw of a scanned message with key string k; 0 when none (the code's zero value) *)
  Definition latest_for (conflate : bool) (hw : Z) (all : list rec) (k : bytes) : Z :=
    fold_left (fun acc r => if (r_off r <=? hw) && (conflate || has_key r) && bytes_eqb (kstr r) k
                            then Z.max acc (r_off r) else acc) all 0.

  Definition retained (conflate : bool) (hw : Z) (all : list rec) (r : rec) : bool :=
    negb (has_key r) || (r_off r =? latest_for conflate hw all (kstr r)) || (hw <=? r_off r).

  Definition compact_segs (conflate : bool) (hw : Z) (segs : list seg) : list seg :=
    match rev segs with
    | [] => []
    | [only] => segs
    | last :: older =>
      let all := concat (map s_recs segs) in
      let cleaned := map (fun s => mkSeg (s_base s) (filter (retained conflate hw all) (s_recs s))) (rev older) in
      filter (fun s => match s_recs s with [] => false | _ => true end) cleaned ++ [last]
    end.

  (* commitLog.Clean with Compact = true: retention first, then compaction; the epoch cache is
     rebuilt from the surviving records when compaction ran *)
  Definition clean_compact (conflate : bool) (lim : limits) (ttl : Z) (l : log) : log :=
    let s1 := retain lim ttl (l_segs l) in
    match s1 with
    | [] | [_] => mkLog s1 (l_hw l)
                     (cache_clear_earliest (l_cache l) (match s1 with [] => 0 | s :: _ => s_base s end)) (l_ro l)
    | _ => let s2 := compact_segs conflate (l_hw l) s1 in
           mkLog s2 (l_hw l) (cache_assign_all [] (concat (map s_recs s2))) (l_ro l)
    end.
End Compact.

(* ---- reverse reader ---- *)
Fixpoint take_while_ge (stop : Z) (rs : list rec) : list rec :=
  match rs with
  | [] => []
  | r :: t => if (0 <=? stop) && (r_off r <? stop) then [] else r :: take_while_ge stop t
  end.

(* entries slot, slot-1, ..., 0 of a segment; nothing when the slot is outside the index *)
Definition rev_scan_slot (slot : Z) (rs : list rec) : list rec :=
  if (slot <? 0) || (Z.of_nat (length rs) <=? slot) then [] else rev (firstn (Z.to_nat slot + 1) rs).

Definition read_reverse (slot_fixed : bool) (l : log) (start : Z) (unc : bool) (stop : Z) : option (list rec) :=
  let eff := if unc then Some start
             else if l_hw l =? -1 then None
             else Some (if (l_hw l <? start) || (start =? -1) then l_hw l else start) in
  match eff with
  | None => None                                  (* ErrSegmentNotFound: nothing committed *)
  | Some e =>
    match find_segment (l_segs l) e with
    | None => None
    | Some (i, s) =>
      let here := if slot_fixed then rev (filter (fun r => r_off r <=? e) (s_recs s))
                  else rev_scan_slot (e - s_base s) (s_recs s) in
      Some (take_while_ge stop (here ++ rev (concat (map s_recs (firstn i (l_segs l))))))
    end
  end.
