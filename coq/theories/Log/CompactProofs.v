From LB Require Import Base.Prelude Log.Model Log.Retention Log.Compact Log.Proofs Log.Refine.
From Coq Require Import ZifyBool.
Open Scope Z_scope.

Lemma filter_all_true' {A} (p : A -> bool) l : (forall x, In x l -> p x = true) -> filter p l = l.
Proof.
  induction l as [|x r IH]; intros H; [reflexivity|]. cbn [filter]. rewrite (H x (or_introl eq_refl)).
  f_equal. apply IH. intros y Hy. apply H. right. exact Hy.
Qed.

Lemma firstn_app_exact_l {A} (a b : list A) : firstn (length a) (a ++ b) = a.
Proof. rewrite firstn_app, Nat.sub_diag, firstn_all. cbn. apply app_nil_r. Qed.

Section Proofs.
  Variable key_of : bytes -> option bytes.
  Notation retained := (retained key_of).
  Notation compact_segs := (compact_segs key_of).
  Notation latest_for := (latest_for key_of).
  Notation has_key := (has_key key_of).
  Notation kstr := (kstr key_of).

  Definition clean_seg (cf : bool) (hw : Z) (all : list rec) (s : seg) : seg :=
    mkSeg (s_base s) (filter (retained cf hw all) (s_recs s)).
  Definition nonempty (s : seg) : bool := match s_recs s with [] => false | _ => true end.

  Lemma compact_segs_snoc cf hw older last : older <> [] ->
    compact_segs cf hw (older ++ [last]) =
    filter nonempty (map (clean_seg cf hw (flat (older ++ [last]))) older) ++ [last].
  Proof.
    intros Hne. unfold compact_segs. rewrite rev_app_distr. cbn [rev app].
    destruct (rev older) as [|x r] eqn:E.
    - exfalso. apply Hne. apply (f_equal (@rev _)) in E. rewrite rev_involutive in E. exact E.
    - rewrite <- E, rev_involutive. reflexivity.
  Qed.

  Lemma flat_filter_nonempty segs : flat (filter nonempty segs) = flat segs.
  Proof.
    induction segs as [|s t IH]; [reflexivity|]. cbn [filter]. unfold nonempty at 1.
    destruct (s_recs s) eqn:E.
    - rewrite IH. unfold flat. cbn [map concat]. rewrite E. reflexivity.
    - unfold flat in *. cbn [map concat]. rewrite IH. reflexivity.
  Qed.

  Lemma flat_map_clean cf hw all segs :
    flat (map (clean_seg cf hw all) segs) = filter (retained cf hw all) (flat segs).
  Proof.
    induction segs as [|s t IH]; [reflexivity|]. unfold flat in *. cbn [map concat clean_seg s_recs].
    rewrite filter_app, IH. reflexivity.
  Qed.

  (* what is kept: retained by the key rule, or in the newest segment *)
  Definition keep (cf : bool) (hw : Z) (all : list rec) (last_base : Z) (r : rec) : bool :=
    retained cf hw all r || (last_base <=? r_off r).

  Lemma filter_ext_in' {A} (f g : A -> bool) l : (forall x, In x l -> f x = g x) -> filter f l = filter g l.
  Proof.
    induction l as [|x t IH]; intros H; [reflexivity|]. cbn [filter]. rewrite (H x (or_introl eq_refl)).
    rewrite IH by (intros y Hy; apply H; right; exact Hy). reflexivity.
  Qed.

  (* ---- content: compaction is a filter of the content; nothing else changes ---- *)
  Theorem compact_content cf hw lo older last : 0 <= lo -> older <> [] -> segs_wf lo (older ++ [last]) ->
    flat (compact_segs cf hw (older ++ [last])) =
    filter (keep cf hw (flat (older ++ [last])) (s_base last)) (flat (older ++ [last])).
  Proof.
    intros Hlo Hne Hw. rewrite compact_segs_snoc by exact Hne.
    set (all := flat (older ++ [last])).
    rewrite flat_app, flat_filter_nonempty, flat_map_clean.
    unfold all at 3. rewrite flat_app, filter_app.
    apply segs_wf_app in Hw. destruct Hw as [Hold Hlast]. cbn [segs_wf] in Hlast. destruct Hlast as (Hb & Hs & _).
    assert (H0 : 0 <= chain_next lo older) by (pose proof (chain_next_ge lo older Hlo Hold); lia).
    f_equal.
    - apply filter_ext_in'. intros r Hr. unfold keep.
      destruct (flat_sorted lo older Hlo Hold) as [Hso Hn].
      pose proof (sorted_all_lt lo (flat older) Hlo Hso) as HF. rewrite Forall_forall in HF. specialize (HF r Hr).
      destruct (Z.leb_spec (s_base last) (r_off r)); [lia|]. rewrite orb_false_r. reflexivity.
    - unfold flat. cbn [map concat]. rewrite !app_nil_r. symmetry. apply filter_all_true'.
      intros r Hr. unfold keep.
      pose proof (sorted_all_lt (s_base last) (s_recs last) ltac:(lia) Hs) as HF. rewrite Forall_forall in HF.
      specialize (HF r Hr). destruct (Z.leb_spec (s_base last) (r_off r)); [apply orb_true_r|lia].
  Qed.

  (* ---- well-formedness is preserved, so every reader theorem of C01 applies to the result ---- *)
  Lemma filter_sorted f lo rs : sorted_from lo rs -> sorted_from lo (filter f rs).
  Proof.
    revert lo. induction rs as [|r t IH]; intros lo Hs; [exact I|]. destruct Hs as [H1 H2].
    cbn [filter]. destruct (f r).
    - split; [exact H1|]. apply IH. exact H2.
    - apply IH. eapply sorted_from_weaken; [|exact H2]. lia.
  Qed.

  Lemma last_off_filter_le f lo rs : 0 <= lo -> sorted_from lo rs ->
    next_after lo (filter f rs) <= next_after lo rs.
  Proof.
    intros Hlo Hs. pose proof (filter_sorted f lo rs Hs) as Hf.
    unfold next_after. destruct (Z.eqb_spec (last_off_of (filter f rs)) (-1)) as [E|E].
    - pose proof (next_after_ge lo rs Hlo Hs). unfold next_after in H. exact H.
    - assert (Hne : filter f rs <> []) by (intros E'; rewrite E' in E; apply E; reflexivity).
      (* the last retained record is one of rs, hence below next_after lo rs *)
      assert (Hin : exists r, In r (filter f rs) /\ r_off r = last_off_of (filter f rs)).
      { clear - Hne. induction (filter f rs) as [|x t IH] using rev_ind; [congruence|].
        exists x. split; [apply in_or_app; right; left; reflexivity|]. rewrite last_off_snoc. reflexivity. }
      destruct Hin as (r & Hr & Er). apply filter_In in Hr. destruct Hr as [Hr _].
      pose proof (sorted_all_lt lo rs Hlo Hs) as HF. rewrite Forall_forall in HF. specialize (HF r Hr).
      unfold next_after in HF. rewrite <- Er. destruct (Z.eqb_spec (last_off_of rs) (-1)); lia.
  Qed.

  Lemma segs_wf_tail lo s t : 0 <= lo -> segs_wf lo (s :: t) -> segs_wf lo t.
  Proof.
    intros Hlo (H1 & H2 & H3). pose proof (s_next_ge s ltac:(lia) H2). eapply segs_wf_weaken; [|exact H3]. lia.
  Qed.

  Lemma segs_wf_clean cf hw all lo segs : 0 <= lo -> segs_wf lo segs ->
    segs_wf lo (filter nonempty (map (clean_seg cf hw all) segs)) /\
    chain_next lo (filter nonempty (map (clean_seg cf hw all) segs)) <= chain_next lo segs.
  Proof.
    revert lo. induction segs as [|s t IH]; intros lo Hlo Hw; [split; [exact I|cbn; lia]|].
    destruct Hw as (H1 & H2 & H3). cbn [map filter chain_next].
    pose proof (s_next_ge s ltac:(lia) H2) as Hn.
    destruct (IH (s_next s) ltac:(lia) H3) as [IH1 IH2].
    assert (Hcn : s_next (clean_seg cf hw all s) <= s_next s).
    { rewrite !s_next_eq. cbn [clean_seg s_base s_recs]. apply last_off_filter_le; [lia|exact H2]. }
    assert (Hcs : sorted_from (s_base s) (s_recs (clean_seg cf hw all s))) by (apply filter_sorted; exact H2).
    assert (Hcge : s_base s <= s_next (clean_seg cf hw all s)).
    { apply (s_next_ge (clean_seg cf hw all s)); [cbn; lia|exact Hcs]. }
    destruct (nonempty (clean_seg cf hw all s)).
    - cbn [segs_wf chain_next]. split.
      + split; [exact H1|]. split; [exact Hcs|]. eapply segs_wf_weaken; [|exact IH1]. cbn [clean_seg s_base]. exact Hcn.
      + (* chain_next is monotone in its start for wf chains: bound by the original *)
        assert (Hmono : forall a b l, a <= b -> 0 <= a -> segs_wf b l -> chain_next a l <= chain_next b l).
        { clear. intros a b l Hab Ha Hwl. destruct l as [|x r]; [cbn; lia|]. cbn. lia. }
        etransitivity; [apply Hmono; [exact Hcn|lia|exact IH1]|exact IH2].
    - split.
      + eapply segs_wf_weaken; [|exact IH1]. lia.
      + assert (Hmono : forall a b l, a <= b -> 0 <= a -> segs_wf b l -> chain_next a l <= chain_next b l).
        { clear. intros a b l Hab Ha Hwl. destruct l as [|x r]; [cbn; lia|]. cbn. lia. }
        etransitivity; [apply (Hmono lo (s_next s)); [lia|lia|exact IH1]|exact IH2].
  Qed.

  Theorem compact_wf cf hw lo older last : 0 <= lo -> older <> [] -> segs_wf lo (older ++ [last]) ->
    segs_wf lo (compact_segs cf hw (older ++ [last])).
  Proof.
    intros Hlo Hne Hw. rewrite compact_segs_snoc by exact Hne.
    apply segs_wf_app in Hw. destruct Hw as [Hold Hlast].
    destruct (segs_wf_clean cf hw (flat (older ++ [last])) lo older Hlo Hold) as [H1 H2].
    apply segs_wf_app. split; [exact H1|].
    cbn [segs_wf] in *. destruct Hlast as (Hb & Hs & _). split; [lia|]. split; [exact Hs|exact I].
  Qed.

  (* ---- which records survive ---- *)
  Lemma latest_for_ge cf hw all k acc : acc <= fold_left (fun acc r => if (r_off r <=? hw) && (cf || has_key r) && bytes_eqb (kstr r) k
                            then Z.max acc (r_off r) else acc) all acc.
  Proof.
    revert acc. induction all as [|r t IH]; intros acc; [cbn; lia|]. cbn [fold_left].
    destruct ((r_off r <=? hw) && (cf || has_key r) && bytes_eqb (kstr r) k); [|apply IH].
    etransitivity; [|apply IH]. lia.
  Qed.

  (* the latest committed record of a key is the one the scan finds *)
  Lemma latest_for_is_max hw all r : In r all -> has_key r = true -> r_off r <= hw -> 0 <= r_off r ->
    (forall r', In r' all -> has_key r' = true -> kstr r' = kstr r -> r_off r' <= hw -> r_off r' <= r_off r) ->
    latest_for false hw all (kstr r) = r_off r.
  Proof.
    intros Hin Hk Hhw H0 Hmax. unfold Compact.latest_for.
    assert (G : forall l acc, (forall x, In x l -> In x all) -> acc <= r_off r ->
                fold_left (fun acc r0 => if (r_off r0 <=? hw) && (false || has_key r0) && bytes_eqb (kstr r0) (kstr r)
                                         then Z.max acc (r_off r0) else acc) l acc <= r_off r).
    { induction l as [|x t IH]; intros acc Hsub Hacc; [exact Hacc|]. cbn [fold_left].
      destruct ((r_off x <=? hw) && (false || has_key x) && bytes_eqb (kstr x) (kstr r)) eqn:E.
      - apply IH; [intros y Hy; apply Hsub; right; exact Hy|].
        apply andb_true_iff in E. destruct E as [E E3]. apply andb_true_iff in E. destruct E as [E1 E2].
        cbn [orb] in E2. apply bytes_eqb_eq in E3.
        specialize (Hmax x (Hsub x (or_introl eq_refl)) E2 E3 ltac:(lia)). lia.
      - apply IH; [intros y Hy; apply Hsub; right; exact Hy|exact Hacc]. }
    assert (L : forall l acc, In r l -> r_off r <=
                fold_left (fun acc r0 => if (r_off r0 <=? hw) && (false || has_key r0) && bytes_eqb (kstr r0) (kstr r)
                                         then Z.max acc (r_off r0) else acc) l acc).
    { induction l as [|x t IH]; intros acc Hi; [destruct Hi|]. cbn [fold_left]. destruct Hi as [->|Hi].
      - assert (E : (r_off r <=? hw) && (false || has_key r) && bytes_eqb (kstr r) (kstr r) = true).
        { rewrite Hk, bytes_eqb_refl. cbn. destruct (Z.leb_spec (r_off r) hw); [reflexivity|lia]. }
        rewrite E. etransitivity; [|apply latest_for_ge]. lia.
      - apply IH. exact Hi. }
    pose proof (G all 0 (fun x H => H) H0). pose proof (L all 0 Hin). lia.
  Qed.

  (* every message the property says must survive does *)
  Theorem survivors cf hw lo older last r : 0 <= lo -> older <> [] -> segs_wf lo (older ++ [last]) ->
    In r (flat (older ++ [last])) ->
    (has_key r = false \/ hw <= r_off r \/ In r (s_recs last) \/
     (cf = false /\ r_off r = latest_for false hw (flat (older ++ [last])) (kstr r))) ->
    In r (flat (compact_segs cf hw (older ++ [last]))).
  Proof.
    intros Hlo Hne Hw Hin Hwhy. rewrite (compact_content cf hw lo) by assumption.
    apply filter_In. split; [exact Hin|]. unfold keep, Compact.retained.
    destruct Hwhy as [H|[H|[H|[-> H]]]].
    - rewrite H. reflexivity.
    - destruct (Z.leb_spec hw (r_off r)); [|lia]. rewrite orb_true_r. reflexivity.
    - apply segs_wf_app in Hw. destruct Hw as [Hold Hlast]. cbn [segs_wf] in Hlast. destruct Hlast as (Hb & Hs & _).
      assert (H0 : 0 <= chain_next lo older) by (pose proof (chain_next_ge lo older Hlo Hold); lia).
      pose proof (sorted_all_lt (s_base last) (s_recs last) ltac:(lia) Hs) as HF. rewrite Forall_forall in HF.
      specialize (HF r H). destruct (Z.leb_spec (s_base last) (r_off r)); [apply orb_true_r|lia].
    - rewrite <- H, Z.eqb_refl. rewrite orb_true_r. reflexivity.
  Qed.

  (* every surviving message is one of the original messages, unchanged, in the original order *)
  Theorem survivors_unchanged cf hw lo older last : 0 <= lo -> older <> [] -> segs_wf lo (older ++ [last]) ->
    exists f, flat (compact_segs cf hw (older ++ [last])) = filter f (flat (older ++ [last])).
  Proof. intros. eexists. apply (compact_content cf hw lo); assumption. Qed.
End Proofs.

(* ---- reverse reader (scanner that starts at the last entry <= start) ---- *)
Definition le_off (o : Z) (r : rec) : bool := r_off r <=? o.

Lemma filter_le_all rs o : Forall (fun r => r_off r < o) rs -> filter (le_off o) rs = rs.
Proof.
  induction 1 as [|r t H _ IH]; [reflexivity|]. cbn [filter]. unfold le_off at 1.
  destruct (Z.leb_spec (r_off r) o); [|lia]. f_equal. exact IH.
Qed.

Lemma filter_le_none lo rs o : sorted_from lo rs -> o < lo -> filter (le_off o) rs = [].
Proof.
  revert lo. induction rs as [|r t IH]; intros lo Hs Ho; [reflexivity|]. destruct Hs as [H1 H2].
  cbn [filter]. unfold le_off at 1. destruct (Z.leb_spec (r_off r) o); [lia|]. apply (IH (r_off r + 1)); [exact H2|lia].
Qed.

(* An uncommitted reverse reader started at any offset returns exactly the retained records at
   or below it, newest first, down to the stop offset. *)
Theorem read_reverse_refines l start stop : wf l ->
  match read_reverse true l start true stop with
  | Some rs => rs = take_while_ge stop (rev (filter (le_off start) (all_recs l)))
  | None => newest l < start
  end.
Proof.
  intros Hw. pose proof Hw as [Hne Hs]. unfold read_reverse.
  destruct (find_segment (l_segs l) start) as [[i s]|] eqn:E.
  - destruct (find_segment_some _ _ _ _ E) as (pre & post & Eseg & Hlen & Hlt & HF).
    assert (Hf : firstn i (l_segs l) = pre) by (rewrite Eseg, <- Hlen; apply firstn_app_exact_l).
    rewrite Hf. fold (flat pre). f_equal.
    rewrite all_recs_eq, Eseg. rewrite Eseg in Hs. apply segs_wf_app in Hs. destruct Hs as [Hpre Hrest].
    cbn [segs_wf] in Hrest. destruct Hrest as (Hb & Hss & Hpost).
    assert (H0 : 0 <= chain_next 0 pre) by (apply chain_next_ge; [lia|assumption]).
    pose proof (s_next_ge s ltac:(lia) Hss) as Hn.
    change (pre ++ s :: post) with (pre ++ [s] ++ post). rewrite !flat_app, !filter_app.
    rewrite (filter_le_all (flat pre)) by (apply (segs_below_all_lt 0); [lia|assumption|assumption]).
    destruct (flat_sorted (s_next s) post ltac:(lia) Hpost) as [Hsp _].
    rewrite (filter_le_none (s_next s) (flat post)) by (assumption || lia).
    rewrite app_nil_r, rev_app_distr. unfold flat at 2. cbn [map concat]. rewrite app_nil_r. reflexivity.
  - destruct (wf_split l Hw) as (pre0 & a0 & E0).
    apply find_segment_none in E. rewrite E0 in E. apply Forall_app in E. destruct E as [_ E]. inversion E; subst.
    unfold newest, active. rewrite E0, last_last. lia.
Qed.
