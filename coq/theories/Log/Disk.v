(* Crash model of server/commitlog: what is on disk, which file-system effects every operation
   performs and in which order, and what commitlog.New makes of a directory.

   The unit of atomicity is one file-system effect (a write(2) of a batch, a write through the
   index mapping, a create, a rename, a remove, an atomic checkpoint replace): the process-crash
   model of the property (the OS keeps what was written). Every operation is compiled into the
   list of its effects (`script`), interleaved with the named crash points of the `verif` build
   (FPoint, no effect); a crash is a prefix of that list; `recover` is commitlog.New on what is left.

   An index file is represented by the list of message frames it describes: every index the code
   writes is the (offset, position, size) listing of consecutive frames starting at position 0, so
   the listing is a function of that list (`ients`). "The index ends where the log ends"
   (segment.indexCoversLog) is then: both lists have the same total size.

   Variant switches (pinned commit = false, current tree = true):
     v_rebuild : setupIndex rebuilds the index from the log when it does not end where the log ends
     v_epfirst : append records new leader epochs before it writes the messages (after: pinned)
     v_fresh   : Cleaned()/Truncated() remove leftover .cleaned/.truncated files first *)
From LB Require Import Base.Prelude Log.Model Log.Retention Log.Compact.
Open Scope Z_scope.

Inductive suf := SClean | STrunc.
Definition suf_eqb (a b : suf) : bool := match a, b with SClean, SClean | STrunc, STrunc => true | _, _ => false end.

Inductive pname :=
| PSegLogCreated | PSplitCreated | PEpochsAssigned | PLogWritten | PIndexWritten
| PTailDeleted | PTruncCopy | PTruncReplaced
| PReplClosed | PReplLogRenamed | PReplIdxRenamed
| PDelLogRemoved | PCleanDeleting | PCompactCopy | PCleanCleaned
(* inside commitlog.New (Log/DiskRecover.v) *)
| POrphanRemoved | PRebuildRemoved | PRebuildCreated | PRebuildEntry | PEpochsTrimmed.

Record variant := mkV { v_rebuild : bool; v_epfirst : bool; v_fresh : bool }.
Definition fixed : variant := mkV true true true.

(* <base>.log with its <base>.index (None: the index file does not exist) *)
Record mseg := mkM { m_seg : seg; m_idx : option (list rec) }.
Definition m_base (m : mseg) : Z := s_base (m_seg m).
Definition m_recs (m : mseg) : list rec := s_recs (m_seg m).
(* <base>.log.<suffix> / <base>.index.<suffix> *)
Record scr := mkScr { sc_base : Z; sc_suf : suf; sc_log : option (list rec); sc_idx : option (list rec) }.

Record disk := mkDisk {
  d_segs : list mseg;              (* the .log files, in directory (= base offset) order *)
  d_orph : list (Z * list rec);    (* .index files without a .log file *)
  d_scr : list scr;
  d_hw : Z;                        (* replication-offset-checkpoint; absent = -1 *)
  d_ep : epoch_cache }.            (* leader-epoch-checkpoint; absent = no entries *)

Inductive tgt := TMain (b : Z) | TScr (b : Z) (s : suf).

Inductive eff :=
| FCreateLog (t : tgt)             (* open(O_CREATE|O_APPEND): creates an empty file if there is none *)
| FCreateIdx (t : tgt)
| FAppendLog (t : tgt) (rs : list rec)
| FAppendIdx (t : tgt) (rs : list rec)
| FRemoveLog (t : tgt)
| FRemoveIdx (t : tgt)
| FRenameLog (b : Z) (s : suf)     (* <b>.log.<s> -> <b>.log *)
| FRenameIdx (b : Z) (s : suf)
| FHw (h : Z)
| FEpochs (c : epoch_cache)
| FPoint (p : pname).

(* ---- frames and sizes ---- *)
Definition fsize (rs : list rec) : Z := fold_right (fun r a => rsize r + a) 0 rs.

(* the index listing of a frame list: (offset, position, size) *)
Fixpoint ients (pos : Z) (rs : list rec) : list (Z * Z * Z) :=
  match rs with
  | [] => []
  | r :: t => (r_off r, pos, rsize r) :: ients (pos + rsize r) t
  end.

(* ---- association helpers ---- *)
Fixpoint seg_get (segs : list mseg) (b : Z) : option mseg :=
  match segs with
  | [] => None
  | m :: r => if m_base m =? b then Some m else seg_get r b
  end.

Fixpoint seg_upd (segs : list mseg) (b : Z) (f : mseg -> mseg) : list mseg :=
  match segs with
  | [] => []
  | m :: r => if m_base m =? b then f m :: r else m :: seg_upd r b f
  end.

Fixpoint seg_del (segs : list mseg) (b : Z) : list mseg :=
  match segs with
  | [] => []
  | m :: r => if m_base m =? b then r else m :: seg_del r b
  end.

(* directory order: by base offset *)
Fixpoint seg_ins (segs : list mseg) (n : mseg) : list mseg :=
  match segs with
  | [] => [n]
  | m :: r => if m_base n <? m_base m then n :: segs else m :: seg_ins r n
  end.

Fixpoint orph_get (o : list (Z * list rec)) (b : Z) : option (list rec) :=
  match o with
  | [] => None
  | (b', fi) :: r => if b' =? b then Some fi else orph_get r b
  end.
Definition orph_del (o : list (Z * list rec)) (b : Z) : list (Z * list rec) :=
  filter (fun x => negb (fst x =? b)) o.

Definition scr_is (b : Z) (s : suf) (x : scr) : bool := (sc_base x =? b) && suf_eqb (sc_suf x) s.
Definition scr_get (l : list scr) (b : Z) (s : suf) : scr :=
  match find (scr_is b s) l with Some x => x | None => mkScr b s None None end.
Definition scr_set (l : list scr) (x : scr) : list scr :=
  x :: filter (fun y => negb (scr_is (sc_base x) (sc_suf x) y)) l.

Definition app_opt (o : option (list rec)) (rs : list rec) : option (list rec) :=
  match o with Some l => Some (l ++ rs) | None => None end.
Definition create_opt (o : option (list rec)) : option (list rec) :=
  match o with Some l => Some l | None => Some [] end.

Definition set_segs (d : disk) (segs : list mseg) : disk := mkDisk segs (d_orph d) (d_scr d) (d_hw d) (d_ep d).
Definition set_scr (d : disk) (l : list scr) : disk := mkDisk (d_segs d) (d_orph d) l (d_hw d) (d_ep d).

(* effects on the segment files proper (everything but the .cleaned/.truncated scratch files) *)
Inductive meff :=
| MCreateLog (b : Z) | MCreateIdx (b : Z)
| MAppendLog (b : Z) (rs : list rec) | MAppendIdx (b : Z) (rs : list rec)
| MRemoveLog (b : Z) | MRemoveIdx (b : Z)
| MSetLog (b : Z) (fl : list rec)      (* a file renamed over <b>.log *)
| MSetIdx (b : Z) (fi : list rec)
| MHw (h : Z) | MEpochs (c : epoch_cache).

Definition with_main (d : disk) (segs : list mseg) (orph : list (Z * list rec)) : disk :=
  mkDisk segs orph (d_scr d) (d_hw d) (d_ep d).

Definition mapply (d : disk) (e : meff) : disk :=
  match e with
  | MCreateLog b =>
    match seg_get (d_segs d) b with
    | Some _ => d
    | None => with_main d (seg_ins (d_segs d) (mkM (mkSeg b []) (orph_get (d_orph d) b))) (orph_del (d_orph d) b)
    end
  | MCreateIdx b =>
    match seg_get (d_segs d) b with
    | Some _ => set_segs d (seg_upd (d_segs d) b (fun m => mkM (m_seg m) (create_opt (m_idx m))))
    | None => match orph_get (d_orph d) b with
              | Some _ => d
              | None => with_main d (d_segs d) ((b, []) :: d_orph d)
              end
    end
  | MAppendLog b rs => set_segs d (seg_upd (d_segs d) b (fun m => mkM (mkSeg (m_base m) (m_recs m ++ rs)) (m_idx m)))
  | MAppendIdx b rs => set_segs d (seg_upd (d_segs d) b (fun m => mkM (m_seg m) (app_opt (m_idx m) rs)))
  | MRemoveLog b =>
    match seg_get (d_segs d) b with
    | Some m => with_main d (seg_del (d_segs d) b) (match m_idx m with Some fi => (b, fi) :: d_orph d | None => d_orph d end)
    | None => d
    end
  | MRemoveIdx b =>
    match seg_get (d_segs d) b with
    | Some _ => set_segs d (seg_upd (d_segs d) b (fun m => mkM (m_seg m) None))
    | None => with_main d (d_segs d) (orph_del (d_orph d) b)
    end
  | MSetLog b fl =>
    match seg_get (d_segs d) b with
    | Some _ => set_segs d (seg_upd (d_segs d) b (fun m => mkM (mkSeg b fl) (m_idx m)))
    | None => with_main d (seg_ins (d_segs d) (mkM (mkSeg b fl) (orph_get (d_orph d) b))) (orph_del (d_orph d) b)
    end
  | MSetIdx b fi =>
    match seg_get (d_segs d) b with
    | Some _ => set_segs d (seg_upd (d_segs d) b (fun m => mkM (m_seg m) (Some fi)))
    | None => with_main d (d_segs d) ((b, fi) :: orph_del (d_orph d) b)
    end
  | MHw h => mkDisk (d_segs d) (d_orph d) (d_scr d) h (d_ep d)
  | MEpochs c => mkDisk (d_segs d) (d_orph d) (d_scr d) (d_hw d) c
  end.

Definition scr_apply (d : disk) (b : Z) (s : suf) (f : scr -> scr) : disk :=
  set_scr d (scr_set (d_scr d) (f (scr_get (d_scr d) b s))).

Definition apply_eff (d : disk) (e : eff) : disk :=
  match e with
  | FCreateLog (TMain b) => mapply d (MCreateLog b)
  | FCreateIdx (TMain b) => mapply d (MCreateIdx b)
  | FAppendLog (TMain b) rs => mapply d (MAppendLog b rs)
  | FAppendIdx (TMain b) rs => mapply d (MAppendIdx b rs)
  | FRemoveLog (TMain b) => mapply d (MRemoveLog b)
  | FRemoveIdx (TMain b) => mapply d (MRemoveIdx b)
  | FCreateLog (TScr b s) => scr_apply d b s (fun x => mkScr b s (create_opt (sc_log x)) (sc_idx x))
  | FCreateIdx (TScr b s) => scr_apply d b s (fun x => mkScr b s (sc_log x) (create_opt (sc_idx x)))
  | FAppendLog (TScr b s) rs => scr_apply d b s (fun x => mkScr b s (app_opt (sc_log x) rs) (sc_idx x))
  | FAppendIdx (TScr b s) rs => scr_apply d b s (fun x => mkScr b s (sc_log x) (app_opt (sc_idx x) rs))
  | FRemoveLog (TScr b s) => scr_apply d b s (fun x => mkScr b s None (sc_idx x))
  | FRemoveIdx (TScr b s) => scr_apply d b s (fun x => mkScr b s (sc_log x) None)
  | FRenameLog b s =>
    match sc_log (scr_get (d_scr d) b s) with
    | None => d
    | Some fl => scr_apply (mapply d (MSetLog b fl)) b s (fun x => mkScr b s None (sc_idx x))
    end
  | FRenameIdx b s =>
    match sc_idx (scr_get (d_scr d) b s) with
    | None => d
    | Some fi => scr_apply (mapply d (MSetIdx b fi)) b s (fun x => mkScr b s (sc_log x) None)
    end
  | FHw h => mapply d (MHw h)
  | FEpochs c => mapply d (MEpochs c)
  | FPoint _ => d
  end.

Definition run_effs (d : disk) (es : list eff) : disk := fold_left apply_eff es d.

(* ---- the in-memory view of an open log (all of it is a function of the files, except the HW) ---- *)
Definition m_fi (m : mseg) : list rec := match m_idx m with Some fi => fi | None => [] end.
(* NextOffset(): from the last index entry *)
Definition m_next (m : mseg) : Z := match rev (m_fi m) with [] => m_base m | r :: _ => r_off r + 1 end.
Definition m_pos (m : mseg) : Z := fsize (m_recs m).              (* position: the log file's size *)

Definition dummy_m : mseg := mkM (mkSeg 0 []) (Some []).
Definition d_active (d : disk) : mseg := last (d_segs d) dummy_m.
Definition content (d : disk) : list rec := concat (map m_recs (d_segs d)).   (* what a reader scans *)
Definition d_oldest (d : disk) : Z :=
  match d_segs d with [] => -1 | m :: _ => match m_fi m with [] => -1 | r :: _ => r_off r end end.

(* ---- commitlog.New on a directory ---- *)
Definition fix_idx (v : variant) (m : mseg) : mseg :=
  mkM (m_seg m) (Some (if v_rebuild v && negb (fsize (m_fi m) =? fsize (m_recs m)) then m_recs m else m_fi m)).

Definition recover (v : variant) (d : disk) : disk :=
  let segs := match map (fix_idx v) (d_segs d) with [] => [dummy_m] | l => l end in
  let a := last segs dummy_m in
  let old := match segs with [] => -1 | m :: _ => match m_fi m with [] => -1 | r :: _ => r_off r end end in
  mkDisk segs [] (d_scr d) (d_hw d) (cache_clear_earliest (cache_clear_latest (d_ep d) (m_next a)) old).

(* ---- scripts ---- *)
Definition del_effs (t : tgt) : list eff := [FRemoveLog t; FPoint PDelLogRemoved; FRemoveIdx t].

(* leaderEpochCache.Assign flushes the checkpoint every time it adds an entry *)
Fixpoint epoch_effs (c : epoch_cache) (rs : list rec) : list eff :=
  match rs with
  | [] => []
  | r :: t =>
    let c' := cache_assign c (r_ep r) (r_off r) in
    (if (cache_latest_epoch c <? r_ep r)%N && (cache_latest_off c <=? r_off r) then [FEpochs c'] else [])
      ++ epoch_effs c' t
  end.

Definition write_effs (v : variant) (c : epoch_cache) (b : Z) (rs : list rec) : list eff :=
  if v_epfirst v
  then epoch_effs c rs ++ [FPoint PEpochsAssigned; FAppendLog (TMain b) rs; FPoint PLogWritten;
                           FAppendIdx (TMain b) rs; FPoint PIndexWritten]
  else [FAppendLog (TMain b) rs; FPoint PLogWritten; FAppendIdx (TMain b) rs; FPoint PIndexWritten]
         ++ epoch_effs c rs.

(* checkAndPerformSplit; None: newSegment reports ErrSegmentExists for ever *)
Definition split_effs (maxb : Z) (d : disk) : option (list eff) :=
  let a := d_active d in
  if maxb <=? m_pos a then
    match seg_get (d_segs d) (m_next a) with
    | Some _ => None
    | None => Some [FCreateLog (TMain (m_next a)); FPoint PSegLogCreated; FCreateIdx (TMain (m_next a)); FPoint PSplitCreated]
    end
  else Some [].

(* a replacement segment filled frame by frame, then renamed over the original (segment.Replace) *)
Definition copy_effs (t : tgt) (nf : list rec) : list eff :=
  concat (map (fun r => [FAppendLog t [r]; FPoint PLogWritten; FAppendIdx t [r]]) nf).

Definition replace_effs (v : variant) (s : suf) (b : Z) (nf : list rec) (pcopy : pname) : list eff :=
  (if v_fresh v then [FRemoveLog (TScr b s); FRemoveIdx (TScr b s)] else [])
    ++ [FCreateLog (TScr b s); FCreateIdx (TScr b s)]
    ++ copy_effs (TScr b s) nf
    ++ [FPoint pcopy; FPoint PReplClosed; FRenameLog b s; FPoint PReplLogRenamed; FRenameIdx b s; FPoint PReplIdxRenamed].

Definition segs_of (d : disk) : list seg := map m_seg (d_segs d).

(* the next offset of the log once Truncate is through: of the segment before the removed one, or of
   the rewritten segment *)
Definition trunc_next (segs : list seg) (i : nat) (s : seg) (o : Z) : Z :=
  if (s_base s =? o) && negb (Nat.eqb i 0) then s_next (nth (i - 1) segs s)
  else s_next (mkSeg (s_base s) (keep_below (s_recs s) o)).

Definition trunc_effs (v : variant) (d : disk) (o : Z) : list eff :=
  match find_segment (segs_of d) o with
  | None => []
  | Some (i, s) =>
    concat (map (fun m => del_effs (TMain (m_base m))) (skipn (S i) (d_segs d)))
      ++ [FPoint PTailDeleted]
      ++ (if (s_base s =? o) && negb (Nat.eqb i 0) then del_effs (TMain (s_base s))
          else replace_effs v STrunc (s_base s) (keep_below (s_recs s) o) PTruncCopy)
      ++ [FPoint PTruncReplaced]
      ++ (let e := Z.min o (trunc_next (segs_of d) i s o) in
          if cache_latest_off (d_ep d) <? e then [] else [FEpochs (cache_clear_latest (d_ep d) e)])
  end.

(* deleteCleaner: the age limit deletes oldest first, the message and byte limits newest first *)
Definition clean_del (m : seg) : list eff := FPoint PCleanDeleting :: del_effs (TMain (s_base m)).
Definition dropped (before after : list seg) : list seg := firstn (length before - length after) before.

Definition retention_effs (lim : limits) (ttl : Z) (segs : list seg) : list eff * list seg :=
  let s1 := if 0 <? lim_age lim then drop_expired ttl segs else segs in
  let s2 := if 0 <? lim_msgs lim then apply_limit (lim_msgs lim) s_count s1 else s1 in
  let s3 := if 0 <? lim_bytes lim then apply_limit (lim_bytes lim) s_pos s2 else s2 in
  (concat (map clean_del (dropped segs s1)) ++ concat (map clean_del (rev (dropped s1 s2)))
     ++ concat (map clean_del (rev (dropped s2 s3))), s3).

Section Compaction.
  Variable key_of : bytes -> option bytes.

  Definition compact_one (v : variant) (hw : Z) (all : list rec) (s : seg) : list eff :=
    let nf := filter (retained key_of false hw all) (s_recs s) in
    match nf with
    | [] => (if v_fresh v then [FRemoveLog (TScr (s_base s) SClean); FRemoveIdx (TScr (s_base s) SClean)] else [])
              ++ [FCreateLog (TScr (s_base s) SClean); FCreateIdx (TScr (s_base s) SClean)]
              ++ del_effs (TScr (s_base s) SClean) ++ del_effs (TMain (s_base s))
    | _ => replace_effs v SClean (s_base s) nf PCompactCopy
    end.

  Definition clean_effs (v : variant) (compact : bool) (lim : limits) (ttl : Z) (d : disk) (hw : Z) : list eff :=
    let '(dels, s3) := retention_effs lim ttl (segs_of d) in
    let first_base := match s3 with [] => 0 | s :: _ => s_base s end in
    match compact, s3 with
    | true, _ :: _ :: _ =>
      let all := concat (map s_recs s3) in
      dels ++ concat (map (compact_one v hw all) (removelast s3))
           ++ [FPoint PCleanCleaned; FEpochs (cache_assign_all [] (concat (map s_recs (compact_segs key_of false hw s3))))]
    | _, _ => dels ++ [FPoint PCleanCleaned; FEpochs (cache_clear_earliest (d_ep d) first_base)]
    end.

  (* ---- operations ---- *)
  Inductive dop :=
  | DCreate                         (* commitlog.New on an empty directory *)
  | DAppend (ms : list msg)
  | DASet (rs : list rec)
  | DTrunc (o : Z)
  | DClean (ttl : Z)
  | DSetHw (h : Z)
  | DCheckpoint
  | DEpoch (e : N)
  | DReopen.

  Record st := mkSt { s_disk : disk; s_hw : Z }.
  Record params := mkP { p_maxb : Z; p_lim : limits; p_compact : bool }.

  Definition script (v : variant) (p : params) (s : st) (o : dop) : option (list eff) :=
    let d := s_disk s in
    match o with
    | DCreate => Some [FCreateLog (TMain 0); FPoint PSegLogCreated; FCreateIdx (TMain 0)]
    | DAppend ms =>
      match split_effs (p_maxb p) d with
      | None => None
      | Some sp => let d1 := run_effs d sp in
                   let a := d_active d1 in
                   Some (sp ++ write_effs v (d_ep d) (m_base a) (number (m_next a) ms))
      end
    | DASet rs =>
      match split_effs (p_maxb p) d with
      | None => None
      | Some sp => let d1 := run_effs d sp in
                   Some (sp ++ write_effs v (d_ep d) (m_base (d_active d1)) rs)
      end
    | DTrunc o => Some (trunc_effs v d o)
    | DClean ttl => Some (clean_effs v (p_compact p) (p_lim p) ttl d (s_hw s))
    | DSetHw _ => Some []
    | DCheckpoint => Some [FHw (s_hw s)]
    | DEpoch e =>
      let a := d_active d in
      Some (if (cache_latest_epoch (d_ep d) <? e)%N && (cache_latest_off (d_ep d) <=? m_next a)
            then [FEpochs (cache_assign (d_ep d) e (m_next a))] else [])
    | DReopen => Some [FHw (s_hw s)]
    end.

  (* the operation runs to completion *)
  Definition exec (v : variant) (p : params) (s : st) (o : dop) : option st :=
    match script v p s o with
    | None => None
    | Some es =>
      let d' := run_effs (s_disk s) es in
      Some match o with
           | DSetHw h => mkSt d' (if s_hw s <? h then h else s_hw s)
           | DReopen => let r := recover v d' in mkSt r (d_hw r)
           | _ => mkSt d' (s_hw s)
           end
    end.

  (* the process dies after the first n effects of the operation; the directory is reopened *)
  Definition crash (v : variant) (p : params) (s : st) (o : dop) (n : nat) : option st :=
    match script v p s o with
    | None => None
    | Some es => let r := recover v (run_effs (s_disk s) (firstn n es)) in Some (mkSt r (d_hw r))
    end.

  (* histories: operations that complete, and operations cut short by a crash *)
  Inductive hstep := HDo (o : dop) | HCrash (o : dop) (n : nat).

  Definition hstep_run (v : variant) (p : params) (s : option st) (h : hstep) : option st :=
    match s with
    | None => None
    | Some s => match h with HDo o => exec v p s o | HCrash o n => crash v p s o n end
    end.

  Definition empty_disk : disk := mkDisk [] [] [] (-1) [].
  Definition init (v : variant) (p : params) : option st := exec v p (mkSt empty_disk (-1)) DCreate.
  Definition run (v : variant) (p : params) (hs : list hstep) : option st := fold_left (hstep_run v p) hs (init v p).
End Compaction.

(* the prefix of a script up to and including its k-th crash point (k >= 1) *)
Fixpoint upto_point (k : nat) (es : list eff) : option (list eff) :=
  match es with
  | [] => None
  | FPoint p :: r => match k with
                     | O => None
                     | S O => Some [FPoint p]
                     | S k' => match upto_point k' r with Some l => Some (FPoint p :: l) | None => None end
                     end
  | e :: r => match upto_point k r with Some l => Some (e :: l) | None => None end
  end.

Fixpoint points_of (es : list eff) : list pname :=
  match es with
  | [] => []
  | FPoint p :: r => p :: points_of r
  | _ :: r => points_of r
  end.
