(* Foundations for the crash-recovery proofs (Log/DiskProofs.v): subsequences, frame sizes, the
   leader-epoch cache against a sorted list of records, the pairwise well-formedness of a segment
   list, and what commitlog.New (recover) makes of a directory whose indexes may be behind. *)
From LB Require Import Base.Prelude Log.Model Log.Retention Log.Compact Log.Proofs Log.Disk.
From Coq Require Import ZifyBool.
Open Scope Z_scope.

(* ------------------------------------------------------------------ subsequences *)
Inductive subseq {A} : list A -> list A -> Prop :=
| sub_nil : subseq [] []
| sub_skip x l1 l2 : subseq l1 l2 -> subseq l1 (x :: l2)
| sub_keep x l1 l2 : subseq l1 l2 -> subseq (x :: l1) (x :: l2).

Lemma subseq_refl {A} (l : list A) : subseq l l.
Proof. induction l; constructor; assumption. Qed.

Lemma subseq_nil {A} (l : list A) : subseq [] l.
Proof. induction l; constructor; assumption. Qed.

Lemma subseq_incl {A} (a b : list A) : subseq a b -> forall x, In x a -> In x b.
Proof.
  induction 1 as [|y l1 l2 _ IH|y l1 l2 _ IH]; intros x Hx; [destruct Hx|right; apply IH; exact Hx|].
  destruct Hx as [<-|Hx]; [left; reflexivity|right; apply IH; exact Hx].
Qed.

Lemma filter_subseq {A} (p : A -> bool) l : subseq (filter p l) l.
Proof. induction l as [|x t IH]; cbn [filter]; [constructor|]. destruct (p x); constructor; exact IH. Qed.

Lemma subseq_trans {A} (a b c : list A) : subseq a b -> subseq b c -> subseq a c.
Proof.
  intros Hab Hbc. revert a Hab. induction Hbc as [|x l1 l2 _ IH|x l1 l2 _ IH]; intros a Hab.
  - exact Hab.
  - apply sub_skip. apply IH. exact Hab.
  - inversion Hab as [|y a1 b1 H1|y a1 b1 H1]; subst.
    + apply sub_skip. apply IH. exact H1.
    + apply sub_keep. apply IH. exact H1.
Qed.

Lemma keep_below_subseq rs o : subseq (keep_below rs o) rs.
Proof.
  induction rs as [|r t IH]; cbn [keep_below]; [constructor|].
  destruct (r_off r <? o); [constructor; exact IH|apply subseq_nil].
Qed.

Lemma sorted_from_subseq a b : subseq a b -> forall lo, sorted_from lo b -> sorted_from lo a.
Proof.
  induction 1 as [|x l1 l2 _ IH|x l1 l2 _ IH]; intros lo Hs; [exact I| |].
  - destruct Hs as [H1 H2]. apply IH. eapply sorted_from_weaken; [|exact H2]. lia.
  - destruct Hs as [H1 H2]. split; [exact H1|apply IH; exact H2].
Qed.

(* ------------------------------------------------------------------ frame sizes *)
Lemma rsize_pos r : 0 < rsize r.
Proof. unfold rsize. lia. Qed.

Lemma fsize_app a b : fsize (a ++ b) = fsize a + fsize b.
Proof. induction a as [|x t IH]; cbn [app fsize fold_right]; [reflexivity|]. fold (fsize (t ++ b)). fold (fsize t). lia. Qed.

Lemma fsize_nonneg a : 0 <= fsize a.
Proof. induction a as [|x t IH]; cbn [fsize fold_right]; [lia|]. fold (fsize t). pose proof (rsize_pos x). lia. Qed.

Lemma fsize_zero a : fsize a = 0 -> a = [].
Proof. destruct a as [|x t]; [reflexivity|]. cbn [fsize fold_right]. fold (fsize t). pose proof (rsize_pos x). pose proof (fsize_nonneg t). lia. Qed.

Lemma subseq_fsize a b : subseq a b -> a = b \/ fsize a < fsize b.
Proof.
  induction 1 as [|x l1 l2 _ IH|x l1 l2 _ IH]; [left; reflexivity| |].
  - right. cbn [fsize fold_right]. fold (fsize l2). pose proof (rsize_pos x). destruct IH as [->|IH]; lia.
  - destruct IH as [->|IH]; [left; reflexivity|right]. cbn [fsize fold_right]. fold (fsize l1). fold (fsize l2). lia.
Qed.

(* s_pos of the in-memory model is the same size *)
Lemma s_pos_fsize_aux rs a : fold_left (fun a r => a + rsize r) rs a = a + fsize rs.
Proof. revert a. induction rs as [|x t IH]; intros a; cbn [fold_left fsize fold_right]; [lia|]. fold (fsize t). rewrite IH. lia. Qed.
Lemma s_pos_fsize s : s_pos s = fsize (s_recs s).
Proof. unfold s_pos. rewrite s_pos_fsize_aux. lia. Qed.

(* ------------------------------------------------------------------ the leader-epoch cache *)
(* epochs strictly increasing, start offsets non-decreasing *)
Fixpoint csorted (c : epoch_cache) : Prop :=
  match c with
  | [] => True
  | (e, s) :: r => (forall e' s', In (e', s') r -> (e < e')%N /\ s <= s') /\ csorted r
  end.

(* the epoch the cache attributes to offset o: that of the last entry that starts at or before o *)
Definition epoch_at (c : epoch_cache) (o : Z) : N := fold_left (fun a es => if snd es <=? o then fst es else a) c 0%N.
Definition epoch_from (a : N) (c : epoch_cache) (o : Z) : N := fold_left (fun a es => if snd es <=? o then fst es else a) c a.

Lemma epoch_at_from c o : epoch_at c o = epoch_from 0%N c o.
Proof. reflexivity. Qed.

Lemma epoch_from_app a c1 c2 o : epoch_from a (c1 ++ c2) o = epoch_from (epoch_from a c1 o) c2 o.
Proof. unfold epoch_from. apply fold_left_app. Qed.

Lemma epoch_from_above a c o : (forall e s, In (e, s) c -> o < s) -> epoch_from a c o = a.
Proof.
  revert a. induction c as [|[e s] r IH]; intros a H; [reflexivity|]. unfold epoch_from. cbn [fold_left fst snd].
  specialize (H e s (or_introl eq_refl)) as H0. destruct (Z.leb_spec s o); [lia|]. apply IH. intros e' s' Hin. apply (H e' s'). right. exact Hin.
Qed.

Lemma epoch_from_below a c o : c <> [] -> (forall e s, In (e, s) c -> s <= o) -> epoch_from a c o = cache_latest_epoch c.
Proof.
  intros Hne H. destruct (exists_last Hne) as (c' & [e s] & ->). rewrite epoch_from_app.
  unfold epoch_from at 1. cbn [fold_left fst snd]. specialize (H e s ltac:(apply in_or_app; right; left; reflexivity)).
  destruct (Z.leb_spec s o); [|lia]. unfold cache_latest_epoch. rewrite fold_left_app. reflexivity.
Qed.

Lemma csorted_app c1 c2 : csorted (c1 ++ c2) <-> csorted c1 /\ csorted c2 /\
  (forall e1 s1 e2 s2, In (e1, s1) c1 -> In (e2, s2) c2 -> (e1 < e2)%N /\ s1 <= s2).
Proof.
  induction c1 as [|[e s] r IH]; cbn [app csorted].
  - split; [intros H; split; [exact I|split; [exact H|intros e1 s1 e2 s2 []]]|intros (_ & H & _); exact H].
  - rewrite IH. split.
    + intros (H1 & H2 & H3 & H4). split; [split|split].
      * intros e' s' Hin. apply H1. apply in_or_app. left. exact Hin.
      * exact H2.
      * exact H3.
      * intros e1 s1 e2 s2 Hi1 Hi2. destruct Hi1 as [[= <- <-]|Hi1]; [apply (H1 e2 s2); apply in_or_app; right; exact Hi2|apply (H4 e1 s1 e2 s2 Hi1 Hi2)].
    + intros ((H1 & H2) & H3 & H4). split; [|split; [exact H2|split; [exact H3|]]].
      * intros e' s' Hin. apply in_app_or in Hin. destruct Hin as [Hin|Hin]; [apply H1; exact Hin|apply (H4 e s e' s'); [left; reflexivity|exact Hin]].
      * intros e1 s1 e2 s2 Hi1 Hi2. apply (H4 e1 s1 e2 s2); [right; exact Hi1|exact Hi2].
Qed.

Lemma latest_snoc c e s : cache_latest_epoch (c ++ [(e, s)]) = e /\ cache_latest_off (c ++ [(e, s)]) = s.
Proof. unfold cache_latest_epoch, cache_latest_off. rewrite !fold_left_app. split; reflexivity. Qed.

Lemma csorted_latest c e s : csorted c -> In (e, s) c -> (e <= cache_latest_epoch c)%N /\ s <= cache_latest_off c.
Proof.
  intros Hs Hin. destruct c as [|x t]; [destruct Hin|]. destruct (exists_last (l := x :: t) ltac:(discriminate)) as (c' & [e0 s0] & E).
  rewrite E in *. destruct (latest_snoc c' e0 s0) as [-> ->]. apply csorted_app in Hs. destruct Hs as (_ & _ & H).
  apply in_app_or in Hin. destruct Hin as [Hin|[[= <- <-]|[]]]; [|lia].
  specialize (H e s e0 s0 Hin (or_introl eq_refl)). lia.
Qed.

Lemma latest_nil : cache_latest_epoch [] = 0%N /\ cache_latest_off [] = -1.
Proof. split; reflexivity. Qed.

(* what the cache has to say about a list of records *)
Definition cmatch (c : epoch_cache) (rs : list rec) : Prop := forall x, In x rs -> epoch_at c (r_off x) = r_ep x.

(* Assign *)
Lemma assign_spec c e o :
  cache_assign c e o = if (cache_latest_epoch c <? e)%N && (cache_latest_off c <=? o) then c ++ [(e, o)] else c.
Proof. reflexivity. Qed.

Lemma assign_sorted c e o : csorted c -> csorted (cache_assign c e o).
Proof.
  intros Hs. rewrite assign_spec. destruct ((cache_latest_epoch c <? e)%N && (cache_latest_off c <=? o)) eqn:E; [|exact Hs].
  apply andb_true_iff in E. destruct E as [E1 E2]. apply N.ltb_lt in E1. apply Z.leb_le in E2.
  apply csorted_app. split; [exact Hs|]. split; [split; [intros e' s' []|exact I]|].
  intros e1 s1 e2 s2 Hi1 Hi2. destruct Hi2 as [[= <- <-]|[]]. destruct (csorted_latest c e1 s1 Hs Hi1). lia.
Qed.

(* new records are numbered from at least `next`, which is above everything the cache and the old records know *)
Definition cbound (c : epoch_cache) (next : Z) : Prop := forall e s, In (e, s) c -> s <= next.

Lemma assign_keeps_old c e o rs next : cmatch c rs -> (forall x, In x rs -> r_off x < next) -> next <= o ->
  cmatch (cache_assign c e o) rs.
Proof.
  intros Hm Hlt Ho x Hx. rewrite assign_spec. destruct ((cache_latest_epoch c <? e)%N && (cache_latest_off c <=? o)); [|apply Hm; exact Hx].
  rewrite epoch_at_from, epoch_from_app. unfold epoch_from at 1. cbn [fold_left fst snd].
  specialize (Hlt x Hx). destruct (Z.leb_spec o (r_off x)); [lia|]. apply Hm. exact Hx.
Qed.

(* the epoch attributed to an offset at or beyond every start offset is the latest epoch *)
Lemma epoch_at_top c o : cbound c o -> epoch_at c o = cache_latest_epoch c.
Proof.
  intros Hb. destruct c as [|x t]; [reflexivity|]. rewrite epoch_at_from. apply epoch_from_below; [discriminate|]. exact Hb.
Qed.

(* appending a run of records whose epochs do not decrease and are at least the latest epoch *)
Fixpoint ep_mono (lo : N) (rs : list rec) : Prop :=
  match rs with
  | [] => True
  | r :: t => (lo <= r_ep r)%N /\ ep_mono (r_ep r) t
  end.

Lemma assign_all_ok rs : forall c old next, 0 <= next ->
  csorted c -> cbound c next -> cmatch c old -> (forall x, In x old -> r_off x < next) ->
  sorted_from next rs -> ep_mono (cache_latest_epoch c) rs ->
  let c' := cache_assign_all c rs in
  csorted c' /\ cbound c' (next_after next rs) /\ cmatch c' (old ++ rs) /\ (cache_latest_epoch c <= cache_latest_epoch c')%N.
Proof.
  induction rs as [|r t IH]; intros c old next Hn0 Hs Hb Hm Hlt Hsort Hmono; cbn zeta.
  - unfold cache_assign_all. cbn [fold_left]. rewrite app_nil_r, next_after_nil. repeat split; try assumption. lia.
  - destruct Hsort as [Hr Ht]. destruct Hmono as [He Hmt].
    unfold cache_assign_all. cbn [fold_left]. fold (cache_assign_all (cache_assign c (r_ep r) (r_off r)) t).
    set (c1 := cache_assign c (r_ep r) (r_off r)).
    assert (Hs1 : csorted c1) by (apply assign_sorted; exact Hs).
    assert (Hlat : cache_latest_epoch c1 = r_ep r /\ cbound c1 (r_off r + 1) /\ epoch_at c1 (r_off r) = r_ep r).
    { unfold c1. rewrite assign_spec.
      destruct (N.ltb_spec (cache_latest_epoch c) (r_ep r)) as [Hlt'|Hge]; cbn [andb].
      - assert (Hoff : cache_latest_off c <= r_off r).
        { destruct c as [|x0 t0]; [change (cache_latest_off []) with (-1); lia|]. destruct (exists_last (l := x0 :: t0) ltac:(discriminate)) as (c' & [e0 s0] & E). rewrite E in *.
          destruct (latest_snoc c' e0 s0) as [_ ->]. specialize (Hb e0 s0 ltac:(apply in_or_app; right; left; reflexivity)). lia. }
        destruct (Z.leb_spec (cache_latest_off c) (r_off r)); [|lia].
        destruct (latest_snoc c (r_ep r) (r_off r)) as [-> _]. split; [reflexivity|]. split.
        + intros e s Hin. apply in_app_or in Hin. destruct Hin as [Hin|[[= <- <-]|[]]]; [specialize (Hb e s Hin); lia|lia].
        + rewrite epoch_at_from, epoch_from_app. unfold epoch_from at 1. cbn [fold_left fst snd]. destruct (Z.leb_spec (r_off r) (r_off r)); [reflexivity|lia].
      - assert (E : cache_latest_epoch c = r_ep r) by lia. split; [exact E|]. split.
        + intros e s Hin. specialize (Hb e s Hin). lia.
        + rewrite epoch_at_top; [exact E|]. intros e s Hin. specialize (Hb e s Hin). lia. }
    destruct Hlat as (Hl1 & Hb1 & Hat).
    assert (Hm1 : cmatch c1 (old ++ [r])).
    { intros x Hx. apply in_app_or in Hx. destruct Hx as [Hx|[<-|[]]]; [|exact Hat].
      unfold c1. apply (assign_keeps_old c (r_ep r) (r_off r) old next); assumption. }
    specialize (IH c1 (old ++ [r]) (r_off r + 1) ltac:(lia) Hs1 Hb1 Hm1).
    assert (Hlt1 : forall x, In x (old ++ [r]) -> r_off x < r_off r + 1).
    { intros x Hx. apply in_app_or in Hx. destruct Hx as [Hx|[<-|[]]]; [specialize (Hlt x Hx); lia|lia]. }
    rewrite Hl1 in IH. specialize (IH Hlt1 Ht Hmt). cbn zeta in IH. destruct IH as (I1 & I2 & I3 & I4).
    rewrite <- app_assoc in I3. cbn [app] in I3.
    assert (Hn : next_after next (r :: t) = next_after (r_off r + 1) t) by (apply next_after_cons; assumption).
    assert (Hn' : next_after next (r :: t) = next_after (r_off r + 1) t \/ True) by (left; exact Hn).
    repeat split; try assumption.
    + rewrite Hn. exact I2.
    + unfold c1 in *. assert (cache_latest_epoch c <= r_ep r)%N by exact He. lia.
Qed.

(* ---- ClearLatest ---- *)
Lemma csorted_filter p c : csorted c -> csorted (filter p c).
Proof.
  induction c as [|[e s] r IH]; intros Hs; [exact I|]. destruct Hs as [H1 H2]. cbn [filter].
  destruct (p (e, s)); [|apply IH; exact H2]. split; [|apply IH; exact H2].
  intros e' s' Hin. apply filter_In in Hin. apply H1. apply Hin.
Qed.

Lemma epoch_from_filter p a c o : (forall e s, In (e, s) c -> p (e, s) = false -> o < s) ->
  epoch_from a (filter p c) o = epoch_from a c o.
Proof.
  revert a. induction c as [|[e s] r IH]; intros a H; [reflexivity|]. cbn [filter].
  assert (Hr : forall e0 s0, In (e0, s0) r -> p (e0, s0) = false -> o < s0) by (intros e0 s0 Hin; apply H; right; exact Hin).
  destruct (p (e, s)) eqn:Ep.
  - unfold epoch_from. cbn [fold_left]. apply IH. exact Hr.
  - rewrite IH by exact Hr. unfold epoch_from at 2. cbn [fold_left fst snd].
    specialize (H e s (or_introl eq_refl) Ep). destruct (Z.leb_spec s o); [lia|reflexivity].
Qed.

Lemma clear_latest_sorted c o : csorted c -> csorted (cache_clear_latest c o).
Proof. intros Hs. unfold cache_clear_latest. destruct (cache_latest_off c <? o); [exact Hs|apply csorted_filter; exact Hs]. Qed.

Lemma clear_latest_bound c o : csorted c -> cbound (cache_clear_latest c o) o.
Proof.
  intros Hs e s Hin. unfold cache_clear_latest in Hin. destruct (Z.ltb_spec (cache_latest_off c) o).
  - destruct (csorted_latest c e s Hs Hin). lia.
  - apply filter_In in Hin. destruct Hin as [_ Hlt]. cbn [snd] in Hlt. lia.
Qed.

Lemma clear_latest_match c o rs : cmatch c rs -> (forall x, In x rs -> r_off x < o) -> cmatch (cache_clear_latest c o) rs.
Proof.
  intros Hm Hlt x Hx. unfold cache_clear_latest. destruct (cache_latest_off c <? o); [apply Hm; exact Hx|].
  rewrite epoch_at_from, epoch_from_filter; [apply Hm; exact Hx|].
  intros e s _ Hp. cbn [snd] in Hp. specialize (Hlt x Hx). lia.
Qed.

(* ---- ClearEarliest ---- *)
Lemma filter_prefix_sorted c o : csorted c ->
  exists c1 c2, c = c1 ++ c2 /\ filter (fun e : N * Z => snd e <? o) c = c1 /\
                (forall e s, In (e, s) c1 -> s < o) /\ (forall e s, In (e, s) c2 -> o <= s).
Proof.
  induction c as [|[e s] r IH]; intros Hs.
  - exists [], []. repeat split; intros ? ? [].
  - destruct Hs as [H1 H2]. cbn [filter snd]. destruct (Z.ltb_spec s o) as [Hlt|Hge].
    + destruct (IH H2) as (c1 & c2 & E & F & A & B). exists ((e, s) :: c1), c2. repeat split.
      * cbn [app]. rewrite E at 1. reflexivity.
      * rewrite F. reflexivity.
      * intros e' s' [[= <- <-]|Hin]; [exact Hlt|apply (A e' s' Hin)].
      * exact B.
    + exists [], ((e, s) :: r). repeat split.
      * assert (forall x, In x r -> (fun e0 : N * Z => snd e0 <? o) x = false).
        { intros [e' s'] Hin. cbn [snd]. destruct (H1 e' s' Hin). lia. }
        clear -H. induction r as [|x t IHt]; [reflexivity|]. cbn [filter]. rewrite (H x (or_introl eq_refl)). apply IHt. intros y Hy. apply H. right. exact Hy.
      * intros ? ? [].
      * intros e' s' [[= <- <-]|Hin]; [exact Hge|destruct (H1 e' s' Hin); lia].
Qed.

Lemma skipn_app_exact {A} (a b : list A) : skipn (length a) (a ++ b) = b.
Proof. induction a as [|x t IH]; [reflexivity|exact IH]. Qed.

Lemma clear_earliest_cases c o : csorted c ->
  cache_clear_earliest c o = c \/
  exists c1 c2 le lo, c = c1 ++ (le, lo) :: c2 /\ (forall e s, In (e, s) (c1 ++ [(le, lo)]) -> s < o) /\ (forall e s, In (e, s) c2 -> o <= s) /\
    (cache_clear_earliest c o = (le, o) :: c2 \/
     (cache_clear_earliest c o = c2 /\ exists e2 t2, c2 = (e2, o) :: t2)).
Proof.
  intros Hs. unfold cache_clear_earliest. destruct (o <=? cache_earliest_off c); [left; reflexivity|].
  destruct (filter_prefix_sorted c o Hs) as (c1 & c2 & E & F & A & B). rewrite F.
  destruct (rev c1) as [|[le lo] rc] eqn:Er; [left; reflexivity|].
  right. assert (E1 : c1 = rev rc ++ [(le, lo)]) by (rewrite <- (rev_involutive c1), Er; reflexivity).
  exists (rev rc), c2, le, lo. rewrite E at 1. rewrite E1 at 1. rewrite <- app_assoc. cbn [app].
  split; [reflexivity|]. split; [rewrite <- E1; exact A|]. split; [exact B|].
  assert (Hsk : skipn (length c1) c = c2) by (rewrite E; apply skipn_app_exact). rewrite Hsk.
  destruct c2 as [|[e2 s2] t2].
  - left. cbn. rewrite orb_true_r. reflexivity.
  - cbn [cache_earliest_off snd orb]. destruct (Z.ltb_spec o s2); cbn [orb].
    + left. reflexivity.
    + right. split; [reflexivity|]. specialize (B e2 s2 (or_introl eq_refl)). assert (s2 = o) by lia. subst s2. exists e2, t2. reflexivity.
Qed.

Lemma clear_earliest_sorted c o : csorted c -> csorted (cache_clear_earliest c o).
Proof.
  intros Hs. destruct (clear_earliest_cases c o Hs) as [->|(c1 & c2 & le & lo & E & A & B & [->|[-> _]])]; [exact Hs| |].
  - rewrite E in Hs. apply csorted_app in Hs. destruct Hs as (_ & H2 & _). destruct H2 as [H21 H22].
    split; [|exact H22]. intros e' s' Hin. split; [apply (H21 e' s' Hin)|apply (B e' s' Hin)].
  - rewrite E in Hs. apply csorted_app in Hs. destruct Hs as (_ & H2 & _). destruct H2 as [_ H22]. exact H22.
Qed.

Lemma clear_earliest_bound c o n : csorted c -> cbound c n -> o <= n -> cbound (cache_clear_earliest c o) n.
Proof.
  intros Hs Hb Hon. destruct (clear_earliest_cases c o Hs) as [->|(c1 & c2 & le & lo & E & A & B & [->|[-> _]])]; [exact Hb| |].
  - intros e s [[= <- <-]|Hin]; [exact Hon|]. apply (Hb e s). rewrite E. apply in_or_app. right. right. exact Hin.
  - intros e s Hin. apply (Hb e s). rewrite E. apply in_or_app. right. right. exact Hin.
Qed.

Lemma clear_earliest_match c o rs : csorted c -> cmatch c rs -> (forall x, In x rs -> o <= r_off x) -> cmatch (cache_clear_earliest c o) rs.
Proof.
  intros Hs Hm Hge. destruct (clear_earliest_cases c o Hs) as [->|(c1 & c2 & le & lo & E & A & B & C)]; [exact Hm|].
  intros x Hx. specialize (Hm x Hx). specialize (Hge x Hx). rewrite <- Hm.
  assert (E2 : c = (c1 ++ [(le, lo)]) ++ c2) by (rewrite E, <- app_assoc; reflexivity).
  assert (Hpre : epoch_from 0%N (c1 ++ [(le, lo)]) (r_off x) = le).
  { rewrite epoch_from_below; [apply latest_snoc|destruct c1; discriminate|]. intros e s Hin. specialize (A e s Hin). lia. }
  assert (Hc : epoch_at c (r_off x) = epoch_from le c2 (r_off x)).
  { rewrite E2 at 1. rewrite epoch_at_from, epoch_from_app, Hpre. reflexivity. }
  rewrite Hc. destruct C as [->|[-> (e2 & t2 & ->)]].
  - rewrite epoch_at_from. unfold epoch_from at 1. cbn [fold_left fst snd]. destruct (Z.leb_spec o (r_off x)); [reflexivity|lia].
  - rewrite epoch_at_from. unfold epoch_from. cbn [fold_left fst snd]. destruct (Z.leb_spec o (r_off x)); [reflexivity|lia].
Qed.

(* ------------------------------------------------------------------ well-formed segment lists, pairwise *)
Fixpoint bases_lt (lo : Z) (segs : list seg) : Prop :=
  match segs with
  | [] => True
  | s :: r => lo < s_base s /\ bases_lt (s_base s) r
  end.

Record WF (segs : list seg) : Prop := {
  wf_bases : bases_lt (-1) segs;
  wf_sorted : forall s, In s segs -> sorted_from (s_base s) (s_recs s);
  wf_below : forall s1 s2, In s1 segs -> In s2 segs -> s_base s1 < s_base s2 -> forall x, In x (s_recs s1) -> r_off x < s_base s2 }.

Lemma bases_lt_all lo segs : bases_lt lo segs -> forall s, In s segs -> lo < s_base s.
Proof.
  revert lo. induction segs as [|x t IH]; intros lo H s Hin; [destruct Hin|]. destruct H as [H1 H2].
  destruct Hin as [<-|Hin]; [exact H1|]. specialize (IH _ H2 s Hin). lia.
Qed.

Lemma bases_lt_weaken lo lo' segs : lo' <= lo -> bases_lt lo segs -> bases_lt lo' segs.
Proof. destruct segs as [|x t]; [auto|]. intros H [H1 H2]. split; [lia|exact H2]. Qed.

Lemma WF_tail s t : WF (s :: t) -> WF t.
Proof.
  intros [B S L]. split.
  - destruct B as [B1 B2]. eapply bases_lt_weaken; [|exact B2]. lia.
  - intros x Hx. apply S. right. exact Hx.
  - intros s1 s2 H1 H2. apply L; right; assumption.
Qed.

Lemma last_off_in rs : rs <> [] -> exists x, In x rs /\ r_off x = last_off_of rs.
Proof.
  intros Hne. destruct (exists_last Hne) as (l & x & ->). exists x. split; [apply in_or_app; right; left; reflexivity|].
  rewrite last_off_snoc. reflexivity.
Qed.

(* an upper bound for NextOffset from the pairwise condition *)
Lemma s_next_le s b : 0 <= s_base s -> sorted_from (s_base s) (s_recs s) -> s_base s < b ->
  (forall x, In x (s_recs s) -> r_off x < b) -> s_next s <= b.
Proof.
  intros H0 Hs Hb Hx. unfold s_next, s_last. destruct (s_recs s) as [|r t] eqn:E.
  - change (last_off_of []) with (-1). cbn. lia.
  - destruct (last_off_in (r :: t) ltac:(discriminate)) as (x & Hin & Hoff). specialize (Hx x Hin).
    destruct (Z.eqb_spec (last_off_of (r :: t)) (-1)); lia.
Qed.

Lemma WF_segs_wf_aux segs : forall lo, 0 <= lo -> (forall s, In s segs -> lo <= s_base s) -> WF segs -> segs_wf lo segs.
Proof.
  induction segs as [|s t IH]; intros lo Hlo Hge Hw; [exact I|].
  pose proof Hw as [B S L]. cbn [segs_wf]. split; [apply Hge; left; reflexivity|]. split; [apply S; left; reflexivity|].
  assert (H0 : 0 <= s_base s) by (specialize (Hge s (or_introl eq_refl)); lia).
  apply IH; [pose proof (s_next_ge s H0 (S s (or_introl eq_refl))); lia| |apply (WF_tail s t Hw)].
  intros s' Hin. destruct B as [_ B2]. pose proof (bases_lt_all _ _ B2 s' Hin) as Hlt.
  apply s_next_le; [exact H0|apply S; left; reflexivity|exact Hlt|].
  intros x Hx. apply (L s s'); [left; reflexivity|right; exact Hin|exact Hlt|exact Hx].
Qed.

Lemma WF_segs_wf segs : WF segs -> segs_wf 0 segs.
Proof.
  intros Hw. apply WF_segs_wf_aux; [lia| |exact Hw]. intros s Hin. pose proof (bases_lt_all _ _ (wf_bases _ Hw) s Hin). lia.
Qed.

Lemma WF_base_nonneg segs s : WF segs -> In s segs -> 0 <= s_base s.
Proof. intros Hw Hin. pose proof (bases_lt_all _ _ (wf_bases _ Hw) s Hin). lia. Qed.

(* ------------------------------------------------------------------ good states, crash images, recovery *)
Definition flatc (segs : list seg) : list rec := concat (map s_recs segs).

Lemma content_flat d : content d = flat (segs_of d).
Proof. unfold content, flat, segs_of. rewrite map_map. reflexivity. Qed.

Lemma in_flat x segs : In x (flat segs) <-> exists s, In s segs /\ In x (s_recs s).
Proof.
  unfold flat. rewrite in_concat. split.
  - intros (l & Hl & Hx). apply in_map_iff in Hl. destruct Hl as (s & <- & Hs). exists s. split; assumption.
  - intros (s & Hs & Hx). exists (s_recs s). split; [apply in_map; exact Hs|exact Hx].
Qed.

Lemma bases_lt_app lo a b : bases_lt lo (a ++ b) -> bases_lt lo a /\ forall s1 s2, In s1 a -> In s2 b -> s_base s1 < s_base s2.
Proof.
  revert lo. induction a as [|x t IH]; intros lo H; cbn [app] in H.
  - split; [exact I|intros ? ? []].
  - destruct H as [H1 H2]. destruct (IH _ H2) as [I1 I2]. split; [split; assumption|].
    intros s1 s2 [<-|Hin] Hb; [|apply I2; assumption].
    apply (bases_lt_all _ _ H2). apply in_or_app. right. exact Hb.
Qed.

(* every record lies below the next offset of the last segment *)
Lemma WF_all_below_next segs last : WF (segs ++ [last]) -> forall x, In x (flat (segs ++ [last])) -> r_off x < s_next last.
Proof.
  intros Hw x Hx. apply in_flat in Hx. destruct Hx as (s & Hs & Hx).
  assert (H0 : 0 <= s_base last) by (apply (WF_base_nonneg _ _ Hw); apply in_or_app; right; left; reflexivity).
  assert (Hsl : sorted_from (s_base last) (s_recs last)) by (apply (wf_sorted _ Hw); apply in_or_app; right; left; reflexivity).
  apply in_app_or in Hs. destruct Hs as [Hs|[<-|[]]].
  - destruct (bases_lt_app _ _ _ (wf_bases _ Hw)) as [_ Hb]. specialize (Hb s last Hs (or_introl eq_refl)).
    pose proof (wf_below _ Hw s last ltac:(apply in_or_app; left; exact Hs) ltac:(apply in_or_app; right; left; reflexivity) Hb x Hx).
    pose proof (s_next_ge last H0 Hsl). lia.
  - pose proof (seg_all_lt_next last H0 Hsl) as HF. rewrite Forall_forall in HF. apply HF. exact Hx.
Qed.

Lemma sorted_from_head_min lo rs : sorted_from lo rs -> forall x, In x rs -> match rs with [] => True | r :: _ => r_off r <= r_off x end.
Proof.
  destruct rs as [|r t]; [intros _ x []|]. intros [H1 H2] x [<-|Hin]; [lia|].
  pose proof (sorted_all_lt (r_off r + 1) t) as HF. revert H2 Hin. clear. revert r. induction t as [|y t' IH]; intros r H2 Hin; [destruct Hin|].
  destruct H2 as [A B]. destruct Hin as [<-|Hin]; [lia|]. specialize (IH y B Hin). lia.
Qed.

(* every record lies at or above the first record of the first segment *)
Lemma WF_all_above_first first r0 t rest : WF (first :: rest) -> s_recs first = r0 :: t ->
  forall x, In x (flat (first :: rest)) -> r_off r0 <= r_off x.
Proof.
  intros Hw E x Hx. apply in_flat in Hx. destruct Hx as (s & Hs & Hx). destruct Hs as [<-|Hs].
  - pose proof (sorted_from_head_min _ _ (wf_sorted _ Hw first (or_introl eq_refl)) x Hx) as H. rewrite E in H. exact H.
  - destruct (wf_bases _ Hw) as [_ B]. pose proof (bases_lt_all _ _ B s Hs) as Hlt.
    pose proof (wf_below _ Hw first s (or_introl eq_refl) (or_intror Hs) Hlt r0 ltac:(rewrite E; left; reflexivity)).
    pose proof (wf_sorted _ Hw s (or_intror Hs)) as Hss. pose proof (sorted_from_head_min _ _ Hss x Hx) as Hm.
    destruct (s_recs s) as [|y t'] eqn:Es; [destruct Hx|]. destruct Hss as [Hy _]. lia.
Qed.

Record Good (s : st) : Prop := {
  g_ne : d_segs (s_disk s) <> [];
  g_wf : WF (segs_of (s_disk s));
  g_idx : forall m, In m (d_segs (s_disk s)) -> m_idx m = Some (m_recs m);
  g_orph : d_orph (s_disk s) = [];
  g_csorted : csorted (d_ep (s_disk s));
  g_cbound : cbound (d_ep (s_disk s)) (m_next (d_active (s_disk s)));
  g_cmatch : cmatch (d_ep (s_disk s)) (content (s_disk s));
  g_hw : d_hw (s_disk s) <= s_hw s }.

(* what a crash may leave: every index is either right or visibly not covering its log *)
Definition fixable (m : mseg) : Prop := m_fi m = m_recs m \/ fsize (m_fi m) <> fsize (m_recs m).

Record Mid (H : Z) (d : disk) : Prop := {
  mi_fix : forall m, In m (d_segs d) -> fixable m;
  mi_wf : WF (segs_of d);
  mi_csorted : csorted (d_ep d);
  mi_cmatch : cmatch (d_ep d) (content d);
  mi_hw : d_hw d <= H }.

Lemma fix_idx_fixable m : fixable m -> fix_idx fixed m = mkM (m_seg m) (Some (m_recs m)).
Proof.
  intros [E|N]; unfold fix_idx; cbn [v_rebuild fixed andb].
  - rewrite E. rewrite Z.eqb_refl. cbn [negb]. reflexivity.
  - destruct (Z.eqb_spec (fsize (m_fi m)) (fsize (m_recs m))); [contradiction|reflexivity].
Qed.

Lemma m_next_consistent m : m_idx m = Some (m_recs m) -> 0 <= m_base m -> sorted_from (m_base m) (m_recs m) ->
  m_next m = s_next (m_seg m).
Proof.
  intros E H0 Hs. unfold m_next, m_fi. rewrite E. unfold s_next, s_last. fold (m_recs m). fold (m_base m).
  destruct (m_recs m) as [|r t] eqn:Er.
  - reflexivity.
  - destruct (exists_last (l := r :: t) ltac:(discriminate)) as (l & x & El). rewrite El. rewrite rev_app_distr. cbn [rev app].
    rewrite last_off_snoc. rewrite El in Hs.
    assert (m_base m <= r_off x).
    { pose proof (sorted_last_ge (m_base m) (l ++ [x]) H0 Hs ltac:(destruct l; discriminate)) as Hl. rewrite last_off_snoc in Hl. exact Hl. }
    destruct (Z.eqb_spec (r_off x) (-1)); [lia|reflexivity].
Qed.

Lemma map_fix_idx ms : (forall m, In m ms -> fixable m) ->
  map (fix_idx fixed) ms = map (fun m => mkM (m_seg m) (Some (m_recs m))) ms.
Proof. intros H. apply map_ext_in. intros m Hin. apply fix_idx_fixable. apply H. exact Hin. Qed.

Lemma WF_single0 : WF [mkSeg 0 []].
Proof.
  split.
  - cbn. lia.
  - intros s [<-|[]]. exact I.
  - intros s1 s2 [<-|[]] [<-|[]]. cbn. lia.
Qed.

Lemma last_map {A B} (f : A -> B) l d : l <> [] -> last (map f l) (f d) = f (last l d).
Proof.
  induction l as [|x t IH]; intros Hne; [contradiction|]. destruct t as [|y t']; [reflexivity|].
  change (map f (x :: y :: t')) with (f x :: map f (y :: t')). cbn [last]. apply IH. discriminate.
Qed.

Theorem mid_recover H d : Mid H d ->
  let r := recover fixed d in
  Good (mkSt r (d_hw r)) /\ content r = content d /\ d_hw r <= H /\ d_scr r = d_scr d /\
  (d_segs d <> [] -> segs_of r = segs_of d).
Proof.
  intros [Hfix Hwf Hcs Hcm Hhw]. cbn zeta.
  set (segs := match map (fix_idx fixed) (d_segs d) with [] => [dummy_m] | l => l end).
  assert (Hsegs : (d_segs d = [] /\ segs = [dummy_m]) \/ (d_segs d <> [] /\ segs = map (fun m => mkM (m_seg m) (Some (m_recs m))) (d_segs d))).
  { unfold segs. rewrite (map_fix_idx _ Hfix). destruct (d_segs d) as [|m t]; [left; split; reflexivity|right; split; [discriminate|reflexivity]]. }
  assert (Hso : map m_seg segs = segs_of d \/ (d_segs d = [] /\ map m_seg segs = [mkSeg 0 []])).
  { destruct Hsegs as [[E ->]|[_ ->]]; [right; split; [exact E|reflexivity]|left]. unfold segs_of. rewrite map_map. reflexivity. }
  assert (Hcont : concat (map m_recs segs) = content d).
  { destruct Hsegs as [[E ->]|[_ ->]]; [unfold content; rewrite E; reflexivity|]. unfold content. rewrite map_map. reflexivity. }
  assert (Hne : segs <> []).
  { destruct Hsegs as [[_ ->]|[N ->]]; [discriminate|]. destruct (d_segs d); [contradiction|discriminate]. }
  assert (Hwf' : WF (map m_seg segs)).
  { destruct Hso as [->|[_ ->]]; [exact Hwf|exact WF_single0]. }
  assert (Hidx : forall m, In m segs -> m_idx m = Some (m_recs m)).
  { destruct Hsegs as [[_ ->]|[_ ->]]; [intros m [<-|[]]; reflexivity|]. intros m Hin. apply in_map_iff in Hin. destruct Hin as (m0 & <- & _). reflexivity. }
  set (a := last segs dummy_m).
  assert (Ha : In a segs) by (unfold a; destruct (exists_last Hne) as (l & x & ->); rewrite last_last; apply in_or_app; right; left; reflexivity).
  assert (Han : m_next a = s_next (m_seg a)).
  { apply m_next_consistent; [apply Hidx; exact Ha|apply (WF_base_nonneg _ _ Hwf'); apply in_map; exact Ha|apply (wf_sorted _ Hwf'); apply in_map; exact Ha]. }
  assert (Hbelow : forall x, In x (content d) -> r_off x < m_next a).
  { intros x Hx. rewrite Han. destruct (exists_last Hne) as (l & z & El). unfold a. rewrite El, last_last.
    rewrite El in Hwf'. rewrite map_app in Hwf'. cbn [map] in Hwf'. apply (WF_all_below_next _ _ Hwf').
    rewrite <- Hcont, El in Hx. unfold flat. change [m_seg z] with (map m_seg [z]). rewrite <- map_app, map_map. exact Hx. }
  set (old := match segs with [] => -1 | m :: _ => match m_fi m with [] => -1 | r0 :: _ => r_off r0 end end).
  assert (Hold : (forall x, In x (content d) -> old <= r_off x) /\ old <= m_next a).
  { unfold old. destruct segs as [|m t] eqn:Es; [contradiction|].
    assert (Hm : m_fi m = m_recs m) by (unfold m_fi; rewrite (Hidx m (or_introl eq_refl)); reflexivity). rewrite Hm.
    assert (H0 : 0 <= m_next a).
    { rewrite Han. pose proof (WF_base_nonneg _ (m_seg a) Hwf' ltac:(apply in_map; exact Ha)) as Hb.
      pose proof (s_next_ge (m_seg a) Hb (wf_sorted _ Hwf' _ ltac:(apply in_map; exact Ha))). lia. }
    destruct (m_recs m) as [|r0 t0] eqn:Er.
    - split; [|lia]. intros x Hx. specialize (Hbelow x Hx).
      rewrite <- Hcont in Hx. apply in_concat in Hx. destruct Hx as (l & Hl & Hx). apply in_map_iff in Hl. destruct Hl as (m' & <- & Hm').
      pose proof (wf_sorted _ Hwf' (m_seg m') ltac:(apply in_map; exact Hm')) as Hss.
      pose proof (WF_base_nonneg _ (m_seg m') Hwf' ltac:(apply in_map; exact Hm')).
      pose proof (sorted_all_lt _ _ H1 Hss) as HF. rewrite Forall_forall in HF. specialize (HF x Hx). lia.
    - cbn [map] in Hwf'. assert (Hx0 : forall x, In x (content d) -> r_off r0 <= r_off x).
      { intros x Hx. apply (WF_all_above_first (m_seg m) r0 t0 (map m_seg t) Hwf' Er).
        rewrite <- Hcont in Hx. unfold flat. change (m_seg m :: map m_seg t) with (map m_seg (m :: t)). rewrite map_map. exact Hx. }
      split; [exact Hx0|]. assert (In r0 (content d)) by (rewrite <- Hcont; cbn [map concat]; apply in_or_app; left; rewrite Er; left; reflexivity).
      specialize (Hbelow r0 H1). lia. }
  destruct Hold as [Hold1 Hold2].
  split; [|split; [exact Hcont|split; [exact Hhw|split; [reflexivity|]]]].
  - split; cbn [s_disk s_hw recover d_segs d_orph d_ep d_hw]; fold segs; fold a; fold old.
    + exact Hne.
    + exact Hwf'.
    + exact Hidx.
    + reflexivity.
    + apply clear_earliest_sorted, clear_latest_sorted. exact Hcs.
    + unfold d_active. cbn [d_segs]. fold a.
      apply clear_earliest_bound; [apply clear_latest_sorted; exact Hcs|apply clear_latest_bound; exact Hcs|exact Hold2].
    + change (content (recover fixed d)) with (concat (map m_recs segs)). rewrite Hcont.
      apply clear_earliest_match; [apply clear_latest_sorted; exact Hcs| |exact Hold1].
      apply clear_latest_match; [exact Hcm|exact Hbelow].
    + lia.
  - intros N. change (segs_of (recover fixed d)) with (map m_seg segs). destruct Hso as [E|[E _]]; [exact E|contradiction].
Qed.
