(* Crash safety, part 2: the building blocks of truncation, retention and compaction -- deleting
   a segment (log, then index) and replacing a segment by a copy written to <base>.log.<suffix> /
   <base>.index.<suffix> and renamed into place (segment.Replace) -- as statements about every
   prefix of their effects. States are compared up to the scratch files (`meq`). *)
From LB Require Import Base.Prelude Log.Model Log.Retention Log.Compact Log.Proofs Log.Disk Log.DiskBase Log.DiskProofs.
From Coq Require Import ZifyBool.
Open Scope Z_scope.

Definition meq (d d' : disk) : Prop :=
  d_segs d = d_segs d' /\ d_orph d = d_orph d' /\ d_hw d = d_hw d' /\ d_ep d = d_ep d'.

Lemma meq_refl d : meq d d.
Proof. repeat split. Qed.
Lemma meq_sym d d' : meq d d' -> meq d' d.
Proof. intros (A & B & C & D). repeat split; symmetry; assumption. Qed.
Lemma meq_trans a b c : meq a b -> meq b c -> meq a c.
Proof. intros (A & B & C & D) (A' & B' & C' & D'). repeat split; etransitivity; eassumption. Qed.

Lemma mapply_meq d d' e : meq d d' -> meq (mapply d e) (mapply d' e).
Proof.
  intros (A & B & C & D). destruct e; cbn [mapply]; rewrite <- ?A, <- ?B;
    repeat match goal with |- context [match ?x with _ => _ end] => destruct x end;
    unfold meq, with_main, set_segs; cbn [d_segs d_orph d_hw d_ep]; rewrite <- ?A, <- ?B, <- ?C, <- ?D; repeat split; reflexivity.
Qed.

Lemma mapply_scr d e : d_scr (mapply d e) = d_scr d.
Proof.
  destruct e; cbn [mapply]; repeat match goal with |- context [match ?x with _ => _ end] => destruct x end; reflexivity.
Qed.

Lemma scr_apply_meq d b s f : meq (scr_apply d b s f) d.
Proof. repeat split. Qed.

Lemma scr_is_refl b s x : sc_base x = b -> sc_suf x = s -> scr_is b s x = true.
Proof. intros <- <-. unfold scr_is. rewrite Z.eqb_refl. destruct (sc_suf x); reflexivity. Qed.

Lemma scr_get_apply d b s f : (forall x, sc_base (f x) = b /\ sc_suf (f x) = s) ->
  scr_get (d_scr (scr_apply d b s f)) b s = f (scr_get (d_scr d) b s).
Proof.
  intros Hf. unfold scr_apply, set_scr, scr_set, scr_get at 1. cbn [d_scr find].
  destruct (Hf (scr_get (d_scr d) b s)) as [Hb Hs]. rewrite (scr_is_refl b s _ Hb Hs). reflexivity.
Qed.

(* predicates that do not look at the scratch files *)
Definition main_pred (R : disk -> Prop) : Prop := forall d d', meq d d' -> R d -> R d'.

Definition at_ (D : disk) : disk -> Prop := fun d => meq d D.

(* one effect on the segment files proper *)
Lemma seq_main (R : disk -> Prop) e me D D' : main_pred R ->
  (forall d, apply_eff d e = mapply d me) -> meq (mapply D me) D' -> R D -> R D' -> seq R (at_ D) [e] (at_ D').
Proof.
  intros HR He Hm HD HD'. apply seq_one.
  - intros d Hd. apply (HR D d); [apply meq_sym; exact Hd|exact HD].
  - intros d Hd. unfold at_. rewrite He. eapply meq_trans; [apply mapply_meq; exact Hd|exact Hm].
  - intros d Hd. apply (HR D' d); [apply meq_sym; exact Hd|exact HD'].
Qed.

Lemma seq_point_at (R : disk -> Prop) p D : main_pred R -> R D -> seq R (at_ D) [FPoint p] (at_ D).
Proof. intros HR HD. apply seq_point. intros d Hd. apply (HR D d); [apply meq_sym; exact Hd|exact HD]. Qed.

(* ---- deleting a segment: remove the log, then the index ---- *)
Lemma del_seq (R : disk -> Prop) b D D1 D2 : main_pred R ->
  meq (mapply D (MRemoveLog b)) D1 -> meq (mapply D1 (MRemoveIdx b)) D2 -> R D -> R D1 -> R D2 ->
  seq R (at_ D) (del_effs (TMain b)) (at_ D2).
Proof.
  intros HR H1 H2 RD RD1 RD2. unfold del_effs.
  change [FRemoveLog (TMain b); FPoint PDelLogRemoved; FRemoveIdx (TMain b)] with ([FRemoveLog (TMain b)] ++ [FPoint PDelLogRemoved] ++ [FRemoveIdx (TMain b)]).
  apply (seq_app R _ _ (at_ D1)); [apply (seq_main R _ (MRemoveLog b)); try assumption; reflexivity|].
  apply (seq_app R _ _ (at_ D1)); [apply seq_point_at; assumption|].
  apply (seq_main R _ (MRemoveIdx b)); try assumption; reflexivity.
Qed.

(* ---- replacing a segment ---- *)
Section Replace.
  Variable R : disk -> Prop.
  Hypothesis HR : main_pred R.
  Variables (b : Z) (sfx : suf) (nf : list rec) (pc : pname).
  Variables D DL DI : disk.
  Hypothesis RD : R D.
  Hypothesis RDL : R DL.
  Hypothesis RDI : R DI.
  Hypothesis HL : meq (mapply D (MSetLog b nf)) DL.
  Hypothesis HI : meq (mapply DL (MSetIdx b nf)) DI.

  (* the scratch pair holds exactly the frames copied so far *)
  Definition copying (acc : list rec) (d : disk) : Prop :=
    meq d D /\ scr_get (d_scr d) b sfx = mkScr b sfx (Some acc) (Some acc).

  Lemma RD_of d : meq d D -> R d.
  Proof. intros H. apply (HR D d); [apply meq_sym; exact H|exact RD]. Qed.

  Lemma copy_seq l : forall acc, seq R (copying acc) (copy_effs (TScr b sfx) l) (copying (acc ++ l)).
  Proof.
    induction l as [|r t IH]; intros acc.
    - rewrite app_nil_r. apply seq_nil. intros d [H _]. apply RD_of. exact H.
    - unfold copy_effs. cbn [map concat]. fold (copy_effs (TScr b sfx) t).
      change ([FAppendLog (TScr b sfx) [r]; FPoint PLogWritten; FAppendIdx (TScr b sfx) [r]] ++ copy_effs (TScr b sfx) t)
        with ([FAppendLog (TScr b sfx) [r]] ++ [FPoint PLogWritten] ++ [FAppendIdx (TScr b sfx) [r]] ++ copy_effs (TScr b sfx) t).
      set (mid := fun d => meq d D /\ scr_get (d_scr d) b sfx = mkScr b sfx (Some (acc ++ [r])) (Some acc)).
      apply (seq_app R _ _ mid).
      { apply seq_one; [intros d [H _]; apply RD_of; exact H| |intros d [H _]; apply RD_of; exact H].
        intros d [H E]. split; [eapply meq_trans; [apply scr_apply_meq|exact H]|].
        cbn [apply_eff]. rewrite scr_get_apply by (intros x; split; reflexivity). rewrite E. reflexivity. }
      apply (seq_app R _ _ mid); [apply seq_point; intros d [H _]; apply RD_of; exact H|].
      apply (seq_app R _ _ (copying (acc ++ [r]))).
      { apply seq_one; [intros d [H _]; apply RD_of; exact H| |intros d [H _]; apply RD_of; exact H].
        intros d [H E]. split; [eapply meq_trans; [apply scr_apply_meq|exact H]|].
        cbn [apply_eff]. rewrite scr_get_apply by (intros x; split; reflexivity). rewrite E. reflexivity. }
      replace (acc ++ r :: t) with ((acc ++ [r]) ++ t) by (rewrite <- app_assoc; reflexivity). apply IH.
  Qed.

  Lemma scratch_step (P Q : disk -> Prop) e : (forall d, P d -> meq d D) -> (forall d, Q d -> meq d D) ->
    (forall d, P d -> Q (apply_eff d e)) -> seq R P [e] Q.
  Proof.
    intros HP HQ He. apply seq_one; [intros d Hd; apply RD_of, HP, Hd|exact He|intros d Hd; apply RD_of, HQ, Hd].
  Qed.

  Lemma replace_seq : seq R (at_ D) (replace_effs fixed sfx b nf pc) (at_ DI).
  Proof.
    unfold replace_effs. cbn [v_fresh fixed].
    change ([FRemoveLog (TScr b sfx); FRemoveIdx (TScr b sfx)] ++ [FCreateLog (TScr b sfx); FCreateIdx (TScr b sfx)] ++ copy_effs (TScr b sfx) nf ++
            [FPoint pc; FPoint PReplClosed; FRenameLog b sfx; FPoint PReplLogRenamed; FRenameIdx b sfx; FPoint PReplIdxRenamed])
      with ([FRemoveLog (TScr b sfx)] ++ [FRemoveIdx (TScr b sfx)] ++ [FCreateLog (TScr b sfx)] ++ [FCreateIdx (TScr b sfx)] ++ copy_effs (TScr b sfx) nf ++
            [FPoint pc] ++ [FPoint PReplClosed] ++ [FRenameLog b sfx] ++ [FPoint PReplLogRenamed] ++ [FRenameIdx b sfx] ++ [FPoint PReplIdxRenamed]).
    set (S1 := fun d => meq d D /\ sc_log (scr_get (d_scr d) b sfx) = None).
    set (S2 := fun d => meq d D /\ scr_get (d_scr d) b sfx = mkScr b sfx None None).
    set (S3 := fun d => meq d D /\ scr_get (d_scr d) b sfx = mkScr b sfx (Some []) None).
    apply (seq_app R _ _ S1).
    { apply scratch_step; [auto|intros d [H _]; exact H|]. intros d H. split; [eapply meq_trans; [apply scr_apply_meq|exact H]|].
      cbn [apply_eff]. rewrite scr_get_apply by (intros x; split; reflexivity). reflexivity. }
    apply (seq_app R _ _ S2).
    { apply scratch_step; [intros d [H _]; exact H|intros d [H _]; exact H|]. intros d [H E]. split; [eapply meq_trans; [apply scr_apply_meq|exact H]|].
      cbn [apply_eff]. rewrite scr_get_apply by (intros x; split; reflexivity). rewrite E. reflexivity. }
    apply (seq_app R _ _ S3).
    { apply scratch_step; [intros d [H _]; exact H|intros d [H _]; exact H|]. intros d [H E]. split; [eapply meq_trans; [apply scr_apply_meq|exact H]|].
      cbn [apply_eff]. rewrite scr_get_apply by (intros x; split; reflexivity). rewrite E. reflexivity. }
    apply (seq_app R _ _ (copying [])).
    { apply scratch_step; [intros d [H _]; exact H|intros d [H _]; exact H|]. intros d [H E]. split; [eapply meq_trans; [apply scr_apply_meq|exact H]|].
      cbn [apply_eff]. rewrite scr_get_apply by (intros x; split; reflexivity). rewrite E. reflexivity. }
    apply (seq_app R _ _ (copying nf)); [apply (copy_seq nf [])|].
    apply (seq_app R _ _ (copying nf)); [apply seq_point; intros d [H _]; apply RD_of; exact H|].
    apply (seq_app R _ _ (copying nf)); [apply seq_point; intros d [H _]; apply RD_of; exact H|].
    set (SL := fun d => meq d DL /\ scr_get (d_scr d) b sfx = mkScr b sfx None (Some nf)).
    assert (RDL_of : forall d, meq d DL -> R d) by (intros d H; apply (HR DL d); [apply meq_sym; exact H|exact RDL]).
    assert (RDI_of : forall d, meq d DI -> R d) by (intros d H; apply (HR DI d); [apply meq_sym; exact H|exact RDI]).
    apply (seq_app R _ _ SL).
    { apply seq_one; [intros d [H _]; apply RD_of; exact H| |intros d [H _]; apply RDL_of; exact H].
      intros d [H E]. cbn [apply_eff]. rewrite E. cbn [sc_log]. split.
      - eapply meq_trans; [apply scr_apply_meq|]. eapply meq_trans; [apply mapply_meq; exact H|exact HL].
      - rewrite scr_get_apply by (intros x; split; reflexivity). rewrite mapply_scr, E. reflexivity. }
    apply (seq_app R _ _ SL); [apply seq_point; intros d [H _]; apply RDL_of; exact H|].
    apply (seq_app R _ _ (at_ DI)).
    { apply seq_one; [intros d [H _]; apply RDL_of; exact H| |intros d H; apply RDI_of; exact H].
      intros d [H E]. cbn [apply_eff]. rewrite E. cbn [sc_idx]. unfold at_.
      eapply meq_trans; [apply scr_apply_meq|]. eapply meq_trans; [apply mapply_meq; exact H|exact HI]. }
    apply seq_point. intros d H. apply RDI_of. exact H.
  Qed.
End Replace.

(* ---- effects on the scratch files only ---- *)
Definition is_scratch (e : eff) : bool :=
  match e with
  | FCreateLog (TScr _ _) | FCreateIdx (TScr _ _) | FAppendLog (TScr _ _) _ | FAppendIdx (TScr _ _) _
  | FRemoveLog (TScr _ _) | FRemoveIdx (TScr _ _) | FPoint _ => true
  | _ => false
  end.

Lemma scratch_meq d e : is_scratch e = true -> meq (apply_eff d e) d.
Proof.
  destruct e as [[b|b s]|[b|b s]|[b|b s] rs|[b|b s] rs|[b|b s]|[b|b s]|b s|b s|h|c|pn]; cbn [is_scratch]; try discriminate; intros _;
    cbn [apply_eff]; try apply scr_apply_meq; apply meq_refl.
Qed.

Lemma seq_scratch (R : disk -> Prop) D es : main_pred R -> R D -> forallb is_scratch es = true -> seq R (at_ D) es (at_ D).
Proof.
  intros HR RD Hall. apply seq_each.
  - intros d Hd. apply (HR D d); [apply meq_sym; exact Hd|exact RD].
  - intros e He d Hd. rewrite forallb_forall in Hall. eapply meq_trans; [apply scratch_meq; apply Hall; exact He|exact Hd].
Qed.
