(* Replays the histories of the C05 driver (operations that complete, one operation cut short at
   its k-th crash point, the operations that follow on the recovered log) on the crash model and
   reports the first observation that differs: the crash points each operation passes, the files
   found after the crash, what commitlog.New recovers from them, and every later read-back.
   Completed operations are also cross-checked against the in-memory model (Log/Model.v). *)
From LB Require Import Base.Prelude Log.Model Log.Retention Log.Compact Codec.Message Api.Range Log.Check Log.Disk Log.DiskTear Log.DiskRecover.
Open Scope Z_scope.

Inductive fobs :=
| OLog (b : Z) (s : option suf) (offs : list Z)
| OIdx (b : Z) (s : option suf) (ents : list (Z * Z * Z)).

Inductive dlop :=
| XOp (o : lop) (pts : list pname)
| XEpoch (e : N)
| XCkpt
| XCrash (intent : dop) (k : nat) (p : pname) (files : list fobs) (hwf : Z) (epf : list (N * Z))
         (offs : list Z) (nw od hw : Z) (cache : list (N * Z))
(* the crash happened inside the append that precedes the k-th crash point: kk whole frames / entries
   of it arrived, followed by z (Log.DiskTear.spot_of) *)
(* the crash happened at the k-th crash point of the operation (k = 0: all its effects are done; lv1: the
   files seen there), and/or inside the commitlog.New that followed: each element of recs is one
   recovery cut short at its j-th crash point, with the files seen there *)
| XCrashR (intent : dop) (k : nat) (p : pname) (lv1 : option (list fobs * Z * list (N * Z)))
          (recs : list (nat * pname * (list fobs * Z * list (N * Z))))
          (offs : list Z) (nw od hw : Z) (cache : list (N * Z))
| XTorn (intent : dop) (k : nat) (p : pname) (kk : nat) (z : option Z) (files : list fobs) (hwf : Z) (epf : list (N * Z))
        (offs : list Z) (nw od hw : Z) (cache : list (N * Z)).

Record dcase := { dc_p : params; dc_create_crash : bool; dc_ops : list dlop }.

Definition pname_eqb (a b : pname) : bool :=
  match a, b with
  | PSegLogCreated, PSegLogCreated | PSplitCreated, PSplitCreated | PEpochsAssigned, PEpochsAssigned
  | PLogWritten, PLogWritten | PIndexWritten, PIndexWritten | PTailDeleted, PTailDeleted
  | PTruncCopy, PTruncCopy | PTruncReplaced, PTruncReplaced | PReplClosed, PReplClosed
  | PReplLogRenamed, PReplLogRenamed | PReplIdxRenamed, PReplIdxRenamed | PDelLogRemoved, PDelLogRemoved
  | PCleanDeleting, PCleanDeleting | PCompactCopy, PCompactCopy | PCleanCleaned, PCleanCleaned
  | POrphanRemoved, POrphanRemoved | PRebuildRemoved, PRebuildRemoved | PRebuildCreated, PRebuildCreated
  | PRebuildEntry, PRebuildEntry | PEpochsTrimmed, PEpochsTrimmed => true
  | _, _ => false
  end.

Definition osuf_eqb (a b : option suf) : bool :=
  match a, b with None, None => true | Some x, Some y => suf_eqb x y | _, _ => false end.
Definition ent_eqb (a b : Z * Z * Z) : bool :=
  let '(x1, y1, z1) := a in let '(x2, y2, z2) := b in (x1 =? x2) && (y1 =? y2) && (z1 =? z2).
Definition fobs_eqb (a b : fobs) : bool :=
  match a, b with
  | OLog b1 s1 o1, OLog b2 s2 o2 => (b1 =? b2) && osuf_eqb s1 s2 && list_eqb Z.eqb o1 o2
  | OIdx b1 s1 e1, OIdx b2 s2 e2 => (b1 =? b2) && osuf_eqb s1 s2 && list_eqb ent_eqb e1 e2
  | _, _ => false
  end.
Definition ep_eqb (a b : N * Z) : bool := N.eqb (fst a) (fst b) && (snd a =? snd b).

Definition files_of (d : disk) : list fobs :=
  concat (map (fun m => OLog (m_base m) None (map r_off (m_recs m)) ::
                        match m_idx m with Some fi => [OIdx (m_base m) None (ients 0 fi)] | None => [] end) (d_segs d))
  ++ map (fun x => OIdx (fst x) None (ients 0 (snd x))) (d_orph d)
  ++ concat (map (fun x => match sc_log x with Some fl => [OLog (sc_base x) (Some (sc_suf x)) (map r_off fl)] | None => [] end
                           ++ match sc_idx x with Some fi => [OIdx (sc_base x) (Some (sc_suf x)) (ients 0 fi)] | None => [] end)
                 (d_scr d)).

Definition same_files (a b : list fobs) : bool :=
  Nat.eqb (length a) (length b) && forallb (fun x => existsb (fobs_eqb x) b) a && forallb (fun x => existsb (fobs_eqb x) a) b.

Definition seg_eqb (a b : seg) : bool := (s_base a =? s_base b) && list_eqb rec_eqb (s_recs a) (s_recs b).
Definition log_eqb (a b : log) : bool :=
  list_eqb seg_eqb (l_segs a) (l_segs b) && (l_hw a =? l_hw b) && list_eqb ep_eqb (l_cache a) (l_cache b).

Definition to_log (s : st) : log := mkLog (segs_of (s_disk s)) (s_hw s) (d_ep (s_disk s)) false.

Definition snap_ok (d : disk) (sn : list fobs * Z * list (N * Z)) : bool :=
  let '(files, hwf, epf) := sn in same_files (files_of d) files && (d_hw d =? hwf) && list_eqb ep_eqb (d_ep d) epf.
Definition last_point_is (pre : list eff) (pn : pname) : bool :=
  match rev pre with FPoint q :: _ => pname_eqb q pn | _ => false end.

(* recoveries cut short one after the other: the directory after them, and whether every observation agreed *)
Fixpoint rec_levels (d : disk) (recs : list (nat * pname * (list fobs * Z * list (N * Z)))) : disk * bool :=
  match recs with
  | [] => (d, true)
  | (j, pn, sn) :: r =>
    match upto_point j (recover_effs d) with
    | None => (d, false)
    | Some pre => let d' := run_effs d pre in
                  let '(df, ok) := rec_levels d' r in
                  (df, recover_agrees d && last_point_is pre pn && snap_ok d' sn && ok)
    end
  end.

Definition kexec := exec key_of fixed.
Definition kscript := script key_of fixed.

(* a completed mutating operation: the crash points it passed, and agreement with the in-memory model *)
Definition do_op (p : params) (s : st) (o : dop) (pts : list pname) (expect : log) : option st * bool :=
  match kscript p s o, kexec p s o with
  | Some es, Some s' =>
    let rpts := match o with DReopen => points_of (recover_effs (run_effs (s_disk s) es)) | _ => [] end in
    (Some s', list_eqb pname_eqb (points_of es ++ rpts) pts && log_eqb (to_log s') expect)
  | _, _ => (None, false)
  end.

Definition dstep (p : params) (s : st) (x : dlop) : option st * bool :=
  match x with
  | XOp (LAppend ms res offs) pts =>
    match append (p_maxb p) false (to_log s) ms with
    | Ok (l', os) => let '(s', ok) := do_op p s (DAppend ms) pts l' in (s', ok && N.eqb res 0 && list_eqb Z.eqb os offs)
    | _ => (None, false)
    end
  | XOp (LASet rs res offs) pts =>
    match append_set (p_maxb p) (to_log s) rs with
    | Ok (l', os) => let '(s', ok) := do_op p s (DASet rs) pts l' in (s', ok && N.eqb res 0 && list_eqb Z.eqb os offs)
    | _ => (None, false)
    end
  | XOp (LTrunc o) pts => do_op p s (DTrunc o) pts (truncate (to_log s) o)
  | XOp LReopen pts => do_op p s DReopen pts (reopen (to_log s))
  | XOp (LHw h) pts => do_op p s (DSetHw h) pts (set_hw (to_log s) h)
  | XOp (LClean ttl) pts => do_op p s (DClean ttl) pts (clean (p_lim p) ttl (to_log s))
  | XOp (LCleanC ttl) pts => do_op p s (DClean ttl) pts (clean_compact key_of false (p_lim p) ttl (to_log s))
  | XOp o _ => let '(_, ok) := step_log (p_maxb p) false (p_lim p) (to_log s) o in (Some s, ok)
  | XEpoch e => do_op p s (DEpoch e) [] (new_leader_epoch (to_log s) e)
  | XCkpt => (kexec p s DCheckpoint, true)
  | XCrash intent k pn files hwf epf offs nw od hw cache =>
    match kscript p s intent with
    | None => (None, false)
    | Some es =>
      match upto_point k es with
      | None => (None, false)
      | Some pre =>
        let d := run_effs (s_disk s) pre in
        let r := recover fixed d in
        let s' := mkSt r (d_hw r) in
        (Some s',
         match rev pre with FPoint q :: _ => pname_eqb q pn | _ => false end
         && same_files (files_of d) files && (d_hw d =? hwf) && list_eqb ep_eqb (d_ep d) epf && recover_agrees d
         && list_eqb Z.eqb (map r_off (content r)) offs
         && (newest (to_log s') =? nw) && (oldest (to_log s') =? od) && (d_hw r =? hw)
         && list_eqb ep_eqb (d_ep r) cache)
      end
    end
  | XCrashR intent k pn lv1 recs offs nw od hw cache =>
    match kscript p s intent with
    | None => (None, false)
    | Some es =>
      match (match k with O => Some es | _ => upto_point k es end) with
      | None => (None, false)
      | Some pre =>
        let d0 := run_effs (s_disk s) pre in
        let '(d, okr) := rec_levels d0 recs in
        let r := recover fixed d in
        let s' := mkSt r (d_hw r) in
        (Some s',
         match lv1 with Some sn => last_point_is pre pn && snap_ok d0 sn | None => true end
         && okr && recover_agrees d
         && list_eqb Z.eqb (map r_off (content r)) offs
         && (newest (to_log s') =? nw) && (oldest (to_log s') =? od) && (d_hw r =? hw)
         && list_eqb ep_eqb (d_ep r) cache)
      end
    end
  | XTorn intent k pn kk z files hwf epf offs nw od hw cache =>
    match kscript p s intent with
    | None => (None, false)
    | Some es =>
      match upto_point k es with
      | None => (None, false)
      | Some pre =>
        let n := (length pre - 2)%nat in
        match torn_image key_of fixed p s intent n kk, crash_torn key_of fixed p s intent n kk z with
        | Some (_, d), Some s' =>
          let r := s_disk s' in
          (Some s',
           match rev pre with FPoint q :: _ => pname_eqb q pn | _ => false end
           && same_files (files_of d) files && (d_hw d =? hwf) && list_eqb ep_eqb (d_ep d) epf
           && list_eqb Z.eqb (map r_off (content r)) offs
           && (newest (to_log s') =? nw) && (oldest (to_log s') =? od) && (d_hw r =? hw)
           && list_eqb ep_eqb (d_ep r) cache)
        | _, _ => (None, false)
        end
      end
    end
  end.

Fixpoint drun (p : params) (s : st) (ops : list dlop) (i : nat) : option nat :=
  match ops with
  | [] => None
  | x :: r => match dstep p s x with
              | (Some s', true) => drun p s' r (S i)
              | _ => Some i
              end
  end.

Definition dcase_result (c : dcase) : option nat :=
  let s0 := if dc_create_crash c then Some (mkSt empty_disk (-1)) else init key_of fixed (dc_p c) in
  match s0 with
  | Some s => drun (dc_p c) s (dc_ops c) 0
  | None => Some O
  end.

Fixpoint dcases_mismatches (cs : list dcase) (i : nat) : list (nat * nat) :=
  match cs with
  | [] => []
  | c :: r => match dcase_result c with
              | None => dcases_mismatches r (S i)
              | Some j => (i, j) :: dcases_mismatches r (S i)
              end
  end.
