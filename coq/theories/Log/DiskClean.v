(* Crash safety, part 4: Clean -- retention (whole segments deleted, the age limit oldest first,
   the message and byte limits newest first) and compaction (segments rewritten one by one). *)
From LB Require Import Base.Prelude Log.Model Log.Retention Log.Compact Log.Proofs Log.Refine Log.RetentionProofs
  Log.Disk Log.DiskBase Log.DiskProofs Log.DiskBlocks Log.DiskTrunc.
From Coq Require Import ZifyBool.
Open Scope Z_scope.

(* ------------------------------------------------------------------ lists *)
Lemma map_skipn {A B} (f : A -> B) n l : map f (skipn n l) = skipn n (map f l).
Proof. revert l. induction n as [|n IH]; intros [|x t]; cbn [skipn map]; try reflexivity. apply IH. Qed.

Lemma map_firstn {A B} (f : A -> B) n l : map f (firstn n l) = firstn n (map f l).
Proof. revert l. induction n as [|n IH]; intros [|x t]; cbn [firstn map]; try reflexivity. f_equal. apply IH. Qed.

Lemma suffix_msegs r l : is_suffix_keeping_last r (map m_seg l) ->
  exists a b, l = a ++ b /\ map m_seg b = r /\ map m_seg a = dropped (map m_seg l) r /\ (l <> [] -> b <> []).
Proof.
  intros (d & E & Hd). exists (firstn d l), (skipn d l). split; [symmetry; apply firstn_skipn|]. split; [rewrite map_skipn; symmetry; exact E|]. split.
  - unfold dropped. rewrite map_firstn. destruct l as [|x t]; [cbn [map]; rewrite !firstn_nil; reflexivity|].
    f_equal. rewrite E, skipn_length, map_length. specialize (Hd ltac:(discriminate)). rewrite map_length in Hd. cbn [length] in *. lia.
  - intros Hne E2. apply (f_equal (@length _)) in E2. rewrite skipn_length in E2. cbn in E2.
    assert (map m_seg l <> []) by (destruct l; [contradiction|discriminate]). specialize (Hd H). rewrite map_length in Hd. lia.
Qed.

Lemma bases_lt_inj l : forall lo, bases_lt lo (map m_seg l) -> forall m1 m2, In m1 l -> In m2 l -> m_base m1 = m_base m2 -> m1 = m2.
Proof.
  induction l as [|x t IH]; intros lo B m1 m2 H1 H2 E; [destruct H1|]. destruct B as [B1 B2].
  pose proof (bases_lt_all _ _ B2) as Hall.
  destruct H1 as [<-|H1], H2 as [<-|H2]; [reflexivity| | |apply (IH _ B2); assumption].
  - specialize (Hall (m_seg m2) (in_map m_seg _ _ H2)). unfold m_base in *. lia.
  - specialize (Hall (m_seg m1) (in_map m_seg _ _ H1)). unfold m_base in *. lia.
Qed.

Lemma same_seg l m1 m2 x : WF (map m_seg l) -> In m1 l -> In m2 l -> In x (m_recs m1) -> In x (m_recs m2) -> m1 = m2.
Proof.
  intros Hw H1 H2 X1 X2. apply (bases_lt_inj l _ (wf_bases _ Hw) m1 m2 H1 H2).
  assert (I1 : In (m_seg m1) (map m_seg l)) by (apply in_map; exact H1). assert (I2 : In (m_seg m2) (map m_seg l)) by (apply in_map; exact H2).
  assert (Hge : forall m, In (m_seg m) (map m_seg l) -> In x (m_recs m) -> m_base m <= r_off x).
  { intros m Im Xm. pose proof (sorted_all_lt _ _ (WF_base_nonneg _ _ Hw Im) (wf_sorted _ Hw _ Im)) as HF. rewrite Forall_forall in HF. specialize (HF x Xm). unfold m_base. lia. }
  pose proof (Hge m1 I1 X1). pose proof (Hge m2 I2 X2).
  destruct (Z.lt_trichotomy (m_base m1) (m_base m2)) as [Hlt|[E|Hgt]]; [|exact E|].
  - pose proof (wf_below _ Hw (m_seg m1) (m_seg m2) I1 I2 Hlt x X1). unfold m_base in *. lia.
  - pose proof (wf_below _ Hw (m_seg m2) (m_seg m1) I2 I1 Hgt x X2). unfold m_base in *. lia.
Qed.

Lemma bases_distinct front x rest lo : bases_lt lo (map m_seg (front ++ x :: rest)) ->
  (forall m, In m front -> m_base m <> m_base x) /\ (forall m, In m rest -> m_base m <> m_base x).
Proof.
  intros B. rewrite map_app in B. cbn [map] in B. destruct (bases_lt_app _ _ _ B) as [_ H]. split.
  - intros m Hm. specialize (H (m_seg m) (m_seg x) (in_map m_seg _ _ Hm) (or_introl eq_refl)). unfold m_base. lia.
  - intros m Hm. clear H. revert B. generalize lo. induction (map m_seg front) as [|y l IH]; intros lo' B; cbn [app bases_lt] in B.
    + destruct B as [_ B2]. pose proof (bases_lt_all _ _ B2 (m_seg m) (in_map m_seg _ _ Hm)). unfold m_base. lia.
    + destruct B as [_ B2]. apply (IH _ B2).
Qed.

Section Clean.
  Variable key_of : bytes -> option bytes.
  Variable s : st.
  Hypothesis G : Good s.
  Variable ttl : Z.
  Variable K : rec -> Prop.

  Let d0 := s_disk s.
  Let c0 := d_ep d0.
  Let R := Image s (DClean ttl) K.

  Lemma cimage_main : main_pred R.
  Proof.
    intros d d' Hm (M & A & B). pose proof Hm as (E1 & _ & _ & _). unfold R, Image, content in *. rewrite <- E1.
    split; [apply (mid_meq _ d d' Hm M)|split; assumption].
  Qed.

  Definition cmk (segs : list mseg) (orph : list (Z * list rec)) (c : epoch_cache) : disk :=
    mkDisk segs orph (d_scr d0) (d_hw d0) c.

  Definition keeps (segs' : list mseg) : Prop := forall m x, In m (d_segs d0) -> In x (m_recs m) -> K x -> In m segs'.

  Lemma csub_image_c segs' orph c : subseq segs' (d_segs d0) -> keeps segs' -> csorted c ->
    (forall x, In x (concat (map m_recs segs')) -> epoch_at c (r_off x) = r_ep x) -> R (cmk segs' orph c).
  Proof.
    intros Hsub Hkeep Hcs Hcm. pose proof (subseq_incl _ _ Hsub) as Hi.
    assert (Hc : forall x, In x (content (cmk segs' orph c)) -> In x (content d0)).
    { intros x Hx. unfold content in *. cbn [cmk d_segs] in Hx. apply in_concat in Hx. destruct Hx as (l & Hl & Hx).
      apply in_map_iff in Hl. destruct Hl as (m & <- & Hm). apply in_concat. exists (m_recs m). split; [apply in_map; apply Hi; exact Hm|exact Hx]. }
    split; [|split].
    - split; cbn [cmk d_segs d_ep d_hw].
      + intros m Hin. left. unfold m_fi. rewrite (g_idx _ G m (Hi m Hin)). reflexivity.
      + unfold segs_of. cbn [cmk d_segs]. apply (WF_subseq _ _ (subseq_map m_seg _ _ Hsub)). apply (g_wf _ G).
      + exact Hcs.
      + exact Hcm.
      + apply (g_hw _ G).
    - intros x Hx. left. apply Hc. exact Hx.
    - intros x Hx HK. unfold content in Hx. apply in_concat in Hx. destruct Hx as (l & Hl & Hx). apply in_map_iff in Hl. destruct Hl as (m & <- & Hm).
      unfold content. cbn [cmk d_segs]. apply in_concat. exists (m_recs m). split; [apply in_map; apply (Hkeep m x Hm Hx HK)|exact Hx].
  Qed.

  Lemma csub_image segs' orph : subseq segs' (d_segs d0) -> keeps segs' -> R (cmk segs' orph c0).
  Proof.
    intros Hsub Hkeep. apply csub_image_c; [exact Hsub|exact Hkeep|apply (g_csorted _ G)|].
    intros x Hx. apply (g_cmatch _ G). apply in_concat in Hx. destruct Hx as (l & Hl & Hx). apply in_map_iff in Hl. destruct Hl as (m & <- & Hm).
    unfold content. apply in_concat. exists (m_recs m). split; [apply in_map; apply (subseq_incl _ _ Hsub); exact Hm|exact Hx].
  Qed.

  Lemma keeps_app a b : keeps b -> keeps (a ++ b).
  Proof. intros H m x Hm Hx HK. apply in_or_app. right. apply (H m x Hm Hx HK). Qed.

  Lemma sub_bases cur : subseq cur (d_segs d0) -> bases_lt (-1) (map m_seg cur).
  Proof. intros H. apply (bases_lt_subseq _ _ (subseq_map m_seg _ _ H)). apply (wf_bases _ (g_wf _ G)). Qed.

  (* deleting one segment *)
  Lemma del_one front x rest : subseq (front ++ x :: rest) (d_segs d0) -> keeps (front ++ rest) ->
    seq R (at_ (cmk (front ++ x :: rest) [] c0)) (clean_del (m_seg x)) (at_ (cmk (front ++ rest) [] c0)).
  Proof.
    intros Hsub Hk. destruct (bases_distinct front x rest _ (sub_bases _ Hsub)) as [Hf Hr].
    assert (Hidx : m_idx x = Some (m_recs x)) by (apply (g_idx _ G); apply (subseq_incl _ _ Hsub); apply in_or_app; right; left; reflexivity).
    assert (Hsub2 : subseq (front ++ rest) (d_segs d0)).
    { eapply subseq_trans; [|exact Hsub]. apply subseq_app2. apply sub_skip. apply subseq_refl. }
    assert (R0 : R (cmk (front ++ x :: rest) [] c0)).
    { apply csub_image; [exact Hsub|]. intros m y Hm Hy HK. specialize (Hk m y Hm Hy HK). apply in_app_or in Hk. apply in_or_app. destruct Hk; [left|right; right]; assumption. }
    unfold clean_del. change (FPoint PCleanDeleting :: del_effs (TMain (s_base (m_seg x)))) with ([FPoint PCleanDeleting] ++ del_effs (TMain (m_base x))).
    apply (seq_app R _ _ (at_ (cmk (front ++ x :: rest) [] c0))); [apply seq_point_at; [apply cimage_main|exact R0]|].
    apply (del_seq R (m_base x) _ (cmk (front ++ rest) [(m_base x, m_recs x)] c0)); [apply cimage_main| | |exact R0|apply csub_image; assumption|apply csub_image; assumption].
    - cbn [mapply cmk d_segs d_orph]. rewrite seg_get_mid by exact Hf. rewrite Hidx. unfold with_main. cbn [cmk d_segs d_scr d_hw d_ep d_orph].
      rewrite seg_del_mid by exact Hf. apply meq_refl.
    - cbn [mapply cmk d_segs d_orph].
      assert (Hnone : seg_get (front ++ rest) (m_base x) = None).
      { apply seg_get_none_notin. intros m Hm. apply in_app_or in Hm. destruct Hm as [Hm|Hm]; [apply Hf|apply Hr]; exact Hm. }
      rewrite Hnone. unfold with_main, orph_del. cbn [cmk d_segs d_scr d_hw d_ep d_orph filter fst]. rewrite Z.eqb_refl. cbn [negb]. apply meq_refl.
  Qed.

  (* oldest first *)
  Lemma dels_asc A : forall rest, subseq (A ++ rest) (d_segs d0) -> keeps rest ->
    seq R (at_ (cmk (A ++ rest) [] c0)) (concat (map clean_del (map m_seg A))) (at_ (cmk rest [] c0)).
  Proof.
    induction A as [|x A' IH]; intros rest Hsub Hk.
    - apply seq_nil. intros d Hd. apply (cimage_main _ d (meq_sym _ _ Hd)). apply csub_image; assumption.
    - cbn [map concat app]. apply (seq_app R _ _ (at_ (cmk (A' ++ rest) [] c0))).
      + apply (del_one [] x (A' ++ rest)); [exact Hsub|cbn [app]; apply keeps_app; exact Hk].
      + apply IH; [|exact Hk]. eapply subseq_trans; [|exact Hsub]. cbn [app]. apply sub_skip. apply subseq_refl.
  Qed.

  (* newest first *)
  Lemma dels_desc B : forall rest, subseq (B ++ rest) (d_segs d0) -> keeps rest ->
    seq R (at_ (cmk (B ++ rest) [] c0)) (concat (map clean_del (rev (map m_seg B)))) (at_ (cmk rest [] c0)).
  Proof.
    induction B as [|x B' IH] using rev_ind; intros rest Hsub Hk.
    - apply seq_nil. intros d Hd. apply (cimage_main _ d (meq_sym _ _ Hd)). apply csub_image; assumption.
    - rewrite map_app, rev_app_distr. cbn [map rev app concat].
      rewrite <- app_assoc in Hsub. cbn [app] in Hsub. rewrite <- app_assoc. cbn [app].
      apply (seq_app R _ _ (at_ (cmk (B' ++ rest) [] c0))).
      + apply (del_one B' x rest); [exact Hsub|apply keeps_app; exact Hk].
      + apply IH; [|exact Hk]. eapply subseq_trans; [|exact Hsub]. apply subseq_app2. apply sub_skip. apply subseq_refl.
  Qed.

  (* ---- retention ---- *)
  Variable lim : limits.
  Let S0 := segs_of d0.

  Lemma keeps_of_flat rest : subseq rest (d_segs d0) ->
    (forall x, In x (content d0) -> K x -> In x (flat (map m_seg rest))) -> keeps rest.
  Proof.
    intros Hsub HK m x Hm Hx Hk.
    assert (Hc : In x (content d0)) by (unfold content; apply in_concat; exists (m_recs m); split; [apply in_map; exact Hm|exact Hx]).
    specialize (HK x Hc Hk). apply in_flat in HK. destruct HK as (sg & Hsg & Hxs). apply in_map_iff in Hsg. destruct Hsg as (m' & <- & Hm').
    assert (m = m'); [|subst; exact Hm'].
    apply (same_seg (d_segs d0) m m' x (g_wf _ G) Hm (subseq_incl _ _ Hsub m' Hm') Hx Hxs).
  Qed.

  Lemma subseq_suffix {A} (a b : list A) : subseq b (a ++ b).
  Proof. induction a as [|x t IH]; [apply subseq_refl|]. cbn [app]. apply sub_skip. exact IH. Qed.

  Lemma retention_seq :
    (forall x, In x (content d0) -> K x -> In x (flat (snd (retention_effs lim ttl S0)))) ->
    exists gone rest3, d_segs d0 = gone ++ rest3 /\ map m_seg rest3 = snd (retention_effs lim ttl S0) /\ rest3 <> [] /\ keeps rest3 /\
      seq R (at_ (cmk (d_segs d0) [] c0)) (fst (retention_effs lim ttl S0)) (at_ (cmk rest3 [] c0)).
  Proof.
    intros HK. unfold retention_effs in *. cbn zeta in *.
    set (s1 := if 0 <? lim_age lim then drop_expired ttl S0 else S0) in *.
    set (s2 := if 0 <? lim_msgs lim then apply_limit (lim_msgs lim) s_count s1 else s1) in *.
    set (s3 := if 0 <? lim_bytes lim then apply_limit (lim_bytes lim) s_pos s2 else s2) in *.
    cbn [fst snd] in *.
    assert (H1 : is_suffix_keeping_last s1 S0) by (unfold s1; destruct (0 <? lim_age lim); [apply drop_expired_suffix|apply suffix_refl]).
    assert (H2 : is_suffix_keeping_last s2 s1) by (unfold s2; destruct (0 <? lim_msgs lim); [apply apply_limit_suffix|apply suffix_refl]).
    assert (H3 : is_suffix_keeping_last s3 s2) by (unfold s3; destruct (0 <? lim_bytes lim); [apply apply_limit_suffix|apply suffix_refl]).
    destruct (suffix_msegs s1 (d_segs d0) H1) as (A & rest1 & E1 & M1 & D1 & N1).
    rewrite <- M1 in H2. destruct (suffix_msegs s2 rest1 H2) as (B & rest2 & E2 & M2 & D2 & N2).
    rewrite <- M2 in H3. destruct (suffix_msegs s3 rest2 H3) as (C & rest3 & E3 & M3 & D3 & N3).
    exists (A ++ B ++ C), rest3.
    assert (Esegs : d_segs d0 = (A ++ B ++ C) ++ rest3) by (rewrite E1, E2, E3, <- !app_assoc; reflexivity).
    assert (Hne3 : rest3 <> []) by (apply N3, N2, N1; apply (g_ne _ G)).
    assert (Hsub3 : subseq rest3 (d_segs d0)) by (rewrite Esegs; apply subseq_suffix).
    assert (Hk3 : keeps rest3) by (apply keeps_of_flat; [exact Hsub3|rewrite M3; exact HK]).
    split; [exact Esegs|]. split; [exact M3|]. split; [exact Hne3|]. split; [exact Hk3|].
    assert (X1 : dropped S0 s1 = map m_seg A) by (symmetry; exact D1).
    assert (X2 : dropped s1 s2 = map m_seg B) by (rewrite <- M1; symmetry; exact D2).
    assert (X3 : dropped s2 s3 = map m_seg C) by (rewrite <- M2; symmetry; exact D3).
    rewrite X1, X2, X3.
    apply (seq_app R _ _ (at_ (cmk rest1 [] c0))).
    { rewrite E1 at 1. apply dels_asc; [rewrite <- E1; apply subseq_refl|]. rewrite E2, E3. apply keeps_app, keeps_app. exact Hk3. }
    apply (seq_app R _ _ (at_ (cmk rest2 [] c0))).
    { rewrite E2 at 1. apply dels_desc; [rewrite <- E2, E1; apply subseq_suffix|]. rewrite E3. apply keeps_app. exact Hk3. }
    rewrite E3 at 1. apply dels_desc; [rewrite <- E3, E1, E2; eapply subseq_trans; [apply subseq_suffix|apply subseq_suffix]|exact Hk3].
  Qed.
End Clean.

(* ------------------------------------------------------------------ compaction *)
(* a list of segments in which some are missing and the others hold a subsequence of their records *)
Inductive ssub : list seg -> list seg -> Prop :=
| ss_nil : ssub [] []
| ss_drop sg l l' : ssub l l' -> ssub l (sg :: l')
| ss_keep sg sg' l l' : s_base sg' = s_base sg -> subseq (s_recs sg') (s_recs sg) -> ssub l l' -> ssub (sg' :: l) (sg :: l').

Lemma ssub_in l' l : ssub l' l -> forall sg', In sg' l' -> exists sg, In sg l /\ s_base sg' = s_base sg /\ subseq (s_recs sg') (s_recs sg).
Proof.
  induction 1 as [|sg l l' _ IH|sg sg0 l l' Hb Hs _ IH]; intros x Hx; [destruct Hx| |].
  - destruct (IH x Hx) as (y & Hy & A & B). exists y. split; [right; exact Hy|split; assumption].
  - destruct Hx as [<-|Hx]; [exists sg; split; [left; reflexivity|split; assumption]|].
    destruct (IH x Hx) as (y & Hy & A & B). exists y. split; [right; exact Hy|split; assumption].
Qed.

Lemma ssub_bases l' l : ssub l' l -> forall lo, bases_lt lo l -> bases_lt lo l'.
Proof.
  induction 1 as [|sg l l' _ IH|sg sg0 l l' Hb Hs _ IH]; intros lo B; [exact I| |].
  - destruct B as [B1 B2]. apply IH. eapply bases_lt_weaken; [|exact B2]. lia.
  - destruct B as [B1 B2]. split; [lia|]. rewrite Hb. apply IH. exact B2.
Qed.

Lemma WF_ssub l' l : ssub l' l -> WF l -> WF l'.
Proof.
  intros Hs Hw. split.
  - apply (ssub_bases _ _ Hs). apply (wf_bases _ Hw).
  - intros x Hx. destruct (ssub_in _ _ Hs x Hx) as (y & Hy & A & B). rewrite A. apply (sorted_from_subseq _ _ B). apply (wf_sorted _ Hw). exact Hy.
  - intros x1 x2 H1 H2 Hlt r Hr. destruct (ssub_in _ _ Hs x1 H1) as (y1 & Hy1 & A1 & B1). destruct (ssub_in _ _ Hs x2 H2) as (y2 & Hy2 & A2 & B2).
    rewrite A2. apply (wf_below _ Hw y1 y2 Hy1 Hy2); [lia|]. apply (subseq_incl _ _ B1). exact Hr.
Qed.

Lemma ssub_refl l : ssub l l.
Proof. induction l; constructor; try reflexivity; [apply subseq_refl|assumption]. Qed.

Lemma ssub_app a a' b b' : ssub a a' -> ssub b b' -> ssub (a ++ b) (a' ++ b').
Proof. induction 1; intros Hb; cbn [app]; [exact Hb|apply ss_drop; auto|apply ss_keep; auto]. Qed.

(* epochs attributed by a sorted cache do not decrease with the offset *)
Lemma epoch_from_ge c : forall a o, csorted c -> (forall e st, In (e, st) c -> (a <= e)%N) -> (a <= epoch_from a c o)%N.
Proof.
  induction c as [|[e st] t IH]; intros a o Hs H; [cbn; lia|]. destruct Hs as [H1 H2]. unfold epoch_from. cbn [fold_left fst snd].
  destruct (st <=? o).
  - fold (epoch_from e t o). specialize (H e st (or_introl eq_refl)).
    assert (e <= epoch_from e t o)%N by (apply IH; [exact H2|intros e' s' Hin; destruct (H1 e' s' Hin); lia]). lia.
  - fold (epoch_from a t o). apply IH; [exact H2|]. intros e' s' Hin. apply (H e' s'). right. exact Hin.
Qed.

Lemma epoch_from_mono c : forall a o1 o2, csorted c -> (forall e st, In (e, st) c -> (a <= e)%N) -> o1 <= o2 ->
  (epoch_from a c o1 <= epoch_from a c o2)%N.
Proof.
  induction c as [|[e st] t IH]; intros a o1 o2 Hs H Hle; [cbn; lia|]. destruct Hs as [H1 H2].
  assert (Ht : forall a', (forall e' s', In (e', s') t -> (a' <= e')%N) -> (epoch_from a' t o1 <= epoch_from a' t o2)%N) by (intros a' Ha'; apply IH; assumption).
  assert (He : forall e' s', In (e', s') t -> (e <= e')%N) by (intros e' s' Hin; destruct (H1 e' s' Hin); lia).
  assert (Ha : forall e' s', In (e', s') t -> (a <= e')%N) by (intros e' s' Hin; apply (H e' s'); right; exact Hin).
  assert (E1 : epoch_from a ((e, st) :: t) o1 = if st <=? o1 then epoch_from e t o1 else epoch_from a t o1) by (unfold epoch_from; cbn [fold_left fst snd]; destruct (st <=? o1); reflexivity).
  assert (E2 : epoch_from a ((e, st) :: t) o2 = if st <=? o2 then epoch_from e t o2 else epoch_from a t o2) by (unfold epoch_from; cbn [fold_left fst snd]; destruct (st <=? o2); reflexivity).
  rewrite E1, E2. destruct (Z.leb_spec st o1), (Z.leb_spec st o2); try lia.
  - apply Ht. exact He.
  - assert (Ea : epoch_from a t o1 = a) by (apply epoch_from_above; intros e' s' Hin; destruct (H1 e' s' Hin); lia).
    pose proof (epoch_from_ge t e o2 H2 He). specialize (H e st (or_introl eq_refl)). rewrite Ea. lia.
  - apply Ht. exact Ha.
Qed.

Lemma epoch_at_mono c o1 o2 : csorted c -> o1 <= o2 -> (epoch_at c o1 <= epoch_at c o2)%N.
Proof. intros Hs Hle. rewrite !epoch_at_from. apply epoch_from_mono; [exact Hs|intros; lia|exact Hle]. Qed.

Lemma match_mono c rs : csorted c -> cmatch c rs -> forall lo a, sorted_from lo rs -> 0 <= lo -> (forall x, In x rs -> (a <= r_ep x)%N) -> ep_mono a rs.
Proof.
  intros Hs Hm. induction rs as [|r t IH]; intros lo a Hsort Hlo Ha; [exact I|]. destruct Hsort as [S1 S2]. split; [apply Ha; left; reflexivity|].
  apply (IH (fun x Hx => Hm x (or_intror Hx)) (r_off r + 1)); [exact S2|lia|].
  intros x Hx. pose proof (sorted_all_lt (r_off r + 1) t ltac:(lia) S2) as HF. rewrite Forall_forall in HF. specialize (HF x Hx).
  rewrite <- (Hm r (or_introl eq_refl)), <- (Hm x (or_intror Hx)). apply epoch_at_mono; [exact Hs|lia].
Qed.

Definition nonempty {A} (l : list A) : bool := match l with [] => false | _ => true end.

Section Compaction.
  Variable key_of : bytes -> option bytes.
  Variable s : st.
  Hypothesis G : Good s.
  Variable ttl : Z.
  Variable K : rec -> Prop.
  Variables (gone body : list mseg) (lastm : mseg).
  Hypothesis Hsegs : d_segs (s_disk s) = gone ++ body ++ [lastm].

  Let d0 := s_disk s.
  Let c0 := d_ep d0.
  Let hw := s_hw s.
  Let R := Image s (DClean ttl) K.
  Let all := concat (map s_recs (map m_seg (body ++ [lastm]))).
  Let ret := retained key_of false hw all.

  Definition nfm (m : mseg) : list rec := filter ret (m_recs m).
  Definition finalform (m : mseg) : mseg := mkM (mkSeg (m_base m) (nfm m)) (Some (nfm m)).
  Definition done_of (l : list mseg) : list mseg := map finalform (filter (fun m => nonempty (nfm m)) l).

  Hypothesis HK : forall x, In x (content d0) -> K x -> In x (m_recs lastm) \/ (ret x = true /\ In x (concat (map m_recs body))).

  (* a state of the rewriting: every segment untouched, rewritten (with the old or the new index), or
     gone because nothing of it is retained *)
  Inductive btw : list mseg -> list mseg -> Prop :=
  | bt_nil : btw [] []
  | bt_same m l l' : btw l l' -> btw (m :: l) (m :: l')
  | bt_repl m fi l l' : fi = m_recs m \/ fi = nfm m -> btw l l' -> btw (mkM (mkSeg (m_base m) (nfm m)) (Some fi) :: l) (m :: l')
  | bt_drop m l l' : nfm m = [] -> btw l l' -> btw l (m :: l').

  Lemma btw_refl l : btw l l.
  Proof. induction l; constructor; assumption. Qed.

  Lemma btw_app a a' b b' : btw a a' -> btw b b' -> btw (a ++ b) (a' ++ b').
  Proof. induction 1; intros Hb; cbn [app]; [exact Hb|apply bt_same; auto|apply bt_repl; auto|apply bt_drop; auto]. Qed.

  Lemma btw_done l : btw (done_of l) l.
  Proof.
    induction l as [|m t IH]; [constructor|]. unfold done_of. cbn [filter]. destruct (nfm m) eqn:E; cbn [nonempty].
    - apply bt_drop; [exact E|exact IH].
    - cbn [map]. unfold finalform at 1. apply bt_repl; [right; reflexivity|exact IH].
  Qed.

  Lemma btw_ssub cur orig : btw cur orig -> ssub (map m_seg cur) (map m_seg orig).
  Proof.
    induction 1; cbn [map]; [constructor|apply ss_keep; [reflexivity|apply subseq_refl|assumption]| |apply ss_drop; assumption].
    apply ss_keep; [reflexivity|cbn [m_seg s_recs]; apply filter_subseq|assumption].
  Qed.

  Lemma btw_in cur orig : btw cur orig -> forall m, In m cur ->
    In m orig \/ exists m0 fi, In m0 orig /\ m = mkM (mkSeg (m_base m0) (nfm m0)) (Some fi) /\ (fi = m_recs m0 \/ fi = nfm m0).
  Proof.
    induction 1 as [|m0 l l' _ IH|m0 fi l l' Hfi _ IH|m0 l l' _ _ IH]; intros m Hm; [destruct Hm| | |].
    - destruct Hm as [<-|Hm]; [left; left; reflexivity|]. destruct (IH m Hm) as [H|(a & b & Ha & Hb & Hc)]; [left; right; exact H|right; exists a, b; split; [right; exact Ha|split; assumption]].
    - destruct Hm as [<-|Hm]; [right; exists m0, fi; split; [left; reflexivity|split; [reflexivity|exact Hfi]]|].
      destruct (IH m Hm) as [H|(a & b & Ha & Hb & Hc)]; [left; right; exact H|right; exists a, b; split; [right; exact Ha|split; assumption]].
    - destruct (IH m Hm) as [H|(a & b & Ha & Hb & Hc)]; [left; right; exact H|right; exists a, b; split; [right; exact Ha|split; assumption]].
  Qed.

  Lemma btw_content cur orig : btw cur orig -> forall x, In x (concat (map m_recs cur)) -> In x (concat (map m_recs orig)).
  Proof.
    induction 1 as [|m0 l l' _ IH|m0 fi l l' Hfi _ IH|m0 l l' _ _ IH]; intros x Hx; cbn [map concat] in *; [exact Hx| | |].
    - apply in_app_or in Hx. apply in_or_app. destruct Hx as [Hx|Hx]; [left; exact Hx|right; apply IH; exact Hx].
    - apply in_app_or in Hx. apply in_or_app. destruct Hx as [Hx|Hx]; [left|right; apply IH; exact Hx].
      cbn [m_recs m_seg s_recs] in Hx. unfold nfm in Hx. apply filter_In in Hx. apply Hx.
    - apply in_or_app. right. apply IH. exact Hx.
  Qed.

  Lemma btw_keeps cur orig : btw cur orig -> forall x, In x (concat (map m_recs orig)) -> ret x = true -> In x (concat (map m_recs cur)).
  Proof.
    induction 1 as [|m0 l l' _ IH|m0 fi l l' Hfi _ IH|m0 l l' Hn _ IH]; intros x Hx Hr; cbn [map concat] in *; [exact Hx| | |].
    - apply in_app_or in Hx. apply in_or_app. destruct Hx as [Hx|Hx]; [left; exact Hx|right; apply IH; assumption].
    - apply in_app_or in Hx. apply in_or_app. destruct Hx as [Hx|Hx]; [left|right; apply IH; assumption].
      cbn [m_recs m_seg s_recs]. unfold nfm. apply filter_In. split; assumption.
    - apply in_app_or in Hx. destruct Hx as [Hx|Hx]; [|apply IH; assumption].
      exfalso. assert (In x (nfm m0)) by (unfold nfm; apply filter_In; split; assumption). rewrite Hn in H. destruct H.
  Qed.

  Lemma rest3_sub : subseq (body ++ [lastm]) (d_segs d0).
  Proof. unfold d0. rewrite Hsegs. apply subseq_suffix. Qed.

  Lemma WF_rest3 : WF (map m_seg (body ++ [lastm])).
  Proof. apply (WF_subseq _ _ (subseq_map m_seg _ _ rest3_sub)). apply (g_wf _ G). Qed.

  Lemma body_in m : In m body -> In m (d_segs d0).
  Proof. intros H. apply (subseq_incl _ _ rest3_sub). apply in_or_app. left. exact H. Qed.

  Lemma last_in : In lastm (d_segs d0).
  Proof. apply (subseq_incl _ _ rest3_sub). apply in_or_app. right. left. reflexivity. Qed.

  Lemma content_rest3 x : In x (concat (map m_recs (body ++ [lastm]))) -> In x (content d0).
  Proof.
    intros Hx. apply in_concat in Hx. destruct Hx as (l & Hl & Hx). apply in_map_iff in Hl. destruct Hl as (m & <- & Hm).
    unfold content. apply in_concat. exists (m_recs m). split; [apply in_map; apply (subseq_incl _ _ rest3_sub); exact Hm|exact Hx].
  Qed.

  (* any state of the rewriting, with any cache that fits what it holds *)
  Lemma comp_image cur orph c : btw cur body -> csorted c ->
    (forall x, In x (concat (map m_recs (cur ++ [lastm]))) -> epoch_at c (r_off x) = r_ep x) ->
    R (cmk s (cur ++ [lastm]) orph c).
  Proof.
    intros Hb Hcs Hcm.
    assert (Hbt : btw (cur ++ [lastm]) (body ++ [lastm])) by (apply btw_app; [exact Hb|apply btw_refl]).
    assert (Hc : forall x, In x (content (cmk s (cur ++ [lastm]) orph c)) -> In x (content d0)).
    { intros x Hx. apply content_rest3. apply (btw_content _ _ Hbt). exact Hx. }
    split; [|split].
    - split; cbn [cmk d_segs d_ep d_hw].
      + intros m Hm. destruct (btw_in _ _ Hbt m Hm) as [Ho|(m0 & fi & Hm0 & -> & Hfi)].
        * left. unfold m_fi. rewrite (g_idx _ G m (subseq_incl _ _ rest3_sub m Ho)). reflexivity.
        * unfold fixable, m_fi. cbn [m_idx m_recs m_seg s_recs]. destruct Hfi as [-> | ->]; [|left; reflexivity].
          destruct (subseq_fsize _ _ (filter_subseq ret (m_recs m0))) as [E|Hlt]; [left; symmetry; exact E|right; unfold nfm; lia].
      + unfold segs_of. cbn [cmk d_segs]. apply (WF_ssub _ _ (btw_ssub _ _ Hbt)). apply WF_rest3.
      + exact Hcs.
      + exact Hcm.
      + apply (g_hw _ G).
    - intros x Hx. left. apply Hc. exact Hx.
    - intros x Hx Hk. unfold content. cbn [cmk d_segs]. rewrite map_app, concat_app. apply in_or_app.
      destruct (HK x Hx Hk) as [Hl|[Hr Hb']]; [right; cbn [map concat]; rewrite app_nil_r; exact Hl|left; apply (btw_keeps _ _ Hb x Hb' Hr)].
  Qed.

  Lemma c0_fits cur : btw cur body -> forall x, In x (concat (map m_recs (cur ++ [lastm]))) -> epoch_at c0 (r_off x) = r_ep x.
  Proof.
    intros Hb x Hx. apply (g_cmatch _ G). apply content_rest3.
    apply (btw_content (cur ++ [lastm]) (body ++ [lastm])); [apply btw_app; [exact Hb|apply btw_refl]|exact Hx].
  Qed.

  Lemma done_bases l f : In f (done_of l) -> exists m0, In m0 l /\ m_base f = m_base m0.
  Proof.
    unfold done_of. intros H. apply in_map_iff in H. destruct H as (m0 & <- & H). apply filter_In in H. exists m0. split; [apply H|reflexivity].
  Qed.

  Lemma done_snoc l m : done_of (l ++ [m]) = done_of l ++ (if nonempty (nfm m) then [finalform m] else []).
  Proof. unfold done_of. rewrite filter_app, map_app. cbn [filter]. destruct (nonempty (nfm m)); reflexivity. Qed.

  (* the rewriting loop *)
  Lemma compact_loop todo : forall processed, body = processed ++ todo ->
    seq R (at_ (cmk s (done_of processed ++ todo ++ [lastm]) [] c0))
        (concat (map (compact_one key_of fixed hw all) (map m_seg todo)))
        (at_ (cmk s (done_of body ++ [lastm]) [] c0)).
  Proof.
    induction todo as [|m todo' IH]; intros processed E.
    - cbn [map concat app]. rewrite E, app_nil_r. apply seq_nil. intros d Hd. apply (cimage_main s ttl K _ d (meq_sym _ _ Hd)).
      apply comp_image; [rewrite <- (app_nil_r processed), <- E; apply btw_done|apply (g_csorted _ G)|apply c0_fits; rewrite <- (app_nil_r processed), <- E; apply btw_done].
    - cbn [map concat].
      set (front := done_of processed). set (rest := todo' ++ [lastm]).
      assert (Hb0 : bases_lt (-1) (map m_seg (processed ++ m :: rest))).
      { apply (bases_lt_subseq _ (map m_seg (d_segs d0))); [|apply (wf_bases _ (g_wf _ G))]. apply subseq_map.
        unfold rest. replace (processed ++ m :: todo' ++ [lastm]) with (body ++ [lastm]) by (rewrite E, <- app_assoc; reflexivity). apply rest3_sub. }
      destruct (bases_distinct processed m rest _ Hb0) as [Hp Hr].
      assert (Hf : forall f, In f front -> m_base f <> m_base m) by (intros f Hfi; destruct (done_bases _ _ Hfi) as (m0 & Hm0 & ->); apply Hp; exact Hm0).
      assert (Hidx : m_idx m = Some (m_recs m)) by (apply (g_idx _ G); apply body_in; rewrite E; apply in_or_app; right; left; reflexivity).
      assert (Hst : forall m' orph, btw (front ++ m' ++ todo') (processed ++ m :: todo') -> R (cmk s ((front ++ m' ++ todo') ++ [lastm]) orph c0)).
      { intros m' orph Hb. apply comp_image; [rewrite E; exact Hb|apply (g_csorted _ G)|apply c0_fits; rewrite E; exact Hb]. }
      assert (Hshape : forall m', (front ++ m' ++ todo') ++ [lastm] = front ++ m' ++ rest) by (intros m'; unfold rest; rewrite <- !app_assoc; reflexivity).
      assert (Hbsame : btw (front ++ [m] ++ todo') (processed ++ m :: todo')) by (apply btw_app; [apply btw_done|apply bt_same; apply btw_refl]).
      assert (R0 : R (cmk s (front ++ m :: rest) [] c0)) by (change (front ++ m :: rest) with (front ++ [m] ++ rest); rewrite <- (Hshape [m]); apply Hst; exact Hbsame).
      assert (Hone : compact_one key_of fixed hw all (m_seg m) =
              match nfm m with
              | [] => [FRemoveLog (TScr (m_base m) SClean); FRemoveIdx (TScr (m_base m) SClean); FCreateLog (TScr (m_base m) SClean); FCreateIdx (TScr (m_base m) SClean)]
                        ++ del_effs (TScr (m_base m) SClean) ++ del_effs (TMain (m_base m))
              | _ => replace_effs fixed SClean (m_base m) (nfm m) PCompactCopy
              end) by reflexivity.
      rewrite Hone. clear Hone.
      apply (seq_app R _ _ (at_ (cmk s (done_of (processed ++ [m]) ++ todo' ++ [lastm]) [] c0))); [|apply IH; rewrite E, <- app_assoc; reflexivity].
      rewrite done_snoc. fold front. fold rest. destruct (nfm m) as [|r0 nf'] eqn:En; cbn [nonempty].
      + (* nothing retained: the segment goes *)
        rewrite app_nil_r.
        assert (Hbdrop : btw (front ++ [] ++ todo') (processed ++ m :: todo')) by (apply btw_app; [apply btw_done|apply bt_drop; [exact En|apply btw_refl]]).
        assert (R2 : forall orph, R (cmk s (front ++ rest) orph c0)) by (intros orph; change (front ++ rest) with (front ++ [] ++ rest); rewrite <- (Hshape []); apply Hst; exact Hbdrop).
        change ([FRemoveLog (TScr (m_base m) SClean); FRemoveIdx (TScr (m_base m) SClean); FCreateLog (TScr (m_base m) SClean); FCreateIdx (TScr (m_base m) SClean)]
                  ++ del_effs (TScr (m_base m) SClean) ++ del_effs (TMain (m_base m)))
          with ([FRemoveLog (TScr (m_base m) SClean); FRemoveIdx (TScr (m_base m) SClean); FCreateLog (TScr (m_base m) SClean); FCreateIdx (TScr (m_base m) SClean);
                 FRemoveLog (TScr (m_base m) SClean); FPoint PDelLogRemoved; FRemoveIdx (TScr (m_base m) SClean)] ++ del_effs (TMain (m_base m))).
        change (front ++ (m :: todo') ++ [lastm]) with (front ++ m :: rest).
        apply (seq_app R _ _ (at_ (cmk s (front ++ m :: rest) [] c0))); [apply seq_scratch; [apply cimage_main|exact R0|reflexivity]|].
        apply (del_seq R (m_base m) _ (cmk s (front ++ rest) [(m_base m, m_recs m)] c0)); [apply cimage_main| | |exact R0|apply R2|apply R2].
        * cbn [mapply cmk d_segs d_orph]. rewrite seg_get_mid by exact Hf. rewrite Hidx. unfold with_main. cbn [cmk d_segs d_scr d_hw d_ep d_orph].
          rewrite seg_del_mid by exact Hf. apply meq_refl.
        * cbn [mapply cmk d_segs d_orph].
          assert (Hnone : seg_get (front ++ rest) (m_base m) = None).
          { apply seg_get_none_notin. intros f Hfi. apply in_app_or in Hfi. destruct Hfi as [Hfi|Hfi]; [apply Hf|apply Hr]; exact Hfi. }
          rewrite Hnone. unfold with_main, orph_del. cbn [cmk d_segs d_scr d_hw d_ep d_orph filter fst]. rewrite Z.eqb_refl. cbn [negb]. apply meq_refl.
      + (* rewritten *)
        rewrite <- En. set (mL := mkM (mkSeg (m_base m) (nfm m)) (Some (m_recs m))).
        change (front ++ (m :: todo') ++ [lastm]) with (front ++ m :: rest).
        assert (HbL : btw (front ++ [mL] ++ todo') (processed ++ m :: todo')) by (apply btw_app; [apply btw_done|apply bt_repl; [left; reflexivity|apply btw_refl]]).
        assert (HbI : btw (front ++ [finalform m] ++ todo') (processed ++ m :: todo')) by (apply btw_app; [apply btw_done|apply bt_repl; [right; reflexivity|apply btw_refl]]).
        replace ((front ++ [finalform m]) ++ rest) with (front ++ finalform m :: rest) by (rewrite <- app_assoc; reflexivity).
        apply (replace_seq R (cimage_main s ttl K) (m_base m) SClean (nfm m) PCompactCopy _ (cmk s (front ++ mL :: rest) [] c0)).
        * exact R0.
        * change (front ++ mL :: rest) with (front ++ [mL] ++ rest). rewrite <- (Hshape [mL]). apply Hst. exact HbL.
        * change (front ++ finalform m :: rest) with (front ++ [finalform m] ++ rest). rewrite <- (Hshape [finalform m]). apply Hst. exact HbI.
        * cbn [mapply cmk d_segs d_orph]. rewrite seg_get_mid by exact Hf. unfold set_segs. cbn [cmk d_segs d_scr d_hw d_ep d_orph].
          rewrite seg_upd_mid by exact Hf. rewrite Hidx. apply meq_refl.
        * cbn [mapply cmk d_segs d_orph]. change (m_base m) with (m_base mL) at 1 2.
          rewrite seg_get_mid by exact Hf. unfold set_segs. cbn [cmk d_segs d_scr d_hw d_ep d_orph].
          rewrite seg_upd_mid by exact Hf. apply meq_refl.
  Qed.
End Compaction.
