(* Crash safety, part 5: Clean assembled -- retention, then (when compaction is on and at least two
   segments are left) the rewriting of every segment but the last, then the epoch checkpoint. *)
From LB Require Import Base.Prelude Log.Model Log.Retention Log.Compact Log.Proofs Log.Refine Log.RetentionProofs
  Log.Disk Log.DiskBase Log.DiskProofs Log.DiskBlocks Log.DiskTrunc Log.DiskClean.
From Coq Require Import ZifyBool.
Open Scope Z_scope.

Definition ne_seg (sg : seg) : bool := match s_recs sg with [] => false | _ => true end.

Lemma compact_segs_shape key_of hw (bodyS : list seg) (lastS : seg) : bodyS <> [] ->
  compact_segs key_of false hw (bodyS ++ [lastS]) =
  filter ne_seg (map (fun sg => mkSeg (s_base sg) (filter (retained key_of false hw (concat (map s_recs (bodyS ++ [lastS])))) (s_recs sg))) bodyS) ++ [lastS].
Proof.
  intros Hne. unfold compact_segs. rewrite rev_app_distr. cbn [rev app].
  destruct (rev bodyS) as [|x t] eqn:Er.
  - exfalso. apply Hne. rewrite <- (rev_involutive bodyS), Er. reflexivity.
  - rewrite <- Er, rev_involutive. reflexivity.
Qed.

Lemma next_after_le lo rs b : lo <= b -> (forall x, In x rs -> r_off x < b) -> next_after lo rs <= b.
Proof.
  intros Hlo Hx. unfold next_after. destruct rs as [|r t]; [change (last_off_of []) with (-1); cbn; lia|].
  destruct (last_off_in (r :: t) ltac:(discriminate)) as (x & Hin & Hoff). specialize (Hx x Hin).
  destruct (Z.eqb_spec (last_off_of (r :: t)) (-1)); lia.
Qed.

(* what compaction leaves is part of what it was given *)
Lemma compact_incl key_of hw sl x : In x (flat (compact_segs key_of false hw sl)) -> In x (flat sl).
Proof.
  intros Hk. apply in_flat in Hk. destruct Hk as (sg & Hsg & Hx). unfold compact_segs in Hsg.
  destruct (rev sl) as [|lastS older] eqn:Er; [destruct Hsg|]. destruct older as [|o1 older'].
  - apply in_flat. exists sg. split; assumption.
  - assert (E3 : sl = rev (o1 :: older') ++ [lastS]) by (rewrite <- (rev_involutive sl), Er; reflexivity).
    apply in_app_or in Hsg. destruct Hsg as [Hsg|[<-|[]]].
    + apply filter_In in Hsg. destruct Hsg as [Hsg _]. apply in_map_iff in Hsg. destruct Hsg as (s0 & <- & Hs0). cbn [s_recs] in Hx. apply filter_In in Hx.
      apply in_flat. exists s0. split; [rewrite E3; apply in_or_app; left; exact Hs0|apply Hx].
    + apply in_flat. exists lastS. split; [rewrite E3; apply in_or_app; right; left; reflexivity|exact Hx].
Qed.

Lemma done_segs key_of s body lastm l :
  map m_seg (done_of key_of s body lastm l) =
  filter ne_seg (map (fun sg => mkSeg (s_base sg) (filter (retained key_of false (s_hw s) (concat (map s_recs (map m_seg (body ++ [lastm]))))) (s_recs sg))) (map m_seg l)).
Proof.
  induction l as [|m t IH]; [reflexivity|]. unfold done_of in *. cbn [map filter].
  unfold ne_seg at 1. cbn [s_recs]. unfold nfm at 1. change (m_recs m) with (s_recs (m_seg m)).
  destruct (filter (retained key_of false (s_hw s) (concat (map s_recs (map m_seg (body ++ [lastm]))))) (s_recs (m_seg m))) as [|r0 rt] eqn:Ef; cbn [nonempty].
  - exact IH.
  - cbn [map]. f_equal; [|exact IH]. unfold finalform, nfm. cbn [m_seg]. change (m_recs m) with (s_recs (m_seg m)). rewrite Ef. reflexivity.
Qed.

Section CleanOp.
  Variable key_of : bytes -> option bytes.
  Variable p : params.
  Variable s : st.
  Hypothesis G : Good s.
  Variable ttl : Z.

  Let d0 := s_disk s.
  Let c0 := d_ep d0.
  Let hw := s_hw s.
  Let S0 := segs_of d0.
  Definition s3 : list seg := snd (retention_effs (p_lim p) ttl (segs_of (s_disk s))).

  (* the segments Clean leaves (the in-memory model's answer) *)
  Definition clean_target : list seg :=
    match p_compact p, s3 with
    | true, _ :: _ :: _ => compact_segs key_of false hw s3
    | _, _ => s3
    end.
  Definition Kc (x : rec) : Prop := In x (flat clean_target).

  Let R := Image s (DClean ttl) Kc.

  (* the epoch cache Clean leaves (the in-memory model's answer) *)
  Definition clean_cache : epoch_cache :=
    match p_compact p, s3 with
    | true, _ :: _ :: _ => cache_assign_all [] (concat (map s_recs (compact_segs key_of false hw s3)))
    | _, _ => cache_clear_earliest c0 (match s3 with [] => 0 | sg :: _ => s_base sg end)
    end.

  Definition clean_final (d : disk) : Prop :=
    exists segs c, meq d (cmk s segs [] c) /\ segs <> [] /\ (forall m, In m segs -> m_idx m = Some (m_recs m)) /\
      cbound c (m_next (last segs dummy_m)) /\ R (cmk s segs [] c) /\ map m_seg segs = clean_target /\ c = clean_cache.

  Lemma start_at d : at_ d0 d -> at_ (cmk s (d_segs d0) [] c0) d.
  Proof. intros Hd. eapply meq_trans; [exact Hd|]. repeat split. apply (g_orph _ G). Qed.

  Lemma base_le_next m : In m (d_segs d0) -> m_base m <= next_of s.
  Proof.
    intros Hm. destruct (good_active s G) as (pre & a & E & Ha & Hidx & Hnx & H0 & Hpre & Hbelow). rewrite Hnx.
    assert (Hsa : sorted_from (m_base a) (m_recs a)) by (apply (wf_sorted _ (g_wf _ G) (m_seg a)); apply in_map; fold d0 in E; unfold d0 in E; rewrite E; apply in_or_app; right; left; reflexivity).
    pose proof (s_next_ge (m_seg a) H0 Hsa). fold (m_base a) in *. unfold d0 in Hm. rewrite E in Hm. apply in_app_or in Hm.
    destruct Hm as [Hm|[<-|[]]]; [specialize (Hpre m Hm); lia|lia].
  Qed.

  Lemma last_suffix (gone rest : list mseg) : d_segs d0 = gone ++ rest -> rest <> [] -> last rest dummy_m = d_active d0.
  Proof.
    intros E Hne. unfold d_active. rewrite E. destruct (exists_last Hne) as (l & x & ->). rewrite app_assoc, !last_last. reflexivity.
  Qed.

  Lemma all_below_next x : In x (content d0) -> r_off x < next_of s.
  Proof. intros Hx. destruct (good_active s G) as (pre & a & E & Ha & Hidx & Hnx & H0 & Hpre & Hbelow). rewrite Hnx. apply Hbelow. exact Hx. Qed.

  Theorem clean_op_seq :
    seq R (at_ d0) (clean_effs key_of fixed (p_compact p) (p_lim p) ttl d0 hw) clean_final.
  Proof.
    unfold clean_effs. fold S0. destruct (retention_effs (p_lim p) ttl S0) as [dels s3'] eqn:Eret.
    assert (Es3 : s3' = s3) by (unfold s3; change (segs_of (s_disk s)) with S0; rewrite Eret; reflexivity). subst s3'.
    assert (HKs3 : forall x, In x (content d0) -> Kc x -> In x (flat s3)).
    { intros x _ Hk. unfold Kc, clean_target in Hk. destruct (p_compact p); [|exact Hk]. destruct s3 as [|a [|b t]]; try exact Hk.
      apply compact_incl in Hk. exact Hk. }
    pose proof (retention_seq s G ttl Kc (p_lim p)) as Hrs. fold d0 S0 in Hrs. rewrite Eret in Hrs. cbn [fst snd] in Hrs.
    destruct (Hrs HKs3) as (gone & rest3 & Esegs & M3 & Hne3 & Hk3 & Hseq). clear Hrs.
    assert (Hsub3 : subseq rest3 (d_segs d0)) by (rewrite Esegs; apply subseq_suffix).
    assert (Hidx3 : forall m, In m rest3 -> m_idx m = Some (m_recs m)) by (intros m Hm; apply (g_idx _ G); apply (subseq_incl _ _ Hsub3); exact Hm).
    assert (Hnext3 : m_next (last rest3 dummy_m) = next_of s) by (rewrite (last_suffix gone rest3 Esegs Hne3); reflexivity).
    (* which branch *)
    assert (Hbranch : (p_compact p = true /\ exists body lastm, body <> [] /\ rest3 = body ++ [lastm]) \/
                      (match p_compact p, s3 with true, _ :: _ :: _ => False | _, _ => True end)).
    { destruct (p_compact p); [|right; exact I]. destruct s3 as [|a [|b t]] eqn:E3; [right; exact I|right; exact I|left].
      split; [reflexivity|]. destruct (exists_last Hne3) as (body & lastm & ->). exists body, lastm. split; [|reflexivity].
      intros ->. cbn in M3. discriminate. }
    destruct Hbranch as [(Ecomp & body & lastm & Hbne & ->)|Hplain].
    - (* compaction *)
      match goal with |- seq _ _ ?es _ =>
        assert (Escript : es = dels ++ concat (map (compact_one key_of fixed hw (concat (map s_recs s3))) (removelast s3)) ++
                               [FPoint PCleanCleaned; FEpochs (cache_assign_all [] (concat (map s_recs (compact_segs key_of false hw s3))))]) end.
      { rewrite Ecomp. pose proof M3 as M3'. destruct s3 as [|a [|b t]];
          [destruct body; discriminate M3'|destruct body as [|? [|? ?]]; try contradiction; discriminate M3'|reflexivity]. }
      rewrite Escript. clear Escript. rewrite <- M3.
      replace (removelast (map m_seg (body ++ [lastm]))) with (map m_seg body) by (rewrite map_app; cbn [map]; rewrite removelast_last; reflexivity).
      assert (Htwo : exists q1 q2 qt, map m_seg (body ++ [lastm]) = q1 :: q2 :: qt).
      { destruct body as [|m1 bt]; [contradiction|]. cbn [app map]. destruct (map m_seg (bt ++ [lastm])) as [|q2 qt] eqn:Eq; [destruct bt; discriminate|]. eauto. }
      assert (Hs3 : s3 = map m_seg (body ++ [lastm])) by (symmetry; exact M3).
      set (all := concat (map s_recs (map m_seg (body ++ [lastm])))).
      assert (Esegs' : d_segs (s_disk s) = gone ++ body ++ [lastm]) by exact Esegs.
      assert (Htarget : clean_target = filter ne_seg (map (fun sg => mkSeg (s_base sg) (filter (retained key_of false hw all) (s_recs sg))) (map m_seg body)) ++ [m_seg lastm]).
      { unfold clean_target. rewrite Ecomp, Hs3. destruct Htwo as (q1 & q2 & qt & Eq). rewrite Eq at 1. unfold all.
        rewrite (map_app m_seg body [lastm]). cbn [map]. apply compact_segs_shape. destruct body; [contradiction|discriminate]. }
      assert (HKc : forall x, In x (content (s_disk s)) -> Kc x ->
                 In x (m_recs lastm) \/ (retained key_of false (s_hw s) all x = true /\ In x (concat (map m_recs body)))).
      { intros x _ Hk. unfold Kc in Hk. rewrite Htarget in Hk. apply in_flat in Hk. destruct Hk as (sg & Hsg & Hx).
        apply in_app_or in Hsg. destruct Hsg as [Hsg|[<-|[]]]; [right|left; exact Hx].
        apply filter_In in Hsg. destruct Hsg as [Hsg _]. apply in_map_iff in Hsg. destruct Hsg as (s0 & <- & Hs0). cbn [s_recs] in Hx. apply filter_In in Hx.
        destruct Hx as [Hx Hr]. split; [exact Hr|]. apply in_map_iff in Hs0. destruct Hs0 as (m0 & <- & Hm0).
        apply in_concat. exists (m_recs m0). split; [apply in_map; exact Hm0|exact Hx]. }
      set (fin := done_of key_of s body lastm body).
      set (cN := cache_assign_all [] (concat (map s_recs (compact_segs key_of false hw (map m_seg (body ++ [lastm])))))).
      assert (Hfinsegs : map m_seg (fin ++ [lastm]) = clean_target).
      { rewrite Htarget, map_app. cbn [map]. f_equal. unfold fin. apply done_segs. }
      assert (Hbtw : btw key_of s body lastm fin body) by apply btw_done.
      assert (Hfit0 := c0_fits key_of s G gone body lastm Esegs' fin Hbtw).
      assert (RfinC0 : R (cmk s (fin ++ [lastm]) [] c0)) by (apply (comp_image key_of s G ttl Kc gone body lastm Esegs' HKc fin [] c0 Hbtw (g_csorted _ G) Hfit0)).
      (* the rebuilt epoch cache *)
      assert (HwF : WF (map m_seg (fin ++ [lastm]))) by (destruct RfinC0 as (M & _); apply (mi_wf _ _ M)).
      assert (Hsorted : sorted_from 0 (concat (map m_recs (fin ++ [lastm])))).
      { pose proof (flat_sorted 0 _ ltac:(lia) (WF_segs_wf _ HwF)) as [Hs _]. unfold flat in Hs. rewrite map_map in Hs. exact Hs. }
      assert (EcN : cN = cache_assign_all [] (concat (map m_recs (fin ++ [lastm])))).
      { unfold cN. f_equal. replace (compact_segs key_of false hw (map m_seg (body ++ [lastm]))) with clean_target.
        - rewrite <- Hfinsegs, map_map. reflexivity.
        - unfold clean_target. rewrite Ecomp, Hs3. destruct Htwo as (q1 & q2 & qt & Eq). rewrite Eq at 1. reflexivity. }
      assert (Hmono : ep_mono 0 (concat (map m_recs (fin ++ [lastm])))).
      { apply (match_mono c0 _ (g_csorted _ G) Hfit0 0 0%N Hsorted ltac:(lia)). intros; lia. }
      destruct (assign_all_ok (concat (map m_recs (fin ++ [lastm]))) [] [] 0 ltac:(lia) I ltac:(intros ? ? []) ltac:(intros ? []) ltac:(intros ? []) Hsorted Hmono) as (NA & NB & NC & _).
      cbn zeta in NA, NB, NC. rewrite <- EcN in NA, NB, NC. cbn [app] in NC.
      assert (RfinCN : R (cmk s (fin ++ [lastm]) [] cN)) by (apply (comp_image key_of s G ttl Kc gone body lastm Esegs' HKc fin [] cN Hbtw NA NC)).
      assert (Hcont_below : forall x, In x (concat (map m_recs (fin ++ [lastm]))) -> r_off x < next_of s).
      { intros x Hx. apply all_below_next. destruct RfinC0 as (_ & A & _). destruct (A x Hx) as [H|[]]. exact H. }
      eapply seq_conseq; [exact start_at|intros d Hd; exact Hd|].
      apply (seq_app R _ _ (at_ (cmk s (body ++ [lastm]) [] c0))); [exact Hseq|].
      apply (seq_app R _ _ (at_ (cmk s (fin ++ [lastm]) [] c0))).
      { pose proof (compact_loop key_of s G ttl Kc gone body lastm Esegs' HKc body [] eq_refl) as HL. cbn [app] in HL.
        change (done_of key_of s body lastm []) with (@nil mseg) in HL. cbn [app] in HL. exact HL. }
      change [FPoint PCleanCleaned; FEpochs cN] with ([FPoint PCleanCleaned] ++ [FEpochs cN]).
      apply (seq_app R _ _ (at_ (cmk s (fin ++ [lastm]) [] c0))); [apply seq_point_at; [apply cimage_main|exact RfinC0]|].
      eapply seq_conseq; [intros d Hd; exact Hd| |apply (seq_main R _ (MEpochs cN) _ (cmk s (fin ++ [lastm]) [] cN)); [apply cimage_main|reflexivity|apply meq_refl|exact RfinC0|exact RfinCN]].
      intros d Hd. exists (fin ++ [lastm]), cN. split; [exact Hd|]. split; [destruct fin; discriminate|]. split; [|split; [|split; [exact RfinCN|split; [exact Hfinsegs|]]]].
      3:{ unfold clean_cache, cN. rewrite Ecomp. destruct Htwo as (q1 & q2 & qt & Eq). rewrite Hs3, Eq. rewrite <- Eq. reflexivity. }
      + intros m Hm. apply in_app_or in Hm. destruct Hm as [Hm|[<-|[]]]; [|apply Hidx3; apply in_or_app; right; left; reflexivity].
        unfold fin, done_of in Hm. apply in_map_iff in Hm. destruct Hm as (m0 & <- & _). reflexivity.
      + rewrite last_last. replace (m_next lastm) with (next_of s) by (rewrite <- Hnext3, last_last; reflexivity).
        intros e st Hin. specialize (NB e st Hin). pose proof (next_after_le 0 _ (next_of s) ltac:(pose proof (base_le_next lastm ltac:(apply (subseq_incl _ _ Hsub3); apply in_or_app; right; left; reflexivity)); pose proof (WF_base_nonneg _ (m_seg lastm) (g_wf _ G) ltac:(apply in_map; apply (subseq_incl _ _ Hsub3); apply in_or_app; right; left; reflexivity)); unfold m_base in *; lia) Hcont_below). lia.
    - (* retention only *)
      set (fb := match s3 with [] => 0 | sg :: _ => s_base sg end).
      set (cE := cache_clear_earliest c0 fb).
      match goal with |- seq _ _ ?es _ => assert (Escript : es = dels ++ [FPoint PCleanCleaned] ++ [FEpochs cE]) end.
      { unfold cE, fb, c0. destruct (p_compact p); [|reflexivity]. destruct s3 as [|a [|b t]]; try reflexivity. destruct Hplain. }
      rewrite Escript. clear Escript.
      assert (Rr : R (cmk s rest3 [] c0)) by (apply csub_image; assumption).
      assert (Hfb : forall x, In x (concat (map m_recs rest3)) -> fb <= r_off x).
      { intros x Hx. unfold fb. rewrite <- M3. destruct rest3 as [|m0 rt]; [contradiction|]. cbn [map].
        apply in_concat in Hx. destruct Hx as (l & Hl & Hx). apply in_map_iff in Hl. destruct Hl as (m & <- & Hm).
        assert (Hw3 : WF (map m_seg (m0 :: rt))) by (apply (WF_subseq _ _ (subseq_map m_seg _ _ Hsub3)); apply (g_wf _ G)).
        pose proof (sorted_all_lt _ _ (WF_base_nonneg _ (m_seg m) Hw3 (in_map m_seg _ _ Hm)) (wf_sorted _ Hw3 _ (in_map m_seg _ _ Hm))) as HF.
        rewrite Forall_forall in HF. specialize (HF x Hx).
        destruct Hm as [<-|Hm]; [lia|]. cbn [map] in Hw3. destruct (wf_bases _ Hw3) as [_ B]. pose proof (bases_lt_all _ _ B (m_seg m) (in_map m_seg _ _ Hm)). lia. }
      assert (Hc0r : forall x, In x (concat (map m_recs rest3)) -> epoch_at c0 (r_off x) = r_ep x).
      { intros x Hx. apply (g_cmatch _ G). apply in_concat in Hx. destruct Hx as (l & Hl & Hx). apply in_map_iff in Hl. destruct Hl as (m & <- & Hm).
        unfold content. apply in_concat. exists (m_recs m). split; [apply in_map; apply (subseq_incl _ _ Hsub3); exact Hm|exact Hx]. }
      assert (RE : R (cmk s rest3 [] cE)).
      { apply (csub_image_c s G ttl Kc rest3 [] cE Hsub3 Hk3); [apply clear_earliest_sorted; apply (g_csorted _ G)|].
        apply (clear_earliest_match c0 fb _ (g_csorted _ G) Hc0r Hfb). }
      eapply seq_conseq; [exact start_at|intros d Hd; exact Hd|].
      apply (seq_app R _ _ (at_ (cmk s rest3 [] c0))); [exact Hseq|].
      apply (seq_app R _ _ (at_ (cmk s rest3 [] c0))); [apply seq_point_at; [apply cimage_main|exact Rr]|].
      eapply seq_conseq; [intros d Hd; exact Hd| |apply (seq_main R _ (MEpochs cE) _ (cmk s rest3 [] cE)); [apply cimage_main|reflexivity|apply meq_refl|exact Rr|exact RE]].
      intros d Hd. exists rest3, cE. split; [exact Hd|]. split; [exact Hne3|]. split; [exact Hidx3|]. split; [|split; [exact RE|split]].
      2:{ rewrite M3. unfold clean_target. destruct (p_compact p); [|reflexivity]. destruct s3 as [|a [|b t]]; try reflexivity. destruct Hplain. }
      2:{ unfold clean_cache, cE, fb, c0. destruct (p_compact p); [|reflexivity]. destruct s3 as [|a [|b t]]; try reflexivity. destruct Hplain. }
      rewrite Hnext3. apply clear_earliest_bound; [apply (g_csorted _ G)|apply (g_cbound _ G)|].
      unfold fb. rewrite <- M3. destruct rest3 as [|m0 rt]; [contradiction|]. cbn [map]. apply (base_le_next m0). apply (subseq_incl _ _ Hsub3). left. reflexivity.
  Qed.
End CleanOp.
