(* Crash safety of the partition log (property C05) on the crash model of Log/Disk.v:
   whatever prefix of an operation's file-system effects reached the disk, commitlog.New recovers
   a good log from it which holds what it must, nothing it must not, and an epoch history that
   matches. Part 1: the machinery, and append / AppendMessageSet / the small operations. *)
From LB Require Import Base.Prelude Log.Model Log.Retention Log.Compact Log.Proofs Log.Refine Log.Disk Log.DiskBase.
From Coq Require Import ZifyBool.
Open Scope Z_scope.

(* ------------------------------------------------------------------ prefixes of effect lists *)
Lemma run_effs_app d a b : run_effs d (a ++ b) = run_effs (run_effs d a) b.
Proof. unfold run_effs. apply fold_left_app. Qed.

Lemma firstn_app_cases {A} n (a b : list A) :
  firstn n (a ++ b) = firstn n a \/ exists k, firstn n (a ++ b) = a ++ firstn k b.
Proof.
  rewrite firstn_app. destruct (Nat.le_gt_cases n (length a)) as [H|H].
  - left. replace (n - length a)%nat with O by lia. cbn [firstn]. apply app_nil_r.
  - right. exists (n - length a)%nat. rewrite firstn_all2 by lia. reflexivity.
Qed.

(* "P holds before; R holds after every prefix; Q holds after the whole list" *)
Definition seq (R P : disk -> Prop) (es : list eff) (Q : disk -> Prop) : Prop :=
  forall d, P d -> (forall n, R (run_effs d (firstn n es))) /\ Q (run_effs d es).

Lemma seq_app (R P : disk -> Prop) a (Q : disk -> Prop) b (T : disk -> Prop) : seq R P a Q -> seq R Q b T -> seq R P (a ++ b) T.
Proof.
  intros Ha Hb d Hd. destruct (Ha d Hd) as [Ha1 Ha2]. destruct (Hb _ Ha2) as [Hb1 Hb2]. split.
  - intros n. destruct (firstn_app_cases n a b) as [->|[k ->]]; [apply Ha1|]. rewrite run_effs_app. apply Hb1.
  - rewrite run_effs_app. exact Hb2.
Qed.

Lemma seq_nil (R P : disk -> Prop) : (forall d, P d -> R d) -> seq R P [] P.
Proof. intros H d Hd. split; [intros n; destruct n; cbn; apply H; exact Hd|exact Hd]. Qed.

Lemma seq_one (R P Q : disk -> Prop) e : (forall d, P d -> R d) -> (forall d, P d -> Q (apply_eff d e)) -> (forall d, Q d -> R d) -> seq R P [e] Q.
Proof.
  intros HP He HQ d Hd. split; [|apply He; exact Hd].
  intros [|n]; [cbn; apply HP; exact Hd|]. cbn [firstn]. replace (firstn n []) with (@nil eff) by (destruct n; reflexivity).
  cbn. apply HQ, He. exact Hd.
Qed.

Lemma seq_conseq (R P P' Q Q' : disk -> Prop) es : (forall d, P' d -> P d) -> (forall d, Q d -> Q' d) -> seq R P es Q -> seq R P' es Q'.
Proof. intros HP HQ H d Hd. destruct (H d (HP d Hd)) as [H1 H2]. split; [exact H1|apply HQ; exact H2]. Qed.

(* a crash point changes nothing *)
Lemma seq_point (R P : disk -> Prop) p : (forall d, P d -> R d) -> seq R P [FPoint p] P.
Proof. intros H. apply seq_one; [exact H|intros d Hd; exact Hd|exact H]. Qed.

(* an invariant that every single effect of the list preserves *)
Lemma seq_each (R I : disk -> Prop) es : (forall d, I d -> R d) -> (forall e, In e es -> forall d, I d -> I (apply_eff d e)) -> seq R I es I.
Proof.
  intros HR. induction es as [|e t IH]; intros He; [apply seq_nil; exact HR|].
  change (e :: t) with ([e] ++ t). apply (seq_app R I [e] I t I).
  - apply seq_one; [exact HR|apply He; left; reflexivity|exact HR].
  - apply IH. intros e' Hin. apply He. right. exact Hin.
Qed.

Lemma seq_concat (R I : disk -> Prop) bs : (forall d, I d -> R d) -> (forall b, In b bs -> seq R I b I) -> seq R I (concat bs) I.
Proof.
  intros HR. induction bs as [|b t IH]; intros Hb; [apply seq_nil; exact HR|]. cbn [concat].
  apply (seq_app R I b I); [apply Hb; left; reflexivity|apply IH; intros b' Hin; apply Hb; right; exact Hin].
Qed.

(* ------------------------------------------------------------------ the segment list *)
Lemma seg_get_none_notin ms b : seg_get ms b = None <-> forall m, In m ms -> m_base m <> b.
Proof.
  induction ms as [|x t IH]; cbn [seg_get]; [split; [intros _ m []|reflexivity]|].
  destruct (Z.eqb_spec (m_base x) b) as [E|N].
  - split; [discriminate|]. intros H. exfalso. apply (H x (or_introl eq_refl)). exact E.
  - rewrite IH. split; [intros H m [<-|Hin]; [exact N|apply H; exact Hin]|intros H m Hin; apply H; right; exact Hin].
Qed.

Lemma seg_upd_last pre a f : (forall m, In m pre -> m_base m <> m_base a) -> seg_upd (pre ++ [a]) (m_base a) f = pre ++ [f a].
Proof.
  induction pre as [|x t IH]; intros H; cbn [app seg_upd].
  - rewrite Z.eqb_refl. reflexivity.
  - destruct (Z.eqb_spec (m_base x) (m_base a)) as [E|N]; [exfalso; apply (H x (or_introl eq_refl)); exact E|].
    f_equal. apply IH. intros m Hin. apply H. right. exact Hin.
Qed.

Lemma seg_get_last pre a : (forall m, In m pre -> m_base m <> m_base a) -> seg_get (pre ++ [a]) (m_base a) = Some a.
Proof.
  induction pre as [|x t IH]; intros H; cbn [app seg_get].
  - rewrite Z.eqb_refl. reflexivity.
  - destruct (Z.eqb_spec (m_base x) (m_base a)) as [E|N]; [exfalso; apply (H x (or_introl eq_refl)); exact E|].
    apply IH. intros m Hin. apply H. right. exact Hin.
Qed.

Lemma seg_ins_end ms n : (forall m, In m ms -> m_base m < m_base n) -> seg_ins ms n = ms ++ [n].
Proof.
  induction ms as [|x t IH]; intros H; cbn [seg_ins app]; [reflexivity|].
  specialize (H x (or_introl eq_refl)) as Hx. destruct (Z.ltb_spec (m_base n) (m_base x)); [lia|].
  f_equal. apply IH. intros m Hin. apply H. right. exact Hin.
Qed.

Lemma split_last {A} (l : list A) d : l <> [] -> l = removelast l ++ [last l d].
Proof. intros H. apply app_removelast_last. exact H. Qed.

(* bases of a well-formed list: everything before the last segment is below it *)
Lemma WF_pre_below pre a : WF (map m_seg (pre ++ [a])) -> forall m, In m pre -> m_base m < m_base a.
Proof.
  intros Hw m Hin. rewrite map_app in Hw. cbn [map] in Hw. destruct (bases_lt_app _ _ _ (wf_bases _ Hw)) as [_ H].
  apply (H (m_seg m) (m_seg a)); [apply in_map; exact Hin|left; reflexivity].
Qed.

(* extending the records of the last segment *)
Lemma WF_extend_last pre a rs : WF (pre ++ [a]) -> sorted_from (s_next a) rs ->
  WF (pre ++ [mkSeg (s_base a) (s_recs a ++ rs)]).
Proof.
  intros Hw Hs. pose proof (bases_lt_app _ _ _ (wf_bases _ Hw)) as [Hb1 Hb2].
  assert (H0 : 0 <= s_base a) by (apply (WF_base_nonneg _ a Hw); apply in_or_app; right; left; reflexivity).
  assert (Hsa : sorted_from (s_base a) (s_recs a)) by (apply (wf_sorted _ Hw); apply in_or_app; right; left; reflexivity).
  split.
  - pose proof (wf_bases _ Hw) as H. clear -H. revert H. generalize (-1). induction pre as [|x t IH]; intros lo H; cbn [app bases_lt] in *; [exact H|].
    destruct H as [H1 H2]. split; [exact H1|apply IH; exact H2].
  - intros s Hin. apply in_app_or in Hin. destruct Hin as [Hin|[<-|[]]]; [apply (wf_sorted _ Hw); apply in_or_app; left; exact Hin|].
    cbn [s_base s_recs]. apply sorted_app; [exact H0|]. split; [exact Hsa|]. rewrite <- s_next_eq. exact Hs.
  - intros s1 s2 H1 H2 Hlt x Hx. apply in_app_or in H1. apply in_app_or in H2.
    destruct H2 as [H2|[<-|[]]].
    + destruct H1 as [H1|[<-|[]]].
      * apply (wf_below _ Hw s1 s2); [apply in_or_app; left; exact H1|apply in_or_app; left; exact H2|exact Hlt|exact Hx].
      * cbn [s_base] in Hlt. specialize (Hb2 s2 a H2 (or_introl eq_refl)). lia.
    + cbn [s_base] in *. destruct H1 as [H1|[<-|[]]]; [|cbn [s_base] in Hlt; lia].
      apply (wf_below _ Hw s1 a); [apply in_or_app; left; exact H1|apply in_or_app; right; left; reflexivity|exact Hlt|exact Hx].
Qed.

Lemma bases_lt_snoc lo segs s : bases_lt lo segs -> lo < s_base s -> (forall x, In x segs -> s_base x < s_base s) -> bases_lt lo (segs ++ [s]).
Proof.
  revert lo. induction segs as [|x t IH]; intros lo H Hlo Hall; cbn [app bases_lt]; [split; [exact Hlo|exact I]|].
  destruct H as [H1 H2]. split; [exact H1|]. apply IH; [exact H2|apply Hall; left; reflexivity|intros y Hy; apply Hall; right; exact Hy].
Qed.

Lemma WF_add_empty segs nb : WF segs -> 0 <= nb -> (forall s, In s segs -> s_base s < nb /\ forall x, In x (s_recs s) -> r_off x < nb) ->
  WF (segs ++ [mkSeg nb []]).
Proof.
  intros Hw H0 Hn. split.
  - apply bases_lt_snoc; [apply (wf_bases _ Hw)|cbn [s_base]; lia|intros x Hx; cbn [s_base]; apply (Hn x Hx)].
  - intros s Hin. apply in_app_or in Hin. destruct Hin as [Hin|[<-|[]]]; [apply (wf_sorted _ Hw); exact Hin|exact I].
  - intros s1 s2 H1 H2 Hlt x Hx. apply in_app_or in H1. apply in_app_or in H2.
    destruct H1 as [H1|[<-|[]]]; [|destruct Hx].
    destruct H2 as [H2|[<-|[]]]; [apply (wf_below _ Hw s1 s2); assumption|]. cbn [s_base]. apply (Hn s1 H1). exact Hx.
Qed.

(* ------------------------------------------------------------------ statements *)
Definition next_of (s : st) : Z := m_next (d_active (s_disk s)).

Definition incoming (s : st) (o : dop) : list rec :=
  match o with
  | DAppend ms => number (next_of s) ms
  | DASet rs => rs
  | _ => []
  end.

(* prefixes of sorted / epoch-monotone runs *)
Lemma sorted_from_firstn lo rs n : sorted_from lo rs -> sorted_from lo (firstn n rs).
Proof.
  revert lo n. induction rs as [|r t IH]; intros lo n H; [destruct n; exact I|]. destruct n as [|n]; [exact I|].
  destruct H as [H1 H2]. cbn [firstn sorted_from]. split; [exact H1|apply IH; exact H2].
Qed.

Lemma ep_mono_firstn lo rs n : ep_mono lo rs -> ep_mono lo (firstn n rs).
Proof.
  revert lo n. induction rs as [|r t IH]; intros lo n H; [destruct n; exact I|]. destruct n as [|n]; [exact I|].
  destruct H as [H1 H2]. cbn [firstn ep_mono]. split; [exact H1|apply IH; exact H2].
Qed.

Definition with_ep (d : disk) (c : epoch_cache) : disk := mkDisk (d_segs d) (d_orph d) (d_scr d) (d_hw d) c.

Lemma with_ep_same d : with_ep d (d_ep d) = d.
Proof. destruct d; reflexivity. Qed.

Lemma with_ep_twice d c c' : with_ep (with_ep d c) c' = with_ep d c'.
Proof. reflexivity. Qed.

(* the flushes of the epoch checkpoint during an append: each prefix leaves the cache assigned up to
   some record of the batch *)
Lemma epoch_effs_run rs : forall c d, d_ep d = c ->
  (forall n, exists i, run_effs d (firstn n (epoch_effs c rs)) = with_ep d (cache_assign_all c (firstn i rs))) /\
  run_effs d (epoch_effs c rs) = with_ep d (cache_assign_all c rs).
Proof.
  induction rs as [|r t IH]; intros c d Hc.
  - cbn [epoch_effs]. split; [intros n; exists O; destruct n; cbn; rewrite <- Hc; symmetry; apply with_ep_same|].
    cbn. rewrite <- Hc. symmetry. apply with_ep_same.
  - cbn [epoch_effs]. set (c1 := cache_assign c (r_ep r) (r_off r)).
    assert (Hall : forall u, cache_assign_all c (r :: u) = cache_assign_all c1 u) by reflexivity.
    destruct ((cache_latest_epoch c <? r_ep r)%N && (cache_latest_off c <=? r_off r)) eqn:E.
    + specialize (IH c1 (with_ep d c1) eq_refl). destruct IH as [IH1 IH2]. split.
      * intros [|n]; [exists O; cbn; rewrite <- Hc; symmetry; apply with_ep_same|].
        cbn [app firstn]. change (run_effs d (FEpochs c1 :: firstn n (epoch_effs c1 t))) with (run_effs (with_ep d c1) (firstn n (epoch_effs c1 t))).
        destruct (IH1 n) as (i & Hi). exists (S i). rewrite Hi. cbn [firstn]. rewrite Hall. reflexivity.
      * cbn [app]. change (run_effs d (FEpochs c1 :: epoch_effs c1 t)) with (run_effs (with_ep d c1) (epoch_effs c1 t)).
        rewrite IH2, Hall. reflexivity.
    + assert (Ec : c1 = c) by (unfold c1; rewrite assign_spec, E; reflexivity).
      cbn [app]. rewrite Ec in *. specialize (IH c d Hc). destruct IH as [IH1 IH2]. split.
      * intros n. destruct (IH1 n) as (i & Hi). exists (S i). rewrite Hi. cbn [firstn]. rewrite Hall. reflexivity.
      * rewrite IH2, Hall. reflexivity.
Qed.

Section Ops.
  Variable key_of : bytes -> option bytes.
  Variable p : params.
  Hypothesis maxb_pos : 0 < p_maxb p.

  (* what the recovered log is allowed to be, in terms of the crash image d *)
  Definition Image (s : st) (o : dop) (keep : rec -> Prop) (d : disk) : Prop :=
    Mid (s_hw s) d /\
    (forall x, In x (content d) -> In x (content (s_disk s)) \/ In x (incoming s o)) /\
    (forall x, In x (content (s_disk s)) -> keep x -> In x (content d)).

  Lemma good_mid s : Good s -> Mid (s_hw s) (s_disk s).
  Proof.
    intros G. split; [|apply (g_wf _ G)|apply (g_csorted _ G)|apply (g_cmatch _ G)|apply (g_hw _ G)].
    intros m Hin. left. unfold m_fi. rewrite (g_idx _ G m Hin). reflexivity.
  Qed.

  Lemma good_image s o keep : Good s -> Image s o keep (s_disk s).
  Proof. intros G. split; [apply good_mid; exact G|]. split; [intros x Hx; left; exact Hx|intros x Hx _; exact Hx]. Qed.

  (* facts about a good state *)
  Lemma good_active s : Good s -> exists pre a, d_segs (s_disk s) = pre ++ [a] /\ d_active (s_disk s) = a /\
    m_idx a = Some (m_recs a) /\ next_of s = s_next (m_seg a) /\ 0 <= m_base a /\
    (forall m, In m pre -> m_base m < m_base a) /\
    (forall x, In x (content (s_disk s)) -> r_off x < s_next (m_seg a)).
  Proof.
    intros G. destruct (exists_last (g_ne _ G)) as (pre & a & E). exists pre, a.
    assert (Ha : d_active (s_disk s) = a) by (unfold d_active; rewrite E; apply last_last).
    assert (Hin : In a (d_segs (s_disk s))) by (rewrite E; apply in_or_app; right; left; reflexivity).
    pose proof (g_wf _ G) as Hw. unfold segs_of in Hw.
    assert (H0 : 0 <= m_base a) by (apply (WF_base_nonneg _ (m_seg a) Hw); apply in_map; exact Hin).
    split; [exact E|]. split; [exact Ha|]. split; [apply (g_idx _ G); exact Hin|]. split.
    - unfold next_of. rewrite Ha. apply m_next_consistent; [apply (g_idx _ G); exact Hin|exact H0|apply (wf_sorted _ Hw (m_seg a)); apply in_map; exact Hin].
    - split; [exact H0|]. split.
      + rewrite E in Hw. apply (WF_pre_below pre a Hw).
      + intros x Hx. rewrite content_flat in Hx. unfold segs_of in Hx. rewrite E in Hx, Hw. rewrite map_app in Hx, Hw. cbn [map] in Hx, Hw.
        apply (WF_all_below_next _ _ Hw x Hx).
  Qed.

  (* ---- rolling a segment ---- *)
  (* the segments after checkAndPerformSplit, as the in-memory model (Log.Model.check_split) has them *)
  Definition split_segs (segs : list seg) : list seg :=
    match rev segs with
    | [] => segs
    | a :: _ => if p_maxb p <=? s_pos a then segs ++ [mkSeg (s_next a) []] else segs
    end.

  Definition rolled (s : st) (d1 : disk) : Prop :=
    Good (mkSt d1 (s_hw s)) /\ content d1 = content (s_disk s) /\ d_ep d1 = d_ep (s_disk s) /\
    m_next (d_active d1) = next_of s /\ d_hw d1 = d_hw (s_disk s) /\
    segs_of d1 = split_segs (segs_of (s_disk s)).

  Lemma content_snoc_empty pre b i : concat (map m_recs (pre ++ [mkM (mkSeg b []) i])) = concat (map m_recs pre).
  Proof. rewrite map_app, concat_app. cbn. apply app_nil_r. Qed.

  Lemma split_seq s o keep : Good s -> exists sp, split_effs (p_maxb p) (s_disk s) = Some sp /\
    seq (Image s o keep) (fun d => d = s_disk s) sp (rolled s).
  Proof.
    intros G. destruct (good_active s G) as (pre & a & E & Ha & Hidx & Hnx & H0 & Hpre & Hbelow).
    assert (Hsplit_form : split_segs (segs_of (s_disk s)) =
              if p_maxb p <=? m_pos a then segs_of (s_disk s) ++ [mkSeg (m_next a) []] else segs_of (s_disk s)).
    { unfold split_segs, segs_of. rewrite E, map_app, rev_app_distr. cbn [map rev app]. rewrite s_pos_fsize.
      unfold next_of in Hnx. rewrite Ha in Hnx. rewrite Hnx. reflexivity. }
    unfold split_effs. rewrite Ha. destruct (Z.leb_spec (p_maxb p) (m_pos a)) as [Hfull|Hroom].
    2:{ assert (Hrolled0 : rolled s (s_disk s)).
        { split; [destruct s; exact G|]. repeat split; try reflexivity. rewrite Hsplit_form. destruct (Z.leb_spec (p_maxb p) (m_pos a)); [lia|reflexivity]. }
        exists []. split; [reflexivity|]. apply (seq_conseq (Image s o keep) (fun d => d = s_disk s) _ (fun d => d = s_disk s) _ []);
          [auto|intros d ->; exact Hrolled0|apply seq_nil; intros d ->; apply good_image; exact G]. }
    assert (Hsplit_full : split_segs (segs_of (s_disk s)) = segs_of (s_disk s) ++ [mkSeg (m_next a) []]).
    { rewrite Hsplit_form. destruct (Z.leb_spec (p_maxb p) (m_pos a)); [reflexivity|lia]. }
    pose proof (g_wf _ G) as Hw. unfold segs_of in Hw.
    assert (Hina : In a (d_segs (s_disk s))) by (rewrite E; apply in_or_app; right; left; reflexivity).
    assert (Hsa : sorted_from (m_base a) (m_recs a)) by (apply (wf_sorted _ Hw (m_seg a)); apply in_map; exact Hina).
    assert (Hne : m_recs a <> []).
    { intros En. unfold m_pos in Hfull. rewrite En in Hfull. cbn in Hfull. lia. }
    set (nb := m_next a). assert (Hnb : nb = s_next (m_seg a)) by (unfold nb; rewrite <- Hnx; unfold next_of; rewrite Ha; reflexivity).
    assert (Hgt : m_base a < nb).
    { rewrite Hnb. unfold s_next, s_last. fold (m_recs a). fold (m_base a).
      destruct (last_off_in (m_recs a) Hne) as (x & Hx & Hoff).
      pose proof (seg_all_lt_next (m_seg a) H0 Hsa) as HF. rewrite Forall_forall in HF. specialize (HF x Hx). fold (m_base a) in HF.
      destruct (Z.eqb_spec (last_off_of (m_recs a)) (-1)); lia. }
    assert (Hall : forall m, In m (d_segs (s_disk s)) -> m_base m < nb).
    { intros m Hin. rewrite E in Hin. apply in_app_or in Hin. destruct Hin as [Hin|[<-|[]]]; [specialize (Hpre m Hin); lia|exact Hgt]. }
    assert (Hget : seg_get (d_segs (s_disk s)) nb = None).
    { apply seg_get_none_notin. intros m Hin. specialize (Hall m Hin). lia. }
    rewrite Hget. eexists. split; [reflexivity|].
    set (d0 := s_disk s) in *.
    set (n0 := mkM (mkSeg nb []) None). set (n1 := mkM (mkSeg nb []) (Some [])).
    set (dA := with_main d0 (d_segs d0 ++ [n0]) []). set (dB := with_main d0 (d_segs d0 ++ [n1]) []).
    assert (HwN : forall i, WF (map m_seg (d_segs d0 ++ [mkM (mkSeg nb []) i]))).
    { intros i. rewrite map_app. cbn [map m_seg]. apply WF_add_empty; [exact Hw|lia|].
      intros sg Hin. apply in_map_iff in Hin. destruct Hin as (m & <- & Hm). split; [apply Hall; exact Hm|].
      intros x Hx. rewrite Hnb. apply Hbelow. rewrite content_flat. apply in_flat. exists (m_seg m). split; [apply in_map; exact Hm|exact Hx]. }
    assert (HimgN : forall i, (i = None \/ i = Some []) -> Image s o keep (with_main d0 (d_segs d0 ++ [mkM (mkSeg nb []) i]) [])).
    { intros i Hi. assert (Hc : content (with_main d0 (d_segs d0 ++ [mkM (mkSeg nb []) i]) []) = content d0) by (unfold content; cbn [d_segs with_main]; apply content_snoc_empty).
      split; [|rewrite Hc; split; [intros x Hx; left; exact Hx|intros x Hx _; exact Hx]].
      split; cbn [d_segs with_main d_ep d_hw].
      - intros m Hin. apply in_app_or in Hin. destruct Hin as [Hin|[<-|[]]]; [left; unfold m_fi; rewrite (g_idx _ G m Hin); reflexivity|].
        left. destruct Hi as [->| ->]; reflexivity.
      - apply HwN.
      - apply (g_csorted _ G).
      - rewrite Hc. apply (g_cmatch _ G).
      - apply (g_hw _ G). }
    assert (Ea : apply_eff d0 (FCreateLog (TMain nb)) = dA).
    { assert (Ho : d_orph d0 = []) by apply (g_orph _ G).
      cbn [apply_eff mapply]. rewrite Hget, Ho. cbn [orph_get orph_del filter].
      rewrite seg_ins_end by (intros m Hin; cbn; apply Hall; exact Hin). reflexivity. }
    assert (Eb : apply_eff dA (FCreateIdx (TMain nb)) = dB).
    { assert (Hs : d_segs dA = d_segs d0 ++ [n0]) by reflexivity.
      cbn [apply_eff mapply]. rewrite Hs. change nb with (m_base n0).
      rewrite seg_get_last, seg_upd_last by (intros m Hin Heq; specialize (Hall m Hin); cbn in Heq; lia).
      reflexivity. }
    change [FCreateLog (TMain nb); FPoint PSegLogCreated; FCreateIdx (TMain nb); FPoint PSplitCreated]
      with ([FCreateLog (TMain nb)] ++ [FPoint PSegLogCreated] ++ [FCreateIdx (TMain nb)] ++ [FPoint PSplitCreated]).
    apply (seq_app _ _ _ (fun d => d = dA)).
    { apply seq_one; [intros d ->; apply good_image; exact G|intros d ->; exact Ea|intros d ->; apply HimgN; left; reflexivity]. }
    apply (seq_app _ _ _ (fun d => d = dA)); [apply seq_point; intros d ->; apply HimgN; left; reflexivity|].
    apply (seq_app _ _ _ (fun d => d = dB)).
    { apply seq_one; [intros d ->; apply HimgN; left; reflexivity|intros d ->; exact Eb|intros d ->; apply HimgN; right; reflexivity]. }
    apply (seq_conseq (Image s o keep) (fun d => d = dB) _ (fun d => d = dB) _); [auto| |apply seq_point; intros d ->; apply HimgN; right; reflexivity].
    intros d ->. unfold rolled.
    assert (Hact : d_active dB = n1) by (unfold d_active, dB; cbn [d_segs with_main]; apply last_last).
    split; [|split; [unfold content, dB; cbn [d_segs with_main]; apply content_snoc_empty|split; [reflexivity|split; [rewrite Hact; unfold next_of; fold d0; rewrite Ha; reflexivity|split; [reflexivity|]]]]].
    2:{ change (segs_of dB = split_segs (segs_of d0)). rewrite Hsplit_full. unfold segs_of, dB. cbn [d_segs with_main]. rewrite map_app. reflexivity. }
    split; cbn [s_disk s_hw]; unfold dB; cbn [d_segs with_main d_orph d_ep d_hw].
    - destruct (d_segs d0); discriminate.
    - apply HwN.
    - intros m Hin. apply in_app_or in Hin. destruct Hin as [Hin|[<-|[]]]; [apply (g_idx _ G m Hin)|reflexivity].
    - reflexivity.
    - apply (g_csorted _ G).
    - fold dB. rewrite Hact. change (m_next n1) with nb. unfold nb. intros e st Hin. pose proof (g_cbound _ G e st Hin) as Hb. fold d0 in Hb. rewrite Ha in Hb. exact Hb.
    - assert (Hc : content (with_main d0 (d_segs d0 ++ [n1]) []) = content d0) by (unfold content; cbn [d_segs with_main]; apply content_snoc_empty).
      fold dB in Hc. fold dB. rewrite Hc. apply (g_cmatch _ G).
    - apply (g_hw _ G).
  Qed.

  (* ---- writing a batch into the active segment ---- *)
  Lemma last_off_app_ne a b : b <> [] -> last_off_of (a ++ b) = last_off_of b.
  Proof.
    intros Hne. destruct (exists_last Hne) as (l & x & ->). rewrite app_assoc, !last_off_snoc. reflexivity.
  Qed.

  Lemma content_extend_last pre a b i rs :
    concat (map m_recs (pre ++ [mkM (mkSeg b (m_recs a ++ rs)) i])) = concat (map m_recs (pre ++ [a])) ++ rs.
  Proof. rewrite !map_app, !concat_app. cbn [map concat m_recs m_seg s_recs]. rewrite !app_nil_r, app_assoc. reflexivity. Qed.

  Lemma fsize_pos_ne rs : rs <> [] -> 0 < fsize rs.
  Proof. intros Hne. pose proof (fsize_nonneg rs). destruct (Z.eq_dec (fsize rs) 0) as [E|N]; [apply fsize_zero in E; contradiction|lia]. Qed.

  Lemma upd_last_snoc {A} (f : A -> A) l x : upd_last f (l ++ [x]) = l ++ [f x].
  Proof.
    induction l as [|y t IH]; [reflexivity|]. cbn [app]. destruct (t ++ [x]) as [|z u] eqn:E; [destruct t; discriminate|].
    change (upd_last f (y :: z :: u)) with (y :: upd_last f (z :: u)). rewrite IH. reflexivity.
  Qed.

  (* the segments and the cache after a write, as the in-memory model (Log.Model.write) has them *)
  Definition written (d1 : disk) (rs : list rec) (d : disk) : Prop :=
    segs_of d = upd_last (fun a => mkSeg (s_base a) (s_recs a ++ rs)) (segs_of d1) /\
    d_ep d = cache_assign_all (d_ep d1) rs /\ d_hw d = d_hw d1.

  Lemma write_seq H d1 rs (R : disk -> Prop) :
    Good (mkSt d1 H) -> rs <> [] -> sorted_from (m_next (d_active d1)) rs -> ep_mono (cache_latest_epoch (d_ep d1)) rs ->
    (forall d, Mid H d -> (content d = content d1 \/ content d = content d1 ++ rs) -> R d) ->
    seq R (fun d => d = d1) (write_effs fixed (d_ep d1) (m_base (d_active d1)) rs)
        (fun d => Good (mkSt d H) /\ content d = content d1 ++ rs /\ written d1 rs d).
  Proof.
    intros G Hne Hsort Hmono HR.
    destruct (good_active _ G) as (pre & a & E & Ha & Hidx & Hnx & H0 & Hpre & Hbelow). cbn [s_disk] in *.
    unfold next_of in Hnx. cbn [s_disk] in Hnx. rewrite Ha in *. set (nx := s_next (m_seg a)) in *. rewrite Hnx in Hsort.
    set (c0 := d_ep d1) in *.
    pose proof (g_wf _ G) as Hw. unfold segs_of in Hw. cbn [s_disk] in Hw.
    assert (Hina : In a (d_segs d1)) by (rewrite E; apply in_or_app; right; left; reflexivity).
    assert (Hsa : sorted_from (m_base a) (m_recs a)) by (apply (wf_sorted _ Hw (m_seg a)); apply in_map; exact Hina).
    assert (Hnx0 : 0 <= nx) by (pose proof (s_next_ge (m_seg a) H0 Hsa); fold (m_base a) in *; lia).
    assert (Hcb : cbound c0 nx) by (intros e st Hin; pose proof (g_cbound _ G e st Hin) as Hb; cbn [s_disk] in Hb; rewrite Ha, Hnx in Hb; exact Hb).
    assert (Hpref : forall i, let ci := cache_assign_all c0 (firstn i rs) in csorted ci /\ cmatch ci (content d1)).
    { intros i. destruct (assign_all_ok (firstn i rs) c0 (content d1) nx Hnx0 (g_csorted _ G) Hcb (g_cmatch _ G) Hbelow
        (sorted_from_firstn _ _ _ Hsort) (ep_mono_firstn _ _ _ Hmono)) as (A & _ & C & _).
      split; [exact A|]. intros x Hx. apply C. apply in_or_app. left. exact Hx. }
    destruct (assign_all_ok rs c0 (content d1) nx Hnx0 (g_csorted _ G) Hcb (g_cmatch _ G) Hbelow Hsort Hmono) as (FA & FB & FC & _).
    set (cF := cache_assign_all c0 rs) in *.
    assert (Hmid_ep : forall c, csorted c -> cmatch c (content d1) -> Mid H (with_ep d1 c)).
    { intros c Hc1 Hc2. split; cbn [with_ep d_segs d_ep d_hw].
      - intros m Hin. left. unfold m_fi. rewrite (g_idx _ G m Hin). reflexivity.
      - exact Hw.
      - exact Hc1.
      - exact Hc2.
      - apply (g_hw _ G). }
    change (write_effs fixed c0 (m_base a) rs) with
      (epoch_effs c0 rs ++ [FPoint PEpochsAssigned] ++ [FAppendLog (TMain (m_base a)) rs] ++ [FPoint PLogWritten] ++ [FAppendIdx (TMain (m_base a)) rs] ++ [FPoint PIndexWritten]).
    set (dE := with_ep d1 cF).
    set (aL := mkM (mkSeg (m_base a) (m_recs a ++ rs)) (m_idx a)).
    set (aI := mkM (mkSeg (m_base a) (m_recs a ++ rs)) (Some (m_recs a ++ rs))).
    set (dL := set_segs dE (pre ++ [aL])). set (dI := set_segs dE (pre ++ [aI])).
    assert (Hprene : forall m, In m pre -> m_base m <> m_base a) by (intros m Hin; specialize (Hpre m Hin); lia).
    assert (EL : apply_eff dE (FAppendLog (TMain (m_base a)) rs) = dL).
    { cbn [apply_eff mapply]. change (d_segs dE) with (d_segs d1). rewrite E, seg_upd_last by exact Hprene. reflexivity. }
    assert (EI : apply_eff dL (FAppendIdx (TMain (m_base a)) rs) = dI).
    { cbn [apply_eff mapply]. change (d_segs dL) with (pre ++ [aL]). change (m_base a) with (m_base aL) at 1.
      rewrite seg_upd_last by exact Hprene. unfold dI, dL, aI. cbn [set_segs d_segs d_orph d_scr d_hw d_ep m_seg m_idx aL]. rewrite Hidx. reflexivity. }
    assert (HwX : forall i, WF (map m_seg (pre ++ [mkM (mkSeg (m_base a) (m_recs a ++ rs)) i]))).
    { intros i. rewrite map_app. cbn [map m_seg]. rewrite E, map_app in Hw. cbn [map] in Hw. apply (WF_extend_last (map m_seg pre) (m_seg a) rs Hw). exact Hsort. }
    assert (HcX : forall i, content (set_segs dE (pre ++ [mkM (mkSeg (m_base a) (m_recs a ++ rs)) i])) = content d1 ++ rs).
    { intros i. unfold content at 1 2. cbn [set_segs d_segs]. rewrite E. apply content_extend_last. }
    assert (HmidL : Mid H dL).
    { split; unfold dL; cbn [set_segs d_segs d_ep d_hw dE with_ep].
      - intros m Hin. apply in_app_or in Hin. destruct Hin as [Hin|[<-|[]]].
        + left. unfold m_fi. rewrite (g_idx _ G m ltac:(cbn [s_disk]; rewrite E; apply in_or_app; left; exact Hin)). reflexivity.
        + right. unfold m_fi, aL. cbn [m_idx m_recs m_seg s_recs]. rewrite Hidx. rewrite fsize_app. pose proof (fsize_pos_ne rs Hne). lia.
      - apply HwX.
      - exact FA.
      - fold dE. fold dL. unfold dL, aL. rewrite HcX. exact FC.
      - apply (g_hw _ G). }
    assert (HgoodI : Good (mkSt dI H)).
    { assert (Hact : d_active dI = aI) by (unfold d_active, dI; cbn [set_segs d_segs]; apply last_last).
      split; cbn [s_disk s_hw]; unfold dI; cbn [set_segs d_segs d_orph d_ep d_hw dE with_ep].
      - destruct pre; discriminate.
      - apply HwX.
      - intros m Hin. apply in_app_or in Hin. destruct Hin as [Hin|[<-|[]]]; [|reflexivity].
        apply (g_idx _ G m). cbn [s_disk]. rewrite E. apply in_or_app. left. exact Hin.
      - apply (g_orph _ G).
      - exact FA.
      - fold dE. fold dI. rewrite Hact.
        assert (En : m_next aI = next_after nx rs).
        { rewrite m_next_consistent; [|reflexivity|exact H0|].
          - unfold s_next, s_last, aI. cbn [m_seg s_recs s_base]. rewrite last_off_app_ne by exact Hne. unfold next_after.
            destruct (last_off_in rs Hne) as (x & Hx & Hoff).
            pose proof (sorted_all_lt nx rs Hnx0 Hsort) as HF. rewrite Forall_forall in HF. specialize (HF x Hx).
            destruct (Z.eqb_spec (last_off_of rs) (-1)); [lia|reflexivity].
          - unfold aI. cbn [m_base m_recs m_seg s_base s_recs]. apply sorted_app; [exact H0|]. split; [exact Hsa|].
            change (next_after (m_base a) (m_recs a)) with (next_after (s_base (m_seg a)) (s_recs (m_seg a))). rewrite <- s_next_eq. exact Hsort. }
        rewrite En. exact FB.
      - fold dE. fold dI. unfold dI, aI. rewrite HcX. exact FC.
      - apply (g_hw _ G). }
    apply (seq_app R _ _ (fun d => d = dE)).
    { intros d ->. destruct (epoch_effs_run rs c0 d1 eq_refl) as [P1 P2]. split; [|rewrite P2; reflexivity].
      intros n. destruct (P1 n) as (i & ->). destruct (Hpref i) as [A B]. apply HR; [apply Hmid_ep; assumption|left; reflexivity]. }
    assert (HRE : R dE) by (apply HR; [apply Hmid_ep; [exact FA|intros x Hx; apply FC; apply in_or_app; left; exact Hx]|left; reflexivity]).
    assert (HRL : R dL) by (apply HR; [exact HmidL|right; unfold dL, aL; apply HcX]).
    assert (HRI : R dI) by (apply HR; [apply (good_mid _ HgoodI)|right; unfold dI, aI; apply HcX]).
    apply (seq_app R _ _ (fun d => d = dE)); [apply seq_point; intros d ->; exact HRE|].
    apply (seq_app R _ _ (fun d => d = dL)); [apply seq_one; [intros d ->; exact HRE|intros d ->; exact EL|intros d ->; exact HRL]|].
    apply (seq_app R _ _ (fun d => d = dL)); [apply seq_point; intros d ->; exact HRL|].
    apply (seq_app R _ _ (fun d => d = dI)); [apply seq_one; [intros d ->; exact HRL|intros d ->; exact EI|intros d ->; exact HRI]|].
    apply (seq_conseq R (fun d => d = dI) _ (fun d => d = dI) _); [auto| |apply seq_point; intros d ->; exact HRI].
    intros d ->. split; [exact HgoodI|split; [unfold dI, aI; apply HcX|]].
    unfold written, segs_of, dI. cbn [set_segs d_segs d_ep d_hw dE with_ep]. rewrite E, !map_app. cbn [map].
    rewrite upd_last_snoc. repeat split; reflexivity.
  Qed.

  (* ---- the operations, one by one ---- *)
  Lemma seq_post_eq (R : disk -> Prop) d0 es (Q : disk -> Prop) :
    seq R (fun d => d = d0) es Q -> seq R (fun d => d = d0) es (fun d => d = run_effs d0 es) /\ Q (run_effs d0 es).
  Proof.
    intros H. destruct (H d0 eq_refl) as [H1 H2]. split; [|exact H2]. intros d ->. split; [exact H1|reflexivity].
  Qed.

  Definition appended (s : st) (rs : list rec) (d : disk) : Prop :=
    Good (mkSt d (s_hw s)) /\ content d = content (s_disk s) ++ rs /\
    segs_of d = upd_last (fun a => mkSeg (s_base a) (s_recs a ++ rs)) (split_segs (segs_of (s_disk s))) /\
    d_ep d = cache_assign_all (d_ep (s_disk s)) rs /\ d_hw d = d_hw (s_disk s).

  Lemma write_op_seq s o rs keep : Good s -> incoming s o = rs -> rs <> [] ->
    sorted_from (next_of s) rs -> ep_mono (cache_latest_epoch (d_ep (s_disk s))) rs ->
    exists sp, split_effs (p_maxb p) (s_disk s) = Some sp /\
      let d1 := run_effs (s_disk s) sp in
      m_next (d_active d1) = next_of s /\
      seq (Image s o keep) (fun d => d = s_disk s) (sp ++ write_effs fixed (d_ep (s_disk s)) (m_base (d_active d1)) rs) (appended s rs).
  Proof.
    intros G Hinc Hne Hsort Hmono. destruct (split_seq s o keep G) as (sp & Esp & Hseq). exists sp. split; [exact Esp|]. cbn zeta.
    destruct (seq_post_eq _ _ _ _ Hseq) as [Hseq' Hroll]. set (d1 := run_effs (s_disk s) sp) in *.
    destruct Hroll as (G1 & Hc1 & Hep1 & Hnx1 & Hhw1 & Hsg1). split; [exact Hnx1|].
    apply (seq_app _ _ _ (fun d => d = d1)); [exact Hseq'|]. rewrite <- Hep1.
    apply (seq_conseq (Image s o keep) (fun d => d = d1) _ (fun d => Good (mkSt d (s_hw s)) /\ content d = content d1 ++ rs /\ written d1 rs d) _); [auto| |].
    - intros d (A & B & (W1 & W2 & W3)). split; [exact A|split; [rewrite B, Hc1; reflexivity|]].
      split; [rewrite W1, Hsg1; reflexivity|split; [rewrite W2, Hep1; reflexivity|rewrite W3; exact Hhw1]].
    - apply (write_seq (s_hw s) d1 rs); [exact G1|exact Hne|rewrite Hnx1; exact Hsort|rewrite Hep1; exact Hmono|].
      intros d Hm Hc. split; [exact Hm|]. rewrite Hc1 in Hc. split.
      + intros x Hx. destruct Hc as [Hc|Hc]; rewrite Hc in Hx; [left; exact Hx|]. apply in_app_or in Hx. rewrite Hinc. exact Hx.
      + intros x Hx _. destruct Hc as [Hc|Hc]; rewrite Hc; [exact Hx|apply in_or_app; left; exact Hx].
  Qed.

  (* the small operations *)
  Lemma number_ne n ms : ms <> [] -> number n ms <> [].
  Proof. destruct ms; [contradiction|discriminate]. Qed.

  Definition with_hw (d : disk) (h : Z) : disk := mkDisk (d_segs d) (d_orph d) (d_scr d) h (d_ep d).

  Lemma good_with_hw s h : Good s -> h <= s_hw s -> Good (mkSt (with_hw (s_disk s) h) (s_hw s)).
  Proof.
    intros G Hh. split; cbn [s_disk s_hw with_hw d_segs d_orph d_ep d_hw]; try apply G. exact Hh.
  Qed.

  Lemma checkpoint_seq s o keep : Good s ->
    seq (Image s o keep) (fun d => d = s_disk s) [FHw (s_hw s)] (fun d => d = with_hw (s_disk s) (s_hw s)).
  Proof.
    intros G. apply seq_one; [intros d ->; apply good_image; exact G|intros d ->; reflexivity|].
    intros d ->. pose proof (good_with_hw s (s_hw s) G ltac:(lia)) as G'.
    pose proof (good_image _ o keep G') as (A & B & C). split; [exact A|split; [exact B|exact C]].
  Qed.

  Lemma epoch_seq s o keep e : Good s ->
    let c := d_ep (s_disk s) in
    seq (Image s o keep) (fun d => d = s_disk s)
        (if (cache_latest_epoch c <? e)%N && (cache_latest_off c <=? next_of s) then [FEpochs (cache_assign c e (next_of s))] else [])
        (fun d => d = with_ep (s_disk s) (cache_assign c e (next_of s)) /\ Good (mkSt d (s_hw s))).
  Proof.
    intros G c.
    destruct (good_active s G) as (pre & a & E & Ha & Hidx & Hnx & H0 & Hpre & Hbelow).
    assert (G' : Good (mkSt (with_ep (s_disk s) (cache_assign c e (next_of s))) (s_hw s))).
    { split; cbn [s_disk s_hw with_ep d_segs d_orph d_ep d_hw]; try apply G.
      - apply assign_sorted. apply (g_csorted _ G).
      - change (d_active (with_ep (s_disk s) (cache_assign c e (next_of s)))) with (d_active (s_disk s)). fold (next_of s).
        intros e' s' Hin. rewrite assign_spec in Hin. destruct ((cache_latest_epoch c <? e)%N && (cache_latest_off c <=? next_of s)).
        + apply in_app_or in Hin. destruct Hin as [Hin|[[= <- <-]|[]]]; [apply (g_cbound _ G e' s' Hin)|lia].
        + apply (g_cbound _ G e' s' Hin).
      - change (content (with_ep (s_disk s) (cache_assign c e (next_of s)))) with (content (s_disk s)).
        apply (assign_keeps_old c e (next_of s) (content (s_disk s)) (next_of s)); [apply (g_cmatch _ G)|rewrite Hnx; exact Hbelow|lia]. }
    destruct ((cache_latest_epoch c <? e)%N && (cache_latest_off c <=? next_of s)) eqn:Ec.
    - apply seq_one; [intros d ->; apply good_image; exact G|intros d ->; split; [reflexivity|exact G']|].
      intros d [-> _]. pose proof (good_image _ o keep G') as (A & B & C). split; [exact A|split; [exact B|exact C]].
    - apply (seq_conseq (Image s o keep) (fun d => d = s_disk s) _ (fun d => d = s_disk s) _); [auto| |apply seq_nil; intros d ->; apply good_image; exact G].
      intros d ->. assert (En : cache_assign c e (next_of s) = c) by (rewrite assign_spec, Ec; reflexivity).
      rewrite En in *. unfold c. rewrite with_ep_same in *. split; [reflexivity|destruct s; exact G].
  Qed.
End Ops.
