(* Crash model, part 3: commitlog.New as a sequence of file-system effects, so that a crash INSIDE the
   recovery is a prefix of them as well.

   commitLog.open walks the directory in name order ("<b>.index" sorts before "<b>.log"): an index
   file without a log file is removed; a log file is opened as a segment (segment.setupIndex: the
   index file is created when it is missing; when it does not end where the log ends it is removed,
   created again and written entry by entry from the frames of the log); an empty directory gets
   segment 0. commitlog.New then trims the leader-epoch checkpoint (ClearLatest, ClearEarliest: one
   atomic checkpoint replace each, when they change anything). The .cleaned/.truncated files and the
   HW checkpoint are only read. `recover_effs d` lists these effects for directory d, interleaved with
   the crash points of the `verif` build; DiskCheck compares, for every crash image it sees, the
   directory they produce with `recover fixed d`. *)
From LB Require Import Base.Prelude Log.Model Log.Retention Log.Compact Api.Range Log.Check Log.Disk.
Open Scope Z_scope.

Inductive ritem := ROrph (b : Z) | RSeg (m : mseg).
Definition ritem_base (x : ritem) : Z := match x with ROrph b => b | RSeg m => m_base m end.

Fixpoint ritem_ins (x : ritem) (l : list ritem) : list ritem :=
  match l with
  | [] => [x]
  | y :: r => if ritem_base x <? ritem_base y then x :: l else y :: ritem_ins x r
  end.

(* the files of the directory in the order commitLog.open meets them *)
Definition ritems (d : disk) : list ritem :=
  fold_right ritem_ins (map RSeg (d_segs d)) (map (fun x => ROrph (fst x)) (d_orph d)).

(* segment.setupIndex / rebuildIndex on an existing log file *)
Definition fix_effs (m : mseg) : list eff :=
  let b := m_base m in
  (match m_idx m with None => [FCreateIdx (TMain b)] | Some _ => [] end)
    ++ (if fsize (m_fi m) =? fsize (m_recs m) then []
        else [FRemoveIdx (TMain b); FPoint PRebuildRemoved; FCreateIdx (TMain b); FPoint PRebuildCreated]
               ++ concat (map (fun r => [FAppendIdx (TMain b) [r]; FPoint PRebuildEntry]) (m_recs m))).

Definition item_effs (x : ritem) : list eff :=
  match x with
  | ROrph b => [FRemoveIdx (TMain b); FPoint POrphanRemoved]
  | RSeg m => fix_effs m
  end.

Definition cache_eqb (a b : epoch_cache) : bool :=
  list_eqb (fun x y => N.eqb (fst x) (fst y) && (snd x =? snd y)) a b.

Definition recover_effs (d : disk) : list eff :=
  let r := recover fixed d in
  let c := d_ep d in
  let n := m_next (d_active r) in
  let c1 := cache_clear_latest c n in
  let c2 := d_ep r in     (* = cache_clear_earliest c1 (oldest offset) *)
  concat (map item_effs (ritems d))
    ++ (match d_segs d with [] => [FCreateLog (TMain 0); FPoint PSegLogCreated; FCreateIdx (TMain 0)] | _ => [] end)
    ++ (if cache_latest_off c <? n then [] else [FEpochs c1])
    ++ [FPoint PEpochsTrimmed]
    ++ (if cache_eqb c2 c1 then [] else [FEpochs c2]).

(* the process dies after the first j effects of a recovery; then again, ... *)
Fixpoint rcrash (d : disk) (js : list nat) : disk :=
  match js with
  | [] => d
  | j :: r => rcrash (run_effs d (firstn j (recover_effs d))) r
  end.

(* main files, orphans, checkpoints (not the scratch files) *)
Definition mseg_eqb (a b : mseg) : bool :=
  (m_base a =? m_base b) && list_eqb rec_eqb (m_recs a) (m_recs b) &&
  match m_idx a, m_idx b with Some x, Some y => list_eqb rec_eqb x y | None, None => true | _, _ => false end.
Definition main_eqb (a b : disk) : bool :=
  list_eqb mseg_eqb (d_segs a) (d_segs b) && Nat.eqb (length (d_orph a)) (length (d_orph b)) && (d_hw a =? d_hw b) && cache_eqb (d_ep a) (d_ep b).
(* the effects of a completed recovery produce what `recover` says *)
Definition recover_agrees (d : disk) : bool := main_eqb (run_effs d (recover_effs d)) (recover fixed d).
