(* A crash inside commitlog.New (the model is Log/DiskRecover.v): after any prefix of the recovery's
   effects the directory is again a crash image (`Mid`) with the same records, so the next
   commitlog.New recovers a good log from it -- however many recoveries are cut short in a row. *)
From LB Require Import Base.Prelude Log.Model Log.Retention Log.Compact Log.Proofs Log.Refine Api.Range Log.Check Log.Disk Log.DiskBase Log.DiskProofs
  Log.DiskBlocks Log.DiskTrunc Log.DiskClean Log.DiskCleanOp Log.DiskSafety Log.DiskTear Log.DiskTorn Log.DiskRecover.
From Coq Require Import ZifyBool.
Open Scope Z_scope.

Lemma none_fixable sg : fixable (mkM sg None).
Proof.
  unfold fixable, m_fi, m_recs. cbn [m_idx m_seg]. destruct (s_recs sg) as [|x t] eqn:E; [left; reflexivity|right].
  pose proof (fsize_pos_ne (x :: t) ltac:(discriminate)). cbn [fsize fold_right] in *. lia.
Qed.

Lemma prefix_fixable sg i : fixable (mkM sg (Some (firstn i (s_recs sg)))).
Proof.
  unfold fixable, m_fi, m_recs. cbn [m_idx m_seg]. destruct (Nat.le_gt_cases (length (s_recs sg)) i) as [Hge|Hlt].
  - left. apply firstn_all2. exact Hge.
  - right. rewrite <- (firstn_skipn i (s_recs sg)) at 2. rewrite fsize_app.
    assert (skipn i (s_recs sg) <> []) by (intros Es; apply (f_equal (@length rec)) in Es; rewrite skipn_length in Es; cbn in Es; lia).
    pose proof (fsize_pos_ne _ H). lia.
Qed.

Lemma ritem_ins_in x y l : In x (ritem_ins y l) -> x = y \/ In x l.
Proof.
  induction l as [|z t IH]; cbn [ritem_ins]; [intros [<-|[]]; left; reflexivity|].
  destruct (ritem_base y <? ritem_base z); [intros [<-|H]; [left; reflexivity|right; exact H]|].
  intros [<-|H]; [right; left; reflexivity|]. destruct (IH H) as [->|H']; [left; reflexivity|right; right; exact H'].
Qed.

Lemma ritems_in d x : In x (ritems d) -> (exists b, x = ROrph b) \/ (exists m, x = RSeg m /\ In m (d_segs d)).
Proof.
  unfold ritems. generalize (d_orph d). intros os. induction os as [|y t IH]; cbn [map fold_right].
  - intros H. right. apply in_map_iff in H. destruct H as (m & <- & Hm). exists m. split; [reflexivity|exact Hm].
  - intros H. destruct (ritem_ins_in _ _ _ H) as [->|H']; [left; eexists; reflexivity|apply IH; exact H'].
Qed.

Section RecoverCrash.
  Variable H : Z.
  Variable d : disk.
  Hypothesis M : Mid H d.

  Definition Rr (d' : disk) : Prop := Mid H d' /\ content d' = content d /\ d_hw d' = d_hw d.

  (* phase A: orphan indexes removed, indexes created / rebuilt *)
  Definition Ja (d' : disk) : Prop :=
    segs_of d' = segs_of d /\ d_hw d' = d_hw d /\ d_ep d' = d_ep d /\ forall m', In m' (d_segs d') -> fixable m'.

  Lemma Ja_Rr d' : Ja d' -> Rr d'.
  Proof.
    intros (Es & Eh & Ee & Hf). assert (Ec : content d' = content d) by (rewrite !content_flat, Es; reflexivity).
    split; [|split; [exact Ec|exact Eh]]. split.
    - exact Hf.
    - rewrite Es. apply (mi_wf _ _ M).
    - rewrite Ee. apply (mi_csorted _ _ M).
    - rewrite Ee, Ec. apply (mi_cmatch _ _ M).
    - rewrite Eh. apply (mi_hw _ _ M).
  Qed.

  Lemma Ja_init : Ja d.
  Proof. repeat split. apply (mi_fix _ _ M). Qed.

  Lemma Ja_remove_idx d' b : Ja d' -> Ja (apply_eff d' (FRemoveIdx (TMain b))).
  Proof.
    intros (Es & Eh & Ee & Hf). cbn [apply_eff mapply]. destruct (seg_get (d_segs d') b) as [m0|].
    - split; [|split; [exact Eh|split; [exact Ee|]]].
      + unfold segs_of. cbn [set_segs d_segs]. rewrite seg_upd_segs by reflexivity. exact Es.
      + intros m' Hin. cbn [set_segs d_segs] in Hin. destruct (seg_upd_in _ _ _ _ Hin) as [Hm|(m1 & _ & ->)]; [apply Hf; exact Hm|apply none_fixable].
    - split; [exact Es|split; [exact Eh|split; [exact Ee|exact Hf]]].
  Qed.

  (* the states of one segment's index while the others stay *)
  Lemma fix_seq m : In m (d_segs d) -> seq Rr Ja (fix_effs m) Ja.
  Proof.
    intros Hm d' J. pose proof J as (Es & Eh & Ee & Hf).
    (* find the segment in d' *)
    apply in_split in Hm. destruct Hm as (f0 & r0 & E0).
    assert (Esp : map m_seg (d_segs d') = map m_seg f0 ++ m_seg m :: map m_seg r0).
    { unfold segs_of in Es. rewrite Es, E0, map_app. reflexivity. }
    destruct (map_split3 _ _ _ _ _ Esp) as (front & m' & rest & Ed' & Ef & Em & Er).
    pose proof (mi_wf _ _ M) as Hw. rewrite <- Es in Hw. unfold segs_of in Hw. rewrite Ed' in Hw.
    destruct (bases_distinct front m' rest (-1) (wf_bases _ Hw)) as [Hfront _].
    set (b := m_base m). assert (Eb : m_base m' = b) by (unfold m_base, b; rewrite Em; reflexivity).
    set (St := fun X => set_segs d' (front ++ mkM (m_seg m) X :: rest)).
    assert (Hfr : forall y, In y front -> m_base y <> m_base (mkM (m_seg m) None)) by (intros y Hy; change (m_base (mkM (m_seg m) None)) with (m_base m); fold b; rewrite <- Eb; apply Hfront; exact Hy).
    assert (ESt : d' = St (m_idx m')).
    { unfold St. destruct d' as [sg orp sc hw ep]. cbn [d_segs] in Ed'. subst sg. unfold set_segs. cbn [d_segs d_orph d_scr d_hw d_ep]. destruct m' as [ms mi]. cbn [m_seg m_idx] in *. subst ms. reflexivity. }
    assert (HJ : forall X, fixable (mkM (m_seg m) X) -> Ja (St X)).
    { intros X HX. unfold St. split; [|split; [exact Eh|split; [exact Ee|]]].
      - rewrite <- Es. unfold segs_of. cbn [set_segs d_segs]. rewrite Ed', !map_app. cbn [map m_seg]. rewrite Em. reflexivity.
      - intros y Hy. cbn [set_segs d_segs] in Hy. apply in_app_or in Hy. destruct Hy as [Hy|[<-|Hy]]; [apply Hf; rewrite Ed'; apply in_or_app; left; exact Hy|exact HX|apply Hf; rewrite Ed'; apply in_or_app; right; right; exact Hy]. }
    assert (Ecr : forall X, apply_eff (St X) (FCreateIdx (TMain b)) = St (create_opt X)).
    { intros X. unfold St. cbn [apply_eff mapply set_segs d_segs]. change b with (m_base (mkM (m_seg m) X)).
      rewrite seg_get_mid, seg_upd_mid by exact Hfr. reflexivity. }
    assert (Erm : forall X, apply_eff (St X) (FRemoveIdx (TMain b)) = St None).
    { intros X. unfold St. cbn [apply_eff mapply set_segs d_segs]. change b with (m_base (mkM (m_seg m) X)).
      rewrite seg_get_mid, seg_upd_mid by exact Hfr. reflexivity. }
    assert (Eap : forall X rs, apply_eff (St X) (FAppendIdx (TMain b) rs) = St (app_opt X rs)).
    { intros X rs. unfold St. cbn [apply_eff mapply set_segs d_segs]. change b with (m_base (mkM (m_seg m) X)).
      rewrite seg_upd_mid by exact Hfr. reflexivity. }
    assert (Hfix0 : fixable (mkM (m_seg m) (m_idx m'))).
    { specialize (Hf m' ltac:(rewrite Ed'; apply in_or_app; right; left; reflexivity)). destruct m' as [ms mi]. cbn [m_seg m_idx] in *. subst ms. exact Hf. }
    (* the append loop *)
    assert (Hloop : forall l acc, acc ++ l = m_recs m ->
              seq Rr (fun x => x = St (Some acc)) (concat (map (fun r => [FAppendIdx (TMain b) [r]; FPoint PRebuildEntry]) l)) (fun x => x = St (Some (acc ++ l)))).
    { induction l as [|r t IH]; intros acc Eacc.
      - cbn [map concat]. rewrite app_nil_r. apply seq_nil. intros x ->. apply Ja_Rr, HJ. rewrite app_nil_r in Eacc. rewrite Eacc.
        pose proof (prefix_fixable (m_seg m) (length (m_recs m))) as P. rewrite firstn_all in P. exact P.
      - cbn [map concat]. change ([FAppendIdx (TMain b) [r]; FPoint PRebuildEntry] ++ concat (map (fun r0 => [FAppendIdx (TMain b) [r0]; FPoint PRebuildEntry]) t))
          with ([FAppendIdx (TMain b) [r]] ++ [FPoint PRebuildEntry] ++ concat (map (fun r0 => [FAppendIdx (TMain b) [r0]; FPoint PRebuildEntry]) t)).
        assert (Hpre : forall a, (exists tl, a ++ tl = m_recs m) -> Rr (St (Some a))).
        { intros a (tl & Ea). apply Ja_Rr, HJ. pose proof (prefix_fixable (m_seg m) (length a)) as P. fold (m_recs m) in P. rewrite <- Ea in P.
          rewrite firstn_app, Nat.sub_diag, firstn_all in P. cbn [firstn] in P. rewrite app_nil_r in P. exact P. }
        apply (seq_app Rr _ _ (fun x => x = St (Some (acc ++ [r])))).
        { apply seq_one; [intros x ->; apply Hpre; exists (r :: t); exact Eacc|intros x ->; apply Eap|intros x ->; apply Hpre; exists t; rewrite <- app_assoc; exact Eacc]. }
        apply (seq_app Rr _ _ (fun x => x = St (Some (acc ++ [r])))).
        { apply seq_point. intros x ->. apply Hpre. exists t. rewrite <- app_assoc. exact Eacc. }
        replace (acc ++ r :: t) with ((acc ++ [r]) ++ t) by (rewrite <- app_assoc; reflexivity).
        apply IH. rewrite <- app_assoc. exact Eacc. }
    (* assemble *)
    assert (Hseq : seq Rr (fun x => x = d') (fix_effs m) Ja).
    { unfold fix_effs. fold b. apply (seq_app Rr _ _ (fun x => exists X, x = St X /\ fixable (mkM (m_seg m) X))).
      - destruct (m_idx m).
        + eapply seq_conseq; [intros x Hx; exact Hx| |apply seq_nil; intros x ->; apply Ja_Rr; exact J].
          intros x ->. exists (m_idx m'). split; [exact ESt|exact Hfix0].
        + apply seq_one; [intros x ->; apply Ja_Rr; exact J| |intros x (X & -> & HX); apply Ja_Rr, HJ; exact HX].
          intros x ->. exists (create_opt (m_idx m')). split; [rewrite ESt at 1; apply Ecr|].
          destruct (m_idx m') as [l|]; [exact Hfix0|]. cbn [create_opt]. pose proof (prefix_fixable (m_seg m) 0) as P. exact P.
      - destruct (fsize (m_fi m) =? fsize (m_recs m)).
        + eapply seq_conseq; [intros x Hx; exact Hx| |apply seq_nil; intros x (X & -> & HX); apply Ja_Rr, HJ; exact HX].
          intros x (X & -> & HX). apply HJ. exact HX.
        + change ([FRemoveIdx (TMain b); FPoint PRebuildRemoved; FCreateIdx (TMain b); FPoint PRebuildCreated] ++ concat (map (fun r => [FAppendIdx (TMain b) [r]; FPoint PRebuildEntry]) (m_recs m)))
            with ([FRemoveIdx (TMain b)] ++ [FPoint PRebuildRemoved] ++ [FCreateIdx (TMain b)] ++ [FPoint PRebuildCreated] ++ concat (map (fun r => [FAppendIdx (TMain b) [r]; FPoint PRebuildEntry]) (m_recs m))).
          assert (RN : Rr (St None)) by (apply Ja_Rr, HJ, none_fixable).
          assert (R0 : Rr (St (Some []))) by (apply Ja_Rr, HJ; exact (prefix_fixable (m_seg m) 0)).
          apply (seq_app Rr _ _ (fun x => x = St None)).
          { apply seq_one; [intros x (X & -> & HX); apply Ja_Rr, HJ; exact HX|intros x (X & -> & _); apply Erm|intros x ->; exact RN]. }
          apply (seq_app Rr _ _ (fun x => x = St None)); [apply seq_point; intros x ->; exact RN|].
          apply (seq_app Rr _ _ (fun x => x = St (Some []))).
          { apply seq_one; [intros x ->; exact RN|intros x ->; apply Ecr|intros x ->; exact R0]. }
          apply (seq_app Rr _ _ (fun x => x = St (Some []))); [apply seq_point; intros x ->; exact R0|].
          eapply seq_conseq; [intros x Hx; exact Hx| |apply (Hloop (m_recs m) []); reflexivity].
          intros x ->. cbn [app]. apply HJ. pose proof (prefix_fixable (m_seg m) (length (m_recs m))) as P. fold (m_recs m) in P. rewrite firstn_all in P. exact P. }
    apply (Hseq d' eq_refl).
  Qed.

  Lemma items_seq : seq Rr Ja (concat (map item_effs (ritems d))) Ja.
  Proof.
    apply seq_concat; [exact Ja_Rr|]. intros bl Hb. apply in_map_iff in Hb. destruct Hb as (x & <- & Hx).
    destruct (ritems_in d x Hx) as [(b & ->)|(m & -> & Hm)].
    - cbn [item_effs]. apply seq_each; [exact Ja_Rr|]. intros e [<-|[<-|[]]] d' J; [apply Ja_remove_idx; exact J|exact J].
    - cbn [item_effs]. apply fix_seq. exact Hm.
  Qed.

  (* phase B: an empty directory gets segment 0 *)
  Definition Jb (d' : disk) : Prop :=
    (d_segs d' = [] \/ exists oi, d_segs d' = [mkM (mkSeg 0 []) oi]) /\ d_hw d' = d_hw d /\ d_ep d' = d_ep d.

  Lemma empty_content : d_segs d = [] -> content d = [].
  Proof. intros E. unfold content. rewrite E. reflexivity. Qed.

  Lemma Jb_Rr d' : d_segs d = [] -> Jb d' -> Rr d'.
  Proof.
    intros E0 (Hs & Eh & Ee). pose proof (empty_content E0) as Ec0.
    assert (Ec : content d' = []) by (unfold content; destruct Hs as [->|(oi & ->)]; reflexivity).
    split; [|split; [rewrite Ec, Ec0; reflexivity|exact Eh]]. split.
    - intros m' Hin. destruct Hs as [Hs|(oi & Hs)]; rewrite Hs in Hin; [destruct Hin|]. destruct Hin as [<-|[]].
      unfold fixable, m_fi, m_recs. cbn [m_idx m_seg s_recs]. destruct oi as [[|x t]|]; [left; reflexivity| |left; reflexivity].
      right. pose proof (fsize_pos_ne (x :: t) ltac:(discriminate)). cbn [fsize fold_right] in *. lia.
    - unfold segs_of. destruct Hs as [->|(oi & ->)]; cbn [map m_seg]; [|exact WF_single0].
      split; [exact I|intros s0 []|intros s1 s2 []].
    - rewrite Ee. apply (mi_csorted _ _ M).
    - rewrite Ec. intros x [].
    - rewrite Eh. apply (mi_hw _ _ M).
  Qed.

  Lemma create_seq : d_segs d = [] -> seq Rr Jb [FCreateLog (TMain 0); FPoint PSegLogCreated; FCreateIdx (TMain 0)] Jb.
  Proof.
    intros E0. apply seq_each; [intros d' Hd; apply (Jb_Rr d' E0 Hd)|].
    intros e [<-|[<-|[<-|[]]]] d' (Hs & Eh & Ee); [|split; [exact Hs|split; assumption]|].
    - cbn [apply_eff mapply]. destruct Hs as [Hs|(oi & Hs)]; rewrite Hs; cbn [seg_get].
      + split; [right; eexists; cbn [with_main d_segs seg_ins]; reflexivity|split; [exact Eh|exact Ee]].
      + change (m_base (mkM (mkSeg 0 []) oi) =? 0) with true. cbn iota. split; [right; exists oi; exact Hs|split; assumption].
    - cbn [apply_eff mapply]. destruct Hs as [Hs|(oi & Hs)]; rewrite Hs; cbn [seg_get].
      + destruct (orph_get (d_orph d') 0); (split; [left; cbn [with_main d_segs]; first [exact Hs|reflexivity]|split; [exact Eh|exact Ee]]).
      + change (m_base (mkM (mkSeg 0 []) oi) =? 0) with true. cbn iota.
        split; [right; eexists; cbn [set_segs d_segs seg_upd]; change (m_base (mkM (mkSeg 0 []) oi) =? 0) with true; cbn iota; reflexivity|split; assumption].
  Qed.

  (* phase C: the epoch checkpoint is trimmed; everything else stays *)
  Definition Jc (d' : disk) : Prop :=
    (forall m', In m' (d_segs d') -> fixable m') /\ WF (segs_of d') /\ content d' = content d /\ d_hw d' = d_hw d /\
    csorted (d_ep d') /\ cmatch (d_ep d') (content d).

  Lemma Jc_Rr d' : Jc d' -> Rr d'.
  Proof.
    intros (Hf & Hw & Ec & Eh & Hcs & Hcm). split; [|split; [exact Ec|exact Eh]].
    split; [exact Hf|exact Hw|exact Hcs|rewrite Ec; exact Hcm|rewrite Eh; apply (mi_hw _ _ M)].
  Qed.

  Lemma Rr_Jc d' : Rr d' -> d_ep d' = d_ep d -> Jc d'.
  Proof.
    intros ([Hf Hw Hcs Hcm Hhw] & Ec & Eh) Ee. split; [exact Hf|split; [exact Hw|split; [exact Ec|split; [exact Eh|split; [exact Hcs|rewrite <- Ec; exact Hcm]]]]].
  Qed.

  Lemma Jc_epochs d' c : Jc d' -> csorted c -> cmatch c (content d) -> Jc (apply_eff d' (FEpochs c)).
  Proof.
    intros (Hf & Hw & Ec & Eh & _ & _) Hc1 Hc2. cbn [apply_eff mapply]. split; [exact Hf|split; [exact Hw|split; [exact Ec|split; [exact Eh|split; [exact Hc1|exact Hc2]]]]].
  Qed.

  (* the two caches commitlog.New writes fit the records *)
  Lemma trimmed_caches : let r := recover fixed d in
    (csorted (cache_clear_latest (d_ep d) (m_next (d_active r))) /\ cmatch (cache_clear_latest (d_ep d) (m_next (d_active r))) (content d)) /\
    (csorted (d_ep r) /\ cmatch (d_ep r) (content d)).
  Proof.
    cbn zeta. destruct (mid_recover _ _ M) as (GR & Hcont & _ & _ & _). cbn zeta in GR, Hcont.
    set (r := recover fixed d) in *. split.
    - split; [apply clear_latest_sorted; apply (mi_csorted _ _ M)|].
      apply clear_latest_match; [apply (mi_cmatch _ _ M)|].
      destruct (good_active _ GR) as (pre & a & _ & Ha & _ & Hnx & _ & _ & Hbelow). cbn [s_disk] in *.
      intros x Hx. unfold next_of in Hnx. cbn [s_disk] in Hnx. rewrite Hnx. apply Hbelow. rewrite Hcont. exact Hx.
    - split; [apply (g_csorted _ GR)|]. rewrite <- Hcont. apply (g_cmatch _ GR).
  Qed.

  (* After ANY prefix of the effects of commitlog.New the directory is a crash image with the same
     records and the same HW checkpoint. *)
  Theorem recover_prefix j : Rr (run_effs d (firstn j (recover_effs d))).
  Proof.
    destruct trimmed_caches as [[S1 M1] [S2 M2]]. cbn zeta in S1, M1, S2, M2.
    assert (Hseq : seq Rr (fun x => x = d) (recover_effs d) (fun _ => True)).
    { unfold recover_effs.
      apply (seq_app Rr _ _ Ja); [eapply seq_conseq; [intros x ->; exact Ja_init|intros x Hx; exact Hx|exact items_seq]|].
      apply (seq_app Rr _ _ Jc).
      { destruct (d_segs d) as [|m0 t0] eqn:E0.
        - eapply seq_conseq; [| |apply (create_seq E0)].
          + intros x (Es & Eh & Ee & _). split; [left; unfold segs_of in Es; rewrite E0 in Es; destruct (d_segs x); [reflexivity|discriminate]|split; assumption].
          + intros x Jx. apply Rr_Jc; [apply (Jb_Rr x E0 Jx)|apply Jx].
        - eapply seq_conseq; [intros x Hx; exact Hx| |apply seq_nil; exact Ja_Rr].
          intros x Jx. apply Rr_Jc; [apply Ja_Rr; exact Jx|apply Jx]. }
      apply (seq_app Rr _ _ Jc).
      { destruct (cache_latest_off (d_ep d) <? _).
        - apply seq_nil. exact Jc_Rr.
        - apply seq_one; [exact Jc_Rr|intros x Jx; apply Jc_epochs; assumption|exact Jc_Rr]. }
      apply (seq_app Rr _ _ Jc); [apply seq_point; exact Jc_Rr|].
      eapply seq_conseq; [intros x Hx; exact Hx|intros x _; exact I|].
      destruct (cache_eqb _ _).
      - apply seq_nil. exact Jc_Rr.
      - apply seq_one; [exact Jc_Rr|intros x Jx; apply Jc_epochs; assumption|exact Jc_Rr]. }
    apply (Hseq d eq_refl).
  Qed.
End RecoverCrash.

(* any number of recoveries cut short, one after the other *)
Theorem rcrash_mid H d js : Mid H d -> Mid H (rcrash d js) /\ content (rcrash d js) = content d /\ d_hw (rcrash d js) = d_hw d.
Proof.
  revert d. induction js as [|j r IH]; intros d M; cbn [rcrash]; [split; [exact M|split; reflexivity]|].
  destruct (recover_prefix H d M j) as (M1 & C1 & H1). destruct (IH _ M1) as (M2 & C2 & H2).
  split; [exact M2|split; [rewrite C2; exact C1|rewrite H2; exact H1]].
Qed.

Section RecoverSafety.
  Variable key_of : bytes -> option bytes.
  Variable p : params.
  Hypothesis maxb_pos : 0 < p_maxb p.

  (* the operation is cut short after n effects; then any number of recoveries are cut short, after
     j1, j2, ... effects; then commitlog.New runs to the end *)
  Definition crash_rec (s : st) (o : dop) (n : nat) (js : list nat) : option st :=
    match script key_of fixed p s o with
    | None => None
    | Some es => let r := recover fixed (rcrash (run_effs (s_disk s) (firstn n es)) js) in Some (mkSt r (d_hw r))
    end.

  Theorem crash_rec_safe s o n js : Good s -> op_ok s o ->
    exists s', crash_rec s o n js = Some s' /\ safe_after key_of p s o s'.
  Proof.
    intros G Hok. destruct (op_prefixes key_of p maxb_pos s o G Hok) as (es & Es & Hall & _). unfold crash_rec. rewrite Es.
    eexists. split; [reflexivity|]. destruct (Hall n) as (M & A & B). destruct (rcrash_mid _ _ js M) as (M' & C' & _).
    apply (image_recovers key_of p s o _ _ (conj M (conj A B)) M' C').
  Qed.
End RecoverSafety.
