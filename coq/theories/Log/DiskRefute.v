(* The pinned commit against the crash model: each of the three repairs is needed. Every witness is a
   concrete history evaluated by the kernel; the same histories are what the C05 driver found on the
   real code before the repairs (known_findings.json, "fixed"). Also: the premises of the safety
   theorems are satisfiable (a concrete history with crashes meets hist_ok). *)
From LB Require Import Base.Prelude Log.Model Log.Retention Log.Compact Codec.Message Log.Proofs Log.Disk Log.DiskBase Log.DiskProofs
  Log.DiskBlocks Log.DiskTrunc Log.DiskClean Log.DiskCleanOp Log.DiskSafety Log.DiskTear Log.DiskTorn Log.DiskRecover Log.DiskRecoverProofs.
Open Scope Z_scope.

Definition P1000 : params := mkP 1000 (mkLimits 0 0 0) false.
Definition P30 : params := mkP 30 (mkLimits 0 0 0) false.
Definition msg1 (e : N) : msg := mkMsg 10 e [1; 2; 3]%N (-1).
Definition offsets_of (o : option st) : list Z := match o with Some s => map r_off (content (s_disk s)) | None => [] end.

(* without the index rebuild: the batch whose index write was lost stays in the log file and the next
   append is numbered from the index, so offset 1 is delivered twice *)
Lemma no_rebuild_duplicates :
  offsets_of (run key_of (mkV false true true) P1000 [HDo (DAppend [msg1 1]); HCrash (DAppend [msg1 1]) 2; HDo (DAppend [msg1 1])]) = [0; 1; 1].
Proof. vm_compute. reflexivity. Qed.

(* ... and when the lost index entry was the first of a full segment, Append never returns
   (checkAndPerformSplit retries ErrSegmentExists for ever): the model has no next state *)
Lemma no_rebuild_hangs :
  run key_of (mkV false true true) P30 [HCrash (DAppend [msg1 1]) 3; HDo (DAppend [msg1 1])] = None.
Proof. vm_compute. reflexivity. Qed.

(* epochs recorded after the write: the recovered log holds a message of epoch 2 its history does not know *)
Lemma epoch_after_mismatch :
  match run key_of (mkV true false true) P1000 [HDo (DAppend [msg1 1]); HCrash (DAppend [msg1 2]) 4] with
  | Some s => map (fun r => (r_off r, r_ep r, epoch_at (d_ep (s_disk s)) (r_off r))) (content (s_disk s))
  | None => []
  end = [(0, 1%N, 1%N); (1, 2%N, 1%N)].
Proof. vm_compute. reflexivity. Qed.

(* replacement files reused: a truncation that died before its renames leaves <base>.log.truncated
   behind, the next truncation appends to it, and the segment then holds offsets 0 and 1 twice *)
Lemma stale_replacement_duplicates :
  offsets_of (run key_of (mkV true true false) P1000 [HDo (DAppend [msg1 1; msg1 1; msg1 1]); HCrash (DTrunc 2) 8; HDo (DTrunc 2)]) = [0; 1; 0; 1].
Proof. vm_compute. reflexivity. Qed.

(* the same histories on the current tree *)
Lemma fixed_histories_fine :
  offsets_of (run key_of fixed P1000 [HDo (DAppend [msg1 1]); HCrash (DAppend [msg1 1]) 2; HDo (DAppend [msg1 1])]) = [0; 1; 2] /\
  offsets_of (run key_of fixed P30 [HCrash (DAppend [msg1 1]) 3; HDo (DAppend [msg1 1])]) = [0; 1] /\
  offsets_of (run key_of fixed P1000 [HDo (DAppend [msg1 1; msg1 1; msg1 1]); HCrash (DTrunc 2) 8; HDo (DTrunc 2)]) = [0; 1].
Proof. vm_compute. repeat split; reflexivity. Qed.

(* premises are satisfiable: a history with a roll, crashes in an append, a truncation and a clean *)
Definition sample_history : list hstep :=
  [HDo (DAppend [msg1 1; msg1 1]); HCrash (DAppend [msg1 2]) 3; HDo (DAppend [msg1 2]); HDo (DEpoch 3);
   HCrash (DTrunc 2) 9; HDo (DSetHw 1); HCrash (DClean 0) 1; HDo DReopen].

Lemma sample_history_ok : exists s0, init key_of fixed P30 = Some s0 /\ hist_ok key_of P30 s0 sample_history /\
  offsets_of (fold_left (hstep_run key_of fixed P30) sample_history (Some s0)) = [0; 1].
Proof.
  eexists. split; [reflexivity|]. split; [|vm_compute; reflexivity].
  unfold sample_history, hist_ok.
  repeat match goal with
         | |- _ /\ _ => split
         | |- forall s', _ = Some s' -> _ => let s' := fresh "s'" in let E := fresh "E" in intros s' E; vm_compute in E; injection E as <-
         | |- op_ok _ _ _ _ => cbn [op_ok op_of]
         | |- True => exact I
         end.
  all: try (cbn [op_of op_ok]; first [exact I | split; [discriminate|vm_compute; repeat split; intros; try discriminate; lia]]).
  all: try discriminate.
  all: try (intros s'' E2; vm_compute in E2; injection E2 as <-).
  all: vm_compute; intros e st Hin; repeat (destruct Hin as [Hin|Hin]; [injection Hin as <- <-; intros Hc; discriminate Hc|]); destruct Hin.
Qed.

(* ---- torn writes (Log.DiskTear Log.DiskTorn) ---- *)
(* the second append (two messages) dies inside write(2): the first frame and 5 bytes of the second
   are in the log file. Reopened, the log holds offsets 0 and 1; the next append gets offset 2. The
   same when it dies inside the store of the two index entries (one whole entry and a partial one
   whose position+size read 41). *)
Definition torn_history (n : nat) (z : Z) : list tstep :=
  [TStep (HDo (DAppend [msg1 1])); TTorn (DAppend [msg1 1; msg1 1]) n 1 (Some z); TStep (HDo (DAppend [msg1 1]))].

Lemma torn_histories_fine :
  offsets_of (fold_left (tstep_run key_of P1000) (torn_history 1 5) (init key_of fixed P1000)) = [0; 1; 2] /\
  offsets_of (fold_left (tstep_run key_of P1000) (torn_history 3 41) (init key_of fixed P1000)) = [0; 1; 2; 3].
Proof. vm_compute. split; reflexivity. Qed.

(* the premises of the torn-write theorems are satisfiable *)
Lemma torn_history_ok : exists s0, init key_of fixed P1000 = Some s0 /\ thist_ok key_of P1000 s0 (torn_history 1 5) /\ thist_ok key_of P1000 s0 (torn_history 3 41).
Proof.
  eexists. split; [reflexivity|].
  assert (Hcb : forall c : epoch_cache, c = [(1%N, 0)] -> forall n, ep_mono (cache_latest_epoch c) (number n [msg1 1]) /\ ep_mono (cache_latest_epoch c) (number n [msg1 1; msg1 1])).
  { intros c -> n. vm_compute. repeat split; intros; discriminate. }
  split; unfold torn_history, thist_ok, tstep_ok, op_of, op_ok.
  all: repeat match goal with
         | |- _ /\ _ => split
         | |- forall s', _ = Some s' -> _ => let s' := fresh "s'" in let E := fresh "E" in intros s' E; vm_compute in E; injection E as <-
         | |- True => exact I
         | |- _ <> [] => discriminate
         | |- exists e d, _ => eexists; eexists; split; [vm_compute; reflexivity|vm_compute; repeat split; intros; discriminate]
         | |- ep_mono _ _ => vm_compute; repeat split; intros; discriminate
         end.
Qed.

(* without the index rebuild (pinned commit) the junk stays in the log file: commitlog.New leaves a
   directory the model cannot describe (every later read of that segment fails on the junk) *)
Lemma torn_no_rebuild_stuck :
  match init key_of (mkV false true true) P1000 with
  | Some s0 => match exec key_of (mkV false true true) P1000 s0 (DAppend [msg1 1]) with
               | Some s1 => crash_torn key_of (mkV false true true) P1000 s1 (DAppend [msg1 1; msg1 1]) 1 1 (Some 5)
               | None => None
               end
  | None => None
  end = None.
Proof. vm_compute. reflexivity. Qed.

(* ---- crashes inside commitlog.New (Log.DiskRecover) ---- *)
(* the second append dies after its log write (the index lacks two entries); the recovery that follows
   dies after removing the stale index, the next one after re-creating it and writing one entry, the
   third runs to the end: offsets 0, 1, 2, with an index that covers them (the next append gets 3) *)
Lemma recovery_crashes_fine :
  match init key_of fixed P1000 with
  | Some s0 => match exec key_of fixed P1000 s0 (DAppend [msg1 1]) with
               | Some s1 => (length (recover_effs (run_effs (s_disk s1) (firstn 3 (match script key_of fixed P1000 s1 (DAppend [msg1 1; msg1 2]) with Some es => es | None => [] end)))),
                             offsets_of (crash_rec key_of P1000 s1 (DAppend [msg1 1; msg1 2]) 3 [1; 5]%nat),
                             offsets_of (match crash_rec key_of P1000 s1 (DAppend [msg1 1; msg1 2]) 3 [1; 5]%nat with
                                         | Some s2 => exec key_of fixed P1000 s2 (DAppend [msg1 2]) | None => None end))
               | None => (O, [], [])
               end
  | None => (O, [], [])
  end = (11%nat, [0; 1; 2], [0; 1; 2; 3]).
Proof. vm_compute. reflexivity. Qed.
