(* Crash safety of the partition log: the statements over operations and histories. *)
From LB Require Import Base.Prelude Log.Model Log.Retention Log.Compact Log.Proofs Log.Refine Log.Disk Log.DiskBase Log.DiskProofs Log.DiskBlocks Log.DiskTrunc Log.DiskClean Log.DiskCleanOp.
From Coq Require Import ZifyBool.
Open Scope Z_scope.

Lemma mid_good H d : Mid H d -> d_segs d <> [] -> (forall m, In m (d_segs d) -> m_idx m = Some (m_recs m)) -> d_orph d = [] ->
  cbound (d_ep d) (m_next (d_active d)) -> Good (mkSt d H).
Proof.
  intros M Hne Hidx Ho Hb. split; cbn [s_disk s_hw]; try assumption; apply M.
Qed.

Lemma image_weaken s o (K K' : rec -> Prop) d : (forall x, K' x -> K x) -> Image s o K d -> Image s o K' d.
Proof. intros H (A & B & C). split; [exact A|split; [exact B|intros x Hx HK; apply C; [exact Hx|apply H; exact HK]]]. Qed.

Definition log_of (s : st) : log := mkLog (segs_of (s_disk s)) (s_hw s) (d_ep (s_disk s)) false.

Section Safety.
  Variable key_of : bytes -> option bytes.
  Variable p : params.
  Hypothesis maxb_pos : 0 < p_maxb p.

  (* ---- Truncate, assembled ---- *)
  Lemma map_split3 {A B} (f : A -> B) l a x b : map f l = a ++ x :: b ->
    exists l1 y l2, l = l1 ++ y :: l2 /\ map f l1 = a /\ f y = x /\ map f l2 = b.
  Proof.
    intros E. apply map_eq_app in E. destruct E as (l1 & l2' & -> & E1 & E2). apply map_eq_cons in E2. destruct E2 as (y & l2 & -> & E2 & E3).
    exists l1, y, l2. repeat split; assumption.
  Qed.

  Definition trunc_final (s : st) (o : Z) (d : disk) : Prop :=
    exists segs c, meq d (mkDisk segs [] (d_scr (s_disk s)) (d_hw (s_disk s)) c) /\
      segs <> [] /\ (forall m, In m segs -> m_idx m = Some (m_recs m)) /\ cbound c (m_next (last segs dummy_m)) /\
      Image s (DTrunc o) (K o) (mkDisk segs [] (d_scr (s_disk s)) (d_hw (s_disk s)) c) /\
      mkLog (map m_seg segs) (s_hw s) c false = truncate (log_of s) o.

  Lemma trunc_op_seq s o : Good s ->
    seq (Image s (DTrunc o) (K o)) (at_ (s_disk s)) (trunc_effs fixed (s_disk s) o)
        (fun d => (at_ (s_disk s) d /\ truncate (log_of s) o = log_of s) \/ trunc_final s o d).
  Proof.
    intros G. destruct (find_segment (segs_of (s_disk s)) o) as [[i st]|] eqn:Hfind.
    2:{ unfold trunc_effs. rewrite Hfind.
        apply (seq_conseq (Image s (DTrunc o) (K o)) (at_ (s_disk s)) _ (at_ (s_disk s)) _); [auto|intros d Hd; left; split; [exact Hd|unfold truncate, log_of; cbn [l_segs]; rewrite Hfind; reflexivity]|].
        apply seq_nil. intros d Hd. apply (image_main s o (s_disk s) d); [apply meq_sym; exact Hd|apply good_image; exact G]. }
    destruct (find_segment_some _ _ _ _ Hfind) as (preS & postS & E & Hlen & Hlt & Hpre).
    unfold segs_of in E. destruct (map_split3 _ _ _ _ _ E) as (pre & t & later & Hshape & E1 & E2 & E3). subst preS st postS.
    rewrite map_length in Hlen.
    destruct (trunc_seq s G o pre t later Hshape Hlt Hpre i (eq_sym Hlen) Hfind) as (Hseq & Hne & Hcb).
    eapply seq_conseq; [intros d Hd; exact Hd| |exact Hseq].
    intros d Hd. right. destruct (Hseq (s_disk s) (meq_refl _)) as [Hall Hfin].
    exists (final_segs o pre t i), (cfin s o t i). split; [exact Hd|].
    assert (Himg : Image s (DTrunc o) (K o) (mk s (final_segs o pre t i) [] (cfin s o t i))).
    { apply (image_main s o (run_effs (s_disk s) (trunc_effs fixed (s_disk s) o)) _ Hfin).
      specialize (Hall (length (trunc_effs fixed (s_disk s) o))). rewrite firstn_all in Hall. exact Hall. }
    assert (Hidx : forall m, In m (final_segs o pre t i) -> m_idx m = Some (m_recs m)).
    { intros m Hm. unfold final_segs in Hm.
      assert (Hp : forall m, In m pre -> m_idx m = Some (m_recs m)) by (intros m' Hm'; apply (g_idx _ G); rewrite Hshape; apply in_or_app; left; exact Hm').
      destruct ((m_base t =? o) && negb (Nat.eqb i 0)); [apply Hp; exact Hm|].
      apply in_app_or in Hm. destruct Hm as [Hm|[<-|[]]]; [apply Hp; exact Hm|reflexivity]. }
    split; [exact Hne|]. split; [exact Hidx|]. split; [|split; [exact Himg|]].
    2:{ unfold truncate, log_of. cbn [l_segs l_hw l_cache l_ro]. rewrite Hfind. rewrite <- (final_is_model s o pre t later Hshape Hlt Hpre i (eq_sym Hlen)).
        f_equal. unfold cfin. f_equal. f_equal. rewrite <- (final_next s o pre t later Hshape i (eq_sym Hlen) Hne).
        change dummy_seg with (m_seg dummy_m). rewrite last_map by exact Hne. reflexivity. }
    (* the index-based next offset of the last segment is its true next offset *)
    destruct (exists_last Hne) as (fl & fx & Ef). rewrite Ef, last_last in *.
    assert (Hin : In fx (final_segs o pre t i)) by (rewrite Ef; apply in_or_app; right; left; reflexivity).
    destruct Himg as (M & _ & _). pose proof (mi_wf _ _ M) as Hw. unfold segs_of in Hw. cbn [mk d_segs] in Hw.
    assert (Hfx : In fx (fl ++ [fx])) by (apply in_or_app; right; left; reflexivity).
    rewrite m_next_consistent; [exact Hcb|apply Hidx; exact Hfx| |].
    - apply (WF_base_nonneg _ (m_seg fx) Hw). apply in_map. exact Hfx.
    - apply (wf_sorted _ Hw (m_seg fx)). apply in_map. exact Hfx.
  Qed.

  (* ---- what an operation may remove, and what it must be given ---- *)
  Definition survives (s : st) (o : dop) (x : rec) : Prop :=
    match o with
    | DTrunc t => r_off x < t
    | DClean ttl => Kc key_of p s ttl x       (* a record of the segments the clean leaves *)
    | _ => True
    end.

  Definition op_ok (s : st) (o : dop) : Prop :=
    match o with
    | DCreate => False                    (* only commitlog.New on an empty directory: `init` *)
    | DAppend ms => ms <> [] /\ ep_mono (cache_latest_epoch (d_ep (s_disk s))) (number (next_of s) ms)
    | DASet rs => rs <> [] /\ sorted_from (next_of s) rs /\ ep_mono (cache_latest_epoch (d_ep (s_disk s))) rs
    | _ => True
    end.

  Lemma seq_from_eq (R : disk -> Prop) d0 es (Q : disk -> Prop) : seq R (at_ d0) es Q ->
    (forall n, R (run_effs d0 (firstn n es))) /\ Q (run_effs d0 es).
  Proof. intros H. apply (H d0 (meq_refl d0)). Qed.

  Lemma seq_from_eq' (R : disk -> Prop) d0 es (Q : disk -> Prop) : seq R (fun d => d = d0) es Q ->
    (forall n, R (run_effs d0 (firstn n es))) /\ Q (run_effs d0 es).
  Proof. intros H. apply (H d0 eq_refl). Qed.

  Lemma good_hw_up s h : Good s -> s_hw s <= h -> Good (mkSt (s_disk s) h).
  Proof. intros G Hh. split; cbn [s_disk s_hw]; try apply G. pose proof (g_hw _ G). lia. Qed.

  Theorem op_prefixes s o : Good s -> op_ok s o -> exists es, script key_of fixed p s o = Some es /\
    (forall n, Image s o (survives s o) (run_effs (s_disk s) (firstn n es))) /\
    (forall s', exec key_of fixed p s o = Some s' -> Good s' /\ s_hw s <= s_hw s').
  Proof.
    intros G Hok. destruct o as [|ms|rs|t|ttl|h| |e|]; cbn [op_ok] in Hok; try contradiction.
    - (* Append *)
      destruct Hok as [Hne Hmono].
      destruct (write_op_seq p maxb_pos s (DAppend ms) (number (next_of s) ms) (survives s (DAppend ms)) G eq_refl (number_ne _ _ Hne) (number_sorted _ _) Hmono)
        as (sp & Esp & Hnx & Hseq). cbn zeta in Hnx, Hseq.
      unfold script, exec, script. rewrite Esp. rewrite Hnx. eexists. split; [reflexivity|].
      destruct (seq_from_eq' _ _ _ _ Hseq) as [Hall Hfin]. split; [exact Hall|].
      intros s' [= <-]. split; [apply Hfin|cbn; lia].
    - (* AppendMessageSet *)
      destruct Hok as (Hne & Hsort & Hmono).
      destruct (write_op_seq p maxb_pos s (DASet rs) rs (survives s (DASet rs)) G eq_refl Hne Hsort Hmono) as (sp & Esp & Hnx & Hseq). cbn zeta in Hnx, Hseq.
      unfold script, exec, script. rewrite Esp. eexists. split; [reflexivity|].
      destruct (seq_from_eq' _ _ _ _ Hseq) as [Hall Hfin]. split; [exact Hall|].
      intros s' [= <-]. split; [apply Hfin|cbn; lia].
    - (* Truncate *)
      unfold script, exec, script. eexists. split; [reflexivity|].
      destruct (seq_from_eq _ _ _ _ (trunc_op_seq s t G)) as [Hall Hfin]. split; [exact Hall|].
      intros s' [= <-]. split; [|cbn; lia]. destruct Hfin as [[Hat _]|(segs & c & Hm & Hne & Hidx & Hcb & Himg & _)].
      + pose proof (good_meq s _ G (meq_sym _ _ Hat)) as G'. exact G'.
      + set (dF := mkDisk segs [] (d_scr (s_disk s)) (d_hw (s_disk s)) c) in *.
        assert (GF : Good (mkSt dF (s_hw s))) by (apply mid_good; [apply Himg|exact Hne|exact Hidx|reflexivity|exact Hcb]).
        apply (good_meq _ _ GF). apply meq_sym. exact Hm.
    - (* Clean *)
      unfold script, exec, script. eexists. split; [reflexivity|].
      destruct (seq_from_eq _ _ _ _ (clean_op_seq key_of p s G ttl)) as [Hall Hfin]. split; [exact Hall|].
      intros s' [= <-]. split; [|cbn; lia]. destruct Hfin as (segs & c & Hm & Hne & Hidx & Hcb & Himg & _ & _).
      assert (GF : Good (mkSt (cmk s segs [] c) (s_hw s))) by (apply mid_good; [apply Himg|exact Hne|exact Hidx|reflexivity|exact Hcb]).
      apply (good_meq _ _ GF). apply meq_sym. exact Hm.
    - (* SetHighWatermark *)
      unfold script, exec, script. eexists. split; [reflexivity|]. split.
      + intros n. destruct n; cbn; apply good_image; exact G.
      + intros s' [= <-]. cbn [run_effs fold_left s_hw]. destruct (Z.ltb_spec (s_hw s) h); [split; [apply good_hw_up; [exact G|lia]|lia]|split; [destruct s; exact G|lia]].
    - (* checkpoint *)
      unfold script, exec, script. eexists. split; [reflexivity|].
      destruct (seq_from_eq' _ _ _ _ (checkpoint_seq s DCheckpoint (survives s DCheckpoint) G)) as [Hall Hfin]. split; [exact Hall|].
      intros s' [= <-]. split; [exact (good_with_hw s (s_hw s) G ltac:(lia))|cbn; lia].
    - (* NewLeaderEpoch *)
      unfold script, exec, script. eexists. split; [reflexivity|].
      destruct (seq_from_eq' _ _ _ _ (epoch_seq s (DEpoch e) (survives s (DEpoch e)) e G)) as [Hall Hfin]. cbn zeta in Hall, Hfin. split; [exact Hall|].
      intros s' [= <-]. split; [apply Hfin|cbn; lia].
    - (* Close + New *)
      unfold script, exec, script. eexists. split; [reflexivity|].
      destruct (seq_from_eq' _ _ _ _ (checkpoint_seq s DReopen (survives s DReopen) G)) as [Hall Hfin]. split; [exact Hall|].
      intros s' [= <-].
      pose proof (good_with_hw s (s_hw s) G ltac:(lia)) as G'. pose proof (good_mid _ G') as M. cbn [s_disk s_hw] in M.
      destruct (mid_recover _ _ M) as (GR & _ & _ & _ & _). split; [exact GR|].
      cbn. lia.
  Qed.

  (* ---- the crash theorem for one operation ---- *)
  Theorem crash_safe s o n s' : Good s -> op_ok s o -> crash key_of fixed p s o n = Some s' ->
    Good s' /\ s_hw s' <= s_hw s /\
    (forall x, In x (content (s_disk s')) -> In x (content (s_disk s)) \/ In x (incoming s o)) /\
    (forall x, In x (content (s_disk s)) -> survives s o x -> In x (content (s_disk s'))).
  Proof.
    intros G Hok Hc. destruct (op_prefixes s o G Hok) as (es & Es & Hall & _). unfold crash in Hc. rewrite Es in Hc. injection Hc as <-.
    destruct (Hall n) as (M & A & B). destruct (mid_recover _ _ M) as (GR & Hcont & Hhw & _ & _). cbn [s_disk s_hw].
    split; [exact GR|]. split; [exact Hhw|]. rewrite Hcont. split; assumption.
  Qed.

  Theorem crash_recovers s o n : Good s -> op_ok s o -> exists s', crash key_of fixed p s o n = Some s'.
  Proof. intros G Hok. destruct (op_prefixes s o G Hok) as (es & Es & _). unfold crash. rewrite Es. eexists. reflexivity. Qed.

  Theorem exec_good s o : Good s -> op_ok s o -> exists s', exec key_of fixed p s o = Some s' /\ Good s'.
  Proof.
    intros G Hok. destruct (op_prefixes s o G Hok) as (es & Es & _ & Hex). unfold exec in *. rewrite Es in *. eexists. split; [reflexivity|]. apply (Hex _ eq_refl).
  Qed.

  (* the recovered log has strictly increasing offsets: no offset twice *)
  Lemma good_sorted s : Good s -> sorted_from 0 (content (s_disk s)).
  Proof. intros G. rewrite content_flat. apply (flat_sorted 0 _ ltac:(lia) (WF_segs_wf _ (g_wf _ G))). Qed.

  (* ---- histories ---- *)
  Definition op_of (h : hstep) : dop := match h with HDo o => o | HCrash o _ => o end.

  Fixpoint hist_ok (s : st) (hs : list hstep) : Prop :=
    match hs with
    | [] => True
    | h :: r => op_ok s (op_of h) /\ forall s', hstep_run key_of fixed p (Some s) h = Some s' -> hist_ok s' r
    end.

  Lemma init_good : exists s0, init key_of fixed p = Some s0 /\ Good s0 /\ content (s_disk s0) = [].
  Proof.
    eexists. split; [reflexivity|]. split; [|reflexivity]. split; cbn.
    - discriminate.
    - apply WF_single0.
    - intros m [<-|[]]. reflexivity.
    - reflexivity.
    - exact I.
    - intros e s0 [].
    - intros x [].
    - lia.
  Qed.

  Theorem history_safe hs : forall s, Good s -> hist_ok s hs ->
    exists s', fold_left (hstep_run key_of fixed p) hs (Some s) = Some s' /\ Good s'.
  Proof.
    induction hs as [|h r IH]; intros s G Hok; [exists s; split; [reflexivity|exact G]|].
    destruct Hok as [Hop Hrest]. cbn [fold_left].
    assert (Hstep : exists s1, hstep_run key_of fixed p (Some s) h = Some s1 /\ Good s1).
    { destruct h as [o|o n]; cbn [hstep_run op_of] in *.
      - apply exec_good; assumption.
      - destruct (crash_recovers s o n G Hop) as (s1 & E). exists s1. split; [exact E|]. apply (crash_safe s o n s1 G Hop E). }
    destruct Hstep as (s1 & E1 & G1). rewrite E1. apply IH; [exact G1|apply Hrest; exact E1].
  Qed.
  (* ---- completed operations are the operations of the in-memory model (C01, C08, C09) ---- *)
  Definition model_op (l : log) (o : dop) : log :=
    match o with
    | DCreate => l
    | DAppend ms => append_log (p_maxb p) false l ms
    | DASet rs => match append_set (p_maxb p) l rs with Ok (l', _) => l' | _ => l end
    | DTrunc t => truncate l t
    | DClean ttl => if p_compact p then clean_compact key_of false (p_lim p) ttl l else clean (p_lim p) ttl l
    | DSetHw h => set_hw l h
    | DCheckpoint => l
    | DEpoch e => new_leader_epoch l e
    | DReopen => reopen l
    end.

  Lemma split_check s : Good s -> l_segs (check_split (p_maxb p) (log_of s)) = split_segs p (segs_of (s_disk s)) /\
    s_next (active (check_split (p_maxb p) (log_of s))) = next_of s /\
    l_hw (check_split (p_maxb p) (log_of s)) = s_hw s /\ l_cache (check_split (p_maxb p) (log_of s)) = d_ep (s_disk s) /\
    l_ro (check_split (p_maxb p) (log_of s)) = false.
  Proof.
    intros G. destruct (good_active s G) as (pre & a & E & Ha & Hidx & Hnx & H0 & Hpre & Hbelow).
    unfold check_split, split_segs, active, log_of, segs_of. cbn [l_segs l_hw l_cache l_ro]. rewrite E, map_app, rev_app_distr. cbn [map rev app]. rewrite last_last.
    destruct (p_maxb p <=? s_pos (m_seg a)); cbn [l_segs l_hw l_cache l_ro].
    - repeat split; try reflexivity. rewrite last_last. cbn. rewrite Hnx. reflexivity.
    - repeat split; try reflexivity. rewrite last_last. rewrite Hnx. reflexivity.
  Qed.

  Lemma segs_ne s : Good s -> segs_of (s_disk s) <> [].
  Proof. intros G. unfold segs_of. pose proof (g_ne _ G). destruct (d_segs (s_disk s)); [contradiction|discriminate]. Qed.

  Lemma reopen_eq s : Good s ->
    log_of (mkSt (recover fixed (with_hw (s_disk s) (s_hw s))) (d_hw (recover fixed (with_hw (s_disk s) (s_hw s))))) = reopen (log_of s).
  Proof.
    intros G.
    pose proof (good_with_hw s (s_hw s) G ltac:(lia)) as G'. pose proof (good_mid _ G') as M. cbn [s_disk s_hw] in M.
    destruct (mid_recover _ _ M) as (_ & _ & _ & _ & Hsegs). specialize (Hsegs (g_ne _ G)).
    unfold reopen, log_of. cbn [s_disk s_hw l_segs l_hw l_cache]. rewrite Hsegs. change (segs_of (with_hw (s_disk s) (s_hw s))) with (segs_of (s_disk s)).
    destruct (good_active s G) as (pre & a & E & Ha & Hidx & Hnx & H0a & _).
    assert (Hfixall : map (fix_idx fixed) (d_segs (s_disk s)) = d_segs (s_disk s)).
    { rewrite <- (map_id (d_segs (s_disk s))) at 2. apply map_ext_in. intros m Hm. rewrite fix_idx_fixable by (left; unfold m_fi; rewrite (g_idx _ G m Hm); reflexivity).
      destruct m as [sg ix]. cbn [m_seg m_idx m_recs]. rewrite <- (g_idx _ G _ Hm). reflexivity. }
    unfold recover. cbn [d_ep with_hw d_segs d_hw]. rewrite Hfixall.
    assert (Hact : active (mkLog (segs_of (s_disk s)) (s_hw s) (d_ep (s_disk s)) false) = m_seg a).
    { unfold active, segs_of. cbn [l_segs]. rewrite E, map_app. cbn [map]. apply last_last. }
    assert (Hold : match d_segs (s_disk s) with [] => -1 | m :: _ => match m_fi m with [] => -1 | r :: _ => r_off r end end =
                   oldest (mkLog (segs_of (s_disk s)) (s_hw s) (d_ep (s_disk s)) false)).
    { unfold oldest, segs_of. cbn [l_segs]. destruct (d_segs (s_disk s)) as [|m0 mt] eqn:Eseg; [reflexivity|]. cbn [map].
      unfold s_first, m_fi. rewrite (g_idx _ G m0 ltac:(rewrite Eseg; left; reflexivity)). reflexivity. }
    assert (Hne : d_segs (s_disk s) <> []) by apply (g_ne _ G).
    unfold next_of in Hnx. rewrite Ha in Hnx.
    destruct (d_segs (s_disk s)) as [|m0 mt] eqn:Eseg; [contradiction|].
    rewrite <- Hold. change (last (m0 :: mt) dummy_m) with (last (m0 :: mt) dummy_m).
    assert (Hlast : last (m0 :: mt) dummy_m = a) by (rewrite <- Ha; unfold d_active; rewrite Eseg; reflexivity).
    rewrite Hlast, Hact, Hnx. reflexivity.
  Qed.

  Theorem exec_refines s o s' : Good s -> op_ok s o -> exec key_of fixed p s o = Some s' -> log_of s' = model_op (log_of s) o.
  Proof.
    intros G Hok. destruct o as [|ms|rs|t|ttl|h| |e|]; cbn [op_ok] in Hok; try contradiction.
    - (* Append *)
      destruct Hok as [Hne Hmono].
      destruct (write_op_seq p maxb_pos s (DAppend ms) (number (next_of s) ms) (survives s (DAppend ms)) G eq_refl (number_ne _ _ Hne) (number_sorted _ _) Hmono)
        as (sp & Esp & Hnx & Hseq). cbn zeta in Hnx, Hseq.
      unfold exec, script. rewrite Esp, Hnx. destruct (seq_from_eq' _ _ _ _ Hseq) as [_ (_ & _ & Hs & Hc & Hh)].
      intros [= <-]. destruct (split_check s G) as (C1 & C2 & C3 & C4 & C5).
      cbn [model_op]. unfold append_log, append. cbn [log_of l_ro andb]. destruct ms as [|m0 mt]; [contradiction|].
      unfold write. rewrite C1, C2, C3, C4, C5. unfold log_of. cbn [s_disk s_hw]. rewrite Hs, Hc. reflexivity.
    - (* AppendMessageSet *)
      destruct Hok as (Hne & Hsort & Hmono).
      destruct (write_op_seq p maxb_pos s (DASet rs) rs (survives s (DASet rs)) G eq_refl Hne Hsort Hmono) as (sp & Esp & Hnx & Hseq). cbn zeta in Hnx, Hseq.
      unfold exec, script. rewrite Esp. destruct (seq_from_eq' _ _ _ _ Hseq) as [_ (_ & _ & Hs & Hc & Hh)].
      intros [= <-]. destruct (split_check s G) as (C1 & C2 & C3 & C4 & C5).
      cbn [model_op]. unfold append_set. destruct rs as [|r0 rt]; [contradiction|].
      unfold write. rewrite C1, C3, C4, C5. unfold log_of. cbn [s_disk s_hw]. rewrite Hs, Hc. reflexivity.
    - (* Truncate *)
      unfold exec, script. destruct (seq_from_eq _ _ _ _ (trunc_op_seq s t G)) as [_ Hfin]. intros [= <-]. cbn [model_op].
      destruct Hfin as [[(A & _ & _ & D) Et]|(segs & c & (A & _ & _ & D) & _ & _ & _ & _ & Eq)].
      + rewrite Et. unfold log_of, segs_of. cbn [s_disk s_hw]. rewrite A, D. reflexivity.
      + rewrite <- Eq. unfold log_of, segs_of. cbn [s_disk s_hw d_segs d_ep] in *. rewrite A, D. reflexivity.
    - (* Clean *)
      unfold exec, script. destruct (seq_from_eq _ _ _ _ (clean_op_seq key_of p s G ttl)) as [_ Hfin]. intros [= <-]. cbn [model_op].
      destruct Hfin as (segs & c & (A & _ & _ & D) & _ & _ & _ & _ & Es & Ec).
      unfold log_of at 1, segs_of. cbn [s_disk s_hw cmk d_segs d_ep] in *. rewrite A, D, Es, Ec.
      unfold clean_target, clean_cache, clean_compact, clean, log_of. cbn [l_segs l_hw l_cache l_ro].
      change (retain (p_lim p) ttl (segs_of (s_disk s))) with (s3 p s ttl).
      destruct (p_compact p); [|reflexivity]. destruct (s3 p s ttl) as [|a [|b u]]; reflexivity.
    - (* SetHighWatermark *)
      unfold exec, script. intros [= <-]. cbn [model_op run_effs fold_left]. unfold set_hw, log_of. cbn [l_hw s_hw s_disk].
      destruct (s_hw s <? h); reflexivity.
    - (* checkpoint *)
      unfold exec, script. intros [= <-]. reflexivity.
    - (* NewLeaderEpoch *)
      unfold exec, script. destruct (seq_from_eq' _ _ _ _ (epoch_seq s (DEpoch e) (survives s (DEpoch e)) e G)) as [_ [Hfin _]]. cbn zeta in Hfin.
      intros [= <-]. cbn [model_op]. unfold new_leader_epoch, log_of. cbn [s_disk s_hw l_segs l_hw l_cache l_ro].
      unfold next_of in Hfin. rewrite Hfin. cbn [with_ep d_segs d_ep segs_of].
      destruct (good_active s G) as (pre & a & E & Ha & Hidx & Hnx & _). unfold newest, active. cbn [l_segs]. unfold segs_of at 3. rewrite E, map_app. cbn [map]. rewrite last_last.
      unfold next_of in Hnx. rewrite Hnx. unfold segs_of. f_equal. f_equal. lia.
    - (* Close + New *)
      unfold exec, script. intros [= <-]. cbn [model_op]. exact (reopen_eq s G).
  Qed.
End Safety.

(* ---- the recovered log as the in-memory model of C01 sees it ---- *)
Lemma good_wf s : Good s -> wf (log_of s) /\ all_recs (log_of s) = content (s_disk s).
Proof.
  intros G. split; [split|].
  - cbn [log_of l_segs]. unfold segs_of. pose proof (g_ne _ G). destruct (d_segs (s_disk s)); [contradiction|discriminate].
  - cbn [log_of l_segs]. apply WF_segs_wf. apply (g_wf _ G).
  - unfold all_recs, log_of, content, segs_of. cbn [l_segs]. rewrite map_map. reflexivity.
Qed.

(* hence C01's reader theorem applies to whatever a crash leaves: an uncommitted reader from any
   offset within the log returns exactly the recovered records at or above it *)
Lemma recovered_read s o : Good s ->
  fst (read_uncommitted (log_of s) o) = filter (ge_off o) (content (s_disk s)).
Proof.
  intros G. destruct (good_wf s G) as [Hw Hc]. destruct (read_uncommitted_refines (log_of s) o Hw) as [H _].
  rewrite H, Hc. reflexivity.
Qed.
