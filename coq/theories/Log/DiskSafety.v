(* Crash safety of the partition log: the statements over operations and histories. *)
From LB Require Import Base.Prelude Log.Model Log.Retention Log.Compact Log.Proofs Log.Refine Log.Disk Log.DiskBase Log.DiskProofs Log.DiskBlocks Log.DiskTrunc Log.DiskClean Log.DiskCleanOp.
From Coq Require Import ZifyBool.
Open Scope Z_scope.

Lemma mid_good H d : Mid H d -> d_segs d <> [] -> (forall m, In m (d_segs d) -> m_idx m = Some (m_recs m)) -> d_orph d = [] ->
  cbound (d_ep d) (m_next (d_active d)) -> Good (mkSt d H).
Proof.
  intros M Hne Hidx Ho Hb. split; cbn [s_disk s_hw]; try assumption; apply M.
Qed.

Lemma image_weaken s o (K K' : rec -> Prop) d : (forall x, K' x -> K x) -> Image s o K d -> Image s o K' d.
Proof. intros H (A & B & C). split; [exact A|split; [exact B|intros x Hx HK; apply C; [exact Hx|apply H; exact HK]]]. Qed.

Section Safety.
  Variable key_of : bytes -> option bytes.
  Variable p : params.
  Hypothesis maxb_pos : 0 < p_maxb p.

  (* ---- Truncate, assembled ---- *)
  Lemma map_split3 {A B} (f : A -> B) l a x b : map f l = a ++ x :: b ->
    exists l1 y l2, l = l1 ++ y :: l2 /\ map f l1 = a /\ f y = x /\ map f l2 = b.
  Proof.
    intros E. apply map_eq_app in E. destruct E as (l1 & l2' & -> & E1 & E2). apply map_eq_cons in E2. destruct E2 as (y & l2 & -> & E2 & E3).
    exists l1, y, l2. repeat split; assumption.
  Qed.

  Definition trunc_final (s : st) (o : Z) (d : disk) : Prop :=
    exists segs c, meq d (mkDisk segs [] (d_scr (s_disk s)) (d_hw (s_disk s)) c) /\
      segs <> [] /\ (forall m, In m segs -> m_idx m = Some (m_recs m)) /\ cbound c (m_next (last segs dummy_m)) /\
      Image s (DTrunc o) (K o) (mkDisk segs [] (d_scr (s_disk s)) (d_hw (s_disk s)) c).

  Lemma trunc_op_seq s o : Good s ->
    seq (Image s (DTrunc o) (K o)) (at_ (s_disk s)) (trunc_effs fixed (s_disk s) o)
        (fun d => at_ (s_disk s) d \/ trunc_final s o d).
  Proof.
    intros G. destruct (find_segment (segs_of (s_disk s)) o) as [[i st]|] eqn:Hfind.
    2:{ unfold trunc_effs. rewrite Hfind.
        apply (seq_conseq (Image s (DTrunc o) (K o)) (at_ (s_disk s)) _ (at_ (s_disk s)) _); [auto|intros d Hd; left; exact Hd|].
        apply seq_nil. intros d Hd. apply (image_main s o (s_disk s) d); [apply meq_sym; exact Hd|apply good_image; exact G]. }
    destruct (find_segment_some _ _ _ _ Hfind) as (preS & postS & E & Hlen & Hlt & Hpre).
    unfold segs_of in E. destruct (map_split3 _ _ _ _ _ E) as (pre & t & later & Hshape & E1 & E2 & E3). subst preS st postS.
    rewrite map_length in Hlen.
    destruct (trunc_seq s G o pre t later Hshape Hlt Hpre i (eq_sym Hlen) Hfind) as (Hseq & Hne & Hcb).
    eapply seq_conseq; [intros d Hd; exact Hd| |exact Hseq].
    intros d Hd. right. destruct (Hseq (s_disk s) (meq_refl _)) as [Hall Hfin].
    exists (final_segs o pre t i), (cfin s o t i). split; [exact Hd|].
    assert (Himg : Image s (DTrunc o) (K o) (mk s (final_segs o pre t i) [] (cfin s o t i))).
    { apply (image_main s o (run_effs (s_disk s) (trunc_effs fixed (s_disk s) o)) _ Hfin).
      specialize (Hall (length (trunc_effs fixed (s_disk s) o))). rewrite firstn_all in Hall. exact Hall. }
    assert (Hidx : forall m, In m (final_segs o pre t i) -> m_idx m = Some (m_recs m)).
    { intros m Hm. unfold final_segs in Hm.
      assert (Hp : forall m, In m pre -> m_idx m = Some (m_recs m)) by (intros m' Hm'; apply (g_idx _ G); rewrite Hshape; apply in_or_app; left; exact Hm').
      destruct ((m_base t =? o) && negb (Nat.eqb i 0)); [apply Hp; exact Hm|].
      apply in_app_or in Hm. destruct Hm as [Hm|[<-|[]]]; [apply Hp; exact Hm|reflexivity]. }
    split; [exact Hne|]. split; [exact Hidx|]. split; [|exact Himg].
    (* the index-based next offset of the last segment is its true next offset *)
    destruct (exists_last Hne) as (fl & fx & Ef). rewrite Ef, last_last in *.
    assert (Hin : In fx (final_segs o pre t i)) by (rewrite Ef; apply in_or_app; right; left; reflexivity).
    destruct Himg as (M & _ & _). pose proof (mi_wf _ _ M) as Hw. unfold segs_of in Hw. cbn [mk d_segs] in Hw.
    assert (Hfx : In fx (fl ++ [fx])) by (apply in_or_app; right; left; reflexivity).
    rewrite m_next_consistent; [exact Hcb|apply Hidx; exact Hfx| |].
    - apply (WF_base_nonneg _ (m_seg fx) Hw). apply in_map. exact Hfx.
    - apply (wf_sorted _ Hw (m_seg fx)). apply in_map. exact Hfx.
  Qed.

  (* ---- what an operation may remove, and what it must be given ---- *)
  Definition survives (s : st) (o : dop) (x : rec) : Prop :=
    match o with
    | DTrunc t => r_off x < t
    | DClean ttl => Kc key_of p s ttl x       (* a record of the segments the clean leaves *)
    | _ => True
    end.

  Definition op_ok (s : st) (o : dop) : Prop :=
    match o with
    | DCreate => False                    (* only commitlog.New on an empty directory: `init` *)
    | DAppend ms => ms <> [] /\ ep_mono (cache_latest_epoch (d_ep (s_disk s))) (number (next_of s) ms)
    | DASet rs => rs <> [] /\ sorted_from (next_of s) rs /\ ep_mono (cache_latest_epoch (d_ep (s_disk s))) rs
    | _ => True
    end.

  Lemma seq_from_eq (R : disk -> Prop) d0 es (Q : disk -> Prop) : seq R (at_ d0) es Q ->
    (forall n, R (run_effs d0 (firstn n es))) /\ Q (run_effs d0 es).
  Proof. intros H. apply (H d0 (meq_refl d0)). Qed.

  Lemma seq_from_eq' (R : disk -> Prop) d0 es (Q : disk -> Prop) : seq R (fun d => d = d0) es Q ->
    (forall n, R (run_effs d0 (firstn n es))) /\ Q (run_effs d0 es).
  Proof. intros H. apply (H d0 eq_refl). Qed.

  Lemma good_hw_up s h : Good s -> s_hw s <= h -> Good (mkSt (s_disk s) h).
  Proof. intros G Hh. split; cbn [s_disk s_hw]; try apply G. pose proof (g_hw _ G). lia. Qed.

  Theorem op_prefixes s o : Good s -> op_ok s o -> exists es, script key_of fixed p s o = Some es /\
    (forall n, Image s o (survives s o) (run_effs (s_disk s) (firstn n es))) /\
    (forall s', exec key_of fixed p s o = Some s' -> Good s' /\ s_hw s <= s_hw s').
  Proof.
    intros G Hok. destruct o as [|ms|rs|t|ttl|h| |e|]; cbn [op_ok] in Hok; try contradiction.
    - (* Append *)
      destruct Hok as [Hne Hmono].
      destruct (write_op_seq p maxb_pos s (DAppend ms) (number (next_of s) ms) (survives s (DAppend ms)) G eq_refl (number_ne _ _ Hne) (number_sorted _ _) Hmono)
        as (sp & Esp & Hnx & Hseq). cbn zeta in Hnx, Hseq.
      unfold script, exec, script. rewrite Esp. rewrite Hnx. eexists. split; [reflexivity|].
      destruct (seq_from_eq' _ _ _ _ Hseq) as [Hall Hfin]. split; [exact Hall|].
      intros s' [= <-]. split; [apply Hfin|cbn; lia].
    - (* AppendMessageSet *)
      destruct Hok as (Hne & Hsort & Hmono).
      destruct (write_op_seq p maxb_pos s (DASet rs) rs (survives s (DASet rs)) G eq_refl Hne Hsort Hmono) as (sp & Esp & Hnx & Hseq). cbn zeta in Hnx, Hseq.
      unfold script, exec, script. rewrite Esp. eexists. split; [reflexivity|].
      destruct (seq_from_eq' _ _ _ _ Hseq) as [Hall Hfin]. split; [exact Hall|].
      intros s' [= <-]. split; [apply Hfin|cbn; lia].
    - (* Truncate *)
      unfold script, exec, script. eexists. split; [reflexivity|].
      destruct (seq_from_eq _ _ _ _ (trunc_op_seq s t G)) as [Hall Hfin]. split; [exact Hall|].
      intros s' [= <-]. split; [|cbn; lia]. destruct Hfin as [Hat|(segs & c & Hm & Hne & Hidx & Hcb & Himg)].
      + pose proof (good_meq s _ G (meq_sym _ _ Hat)) as G'. exact G'.
      + set (dF := mkDisk segs [] (d_scr (s_disk s)) (d_hw (s_disk s)) c) in *.
        assert (GF : Good (mkSt dF (s_hw s))) by (apply mid_good; [apply Himg|exact Hne|exact Hidx|reflexivity|exact Hcb]).
        apply (good_meq _ _ GF). apply meq_sym. exact Hm.
    - (* Clean *)
      unfold script, exec, script. eexists. split; [reflexivity|].
      destruct (seq_from_eq _ _ _ _ (clean_op_seq key_of p s G ttl)) as [Hall Hfin]. split; [exact Hall|].
      intros s' [= <-]. split; [|cbn; lia]. destruct Hfin as (segs & c & Hm & Hne & Hidx & Hcb & Himg).
      assert (GF : Good (mkSt (cmk s segs [] c) (s_hw s))) by (apply mid_good; [apply Himg|exact Hne|exact Hidx|reflexivity|exact Hcb]).
      apply (good_meq _ _ GF). apply meq_sym. exact Hm.
    - (* SetHighWatermark *)
      unfold script, exec, script. eexists. split; [reflexivity|]. split.
      + intros n. destruct n; cbn; apply good_image; exact G.
      + intros s' [= <-]. cbn [run_effs fold_left s_hw]. destruct (Z.ltb_spec (s_hw s) h); [split; [apply good_hw_up; [exact G|lia]|lia]|split; [destruct s; exact G|lia]].
    - (* checkpoint *)
      unfold script, exec, script. eexists. split; [reflexivity|].
      destruct (seq_from_eq' _ _ _ _ (checkpoint_seq s DCheckpoint (survives s DCheckpoint) G)) as [Hall Hfin]. split; [exact Hall|].
      intros s' [= <-]. split; [exact (good_with_hw s (s_hw s) G ltac:(lia))|cbn; lia].
    - (* NewLeaderEpoch *)
      unfold script, exec, script. eexists. split; [reflexivity|].
      destruct (seq_from_eq' _ _ _ _ (epoch_seq s (DEpoch e) (survives s (DEpoch e)) e G)) as [Hall Hfin]. cbn zeta in Hall, Hfin. split; [exact Hall|].
      intros s' [= <-]. split; [apply Hfin|cbn; lia].
    - (* Close + New *)
      unfold script, exec, script. eexists. split; [reflexivity|].
      destruct (seq_from_eq' _ _ _ _ (checkpoint_seq s DReopen (survives s DReopen) G)) as [Hall Hfin]. split; [exact Hall|].
      intros s' [= <-].
      pose proof (good_with_hw s (s_hw s) G ltac:(lia)) as G'. pose proof (good_mid _ G') as M. cbn [s_disk s_hw] in M.
      destruct (mid_recover _ _ M) as (GR & _ & _ & _ & _). split; [exact GR|].
      cbn. lia.
  Qed.

  (* ---- the crash theorem for one operation ---- *)
  Theorem crash_safe s o n s' : Good s -> op_ok s o -> crash key_of fixed p s o n = Some s' ->
    Good s' /\ s_hw s' <= s_hw s /\
    (forall x, In x (content (s_disk s')) -> In x (content (s_disk s)) \/ In x (incoming s o)) /\
    (forall x, In x (content (s_disk s)) -> survives s o x -> In x (content (s_disk s'))).
  Proof.
    intros G Hok Hc. destruct (op_prefixes s o G Hok) as (es & Es & Hall & _). unfold crash in Hc. rewrite Es in Hc. injection Hc as <-.
    destruct (Hall n) as (M & A & B). destruct (mid_recover _ _ M) as (GR & Hcont & Hhw & _ & _). cbn [s_disk s_hw].
    split; [exact GR|]. split; [exact Hhw|]. rewrite Hcont. split; assumption.
  Qed.

  Theorem crash_recovers s o n : Good s -> op_ok s o -> exists s', crash key_of fixed p s o n = Some s'.
  Proof. intros G Hok. destruct (op_prefixes s o G Hok) as (es & Es & _). unfold crash. rewrite Es. eexists. reflexivity. Qed.

  Theorem exec_good s o : Good s -> op_ok s o -> exists s', exec key_of fixed p s o = Some s' /\ Good s'.
  Proof.
    intros G Hok. destruct (op_prefixes s o G Hok) as (es & Es & _ & Hex). unfold exec in *. rewrite Es in *. eexists. split; [reflexivity|]. apply (Hex _ eq_refl).
  Qed.

  (* the recovered log has strictly increasing offsets: no offset twice *)
  Lemma good_sorted s : Good s -> sorted_from 0 (content (s_disk s)).
  Proof. intros G. rewrite content_flat. apply (flat_sorted 0 _ ltac:(lia) (WF_segs_wf _ (g_wf _ G))). Qed.

  (* ---- histories ---- *)
  Definition op_of (h : hstep) : dop := match h with HDo o => o | HCrash o _ => o end.

  Fixpoint hist_ok (s : st) (hs : list hstep) : Prop :=
    match hs with
    | [] => True
    | h :: r => op_ok s (op_of h) /\ forall s', hstep_run key_of fixed p (Some s) h = Some s' -> hist_ok s' r
    end.

  Lemma init_good : exists s0, init key_of fixed p = Some s0 /\ Good s0 /\ content (s_disk s0) = [].
  Proof.
    eexists. split; [reflexivity|]. split; [|reflexivity]. split; cbn.
    - discriminate.
    - apply WF_single0.
    - intros m [<-|[]]. reflexivity.
    - reflexivity.
    - exact I.
    - intros e s0 [].
    - intros x [].
    - lia.
  Qed.

  Theorem history_safe hs : forall s, Good s -> hist_ok s hs ->
    exists s', fold_left (hstep_run key_of fixed p) hs (Some s) = Some s' /\ Good s'.
  Proof.
    induction hs as [|h r IH]; intros s G Hok; [exists s; split; [reflexivity|exact G]|].
    destruct Hok as [Hop Hrest]. cbn [fold_left].
    assert (Hstep : exists s1, hstep_run key_of fixed p (Some s) h = Some s1 /\ Good s1).
    { destruct h as [o|o n]; cbn [hstep_run op_of] in *.
      - apply exec_good; assumption.
      - destruct (crash_recovers s o n G Hop) as (s1 & E). exists s1. split; [exact E|]. apply (crash_safe s o n s1 G Hop E). }
    destruct Hstep as (s1 & E1 & G1). rewrite E1. apply IH; [exact G1|apply Hrest; exact E1].
  Qed.
End Safety.

(* ---- the recovered log as the in-memory model of C01 sees it ---- *)
Definition log_of (s : st) : log := mkLog (segs_of (s_disk s)) (s_hw s) (d_ep (s_disk s)) false.

Lemma good_wf s : Good s -> wf (log_of s) /\ all_recs (log_of s) = content (s_disk s).
Proof.
  intros G. split; [split|].
  - cbn [log_of l_segs]. unfold segs_of. pose proof (g_ne _ G). destruct (d_segs (s_disk s)); [contradiction|discriminate].
  - cbn [log_of l_segs]. apply WF_segs_wf. apply (g_wf _ G).
  - unfold all_recs, log_of, content, segs_of. cbn [l_segs]. rewrite map_map. reflexivity.
Qed.

(* hence C01's reader theorem applies to whatever a crash leaves: an uncommitted reader from any
   offset within the log returns exactly the recovered records at or above it *)
Lemma recovered_read s o : Good s ->
  fst (read_uncommitted (log_of s) o) = filter (ge_off o) (content (s_disk s)).
Proof.
  intros G. destruct (good_wf s G) as [Hw Hc]. destruct (read_uncommitted_refines (log_of s) o Hw) as [H _].
  rewrite H, Hc. reflexivity.
Qed.
