(* Crash model, part 2: a crash INSIDE a write.

   Log/Disk.v takes one file-system effect as the unit of atomicity. Two effects of the commit log
   are not atomic for a process that is killed: the write(2) of a batch to a log file (a killed
   process can leave a short write: some whole frames of the batch and part of the next one), and the
   store of a batch's entries through the index mapping (memmove: some whole entries and part of the
   next one). `tear_eff e k` is the part of the append `e` that arrived whole (its first k frames or
   entries, k < their number); what follows it in the file is described by a `tspot`:

     TJunk t j   j > 0 bytes of an incomplete frame at the end of log file t
     TPart t q   an incomplete, visible (not all-zero) entry at the end of index t whose
                 position + size fields read q

   `recover_t` is commitlog.New on such a directory. segment.setupIndex compares the end of the
   last index entry with the size of the log file (indexCoversLog); when they differ the index is
   rebuilt from the whole frames of the log and the log is cut after the last whole frame
   (rebuildIndex). When they do not differ the junk would stay in the log: such a directory is
   outside what `disk` can describe and `recover_t` answers None -- the theorem shows this never
   happens. The .cleaned/.truncated files are not opened by commitlog.New; a torn one is removed
   before it is used again (v_fresh). *)
From LB Require Import Base.Prelude Log.Model Log.Retention Log.Compact Log.Disk.
Open Scope Z_scope.

Definition tear_eff (e : eff) (k : nat) : option eff :=
  match e with
  | FAppendLog t rs => if (k <? length rs)%nat then Some (FAppendLog t (firstn k rs)) else None
  | FAppendIdx t rs => if (k <? length rs)%nat then Some (FAppendIdx t (firstn k rs)) else None
  | _ => None
  end.

Inductive tspot := TJunk (t : tgt) (j : Z) | TPart (t : tgt) (q : Z).

(* z: nothing visible of the next frame / entry (None), or the junk bytes / the position+size read *)
Definition spot_of (e : eff) (z : option Z) : option tspot :=
  match z, e with
  | Some j, FAppendLog t _ => Some (TJunk t j)
  | Some q, FAppendIdx t _ => Some (TPart t q)
  | _, _ => None
  end.

(* rebuildIndex on segment b: the index lists the whole frames of the log, the junk is cut off *)
Definition rebuilt (d : disk) (b : Z) : disk :=
  set_segs d (seg_upd (d_segs d) b (fun m => mkM (m_seg m) (Some (m_recs m)))).

Definition recover_t (v : variant) (d : disk) (sp : option tspot) : option disk :=
  match sp with
  | None => Some (recover v d)
  | Some (TJunk (TScr _ _) _) | Some (TPart (TScr _ _) _) => if v_fresh v then Some (recover v d) else None
  | Some (TJunk (TMain b) j) =>
    match seg_get (d_segs d) b with
    | Some m => if v_rebuild v && negb (fsize (m_fi m) =? fsize (m_recs m) + j) then Some (recover v (rebuilt d b)) else None
    | None => None
    end
  | Some (TPart (TMain b) q) =>
    match seg_get (d_segs d) b with
    | Some m => if v_rebuild v && negb (q =? fsize (m_recs m)) then Some (recover v (rebuilt d b)) else None
    | None => None
    end
  end.

Definition frame_size (rs : list rec) (k : nat) : Z := match nth_error rs k with Some r => rsize r | None => 0 end.

(* what the physical meaning of a tear imposes on its parameters: the junk is shorter than the frame
   it is part of; the fields of a partial entry are prefixes of the big-endian fields of the entry
   (position = the end of the entries before it, size = the frame's), so they read less *)
Definition tear_ok (d : disk) (e : eff) (k : nat) (z : option Z) : Prop :=
  match z, e with
  | Some j, FAppendLog _ rs => 0 < j < frame_size rs k
  | Some q, FAppendIdx (TMain b) rs =>
    match seg_get (d_segs d) b with Some m => 0 <= q < fsize (m_fi m) + frame_size rs k | None => True end
  | _, _ => True
  end.

Section Torn.
  Variable key_of : bytes -> option bytes.

  (* the process dies inside the effect that follows the first n effects of the operation *)
  Definition crash_torn (v : variant) (p : params) (s : st) (o : dop) (n k : nat) (z : option Z) : option st :=
    match script key_of v p s o with
    | None => None
    | Some es =>
      match nth_error es n with
      | None => None
      | Some e =>
        match tear_eff e k with
        | None => None
        | Some e' =>
          match recover_t v (run_effs (s_disk s) (firstn n es ++ [e'])) (spot_of e z) with
          | Some r => Some (mkSt r (d_hw r))
          | None => None
          end
        end
      end
    end.

  Definition torn_image (v : variant) (p : params) (s : st) (o : dop) (n k : nat) : option (eff * disk) :=
    match script key_of v p s o with
    | None => None
    | Some es =>
      match nth_error es n with
      | None => None
      | Some e => match tear_eff e k with
                  | None => None
                  | Some e' => Some (e, run_effs (s_disk s) (firstn n es ++ [e']))
                  end
      end
    end.
End Torn.

