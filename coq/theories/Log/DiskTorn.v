(* Crash safety for a crash inside a write (the model is Log/DiskTear.v): commitlog.New always finds and
   cuts off what a torn write left, and recovers a good log. *)
From LB Require Import Base.Prelude Log.Model Log.Retention Log.Compact Log.Proofs Log.Refine Log.Disk Log.DiskBase Log.DiskProofs
  Log.DiskBlocks Log.DiskTrunc Log.DiskClean Log.DiskCleanOp Log.DiskSafety Log.DiskTear.
From Coq Require Import ZifyBool.
Open Scope Z_scope.

(* ------------------------------------------------------------------ small facts *)
Lemma image_meq s o keep : main_pred (Image s o keep).
Proof.
  intros d d' Hm (M & A & B). pose proof Hm as (E1 & _ & _ & _). unfold Image, content in *. rewrite <- E1.
  split; [apply (mid_meq _ d d' Hm M)|split; assumption].
Qed.

Lemma fsize_firstn_le rs k : fsize (firstn k rs) <= fsize rs.
Proof.
  rewrite <- (firstn_skipn k rs) at 2. rewrite fsize_app. pose proof (fsize_nonneg (skipn k rs)). lia.
Qed.

Lemma fsize_cons r t : fsize (r :: t) = rsize r + fsize t.
Proof. reflexivity. Qed.

Lemma fsize_firstn_S rs k : fsize (firstn k rs) + frame_size rs k = fsize (firstn (S k) rs).
Proof.
  revert k. induction rs as [|r t IH]; intros k.
  - unfold frame_size. destruct k; cbn; reflexivity.
  - destruct k as [|k].
    + unfold frame_size. cbn [nth_error firstn]. rewrite fsize_cons. cbn. lia.
    + change (frame_size (r :: t) (S k)) with (frame_size t k).
      change (firstn (S k) (r :: t)) with (r :: firstn k t). change (firstn (S (S k)) (r :: t)) with (r :: firstn (S k) t).
      rewrite !fsize_cons. specialize (IH k). lia.
Qed.

Lemma firstn_nil_iff {A} (l : list A) k : (k < length l)%nat -> firstn k l = [] -> k = O.
Proof. destruct l, k; cbn; intros; try lia; discriminate. Qed.

(* segments whose index is right or visibly short stay so when the index is rebuilt *)
Lemma seg_upd_in ms b f m : In m (seg_upd ms b f) -> In m ms \/ exists m0, In m0 ms /\ m = f m0.
Proof.
  induction ms as [|x t IH]; cbn [seg_upd]; [intros []|]. destruct (m_base x =? b).
  - intros [<-|H]; [right; exists x; split; [left; reflexivity|reflexivity]|left; right; exact H].
  - intros [<-|H]; [left; left; reflexivity|]. destruct (IH H) as [H'|(m0 & H1 & H2)]; [left; right; exact H'|right; exists m0; split; [right; exact H1|exact H2]].
Qed.

Lemma seg_upd_segs ms b f : (forall m, m_seg (f m) = m_seg m) -> map m_seg (seg_upd ms b f) = map m_seg ms.
Proof.
  intros Hf. induction ms as [|x t IH]; cbn [seg_upd map]; [reflexivity|]. destruct (m_base x =? b); cbn [map]; [rewrite Hf; reflexivity|rewrite IH; reflexivity].
Qed.

Lemma rebuilt_mid H d b : Mid H d -> Mid H (rebuilt d b).
Proof.
  intros [Hfix Hwf Hcs Hcm Hhw].
  assert (Es : segs_of (rebuilt d b) = segs_of d) by (unfold segs_of, rebuilt; cbn [set_segs d_segs]; apply seg_upd_segs; reflexivity).
  assert (Ec : content (rebuilt d b) = content d) by (rewrite !content_flat, Es; reflexivity).
  split.
  - intros m Hin. unfold rebuilt in Hin. cbn [set_segs d_segs] in Hin. destruct (seg_upd_in _ _ _ _ Hin) as [Hm|(m0 & _ & ->)]; [apply Hfix; exact Hm|left; reflexivity].
  - rewrite Es. exact Hwf.
  - exact Hcs.
  - rewrite Ec. exact Hcm.
  - exact Hhw.
Qed.

Lemma rebuilt_content d b : content (rebuilt d b) = content d.
Proof.
  rewrite !content_flat. unfold segs_of, rebuilt. cbn [set_segs d_segs]. rewrite seg_upd_segs by reflexivity. reflexivity.
Qed.

(* which effects can be torn *)
Definition is_append (e : eff) : bool := match e with FAppendLog _ _ | FAppendIdx _ _ => true | _ => false end.
Definition main_append (e : eff) : bool := match e with FAppendLog (TMain _) _ | FAppendIdx (TMain _) _ => true | _ => false end.
Definition nm (e : eff) : bool := negb (main_append e).
Definition na (e : eff) : bool := negb (is_append e).

Lemma tear_is_append e k e' : tear_eff e k = Some e' -> is_append e = true.
Proof. destruct e; cbn; try discriminate; reflexivity. Qed.

Lemma na_nm e : na e = true -> nm e = true.
Proof. destruct e as [| |[]|[]| | | | | | |]; cbn; intros; try reflexivity; discriminate. Qed.

Lemma forallb_concat {A} (f : A -> bool) bs : (forall b, In b bs -> forallb f b = true) -> forallb f (concat bs) = true.
Proof.
  induction bs as [|b t IH]; intros H; [reflexivity|]. cbn [concat]. rewrite forallb_app, (H b (or_introl eq_refl)), IH; [reflexivity|].
  intros b' Hb'. apply H. right. exact Hb'.
Qed.

(* an append found in a ++ b, where a has none, sits in b *)
Lemma nth_error_skip_na a b n e : forallb na a = true -> nth_error (a ++ b) n = Some e -> is_append e = true ->
  exists n', n = (length a + n')%nat /\ nth_error b n' = Some e /\ firstn n (a ++ b) = a ++ firstn n' b.
Proof.
  intros Ha Hn He. destruct (Nat.lt_ge_cases n (length a)) as [Hlt|Hge].
  - rewrite nth_error_app1 in Hn by exact Hlt. apply nth_error_In in Hn. rewrite forallb_forall in Ha. specialize (Ha e Hn).
    unfold na in Ha. rewrite He in Ha. discriminate.
  - exists (n - length a)%nat. split; [lia|]. rewrite nth_error_app2 in Hn by exact Hge. split; [exact Hn|].
    rewrite firstn_app. rewrite firstn_all2 by exact Hge. reflexivity.
Qed.

Lemma epoch_effs_na rs : forall c, forallb na (epoch_effs c rs) = true.
Proof.
  induction rs as [|r t IH]; intros c; [reflexivity|]. cbn [epoch_effs]. rewrite forallb_app, IH, andb_true_r.
  destruct ((cache_latest_epoch c <? r_ep r)%N && (cache_latest_off c <=? r_off r)); reflexivity.
Qed.

(* ------------------------------------------------------------------ a torn write of a batch into the active segment *)
Lemma write_torn H d1 rs : Good (mkSt d1 H) -> rs <> [] -> sorted_from (m_next (d_active d1)) rs -> ep_mono (cache_latest_epoch (d_ep d1)) rs ->
  let b := m_base (d_active d1) in
  let W := write_effs fixed (d_ep d1) b rs in
  forall n e k e', nth_error W n = Some e -> tear_eff e k = Some e' ->
    let d := run_effs d1 (firstn n W ++ [e']) in
    Mid H d /\ (exists i, content d = content d1 ++ firstn i rs) /\
    exists m, seg_get (d_segs d) b = Some m /\
      ((e = FAppendLog (TMain b) rs /\ fsize (m_fi m) <= fsize (m_recs m)) \/
       (e = FAppendIdx (TMain b) rs /\ fsize (m_fi m) + frame_size rs k <= fsize (m_recs m))).
Proof.
  intros G Hne Hsort Hmono b W n e k e' Hnth Htear.
  destruct (good_active _ G) as (pre & a & E & Ha & Hidx & Hnx & H0 & Hpre & Hbelow). cbn [s_disk] in *.
  unfold next_of in Hnx. cbn [s_disk] in Hnx. subst b W. rewrite Ha in *. set (nx := s_next (m_seg a)) in *. rewrite Hnx in Hsort.
  set (c0 := d_ep d1) in *.
  pose proof (g_wf _ G) as Hw. unfold segs_of in Hw. cbn [s_disk] in Hw.
  assert (Hina : In a (d_segs d1)) by (rewrite E; apply in_or_app; right; left; reflexivity).
  assert (Hsa : sorted_from (m_base a) (m_recs a)) by (apply (wf_sorted _ Hw (m_seg a)); apply in_map; exact Hina).
  assert (Hnx0 : 0 <= nx) by (pose proof (s_next_ge (m_seg a) H0 Hsa); fold (m_base a) in *; lia).
  assert (Hcb : cbound c0 nx) by (intros e0 st Hin; pose proof (g_cbound _ G e0 st Hin) as Hb; cbn [s_disk] in Hb; rewrite Ha, Hnx in Hb; exact Hb).
  destruct (assign_all_ok rs c0 (content d1) nx Hnx0 (g_csorted _ G) Hcb (g_cmatch _ G) Hbelow Hsort Hmono) as (FA & FB & FC & _).
  set (cF := cache_assign_all c0 rs) in *.
  set (dE := with_ep d1 cF).
  set (aL := mkM (mkSeg (m_base a) (m_recs a ++ rs)) (m_idx a)).
  set (dL := set_segs dE (pre ++ [aL])).
  assert (Hprene : forall m, In m pre -> m_base m <> m_base a) by (intros m Hin; specialize (Hpre m Hin); lia).
  assert (HwX : forall i fr, WF (map m_seg (pre ++ [mkM (mkSeg (m_base a) (m_recs a ++ firstn fr rs)) i]))).
  { intros i fr. rewrite map_app. cbn [map m_seg]. rewrite E, map_app in Hw. cbn [map] in Hw. apply (WF_extend_last (map m_seg pre) (m_seg a) (firstn fr rs) Hw).
    apply sorted_from_firstn. exact Hsort. }
  assert (HcX : forall i fr, content (set_segs dE (pre ++ [mkM (mkSeg (m_base a) (m_recs a ++ fr)) i])) = content d1 ++ fr).
  { intros i fr. unfold content at 1 2. cbn [set_segs d_segs]. rewrite E. apply content_extend_last. }
  assert (Hcm : forall fr, cmatch cF (content d1 ++ firstn fr rs)).
  { intros fr x Hx. apply FC. apply in_app_or in Hx. apply in_or_app. destruct Hx as [Hx|Hx]; [left; exact Hx|right].
    rewrite <- (firstn_skipn fr rs). apply in_or_app. left. exact Hx. }
  assert (Hrun : forall tl, run_effs d1 ((epoch_effs c0 rs ++ tl)) = run_effs dE tl).
  { intros tl. rewrite run_effs_app. destruct (epoch_effs_run rs c0 d1 eq_refl) as [_ P2]. rewrite P2. reflexivity. }
  change (write_effs fixed c0 (m_base a) rs) with
    (epoch_effs c0 rs ++ [FPoint PEpochsAssigned; FAppendLog (TMain (m_base a)) rs; FPoint PLogWritten; FAppendIdx (TMain (m_base a)) rs; FPoint PIndexWritten]) in *.
  destruct (nth_error_skip_na _ _ _ _ (epoch_effs_na rs c0) Hnth (tear_is_append _ _ _ Htear)) as (n' & -> & Hn' & ->).
  rewrite <- app_assoc, Hrun.
  destruct n' as [|[|[|[|[|n']]]]]; cbn [nth_error] in Hn'; try (injection Hn' as <-; cbn in Htear; discriminate).
  - (* inside the write to the log *)
    injection Hn' as <-. cbn [tear_eff] in Htear. destruct (Nat.ltb_spec k (length rs)) as [Hk|]; [|discriminate]. injection Htear as <-.
    set (aK := mkM (mkSeg (m_base a) (m_recs a ++ firstn k rs)) (m_idx a)).
    assert (Ed : run_effs dE (firstn 1 [FPoint PEpochsAssigned; FAppendLog (TMain (m_base a)) rs; FPoint PLogWritten; FAppendIdx (TMain (m_base a)) rs; FPoint PIndexWritten]
                              ++ [FAppendLog (TMain (m_base a)) (firstn k rs)]) = set_segs dE (pre ++ [aK])).
    { cbn [firstn app run_effs fold_left apply_eff mapply]. change (d_segs dE) with (d_segs d1). rewrite E, seg_upd_last by exact Hprene. reflexivity. }
    rewrite Ed. split; [|split].
    + split; cbn [set_segs d_segs d_ep d_hw dE with_ep].
      * intros m Hin. apply in_app_or in Hin. destruct Hin as [Hin|[<-|[]]].
        -- left. unfold m_fi. rewrite (g_idx _ G m ltac:(cbn [s_disk]; rewrite E; apply in_or_app; left; exact Hin)). reflexivity.
        -- unfold fixable, m_fi, aK. cbn [m_idx m_recs m_seg s_recs]. rewrite Hidx. destruct (firstn k rs) as [|x t] eqn:Ef; [left; rewrite app_nil_r; reflexivity|right].
           rewrite fsize_app. pose proof (fsize_pos_ne (x :: t) ltac:(discriminate)). lia.
      * apply HwX.
      * exact FA.
      * fold dE. unfold aK. rewrite HcX. apply Hcm.
      * apply (g_hw _ G).
    + exists k. unfold aK. apply HcX.
    + exists aK. split; [cbn [set_segs d_segs]; change (m_base a) with (m_base aK); apply seg_get_last; exact Hprene|]. left. split; [reflexivity|].
      unfold m_fi, aK. cbn [m_idx m_recs m_seg s_recs]. rewrite Hidx, fsize_app. pose proof (fsize_nonneg (firstn k rs)). lia.
  - (* inside the store of the entries *)
    injection Hn' as <-. cbn [tear_eff] in Htear. destruct (Nat.ltb_spec k (length rs)) as [Hk|]; [|discriminate]. injection Htear as <-.
    set (aK := mkM (mkSeg (m_base a) (m_recs a ++ rs)) (Some (m_recs a ++ firstn k rs))).
    assert (Ed : run_effs dE (firstn 3 [FPoint PEpochsAssigned; FAppendLog (TMain (m_base a)) rs; FPoint PLogWritten; FAppendIdx (TMain (m_base a)) rs; FPoint PIndexWritten]
                              ++ [FAppendIdx (TMain (m_base a)) (firstn k rs)]) = set_segs dE (pre ++ [aK])).
    { assert (EL : apply_eff dE (FAppendLog (TMain (m_base a)) rs) = dL).
      { cbn [apply_eff mapply]. change (d_segs dE) with (d_segs d1). rewrite E, seg_upd_last by exact Hprene. reflexivity. }
      cbn [firstn app run_effs fold_left]. change (apply_eff dE (FPoint PEpochsAssigned)) with dE. rewrite EL.
      change (apply_eff dL (FPoint PLogWritten)) with dL.
      cbn [apply_eff mapply]. change (d_segs dL) with (pre ++ [aL]). change (m_base a) with (m_base aL) at 1.
      rewrite seg_upd_last by exact Hprene. unfold dL, aK, aL. cbn [set_segs d_segs d_orph d_scr d_hw d_ep m_seg m_idx]. rewrite Hidx. reflexivity. }
    rewrite Ed. split; [|split].
    + split; cbn [set_segs d_segs d_ep d_hw dE with_ep].
      * intros m Hin. apply in_app_or in Hin. destruct Hin as [Hin|[<-|[]]].
        -- left. unfold m_fi. rewrite (g_idx _ G m ltac:(cbn [s_disk]; rewrite E; apply in_or_app; left; exact Hin)). reflexivity.
        -- right. unfold m_fi, aK. cbn [m_idx m_recs m_seg s_recs]. rewrite !fsize_app.
           assert (fsize (firstn k rs) < fsize rs); [|lia].
           rewrite <- (firstn_skipn k rs) at 2. rewrite fsize_app.
           assert (skipn k rs <> []) by (intros Es; apply (f_equal (@length rec)) in Es; rewrite skipn_length in Es; cbn in Es; lia).
           pose proof (fsize_pos_ne _ H1). lia.
      * specialize (HwX (Some (m_recs a ++ firstn k rs)) (length rs)). rewrite firstn_all in HwX. exact HwX.
      * exact FA.
      * fold dE. unfold aK. rewrite HcX. specialize (Hcm (length rs)). rewrite firstn_all in Hcm. exact Hcm.
      * apply (g_hw _ G).
    + exists (length rs). unfold aK. rewrite firstn_all. apply HcX.
    + exists aK. split; [cbn [set_segs d_segs]; change (m_base a) with (m_base aK); apply seg_get_last; exact Hprene|]. right. split; [reflexivity|].
      unfold m_fi, aK. cbn [m_idx m_recs m_seg s_recs]. rewrite !fsize_app. pose proof (fsize_firstn_S rs k). pose proof (fsize_firstn_le rs (S k)). lia.
  - destruct n'; discriminate.
Qed.

(* ------------------------------------------------------------------ the other operations append to scratch files only *)
Lemma del_effs_nm t : forallb nm (del_effs t) = true.
Proof. reflexivity. Qed.

Lemma copy_effs_nm b s nf : forallb nm (copy_effs (TScr b s) nf) = true.
Proof. unfold copy_effs. apply forallb_concat. intros l Hl. apply in_map_iff in Hl. destruct Hl as (r & <- & _). reflexivity. Qed.

Lemma replace_effs_nm v s b nf pc : forallb nm (replace_effs v s b nf pc) = true.
Proof.
  unfold replace_effs. rewrite !forallb_app, copy_effs_nm. destruct (v_fresh v); reflexivity.
Qed.

Lemma trunc_effs_nm v d o : forallb nm (trunc_effs v d o) = true.
Proof.
  unfold trunc_effs. destruct (find_segment (segs_of d) o) as [[i s]|]; [|reflexivity].
  rewrite !forallb_app. rewrite forallb_concat by (intros l Hl; apply in_map_iff in Hl; destruct Hl as (m & <- & _); apply del_effs_nm).
  cbn [forallb nm main_append negb andb].
  assert (H1 : forallb nm (if (s_base s =? o) && negb (Nat.eqb i 0) then del_effs (TMain (s_base s)) else replace_effs v STrunc (s_base s) (keep_below (s_recs s) o) PTruncCopy) = true)
    by (destruct ((s_base s =? o) && negb (Nat.eqb i 0)); [apply del_effs_nm|apply replace_effs_nm]).
  rewrite H1. cbn [andb]. destruct (cache_latest_off (d_ep d) <? _); reflexivity.
Qed.

Lemma clean_dels_nm l : forallb nm (concat (map clean_del l)) = true.
Proof. apply forallb_concat. intros x Hx. apply in_map_iff in Hx. destruct Hx as (m & <- & _). reflexivity. Qed.

Lemma retention_effs_nm lim ttl segs : forallb nm (fst (retention_effs lim ttl segs)) = true.
Proof. unfold retention_effs. cbn [fst]. rewrite !forallb_app, !clean_dels_nm. reflexivity. Qed.

Lemma compact_one_nm key_of v hw all s : forallb nm (compact_one key_of v hw all s) = true.
Proof.
  unfold compact_one. destruct (filter _ (s_recs s)) as [|x t]; [|apply replace_effs_nm].
  rewrite !forallb_app. destruct (v_fresh v); reflexivity.
Qed.

Lemma clean_effs_nm key_of v c lim ttl d hw : forallb nm (clean_effs key_of v c lim ttl d hw) = true.
Proof.
  unfold clean_effs. pose proof (retention_effs_nm lim ttl (segs_of d)) as Hr. destruct (retention_effs lim ttl (segs_of d)) as [dels s3]. cbn [fst] in Hr.
  assert (Hd : forall tl, forallb nm tl = true -> forallb nm (dels ++ tl) = true) by (intros tl Ht; rewrite forallb_app, Hr, Ht; reflexivity).
  destruct c; [|apply Hd; reflexivity]. destruct s3 as [|s1 [|s2 t]]; try (apply Hd; reflexivity).
  rewrite !forallb_app, Hr. cbn [andb]. rewrite forallb_concat; [reflexivity|].
  intros l Hl. apply in_map_iff in Hl. destruct Hl as (m & <- & _). apply compact_one_nm.
Qed.

Section TornSafety.
  Variable key_of : bytes -> option bytes.
  Variable p : params.
  Hypothesis maxb_pos : 0 < p_maxb p.

  Lemma script_nm s o es : match o with DAppend _ | DASet _ | DCreate => False | _ => True end ->
    script key_of fixed p s o = Some es -> forallb nm es = true.
  Proof.
    destruct o as [|ms|rs|t|ttl|h| |e|]; intros Ho; try contradiction; cbn [script]; intros [= <-]; try reflexivity.
    - apply trunc_effs_nm.
    - apply clean_effs_nm.
    - destruct ((cache_latest_epoch _ <? e)%N && _); reflexivity.
  Qed.

  (* tearing an append to a scratch file changes nothing commitlog.New looks at *)
  Lemma scratch_torn s o keep es n e k e' : forallb nm es = true ->
    (forall i, Image s o keep (run_effs (s_disk s) (firstn i es))) ->
    nth_error es n = Some e -> tear_eff e k = Some e' ->
    Image s o keep (run_effs (s_disk s) (firstn n es ++ [e'])) /\
    forall z, recover_t fixed (run_effs (s_disk s) (firstn n es ++ [e'])) (spot_of e z) = Some (recover fixed (run_effs (s_disk s) (firstn n es ++ [e']))).
  Proof.
    intros Hnm Hall Hn Ht. rewrite forallb_forall in Hnm. specialize (Hnm e (nth_error_In _ _ Hn)).
    rewrite run_effs_app. cbn [run_effs fold_left]. fold (run_effs (s_disk s) (firstn n es)).
    destruct e as [| |[b|b sf] rs|[b|b sf] rs| | | | | | |]; cbn [tear_eff nm main_append negb] in Ht, Hnm; try discriminate; destruct (k <? length rs)%nat; try discriminate; injection Ht as <-.
    - split; [|intros [z|]; reflexivity]. apply (image_meq s o keep (run_effs (s_disk s) (firstn n es))); [apply meq_sym; apply scratch_meq; reflexivity|apply Hall].
    - split; [|intros [z|]; reflexivity]. apply (image_meq s o keep (run_effs (s_disk s) (firstn n es))); [apply meq_sym; apply scratch_meq; reflexivity|apply Hall].
  Qed.

  Lemma split_effs_na d sp : split_effs (p_maxb p) d = Some sp -> forallb na sp = true.
  Proof.
    unfold split_effs. destruct (p_maxb p <=? m_pos (d_active d)); [|intros [= <-]; reflexivity].
    destruct (seg_get (d_segs d) (m_next (d_active d))); [discriminate|intros [= <-]; reflexivity].
  Qed.

  Definition safe_after (s : st) (o : dop) (s' : st) : Prop :=
    Good s' /\ s_hw s' <= s_hw s /\ (forall x, In x (content (s_disk s')) -> In x (content (s_disk s)) \/ In x (incoming s o)) /\ (forall x, In x (content (s_disk s)) -> survives key_of p s o x -> In x (content (s_disk s'))).

  Lemma image_recovers s o d d' : Image s o (survives key_of p s o) d -> Mid (s_hw s) d' -> content d' = content d ->
    let r := recover fixed d' in safe_after s o (mkSt r (d_hw r)).
  Proof.
    intros (M & A & B) M' Ec. destruct (mid_recover _ _ M') as (GR & Hcont & Hhw & _ & _). cbn zeta. unfold safe_after. cbn [s_disk s_hw].
    split; [exact GR|]. split; [exact Hhw|]. rewrite Hcont, Ec. split; assumption.
  Qed.

  (* appends: the torn batch *)
  Lemma append_torn s o rs : Good s -> incoming s o = rs -> rs <> [] -> sorted_from (next_of s) rs ->
    ep_mono (cache_latest_epoch (d_ep (s_disk s))) rs ->
    forall sp, split_effs (p_maxb p) (s_disk s) = Some sp ->
    let d1 := run_effs (s_disk s) sp in
    let es := sp ++ write_effs fixed (d_ep (s_disk s)) (m_base (d_active d1)) rs in
    forall n e k e' z, nth_error es n = Some e -> tear_eff e k = Some e' ->
      let d := run_effs (s_disk s) (firstn n es ++ [e']) in
      tear_ok d e k z ->
      exists r, recover_t fixed d (spot_of e z) = Some r /\ safe_after s o (mkSt r (d_hw r)).
  Proof.
    intros G Hinc Hne Hsort Hmono sp Esp d1 es n e k e' z Hn Ht d Hok.
    destruct (split_seq p maxb_pos s o (survives key_of p s o) G) as (sp' & Esp' & Hseq). rewrite Esp in Esp'. injection Esp' as <-.
    destruct (seq_post_eq _ _ _ _ Hseq) as [_ Hroll]. fold d1 in Hroll.
    destruct Hroll as (G1 & Hc1 & Hep1 & Hnx1 & Hhw1 & Hsg1).
    unfold es in Hn. destruct (nth_error_skip_na _ _ _ _ (split_effs_na _ _ Esp) Hn (tear_is_append _ _ _ Ht)) as (n' & -> & Hn' & Ef).
    assert (Ed : d = run_effs d1 (firstn n' (write_effs fixed (d_ep d1) (m_base (d_active d1)) rs) ++ [e'])).
    { unfold d, es. rewrite Ef, <- app_assoc, run_effs_app. fold d1. rewrite Hep1. reflexivity. }
    rewrite <- Hep1 in Hn'.
    destruct (write_torn (s_hw s) d1 rs G1 Hne ltac:(rewrite Hnx1; exact Hsort) ltac:(rewrite Hep1; exact Hmono) n' e k e' Hn' Ht) as (M & (i & Hc) & m & Hget & Hcase).
    rewrite <- Ed in M, Hc, Hget.
    assert (Himg : Image s o (survives key_of p s o) d).
    { split; [exact M|]. rewrite Hc, Hc1. split.
      - intros x Hx. apply in_app_or in Hx. destruct Hx as [Hx|Hx]; [left; exact Hx|right]. rewrite Hinc, <- (firstn_skipn i rs). apply in_or_app. left. exact Hx.
      - intros x Hx _. apply in_or_app. left. exact Hx. }
    destruct z as [j|].
    2:{ exists (recover fixed d). split; [destruct e; reflexivity|]. apply (image_recovers s o d d Himg M eq_refl). }
    destruct Hcase as [[-> Hle]|[-> Hle]]; cbn [spot_of recover_t tear_ok] in *; rewrite Hget in *; cbn [fixed v_rebuild andb].
    - destruct (Z.eqb_spec (fsize (m_fi m)) (fsize (m_recs m) + j)) as [Eq|_]; [lia|]. cbn [negb].
      eexists. split; [reflexivity|]. apply (image_recovers s o d _ Himg (rebuilt_mid _ _ _ M) (rebuilt_content _ _)).
    - destruct (Z.eqb_spec j (fsize (m_recs m))) as [Eq|_]; [lia|]. cbn [negb].
      eexists. split; [reflexivity|]. apply (image_recovers s o d _ Himg (rebuilt_mid _ _ _ M) (rebuilt_content _ _)).
  Qed.

  (* A crash inside any write of any operation: commitlog.New succeeds on what is left (the junk is
     always found and cut off), and what it recovers is as good as after a crash between two effects. *)
  Theorem torn_safe s o n k z e d : Good s -> op_ok s o ->
    torn_image key_of fixed p s o n k = Some (e, d) -> tear_ok d e k z ->
    exists s', crash_torn key_of fixed p s o n k z = Some s' /\ safe_after s o s'.
  Proof.
    intros G Hok Hti Htok. unfold torn_image in Hti. unfold crash_torn.
    destruct (script key_of fixed p s o) as [es|] eqn:Es; [|discriminate].
    destruct (nth_error es n) as [e0|] eqn:Hn; [|discriminate]. destruct (tear_eff e0 k) as [e'|] eqn:Ht; [|discriminate].
    injection Hti as <- <-.
    assert (Hother : match o with DAppend _ | DASet _ | DCreate => False | _ => True end ->
                     exists s', match recover_t fixed (run_effs (s_disk s) (firstn n es ++ [e'])) (spot_of e0 z) with Some r => Some (mkSt r (d_hw r)) | None => None end = Some s' /\ safe_after s o s').
    { intros Ho. destruct (op_prefixes key_of p maxb_pos s o G Hok) as (es' & Es' & Hall & _). rewrite Es in Es'. injection Es' as <-.
      destruct (scratch_torn s o _ es n e0 k e' (script_nm s o es Ho Es) Hall Hn Ht) as [Himg Hrec]. rewrite Hrec. eexists. split; [reflexivity|].
      destruct Himg as (M & A & B). apply (image_recovers s o _ _ (conj M (conj A B)) M eq_refl). }
    destruct o as [|ms|rs|t|ttl|h| |e|]; cbn [op_ok] in Hok; try contradiction; try (apply Hother; exact I).
    - destruct Hok as [Hne Hmono]. cbn [script] in Es. destruct (split_effs (p_maxb p) (s_disk s)) as [sp|] eqn:Esp; [|discriminate]. injection Es as <-.
      destruct (write_op_seq p maxb_pos s (DAppend ms) (number (next_of s) ms) (survives key_of p s (DAppend ms)) G eq_refl (number_ne _ _ Hne) (number_sorted _ _) Hmono)
        as (sp' & Esp' & Hnx & _). rewrite Esp in Esp'. injection Esp' as <-. cbn zeta in Hnx. rewrite Hnx in *.
      destruct (append_torn s (DAppend ms) (number (next_of s) ms) G eq_refl (number_ne _ _ Hne) (number_sorted _ _) Hmono sp Esp n e0 k e' z Hn Ht Htok) as (r & Hr & Hs).
      rewrite Hr. eexists. split; [reflexivity|exact Hs].
    - destruct Hok as (Hne & Hsort & Hmono). cbn [script] in Es. destruct (split_effs (p_maxb p) (s_disk s)) as [sp|] eqn:Esp; [|discriminate]. injection Es as <-.
      destruct (append_torn s (DASet rs) rs G eq_refl Hne Hsort Hmono sp Esp n e0 k e' z Hn Ht Htok) as (r & Hr & Hs).
      rewrite Hr. eexists. split; [reflexivity|exact Hs].
  Qed.
End TornSafety.

(* ------------------------------------------------------------------ histories with torn writes *)
Section TornHistories.
  Variable key_of : bytes -> option bytes.
  Variable p : params.
  Hypothesis maxb_pos : 0 < p_maxb p.

  Inductive tstep := TStep (h : hstep) | TTorn (o : dop) (n k : nat) (z : option Z).

  Definition tstep_run (s : option st) (t : tstep) : option st :=
    match s with
    | None => None
    | Some s0 => match t with
                 | TStep h => hstep_run key_of fixed p (Some s0) h
                 | TTorn o n k z => crash_torn key_of fixed p s0 o n k z
                 end
    end.

  Definition tstep_ok (s : st) (t : tstep) : Prop :=
    match t with
    | TStep h => op_ok s (op_of h)
    | TTorn o n k z => op_ok s o /\ exists e d, torn_image key_of fixed p s o n k = Some (e, d) /\ tear_ok d e k z
    end.

  Fixpoint thist_ok (s : st) (ts : list tstep) : Prop :=
    match ts with
    | [] => True
    | t :: r => tstep_ok s t /\ forall s', tstep_run (Some s) t = Some s' -> thist_ok s' r
    end.

  Theorem thistory_safe ts : forall s, Good s -> thist_ok s ts ->
    exists s', fold_left tstep_run ts (Some s) = Some s' /\ Good s'.
  Proof.
    induction ts as [|t r IH]; intros s G Hok; [exists s; split; [reflexivity|exact G]|].
    destruct Hok as [Hop Hrest]. cbn [fold_left].
    assert (Hstep : exists s1, tstep_run (Some s) t = Some s1 /\ Good s1).
    { destruct t as [h|o n k z]; cbn [tstep_run tstep_ok] in *.
      - destruct (history_safe key_of p maxb_pos [h] s G) as (s1 & E1 & G1); [split; [exact Hop|intros; exact I]|]. exists s1. split; [exact E1|exact G1].
      - destruct Hop as (Hop & e & d & Hti & Htok). destruct (torn_safe key_of p maxb_pos s o n k z e d G Hop Hti Htok) as (s1 & E1 & G1 & _).
        exists s1. split; [exact E1|exact G1]. }
    destruct Hstep as (s1 & E1 & G1). rewrite E1. apply IH; [exact G1|apply Hrest; exact E1].
  Qed.
End TornHistories.
