(* Crash safety, part 3: Truncate. *)
From LB Require Import Base.Prelude Log.Model Log.Retention Log.Compact Log.Proofs Log.Refine Log.Disk Log.DiskBase Log.DiskProofs Log.DiskBlocks.
From Coq Require Import ZifyBool.
Open Scope Z_scope.

(* ------------------------------------------------------------------ lists of segments *)
Lemma seg_get_mid front x rest : (forall m, In m front -> m_base m <> m_base x) -> seg_get (front ++ x :: rest) (m_base x) = Some x.
Proof.
  induction front as [|y t IH]; intros H; cbn [app seg_get]; [rewrite Z.eqb_refl; reflexivity|].
  destruct (Z.eqb_spec (m_base y) (m_base x)) as [E|N]; [exfalso; apply (H y (or_introl eq_refl)); exact E|].
  apply IH. intros m Hin. apply H. right. exact Hin.
Qed.

Lemma seg_del_mid front x rest : (forall m, In m front -> m_base m <> m_base x) -> seg_del (front ++ x :: rest) (m_base x) = front ++ rest.
Proof.
  induction front as [|y t IH]; intros H; cbn [app seg_del]; [rewrite Z.eqb_refl; reflexivity|].
  destruct (Z.eqb_spec (m_base y) (m_base x)) as [E|N]; [exfalso; apply (H y (or_introl eq_refl)); exact E|].
  f_equal. apply IH. intros m Hin. apply H. right. exact Hin.
Qed.

Lemma seg_upd_mid front x rest f : (forall m, In m front -> m_base m <> m_base x) -> seg_upd (front ++ x :: rest) (m_base x) f = front ++ f x :: rest.
Proof.
  induction front as [|y t IH]; intros H; cbn [app seg_upd]; [rewrite Z.eqb_refl; reflexivity|].
  destruct (Z.eqb_spec (m_base y) (m_base x)) as [E|N]; [exfalso; apply (H y (or_introl eq_refl)); exact E|].
  f_equal. apply IH. intros m Hin. apply H. right. exact Hin.
Qed.

Lemma bases_lt_subseq l' l : subseq l' l -> forall lo, bases_lt lo l -> bases_lt lo l'.
Proof.
  induction 1 as [|x l1 l2 _ IH|x l1 l2 _ IH]; intros lo H; [exact I| |].
  - destruct H as [H1 H2]. apply IH. eapply bases_lt_weaken; [|exact H2]. lia.
  - destruct H as [H1 H2]. split; [exact H1|apply IH; exact H2].
Qed.

Lemma WF_subseq l' l : subseq l' l -> WF l -> WF l'.
Proof.
  intros Hs [B S L]. pose proof (subseq_incl _ _ Hs) as Hi. split.
  - apply (bases_lt_subseq _ _ Hs). exact B.
  - intros s Hin. apply S. apply Hi. exact Hin.
  - intros s1 s2 H1 H2. apply L; apply Hi; assumption.
Qed.

Lemma subseq_map {A B} (f : A -> B) l' l : subseq l' l -> subseq (map f l') (map f l).
Proof. induction 1; cbn [map]; constructor; assumption. Qed.

Lemma subseq_app2 {A} (a b b' : list A) : subseq b' b -> subseq (a ++ b') (a ++ b).
Proof. intros H. induction a as [|x t IH]; [exact H|]. cbn [app]. apply sub_keep. exact IH. Qed.

Lemma subseq_skipn {A} n (l : list A) : subseq (skipn n l) l.
Proof. revert n. induction l as [|x t IH]; intros [|n]; cbn [skipn]; try apply subseq_refl. apply sub_skip. apply IH. Qed.

(* shrinking the records of the last segment *)
Lemma WF_shrink_last pre a rs : WF (pre ++ [a]) -> subseq rs (s_recs a) -> WF (pre ++ [mkSeg (s_base a) rs]).
Proof.
  intros Hw Hs. pose proof (bases_lt_app _ _ _ (wf_bases _ Hw)) as [Hb1 Hb2]. split.
  - pose proof (wf_bases _ Hw) as H. clear -H. revert H. generalize (-1). induction pre as [|x t IH]; intros lo H; cbn [app bases_lt] in *; [exact H|].
    destruct H as [H1 H2]. split; [exact H1|apply IH; exact H2].
  - intros s Hin. apply in_app_or in Hin. destruct Hin as [Hin|[<-|[]]]; [apply (wf_sorted _ Hw); apply in_or_app; left; exact Hin|].
    cbn [s_base s_recs]. apply (sorted_from_subseq _ _ Hs). apply (wf_sorted _ Hw). apply in_or_app. right. left. reflexivity.
  - intros s1 s2 H1 H2 Hlt x Hx. apply in_app_or in H1. apply in_app_or in H2.
    destruct H2 as [H2|[<-|[]]].
    + destruct H1 as [H1|[<-|[]]].
      * apply (wf_below _ Hw s1 s2); [apply in_or_app; left; exact H1|apply in_or_app; left; exact H2|exact Hlt|exact Hx].
      * cbn [s_base] in Hlt. specialize (Hb2 s2 a H2 (or_introl eq_refl)). lia.
    + cbn [s_base] in *. destruct H1 as [H1|[<-|[]]]; [|cbn [s_base] in Hlt; lia].
      apply (wf_below _ Hw s1 a); [apply in_or_app; left; exact H1|apply in_or_app; right; left; reflexivity|exact Hlt|exact Hx].
Qed.

(* Log.Model.trunc_segs on a log split around the truncation point *)
Lemma trunc_segs_shape o preS t postS : forall first, Forall (fun sg => s_next sg <= o) preS -> o < s_next t ->
  trunc_segs first (preS ++ t :: postS) o =
  preS ++ (if (s_base t =? o) && negb (match preS with [] => first | _ => false end) then [] else [mkSeg (s_base t) (keep_below (s_recs t) o)]).
Proof.
  induction preS as [|x r IH]; intros first HF Ht; cbn [app trunc_segs].
  - destruct (Z.ltb_spec o (s_next t)); [reflexivity|lia].
  - inversion HF as [|? ? Hx Hr]; subst. destruct (Z.ltb_spec o (s_next x)); [lia|].
    rewrite (IH false Hr Ht). destruct r; reflexivity.
Qed.

Lemma good_meq s d' : Good s -> meq (s_disk s) d' -> Good (mkSt d' (s_hw s)).
Proof.
  intros G (A & B & C & D). split; cbn [s_disk s_hw]; unfold segs_of, content, d_active; rewrite <- ?A, <- ?B, <- ?C, <- ?D; apply G.
Qed.

Lemma mid_meq H : main_pred (Mid H).
Proof.
  intros d d' (A & B & C & D) M. split; unfold segs_of, content; rewrite <- ?A, <- ?C, <- ?D; apply M.
Qed.

Section Trunc.
  Variable key_of : bytes -> option bytes.
  Variable p : params.
  Variable s : st.
  Hypothesis G : Good s.
  Variable o : Z.

  Let d0 := s_disk s.
  Let c0 := d_ep d0.
  Definition K (x : rec) : Prop := r_off x < o.
  Let R := Image s (DTrunc o) K.

  Lemma image_main : main_pred R.
  Proof.
    intros d d' Hm (M & A & B). pose proof Hm as (E1 & _ & _ & _). unfold R, Image, content in *. rewrite <- E1.
    split; [apply (mid_meq _ d d' Hm M)|split; assumption].
  Qed.

  Definition mk (segs : list mseg) (orph : list (Z * list rec)) (c : epoch_cache) : disk :=
    mkDisk segs orph (d_scr d0) (d_hw d0) c.

  (* any sub-list of the segments that keeps every record below o, with the old cache *)
  Lemma sub_image segs' orph : subseq segs' (d_segs d0) ->
    (forall m x, In m (d_segs d0) -> In x (m_recs m) -> K x -> In m segs') -> R (mk segs' orph c0).
  Proof.
    intros Hsub Hkeep. pose proof (subseq_incl _ _ Hsub) as Hi.
    assert (Hc : forall x, In x (content (mk segs' orph c0)) -> In x (content d0)).
    { intros x Hx. unfold content in *. cbn [mk d_segs] in Hx. apply in_concat in Hx. destruct Hx as (l & Hl & Hx).
      apply in_map_iff in Hl. destruct Hl as (m & <- & Hm). apply in_concat. exists (m_recs m). split; [apply in_map; apply Hi; exact Hm|exact Hx]. }
    split; [|split].
    - split; cbn [mk d_segs d_ep d_hw].
      + intros m Hin. left. unfold m_fi. rewrite (g_idx _ G m (Hi m Hin)). reflexivity.
      + unfold segs_of. cbn [mk d_segs]. apply (WF_subseq _ _ (subseq_map m_seg _ _ Hsub)). apply (g_wf _ G).
      + apply (g_csorted _ G).
      + intros x Hx. apply (g_cmatch _ G). apply Hc. exact Hx.
      + apply (g_hw _ G).
    - intros x Hx. left. apply Hc. exact Hx.
    - intros x Hx HK. unfold content in Hx. apply in_concat in Hx. destruct Hx as (l & Hl & Hx). apply in_map_iff in Hl. destruct Hl as (m & <- & Hm).
      unfold content. cbn [mk d_segs]. apply in_concat. exists (m_recs m). split; [apply in_map; apply (Hkeep m x Hm Hx HK)|exact Hx].
  Qed.

  (* ---- the shape of the log around the truncation point ---- *)
  Variables (pre : list mseg) (t : mseg) (later : list mseg).
  Hypothesis Hshape : d_segs d0 = pre ++ t :: later.
  Hypothesis Hnext : o < s_next (m_seg t).
  Hypothesis Hpre : Forall (fun sg => s_next sg <= o) (map m_seg pre).

  Let front := pre ++ [t].

  Lemma shape_front : d_segs d0 = front ++ later.
  Proof. unfold front. rewrite <- app_assoc. exact Hshape. Qed.

  Lemma Hw0 : WF (map m_seg (front ++ later)).
  Proof. rewrite <- shape_front. apply (g_wf _ G). Qed.

  Lemma in_segs0 m : In m (front ++ later) -> In m (d_segs d0).
  Proof. rewrite shape_front. auto. Qed.

  Lemma front_below_later m1 m2 : In m1 front -> In m2 later -> m_base m1 < m_base m2.
  Proof.
    intros H1 H2. pose proof Hw0 as Hw. rewrite map_app in Hw. destruct (bases_lt_app _ _ _ (wf_bases _ Hw)) as [_ H].
    apply (H (m_seg m1) (m_seg m2)); apply in_map; assumption.
  Qed.

  Lemma pre_below_t m : In m pre -> m_base m < m_base t.
  Proof.
    intros H1. pose proof Hw0 as Hw. unfold front in Hw. rewrite <- app_assoc, map_app in Hw. destruct (bases_lt_app _ _ _ (wf_bases _ Hw)) as [_ H].
    apply (H (m_seg m) (m_seg t)); [apply in_map; exact H1|left; reflexivity].
  Qed.

  Lemma later_sorted a x b : later = a ++ x :: b -> (forall m, In m a -> m_base m < m_base x) /\ (forall m, In m b -> m_base x < m_base m).
  Proof.
    intros E. pose proof Hw0 as Hw. rewrite E, map_app in Hw. destruct (bases_lt_app _ _ _ (wf_bases _ Hw)) as [_ H]. clear H.
    pose proof (wf_bases _ Hw) as B. rewrite <- map_app in B. rewrite app_assoc, map_app in B.
    destruct (bases_lt_app _ _ _ B) as [_ H]. split.
    - intros m Hm. apply (H (m_seg m) (m_seg x)); [apply in_map; apply in_or_app; right; exact Hm|left; reflexivity].
    - intros m Hm. cbn [map] in B. clear H. revert B. generalize (-1). generalize (map m_seg (front ++ a)). intros l. induction l as [|y l' IH]; intros lo B; cbn [app bases_lt] in B.
      + destruct B as [_ B2]. apply (bases_lt_all _ _ B2 (m_seg m)). apply in_map. exact Hm.
      + destruct B as [_ B2]. apply (IH _ B2).
  Qed.

  (* records of the later segments are at or above o; those of the earlier ones below *)
  Lemma later_above m x : In m later -> In x (m_recs m) -> o <= r_off x.
  Proof.
    intros Hm Hx. pose proof Hw0 as Hw.
    assert (Ht : In (m_seg t) (map m_seg (front ++ later))) by (apply in_map; apply in_or_app; left; unfold front; apply in_or_app; right; left; reflexivity).
    assert (Hmm : In (m_seg m) (map m_seg (front ++ later))) by (apply in_map; apply in_or_app; right; exact Hm).
    pose proof (front_below_later t m ltac:(unfold front; apply in_or_app; right; left; reflexivity) Hm) as Hlt.
    assert (Hn : s_next (m_seg t) <= m_base m).
    { apply s_next_le; [apply (WF_base_nonneg _ _ Hw Ht)|apply (wf_sorted _ Hw _ Ht)|exact Hlt|].
      intros y Hy. apply (wf_below _ Hw (m_seg t) (m_seg m) Ht Hmm Hlt y Hy). }
    pose proof (wf_sorted _ Hw _ Hmm) as Hs. pose proof (WF_base_nonneg _ _ Hw Hmm) as H0.
    pose proof (sorted_all_lt _ _ H0 Hs) as HF. rewrite Forall_forall in HF. specialize (HF x Hx). unfold m_base in *. lia.
  Qed.

  Lemma pre_below m x : In m pre -> In x (m_recs m) -> r_off x < o.
  Proof.
    intros Hm Hx. rewrite Forall_forall in Hpre. specialize (Hpre (m_seg m) (in_map m_seg _ _ Hm)).
    pose proof Hw0 as Hw. assert (Hmm : In (m_seg m) (map m_seg (front ++ later))) by (apply in_map; apply in_or_app; left; unfold front; apply in_or_app; left; exact Hm).
    pose proof (seg_all_lt_next (m_seg m) (WF_base_nonneg _ _ Hw Hmm) (wf_sorted _ Hw _ Hmm)) as HF. rewrite Forall_forall in HF. specialize (HF x Hx). lia.
  Qed.

  Lemma keep_in_front m x : In m (d_segs d0) -> In x (m_recs m) -> K x -> In m front.
  Proof.
    intros Hm Hx HK. rewrite shape_front in Hm. apply in_app_or in Hm. destruct Hm as [Hm|Hm]; [exact Hm|].
    pose proof (later_above m x Hm Hx). unfold K in HK. lia.
  Qed.

  (* phase 1: the later segments go, oldest first *)
  Lemma dels_seq rest : forall done, later = done ++ rest ->
    seq R (at_ (mk (front ++ rest) [] c0)) (concat (map (fun m => del_effs (TMain (m_base m))) rest)) (at_ (mk front [] c0)).
  Proof.
    induction rest as [|x rest' IH]; intros done E.
    - cbn [map concat]. rewrite app_nil_r. apply seq_nil. intros d Hd. apply (image_main (mk front [] c0) d (meq_sym _ _ Hd)).
      apply sub_image; [rewrite shape_front; rewrite <- (app_nil_r front) at 1; apply subseq_app2; apply subseq_nil|intros m y Hm Hy HK; apply (keep_in_front m y Hm Hy HK)].
    - cbn [map concat]. destruct (later_sorted done x rest' E) as [Hd1 Hd2].
      assert (Hxl : In x later) by (rewrite E; apply in_or_app; right; left; reflexivity).
      assert (Hfx : forall m, In m front -> m_base m <> m_base x) by (intros m Hm; pose proof (front_below_later m x Hm Hxl); lia).
      assert (Hidx : m_idx x = Some (m_recs x)) by (apply (g_idx _ G); apply in_segs0; apply in_or_app; right; exact Hxl).
      assert (Hsub : forall orph, R (mk (front ++ rest') orph c0)).
      { intros orph. apply sub_image; [|intros m y Hm Hy HK; apply in_or_app; left; apply (keep_in_front m y Hm Hy HK)].
        rewrite shape_front. apply subseq_app2. rewrite E. eapply subseq_trans; [|apply (subseq_skipn (length done + 1))].
        replace (skipn (length done + 1) (done ++ x :: rest')) with rest'; [apply subseq_refl|].
        replace (done ++ x :: rest') with ((done ++ [x]) ++ rest') by (rewrite <- app_assoc; reflexivity).
        replace (length done + 1)%nat with (length (done ++ [x])) by (rewrite app_length; reflexivity). symmetry. apply skipn_app_exact. }
      apply (seq_app R _ _ (at_ (mk (front ++ rest') [] c0))).
      + apply (del_seq R (m_base x) _ (mk (front ++ rest') [(m_base x, m_recs x)] c0)); [apply image_main| | | |apply Hsub|apply Hsub].
        * cbn [mapply mk d_segs d_orph]. rewrite seg_get_mid by exact Hfx. rewrite Hidx. unfold with_main. cbn [mk d_segs d_scr d_hw d_ep d_orph].
          rewrite seg_del_mid by exact Hfx. apply meq_refl.
        * cbn [mapply mk d_segs d_orph].
          assert (Hnone : seg_get (front ++ rest') (m_base x) = None).
          { apply seg_get_none_notin. intros m Hm. apply in_app_or in Hm. destruct Hm as [Hm|Hm]; [apply Hfx; exact Hm|specialize (Hd2 m Hm); lia]. }
          rewrite Hnone. unfold with_main, orph_del. cbn [mk d_segs d_scr d_hw d_ep d_orph filter fst]. rewrite Z.eqb_refl. cbn [negb]. apply meq_refl.
        * apply sub_image; [|intros m y Hm Hy HK; apply in_or_app; left; apply (keep_in_front m y Hm Hy HK)].
          rewrite shape_front. apply subseq_app2. rewrite E. eapply subseq_trans; [|apply (subseq_skipn (length done))].
          replace (skipn (length done) (done ++ x :: rest')) with (x :: rest'); [apply subseq_refl|]. symmetry. apply skipn_app_exact.
      + apply (IH (done ++ [x])). rewrite <- app_assoc. exact E.
  Qed.

  (* phase 2: the segment that holds the truncation point *)
  Let bt := m_base t.
  Let nf := keep_below (m_recs t) o.

  Lemma t_in : In t (d_segs d0).
  Proof. rewrite Hshape. apply in_or_app. right. left. reflexivity. Qed.

  Lemma pre_in m : In m pre -> In m (d_segs d0).
  Proof. intros H. rewrite Hshape. apply in_or_app. left. exact H. Qed.

  Lemma t_idx : m_idx t = Some (m_recs t).
  Proof. apply (g_idx _ G). apply t_in. Qed.

  Lemma pre_ne_t m : In m pre -> m_base m <> m_base t.
  Proof. intros H. pose proof (pre_below_t m H). lia. Qed.

  Lemma t_sorted : sorted_from (m_base t) (m_recs t).
  Proof. apply (wf_sorted _ (g_wf _ G) (m_seg t)). apply in_map. apply t_in. Qed.

  Lemma nf_filter : nf = filter (lt_off o) (m_recs t).
  Proof. unfold nf. apply (keep_below_filter (m_base t)). apply t_sorted. Qed.

  Lemma WF_front : WF (map m_seg (pre ++ [t])).
  Proof.
    apply (WF_subseq _ (map m_seg (d_segs d0))); [|apply (g_wf _ G)]. apply subseq_map. rewrite shape_front.
    rewrite <- (app_nil_r (pre ++ [t])). apply subseq_app2. apply subseq_nil.
  Qed.

  (* the replaced segment, with the old or the new index, and any cache that fits *)
  Lemma repl_content fi c x : In x (content (mk (pre ++ [mkM (mkSeg bt nf) (Some fi)]) [] c)) -> In x (content d0) /\ r_off x < o.
  Proof.
    intros Hx. unfold content in Hx. cbn [mk d_segs] in Hx. rewrite map_app, concat_app in Hx. cbn [map concat m_recs m_seg s_recs] in Hx. rewrite app_nil_r in Hx.
    apply in_app_or in Hx. destruct Hx as [Hx|Hx].
    - apply in_concat in Hx. destruct Hx as (l & Hl & Hx). apply in_map_iff in Hl. destruct Hl as (m & <- & Hm). split; [|apply (pre_below m x Hm Hx)].
      unfold content. apply in_concat. exists (m_recs m). split; [apply in_map; rewrite Hshape; apply in_or_app; left; exact Hm|exact Hx].
    - rewrite nf_filter in Hx. apply filter_In in Hx. destruct Hx as [Hx Hlt]. unfold lt_off in Hlt. split; [|lia].
      unfold content. apply in_concat. exists (m_recs t). split; [apply in_map; apply t_in|exact Hx].
  Qed.

  Lemma repl_image fi c : (fi = m_recs t \/ fi = nf) -> csorted c ->
    (forall x, In x (content (mk (pre ++ [mkM (mkSeg bt nf) (Some fi)]) [] c)) -> epoch_at c (r_off x) = r_ep x) ->
    R (mk (pre ++ [mkM (mkSeg bt nf) (Some fi)]) [] c).
  Proof.
    intros Hfi Hcs Hcm.
    assert (Hc : forall x, In x (content (mk (pre ++ [mkM (mkSeg bt nf) (Some fi)]) [] c)) -> In x (content d0) /\ r_off x < o) by (intros x Hx; apply (repl_content fi c x Hx)).
    split; [|split].
    - split; cbn [mk d_segs d_ep d_hw].
      + intros m Hin. apply in_app_or in Hin. destruct Hin as [Hin|[<-|[]]].
        * left. unfold m_fi. rewrite (g_idx _ G m (pre_in m Hin)). reflexivity.
        * unfold fixable, m_fi. cbn [m_idx m_recs m_seg s_recs]. destruct Hfi as [-> | ->]; [|left; reflexivity].
          destruct (subseq_fsize _ _ (keep_below_subseq (m_recs t) o)) as [E|Hlt]; [left; symmetry; exact E|right; fold nf in Hlt; lia].
      + unfold segs_of. cbn [mk d_segs]. rewrite map_app. cbn [map m_seg]. pose proof WF_front as Hw. rewrite map_app in Hw. cbn [map] in Hw.
        apply (WF_shrink_last (map m_seg pre) (m_seg t) nf Hw). apply keep_below_subseq.
      + exact Hcs.
      + exact Hcm.
      + apply (g_hw _ G).
    - intros x Hx. left. apply (Hc x Hx).
    - intros x Hx HK. unfold content in Hx. apply in_concat in Hx. destruct Hx as (l & Hl & Hx). apply in_map_iff in Hl. destruct Hl as (m & <- & Hm).
      pose proof (keep_in_front m x Hm Hx HK) as Hf. unfold front in Hf. unfold content. cbn [mk d_segs]. rewrite map_app, concat_app. apply in_or_app.
      apply in_app_or in Hf. destruct Hf as [Hf|[<-|[]]].
      + left. apply in_concat. exists (m_recs m). split; [apply in_map; exact Hf|exact Hx].
      + right. cbn [map concat m_recs m_seg s_recs]. rewrite app_nil_r, nf_filter. apply filter_In. split; [exact Hx|]. unfold lt_off, K in *. lia.
  Qed.

  (* the earlier segments alone (the segment at the truncation point is removed) *)
  Lemma pre_content orph c x : In x (content (mk pre orph c)) -> In x (content d0) /\ r_off x < o.
  Proof.
    intros Hx. unfold content in Hx. cbn [mk d_segs] in Hx. apply in_concat in Hx. destruct Hx as (l & Hl & Hx). apply in_map_iff in Hl. destruct Hl as (m & <- & Hm).
    split; [|apply (pre_below m x Hm Hx)]. unfold content. apply in_concat. exists (m_recs m). split; [apply in_map; rewrite Hshape; apply in_or_app; left; exact Hm|exact Hx].
  Qed.

  Lemma pre_image orph c : m_base t = o -> csorted c ->
    (forall x, In x (content (mk pre orph c)) -> epoch_at c (r_off x) = r_ep x) -> R (mk pre orph c).
  Proof.
    intros Hbo Hcs Hcm.
    assert (Hc : forall x, In x (content (mk pre orph c)) -> In x (content d0) /\ r_off x < o) by (intros x Hx; apply (pre_content orph c x Hx)).
    split; [|split].
    - split; cbn [mk d_segs d_ep d_hw].
      + intros m Hin. left. unfold m_fi. rewrite (g_idx _ G m (pre_in m Hin)). reflexivity.
      + unfold segs_of. cbn [mk d_segs]. apply (WF_subseq _ (map m_seg (d_segs d0))); [|apply (g_wf _ G)]. apply subseq_map. rewrite Hshape.
        rewrite <- (app_nil_r pre) at 1. apply subseq_app2. apply subseq_nil.
      + exact Hcs.
      + exact Hcm.
      + apply (g_hw _ G).
    - intros x Hx. left. apply (Hc x Hx).
    - intros x Hx HK. unfold content in Hx. apply in_concat in Hx. destruct Hx as (l & Hl & Hx). apply in_map_iff in Hl. destruct Hl as (m & <- & Hm).
      pose proof (keep_in_front m x Hm Hx HK) as Hf. unfold front in Hf. apply in_app_or in Hf. destruct Hf as [Hf|[<-|[]]].
      + unfold content. cbn [mk d_segs]. apply in_concat. exists (m_recs m). split; [apply in_map; exact Hf|exact Hx].
      + exfalso. pose proof t_sorted as Hs. pose proof (sorted_all_lt _ _ (WF_base_nonneg _ (m_seg t) (g_wf _ G) (in_map m_seg _ _ t_in)) Hs) as HF.
        rewrite Forall_forall in HF. specialize (HF x Hx). unfold K in HK. unfold m_base in *. lia.
  Qed.

  Definition tI : mseg := mkM (mkSeg bt nf) (Some nf).
  Definition final_segs (i : nat) : list mseg := if (m_base t =? o) && negb (Nat.eqb i 0) then pre else pre ++ [tI].

  (* the log end after the truncation, as the script computes it *)
  Lemma final_next i : i = length pre -> final_segs i <> [] ->
    s_next (m_seg (last (final_segs i) dummy_m)) = trunc_next (segs_of d0) i (m_seg t) o.
  Proof.
    intros Hi Hne. unfold final_segs, trunc_next in *. change (s_base (m_seg t)) with (m_base t).
    destruct ((m_base t =? o) && negb (Nat.eqb i 0)) eqn:Ec.
    - destruct (exists_last Hne) as (pre' & lastp & E). rewrite E, last_last. unfold segs_of. rewrite Hshape, E.
      rewrite <- app_assoc. cbn [app]. rewrite map_app. cbn [map]. subst i. rewrite E, app_length. cbn [length].
      replace (length pre' + 1 - 1)%nat with (length (map m_seg pre')) by (rewrite map_length; lia).
      rewrite nth_middle. reflexivity.
    - rewrite last_last. reflexivity.
  Qed.

  Definition cfin (i : nat) : epoch_cache := cache_clear_latest c0 (Z.min o (trunc_next (segs_of d0) i (m_seg t) o)).

  (* the final segments are the in-memory model's *)
  Lemma final_is_model i : i = length pre -> map m_seg (final_segs i) = trunc_segs true (segs_of d0) o.
  Proof.
    intros Hi. unfold segs_of. rewrite Hshape, map_app. cbn [map]. rewrite (trunc_segs_shape o (map m_seg pre) (m_seg t) (map m_seg later) true Hpre Hnext).
    unfold final_segs. change (s_base (m_seg t)) with (m_base t).
    assert (Ef : (match map m_seg pre with [] => true | _ => false end) = Nat.eqb i 0) by (subst i; destruct pre; reflexivity).
    rewrite Ef. destruct ((m_base t =? o) && negb (Nat.eqb i 0)); [rewrite app_nil_r; reflexivity|rewrite map_app; reflexivity].
  Qed.

  Lemma trunc_seq i : i = length pre -> find_segment (segs_of d0) o = Some (i, m_seg t) ->
    seq R (at_ d0) (trunc_effs fixed d0 o) (at_ (mk (final_segs i) [] (cfin i))) /\
    final_segs i <> [] /\ cbound (cfin i) (s_next (m_seg (last (final_segs i) dummy_m))).
  Proof.
    intros Hi Hfind.
    assert (Hfne : final_segs i <> []).
    { unfold final_segs. destruct ((m_base t =? o) && negb (Nat.eqb i 0)) eqn:Ec; [|destruct pre; discriminate].
      apply andb_true_iff in Ec. destruct Ec as [_ Ec]. destruct pre; [|discriminate]. cbn in Hi. subst i. discriminate. }
    assert (Hcb : cbound (cfin i) (s_next (m_seg (last (final_segs i) dummy_m)))).
    { rewrite (final_next i Hi Hfne). intros e st Hin. pose proof (clear_latest_bound c0 (Z.min o (trunc_next (segs_of d0) i (m_seg t) o)) (g_csorted _ G) e st Hin). lia. }
    split; [|split; [exact Hfne|exact Hcb]].
    unfold trunc_effs. rewrite Hfind.
    assert (Hsk : skipn (S i) (d_segs d0) = later).
    { rewrite Hshape, Hi. replace (pre ++ t :: later) with ((pre ++ [t]) ++ later) by (rewrite <- app_assoc; reflexivity).
      replace (S (length pre)) with (length (pre ++ [t])) by (rewrite app_length; cbn; lia). apply skipn_app_exact. }
    rewrite Hsk.
    assert (Hstart : forall d, at_ d0 d -> at_ (mk (front ++ later) [] c0) d).
    { intros d Hd. eapply meq_trans; [exact Hd|]. repeat split; [apply shape_front|apply (g_orph _ G)]. }
    apply (seq_conseq R (at_ (mk (front ++ later) [] c0)) _ (at_ (mk (final_segs i) [] (cfin i))) _); [exact Hstart|auto|].
    apply (seq_app R _ _ (at_ (mk front [] c0))); [apply (dels_seq later []); reflexivity|].
    assert (Rfront : R (mk front [] c0)).
    { apply sub_image; [rewrite shape_front; rewrite <- (app_nil_r front) at 1; apply subseq_app2; apply subseq_nil|intros m y Hm Hy HK; apply (keep_in_front m y Hm Hy HK)]. }
    apply (seq_app R _ _ (at_ (mk front [] c0))); [apply seq_point_at; [apply image_main|exact Rfront]|].
    set (mid := mk (final_segs i) [] c0).
    (* the final segments with a cache that fits them *)
    assert (Hfincont : forall c x, In x (content (mk (final_segs i) [] c)) -> In x (content d0) /\ r_off x < o).
    { intros c x Hx. unfold final_segs in Hx. destruct ((m_base t =? o) && negb (Nat.eqb i 0)); [apply (pre_content [] c x Hx)|apply (repl_content nf c x Hx)]. }
    assert (Rmid : forall c, csorted c -> (forall x, In x (content (mk (final_segs i) [] c)) -> epoch_at c (r_off x) = r_ep x) -> R (mk (final_segs i) [] c)).
    { intros c Hcs Hcm. unfold final_segs in *. destruct ((m_base t =? o) && negb (Nat.eqb i 0)) eqn:Ec.
      - apply andb_true_iff in Ec. destruct Ec as [Ec _]. apply Z.eqb_eq in Ec. apply pre_image; assumption.
      - apply repl_image; [right; reflexivity|assumption|assumption]. }
    assert (Hc0fit : forall x, In x (content (mk (final_segs i) [] c0)) -> epoch_at c0 (r_off x) = r_ep x).
    { intros x Hx. apply (g_cmatch _ G). apply (Hfincont c0 x Hx). }
    assert (RmidC : R mid) by (apply Rmid; [apply (g_csorted _ G)|exact Hc0fit]).
    apply (seq_app R _ _ (at_ mid)).
    { unfold mid, final_segs. change (s_base (m_seg t)) with (m_base t). destruct ((m_base t =? o) && negb (Nat.eqb i 0)) eqn:Ec.
      - apply andb_true_iff in Ec. destruct Ec as [Ec _]. apply Z.eqb_eq in Ec.
        assert (Hpc0 : forall orph x, In x (content (mk pre orph c0)) -> epoch_at c0 (r_off x) = r_ep x) by (intros orph x Hx; apply (g_cmatch _ G); apply (pre_content orph c0 x Hx)).
        apply (del_seq R (m_base t) _ (mk pre [(m_base t, m_recs t)] c0)); [apply image_main| | |exact Rfront| |].
        + cbn [mapply mk d_segs d_orph]. unfold front. rewrite seg_get_last by exact pre_ne_t. rewrite t_idx. unfold with_main. cbn [mk d_segs d_scr d_hw d_ep d_orph].
          replace (pre ++ [t]) with (pre ++ t :: []) by reflexivity. rewrite seg_del_mid by exact pre_ne_t. rewrite app_nil_r. apply meq_refl.
        + cbn [mapply mk d_segs d_orph]. assert (Hnone : seg_get pre (m_base t) = None) by (apply seg_get_none_notin; exact pre_ne_t).
          rewrite Hnone. unfold with_main, orph_del. cbn [mk d_segs d_scr d_hw d_ep d_orph filter fst]. rewrite Z.eqb_refl. cbn [negb]. apply meq_refl.
        + apply pre_image; [exact Ec|apply (g_csorted _ G)|apply Hpc0].
        + apply pre_image; [exact Ec|apply (g_csorted _ G)|apply Hpc0].
      - assert (Hrc0 : forall fi x, In x (content (mk (pre ++ [mkM (mkSeg bt nf) (Some fi)]) [] c0)) -> epoch_at c0 (r_off x) = r_ep x) by (intros fi x Hx; apply (g_cmatch _ G); apply (repl_content fi c0 x Hx)).
        apply (replace_seq R image_main (m_base t) STrunc nf PTruncCopy _ (mk (pre ++ [mkM (mkSeg bt nf) (Some (m_recs t))]) [] c0)).
        + exact Rfront.
        + apply repl_image; [left; reflexivity|apply (g_csorted _ G)|apply Hrc0].
        + apply repl_image; [right; reflexivity|apply (g_csorted _ G)|apply Hrc0].
        + cbn [mapply mk d_segs d_orph]. unfold front. rewrite seg_get_last by exact pre_ne_t. unfold set_segs. cbn [mk d_segs d_scr d_hw d_ep d_orph].
          rewrite seg_upd_last by exact pre_ne_t. rewrite t_idx. apply meq_refl.
        + cbn [mapply mk d_segs d_orph]. change (m_base t) with (m_base (mkM (mkSeg bt nf) (Some (m_recs t)))).
          rewrite seg_get_last by exact pre_ne_t. unfold set_segs. cbn [mk d_segs d_scr d_hw d_ep d_orph].
          rewrite seg_upd_last by exact pre_ne_t. apply meq_refl. }
    apply (seq_app R _ _ (at_ mid)); [apply seq_point_at; [apply image_main|exact RmidC]|].
    (* the epoch checkpoint *)
    assert (Hbelow_next : forall x, In x (content (mk (final_segs i) [] c0)) -> r_off x < trunc_next (segs_of d0) i (m_seg t) o).
    { intros x Hx. rewrite <- (final_next i Hi Hfne). destruct RmidC as (M & _ & _). pose proof (mi_wf _ _ M) as Hw. unfold segs_of, mid in Hw. cbn [mk d_segs] in Hw.
      destruct (exists_last Hfne) as (fl & fx & Ef). rewrite Ef, last_last. rewrite Ef, map_app in Hw. cbn [map] in Hw. apply (WF_all_below_next _ _ Hw).
      unfold content in Hx. cbn [mk d_segs] in Hx. rewrite Ef in Hx. unfold flat. change [m_seg fx] with (map m_seg [fx]). rewrite <- map_app, map_map. exact Hx. }
    assert (Hcfit : forall x, In x (content (mk (final_segs i) [] (cfin i))) -> epoch_at (cfin i) (r_off x) = r_ep x).
    { intros x Hx. change (content (mk (final_segs i) [] (cfin i))) with (content (mk (final_segs i) [] c0)) in Hx.
      apply (clear_latest_match c0 _ (content (mk (final_segs i) [] c0))); [exact Hc0fit| |exact Hx].
      intros y Hy. pose proof (Hbelow_next y Hy). destruct (Hfincont c0 y Hy). lia. }
    assert (RF : R (mk (final_segs i) [] (cfin i))) by (apply Rmid; [apply clear_latest_sorted; apply (g_csorted _ G)|exact Hcfit]).
    fold c0. cbv zeta. fold (cfin i).
    assert (Ecf : cfin i = if cache_latest_off c0 <? Z.min o (trunc_next (segs_of d0) i (m_seg t) o) then c0 else filter (fun e : N * Z => snd e <? Z.min o (trunc_next (segs_of d0) i (m_seg t) o)) c0) by reflexivity.
    destruct (cache_latest_off c0 <? Z.min o (trunc_next (segs_of d0) i (m_seg t) o)) eqn:El.
    - rewrite Ecf. apply seq_nil. intros d Hd. apply (image_main mid d (meq_sym _ _ Hd) RmidC).
    - apply (seq_main R _ (MEpochs (cfin i))); [apply image_main|reflexivity|apply meq_refl|exact RmidC|exact RF].
  Qed.
End Trunc.
