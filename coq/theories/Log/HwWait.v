(* C03: the high-watermark wake-up protocol between SetHighWatermark and committed readers
   (commitlog.go SetHighWatermark / notifyHWChange / waitForHW, reader.go committedReader),
   as a labelled transition system at lock granularity. A schedule is a list of labels.

   recheck = true : waitForHW compares the reader's view of the HW with l.hw under the log lock
                    before parking (the code)
   recheck = false: it parks unconditionally (a lost wake-up is then possible) *)
From LB Require Import Base.Prelude.
Open Scope Z_scope.

Record rstate := mkR {
  r_next : Z;        (* next offset the reader will deliver *)
  r_seen : Z;        (* the HW value the reader last read (r.hw) *)
  r_parked : bool    (* registered in hwWaiters, blocked on its channel *)
}.

Record hst := mkH { h_hw : Z; h_log_end : Z; h_readers : list rstate }.

Inductive hlabel :=
| HAppend (n : Z)          (* n >= 1 messages appended *)
| HSetHW (h : Z)           (* SetHighWatermark(h): monotone, wakes every waiter *)
| HSync (i : nat)          (* reader i (not parked) reads l.hw into r.hw *)
| HDeliver (i : nat)       (* reader i (not parked) returns its next message, which is <= r.hw *)
| HWait (i : nat).         (* reader i (not parked, nothing to deliver) calls waitForHW(r.hw) *)

Fixpoint upd {A} (l : list A) (i : nat) (f : A -> A) : list A :=
  match l, i with
  | [], _ => []
  | x :: r, O => f x :: r
  | x :: r, S j => x :: upd r j f
  end.

Definition hstep (recheck : bool) (s : hst) (lb : hlabel) : hst :=
  match lb with
  | HAppend n => if 0 <? n then mkH (h_hw s) (h_log_end s + n) (h_readers s) else s
  | HSetHW h =>
    if (h_hw s <? h) && (h <=? h_log_end s)
    then mkH h (h_log_end s) (map (fun r => mkR (r_next r) (r_seen r) false) (h_readers s))
    else s
  | HSync i => mkH (h_hw s) (h_log_end s)
                   (upd (h_readers s) i (fun r => if r_parked r then r else mkR (r_next r) (h_hw s) false))
  | HDeliver i => mkH (h_hw s) (h_log_end s)
                      (upd (h_readers s) i (fun r => if negb (r_parked r) && (r_next r <=? r_seen r)
                                                      then mkR (r_next r + 1) (r_seen r) false else r))
  | HWait i => mkH (h_hw s) (h_log_end s)
                   (upd (h_readers s) i (fun r =>
                      if negb (r_parked r) && (r_seen r <? r_next r)
                      then (if recheck && negb (r_seen r =? h_hw s)
                            then r                                   (* HW changed: do not park, retry *)
                            else mkR (r_next r) (r_seen r) true)     (* park *)
                      else r))
  end.

Definition hrun (recheck : bool) (s : hst) (sched : list hlabel) : hst := fold_left (hstep recheck) sched s.

(* ---- invariants ---- *)
Definition reader_ok (s : hst) (r : rstate) : Prop :=
  r_seen r <= h_hw s /\                       (* a reader never believes in a HW that does not exist *)
  r_next r <= r_seen r + 1 /\                 (* it has delivered nothing above the HW it saw *)
  (r_parked r = true -> r_seen r = h_hw s /\ h_hw s < r_next r).
                                              (* parked => its view is current and it really has nothing to read *)

Definition hinv (s : hst) : Prop := h_hw s <= h_log_end s /\ Forall (reader_ok s) (h_readers s).

Lemma Forall_upd {A} (P : A -> Prop) l i f : Forall P l -> (forall x, P x -> P (f x)) -> Forall P (upd l i f).
Proof.
  intros H Hf. revert i. induction H as [|x t Hx Ht IH]; intros i; [destruct i; constructor|].
  destruct i; cbn [upd]; constructor; auto.
Qed.

Ltac ok_tac :=
  unfold reader_ok in *; cbn [r_seen r_next r_parked h_hw] in *; repeat split; intros; try lia; try discriminate;
  try (match goal with H : r_parked ?r = true -> _, H' : r_parked ?r = true |- _ => destruct (H H'); lia end).

Theorem hstep_inv s lb : hinv s -> hinv (hstep true s lb).
Proof.
  intros [Hle HF]. destruct lb as [n|h|i|i|i]; cbn [hstep].
  - destruct (Z.ltb_spec 0 n); [|split; assumption]. split; [cbn; lia|].
    eapply Forall_impl; [|exact HF]. intros r (H1 & H2 & H3). ok_tac.
  - destruct (Z.ltb_spec (h_hw s) h), (Z.leb_spec h (h_log_end s)); cbn [andb]; try (split; assumption).
    split; [cbn; lia|]. cbn [h_readers h_hw]. rewrite Forall_map. eapply Forall_impl; [|exact HF].
    intros r (H1 & H2 & H3). ok_tac.
  - split; [exact Hle|]. cbn [h_readers]. apply Forall_upd.
    + eapply Forall_impl; [|exact HF]. intros r H. exact H.
    + intros r (H1 & H2 & H3). destruct (r_parked r) eqn:Ep; [|ok_tac].
      cbn [h_hw] in *. unfold reader_ok. cbn [h_hw]. destruct (H3 eq_refl). repeat split; intros; lia.
  - split; [exact Hle|]. cbn [h_readers]. apply Forall_upd.
    + eapply Forall_impl; [|exact HF]. intros r H. exact H.
    + intros r (H1 & H2 & H3). destruct (negb (r_parked r) && (r_next r <=? r_seen r)) eqn:E; [|ok_tac].
      ok_tac.
  - split; [exact Hle|]. cbn [h_readers]. apply Forall_upd.
    + eapply Forall_impl; [|exact HF]. intros r H. exact H.
    + intros r (H1 & H2 & H3). destruct (negb (r_parked r) && (r_seen r <? r_next r)) eqn:E; [|ok_tac].
      cbn [andb]. destruct (Z.eqb_spec (r_seen r) (h_hw s)) as [Eq|Ne]; cbn [negb]; [|ok_tac].
      ok_tac.
Qed.

Theorem hrun_inv s sched : hinv s -> hinv (hrun true s sched).
Proof.
  unfold hrun. revert s. induction sched as [|lb r IH]; intros s H; [exact H|]. cbn [fold_left]. apply IH. apply hstep_inv. exact H.
Qed.

(* the HW never moves backwards *)
Theorem hw_monotone rc s lb : h_hw s <= h_hw (hstep rc s lb).
Proof.
  destruct lb as [n|h|i|i|i]; cbn [hstep]; try (cbn; lia).
  - destruct (0 <? n); cbn; lia.
  - destruct (Z.ltb_spec (h_hw s) h), (h <=? h_log_end s); cbn; lia.
Qed.

(* no lost wake-up: in every reachable state, a reader whose next message is covered by the HW
   is not parked -- so its next step (sync, then deliver) is enabled *)
Theorem no_lost_wakeup s sched r : hinv s -> In r (h_readers (hrun true s sched)) ->
  r_next r <= h_hw (hrun true s sched) -> r_parked r = false.
Proof.
  intros Hi Hin Hnext. destruct (hrun_inv s sched Hi) as [_ HF]. rewrite Forall_forall in HF.
  destruct (HF r Hin) as (_ & _ & H3). destruct (r_parked r); [|reflexivity]. destruct (H3 eq_refl). lia.
Qed.

(* never above the HW: what a reader has delivered so far is below its next offset, which is
   at most HW + 1 *)
Theorem never_above_hw s sched r : hinv s -> In r (h_readers (hrun true s sched)) ->
  r_next r - 1 <= h_hw (hrun true s sched).
Proof.
  intros Hi Hin. destruct (hrun_inv s sched Hi) as [_ HF]. rewrite Forall_forall in HF.
  destruct (HF r Hin) as (H1 & H2 & _). lia.
Qed.

(* progress: an unparked reader whose next message is covered can deliver it after one sync *)
Theorem progress_enabled s i r : nth_error (h_readers s) i = Some r -> r_parked r = false -> r_next r <= h_hw s ->
  exists r', nth_error (h_readers (hstep true (hstep true s (HSync i)) (HDeliver i))) i = Some r' /\ r_next r' = r_next r + 1.
Proof.
  intros Hn Hp Hle. cbn [hstep h_readers h_hw h_log_end].
  assert (G : forall (l : list rstate) i f x, nth_error l i = Some x -> nth_error (upd l i f) i = Some (f x)).
  { clear. induction l as [|y t IH]; intros i f x H; destruct i; cbn in *; try discriminate; [injection H as ->; reflexivity|apply IH; exact H]. }
  erewrite G; [|erewrite G; [reflexivity|exact Hn]]. rewrite Hp. cbn [r_parked r_next r_seen negb andb].
  destruct (Z.leb_spec (r_next r) (h_hw s)); [|lia]. eexists. split; [reflexivity|reflexivity].
Qed.

(* without the re-check under the lock a wake-up is lost: the reader parks although the HW that
   covers its next message was set between its read of the HW and its registration *)
Definition lost_wakeup_witness : list hlabel := [HAppend 1; HSync 0; HSetHW 0; HWait 0].
Theorem without_recheck_wakeup_lost :
  let s := hrun false (mkH (-1) (-1) [mkR 0 (-1) false]) lost_wakeup_witness in
  h_hw s = 0 /\ map r_parked (h_readers s) = [true] /\ map r_next (h_readers s) = [0].
Proof. vm_compute. repeat split. Qed.

Example with_recheck_no_loss :
  let s := hrun true (mkH (-1) (-1) [mkR 0 (-1) false]) lost_wakeup_witness in
  map r_parked (h_readers s) = [false].
Proof. vm_compute. reflexivity. Qed.
