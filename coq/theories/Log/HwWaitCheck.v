(* Replays the label sequences of harness/commitlog/hwwait_test.go on the LTS of Log/HwWaitRo.v and
   reports the first step after which the real commit log and the model differ. *)
From LB Require Import Base.Prelude Log.HwWaitRo.
Open Scope Z_scope.

Record wobs := mkWobs { o_hw : Z; o_newest : Z; o_ro : bool; o_rs : list (Z * Z * bool * bool) }.

Definition robs_eqb (a b : Z * Z * bool * bool) : bool :=
  let '(n1, s1, p1, e1) := a in let '(n2, s2, p2, e2) := b in (n1 =? n2) && (s1 =? s2) && Bool.eqb p1 p2 && Bool.eqb e1 e2.

Fixpoint robs_all (a b : list (Z * Z * bool * bool)) : bool :=
  match a, b with
  | [], [] => true
  | x :: a', y :: b' => robs_eqb x y && robs_all a' b'
  | _, _ => false
  end.

Definition wobs_of (s : ws) : list (Z * Z * bool * bool) :=
  map (fun r => (n_next r, n_seen r, n_parked r, match n_ended r with Some _ => true | None => false end)) (w_readers s).

Definition wagree (s : ws) (o : wobs) : bool :=
  (w_hw s =? o_hw o) && (w_newest s =? o_newest o) && Bool.eqb (w_ro s) (o_ro o) && robs_all (wobs_of s) (o_rs o).

(* one driver step = one or two labels (SetReadonly(true) = the flag, then the notification) *)
Fixpoint wreplay (s : ws) (steps : list (list wlabel * wobs)) (i : nat) : option nat :=
  match steps with
  | [] => None
  | (lbs, o) :: r => let s' := wrun wcode s lbs in if wagree s' o then wreplay s' r (S i) else Some i
  end.

Fixpoint wcases_mismatches (cs : list (nat * list (list wlabel * wobs))) (i : nat) : list (nat * nat) :=
  match cs with
  | [] => []
  | (nr, steps) :: r => match wreplay (winit nr) steps 0 with
                        | None => wcases_mismatches r (S i)
                        | Some j => (i, j) :: wcases_mismatches r (S i)
                        end
  end.
