(* C03 / C10: the wake-up protocol of committed readers with the read-only end of a log
   (commitlog.go SetHighWatermark / notifyHWChange / SetReadonly / notifyReadonly / waitForHW,
   reader.go committedReader.waitForHW), one transition per critical section.

   A reader that has nothing to deliver at its view of the HW calls waitForHW(view). Under the log
   lock the code decides, in this order:
     1. the HW differs from the view           -> return, the reader looks again       (retry)
     2. the log is read-only and HW = newest   -> "end of read-only log"               (end)
     3. otherwise register as a waiter                                                  (park)
   SetHighWatermark wakes every waiter; SetReadonly(true) stores the flag and then, under the lock,
   ends every waiter if the HW has reached the log end.

   Variant switches (the code = all true):
     wv_recheck       : decision 1 is made at all (Log/HwWait.v's switch)
     wv_changed_first : decision 1 comes before decision 2
     wv_end_needs_leo : decision 2 asks for HW = newest offset *)
From LB Require Import Base.Prelude.
Open Scope Z_scope.

Record wv := mkWv { wv_recheck : bool; wv_changed_first : bool; wv_end_needs_leo : bool }.
Definition wcode : wv := mkWv true true true.

Record rr := mkRr {
  n_next : Z;               (* next offset the reader will deliver *)
  n_seen : Z;               (* the HW value the reader last read *)
  n_parked : bool;          (* registered in hwWaiters *)
  n_ended : option Z        (* told "end of read-only log"; ghost: the newest offset of the log at that moment *)
}.

Record ws := mkWs { w_hw : Z; w_newest : Z; w_ro : bool;
                    w_pending : bool;        (* the read-only flag is set, notifyReadonly has not run yet *)
                    w_readers : list rr }.

Inductive wlabel :=
| WAppend (n : Z)          (* n >= 1 messages appended (refused on a read-only log) *)
| WRoFlag (b : bool)       (* SetReadonly(b): the atomic store of the flag *)
| WRoNotify                (* SetReadonly(true): notifyReadonly under the lock *)
| WSetHW (h : Z)
| WSync (i : nat)          (* reader i reads l.hw *)
| WDeliver (i : nat)       (* reader i returns its next message, which is <= its view of the HW *)
| WWait (i : nat).         (* reader i calls waitForHW(view) *)

Fixpoint wupd {A} (l : list A) (i : nat) (f : A -> A) : list A :=
  match l, i with
  | [], _ => []
  | x :: r, O => f x :: r
  | x :: r, S j => x :: wupd r j f
  end.

Definition ractive (r : rr) : bool := negb (n_parked r) && match n_ended r with None => true | Some _ => false end.

(* 0 = retry, 1 = end, 2 = park *)
Definition wait_outcome (v : wv) (s : ws) (r : rr) : N :=
  let changed := wv_recheck v && negb (n_seen r =? w_hw s) in
  let fin := w_ro s && (if wv_end_needs_leo v then w_hw s =? w_newest s else true) in
  if wv_changed_first v
  then (if changed then 0 else if fin then 1 else 2)%N
  else (if fin then 1 else if changed then 0 else 2)%N.

Definition wstep (v : wv) (s : ws) (lb : wlabel) : ws :=
  match lb with
  | WAppend n => if (0 <? n) && negb (w_ro s) then mkWs (w_hw s) (w_newest s + n) (w_ro s) (w_pending s) (w_readers s) else s
  | WRoFlag b => mkWs (w_hw s) (w_newest s) b b (w_readers s)
  | WRoNotify =>
    if w_ro s && (w_newest s <=? w_hw s)
    then mkWs (w_hw s) (w_newest s) (w_ro s) false
              (map (fun r => if n_parked r then mkRr (n_next r) (n_seen r) false (Some (w_newest s)) else r) (w_readers s))
    else mkWs (w_hw s) (w_newest s) (w_ro s) false (w_readers s)
  | WSetHW h =>
    if (w_hw s <? h) && (h <=? w_newest s)
    then mkWs h (w_newest s) (w_ro s) (w_pending s) (map (fun r => mkRr (n_next r) (n_seen r) false (n_ended r)) (w_readers s))
    else s
  | WSync i => mkWs (w_hw s) (w_newest s) (w_ro s) (w_pending s)
                    (wupd (w_readers s) i (fun r => if ractive r then mkRr (n_next r) (w_hw s) false None else r))
  | WDeliver i => mkWs (w_hw s) (w_newest s) (w_ro s) (w_pending s)
                       (wupd (w_readers s) i (fun r => if ractive r && (n_next r <=? n_seen r)
                                                       then mkRr (n_next r + 1) (n_seen r) false None else r))
  | WWait i => mkWs (w_hw s) (w_newest s) (w_ro s) (w_pending s)
                    (wupd (w_readers s) i (fun r =>
                       if ractive r && (n_seen r <? n_next r)
                       then match wait_outcome v s r with
                            | 0%N => r
                            | 1%N => mkRr (n_next r) (n_seen r) false (Some (w_newest s))
                            | _ => mkRr (n_next r) (n_seen r) true None
                            end
                       else r))
  end.

Definition wrun (v : wv) (s : ws) (sched : list wlabel) : ws := fold_left (wstep v) sched s.

Definition winit (nreaders : nat) : ws := mkWs (-1) (-1) false false (repeat (mkRr 0 (-1) false None) nreaders).
