(* The read-only end of a log, for every schedule: a reader is told "end of read-only log" only when
   it has delivered everything the log holds, and no reader stays parked on a finished read-only log. *)
From LB Require Import Base.Prelude Log.HwWaitRo.
Open Scope Z_scope.

Definition rr_ok (s : ws) (r : rr) : Prop :=
  n_seen r <= w_hw s /\
  n_next r <= n_seen r + 1 /\
  (n_parked r = true -> n_ended r = None /\ n_seen r = w_hw s /\ w_hw s < n_next r /\
                        (w_ro s = true -> w_hw s = w_newest s -> w_pending s = true)) /\
  (forall e, n_ended r = Some e -> n_next r = e + 1 /\ n_parked r = false).

Definition winv (s : ws) : Prop := w_hw s <= w_newest s /\ Forall (rr_ok s) (w_readers s).

Lemma Forall_wupd {A} (P : A -> Prop) l i f : Forall P l -> (forall x, P x -> P (f x)) -> Forall P (wupd l i f).
Proof.
  intros H Hf. revert i. induction H as [|x t Hx Ht IH]; intros i; [destruct i; constructor|].
  destruct i; cbn [wupd]; constructor; auto.
Qed.

Lemma ractive_spec r : ractive r = true -> n_parked r = false /\ n_ended r = None.
Proof. unfold ractive. destruct (n_parked r), (n_ended r); cbn; intros; try discriminate; split; reflexivity. Qed.

Lemma rr_ok_frame s s' r : rr_ok s r -> w_hw s' = w_hw s ->
  (n_parked r = true -> w_ro s' = true -> w_hw s' = w_newest s' -> w_pending s' = true) -> rr_ok s' r.
Proof.
  intros (H1 & H2 & H3 & H4) Eh Hp. unfold rr_ok. rewrite Eh. split; [exact H1|split; [exact H2|split; [|exact H4]]].
  intros P. destruct (H3 P) as (A & B & C & _). split; [exact A|split; [exact B|split; [exact C|]]]. rewrite <- Eh. apply Hp. exact P.
Qed.

Lemma rr_ok_mk s nx sn pk en : sn <= w_hw s -> nx <= sn + 1 ->
  (pk = true -> en = None /\ sn = w_hw s /\ w_hw s < nx /\ (w_ro s = true -> w_hw s = w_newest s -> w_pending s = true)) ->
  (forall e, en = Some e -> nx = e + 1 /\ pk = false) -> rr_ok s (mkRr nx sn pk en).
Proof. intros. unfold rr_ok. cbn [n_seen n_next n_parked n_ended]. repeat split; try assumption; try (apply H1; assumption); try (apply (H2 e); assumption). Qed.

Theorem wstep_inv s lb : winv s -> winv (wstep wcode s lb).
Proof.
  intros [Hle HF]. destruct lb as [n|b| |h|i|i|i]; cbn [wstep].
  - destruct (Z.ltb_spec 0 n); cbn [andb]; [|split; assumption]. destruct (w_ro s) eqn:Ero; cbn [negb]; [split; assumption|].
    split; [cbn; lia|]. cbn [w_readers]. eapply Forall_impl; [|exact HF].
    intros r Hr. apply (rr_ok_frame s _ r Hr); [reflexivity|]. cbn [w_ro]. intros _ Hc. discriminate.
  - split; [exact Hle|]. cbn [w_readers]. eapply Forall_impl; [|exact HF].
    intros r Hr. apply (rr_ok_frame s _ r Hr); [reflexivity|]. cbn [w_ro w_pending]. intros _ Hb _. exact Hb.
  - destruct (w_ro s && (w_newest s <=? w_hw s)) eqn:Ec.
    + split; [exact Hle|]. cbn [w_readers]. rewrite Forall_map. eapply Forall_impl; [|exact HF].
      intros r Hr. apply andb_true_iff in Ec. destruct Ec as [Ero Ele]. apply Z.leb_le in Ele.
      destruct (n_parked r) eqn:Ep.
      * destruct Hr as (H1 & H2 & H3 & H4). destruct (H3 Ep) as (_ & Es & Hlt & _).
        apply rr_ok_mk; cbn [w_hw w_newest w_ro w_pending]; [exact H1|exact H2|intros; discriminate|]. intros e [= <-]. split; [lia|reflexivity].
      * apply (rr_ok_frame s _ r Hr); [reflexivity|]. intros P. rewrite Ep in P. discriminate.
    + split; [exact Hle|]. cbn [w_readers]. eapply Forall_impl; [|exact HF].
      intros r Hr. apply (rr_ok_frame s _ r Hr); [reflexivity|]. cbn [w_ro w_hw w_newest w_pending]. intros _ Hro Heq.
      rewrite Hro in Ec. cbn [andb] in Ec. apply Z.leb_gt in Ec. lia.
  - destruct (Z.ltb_spec (w_hw s) h), (Z.leb_spec h (w_newest s)); cbn [andb]; try (split; assumption).
    split; [cbn; lia|]. cbn [w_readers w_hw]. rewrite Forall_map. eapply Forall_impl; [|exact HF].
    intros r (H1 & H2 & H3 & H4). apply rr_ok_mk; cbn [w_hw w_newest w_ro w_pending]; [lia|exact H2|intros; discriminate|].
    intros e He. split; [apply (H4 e He)|reflexivity].
  - split; [exact Hle|]. cbn [w_readers]. apply Forall_wupd.
    + eapply Forall_impl; [|exact HF]. intros r Hr. apply (rr_ok_frame s _ r Hr); [reflexivity|]. cbn [w_ro w_hw w_newest w_pending]. destruct Hr as (_ & _ & H3 & _). intros P. apply (H3 P).
    + intros r (H1 & H2 & H3 & H4). cbn [w_hw w_newest w_ro w_pending] in *. destruct (ractive r) eqn:Ea; [|split; [exact H1|split; [exact H2|split; assumption]]].
      apply rr_ok_mk; cbn [w_hw w_newest w_ro w_pending]; [lia|lia|intros; discriminate|intros; discriminate].
  - split; [exact Hle|]. cbn [w_readers]. apply Forall_wupd.
    + eapply Forall_impl; [|exact HF]. intros r Hr. apply (rr_ok_frame s _ r Hr); [reflexivity|]. cbn [w_ro w_hw w_newest w_pending]. destruct Hr as (_ & _ & H3 & _). intros P. apply (H3 P).
    + intros r (H1 & H2 & H3 & H4). cbn [w_hw w_newest w_ro w_pending] in *. destruct (ractive r && (n_next r <=? n_seen r)) eqn:Ea; [|split; [exact H1|split; [exact H2|split; assumption]]].
      apply andb_true_iff in Ea. destruct Ea as [_ Ele]. apply Z.leb_le in Ele.
      apply rr_ok_mk; cbn [w_hw w_newest w_ro w_pending]; [exact H1|lia|intros; discriminate|intros; discriminate].
  - split; [exact Hle|]. cbn [w_readers]. apply Forall_wupd.
    + eapply Forall_impl; [|exact HF]. intros r Hr. apply (rr_ok_frame s _ r Hr); [reflexivity|]. cbn [w_ro w_hw w_newest w_pending]. destruct Hr as (_ & _ & H3 & _). intros P. apply (H3 P).
    + intros r (H1 & H2 & H3 & H4). cbn [w_hw w_newest w_ro w_pending] in *. destruct (ractive r && (n_seen r <? n_next r)) eqn:Ea; [|split; [exact H1|split; [exact H2|split; assumption]]].
      apply andb_true_iff in Ea. destruct Ea as [Ea Elt]. apply Z.ltb_lt in Elt. destruct (ractive_spec r Ea) as [Ep Ee].
      unfold wait_outcome. cbn [wcode wv_recheck wv_changed_first wv_end_needs_leo andb].
      destruct (Z.eqb_spec (n_seen r) (w_hw s)) as [Eq|Ne]; cbn [negb]; [|split; [exact H1|split; [exact H2|split; assumption]]].
      destruct (w_ro s) eqn:Ero; cbn [andb].
      * destruct (Z.eqb_spec (w_hw s) (w_newest s)) as [Eq2|Ne2].
        -- apply rr_ok_mk; cbn [w_hw w_newest w_ro w_pending]; [exact H1|exact H2|intros; discriminate|]. intros e [= <-]. split; [lia|reflexivity].
        -- apply rr_ok_mk; cbn [w_hw w_newest w_ro w_pending]; [exact H1|exact H2| |intros; discriminate].
           intros _. split; [reflexivity|split; [exact Eq|split; [lia|]]]. intros _ Heq. contradiction.
      * apply rr_ok_mk; cbn [w_hw w_newest w_ro w_pending]; [exact H1|exact H2| |intros; discriminate].
        intros _. split; [reflexivity|split; [exact Eq|split; [lia|]]]. intros Hc. discriminate.
Qed.

Theorem wrun_inv s sched : winv s -> winv (wrun wcode s sched).
Proof.
  unfold wrun. revert s. induction sched as [|lb r IH]; intros s H; [exact H|]. cbn [fold_left]. apply IH. apply wstep_inv. exact H.
Qed.

Lemma winit_inv n : winv (winit n).
Proof.
  split; [cbn; lia|]. cbn [winit w_readers]. apply Forall_forall. intros r Hr. apply repeat_spec in Hr. subst r.
  unfold rr_ok. cbn. repeat split; try lia; try discriminate.
Qed.

(* a reader that was told "end of read-only log" has delivered everything up to the newest offset the
   log had at that moment; the ghost field records that offset *)
Theorem ended_delivered_all s sched r e : winv s -> In r (w_readers (wrun wcode s sched)) -> n_ended r = Some e -> n_next r = e + 1.
Proof.
  intros Hi Hin He. destruct (wrun_inv s sched Hi) as [_ HF]. rewrite Forall_forall in HF. destruct (HF r Hin) as (_ & _ & _ & H4). apply (H4 e He).
Qed.

(* ... and the ghost field is honest: the step that ends a reader does so on a read-only log whose HW
   has reached its newest offset, and records that offset *)
Lemma nth_wupd {A} (l : list A) i f x : nth_error l i = Some x -> nth_error (wupd l i f) i = Some (f x).
Proof. revert i. induction l as [|y t IH]; intros i H; destruct i; cbn in *; try discriminate; [injection H as ->; reflexivity|apply IH; exact H]. Qed.

Lemma nth_wupd_other {A} (l : list A) i j f : i <> j -> nth_error (wupd l i f) j = nth_error l j.
Proof. revert i j. induction l as [|y t IH]; intros i j H; destruct i, j; cbn; try reflexivity; [contradiction|apply IH; lia]. Qed.

Theorem end_step_sound s lb j r r' e : winv s -> nth_error (w_readers s) j = Some r -> n_ended r = None ->
  nth_error (w_readers (wstep wcode s lb)) j = Some r' -> n_ended r' = Some e ->
  e = w_newest s /\ w_ro s = true /\ w_hw s = w_newest s /\ n_next r' = w_newest s + 1.
Proof.
  intros [Hle HF] Hj He0 Hj' He'. rewrite Forall_forall in HF. pose proof (HF r (nth_error_In _ _ Hj)) as (H1 & H2 & H3 & H4).
  destruct lb as [n|b| |h|i|i|i]; cbn [wstep] in Hj'.
  - destruct ((0 <? n) && negb (w_ro s)); cbn [w_readers] in Hj'; rewrite Hj in Hj'; injection Hj' as <-; congruence.
  - cbn [w_readers] in Hj'. rewrite Hj in Hj'. injection Hj' as <-. congruence.
  - destruct (w_ro s && (w_newest s <=? w_hw s)) eqn:Ec; cbn [w_readers] in Hj'.
    + rewrite nth_error_map, Hj in Hj'. cbn [option_map] in Hj'. injection Hj' as <-. apply andb_true_iff in Ec. destruct Ec as [Ero Ele]. apply Z.leb_le in Ele.
      destruct (n_parked r) eqn:Ep; [|congruence]. cbn [n_ended n_next] in *. injection He' as <-. destruct (H3 eq_refl) as (_ & Es & Hlt & _).
      repeat split; try assumption; lia.
    + rewrite Hj in Hj'. injection Hj' as <-. congruence.
  - destruct ((w_hw s <? h) && (h <=? w_newest s)); cbn [w_readers] in Hj'.
    + rewrite nth_error_map, Hj in Hj'. cbn [option_map] in Hj'. injection Hj' as <-. cbn [n_ended] in He'. congruence.
    + rewrite Hj in Hj'. injection Hj' as <-. congruence.
  - cbn [w_readers] in Hj'. destruct (Nat.eq_dec i j) as [->|Nij].
    + rewrite (nth_wupd _ _ _ _ Hj) in Hj'. injection Hj' as <-. destruct (ractive r); cbn [n_ended] in He'; congruence.
    + rewrite nth_wupd_other, Hj in Hj' by exact Nij. injection Hj' as <-. congruence.
  - cbn [w_readers] in Hj'. destruct (Nat.eq_dec i j) as [->|Nij].
    + rewrite (nth_wupd _ _ _ _ Hj) in Hj'. injection Hj' as <-. destruct (ractive r && (n_next r <=? n_seen r)); cbn [n_ended] in He'; congruence.
    + rewrite nth_wupd_other, Hj in Hj' by exact Nij. injection Hj' as <-. congruence.
  - cbn [w_readers] in Hj'. destruct (Nat.eq_dec i j) as [->|Nij].
    2:{ rewrite nth_wupd_other, Hj in Hj' by exact Nij. injection Hj' as <-. congruence. }
    rewrite (nth_wupd _ _ _ _ Hj) in Hj'. injection Hj' as <-.
    destruct (ractive r && (n_seen r <? n_next r)) eqn:Ea; [|congruence].
    apply andb_true_iff in Ea. destruct Ea as [_ Elt]. apply Z.ltb_lt in Elt.
    unfold wait_outcome in *. cbn [wcode wv_recheck wv_changed_first wv_end_needs_leo andb] in *.
    destruct (Z.eqb_spec (n_seen r) (w_hw s)) as [Eq|Ne]; cbn [negb] in *; [|congruence].
    destruct (w_ro s) eqn:Ero; cbn [andb] in *; [|cbn [n_ended] in He'; congruence].
    destruct (Z.eqb_spec (w_hw s) (w_newest s)) as [Eq2|Ne2]; cbn [n_ended n_next] in *; [|congruence].
    injection He' as <-. repeat split; try assumption; try reflexivity. lia.
Qed.

(* no reader stays parked on a finished read-only log: if one is parked there, the notification of
   SetReadonly(true) is still to come (and ends it) *)
Theorem parked_on_finished_log_is_notified s sched r : winv s -> In r (w_readers (wrun wcode s sched)) -> n_parked r = true ->
  w_ro (wrun wcode s sched) = true -> w_hw (wrun wcode s sched) = w_newest (wrun wcode s sched) ->
  w_pending (wrun wcode s sched) = true.
Proof.
  intros Hi Hin Hp Hro Heq. destruct (wrun_inv s sched Hi) as [_ HF]. rewrite Forall_forall in HF.
  destruct (HF r Hin) as (_ & _ & H3 & _). destruct (H3 Hp) as (_ & _ & _ & H). apply H; assumption.
Qed.

Theorem notify_leaves_nobody_parked s r : winv s -> w_ro s = true -> w_hw s = w_newest s ->
  In r (w_readers (wstep wcode s WRoNotify)) -> n_parked r = false.
Proof.
  intros _ Hro Heq Hin. cbn [wstep] in Hin. rewrite Hro, Heq, Z.leb_refl in Hin. cbn [andb w_readers] in Hin.
  apply in_map_iff in Hin. destruct Hin as (r0 & <- & _). destruct (n_parked r0) eqn:E; [reflexivity|exact E].
Qed.

(* the invariants of Log/HwWait.v carry over *)
Theorem ro_never_above_hw s sched r : winv s -> In r (w_readers (wrun wcode s sched)) -> n_next r - 1 <= w_hw (wrun wcode s sched).
Proof.
  intros Hi Hin. destruct (wrun_inv s sched Hi) as [_ HF]. rewrite Forall_forall in HF. destruct (HF r Hin) as (H1 & H2 & _). lia.
Qed.

Theorem ro_no_lost_wakeup s sched r : winv s -> In r (w_readers (wrun wcode s sched)) ->
  n_next r <= w_hw (wrun wcode s sched) -> n_parked r = false.
Proof.
  intros Hi Hin Hn. destruct (wrun_inv s sched Hi) as [_ HF]. rewrite Forall_forall in HF. destruct (HF r Hin) as (_ & _ & H3 & _).
  destruct (n_parked r); [|reflexivity]. destruct (H3 eq_refl) as (_ & _ & Hlt & _). lia.
Qed.

(* ---- the two decisions of waitForHW are both needed, in this order ---- *)
(* decision 2 before decision 1: a message is committed on a read-only log after the reader last looked;
   the reader is told "end" with offset 0 undelivered *)
Lemma swapped_order_ends_early :
  map (fun r => (n_next r, n_ended r)) (w_readers (wrun (mkWv true false true) (winit 1) [WAppend 1; WRoFlag true; WRoNotify; WSetHW 0; WWait 0%nat]))
  = [(0, Some 0)].
Proof. vm_compute. reflexivity. Qed.

(* decision 2 without "HW = newest offset": the reader of a read-only log whose second message is not
   committed yet is told "end" after the first *)
Lemma end_without_leo_ends_early :
  map (fun r => (n_next r, n_ended r)) (w_readers (wrun (mkWv true true false) (winit 1)
     [WAppend 2; WSetHW 0; WRoFlag true; WRoNotify; WSync 0%nat; WDeliver 0%nat; WWait 0%nat]))
  = [(1, Some 1)].
Proof. vm_compute. reflexivity. Qed.

(* the code, on the same schedules *)
Lemma code_on_these_schedules :
  map (fun r => (n_next r, n_ended r, n_parked r)) (w_readers (wrun wcode (winit 1) [WAppend 1; WRoFlag true; WRoNotify; WSetHW 0; WWait 0%nat; WSync 0%nat; WDeliver 0%nat; WWait 0%nat]))
  = [(1, Some 0, false)] /\
  map (fun r => (n_next r, n_ended r, n_parked r)) (w_readers (wrun wcode (winit 1)
     [WAppend 2; WSetHW 0; WRoFlag true; WRoNotify; WSync 0%nat; WDeliver 0%nat; WWait 0%nat; WSetHW 1; WSync 0%nat; WDeliver 0%nat; WWait 0%nat]))
  = [(2, Some 1, false)].
Proof. vm_compute. split; reflexivity. Qed.

(* progress: a reader that is neither parked nor ended and whose next message is covered by the HW
   delivers it after one look at the HW *)
Theorem ro_progress_enabled s i r : nth_error (w_readers s) i = Some r -> ractive r = true -> n_next r <= w_hw s ->
  exists r', nth_error (w_readers (wstep wcode (wstep wcode s (WSync i)) (WDeliver i))) i = Some r' /\ n_next r' = n_next r + 1.
Proof.
  intros Hn Ha Hle. cbn [wstep w_readers w_hw w_newest w_ro w_pending].
  erewrite nth_wupd; [|erewrite nth_wupd; [reflexivity|exact Hn]]. rewrite Ha.
  unfold ractive at 1. cbn [n_parked n_ended n_next n_seen negb andb].
  destruct (Z.leb_spec (n_next r) (w_hw s)); [|lia]. eexists. split; [reflexivity|reflexivity].
Qed.
