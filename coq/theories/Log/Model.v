(* Executable model of server/commitlog: segments, append (with optimistic concurrency
   control), replicated message-set append, segment roll, truncate, reopen, the leader-epoch
   cache, and the sequential behaviour of uncommitted / committed readers.

   Conventions (DESIGN.md section 3): offsets, timestamps, positions are Z; leader epochs N;
   a record's body is the serialized message (bytes); its on-disk frame is 28 + |body| bytes.
   Guards carried by the theorems: timestamps > 0 (the code uses firstWriteTime = 0 as
   "never written"), batches non-empty (Append/AppendMessageSet index entries[len-1]),
   segment positions and relative offsets < 2^31 (the index narrows both to int32),
   MaxSegmentAge = 0 (time-based roll is a clock-driven input that is not modelled). *)
From LB Require Import Base.Prelude.
Open Scope Z_scope.

Record rec := mkRec { r_off : Z; r_ts : Z; r_ep : N; r_body : bytes }.
Definition rsize (r : rec) : Z := 28 + Z.of_nat (length (r_body r)).

Record seg := mkSeg { s_base : Z; s_recs : list rec }.

Definition last_off_of (rs : list rec) : Z := fold_left (fun _ r => r_off r) rs (-1).
Definition last_ts_of (rs : list rec) : Z := fold_left (fun _ r => r_ts r) rs 0.
Definition s_last (s : seg) : Z := last_off_of (s_recs s).          (* lastOffset *)
Definition s_first (s : seg) : Z :=                                   (* firstOffset *)
  match s_recs s with [] => -1 | r :: _ => r_off r end.
Definition s_next (s : seg) : Z :=                                    (* NextOffset() *)
  if s_last s =? -1 then s_base s else s_last s + 1.
Definition s_pos (s : seg) : Z := fold_left (fun a r => a + rsize r) (s_recs s) 0.  (* position *)
Definition s_count (s : seg) : Z := Z.of_nat (length (s_recs s)).    (* MessageCount() *)
Definition s_last_ts (s : seg) : Z := last_ts_of (s_recs s).         (* lastWriteTime *)

Definition epoch_cache := list (N * Z).

Record log := mkLog { l_segs : list seg; l_hw : Z; l_cache : epoch_cache; l_ro : bool }.

Definition empty_seg (b : Z) : seg := mkSeg b [].
Definition new_log : log := mkLog [empty_seg 0] (-1) [] false.

Definition dummy_seg : seg := empty_seg 0.
Definition active (l : log) : seg := last (l_segs l) dummy_seg.
Definition newest (l : log) : Z := s_next (active l) - 1.            (* NewestOffset() *)
Definition oldest (l : log) : Z :=                                    (* OldestOffset() *)
  match l_segs l with [] => -1 | s :: _ => s_first s end.
Definition all_recs (l : log) : list rec := concat (map s_recs (l_segs l)).

Fixpoint upd_last {A} (f : A -> A) (l : list A) : list A :=
  match l with
  | [] => []
  | [a] => [f a]
  | x :: r => x :: upd_last f r
  end.

(* ---- leader epoch cache (leader_epoch_cache.go) ---- *)
Definition cache_latest_epoch (c : epoch_cache) : N := fold_left (fun _ e => fst e) c 0%N.
Definition cache_latest_off (c : epoch_cache) : Z := fold_left (fun _ e => snd e) c (-1).
Definition cache_earliest_off (c : epoch_cache) : Z := match c with [] => -1 | e :: _ => snd e end.

Definition cache_assign (c : epoch_cache) (e : N) (o : Z) : epoch_cache :=
  if (cache_latest_epoch c <? e)%N && (cache_latest_off c <=? o) then c ++ [(e, o)] else c.

(* LastOffsetForLeaderEpoch of the cache: start of the first epoch >= e+1, else -1 *)
Fixpoint cache_find (c : epoch_cache) (e : N) : option Z :=
  match c with
  | [] => None
  | (e', o) :: r => if (e <=? e')%N then Some o else cache_find r e
  end.
Definition cache_last_offset_for (c : epoch_cache) (e : N) : Z :=
  match cache_find c (e + 1)%N with Some o => o | None => -1 end.

Definition cache_clear_latest (c : epoch_cache) (o : Z) : epoch_cache :=
  if cache_latest_off c <? o then c else filter (fun e => snd e <? o) c.

Definition cache_clear_earliest (c : epoch_cache) (o : Z) : epoch_cache :=
  if o <=? cache_earliest_off c then c else
  let early := filter (fun e => snd e <? o) c in
  match rev early with
  | [] => c
  | (le, _) :: _ =>
    let rest := skipn (length early) c in
    if (o <? cache_earliest_off rest) || (match rest with [] => true | _ => false end)
    then (le, o) :: rest else rest
  end.

(* ---- append path ---- *)
Record msg := mkMsg { m_ts : Z; m_ep : N; m_body : bytes; m_exp : Z }.

Definition check_split (maxb : Z) (l : log) : log :=
  let a := active l in
  if maxb <=? s_pos a
  then mkLog (l_segs l ++ [empty_seg (s_next a)]) (l_hw l) (l_cache l) (l_ro l)
  else l.

Fixpoint number (next : Z) (ms : list msg) : list rec :=
  match ms with
  | [] => []
  | m :: r => mkRec next (m_ts m) (m_ep m) (m_body m) :: number (next + 1) r
  end.

Definition cache_assign_all (c : epoch_cache) (rs : list rec) : epoch_cache :=
  fold_left (fun c r => cache_assign c (r_ep r) (r_off r)) rs c.

Definition write (l : log) (rs : list rec) : log :=
  mkLog (upd_last (fun a => mkSeg (s_base a) (s_recs a ++ rs)) (l_segs l)) (l_hw l)
        (cache_assign_all (l_cache l) rs) (l_ro l).

(* expected-offset check of newMessageSetFromProto: message i gets offset base+i *)
Fixpoint occ_ok (next : Z) (ms : list msg) : bool :=
  match ms with
  | [] => true
  | m :: r => ((m_exp m =? -1) || (m_exp m =? next)) && occ_ok (next + 1) r
  end.

(* commitLog.Append; cc = Options.ConcurrencyControl *)
Definition append (maxb : Z) (cc : bool) (l : log) (ms : list msg) : res (log * list Z) :=
  if l_ro l then Err else
  match ms with
  | [] => Panic
  | _ =>
    let l1 := check_split maxb l in
    if cc && (1 <? Z.of_nat (length ms)) then Panic else
    let next := s_next (active l1) in
    if cc && negb (occ_ok next ms) then Err else
    let rs := number next ms in
    Ok (write l1 rs, map r_off rs)
  end.

(* What is left of the log when Append fails with ErrIncorrectOffset / read-only: the roll
   (if due) has already happened, nothing else. *)
Definition append_log (maxb : Z) (cc : bool) (l : log) (ms : list msg) : log :=
  match append maxb cc l ms with
  | Ok (l', _) => l'
  | Err => if l_ro l then l else check_split maxb l
  | Panic => l
  end.

(* commitLog.AppendMessageSet: records carry their offsets; no validation *)
Definition append_set (maxb : Z) (l : log) (rs : list rec) : res (log * list Z) :=
  match rs with
  | [] => Panic
  | _ => let l1 := check_split maxb l in Ok (write l1 rs, map r_off rs)
  end.

(* ---- segment / entry lookup (util.go, segment.findEntry) ---- *)
(* first segment whose NextOffset > o, with its index *)
Fixpoint find_segment (segs : list seg) (o : Z) : option (nat * seg) :=
  match segs with
  | [] => None
  | s :: r => if o <? s_next s then Some (O, s)
              else match find_segment r o with Some (i, t) => Some (S i, t) | None => None end
  end.

(* records of a segment from the first entry whose offset >= o *)
Fixpoint from_entry (rs : list rec) (o : Z) : list rec :=
  match rs with
  | [] => []
  | r :: t => if o <=? r_off r then rs else from_entry t o
  end.

(* ---- Truncate (commitlog.go:548-617) ---- *)
Fixpoint keep_below (rs : list rec) (o : Z) : list rec :=
  match rs with
  | [] => []
  | r :: t => if r_off r <? o then r :: keep_below t o else []
  end.

Fixpoint trunc_segs (first : bool) (segs : list seg) (o : Z) : list seg :=
  match segs with
  | [] => []
  | s :: r =>
    if o <? s_next s then
      if (s_base s =? o) && negb first then []
      else [mkSeg (s_base s) (keep_below (s_recs s) o)]
    else s :: trunc_segs false r o
  end.

Definition truncate (l : log) (o : Z) : log :=
  match find_segment (l_segs l) o with
  | None => l
  | Some _ =>
    let segs := trunc_segs true (l_segs l) o in
    (* epochs that start at or after the offset go, and so do those that start beyond the new log
       end (the two differ only in a log with a hole below the offset) *)
    mkLog segs (l_hw l) (cache_clear_latest (l_cache l) (Z.min o (s_next (last segs dummy_seg)))) (l_ro l)
  end.

(* ---- Close + New on the same directory ---- *)
Definition reopen (l : log) : log :=
  mkLog (l_segs l) (l_hw l)
        (cache_clear_earliest (cache_clear_latest (l_cache l) (s_next (active l))) (oldest l))
        false.

(* ---- high watermark ---- *)
Definition set_hw (l : log) (h : Z) : log :=
  if l_hw l <? h then mkLog (l_segs l) h (l_cache l) (l_ro l) else l.

Definition set_readonly (l : log) (b : bool) : log := mkLog (l_segs l) (l_hw l) (l_cache l) b.

(* NewLeaderEpoch / LastOffsetForLeaderEpoch of the commit log *)
Definition new_leader_epoch (l : log) (e : N) : log :=
  mkLog (l_segs l) (l_hw l) (cache_assign (l_cache l) e (newest l + 1)) (l_ro l).
Definition last_offset_for_epoch (l : log) (e : N) : Z :=
  let o := cache_last_offset_for (l_cache l) e in
  if o =? -1 then newest l else o.

(* ---- readers, sequential behaviour on a quiescent log ---- *)
Inductive rd_end := EndWait | EndReadonly | EndNotFound | EndOther.

(* NewReader(o, uncommitted=true) then ReadMessage until it would block *)
Definition read_uncommitted (l : log) (o : Z) : list rec * rd_end :=
  match find_segment (l_segs l) o with
  | None => ([], EndNotFound)
  | Some (i, s) =>
    let here := if s_base s <=? o then from_entry (s_recs s) o else s_recs s in
    (here ++ concat (map s_recs (skipn (S i) (l_segs l))), EndWait)
  end.

(* position just after the first entry >= hw in the first segment whose NextOffset > hw
   (getHWPos); expressed as: number of records of the flattened log up to and including it *)
Fixpoint upto_entry (rs : list rec) (h : Z) : option (list rec) :=
  match rs with
  | [] => None
  | r :: t => if h <=? r_off r then Some [r]
              else match upto_entry t h with Some p => Some (r :: p) | None => None end
  end.

(* records before the HW position: whole segments before the HW segment, then the HW
   segment up to and including the first entry >= hw *)
Fixpoint upto_hw (segs : list seg) (h : Z) : res (list rec) :=
  match segs with
  | [] => Err                                    (* ErrSegmentNotFound *)
  | s :: r =>
    if h <? s_next s then
      match upto_entry (s_recs s) h with
      | Some p => Ok p
      | None => Err                              (* ErrEntryNotFound *)
      end
    else match upto_hw r h with
         | Ok p => Ok (s_recs s ++ p)
         | e => e
         end
  end.

Definition end_of (l : log) : rd_end :=
  if l_ro l && (l_hw l =? newest l) then EndReadonly else EndWait.

(* NewReader(o, uncommitted=false) then ReadMessage until it would block *)
Definition read_committed (l : log) (o : Z) : list rec * rd_end :=
  if (l_hw l <? o) || (oldest l =? -1) then ([], end_of l)
  else
    match upto_hw (l_segs l) (l_hw l) with
    | Ok visible =>
      match find_segment (l_segs l) o with
      | None => ([], EndNotFound)
      | Some (i, s) =>
        let before := concat (map s_recs (firstn i (l_segs l))) in
        let skip := if s_base s <=? o
                    then (length before + (length (s_recs s) - length (from_entry (s_recs s) o)))%nat
                    else length before in
        (skipn skip visible, end_of l)
      end
    | _ => ([], EndOther)
    end.

(* ---- live readers (a Reader object kept across operations) ----
   Abstract state: the next offset the reader will deliver. NewReader positions a committed
   reader that starts beyond the HW (or on an empty log) at hw+1 -- the requested offset is
   forgotten (reader.go:231-233, 345-360); every other reader at the requested offset. *)
Record reader := mkReader { rd_unc : bool; rd_next : Z }.

Definition reader_open (l : log) (unc : bool) (o : Z) : option reader :=
  if unc then
    match find_segment (l_segs l) o with
    | None => None                               (* ErrSegmentNotFound *)
    | Some _ => Some (mkReader true o)
    end
  else if (l_hw l <? o) || (oldest l =? -1) then Some (mkReader false (l_hw l + 1))
  else Some (mkReader false o).

(* ReadMessage until it would block: the records delivered, the end reason, the new state *)
Definition reader_drain (l : log) (r : reader) : list rec * rd_end * reader :=
  let rs := if rd_unc r
            then filter (fun x => rd_next r <=? r_off x) (all_recs l)
            else filter (fun x => (rd_next r <=? r_off x) && (r_off x <=? l_hw l)) (all_recs l) in
  let nx := match rev rs with [] => rd_next r | x :: _ => r_off x + 1 end in
  (rs, if rd_unc r then EndWait else end_of l, mkReader (rd_unc r) nx).
