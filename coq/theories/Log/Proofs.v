(* Refinement of the segmented commit-log model (Log/Model.v) to the abstract log
   "a strictly increasing list of records": content after each operation, offsets returned,
   what readers return. *)
From LB Require Import Base.Prelude Log.Model.
From Coq Require Import ZifyBool.
Open Scope Z_scope.

(* ------------------------------------------------------------------ sortedness *)
(* offsets strictly increasing and >= lo *)
Fixpoint sorted_from (lo : Z) (rs : list rec) : Prop :=
  match rs with
  | [] => True
  | r :: t => lo <= r_off r /\ sorted_from (r_off r + 1) t
  end.

(* next offset after a run of records that starts no lower than lo *)
Definition next_after (lo : Z) (rs : list rec) : Z :=
  if last_off_of rs =? -1 then lo else last_off_of rs + 1.

Lemma last_off_snoc rs r : last_off_of (rs ++ [r]) = r_off r.
Proof. unfold last_off_of. rewrite fold_left_app. reflexivity. Qed.

Lemma last_off_cons r rs : last_off_of (r :: rs) = match rs with [] => r_off r | _ => last_off_of rs end.
Proof.
  unfold last_off_of. destruct rs as [|x t]; [reflexivity|]. cbn [fold_left].
  revert r x. induction t as [|y t IH]; intros r x; [reflexivity|]. cbn [fold_left]. apply (IH x y).
Qed.

Lemma sorted_from_weaken lo lo' rs : lo' <= lo -> sorted_from lo rs -> sorted_from lo' rs.
Proof. destruct rs as [|r t]; simpl; [auto|]. intros H [H1 H2]. split; [lia|assumption]. Qed.

Lemma sorted_last_ge lo rs : 0 <= lo -> sorted_from lo rs -> rs <> [] -> lo <= last_off_of rs.
Proof.
  revert lo. induction rs as [|r t IH]; intros lo Hlo Hs Hne; [congruence|].
  rewrite last_off_cons. destruct Hs as [H1 H2]. destruct t as [|x t']; [lia|].
  assert (r_off r + 1 <= last_off_of (x :: t')) by (apply IH; [lia|assumption|discriminate]). lia.
Qed.

Lemma last_off_empty_iff lo rs : 0 <= lo -> sorted_from lo rs -> (last_off_of rs = -1 <-> rs = []).
Proof.
  intros Hlo Hs. split; intros H; [|subst; reflexivity].
  destruct rs as [|r t]; [reflexivity|]. exfalso.
  assert (lo <= last_off_of (r :: t)) by (apply sorted_last_ge; [lia|assumption|discriminate]). lia.
Qed.

Lemma next_after_nil lo : next_after lo [] = lo.
Proof. reflexivity. Qed.

Lemma next_after_ge lo rs : 0 <= lo -> sorted_from lo rs -> lo <= next_after lo rs.
Proof.
  intros Hlo Hs. unfold next_after. destruct (Z.eqb_spec (last_off_of rs) (-1)) as [E|E]; [lia|].
  assert (rs <> []) by (intros ->; apply E; reflexivity).
  pose proof (sorted_last_ge lo rs Hlo Hs H). lia.
Qed.

Lemma next_after_cons lo r t : 0 <= lo -> lo <= r_off r -> sorted_from (r_off r + 1) t ->
  next_after lo (r :: t) = next_after (r_off r + 1) t.
Proof.
  intros Hlo H1 H2. unfold next_after. rewrite last_off_cons. destruct t as [|x t'].
  - change (last_off_of []) with (-1). rewrite Z.eqb_refl.
    destruct (Z.eqb_spec (r_off r) (-1)); [lia|reflexivity].
  - assert (r_off r + 1 <= last_off_of (x :: t')) by (apply sorted_last_ge; [lia|assumption|discriminate]).
    destruct (Z.eqb_spec (last_off_of (x :: t')) (-1)); [lia|reflexivity].
Qed.

Lemma sorted_all_lt lo rs : 0 <= lo -> sorted_from lo rs -> Forall (fun r => lo <= r_off r < next_after lo rs) rs.
Proof.
  revert lo. induction rs as [|r t IH]; intros lo Hlo Hs; [constructor|].
  destruct Hs as [H1 H2].
  assert (Hn : next_after lo (r :: t) = next_after (r_off r + 1) t) by (apply next_after_cons; assumption).
  rewrite Hn. pose proof (next_after_ge (r_off r + 1) t ltac:(lia) H2) as Hge.
  constructor; [lia|].
  eapply Forall_impl; [|apply (IH (r_off r + 1)); [lia|exact H2]]. cbn beta. intros a Ha. lia.
Qed.

Lemma sorted_app lo a b : 0 <= lo ->
  sorted_from lo (a ++ b) <-> sorted_from lo a /\ sorted_from (next_after lo a) b.
Proof.
  revert lo. induction a as [|r t IH]; intros lo Hlo.
  - simpl. rewrite next_after_nil. tauto.
  - cbn [app sorted_from].
    assert (Hn : lo <= r_off r -> sorted_from (r_off r + 1) t -> next_after lo (r :: t) = next_after (r_off r + 1) t)
      by (intros; apply next_after_cons; assumption).
    split.
    + intros [H1 H2]. apply IH in H2; [|lia]. destruct H2 as [H2 H3].
      split; [split; assumption|]. rewrite Hn by assumption. assumption.
    + intros [[H1 H2] H3]. split; [assumption|]. apply IH; [lia|]. split; [assumption|].
      rewrite Hn in H3 by assumption. assumption.
Qed.

(* ------------------------------------------------------------------ well-formed logs *)
Fixpoint segs_wf (lo : Z) (segs : list seg) : Prop :=
  match segs with
  | [] => True
  | s :: t => lo <= s_base s /\ sorted_from (s_base s) (s_recs s) /\ segs_wf (s_next s) t
  end.

Definition wf (l : log) : Prop := l_segs l <> [] /\ segs_wf 0 (l_segs l).

Lemma s_next_eq s : s_next s = next_after (s_base s) (s_recs s).
Proof. reflexivity. Qed.

Lemma s_next_ge s : 0 <= s_base s -> sorted_from (s_base s) (s_recs s) -> s_base s <= s_next s.
Proof. intros. rewrite s_next_eq. apply next_after_ge; assumption. Qed.

Lemma segs_wf_weaken lo lo' segs : lo' <= lo -> segs_wf lo segs -> segs_wf lo' segs.
Proof. destruct segs; simpl; [auto|]. intros H (H1 & H2 & H3). repeat split; try assumption. lia. Qed.

Definition flat (segs : list seg) : list rec := concat (map s_recs segs).

(* next offset after a chain of segments *)
Fixpoint chain_next (lo : Z) (segs : list seg) : Z :=
  match segs with
  | [] => lo
  | s :: t => chain_next (s_next s) t
  end.

Lemma chain_next_ge lo segs : 0 <= lo -> segs_wf lo segs -> lo <= chain_next lo segs.
Proof.
  revert lo. induction segs as [|s t IH]; intros lo Hlo Hw; [simpl; lia|].
  destruct Hw as (H1 & H2 & H3). cbn [chain_next].
  pose proof (s_next_ge s ltac:(lia) H2). specialize (IH (s_next s) ltac:(lia) H3). lia.
Qed.

Lemma chain_next_app lo a b : chain_next lo (a ++ b) = chain_next (chain_next lo a) b.
Proof. revert lo. induction a as [|s t IH]; intros lo; [reflexivity|]. cbn [app chain_next]. apply IH. Qed.

Lemma segs_wf_app lo a b : segs_wf lo (a ++ b) <-> segs_wf lo a /\ segs_wf (chain_next lo a) b.
Proof.
  revert lo. induction a as [|s t IH]; intros lo; cbn [app segs_wf chain_next]; [tauto|].
  rewrite IH. tauto.
Qed.

(* the flattened log is sorted, and everything in it is below chain_next *)
Lemma flat_sorted lo segs : 0 <= lo -> segs_wf lo segs ->
  sorted_from lo (flat segs) /\ next_after lo (flat segs) <= chain_next lo segs.
Proof.
  revert lo. induction segs as [|s t IH]; intros lo Hlo Hw.
  - split; [exact I|]. unfold flat. cbn [map concat chain_next]. rewrite next_after_nil. lia.
  - destruct Hw as (H1 & H2 & H3). unfold flat. cbn [map concat chain_next]. fold (flat t).
    pose proof (s_next_ge s ltac:(lia) H2) as Hn.
    destruct (IH (s_next s) ltac:(lia) H3) as [IH1 IH2].
    assert (Hs : sorted_from lo (s_recs s)) by (eapply sorted_from_weaken; [exact H1|exact H2]).
    assert (Hna : next_after lo (s_recs s) <= s_next s).
    { rewrite s_next_eq. unfold next_after. destruct (Z.eqb_spec (last_off_of (s_recs s)) (-1)); lia. }
    split.
    + apply sorted_app; [lia|]. split; [exact Hs|].
      eapply sorted_from_weaken; [exact Hna|exact IH1].
    + unfold next_after in *. rewrite <- IH2.
      destruct (flat t) as [|x ft] eqn:Eft.
      * rewrite app_nil_r. cbn [last_off_of fold_left] in *.
        destruct (Z.eqb_spec (-1) (-1)); [|lia].
        destruct (Z.eqb_spec (last_off_of (s_recs s)) (-1)); lia.
      * assert (Hl : last_off_of (s_recs s ++ x :: ft) = last_off_of (x :: ft)).
        { unfold last_off_of. rewrite fold_left_app. reflexivity. }
        rewrite Hl.
        assert (s_next s <= last_off_of (x :: ft)) by (apply sorted_last_ge; [lia|assumption|discriminate]).
        destruct (Z.eqb_spec (last_off_of (x :: ft)) (-1)); lia.
Qed.

Lemma wf_all_sorted l : wf l -> sorted_from 0 (all_recs l).
Proof. intros [_ H]. apply (flat_sorted 0 (l_segs l)); [lia|exact H]. Qed.

(* ------------------------------------------------------------------ filters on sorted lists *)
Definition ge_off (o : Z) (r : rec) : bool := o <=? r_off r.
Definition lt_off (o : Z) (r : rec) : bool := r_off r <? o.

Lemma filter_ge_all lo rs o : sorted_from lo rs -> o <= lo -> filter (ge_off o) rs = rs.
Proof.
  revert lo. induction rs as [|r t IH]; intros lo Hs Ho; [reflexivity|].
  destruct Hs as [H1 H2]. cbn [filter]. unfold ge_off at 1.
  destruct (Z.leb_spec o (r_off r)); [|lia]. f_equal. apply (IH (r_off r + 1)); [assumption|lia].
Qed.

Lemma filter_ge_none rs o : Forall (fun r => r_off r < o) rs -> filter (ge_off o) rs = [].
Proof.
  induction 1 as [|r t H _ IH]; [reflexivity|]. cbn [filter]. unfold ge_off at 1.
  destruct (Z.leb_spec o (r_off r)); [lia|assumption].
Qed.

Lemma filter_lt_all rs o : Forall (fun r => r_off r < o) rs -> filter (lt_off o) rs = rs.
Proof.
  induction 1 as [|r t H _ IH]; [reflexivity|]. cbn [filter]. unfold lt_off at 1.
  destruct (Z.ltb_spec (r_off r) o); [|lia]. f_equal. assumption.
Qed.

Lemma filter_lt_none lo rs o : sorted_from lo rs -> o <= lo -> filter (lt_off o) rs = [].
Proof.
  revert lo. induction rs as [|r t IH]; intros lo Hs Ho; [reflexivity|].
  destruct Hs as [H1 H2]. cbn [filter]. unfold lt_off at 1.
  destruct (Z.ltb_spec (r_off r) o); [lia|]. apply (IH (r_off r + 1)); [assumption|lia].
Qed.

Lemma from_entry_filter lo rs o : sorted_from lo rs -> from_entry rs o = filter (ge_off o) rs.
Proof.
  revert lo. induction rs as [|r t IH]; intros lo Hs; [reflexivity|].
  destruct Hs as [H1 H2]. cbn [from_entry filter]. unfold ge_off at 1.
  destruct (Z.leb_spec o (r_off r)).
  - f_equal. symmetry. apply (filter_ge_all (r_off r + 1)); [assumption|lia].
  - apply (IH (r_off r + 1)). assumption.
Qed.

Lemma keep_below_filter lo rs o : sorted_from lo rs -> keep_below rs o = filter (lt_off o) rs.
Proof.
  revert lo. induction rs as [|r t IH]; intros lo Hs; [reflexivity|].
  destruct Hs as [H1 H2]. cbn [keep_below filter]. unfold lt_off at 1.
  destruct (Z.ltb_spec (r_off r) o).
  - f_equal. apply (IH (r_off r + 1)). assumption.
  - symmetry. apply (filter_lt_none (r_off r + 1)); [assumption|lia].
Qed.

Lemma seg_all_lt_next s : 0 <= s_base s -> sorted_from (s_base s) (s_recs s) ->
  Forall (fun r => s_base s <= r_off r < s_next s) (s_recs s).
Proof. intros. rewrite s_next_eq. apply sorted_all_lt; assumption. Qed.

Lemma flat_app a b : flat (a ++ b) = flat a ++ flat b.
Proof. unfold flat. rewrite map_app, concat_app. reflexivity. Qed.

Lemma flat_all_ge lo segs : 0 <= lo -> segs_wf lo segs -> Forall (fun r => lo <= r_off r) (flat segs).
Proof.
  intros Hlo Hw. destruct (flat_sorted lo segs Hlo Hw) as [Hs _].
  pose proof (sorted_all_lt lo (flat segs) Hlo Hs) as HF.
  eapply Forall_impl; [|exact HF]. cbn beta. intros; lia.
Qed.

(* ------------------------------------------------------------------ find_segment *)
Lemma find_segment_some segs o i s : find_segment segs o = Some (i, s) ->
  exists pre post, segs = pre ++ s :: post /\ length pre = i /\ o < s_next s /\
                   Forall (fun s' => s_next s' <= o) pre.
Proof.
  revert i. induction segs as [|x t IH]; intros i H; [discriminate|].
  cbn [find_segment] in H. destruct (Z.ltb_spec o (s_next x)) as [Hlt|Hge].
  - injection H as <- <-. exists [], t. repeat split; [assumption|constructor].
  - destruct (find_segment t o) as [[j u]|] eqn:E; [|discriminate].
    injection H as <- <-. destruct (IH j eq_refl) as (pre & post & E1 & L & Hlt & HF).
    exists (x :: pre), post. subst t. repeat split; try assumption; [cbn; lia|].
    constructor; assumption.
Qed.

Lemma find_segment_none segs o : find_segment segs o = None -> Forall (fun s' => s_next s' <= o) segs.
Proof.
  induction segs as [|x t IH]; intros H; [constructor|].
  cbn [find_segment] in H. destruct (Z.ltb_spec o (s_next x)) as [Hlt|Hge]; [discriminate|].
  destruct (find_segment t o) as [[j u]|] eqn:E; [discriminate|]. constructor; [assumption|auto].
Qed.

Lemma segs_below_all_lt lo segs o : 0 <= lo -> segs_wf lo segs ->
  Forall (fun s' => s_next s' <= o) segs -> Forall (fun r => r_off r < o) (flat segs).
Proof.
  revert lo. induction segs as [|s t IH]; intros lo Hlo Hw HF; [constructor|].
  destruct Hw as (H1 & H2 & H3). inversion HF as [|? ? Hs Ht]; subst.
  unfold flat. cbn [map concat]. apply Forall_app. split.
  - eapply Forall_impl; [|apply seg_all_lt_next; [lia|exact H2]]. cbn beta. intros; lia.
  - pose proof (s_next_ge s ltac:(lia) H2). apply (IH (s_next s)); [lia|assumption|assumption].
Qed.
