(* Each operation of the segmented log refines the abstract log (a sorted list of records):
   content after the operation, offsets returned, well-formedness preserved, readers. *)
From LB Require Import Base.Prelude Log.Model Log.Proofs.
From Coq Require Import ZifyBool.
Open Scope Z_scope.

Lemma upd_last_snoc {A} (f : A -> A) l a : upd_last f (l ++ [a]) = l ++ [f a].
Proof.
  induction l as [|x t IH]; [reflexivity|].
  destruct t as [|y t']; [reflexivity|].
  change (upd_last f ((x :: y :: t') ++ [a])) with (x :: upd_last f ((y :: t') ++ [a])).
  rewrite IH. reflexivity.
Qed.

Lemma last_snoc {A} (l : list A) a d : last (l ++ [a]) d = a.
Proof. apply last_last. Qed.

Lemma wf_split l : wf l -> exists pre a, l_segs l = pre ++ [a].
Proof. intros [Hne _]. destruct (exists_last Hne) as (pre & a & E). eauto. Qed.

Lemma chain_next_snoc lo pre a : chain_next lo (pre ++ [a]) = s_next a.
Proof. rewrite chain_next_app. reflexivity. Qed.

Lemma all_recs_eq l : all_recs l = flat (l_segs l).
Proof. reflexivity. Qed.

(* offsets handed out by number *)

Lemma number_offs n ms : map r_off (number n ms) = zseq n (length ms).
Proof. revert n. induction ms as [|m t IH]; intros n; [reflexivity|]. cbn. f_equal. apply IH. Qed.

Lemma number_sorted n ms : sorted_from n (number n ms).
Proof. revert n. induction ms as [|m t IH]; intros n; cbn; [exact I|]. split; [lia|apply IH]. Qed.

Lemma number_nil n ms : number n ms = [] -> ms = [].
Proof. destruct ms; [reflexivity|discriminate]. Qed.

(* ------------------------------------------------------------------ roll *)
Lemma check_split_props maxb l : wf l ->
  wf (check_split maxb l) /\ all_recs (check_split maxb l) = all_recs l /\
  s_next (active (check_split maxb l)) = newest l + 1 /\
  l_hw (check_split maxb l) = l_hw l /\ l_ro (check_split maxb l) = l_ro l /\
  l_cache (check_split maxb l) = l_cache l.
Proof.
  intros Hw. destruct (wf_split l Hw) as (pre & a & E). destruct Hw as [Hne Hs].
  unfold check_split, newest, active. rewrite E, last_snoc.
  destruct (Z.leb_spec maxb (s_pos a)).
  - cbn [l_segs l_hw l_ro l_cache]. rewrite last_snoc.
    repeat split; try reflexivity.
    + destruct pre; discriminate.
    + cbn [l_segs]. rewrite E in Hs. apply segs_wf_app. split; [exact Hs|].
      rewrite chain_next_snoc. cbn. repeat split; lia.
    + rewrite !all_recs_eq. cbn [l_segs]. rewrite E, flat_app. unfold flat at 2. cbn. rewrite app_nil_r. reflexivity.
    + cbn. lia.
  - rewrite E, last_snoc. repeat split; try reflexivity; try assumption. lia.
Qed.

(* ------------------------------------------------------------------ write *)
Lemma write_props l rs : wf l -> sorted_from (s_next (active l)) rs ->
  wf (write l rs) /\ all_recs (write l rs) = all_recs l ++ rs /\ l_hw (write l rs) = l_hw l /\
  l_ro (write l rs) = l_ro l.
Proof.
  intros Hw Hrs. destruct (wf_split l Hw) as (pre & a & E). destruct Hw as [Hne Hs].
  unfold write, active in *. rewrite E in *. rewrite last_snoc in Hrs. rewrite upd_last_snoc.
  apply segs_wf_app in Hs. destruct Hs as [Hpre Ha]. cbn [segs_wf] in Ha. destruct Ha as (Hb & Hsa & _).
  assert (H0 : 0 <= chain_next 0 pre) by (apply chain_next_ge; [lia|assumption]).
  repeat split; try reflexivity.
  - cbn [l_segs]. destruct pre; discriminate.
  - cbn [l_segs]. apply segs_wf_app. split; [exact Hpre|]. cbn [segs_wf s_base s_recs].
    split; [exact Hb|]. split; [|exact I].
    apply sorted_app; [lia|]. split; [exact Hsa|]. rewrite <- s_next_eq. exact Hrs.
  - rewrite !all_recs_eq. cbn [l_segs]. rewrite E, !flat_app. unfold flat at 2 4. cbn [map concat s_recs].
    rewrite !app_nil_r, app_assoc. reflexivity.
Qed.

(* ------------------------------------------------------------------ Append *)
Theorem append_refines maxb l ms l' offs :
  wf l -> append maxb false l ms = Ok (l', offs) ->
  wf l' /\ all_recs l' = all_recs l ++ number (newest l + 1) ms /\
  offs = zseq (newest l + 1) (length ms) /\ l_hw l' = l_hw l.
Proof.
  intros Hw H.
  destruct (check_split_props maxb l Hw) as (Hw1 & Hc & Hn & Hh & _).
  assert (E : l' = write (check_split maxb l) (number (newest l + 1) ms) /\
              offs = map r_off (number (newest l + 1) ms)).
  { unfold append in H. destruct (l_ro l); [discriminate|]. destruct ms as [|m t]; [discriminate|].
    cbn [andb] in H. rewrite Hn in H. split; congruence. }
  destruct E as [-> ->].
  destruct (write_props (check_split maxb l) (number (newest l + 1) ms) Hw1) as (Hw2 & Hc2 & Hh2 & _).
  { rewrite Hn. apply number_sorted. }
  split; [exact Hw2|]. split; [rewrite Hc2, Hc; reflexivity|]. split; [apply number_offs|congruence].
Qed.

(* optimistic concurrency control: one message per batch *)
Theorem append_occ maxb l m :
  wf l -> l_ro l = false ->
  (m_exp m = -1 \/ m_exp m = newest l + 1 ->
     exists l', append maxb true l [m] = Ok (l', [newest l + 1]) /\ wf l' /\
                all_recs l' = all_recs l ++ [mkRec (newest l + 1) (m_ts m) (m_ep m) (m_body m)]) /\
  (m_exp m <> -1 -> m_exp m <> newest l + 1 ->
     append maxb true l [m] = Err /\ all_recs (append_log maxb true l [m]) = all_recs l /\
     wf (append_log maxb true l [m]) /\ newest (append_log maxb true l [m]) = newest l).
Proof.
  intros Hw Hro.
  destruct (check_split_props maxb l Hw) as (Hw1 & Hc & Hn & Hh & Hr & _).
  split.
  - intros Hexp. unfold append. rewrite Hro. cbn [length Z.of_nat Pos.of_succ_nat andb].
    change (1 <? 1) with false. cbn [andb]. rewrite Hn. cbn [occ_ok].
    assert (E : (m_exp m =? -1) || (m_exp m =? newest l + 1) = true) by lia.
    rewrite E. cbn [andb negb number map r_off].
    eexists. split; [reflexivity|].
    destruct (write_props (check_split maxb l) [mkRec (newest l + 1) (m_ts m) (m_ep m) (m_body m)] Hw1) as (Hw2 & Hc2 & _).
    { rewrite Hn. cbn. split; [lia|exact I]. }
    split; [exact Hw2|]. rewrite Hc2, Hc. reflexivity.
  - intros H1 H2. unfold append_log, append. rewrite Hro. cbn [length Z.of_nat Pos.of_succ_nat andb].
    change (1 <? 1) with false. cbn [andb]. rewrite Hn. cbn [occ_ok].
    assert (E : (m_exp m =? -1) || (m_exp m =? newest l + 1) = false) by lia.
    rewrite E. cbn [andb negb]. split; [reflexivity|]. split; [exact Hc|]. split; [exact Hw1|].
    unfold newest at 1. rewrite Hn. lia.
Qed.

(* ------------------------------------------------------------------ AppendMessageSet *)
Theorem append_set_refines maxb l rs l' offs :
  wf l -> sorted_from (newest l + 1) rs -> append_set maxb l rs = Ok (l', offs) ->
  wf l' /\ all_recs l' = all_recs l ++ rs /\ offs = map r_off rs /\ l_hw l' = l_hw l.
Proof.
  intros Hw Hs H. unfold append_set in H. destruct rs as [|r t]; [discriminate|]. injection H as <- <-.
  destruct (check_split_props maxb l Hw) as (Hw1 & Hc & Hn & Hh & _).
  destruct (write_props (check_split maxb l) (r :: t) Hw1) as (Hw2 & Hc2 & Hh2 & _).
  { rewrite Hn. exact Hs. }
  split; [exact Hw2|]. split; [rewrite Hc2, Hc; reflexivity|]. split; [reflexivity|congruence].
Qed.

(* ------------------------------------------------------------------ Truncate *)
Lemma keep_below_sorted lo rs o : sorted_from lo rs -> sorted_from lo (keep_below rs o).
Proof.
  revert lo. induction rs as [|r t IH]; intros lo Hs; [exact I|]. destruct Hs as [H1 H2].
  cbn [keep_below]. destruct (r_off r <? o); [|exact I]. split; [assumption|apply IH; assumption].
Qed.

Lemma filter_app_lt o (a b : list rec) : filter (lt_off o) (a ++ b) = filter (lt_off o) a ++ filter (lt_off o) b.
Proof. apply filter_app. Qed.

Lemma trunc_segs_props lo first segs o : 0 <= lo -> segs_wf lo segs ->
  segs_wf lo (trunc_segs first segs o) /\
  flat (trunc_segs first segs o) = filter (lt_off o) (flat segs) /\
  (first = true -> segs <> [] -> trunc_segs first segs o <> []).
Proof.
  revert lo first. induction segs as [|s t IH]; intros lo first Hlo Hw.
  - cbn. repeat split; auto.
  - destruct Hw as (H1 & H2 & H3). cbn [trunc_segs].
    pose proof (s_next_ge s ltac:(lia) H2) as Hn.
    assert (Hflat : flat (s :: t) = s_recs s ++ flat t) by reflexivity.
    destruct (flat_sorted (s_next s) t ltac:(lia) H3) as [Hst _].
    destruct (Z.ltb_spec o (s_next s)) as [Hlt|Hge].
    + (* s is the segment found *)
      assert (Hlater : filter (lt_off o) (flat t) = []) by (apply (filter_lt_none (s_next s)); [assumption|lia]).
      destruct ((s_base s =? o) && negb first) eqn:Ecase.
      * assert (s_base s = o) by lia.
        split; [exact I|]. split; [|intros ->; cbn in Ecase; lia].
        rewrite Hflat, filter_app_lt, Hlater, app_nil_r. symmetry.
        apply (filter_lt_none (s_base s)); [assumption|lia].
      * split; [cbn; split; [lia|split; [apply keep_below_sorted; assumption|exact I]]|].
        split; [|discriminate].
        rewrite Hflat, filter_app_lt, Hlater, app_nil_r. unfold flat. cbn. rewrite app_nil_r.
        apply (keep_below_filter (s_base s)). assumption.
    + destruct (IH (s_next s) false ltac:(lia) H3) as (IH1 & IH2 & _).
      split; [cbn; split; [assumption|split; assumption]|]. split; [|discriminate].
      rewrite Hflat, filter_app_lt. unfold flat at 1. cbn [map concat]. fold (flat (trunc_segs false t o)).
      rewrite IH2. f_equal. symmetry. apply filter_lt_all.
      eapply Forall_impl; [|apply seg_all_lt_next; [lia|exact H2]]. cbn beta. intros; lia.
Qed.

Theorem truncate_refines l o : wf l ->
  wf (truncate l o) /\ all_recs (truncate l o) = filter (lt_off o) (all_recs l) /\ l_hw (truncate l o) = l_hw l.
Proof.
  intros Hw. pose proof Hw as [Hne Hs]. unfold truncate.
  destruct (find_segment (l_segs l) o) as [[i s]|] eqn:E.
  - destruct (trunc_segs_props 0 true (l_segs l) o ltac:(lia) Hs) as (H1 & H2 & H3).
    split; [split; [cbn; auto|cbn; assumption]|]. split; [exact H2|reflexivity].
  - split; [exact Hw|]. split; [|reflexivity]. symmetry. apply filter_lt_all.
    apply (segs_below_all_lt 0); [lia|assumption|]. apply find_segment_none. assumption.
Qed.

(* ------------------------------------------------------------------ reopen, HW *)
Theorem reopen_refines l : wf l -> wf (reopen l) /\ all_recs (reopen l) = all_recs l /\ l_hw (reopen l) = l_hw l.
Proof. intros Hw. split; [exact Hw|]. split; reflexivity. Qed.

Theorem set_hw_refines l h : wf l ->
  wf (set_hw l h) /\ all_recs (set_hw l h) = all_recs l /\ l_hw l <= l_hw (set_hw l h) /\
  l_hw (set_hw l h) = Z.max (l_hw l) h.
Proof.
  intros Hw. unfold set_hw. destruct (Z.ltb_spec (l_hw l) h); cbn [l_hw].
  - split; [exact Hw|]. split; [reflexivity|]. split; lia.
  - split; [exact Hw|]. split; [reflexivity|]. split; lia.
Qed.

(* ------------------------------------------------------------------ uncommitted reader *)
Lemma skipn_app_exact {A} (a : list A) b : skipn (length a) (a ++ b) = b.
Proof. induction a; [reflexivity|assumption]. Qed.

Lemma all_next_le_active lo pre a : 0 <= lo -> segs_wf lo (pre ++ [a]) ->
  Forall (fun s' => s_next s' <= s_next a) (pre ++ [a]).
Proof.
  revert lo. induction pre as [|x t IH]; intros lo Hlo Hw.
  - cbn. constructor; [lia|constructor].
  - cbn [app segs_wf] in *. destruct Hw as (H1 & H2 & H3).
    pose proof (s_next_ge x ltac:(lia) H2). constructor.
    + pose proof (chain_next_ge (s_next x) (t ++ [a]) ltac:(lia) H3) as Hc. rewrite chain_next_snoc in Hc. lia.
    + apply (IH (s_next x)); [lia|assumption].
Qed.

Theorem read_uncommitted_refines l o : wf l ->
  fst (read_uncommitted l o) = filter (ge_off o) (all_recs l) /\
  (snd (read_uncommitted l o) = EndNotFound <-> newest l < o).
Proof.
  intros Hw. pose proof Hw as [Hne Hs]. destruct (wf_split l Hw) as (pre0 & a0 & E0).
  assert (Hnew : newest l = s_next a0 - 1) by (unfold newest, active; rewrite E0, last_snoc; reflexivity).
  unfold read_uncommitted. destruct (find_segment (l_segs l) o) as [[i s]|] eqn:E.
  - destruct (find_segment_some _ _ _ _ E) as (pre & post & Eseg & Hlen & Hlt & HF).
    cbn [fst snd]. split.
    + assert (Hskip : skipn (S i) (l_segs l) = post).
      { rewrite Eseg, <- Hlen. change (pre ++ s :: post) with (pre ++ [s] ++ post). rewrite app_assoc.
        replace (S (length pre)) with (length (pre ++ [s])) by (rewrite app_length; cbn; lia).
        apply skipn_app_exact. }
      rewrite Hskip. fold (flat post).
      rewrite all_recs_eq, Eseg. rewrite Eseg in Hs. apply segs_wf_app in Hs. destruct Hs as [Hpre Hrest].
      cbn [segs_wf] in Hrest. destruct Hrest as (Hb & Hss & Hpost).
      assert (H0 : 0 <= chain_next 0 pre) by (apply chain_next_ge; [lia|assumption]).
      pose proof (s_next_ge s ltac:(lia) Hss) as Hn.
      change (pre ++ s :: post) with (pre ++ [s] ++ post).
      rewrite !flat_app, !filter_app.
      rewrite (filter_ge_none (flat pre)) by (apply (segs_below_all_lt 0); [lia|assumption|assumption]).
      cbn [app]. f_equal.
      * unfold flat. cbn [map concat]. rewrite app_nil_r.
        destruct (Z.leb_spec (s_base s) o).
        -- apply (from_entry_filter (s_base s)). assumption.
        -- symmetry. apply (filter_ge_all (s_base s)); [assumption|lia].
      * destruct (flat_sorted (s_next s) post ltac:(lia) Hpost) as [Hsp _].
        symmetry. apply (filter_ge_all (s_next s)); [assumption|lia].
    + split; [discriminate|]. intros Hlt'. exfalso.
      pose proof (all_next_le_active 0 pre0 a0 ltac:(lia) ltac:(rewrite <- E0; exact Hs)) as Hall.
      rewrite <- E0, Eseg in Hall. apply Forall_app in Hall. destruct Hall as [_ Hall].
      inversion Hall; subst. lia.
  - cbn [fst snd]. split.
    + symmetry. apply filter_ge_none. apply (segs_below_all_lt 0); [lia|assumption|]. apply find_segment_none; assumption.
    + split; [intros _|reflexivity].
      apply find_segment_none in E. rewrite E0 in E. apply Forall_app in E. destruct E as [_ E].
      inversion E; subst. lia.
Qed.

(* ------------------------------------------------------------------ log end after a write *)
Lemma last_off_app rs r t : last_off_of (rs ++ r :: t) = last_off_of (r :: t).
Proof. unfold last_off_of. rewrite fold_left_app. reflexivity. Qed.

Lemma newest_write l rs : wf l -> rs <> [] -> sorted_from (s_next (active l)) rs ->
  newest (write l rs) = last_off_of rs.
Proof.
  intros Hw Hne Hrs. destruct (wf_split l Hw) as (pre & a & E). destruct Hw as [_ Hs].
  unfold newest, write, active in *. cbn [l_segs]. rewrite E in *. rewrite last_snoc in Hrs.
  rewrite upd_last_snoc, last_snoc. unfold s_next, s_last. cbn [s_recs s_base].
  destruct rs as [|r t]; [congruence|]. rewrite last_off_app.
  apply segs_wf_app in Hs. destruct Hs as [Hpre Ha]. cbn [segs_wf] in Ha. destruct Ha as (Hb & Hsa & _).
  assert (H0 : 0 <= chain_next 0 pre) by (apply chain_next_ge; [lia|assumption]).
  pose proof (s_next_ge a ltac:(lia) Hsa).
  assert (s_next a <= last_off_of (r :: t)) by (apply sorted_last_ge; [lia|assumption|discriminate]).
  destruct (Z.eqb_spec (last_off_of (r :: t)) (-1)); lia.
Qed.

Lemma last_off_number n ms : ms <> [] -> last_off_of (number n ms) = n + Z.of_nat (length ms) - 1.
Proof.
  revert n. induction ms as [|m t IH]; intros n Hne; [congruence|].
  cbn [number]. rewrite last_off_cons. destruct t as [|m' t'].
  - cbn. lia.
  - cbn [number]. cbn [number] in IH. rewrite (IH (n + 1)) by discriminate.
    cbn [length]. lia.
Qed.

Theorem append_newest maxb l ms l' offs :
  wf l -> append maxb false l ms = Ok (l', offs) -> newest l' = newest l + Z.of_nat (length ms).
Proof.
  intros Hw H.
  destruct (check_split_props maxb l Hw) as (Hw1 & Hc & Hn & Hh & _).
  assert (E : l' = write (check_split maxb l) (number (newest l + 1) ms) /\ ms <> []).
  { unfold append in H. destruct (l_ro l); [discriminate|]. destruct ms as [|m t]; [discriminate|].
    cbn [andb] in H. rewrite Hn in H. split; congruence. }
  destruct E as [-> Hne].
  rewrite newest_write; [|assumption| |].
  - rewrite last_off_number by assumption. lia.
  - intros E. apply number_nil in E. contradiction.
  - rewrite Hn. apply number_sorted.
Qed.

(* ------------------------------------------------------------------ histories *)
Inductive hop :=
| HAppend (ms : list msg)
| HAppendSet (rs : list rec)
| HTruncate (o : Z)
| HReopen
| HSetHW (h : Z).

Definition hstep (maxb : Z) (l : log) (o : hop) : log :=
  match o with
  | HAppend ms => append_log maxb false l ms
  | HAppendSet rs => match append_set maxb l rs with Ok (l', _) => l' | _ => l end
  | HTruncate t => truncate l t
  | HReopen => reopen l
  | HSetHW h => set_hw l h
  end.

(* the abstract log: what must be readable after the operation *)
Definition spec_step (l : log) (a : list rec) (o : hop) : list rec :=
  match o with
  | HAppend ms => if l_ro l then a else a ++ number (newest l + 1) ms
  | HAppendSet rs => a ++ rs
  | HTruncate t => filter (lt_off t) a
  | HReopen => a
  | HSetHW _ => a
  end.

(* operations the callers can issue: message sets that continue the log (the leader's reader
   produces exactly these) *)
Definition hop_valid (l : log) (o : hop) : Prop :=
  match o with
  | HAppendSet rs => sorted_from (newest l + 1) rs
  | _ => True
  end.

Theorem hstep_refines maxb l o : wf l -> hop_valid l o ->
  wf (hstep maxb l o) /\ all_recs (hstep maxb l o) = spec_step l (all_recs l) o /\
  l_hw l <= l_hw (hstep maxb l o).
Proof.
  intros Hw Hv. destruct o as [ms|rs|t| |h]; cbn [hstep spec_step].
  - unfold append_log. destruct (append maxb false l ms) as [[l' offs]| |] eqn:E.
    + destruct (append_refines _ _ _ _ _ Hw E) as (H1 & H2 & _ & H4).
      assert (l_ro l = false) by (unfold append in E; destruct (l_ro l); [discriminate|reflexivity]).
      rewrite H. split; [assumption|]. split; [assumption|lia].
    + unfold append in E. destruct (l_ro l) eqn:Ero.
      * split; [assumption|]. split; [reflexivity|lia].
      * destruct ms; [discriminate|]. cbn [andb] in E. discriminate.
    + unfold append in E. destruct (l_ro l) eqn:Ero; [discriminate|].
      destruct ms as [|m t]; [|cbn [andb] in E; discriminate].
      split; [assumption|]. split; [cbn; rewrite app_nil_r; reflexivity|lia].
  - destruct (append_set maxb l rs) as [[l' offs]| |] eqn:E.
    + destruct (append_set_refines _ _ _ _ _ Hw Hv E) as (H1 & H2 & _ & H4). split; [assumption|]. split; [assumption|lia].
    + unfold append_set in E. destruct rs; discriminate.
    + unfold append_set in E. destruct rs; [|discriminate]. split; [assumption|]. split; [rewrite app_nil_r; reflexivity|lia].
  - destruct (truncate_refines l t Hw) as (H1 & H2 & H3). split; [assumption|]. split; [assumption|lia].
  - destruct (reopen_refines l Hw) as (H1 & H2 & H3). split; [assumption|]. split; [assumption|lia].
  - destruct (set_hw_refines l h Hw) as (H1 & H2 & H3 & _). split; [assumption|]. split; [assumption|lia].
Qed.

Lemma new_log_wf : wf new_log.
Proof. split; [discriminate|]. cbn. repeat split; lia. Qed.

(* every log reachable by a valid history is well formed *)
Inductive reachable (maxb : Z) : log -> Prop :=
| reach_new : reachable maxb new_log
| reach_step l o : reachable maxb l -> hop_valid l o -> reachable maxb (hstep maxb l o).

Theorem reachable_wf maxb l : reachable maxb l -> wf l.
Proof.
  induction 1 as [|l o _ IH Hv]; [apply new_log_wf|]. apply (hstep_refines maxb l o IH Hv).
Qed.

(* what is readable at an offset never changes, except that a truncation removes a suffix *)
Definition at_off (a : list rec) (o : Z) : list rec := filter (fun r => r_off r =? o) a.

Lemma at_off_app a b o : at_off (a ++ b) o = at_off a o ++ at_off b o.
Proof. apply filter_app. Qed.

Lemma at_off_none lo rs o : sorted_from lo rs -> o < lo -> at_off rs o = [].
Proof.
  revert lo. induction rs as [|r t IH]; intros lo Hs Ho; [reflexivity|]. destruct Hs as [H1 H2].
  unfold at_off. cbn [filter]. destruct (Z.eqb_spec (r_off r) o); [lia|]. apply (IH (r_off r + 1)); [assumption|lia].
Qed.

Theorem immutable maxb l o x : wf l -> hop_valid l o -> x <= newest l ->
  (forall t, o = HTruncate t -> x < t) ->
  at_off (all_recs (hstep maxb l o)) x = at_off (all_recs l) x.
Proof.
  intros Hw Hv Hx Ht. destruct (hstep_refines maxb l o Hw Hv) as (_ & Hc & _). rewrite Hc.
  destruct o as [ms|rs|t| |h]; cbn [spec_step]; try reflexivity.
  - destruct (l_ro l); [reflexivity|]. rewrite at_off_app.
    rewrite (at_off_none (newest l + 1) (number (newest l + 1) ms)); [apply app_nil_r|apply number_sorted|lia].
  - rewrite at_off_app. rewrite (at_off_none (newest l + 1) rs); [apply app_nil_r|exact Hv|lia].
  - specialize (Ht t eq_refl). clear Hc. unfold at_off. induction (all_recs l) as [|r rs IH]; [reflexivity|].
    cbn [filter]. unfold lt_off at 1. destruct (Z.ltb_spec (r_off r) t).
    + cbn [filter]. rewrite IH. reflexivity.
    + destruct (Z.eqb_spec (r_off r) x); [lia|]. apply IH.
Qed.
