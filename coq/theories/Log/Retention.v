(* Model of server/commitlog/delete_cleaner.go and of commitLog.Clean without compaction:
   age limit first (front to back, stops at the first unexpired segment), then the message
   limit, then the byte limit (each walks from the newest segment backwards and stops at the
   first segment that makes the running total exceed the limit); the newest segment is
   always kept. *)
From LB Require Import Base.Prelude Log.Model.
Open Scope Z_scope.

Record limits := mkLimits { lim_bytes : Z; lim_msgs : Z; lim_age : Z }.

(* applyAgeLimit: ttl = computeTTL(age) is an input (the clock) *)
Fixpoint drop_expired (ttl : Z) (segs : list seg) : list seg :=
  match segs with
  | [] => []
  | [last] => [last]
  | s :: r => if s_last_ts s <? ttl then drop_expired ttl r else segs
  end.

(* backwards walk of applyMessagesLimit / applyBytesLimit over the reversed older segments *)
Fixpoint take_fit (lim total : Z) (w : seg -> Z) (rsegs : list seg) : list seg :=
  match rsegs with
  | [] => []
  | s :: r => let t := total + w s in if lim <? t then [] else s :: take_fit lim t w r
  end.

Definition apply_limit (lim : Z) (w : seg -> Z) (segs : list seg) : list seg :=
  match rev segs with
  | [] => []
  | last :: older => rev (take_fit lim (w last) w older) ++ [last]
  end.

Definition retain (lim : limits) (ttl : Z) (segs : list seg) : list seg :=
  let s1 := if 0 <? lim_age lim then drop_expired ttl segs else segs in
  let s2 := if 0 <? lim_msgs lim then apply_limit (lim_msgs lim) s_count s1 else s1 in
  if 0 <? lim_bytes lim then apply_limit (lim_bytes lim) s_pos s2 else s2.

(* commitLog.Clean with Compact = false *)
Definition clean (lim : limits) (ttl : Z) (l : log) : log :=
  let segs := retain lim ttl (l_segs l) in
  mkLog segs (l_hw l)
        (cache_clear_earliest (l_cache l) (match segs with [] => 0 | s :: _ => s_base s end))
        (l_ro l).
