From LB Require Import Base.Prelude Log.Model Log.Retention Log.Proofs.
From Coq Require Import ZifyBool.
Open Scope Z_scope.

Fixpoint wsum (w : seg -> Z) (l : list seg) : Z := match l with [] => 0 | s :: r => w s + wsum w r end.

Lemma wsum_app w a b : wsum w (a ++ b) = wsum w a + wsum w b.
Proof. induction a as [|x t IH]; cbn [app wsum]; [reflexivity|]. rewrite IH. lia. Qed.

Lemma wsum_rev w a : wsum w (rev a) = wsum w a.
Proof. induction a as [|x t IH]; [reflexivity|]. cbn [rev]. rewrite wsum_app, IH. cbn [wsum]. lia. Qed.

Lemma wsum_nonneg w l : (forall s, 0 <= w s) -> 0 <= wsum w l.
Proof. intros H. induction l as [|x t IH]; cbn [wsum]; [lia|]. specialize (H x). lia. Qed.

Lemma wsum_skipn_le w l n : (forall s, 0 <= w s) -> wsum w (skipn n l) <= wsum w l.
Proof.
  intros H. revert n. induction l as [|x t IH]; intros n; destruct n; cbn [skipn wsum]; try lia;
  specialize (IH n); specialize (H x); pose proof (wsum_nonneg w t H); lia.
Qed.

(* ---------------------------------------------------------------- suffixes *)
Definition is_suffix_keeping_last (r segs : list seg) : Prop :=
  exists d, r = skipn d segs /\ (segs <> [] -> (d < length segs)%nat).

Lemma suffix_refl segs : is_suffix_keeping_last segs segs.
Proof. exists O. split; [reflexivity|]. destruct segs; [congruence|cbn; lia]. Qed.

Lemma skipn_skipn' {A} (a b : nat) (l : list A) : skipn a (skipn b l) = skipn (b + a) l.
Proof.
  revert l. induction b as [|b IH]; intros l; [reflexivity|]. destruct l; [destruct a; reflexivity|]. cbn [skipn Nat.add]. apply IH.
Qed.

Lemma suffix_trans a b c : is_suffix_keeping_last a b -> is_suffix_keeping_last b c -> is_suffix_keeping_last a c.
Proof.
  intros (d1 & E1 & H1) (d2 & E2 & H2). exists (d2 + d1)%nat. subst a b. split.
  - rewrite skipn_skipn'. reflexivity.
  - intros Hc. specialize (H2 Hc).
    assert (Hne : skipn d2 c <> []).
    { intros E. apply (f_equal (@length _)) in E. rewrite skipn_length in E. cbn in E. lia. }
    specialize (H1 Hne). rewrite skipn_length in H1. lia.
Qed.

(* ---------------------------------------------------------------- age *)
Lemma drop_expired_suffix ttl segs : is_suffix_keeping_last (drop_expired ttl segs) segs.
Proof.
  induction segs as [|s r IH]; [apply suffix_refl|].
  cbn [drop_expired]. destruct r as [|s' r'].
  - apply suffix_refl.
  - destruct (s_last_ts s <? ttl).
    + destruct IH as (d & E & H). exists (S d). split; [exact E|]. intros _.
      specialize (H ltac:(discriminate)). cbn [length] in *. lia.
    + apply suffix_refl.
Qed.

(* last-write times non-decreasing: they come from one clock *)
Fixpoint ts_sorted (segs : list seg) : Prop :=
  match segs with
  | [] => True
  | s :: r => match r with [] => True | s' :: _ => s_last_ts s <= s_last_ts s' end /\ ts_sorted r
  end.

Definition unexpired_but_last (ttl : Z) (segs : list seg) : Prop :=
  Forall (fun s => ttl <= s_last_ts s) (removelast segs).

Lemma ts_sorted_all_ge ttl s r : ts_sorted (s :: r) -> ttl <= s_last_ts s -> Forall (fun x => ttl <= s_last_ts x) (s :: r).
Proof.
  revert s. induction r as [|s' r' IH]; intros s Hs Ht; [constructor; [assumption|constructor]|].
  destruct Hs as [H1 H2]. constructor; [assumption|]. apply IH; [assumption|lia].
Qed.

Lemma Forall_removelast {A} (P : A -> Prop) l : Forall P l -> Forall P (removelast l).
Proof.
  induction 1 as [|x t Hx Ht IH]; [constructor|]. cbn [removelast]. destruct t; [constructor|].
  constructor; assumption.
Qed.

Lemma drop_expired_unexpired ttl segs : ts_sorted segs -> unexpired_but_last ttl (drop_expired ttl segs).
Proof.
  unfold unexpired_but_last. induction segs as [|s r IH]; intros Hs; [constructor|].
  cbn [drop_expired]. destruct r as [|s' r']; [constructor|].
  destruct (Z.ltb_spec (s_last_ts s) ttl).
  - apply IH. apply Hs.
  - apply Forall_removelast. apply ts_sorted_all_ge; [assumption|lia].
Qed.

Lemma ts_sorted_skipn d segs : ts_sorted segs -> ts_sorted (skipn d segs).
Proof.
  revert segs. induction d as [|d IH]; intros segs H; [exact H|]. destruct segs as [|s r]; [exact I|].
  cbn [skipn]. apply IH. apply H.
Qed.

Lemma removelast_skipn {A} d (l : list A) : (d < length l)%nat -> removelast (skipn d l) = skipn d (removelast l).
Proof.
  revert l. induction d as [|d IH]; intros l H; [reflexivity|]. destruct l as [|x t]; [cbn in H; lia|].
  cbn [skipn]. destruct t as [|y t']; [cbn in H; lia|].
  change (removelast (x :: y :: t')) with (x :: removelast (y :: t')). cbn [skipn].
  apply IH. cbn in *. lia.
Qed.

Lemma Forall_skipn {A} (P : A -> Prop) d l : Forall P l -> Forall P (skipn d l).
Proof.
  revert l. induction d as [|d IH]; intros l H; [exact H|]. destruct l; [constructor|].
  cbn [skipn]. apply IH. inversion H; assumption.
Qed.

Lemma unexpired_suffix ttl r segs : is_suffix_keeping_last r segs -> unexpired_but_last ttl segs -> unexpired_but_last ttl r.
Proof.
  intros (d & E & H) Hu. unfold unexpired_but_last in *. subst r.
  destruct segs as [|s t]; [destruct d; constructor|].
  rewrite removelast_skipn by (apply H; discriminate). apply Forall_skipn. exact Hu.
Qed.

(* ---------------------------------------------------------------- message / byte limits *)
Lemma take_fit_prefix lim t w r : exists k, take_fit lim t w r = firstn k r.
Proof.
  revert t. induction r as [|s r IH]; intros t; [exists O; reflexivity|]. cbn [take_fit].
  destruct (lim <? t + w s); [exists O; reflexivity|].
  destruct (IH (t + w s)) as (k & E). exists (S k). cbn [firstn]. rewrite E. reflexivity.
Qed.

Lemma take_fit_sum lim t w r : take_fit lim t w r = [] \/ t + wsum w (take_fit lim t w r) <= lim.
Proof.
  revert t. induction r as [|s r IH]; intros t; [left; reflexivity|]. cbn [take_fit].
  destruct (Z.ltb_spec lim (t + w s)); [left; reflexivity|]. right.
  destruct (IH (t + w s)) as [E|E]; cbn [wsum].
  - rewrite E. cbn [wsum]. lia.
  - lia.
Qed.

(* where the walk stopped, the next segment would have exceeded the limit *)
Lemma take_fit_stop lim t w r kept s rest :
  r = kept ++ s :: rest -> take_fit lim t w r = kept -> lim < t + wsum w kept + w s.
Proof.
  revert t kept. induction r as [|x r IH]; intros t kept E H.
  - destruct kept; discriminate.
  - cbn [take_fit] in H. destruct (Z.ltb_spec lim (t + w x)).
    + subst kept. cbn [app] in E. injection E as -> _. cbn [wsum]. lia.
    + destruct kept as [|k kept']; [discriminate|]. injection H as -> H. cbn in E. injection E as E.
      specialize (IH (t + w k) kept' E H). cbn [wsum]. lia.
Qed.

Lemma apply_limit_shape lim w init last :
  exists k, (k <= length init)%nat /\
    take_fit lim (w last) w (rev init) = firstn k (rev init) /\
    apply_limit lim w (init ++ [last]) = skipn (length init - k) (init ++ [last]) /\
    apply_limit lim w (init ++ [last]) = skipn (length init - k) init ++ [last].
Proof.
  unfold apply_limit. rewrite rev_app_distr. cbn [rev app].
  destruct (take_fit_prefix lim (w last) w (rev init)) as (k0 & E).
  set (k := Nat.min k0 (length init)).
  assert (Ek : firstn k0 (rev init) = firstn k (rev init)).
  { unfold k. destruct (Nat.le_ge_cases k0 (length init)) as [H|H].
    - rewrite Nat.min_l by assumption. reflexivity.
    - rewrite Nat.min_r by assumption. rewrite !firstn_all2; try reflexivity; rewrite rev_length; lia. }
  exists k. assert (Hk : (k <= length init)%nat) by (unfold k; lia).
  split; [exact Hk|]. split; [congruence|].
  rewrite E, Ek. rewrite firstn_rev, rev_involutive.
  split; [|reflexivity].
  rewrite skipn_app. replace (length init - k - length init)%nat with O by lia. reflexivity.
Qed.

Lemma apply_limit_suffix lim w segs : is_suffix_keeping_last (apply_limit lim w segs) segs.
Proof.
  destruct segs as [|s t] using rev_ind; [exists O; split; [reflexivity|congruence]|]. clear IHt.
  destruct (apply_limit_shape lim w t s) as (k & Hk & _ & E & _).
  exists (length t - k)%nat. split; [exact E|]. intros _. rewrite app_length. cbn. lia.
Qed.

Lemma apply_limit_holds lim w segs : (forall s, 0 <= w s) ->
  (length (apply_limit lim w segs) <= 1)%nat \/ wsum w (apply_limit lim w segs) <= lim.
Proof.
  intros Hw. destruct segs as [|s t] using rev_ind; [left; cbn; lia|]. clear IHt.
  destruct (apply_limit_shape lim w t s) as (k & Hk & Et & _ & E).
  unfold apply_limit. rewrite rev_app_distr. cbn [rev app].
  destruct (take_fit_sum lim (w s) w (rev t)) as [H|H].
  - left. rewrite H. cbn. lia.
  - right. rewrite wsum_app, wsum_rev. cbn [wsum]. lia.
Qed.

(* minimality of one stage: if anything was removed, keeping the newest removed segment too
   would exceed the limit *)
Lemma apply_limit_minimal lim w segs pre x rest :
  apply_limit lim w segs = rest -> segs = pre ++ x :: rest -> lim < wsum w rest + w x.
Proof.
  intros E Hs. destruct segs as [|s t] using rev_ind.
  - destruct pre; discriminate.
  - clear IHt. unfold apply_limit in E. rewrite rev_app_distr in E. cbn [rev app] in E.
    set (kept := take_fit lim (w s) w (rev t)) in *.
    assert (Hrest : rest = rev kept ++ [s]) by congruence.
    assert (Ht : t = pre ++ x :: rev kept).
    { rewrite Hrest in Hs. rewrite app_comm_cons, app_assoc in Hs. apply app_inj_tail in Hs. tauto. }
    assert (Hr : rev t = kept ++ x :: rev pre).
    { rewrite Ht at 1. rewrite rev_app_distr. cbn [rev]. rewrite rev_involutive, <- app_assoc. reflexivity. }
    pose proof (take_fit_stop lim (w s) w (rev t) kept x _ Hr eq_refl) as H.
    rewrite Hrest, wsum_app, wsum_rev. cbn [wsum]. lia.
Qed.

Lemma drop_expired_minimal ttl segs pre x rest :
  drop_expired ttl segs = rest -> segs = pre ++ x :: rest -> s_last_ts x < ttl.
Proof.
  revert pre. induction segs as [|s r IH]; intros pre E Hs; [destruct pre; discriminate|].
  cbn [drop_expired] in E. destruct r as [|s' r'].
  - subst rest. destruct pre as [|p pre']; cbn in Hs.
    + apply (f_equal (@length _)) in Hs. cbn in Hs. lia.
    + injection Hs as _ Hs. destruct pre'; discriminate.
  - destruct (Z.ltb_spec (s_last_ts s) ttl) as [Hlt|Hge].
    + destruct pre as [|p pre'].
      * cbn in Hs. injection Hs as -> _. exact Hlt.
      * cbn in Hs. injection Hs as _ Hs. apply (IH pre' E Hs).
    + subst rest. exfalso. apply (f_equal (@length _)) in Hs. rewrite app_length in Hs. cbn in Hs. lia.
Qed.

(* ---------------------------------------------------------------- the whole cleaner *)
Theorem retain_suffix lim ttl segs : is_suffix_keeping_last (retain lim ttl segs) segs.
Proof.
  unfold retain.
  set (s1 := if 0 <? lim_age lim then drop_expired ttl segs else segs).
  set (s2 := if 0 <? lim_msgs lim then apply_limit (lim_msgs lim) s_count s1 else s1).
  assert (H1 : is_suffix_keeping_last s1 segs) by (unfold s1; destruct (0 <? lim_age lim); [apply drop_expired_suffix|apply suffix_refl]).
  assert (H2 : is_suffix_keeping_last s2 s1) by (unfold s2; destruct (0 <? lim_msgs lim); [apply apply_limit_suffix|apply suffix_refl]).
  destruct (0 <? lim_bytes lim).
  - eapply suffix_trans; [apply apply_limit_suffix|]. eapply suffix_trans; eassumption.
  - eapply suffix_trans; eassumption.
Qed.

Lemma s_count_nonneg s : 0 <= s_count s.
Proof. unfold s_count. lia. Qed.

Lemma s_pos_nonneg_aux rs a : 0 <= a -> 0 <= fold_left (fun a r => a + rsize r) rs a.
Proof. revert a. induction rs as [|r t IH]; intros a Ha; [exact Ha|]. cbn [fold_left]. apply IH. unfold rsize. lia. Qed.

Lemma s_pos_nonneg s : 0 <= s_pos s.
Proof. apply s_pos_nonneg_aux. lia. Qed.

Lemma suffix_len_le r segs : is_suffix_keeping_last r segs -> (length r <= length segs)%nat.
Proof. intros (d & -> & _). rewrite skipn_length. lia. Qed.

Lemma suffix_wsum_le w r segs : (forall s, 0 <= w s) -> is_suffix_keeping_last r segs -> wsum w r <= wsum w segs.
Proof. intros H (d & -> & _). apply wsum_skipn_le. exact H. Qed.

Lemma suffix_of_single r s : is_suffix_keeping_last r [s] -> r = [s].
Proof. intros (d & -> & H). specialize (H ltac:(discriminate)). cbn in H. destruct d; [reflexivity|lia]. Qed.

(* afterwards every configured limit holds unless only the newest segment remains *)
Theorem retain_limits_hold lim ttl segs : ts_sorted segs ->
  let r := retain lim ttl segs in
  (length r <= 1)%nat \/
  ((0 < lim_msgs lim -> wsum s_count r <= lim_msgs lim) /\
   (0 < lim_bytes lim -> wsum s_pos r <= lim_bytes lim) /\
   (0 < lim_age lim -> unexpired_but_last ttl r)).
Proof.
  intros Hts. cbv zeta. unfold retain.
  set (s1 := if 0 <? lim_age lim then drop_expired ttl segs else segs).
  set (s2 := if 0 <? lim_msgs lim then apply_limit (lim_msgs lim) s_count s1 else s1).
  set (s3 := if 0 <? lim_bytes lim then apply_limit (lim_bytes lim) s_pos s2 else s2).
  assert (H2 : is_suffix_keeping_last s2 s1) by (unfold s2; destruct (0 <? lim_msgs lim); [apply apply_limit_suffix|apply suffix_refl]).
  assert (H3 : is_suffix_keeping_last s3 s2) by (unfold s3; destruct (0 <? lim_bytes lim); [apply apply_limit_suffix|apply suffix_refl]).
  assert (Hage : 0 < lim_age lim -> unexpired_but_last ttl s1).
  { intros H. unfold s1. destruct (Z.ltb_spec 0 (lim_age lim)); [|lia]. apply drop_expired_unexpired. exact Hts. }
  assert (Hmsgs : 0 < lim_msgs lim -> (length s2 <= 1)%nat \/ wsum s_count s2 <= lim_msgs lim).
  { intros H. unfold s2. destruct (Z.ltb_spec 0 (lim_msgs lim)); [|lia]. apply apply_limit_holds. apply s_count_nonneg. }
  assert (Hbytes : 0 < lim_bytes lim -> (length s3 <= 1)%nat \/ wsum s_pos s3 <= lim_bytes lim).
  { intros H. unfold s3. destruct (Z.ltb_spec 0 (lim_bytes lim)); [|lia]. apply apply_limit_holds. apply s_pos_nonneg. }
  fold s3.
  destruct (Nat.le_gt_cases (length s3) 1) as [Hl|Hl]; [left; exact Hl|]. right.
  split; [|split].
  - intros H. destruct (Hmsgs H) as [Hm|Hm].
    + pose proof (suffix_len_le _ _ H3). lia.
    + pose proof (suffix_wsum_le s_count _ _ s_count_nonneg H3). lia.
  - intros H. destruct (Hbytes H) as [Hb|Hb]; [lia|exact Hb].
  - intros H. eapply unexpired_suffix; [exact H3|]. eapply unexpired_suffix; [exact H2|]. apply Hage. exact H.
Qed.

(* Clean on a log: the surviving content is a contiguous suffix of the old content *)
Lemma flat_skipn_suffix d segs : exists n, concat (map s_recs (skipn d segs)) = skipn n (concat (map s_recs segs)).
Proof.
  revert segs. induction d as [|d IH]; intros segs; [exists O; reflexivity|].
  destruct segs as [|s t]; [exists O; reflexivity|]. cbn [skipn map concat].
  destruct (IH t) as (n & E). exists (length (s_recs s) + n)%nat. rewrite E.
  rewrite skipn_app. rewrite (skipn_all2 (s_recs s)) by lia. cbn [app]. f_equal. lia.
Qed.

Theorem clean_content_suffix lim ttl l :
  exists n, all_recs (clean lim ttl l) = skipn n (all_recs l).
Proof.
  unfold all_recs, clean. cbn [l_segs]. destruct (retain_suffix lim ttl (l_segs l)) as (d & E & _).
  rewrite E. apply flat_skipn_suffix.
Qed.

Lemma suffix_split r segs : is_suffix_keeping_last r segs -> exists p, segs = p ++ r.
Proof. intros (d & -> & _). exists (firstn d segs). symmetry. apply firstn_skipn. Qed.

Lemma snoc_or_nil {A} (l : list A) : l = [] \/ exists l' x, l = l' ++ [x].
Proof. destruct l using rev_ind; [left; reflexivity|right; eauto]. Qed.

Lemma split_last_eq {A} (a b : list A) x y r : a ++ x :: r = b ++ y :: r -> a = b /\ x = y.
Proof.
  intros H. change (a ++ x :: r) with (a ++ [x] ++ r) in H. change (b ++ y :: r) with (b ++ [y] ++ r) in H.
  rewrite !app_assoc in H. apply app_inv_tail in H. apply app_inj_tail in H. exact H.
Qed.

Lemma last_removed_stage (segs s1 s2 s3 pre : list seg) x :
  (exists p1, segs = p1 ++ s1) -> (exists p2, s1 = p2 ++ s2) -> (exists p3, s2 = p3 ++ s3) ->
  segs = pre ++ x :: s3 ->
  (exists q, s2 = q ++ x :: s3) \/ (s3 = s2 /\ exists q, s1 = q ++ x :: s2) \/
  (s3 = s2 /\ s2 = s1 /\ exists q, segs = q ++ x :: s1).
Proof.
  intros (p1 & E1) (p2 & E2) (p3 & E3) Hs.
  destruct (snoc_or_nil p3) as [-> | (p3' & x3 & ->)].
  - cbn [app] in E3. subst s3. destruct (snoc_or_nil p2) as [-> | (p2' & x2 & ->)].
    + cbn [app] in E2. subst s2. destruct (snoc_or_nil p1) as [-> | (p1' & x1 & ->)].
      * exfalso. cbn [app] in E1. subst segs. apply (f_equal (@length _)) in Hs.
        rewrite app_length in Hs. cbn in Hs. lia.
      * right. right. split; [reflexivity|]. split; [reflexivity|].
        rewrite <- app_assoc in E1. cbn [app] in E1. rewrite E1 in Hs. apply split_last_eq in Hs. destruct Hs as [-> ->].
        exists pre. exact E1.
    + right. left. split; [reflexivity|]. rewrite <- app_assoc in E2. cbn [app] in E2.
      rewrite E1, E2, app_assoc in Hs. apply split_last_eq in Hs. destruct Hs as [_ ->]. exists p2'. exact E2.
  - left. rewrite <- app_assoc in E3. cbn [app] in E3.
    rewrite E1, E2, E3, !app_assoc in Hs. apply split_last_eq in Hs. destruct Hs as [_ ->]. exists p3'. exact E3.
Qed.

(* never a segment whose removal is not needed to satisfy a limit: the newest removed
   segment violates a configured limit together with what was kept *)
Theorem retain_minimal lim ttl segs pre x :
  segs = pre ++ x :: retain lim ttl segs ->
  (0 < lim_age lim /\ s_last_ts x < ttl) \/
  (0 < lim_msgs lim /\ lim_msgs lim < wsum s_count (retain lim ttl segs) + s_count x) \/
  (0 < lim_bytes lim /\ lim_bytes lim < wsum s_pos (retain lim ttl segs) + s_pos x).
Proof.
  unfold retain.
  remember (if 0 <? lim_age lim then drop_expired ttl segs else segs) as s1 eqn:D1.
  remember (if 0 <? lim_msgs lim then apply_limit (lim_msgs lim) s_count s1 else s1) as s2 eqn:D2.
  remember (if 0 <? lim_bytes lim then apply_limit (lim_bytes lim) s_pos s2 else s2) as s3 eqn:D3.
  intros Hs.
  assert (H1 : is_suffix_keeping_last s1 segs) by (subst s1; destruct (0 <? lim_age lim); [apply drop_expired_suffix|apply suffix_refl]).
  assert (H2 : is_suffix_keeping_last s2 s1) by (subst s2; destruct (0 <? lim_msgs lim); [apply apply_limit_suffix|apply suffix_refl]).
  assert (H3 : is_suffix_keeping_last s3 s2) by (subst s3; destruct (0 <? lim_bytes lim); [apply apply_limit_suffix|apply suffix_refl]).
  destruct (last_removed_stage segs s1 s2 s3 pre x (suffix_split _ _ H1) (suffix_split _ _ H2) (suffix_split _ _ H3) Hs)
    as [(q & E) | [(E32 & q & E) | (E32 & E21 & q & E)]].
  - right. right. destruct (Z.ltb_spec 0 (lim_bytes lim)) as [Hb|Hb].
    + split; [exact Hb|]. eapply apply_limit_minimal; [symmetry; exact D3|exact E].
    + exfalso. subst s3. apply (f_equal (@length _)) in E. rewrite !app_length in E. cbn in E. lia.
  - right. left. rewrite E32. destruct (Z.ltb_spec 0 (lim_msgs lim)) as [Hm|Hm].
    + split; [exact Hm|]. eapply apply_limit_minimal; [symmetry; exact D2|exact E].
    + exfalso. subst s2. apply (f_equal (@length _)) in E. rewrite !app_length in E. cbn in E. lia.
  - left. destruct (Z.ltb_spec 0 (lim_age lim)) as [Ha|Ha].
    + split; [exact Ha|]. eapply drop_expired_minimal; [symmetry; exact D1|exact E].
    + exfalso. subst s1. apply (f_equal (@length _)) in E. rewrite !app_length in E. cbn in E. lia.
Qed.

Lemma segs_wf_skipn lo d segs : 0 <= lo -> segs_wf lo segs -> segs_wf lo (skipn d segs).
Proof.
  revert lo segs. induction d as [|d IH]; intros lo segs Hlo Hw; [exact Hw|].
  destruct segs as [|s t]; [exact I|]. cbn [skipn]. destruct Hw as (H1 & H2 & H3).
  pose proof (s_next_ge s ltac:(lia) H2). apply IH; [lia|]. eapply segs_wf_weaken; [|exact H3]. lia.
Qed.

(* the cleaned log is again a well-formed log, so readers behave as on any log (C01) *)
Theorem clean_wf lim ttl l : wf l -> wf (clean lim ttl l).
Proof.
  intros [Hne Hs]. unfold wf, clean. cbn [l_segs].
  destruct (retain_suffix lim ttl (l_segs l)) as (d & E & Hd). rewrite E. split.
  - specialize (Hd Hne). intros H. apply (f_equal (@length _)) in H. rewrite skipn_length in H. cbn in H. lia.
  - apply segs_wf_skipn; [lia|exact Hs].
Qed.
