(* Repeated cleans (C09, "repeated cleans"): a segment list on which the configured limits
   already hold is a fixed point of the delete cleaner, so a second Clean with the same
   clock removes nothing; without ordered last-write times this is false (refutation at the
   end), which is why the hypothesis is stated. *)
From LB Require Import Base.Prelude Log.Model Log.Retention Log.Proofs Log.Refine Log.RetentionProofs.
Open Scope Z_scope.

Lemma take_fit_all lim t w r : (forall s, 0 <= w s) -> t + wsum w r <= lim -> take_fit lim t w r = r.
Proof.
  intros Hw. revert t. induction r as [|s r IH]; intros t H; [reflexivity|].
  cbn [take_fit wsum] in *. pose proof (wsum_nonneg w r Hw).
  destruct (Z.ltb_spec lim (t + w s)) as [Hlt|Hge]; [lia|].
  f_equal. apply IH. lia.
Qed.

(* a stage whose limit already holds removes nothing *)
Lemma apply_limit_fix lim w segs : (forall s, 0 <= w s) -> wsum w segs <= lim -> apply_limit lim w segs = segs.
Proof.
  intros Hw H. unfold apply_limit.
  destruct (rev segs) as [|last older] eqn:E.
  - apply (f_equal (@rev _)) in E. rewrite rev_involutive in E. exact (eq_sym E).
  - assert (Hs : wsum w segs = w last + wsum w older).
    { rewrite <- (wsum_rev w segs), E. reflexivity. }
    rewrite take_fit_all by (try exact Hw; lia).
    change (rev older ++ [last]) with (rev (last :: older)). rewrite <- E. apply rev_involutive.
Qed.

Lemma apply_limit_short lim w segs : (length segs <= 1)%nat -> apply_limit lim w segs = segs.
Proof.
  intros H. destruct segs as [|a [|b t]]; [reflexivity|reflexivity|cbn in H; lia].
Qed.

Lemma drop_expired_fix ttl segs : unexpired_but_last ttl segs -> drop_expired ttl segs = segs.
Proof.
  unfold unexpired_but_last. destruct segs as [|a [|b t]]; [reflexivity|reflexivity|].
  intros H. cbn [removelast] in H. inversion H as [|x l Ha _]; subst.
  cbn [drop_expired]. destruct (Z.ltb_spec (s_last_ts a) ttl); [lia|reflexivity].
Qed.

Lemma drop_expired_short ttl segs : (length segs <= 1)%nat -> drop_expired ttl segs = segs.
Proof.
  intros H. destruct segs as [|a [|b t]]; [reflexivity|reflexivity|cbn in H; lia].
Qed.

(* where every configured limit already holds, or only the newest segment is left, Clean
   removes nothing *)
Theorem retain_fixpoint lim ttl segs :
  (length segs <= 1)%nat \/
  ((0 < lim_msgs lim -> wsum s_count segs <= lim_msgs lim) /\
   (0 < lim_bytes lim -> wsum s_pos segs <= lim_bytes lim) /\
   (0 < lim_age lim -> unexpired_but_last ttl segs)) ->
  retain lim ttl segs = segs.
Proof.
  intros [Hl|(Hm & Hb & Ha)]; unfold retain.
  - destruct (0 <? lim_age lim), (0 <? lim_msgs lim), (0 <? lim_bytes lim);
      rewrite ?(drop_expired_short _ _ Hl), ?(apply_limit_short _ _ _ Hl), ?(apply_limit_short _ _ _ Hl); reflexivity.
  - assert (E1 : (if 0 <? lim_age lim then drop_expired ttl segs else segs) = segs).
    { destruct (Z.ltb_spec 0 (lim_age lim)); [apply drop_expired_fix; auto|reflexivity]. }
    rewrite E1.
    assert (E2 : (if 0 <? lim_msgs lim then apply_limit (lim_msgs lim) s_count segs else segs) = segs).
    { destruct (Z.ltb_spec 0 (lim_msgs lim)); [apply apply_limit_fix; [apply s_count_nonneg|auto]|reflexivity]. }
    rewrite E2.
    destruct (Z.ltb_spec 0 (lim_bytes lim)); [apply apply_limit_fix; [apply s_pos_nonneg|auto]|reflexivity].
Qed.

(* repeated cleans: with last-write times from one clock, a second Clean under the same
   limits and cut-off removes nothing more *)
Theorem retain_idempotent lim ttl segs : ts_sorted segs ->
  retain lim ttl (retain lim ttl segs) = retain lim ttl segs.
Proof.
  intros Hts. apply retain_fixpoint. exact (retain_limits_hold lim ttl segs Hts).
Qed.

(* a later clock (larger cut-off) or more appended data can only remove more: the result of
   any later Clean is still a suffix of the first one's input that keeps the newest segment
   -- the chain of suffixes of repeated cleans *)
Theorem retain_twice_suffix lim1 ttl1 lim2 ttl2 segs :
  is_suffix_keeping_last (retain lim2 ttl2 (retain lim1 ttl1 segs)) segs.
Proof.
  eapply suffix_trans; [apply retain_suffix|apply retain_suffix].
Qed.

(* any number of cleans, each with its own limits and cut-off *)
Theorem retains_suffix (cs : list (limits * Z)) segs :
  is_suffix_keeping_last (fold_left (fun s c => retain (fst c) (snd c) s) cs segs) segs.
Proof.
  revert segs. induction cs as [|c cs IH]; intros segs; cbn [fold_left]; [apply suffix_refl|].
  eapply suffix_trans; [apply IH|apply retain_suffix].
Qed.

(* the hypothesis of retain_idempotent is needed: with last-write times out of order the
   message limit can expose an expired segment that the age pass had stopped in front of *)
Definition mkseg_ts (base ts : Z) : seg := mkSeg base [mkRec base ts 0%N []].

Theorem retain_idempotent_needs_one_clock : exists lim ttl segs,
  retain lim ttl (retain lim ttl segs) <> retain lim ttl segs.
Proof.
  exists (mkLimits 0 2 1), 5, [mkseg_ts 0 9; mkseg_ts 1 3; mkseg_ts 2 9].
  vm_compute. discriminate.
Qed.

(* non-vacuity: a sorted layout on which the first Clean removes something and the second
   one nothing *)
Example retain_idempotent_example :
  let segs := [mkseg_ts 0 1; mkseg_ts 1 3; mkseg_ts 2 9; mkseg_ts 3 9] in
  ts_sorted segs /\
  map s_base (retain (mkLimits 0 2 1) 2 segs) = [2; 3] /\
  map s_base (retain (mkLimits 0 2 1) 2 (retain (mkLimits 0 2 1) 2 segs)) = [2; 3].
Proof. vm_compute. repeat split; discriminate. Qed.

(* ------------------------------------------------------------------------------------------
   Cleans that run while the log is written (C09, "cleans that run while new segments are
   appended"): the newest segment survives every Clean, so the log end, the HW and the
   read-only flag are what they were, and the next append hands out the same offsets it would
   have handed out without the Clean. *)
Lemma last_skipn {A} d (l : list A) x : (d < length l)%nat -> last (skipn d l) x = last l x.
Proof.
  revert l. induction d as [|d IH]; intros l H; [reflexivity|].
  destruct l as [|a t]; [cbn in H; lia|]. cbn [skipn]. cbn [length] in H.
  rewrite IH by lia. destruct t as [|b t']; [cbn in H; lia|reflexivity].
Qed.

Theorem clean_keeps_end lim ttl l : wf l ->
  active (clean lim ttl l) = active l /\ newest (clean lim ttl l) = newest l /\
  l_hw (clean lim ttl l) = l_hw l /\ l_ro (clean lim ttl l) = l_ro l.
Proof.
  intros [Hne _].
  assert (Ha : active (clean lim ttl l) = active l).
  { unfold active, clean. cbn [l_segs].
    destruct (retain_suffix lim ttl (l_segs l)) as (d & E & Hd). rewrite E.
    apply last_skipn. exact (Hd Hne). }
  split; [exact Ha|]. split; [unfold newest; rewrite Ha; reflexivity|]. split; reflexivity.
Qed.

(* an append right after a Clean: the offsets, the stored records and the new log end are
   those of the same append without the Clean; only older content is missing in front *)
Theorem append_after_clean maxb lim ttl l ms l' offs : wf l ->
  append maxb false (clean lim ttl l) ms = Ok (l', offs) ->
  wf l' /\ offs = zseq (newest l + 1) (length ms) /\
  (exists n, all_recs l' = skipn n (all_recs l) ++ number (newest l + 1) ms) /\
  newest l' = newest l + Z.of_nat (length ms).
Proof.
  intros Hw E. pose proof (clean_wf lim ttl l Hw) as Hwc.
  destruct (clean_keeps_end lim ttl l Hw) as (_ & Hn & _ & _).
  destruct (append_refines _ _ _ _ _ Hwc E) as (H1 & H2 & H3 & _).
  pose proof (append_newest _ _ _ _ _ Hwc E) as H5.
  rewrite Hn in *. split; [exact H1|]. split; [exact H3|]. split; [|exact H5].
  destruct (clean_content_suffix lim ttl l) as (n & En). exists n. rewrite H2, En. reflexivity.
Qed.

(* histories: the writers' operations of C01 interleaved with cleans under any limits and
   cut-offs; every reachable log is well formed, so every reader of it behaves as C01 says *)
Inductive cop :=
| CHop (o : hop)
| CClean (lim : limits) (ttl : Z).

Definition cstep (maxb : Z) (l : log) (c : cop) : log :=
  match c with
  | CHop o => hstep maxb l o
  | CClean lim ttl => clean lim ttl l
  end.

Definition cop_valid (l : log) (c : cop) : Prop :=
  match c with CHop o => hop_valid l o | CClean _ _ => True end.

Inductive creachable (maxb : Z) : log -> Prop :=
| creach_new : creachable maxb new_log
| creach_step l c : creachable maxb l -> cop_valid l c -> creachable maxb (cstep maxb l c).

Theorem creachable_wf maxb l : creachable maxb l -> wf l.
Proof.
  induction 1 as [|l c _ IH Hv]; [apply new_log_wf|].
  destruct c as [o|lim ttl]; cbn [cstep].
  - apply (hstep_refines maxb l o IH Hv).
  - apply clean_wf. exact IH.
Qed.

(* what a step may do to the readable content: a writer's step changes it as the abstract
   log says, a Clean only removes a prefix; neither lowers the HW or moves the log end
   backwards except a truncation *)
Theorem cstep_content maxb l c : wf l -> cop_valid l c ->
  match c with
  | CHop o => all_recs (cstep maxb l c) = spec_step l (all_recs l) o
  | CClean _ _ => (exists n, all_recs (cstep maxb l c) = skipn n (all_recs l)) /\
                  newest (cstep maxb l c) = newest l
  end /\ l_hw l <= l_hw (cstep maxb l c).
Proof.
  intros Hw Hv. destruct c as [o|lim ttl]; cbn [cstep].
  - destruct (hstep_refines maxb l o Hw Hv) as (_ & H2 & H3). split; assumption.
  - destruct (clean_keeps_end lim ttl l Hw) as (_ & Hn & Hh & _).
    split; [split; [apply clean_content_suffix|exact Hn]|]. rewrite Hh. lia.
Qed.

(* non-vacuity: appends, a Clean that removes two segments, an append, another Clean *)
Example creachable_example :
  let m := mkMsg 5 1%N [1;2;3]%N (-1) in
  let ops := [CHop (HAppend [m; m; m]); CHop (HAppend [m; m; m]); CHop (HAppend [m; m; m]);
              CClean (mkLimits 0 5 0) 0; CHop (HAppend [m; m]); CClean (mkLimits 0 5 0) 0] in
  let l := fold_left (cstep 70) ops new_log in
  map s_base (l_segs l) = [6; 9] /\ newest l = 10 /\ map r_off (all_recs l) = [6; 7; 8; 9; 10].
Proof. vm_compute. repeat split. Qed.
