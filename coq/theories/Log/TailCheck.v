(* Replays the blocks of harness/commitlog/tailwait_test.go on the LTS of Log/TailWait.v: the writer
   actions of a block, then the reader runs until it is parked, held with everything delivered (when
   the driver asked for that), or spins; the number of messages delivered, that end state and the
   segments (length, sealed mark) must agree with what the real log and the real reader did. *)
From LB Require Import Base.Prelude Log.TailWait.
Open Scope Z_scope.

Inductive tact := AAppend | ARollAppend | ARoll | ATrunc (k : Z).
Inductive tend := EParked | EHeld | ESpin | ELost.

Definition tend_eqb (a b : tend) : bool :=
  match a, b with EParked, EParked | EHeld, EHeld | ESpin, ESpin | ELost, ELost => true | _, _ => false end.

Definition act_labels (a : tact) : list tlabel :=
  match a with
  | AAppend => [TAppend]
  | ARollAppend => [TRollNew; TSeal; TAppend]
  | ARoll => [TRollNew; TSeal]
  | ATrunc k => [TTruncCopy k]
  end.

Fixpoint total (l : list sg) : Z := match l with [] => 0 | g :: r => g_len g + total r end.

(* the reader runs up to its next lock *)
Fixpoint settle (fuel : nat) (s : tst) : tst :=
  match fuel with
  | O => s
  | S f => match t_phase (s_rd s) with Running => settle f (tstep tcode s TStep) | _ => s end
  end.

Fixpoint drain (fuel : nat) (hold : bool) (spins : nat) (s : tst) : tst * tend :=
  match fuel with
  | O => (s, ELost)
  | S f =>
    let s1 := settle 50 s in
    match t_phase (s_rd s1) with
    | Parked => (s1, EParked)
    | Running => (s1, ELost)
    | AboutToWait =>
      if hold && (t_got (s_rd s1) =? total (s_segs s1)) then (s1, EHeld)
      else let s2 := settle 50 (tstep tcode s1 TWaitDec) in
           match t_phase (s_rd s2) with
           | AboutToWait =>
             if t_got (s_rd s2) =? t_got (s_rd s1)
             then (if Nat.leb 3 spins then (s2, ESpin) else drain f hold (S spins) s2)
             else drain f hold O s2
           | _ => drain f hold O s2
           end
    end
  end.

Record tblock := mkTb { b_acts : list tact; b_hold : bool; b_end : tend; b_got : Z; b_segs : list (Z * bool) }.

Definition segs_eqb (a : list sg) (b : list (Z * bool)) : bool :=
  Nat.eqb (length a) (length b) &&
  forallb (fun p => (g_len (fst p) =? fst (snd p)) && Bool.eqb (g_sealed (fst p)) (snd (snd p))) (combine a b).

Fixpoint treplay (s : tst) (bs : list tblock) (i : nat) : option nat :=
  match bs with
  | [] => None
  | b :: r =>
    let s1 := trun tcode s (concat (map act_labels (b_acts b))) in
    let '(s2, e) := drain 60 (b_hold b) O s1 in
    if tend_eqb e (b_end b) && (t_got (s_rd s2) =? b_got b) && segs_eqb (s_segs s2) (b_segs b)
    then treplay s2 r (S i) else Some i
  end.

(* the driver appends one message before it opens the reader, which then runs to the end of the log *)
Definition tstart (cap : Z) : tst := settle 50 (tstep tcode (tinit cap) TAppend).

Fixpoint tcases_mismatches (cs : list (Z * list tblock)) (i : nat) : list (nat * nat) :=
  match cs with
  | [] => []
  | (cap, bs) :: r => match treplay (tstart cap) bs 0 with
                      | None => tcases_mismatches r (S i)
                      | Some j => (i, j) :: tcases_mismatches r (S i)
                      end
  end.
