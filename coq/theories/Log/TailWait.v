(* C01: the wake-up protocol between the writers of a partition log and a blocking (tailing)
   uncommitted reader (reader.go uncommittedReader.Read / waitForData, segment.go waitForData /
   notifyWaiters / seal, commitlog.go checkAndPerformSplit / split / Truncate), one transition per
   critical section.

   A reader call takes a snapshot of the segment list, reads what its segment holds, and at the end
   of the segment: moves to the next segment of the snapshot if there is one; otherwise it marks
   itself as waiting and calls segment.waitForData, which under the segment lock either returns at
   once (the segment has more data / is full / -- fix -- is sealed) or registers the reader; woken or
   returned, it reads again, and at the end once more it takes a fresh snapshot and moves on or waits
   again -- in an inner loop that no longer reads its own segment. Writers: an append writes to the active segment and wakes its waiters; a roll (because the
   active segment is full, or because of its AGE, in which case it is not full) adds a new segment and
   then seals the old one, which wakes its waiters unless the segment is already marked sealed; a
   truncation makes a rewritten copy of a segment, or the segment before it, the active segment.

   Variant switches (pinned commit = false, current tree = true):
     tv_sealed : waitForData returns at once on a sealed segment
     tv_unseal : Truncate clears the sealed mark of the segment that becomes active (segment.close,
                 used by Replace, and the earlier roll leave it set) *)
From LB Require Import Base.Prelude.
Open Scope Z_scope.

Record tv := mkTv { tv_sealed : bool; tv_unseal : bool }.
Definition tcode : tv := mkTv true true.

Record sg := mkSg { g_len : Z; g_cap : Z; g_sealed : bool }.

Inductive phase := Running | AboutToWait | Parked.

Record tr := mkTr {
  t_seg : nat;           (* the segment it reads *)
  t_pos : Z;             (* messages of that segment it has consumed *)
  t_snap : nat;          (* number of segments in its snapshot of the segment list *)
  t_waiting : N;         (* 0: has not waited in this call; 1: has waited once and reads again; 2: in the inner loop
                            that only looks for the next segment *)
  t_phase : phase;
  t_got : Z              (* messages delivered so far *)
}.

Record tst := mkT { s_segs : list sg; s_pending : option nat (* a roll has added its segment, the seal of this one is to come *);
                    s_rd : tr }.

Inductive tlabel :=
| TAppend                (* one message into the active segment *)
| TRollNew               (* split(): the new active segment is in the list *)
| TSeal                  (* activeSegment.Seal() of the segment that was rolled *)
| TTruncCopy (k : Z)     (* Truncate inside the active segment: it is replaced by a copy holding k messages *)
| TTruncDrop             (* Truncate at the base of the active segment: it is deleted, the one before is active again *)
| TStep                  (* the reader: one iteration of its loop up to the next lock *)
| TWaitDec.              (* the reader: segment.waitForData *)

Definition nth_sg (l : list sg) (i : nat) : sg := nth i l (mkSg 0 1 false).
Definition last_idx (l : list sg) : nat := (length l - 1)%nat.

Fixpoint set_nth {A} (l : list A) (i : nat) (x : A) : list A :=
  match l, i with
  | [], _ => []
  | _ :: r, O => x :: r
  | y :: r, S j => y :: set_nth r j x
  end.

Definition wake (i : nat) (r : tr) : tr :=
  if Nat.eqb (t_seg r) i then match t_phase r with Parked => mkTr (t_seg r) (t_pos r) (t_snap r) (t_waiting r) Running (t_got r) | _ => r end else r.

Definition full (g : sg) : bool := g_cap g <=? g_len g.
Definition is_about (r : tr) : bool := match t_phase r with AboutToWait => true | _ => false end.

Definition tstep (v : tv) (s : tst) (lb : tlabel) : tst :=
  let segs := s_segs s in
  let a := last_idx segs in
  let r := s_rd s in
  match lb with
  | TAppend =>
    let g := nth_sg segs a in
    if full g then s   (* the caller rolls first *)
    else mkT (set_nth segs a (mkSg (g_len g + 1) (g_cap g) (g_sealed g))) (s_pending s) (wake a r)
  | TRollNew =>
    match s_pending s with
    | Some _ => s
    | None => mkT (segs ++ [mkSg 0 (g_cap (nth_sg segs a)) false]) (Some a) r
    end
  | TSeal =>
    match s_pending s with
    | None => s
    | Some i => let g := nth_sg segs i in
                if g_sealed g then mkT segs None r      (* seal() is a no-op on a segment marked sealed *)
                else mkT (set_nth segs i (mkSg (g_len g) (g_cap g) true)) None (wake i r)
    end
  | TTruncCopy k =>
    let g := nth_sg segs a in
    match s_pending s with
    | Some _ => s
    | None =>
      if (0 <=? k) && (k <=? g_len g) && (negb (Nat.eqb (t_seg r) a) || ((t_pos r <=? k) && negb (is_about r)))
      then (* Replace closes both copies (marked sealed, waiters woken); a reader of the old copy gets
              ErrSegmentReplaced from its next read and is created again at its offset *)
           mkT (set_nth segs a (mkSg k (g_cap g) (negb (tv_unseal v)))) None
               (if Nat.eqb (t_seg r) a then mkTr a (t_pos r) (length segs) 0 Running (t_got r) else r)
      else s
    end
  | TTruncDrop =>
    match s_pending s with
    | Some _ => s
    | None =>
      (* not under a reader that is in a wait cycle, or that has seen the segment (the server truncates
         followers, whose logs have no tailing readers) *)
      if (2 <=? length segs)%nat && (t_seg r <? a)%nat && (t_snap r <=? a)%nat && N.eqb (t_waiting r) 0
      then let p := (a - 1)%nat in let g := nth_sg segs p in
           mkT (set_nth (removelast segs) p (mkSg (g_len g) (g_cap g) (g_sealed g && negb (tv_unseal v)))) None r
      else s
    end
  | TStep =>
    match t_phase r with
    | Running =>
      let g := nth_sg segs (t_seg r) in
      let fresh_next := (S (t_seg r) <? length segs)%nat in
      match t_waiting r with
      | 2%N => (* inner loop: fresh list, move on or wait again *)
        if fresh_next then mkT segs (s_pending s) (mkTr (S (t_seg r)) 0 (length segs) 0 Running (t_got r))
        else mkT segs (s_pending s) (mkTr (t_seg r) (t_pos r) (length segs) 2 AboutToWait (t_got r))
      | w =>
        if t_pos r <? g_len g
        then (* a message is returned; the next call takes a new snapshot *)
          mkT segs (s_pending s) (mkTr (t_seg r) (t_pos r + 1) (length segs) 0 Running (t_got r + 1))
        else match w with
             | 0%N => if (S (t_seg r) <? t_snap r)%nat
                      then mkT segs (s_pending s) (mkTr (S (t_seg r)) 0 (t_snap r) 0 Running (t_got r))
                      else mkT segs (s_pending s) (mkTr (t_seg r) (t_pos r) (t_snap r) 1 AboutToWait (t_got r))
             | _ => if fresh_next
                    then mkT segs (s_pending s) (mkTr (S (t_seg r)) 0 (length segs) 0 Running (t_got r))
                    else mkT segs (s_pending s) (mkTr (t_seg r) (t_pos r) (length segs) 2 AboutToWait (t_got r))
             end
      end
    | _ => s
    end
  | TWaitDec =>
    match t_phase r with
    | AboutToWait =>
      let g := nth_sg segs (t_seg r) in
      if (t_pos r <? g_len g) || full g || (tv_sealed v && g_sealed g)
      then mkT segs (s_pending s) (mkTr (t_seg r) (t_pos r) (t_snap r) (t_waiting r) Running (t_got r))
      else mkT segs (s_pending s) (mkTr (t_seg r) (t_pos r) (t_snap r) (t_waiting r) Parked (t_got r))
    | _ => s
    end
  end.

Definition trun (v : tv) (s : tst) (sched : list tlabel) : tst := fold_left (tstep v) sched s.

Definition tinit (cap : Z) : tst := mkT [mkSg 0 cap false] None (mkTr 0 0 1 0 Running 0).

