(* The tail reader's wake-up protocol (Log/TailWait.v), for every schedule: a reader registered as a
   waiter has consumed the whole log unless the seal that wakes it is still to come, and it leaves a
   segment only when it has consumed all of it. Both fail on the pinned code. *)
From LB Require Import Base.Prelude Log.TailWait.
From Coq Require Import ZifyBool.
Open Scope Z_scope.

(* ---- lists ---- *)
Lemma set_nth_length {A} (l : list A) i x : length (set_nth l i x) = length l.
Proof. revert i. induction l as [|y t IH]; intros i; destruct i; cbn; try reflexivity. rewrite IH. reflexivity. Qed.

Lemma nth_set_nth l i x j : (i < length l)%nat -> nth_sg (set_nth l i x) j = if Nat.eqb j i then x else nth_sg l j.
Proof.
  unfold nth_sg. revert i j. induction l as [|y t IH]; intros i j H; [cbn in H; lia|].
  destruct i, j; cbn [set_nth nth Nat.eqb]; try reflexivity. apply IH. cbn in H. lia.
Qed.

Lemma nth_snoc l x j : nth_sg (l ++ [x]) j = if (j <? length l)%nat then nth_sg l j else if Nat.eqb j (length l) then x else mkSg 0 1 false.
Proof.
  unfold nth_sg. destruct (Nat.ltb_spec j (length l)); [apply app_nth1; assumption|].
  rewrite app_nth2 by lia. destruct (Nat.eqb_spec j (length l)) as [->|N]; [rewrite Nat.sub_diag; reflexivity|].
  destruct (j - length l)%nat eqn:E; [lia|]. cbn. destruct n; reflexivity.
Qed.

Lemma removelast_length {A} (l : list A) : length (removelast l) = (length l - 1)%nat.
Proof. induction l as [|x t IH]; [reflexivity|]. destruct t; [reflexivity|]. cbn [removelast length] in *. rewrite IH. lia. Qed.

Lemma nth_removelast l j : (j < length l - 1)%nat -> nth_sg (removelast l) j = nth_sg l j.
Proof.
  unfold nth_sg. revert j. induction l as [|x t IH]; intros j H; [cbn in H; lia|]. destruct t as [|y u]; [cbn in H; lia|].
  destruct j; [reflexivity|]. cbn [removelast nth]. apply IH. cbn [length] in *. lia.
Qed.

(* ---- the invariant ---- *)
Record tinv (s : tst) : Prop := {
  i_ne : (1 <= length (s_segs s))%nat;
  i_seg : (t_seg (s_rd s) < t_snap (s_rd s) <= length (s_segs s))%nat;
  i_len : forall i, 0 <= g_len (nth_sg (s_segs s) i);
  i_pos : 0 <= t_pos (s_rd s) <= g_len (nth_sg (s_segs s) (t_seg (s_rd s)));
  i_act : g_sealed (nth_sg (s_segs s) (last_idx (s_segs s))) = false;
  i_old : forall i, (i < last_idx (s_segs s))%nat -> g_sealed (nth_sg (s_segs s) i) = true \/ s_pending s = Some i;
  i_pend : forall i, s_pending s = Some i -> S i = last_idx (s_segs s) /\ g_sealed (nth_sg (s_segs s) i) = false;
  i_park : t_phase (s_rd s) = Parked ->
           t_pos (s_rd s) = g_len (nth_sg (s_segs s) (t_seg (s_rd s))) /\
           full (nth_sg (s_segs s) (t_seg (s_rd s))) = false /\
           g_sealed (nth_sg (s_segs s) (t_seg (s_rd s))) = false /\
           (t_seg (s_rd s) = last_idx (s_segs s) \/ s_pending s = Some (t_seg (s_rd s)));
  i_inner : t_waiting (s_rd s) = 2%N ->
            t_pos (s_rd s) = g_len (nth_sg (s_segs s) (t_seg (s_rd s))) /\
            (full (nth_sg (s_segs s) (t_seg (s_rd s))) = true \/ (t_seg (s_rd s) < last_idx (s_segs s))%nat);
  i_once : t_phase (s_rd s) = Running -> t_waiting (s_rd s) = 1%N ->
           t_pos (s_rd s) < g_len (nth_sg (s_segs s) (t_seg (s_rd s))) \/
           full (nth_sg (s_segs s) (t_seg (s_rd s))) = true \/ (t_seg (s_rd s) < last_idx (s_segs s))%nat;
  i_w : (t_waiting (s_rd s) <= 2)%N
}.

Lemma tinit_inv cap : tinv (tinit cap).
Proof.
  split; cbn; try lia; try reflexivity; try discriminate.
  intros [|[|i]]; cbn; lia.
Qed.

Lemma last_idx_set_nth l i x : last_idx (set_nth l i x) = last_idx l.
Proof. unfold last_idx. rewrite set_nth_length. reflexivity. Qed.

Ltac inv_fields H := destruct H as [Hne Hseg Hlen Hpos Hact Hold Hpend Hpark Hinner Honce Hw].

(* ---- the reader's own steps ---- *)
Ltac simp_rd := cbn [s_segs s_pending s_rd t_seg t_pos t_snap t_waiting t_phase t_got] in *.

Lemma tstep_inv_step s : tinv s -> tinv (tstep tcode s TStep).
Proof.
  intros H. inv_fields H. destruct s as [segs pend [seg pos snap w ph got]]. cbn [tstep] in *. simp_rd.
  destruct ph; try (split; assumption).
  set (g := nth_sg segs seg) in *.
  assert (Hmove : forall sn, (S seg < sn <= length segs)%nat -> tinv (mkT segs pend (mkTr (S seg) 0 sn 0 Running got))).
  { intros sn Hsn. split; simp_rd; fold g; try assumption; try lia; try discriminate.
    split; [lia|apply Hlen]. }
  assert (Habout : forall sn w', (seg < sn <= length segs)%nat -> (w' = 1 \/ w' = 2)%N ->
                     (w' = 2%N -> pos = g_len g /\ (full g = true \/ (seg < last_idx segs)%nat)) ->
                     tinv (mkT segs pend (mkTr seg pos sn w' AboutToWait got))).
  { intros sn w' Hsn Hw' H2. split; simp_rd; fold g; try assumption; try lia; try discriminate. }
  assert (Hw3 : (w = 0 \/ w = 1 \/ w = 2)%N) by lia. destruct Hw3 as [-> | [-> | ->]]; cbv iota.
  - destruct (Z.ltb_spec pos (g_len g)) as [Hlt|Hge].
    + split; simp_rd; fold g; try assumption; try lia; try discriminate.
    + destruct (Nat.ltb_spec (S seg) snap); [apply Hmove; lia|apply Habout; [lia|left; reflexivity|intros; discriminate]].
  - destruct (Z.ltb_spec pos (g_len g)) as [Hlt|Hge].
    + split; simp_rd; fold g; try assumption; try lia; try discriminate.
    + assert (Ep : pos = g_len g) by lia.
      destruct (Nat.ltb_spec (S seg) (length segs)) as [Hn|Hn]; [apply Hmove; lia|].
      apply Habout; [lia|right; reflexivity|]. intros _. split; [exact Ep|].
      destruct (Honce eq_refl eq_refl) as [Hc|[Hc|Hc]]; [lia|left; exact Hc|right; exact Hc].
  - destruct (Hinner eq_refl) as [Ep Hfo]. destruct (Nat.ltb_spec (S seg) (length segs)) as [Hn|Hn].
    + apply Hmove. lia.
    + apply Habout; [lia|right; reflexivity|intros _; split; assumption].
Qed.

Lemma tstep_inv_wait s : tinv s -> tinv (tstep tcode s TWaitDec).
Proof.
  intros H. inv_fields H. destruct s as [segs pend [seg pos snap w ph got]]. cbn [tstep] in *. simp_rd.
  destruct ph; try (split; assumption).
  set (g := nth_sg segs seg) in *. cbn [tcode tv_sealed andb].
  assert (Hnonact : g_sealed g = true -> (seg < last_idx segs)%nat).
  { intros Es. destruct (Nat.lt_ge_cases seg (last_idx segs)) as [Hl|Hl]; [exact Hl|].
    assert (seg = last_idx segs) by (unfold last_idx in *; lia). subst seg. unfold g in Es. rewrite Hact in Es. discriminate. }
  destruct (Z.ltb_spec pos (g_len g)) as [Hlt|Hge]; cbn [orb].
  - split; simp_rd; fold g; try assumption; try lia; try discriminate.
  - destruct (full g) eqn:Ef; cbn [orb].
    + split; simp_rd; fold g; try assumption; try lia; try discriminate. all: intros; right; left; reflexivity.
    + destruct (g_sealed g) eqn:Es.
      * split; simp_rd; fold g; try assumption; try lia; try discriminate. all: intros; right; right; apply Hnonact; reflexivity.
      * split; simp_rd; fold g; try assumption; try lia; try discriminate.
        all: intros _; split; [lia|]; split; [first [assumption|reflexivity]|]; split; [first [assumption|reflexivity]|].
        all: destruct (Nat.lt_ge_cases seg (last_idx segs)) as [Hl|Hl]; [|left; unfold last_idx in *; lia].
        all: destruct (Hold seg Hl) as [Hs|Hp]; [unfold g in Es; rewrite Hs in Es; discriminate|right; exact Hp].
Qed.

(* ---- the writers ---- *)
Lemma wake_fields i r : t_seg (wake i r) = t_seg r /\ t_pos (wake i r) = t_pos r /\ t_snap (wake i r) = t_snap r /\
  t_waiting (wake i r) = t_waiting r /\ t_got (wake i r) = t_got r /\
  (t_phase (wake i r) = Parked -> t_phase r = Parked /\ t_seg r <> i) /\
  (t_phase (wake i r) = Running -> t_phase r = Running \/ (t_phase r = Parked /\ t_seg r = i)) /\
  (t_phase (wake i r) = AboutToWait -> t_phase r = AboutToWait).
Proof.
  unfold wake. destruct (Nat.eqb_spec (t_seg r) i) as [E|N]; destruct (t_phase r) eqn:Ep; cbn [t_seg t_pos t_snap t_waiting t_got t_phase];
    repeat split; try reflexivity; try discriminate; intros; try congruence; try (left; reflexivity); try (right; split; [reflexivity|assumption]); try (left; congruence).
Qed.

Lemma tstep_inv_append s : tinv s -> tinv (tstep tcode s TAppend).
Proof.
  intros H. pose proof H as H0. inv_fields H. destruct s as [segs pend r]. cbn [tstep] in *. simp_rd.
  set (a := last_idx segs) in *. set (g := nth_sg segs a) in *.
  destruct (full g) eqn:Ef; [exact H0|].
  assert (Ha : (a < length segs)%nat) by (unfold a, last_idx; lia).
  assert (Hn : forall j, nth_sg (set_nth segs a (mkSg (g_len g + 1) (g_cap g) (g_sealed g))) j = if Nat.eqb j a then mkSg (g_len g + 1) (g_cap g) (g_sealed g) else nth_sg segs j)
    by (intros j; apply nth_set_nth; exact Ha).
  destruct (wake_fields a r) as (W1 & W2 & W3 & W4 & W5 & W6 & W7 & W8).
  split; simp_rd; rewrite ?last_idx_set_nth, ?set_nth_length, ?W1, ?W2, ?W3, ?W4, ?W5; fold a; try assumption.
  - intros j. rewrite Hn. destruct (Nat.eqb j a); [cbn; pose proof (Hlen a); fold g in H; lia|apply Hlen].
  - rewrite Hn. destruct (Nat.eqb_spec (t_seg r) a) as [E|N]; [cbn [g_len]; rewrite E in Hpos; fold g in Hpos; lia|exact Hpos].
  - rewrite Hn, Nat.eqb_refl. cbn [g_sealed]. exact Hact.
  - intros j Hj. rewrite Hn. destruct (Nat.eqb_spec j a); [lia|apply Hold; exact Hj].
  - intros j Hj. destruct (Hpend j Hj) as [A B]. split; [exact A|]. rewrite Hn. destruct (Nat.eqb_spec j a); [fold a in A; lia|exact B].
  - intros P. destruct (W6 P) as [P0 Nseg]. destruct (Hpark P0) as (A & B & C & D). rewrite Hn. destruct (Nat.eqb_spec (t_seg r) a); [contradiction|]. repeat split; assumption.
  - intros Hw2. destruct (Hinner Hw2) as [A B]. rewrite Hn. destruct (Nat.eqb_spec (t_seg r) a) as [E|N].
    + exfalso. destruct B as [B|B]; [rewrite E in B; fold g in B; congruence|fold a in B; lia].
    + split; assumption.
  - intros P Hw1. rewrite Hn. destruct (W7 P) as [P0|[P0 E]].
    + destruct (Honce P0 Hw1) as [A|[A|A]].
      * left. destruct (Nat.eqb_spec (t_seg r) a) as [E|N]; [cbn [g_len]; rewrite E in A; fold g in A; lia|exact A].
      * destruct (Nat.eqb_spec (t_seg r) a) as [E|N]; [rewrite E in A; fold g in A; congruence|right; left; exact A].
      * right. right. exact A.
    + left. rewrite E, Nat.eqb_refl. cbn [g_len]. destruct (Hpark P0) as (A & _). rewrite E in A. fold g in A. lia.
Qed.

Lemma tstep_inv_rollnew s : tinv s -> tinv (tstep tcode s TRollNew).
Proof.
  intros H. pose proof H as H0. inv_fields H. destruct s as [segs pend r]. cbn [tstep] in *. simp_rd.
  destruct pend as [p|]; [exact H0|].
  set (a := last_idx segs) in *.
  assert (Ha : (a < length segs)%nat) by (unfold a, last_idx; lia).
  set (nw := mkSg 0 (g_cap (nth_sg segs a)) false).
  assert (Hl : last_idx (segs ++ [nw]) = S a) by (unfold last_idx, a, last_idx; rewrite app_length; cbn; lia).
  assert (Hn : forall j, (j <= a)%nat -> nth_sg (segs ++ [nw]) j = nth_sg segs j) by (intros j Hj; rewrite nth_snoc; destruct (Nat.ltb_spec j (length segs)); [reflexivity|lia]).
  assert (Hseg' : (t_seg r <= a)%nat) by (unfold a, last_idx; lia).
  split; simp_rd; rewrite ?Hl; try assumption.
  - rewrite app_length. cbn. lia.
  - rewrite app_length. cbn. lia.
  - intros j. rewrite nth_snoc. destruct (j <? length segs)%nat; [apply Hlen|]. destruct (Nat.eqb j (length segs)); cbn; lia.
  - rewrite Hn by exact Hseg'. exact Hpos.
  - rewrite nth_snoc. destruct (Nat.ltb_spec (S a) (length segs)); [unfold a, last_idx in *; lia|].
    destruct (Nat.eqb_spec (S a) (length segs)); [reflexivity|unfold a, last_idx in *; lia].
  - intros j Hj. destruct (Nat.eq_dec j a) as [->|Nj]; [right; reflexivity|]. left. rewrite Hn by lia.
    destruct (Hold j ltac:(fold a; lia)) as [S1|S1]; [exact S1|discriminate].
  - intros j [= <-]. split; [reflexivity|]. rewrite Hn by lia. exact Hact.
  - intros P. destruct (Hpark P) as (A & B & C & [D|D]); [|discriminate]. rewrite Hn by exact Hseg'. repeat split; try assumption. right. fold a in D. rewrite D. reflexivity.
  - intros Hw2. destruct (Hinner Hw2) as [A [B|B]]; rewrite Hn by exact Hseg'; (split; [exact A|]); [left; exact B|right; fold a in B; lia].
  - intros P Hw1. rewrite Hn by exact Hseg'. destruct (Honce P Hw1) as [A|[A|A]]; [left; exact A|right; left; exact A|right; right; fold a in A; lia].
Qed.

Lemma tstep_inv_seal s : tinv s -> tinv (tstep tcode s TSeal).
Proof.
  intros H. pose proof H as H0. inv_fields H. destruct s as [segs pend r]. cbn [tstep] in *. simp_rd.
  destruct pend as [p|]; [|exact H0].
  destruct (Hpend p eq_refl) as [Ep Es]. rewrite Es.
  set (a := last_idx segs) in *. set (g := nth_sg segs p) in *.
  assert (Hp : (p < length segs)%nat) by (unfold a, last_idx in *; lia).
  assert (Hn : forall j, nth_sg (set_nth segs p (mkSg (g_len g) (g_cap g) true)) j = if Nat.eqb j p then mkSg (g_len g) (g_cap g) true else nth_sg segs j)
    by (intros j; apply nth_set_nth; exact Hp).
  destruct (wake_fields p r) as (W1 & W2 & W3 & W4 & W5 & W6 & W7 & W8).
  split; simp_rd; rewrite ?last_idx_set_nth, ?set_nth_length, ?W1, ?W2, ?W3, ?W4, ?W5; fold a; try assumption.
  - intros j. rewrite Hn. destruct (Nat.eqb j p); [cbn; apply (Hlen p)|apply Hlen].
  - rewrite Hn. destruct (Nat.eqb_spec (t_seg r) p) as [E|N]; [cbn [g_len]; rewrite E in Hpos; exact Hpos|exact Hpos].
  - rewrite Hn. destruct (Nat.eqb_spec a p); [lia|exact Hact].
  - intros j Hj. left. rewrite Hn. destruct (Nat.eqb_spec j p) as [E|N]; [reflexivity|].
    destruct (Hold j Hj) as [S1|S1]; [exact S1|injection S1 as S1; congruence].
  - intros j Hj. discriminate.
  - intros P. destruct (W6 P) as [P0 Nseg]. destruct (Hpark P0) as (A & B & C & [D|D]); [|injection D as D; congruence].
    rewrite Hn. destruct (Nat.eqb_spec (t_seg r) p); [contradiction|]. repeat split; try assumption. left. exact D.
  - intros Hw2. destruct (Hinner Hw2) as [A B]. rewrite Hn. destruct (Nat.eqb_spec (t_seg r) p) as [E|N]; [|split; assumption].
    cbn [g_len]. rewrite E in A, B. fold g in A. split; [exact A|]. right. lia.
  - intros P Hw1. rewrite Hn. destruct (W7 P) as [P0|[P0 E]].
    + destruct (Nat.eqb_spec (t_seg r) p) as [E|N]; [right; right; lia|].
      destruct (Honce P0 Hw1) as [A|[A|A]]; [left; exact A|right; left; exact A|right; right; exact A].
    + right. right. lia.
Qed.

Lemma tstep_inv_trunccopy s k : tinv s -> tinv (tstep tcode s (TTruncCopy k)).
Proof.
  intros H. pose proof H as H0. inv_fields H. destruct s as [segs pend r]. cbn [tstep] in *. simp_rd.
  destruct pend as [p|]; [exact H0|].
  set (a := last_idx segs) in *. set (g := nth_sg segs a) in *.
  destruct ((0 <=? k) && (k <=? g_len g) && (negb (Nat.eqb (t_seg r) a) || ((t_pos r <=? k) && negb (is_about r)))) eqn:Ec; [|exact H0].
  apply andb_true_iff in Ec. destruct Ec as [Ec Er]. apply andb_true_iff in Ec. destruct Ec as [Ek0 Ek1]. apply Z.leb_le in Ek0, Ek1.
  assert (Ha : (a < length segs)%nat) by (unfold a, last_idx; lia).
  cbn [tcode tv_unseal negb].
  assert (Hn : forall j, nth_sg (set_nth segs a (mkSg k (g_cap g) false)) j = if Nat.eqb j a then mkSg k (g_cap g) false else nth_sg segs j)
    by (intros j; apply nth_set_nth; exact Ha).
  destruct (Nat.eqb_spec (t_seg r) a) as [E|N].
  - (* the reader of the rewritten segment is created again *)
    cbn [negb orb] in Er. apply andb_true_iff in Er. destruct Er as [Er _]. apply Z.leb_le in Er.
    split; simp_rd; rewrite ?last_idx_set_nth, ?set_nth_length; fold a; try assumption; try lia; try discriminate.
    + intros j. rewrite Hn. destruct (Nat.eqb j a); [cbn; lia|apply Hlen].
    + rewrite Hn, Nat.eqb_refl. cbn [g_len]. lia.
    + rewrite Hn, Nat.eqb_refl. reflexivity.
    + intros j Hj. rewrite Hn. destruct (Nat.eqb_spec j a); [lia|apply Hold; exact Hj].
  - split; simp_rd; rewrite ?last_idx_set_nth, ?set_nth_length; fold a; try assumption; try discriminate.
    + intros j. rewrite Hn. destruct (Nat.eqb j a); [cbn; lia|apply Hlen].
    + rewrite Hn. destruct (Nat.eqb_spec (t_seg r) a); [contradiction|exact Hpos].
    + rewrite Hn, Nat.eqb_refl. reflexivity.
    + intros j Hj. rewrite Hn. destruct (Nat.eqb_spec j a); [lia|apply Hold; exact Hj].
    + intros P. destruct (Hpark P) as (_ & _ & _ & [D|D]); [fold a in D; contradiction|discriminate].
    + intros Hw2. rewrite Hn. destruct (Nat.eqb_spec (t_seg r) a); [contradiction|apply Hinner; exact Hw2].
    + intros P Hw1. rewrite Hn. destruct (Nat.eqb_spec (t_seg r) a); [contradiction|apply Honce; assumption].
Qed.

Lemma tstep_inv_truncdrop s : tinv s -> tinv (tstep tcode s TTruncDrop).
Proof.
  intros H. pose proof H as H0. inv_fields H. destruct s as [segs pend r]. cbn [tstep] in *. simp_rd.
  destruct pend as [p|]; [exact H0|].
  set (a := last_idx segs) in *.
  destruct ((2 <=? length segs)%nat && (t_seg r <? a)%nat && (t_snap r <=? a)%nat && N.eqb (t_waiting r) 0) eqn:Ec; [|exact H0].
  apply andb_true_iff in Ec. destruct Ec as [Ec Ew0]. apply andb_true_iff in Ec. destruct Ec as [Ec Esn]. apply andb_true_iff in Ec. destruct Ec as [E2 Esg].
  apply Nat.leb_le in E2, Esn. apply Nat.ltb_lt in Esg. apply N.eqb_eq in Ew0.
  cbn [tcode tv_unseal negb]. rewrite andb_false_r.
  set (q := (a - 1)%nat). set (g := nth_sg segs q).
  assert (Hlr : length (removelast segs) = a) by (rewrite removelast_length; reflexivity).
  assert (Hq : (q < length (removelast segs))%nat) by (rewrite Hlr; unfold q, a, last_idx in *; lia).
  assert (Hn : forall j, (j < a)%nat -> nth_sg (set_nth (removelast segs) q (mkSg (g_len g) (g_cap g) false)) j = if Nat.eqb j q then mkSg (g_len g) (g_cap g) false else nth_sg segs j).
  { intros j Hj. rewrite nth_set_nth by exact Hq. destruct (Nat.eqb j q); [reflexivity|]. apply nth_removelast. fold (last_idx segs). fold a. exact Hj. }
  assert (Hl : last_idx (set_nth (removelast segs) q (mkSg (g_len g) (g_cap g) false)) = q) by (unfold last_idx; rewrite set_nth_length, Hlr; reflexivity).
  split; simp_rd; rewrite ?Hl, ?set_nth_length, ?Hlr; try assumption; try lia; try discriminate.
  - intros j. destruct (Nat.lt_ge_cases j a) as [Hj|Hj].
    + rewrite Hn by exact Hj. destruct (Nat.eqb j q); [cbn; apply (Hlen q)|apply Hlen].
    + unfold nth_sg. rewrite nth_overflow by (rewrite set_nth_length, Hlr; lia). cbn. lia.
  - rewrite Hn by exact Esg. destruct (Nat.eqb_spec (t_seg r) q) as [E|N]; [cbn [g_len]; rewrite E in Hpos; exact Hpos|exact Hpos].
  - rewrite Hn by (unfold q; lia). rewrite Nat.eqb_refl. reflexivity.
  - intros j Hj. left. rewrite Hn by (unfold q in *; lia). destruct (Nat.eqb_spec j q); [lia|].
    destruct (Hold j ltac:(fold a; unfold q in *; lia)) as [S1|S1]; [exact S1|discriminate].
  - intros P. destruct (Hpark P) as (_ & _ & _ & [D|D]); [fold a in D; lia|discriminate].
Qed.

Theorem tstep_inv s lb : tinv s -> tinv (tstep tcode s lb).
Proof.
  destruct lb; [apply tstep_inv_append|apply tstep_inv_rollnew|apply tstep_inv_seal|apply tstep_inv_trunccopy|apply tstep_inv_truncdrop|apply tstep_inv_step|apply tstep_inv_wait].
Qed.

Theorem trun_inv s sched : tinv s -> tinv (trun tcode s sched).
Proof.
  unfold trun. revert s. induction sched as [|lb r IH]; intros s H; [exact H|]. cbn [fold_left]. apply IH. apply tstep_inv. exact H.
Qed.

(* ---- what the invariant gives ---- *)
(* No lost wake-up: a reader registered as a waiter has consumed the whole log, unless the seal of
   its segment -- which wakes it -- is still to come. *)
Theorem parked_reader_has_read_everything cap sched :
  let s := trun tcode (tinit cap) sched in
  t_phase (s_rd s) = Parked -> s_pending s <> Some (t_seg (s_rd s)) ->
  t_seg (s_rd s) = last_idx (s_segs s) /\ t_pos (s_rd s) = g_len (nth_sg (s_segs s) (last_idx (s_segs s))).
Proof.
  cbn zeta. intros P Np. pose proof (trun_inv (tinit cap) sched (tinit_inv cap)) as H. destruct (i_park _ H P) as (A & _ & _ & [D|D]); [|contradiction].
  split; [exact D|]. rewrite <- D. exact A.
Qed.

(* ... and the seal leaves nobody parked on the segment it seals *)
Theorem seal_wakes s i : tinv s -> s_pending s = Some i ->
  ~ (t_phase (s_rd (tstep tcode s TSeal)) = Parked /\ t_seg (s_rd (tstep tcode s TSeal)) = i).
Proof.
  intros H Hp [P E]. destruct (i_pend _ H i Hp) as [_ Es]. destruct s as [segs pend r]. cbn [tstep s_pending s_segs s_rd] in *. subst pend. rewrite Es in *.
  cbn [s_rd] in *. destruct (wake_fields i r) as (W1 & _ & _ & _ & _ & W6 & _). destruct (W6 P) as [_ N]. rewrite W1 in E. contradiction.
Qed.

(* No message is skipped: the reader leaves a segment only for the next one, and only when it has
   consumed all of it. *)
Theorem reader_leaves_only_consumed_segments s lb : tinv s ->
  t_seg (s_rd (tstep tcode s lb)) <> t_seg (s_rd s) ->
  t_seg (s_rd (tstep tcode s lb)) = S (t_seg (s_rd s)) /\ t_pos (s_rd s) = g_len (nth_sg (s_segs s) (t_seg (s_rd s))).
Proof.
  intros H. inv_fields H. destruct s as [segs pend [seg pos snap w ph got]]. simp_rd.
  assert (Hwk : forall i, t_seg (wake i (mkTr seg pos snap w ph got)) = seg) by (intros i; apply (wake_fields i (mkTr seg pos snap w ph got))).
  Ltac nochange := let Hc := fresh in intros Hc; exfalso; apply Hc; reflexivity.
  destruct lb; cbn [tstep]; simp_rd.
  - destruct (full (nth_sg segs (last_idx segs))); simp_rd; [nochange|]. rewrite Hwk. nochange.
  - destruct pend; simp_rd; nochange.
  - destruct pend as [p|]; simp_rd; [|nochange]. destruct (g_sealed (nth_sg segs p)); simp_rd; [nochange|]. rewrite Hwk. nochange.
  - destruct pend; simp_rd; [nochange|].
    match goal with |- context [if ?c then _ else _] => destruct c end; simp_rd; [|nochange].
    destruct (Nat.eqb_spec seg (last_idx segs)) as [E|N]; simp_rd; [rewrite <- E|]; nochange.
  - destruct pend; simp_rd; [nochange|]. match goal with |- context [if ?c then _ else _] => destruct c end; simp_rd; nochange.
  - destruct ph; simp_rd; try nochange.
    assert (Hw3 : (w = 0 \/ w = 1 \/ w = 2)%N) by lia. destruct Hw3 as [-> | [-> | ->]]; cbv iota.
    + destruct (Z.ltb_spec pos (g_len (nth_sg segs seg))); simp_rd; [nochange|].
      destruct (S seg <? snap)%nat; simp_rd; [intros _; split; [reflexivity|lia]|nochange].
    + destruct (Z.ltb_spec pos (g_len (nth_sg segs seg))); simp_rd; [nochange|].
      destruct (S seg <? length segs)%nat; simp_rd; [intros _; split; [reflexivity|lia]|nochange].
    + destruct (S seg <? length segs)%nat; simp_rd; [intros _; split; [reflexivity|apply (Hinner eq_refl)]|nochange].
  - destruct ph; simp_rd; try nochange. match goal with |- context [if ?c then _ else _] => destruct c end; simp_rd; nochange.
Qed.

(* ---- the pinned code, and each half of the repair alone ---- *)
Definition tshow (s : tst) := (map (fun g => (g_len g, g_sealed g)) (s_segs s), s_pending s,
                               (t_seg (s_rd s), t_pos (s_rd s), t_phase (s_rd s), t_got (s_rd s))).

(* the age roll between the reader's look at the segment list and waitForData: parked on a sealed
   segment while offset 1 sits in the next one *)
Lemma pinned_age_roll_race :
  tshow (trun (mkTv false false) (tinit 10) [TAppend; TStep; TStep; TRollNew; TSeal; TAppend; TWaitDec])
  = ([(1, true); (1, false)], None, (0%nat, 1, Parked, 1)).
Proof. vm_compute. reflexivity. Qed.

(* a truncation leaves the active segment marked sealed; rolled by age, its Seal wakes nobody *)
Lemma pinned_truncate_then_age_roll :
  tshow (trun (mkTv false false) (tinit 10) [TAppend; TAppend; TTruncCopy 1; TStep; TStep; TWaitDec; TRollNew; TSeal; TAppend])
  = ([(1, true); (1, false)], None, (0%nat, 1, Parked, 1)).
Proof. vm_compute. reflexivity. Qed.

(* the sealed test without the un-sealing: the reader of a truncated active segment takes it for
   rolled, never reads it again and moves on with two messages unread *)
Lemma sealed_test_alone_skips :
  tshow (trun (mkTv true false) (tinit 3) [TAppend; TAppend; TTruncCopy 1; TStep; TStep; TWaitDec; TStep; TAppend; TWaitDec; TStep; TWaitDec; TAppend; TRollNew; TSeal; TAppend; TStep; TStep])
  = ([(3, true); (1, false)], None, (1%nat, 1, Running, 2)).
Proof. vm_compute. reflexivity. Qed.

(* the current tree on the first two schedules *)
Lemma code_delivers :
  t_got (s_rd (trun tcode (tinit 10) [TAppend; TStep; TStep; TRollNew; TSeal; TAppend; TWaitDec; TStep; TStep; TStep])) = 2 /\
  t_got (s_rd (trun tcode (tinit 10) [TAppend; TAppend; TTruncCopy 1; TStep; TStep; TWaitDec; TRollNew; TSeal; TAppend; TStep; TStep; TStep])) = 2.
Proof. vm_compute. split; reflexivity. Qed.

(* ---- progress: with the writers quiet (and no seal outstanding) a reader behind the end of the log
   delivers its next message within a bounded number of its own steps: it neither parks nor spins ---- *)
Definition rstep (s : tst) : tst :=
  tstep tcode s (match t_phase (s_rd s) with AboutToWait => TWaitDec | _ => TStep end).

Fixpoint riter (n : nat) (s : tst) : tst := match n with O => s | S k => riter k (rstep s) end.

Definition has_data (s : tst) : Prop :=
  t_pos (s_rd s) < g_len (nth_sg (s_segs s) (t_seg (s_rd s))) \/
  exists j, (t_seg (s_rd s) < j < length (s_segs s))%nat /\ 0 < g_len (nth_sg (s_segs s) j).

Lemma rstep_inv s : tinv s -> tinv (rstep s).
Proof. intros H. unfold rstep. apply tstep_inv. exact H. Qed.

Lemma rstep_segs s : s_segs (rstep s) = s_segs s /\ s_pending (rstep s) = s_pending s.
Proof.
  unfold rstep. destruct s as [segs pend [seg pos snap w ph got]]. simp_rd. destruct ph; cbn [tstep]; simp_rd.
  - destruct w as [|[[]|[]|]]; repeat match goal with |- context [if ?c then _ else _] => destruct c end; split; reflexivity.
  - match goal with |- context [if ?c then _ else _] => destruct c end; split; reflexivity.
  - split; reflexivity.
Qed.

(* moving to the next segment keeps "there is something to read" *)
Lemma has_data_move segs pend seg pos snap w ph got sn w' :
  has_data (mkT segs pend (mkTr seg pos snap w ph got)) -> pos = g_len (nth_sg segs seg) ->
  has_data (mkT segs pend (mkTr (S seg) 0 sn w' Running got)).
Proof.
  intros [Hd|(j & Hj & Hl)] Ep; unfold has_data in *; simp_rd; [lia|].
  destruct (Nat.eq_dec j (S seg)) as [->|N]; [left; exact Hl|right; exists j; split; [lia|exact Hl]].
Qed.

Theorem reader_progress_aux : forall d s, tinv s -> s_pending s = None ->
  (length (s_segs s) - t_seg (s_rd s))%nat = d -> has_data s ->
  exists n, (n <= 4 * d + 2)%nat /\ t_got (s_rd (riter n s)) = t_got (s_rd s) + 1.
Proof.
  induction d as [d IHd] using lt_wf_ind. intros s H Hpn Hd Hdata.
  pose proof H as H0. inv_fields H. destruct s as [segs pend [seg pos snap w ph got]]. simp_rd. subst pend.
  set (g := nth_sg segs seg) in *.
  assert (Hw3 : (w = 0 \/ w = 1 \/ w = 2)%N) by lia.
  destruct (Z.lt_ge_cases pos (g_len g)) as [Hlt|Hge].
  - (* the segment has more: at most a waitForData that returns at once, then the read *)
    assert (Hw2 : w <> 2%N) by (intros ->; destruct (Hinner eq_refl) as [E _]; fold g in E; lia).
    destruct ph.
    + exists 1%nat. split; [lia|]. cbn [riter]. unfold rstep. simp_rd. cbn [tstep]. simp_rd. fold g.
      destruct Hw3 as [-> | [-> | ->]]; try contradiction; cbv iota; destruct (Z.ltb_spec pos (g_len g)); try lia; reflexivity.
    + exists 2%nat. split; [lia|]. cbn [riter]. unfold rstep at 2. simp_rd. cbn [tstep]. simp_rd. fold g.
      destruct (Z.ltb_spec pos (g_len g)); [|lia]. cbn [orb]. unfold rstep. simp_rd. cbn [tstep]. simp_rd. fold g.
      destruct Hw3 as [-> | [-> | ->]]; try contradiction; cbv iota; destruct (Z.ltb_spec pos (g_len g)); try lia; reflexivity.
    + destruct (Hpark eq_refl) as (E & _). fold g in E. lia.
  - (* the segment is consumed: what remains is in a later segment, so this one is sealed *)
    assert (Ep : pos = g_len g) by (fold g in Hpos; lia).
    destruct Hdata as [Hc|(j & Hj & Hl)]; [simp_rd; fold g in Hc; lia|]. simp_rd.
    assert (Hlast : (seg < last_idx segs)%nat) by (unfold last_idx; lia).
    assert (Hsealed : g_sealed g = true) by (destruct (Hold seg Hlast) as [S1|S1]; [exact S1|discriminate]).
    assert (Hfresh : (S seg <? length segs)%nat = true) by (apply Nat.ltb_lt; unfold last_idx in Hlast; lia).
    assert (Hdata0 : has_data (mkT segs None (mkTr seg pos snap w ph got))) by (right; exists j; split; assumption).
    (* after the move: one segment less to go *)
    assert (Hnext : forall sn w', tinv (mkT segs None (mkTr (S seg) 0 sn w' Running got)) ->
              exists n, (n <= 4 * (d - 1) + 2)%nat /\ t_got (s_rd (riter n (mkT segs None (mkTr (S seg) 0 sn w' Running got)))) = got + 1).
    { intros sn w' Hi. apply (IHd (d - 1)%nat ltac:(lia) _ Hi eq_refl); simp_rd; [lia|].
      apply (has_data_move segs None seg pos snap w ph got sn w' Hdata0). exact Ep. }
    assert (Hd1 : (1 <= d)%nat) by lia.
    (* the states the reader goes through *)
    set (sR := fun w0 sn => mkT segs None (mkTr seg pos sn w0 Running got)).
    assert (StepMove1 : forall sn, rstep (sR 1%N sn) = mkT segs None (mkTr (S seg) 0 (length segs) 0 Running got)).
    { intros sn. unfold rstep, sR. simp_rd. cbn [tstep]. simp_rd. fold g. cbv iota. destruct (Z.ltb_spec pos (g_len g)); [lia|]. rewrite Hfresh. reflexivity. }
    assert (StepMove2 : forall sn, rstep (sR 2%N sn) = mkT segs None (mkTr (S seg) 0 (length segs) 0 Running got)).
    { intros sn. unfold rstep, sR. simp_rd. cbn [tstep]. simp_rd. cbv iota. rewrite Hfresh. reflexivity. }
    assert (StepWait : forall w0 sn, rstep (mkT segs None (mkTr seg pos sn w0 AboutToWait got)) = sR w0 sn).
    { intros w0 sn. unfold rstep, sR. simp_rd. cbn [tstep]. simp_rd. fold g. cbn [tcode tv_sealed andb]. rewrite Hsealed, !orb_true_r. reflexivity. }
    assert (Step0 : forall sn, rstep (sR 0%N sn) = (if (S seg <? sn)%nat then mkT segs None (mkTr (S seg) 0 sn 0 Running got) else mkT segs None (mkTr seg pos sn 1 AboutToWait got))).
    { intros sn. unfold rstep, sR. simp_rd. cbn [tstep]. simp_rd. fold g. cbv iota. destruct (Z.ltb_spec pos (g_len g)); [lia|]. reflexivity. }
    (* from Running with flag w0 *)
    assert (FromRunning : forall w0 sn, (w0 = 0 \/ w0 = 1 \/ w0 = 2)%N -> tinv (sR w0 sn) ->
              exists n, (n <= 4 * (d - 1) + 2 + 3)%nat /\ t_got (s_rd (riter n (sR w0 sn))) = got + 1).
    { intros w0 sn Hw0 Hi. destruct Hw0 as [-> | [-> | ->]].
      - pose proof (rstep_inv _ Hi) as Hi1. rewrite Step0 in Hi1. destruct (S seg <? sn)%nat eqn:Esn.
        + destruct (Hnext _ _ Hi1) as (n & Hn & Hg). exists (S n). split; [lia|]. cbn [riter]. rewrite Step0, Esn. exact Hg.
        + pose proof (rstep_inv _ Hi1) as Hi2. rewrite StepWait in Hi2. pose proof (rstep_inv _ Hi2) as Hi3. rewrite StepMove1 in Hi3.
          destruct (Hnext _ _ Hi3) as (n & Hn & Hg). exists (S (S (S n))). split; [lia|]. cbn [riter]. rewrite Step0, Esn, StepWait, StepMove1. exact Hg.
      - pose proof (rstep_inv _ Hi) as Hi1. rewrite StepMove1 in Hi1. destruct (Hnext _ _ Hi1) as (n & Hn & Hg).
        exists (S n). split; [lia|]. cbn [riter]. rewrite StepMove1. exact Hg.
      - pose proof (rstep_inv _ Hi) as Hi1. rewrite StepMove2 in Hi1. destruct (Hnext _ _ Hi1) as (n & Hn & Hg).
        exists (S n). split; [lia|]. cbn [riter]. rewrite StepMove2. exact Hg. }
    destruct ph.
    + destruct (FromRunning w snap Hw3 H0) as (n & Hn & Hg). exists n. split; [lia|exact Hg].
    + pose proof (rstep_inv _ H0) as Hi1. rewrite StepWait in Hi1. destruct (FromRunning w snap Hw3 Hi1) as (n & Hn & Hg).
      exists (S n). split; [lia|]. cbn [riter]. rewrite StepWait. exact Hg.
    + destruct (Hpark eq_refl) as (_ & _ & Es & _). fold g in Es. congruence.
Qed.

Theorem reader_progress cap sched :
  let s := trun tcode (tinit cap) sched in
  s_pending s = None -> has_data s ->
  exists n, (n <= 4 * length (s_segs s) + 2)%nat /\ t_got (s_rd (riter n s)) = t_got (s_rd s) + 1.
Proof.
  cbn zeta. intros Hp Hd. pose proof (trun_inv (tinit cap) sched (tinit_inv cap)) as H.
  destruct (reader_progress_aux _ _ H Hp eq_refl Hd) as (n & Hn & Hg). exists n. split; [|exact Hg].
  pose proof (i_seg _ H). lia.
Qed.

(* The only place where the reader can go round without delivering or parking is the end of a full
   active segment that has not been rolled yet (waitForData returns at once there): everything the log
   holds has been delivered. *)
Theorem spinning_reader_has_read_everything cap sched :
  let s := trun tcode (tinit cap) sched in
  t_waiting (s_rd s) = 2%N -> t_seg (s_rd s) = last_idx (s_segs s) ->
  full (nth_sg (s_segs s) (last_idx (s_segs s))) = true /\
  t_pos (s_rd s) = g_len (nth_sg (s_segs s) (last_idx (s_segs s))).
Proof.
  cbn zeta. intros Hw Hs. pose proof (trun_inv (tinit cap) sched (tinit_inv cap)) as H.
  destruct (i_inner _ H Hw) as [Ep [Hf|Hl]]; rewrite Hs in *; [split; assumption|lia].
Qed.
