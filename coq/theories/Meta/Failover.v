(* Model of partition-leader failover on the controller: server/failover.go (witness set, quorum,
   expiry timer), metadataAPI.ReportLeader / ShrinkISR / ExpandISR (leader and epoch checks),
   electNewPartitionLeader (candidate = ISR minus the current leader) and the FSM apply of
   SHRINK_ISR / EXPAND_ISR / CHANGE_LEADER (epoch = Raft index, idempotency guard).

   Variant switches (pinned commit = false, false):
     clear : the witness set is emptied when a failover is triggered
     elig  : only witnesses that are in-sync followers at that moment are counted *)
From LB Require Import Base.Prelude.

Definition mem (x : N) (l : list N) : bool := existsb (N.eqb x) l.
Definition remove_n (x : N) (l : list N) : list N := filter (fun y => negb (N.eqb y x)) l.
Definition add_n (x : N) (l : list N) : list N := if mem x l then l else l ++ [x].

Record fstate := mkF {
  replicas : list N;
  isr : list N;
  leader : N;
  lepoch : N;          (* leader epoch *)
  pepoch : N;          (* partition epoch *)
  wit : list N;        (* failoverStatus.witnesses; [] also when no status exists *)
  armed : bool;        (* expiry timer running *)
  ridx : N             (* Raft index of the last applied entry *)
}.

Inductive fev :=
| FReport (replica ldr le : N) (i pick : N)   (* i: Raft index a resulting CHANGE_LEADER gets; pick: the load-based choice *)
| FExpire                                      (* timer fires: the failover status is dropped *)
| FShrink (replica ldr le : N) (i : N)
| FExpand (replica ldr le : N) (i : N)
| FLost.                                       (* controller lost metadata leadership: statuses dropped *)

Inductive fres := RStale | RNoCandidates | RError | RElected (l : N) | RNoted | RApplied.

Definition quorum (st : fstate) : nat := (length (isr st) - 1) / 2.

Definition eligible (st : fstate) (w : N) : bool := mem w (isr st) && negb (N.eqb w (leader st)).

Definition counted (elig : bool) (st : fstate) (ws : list N) : nat :=
  length (if elig then filter (eligible st) ws else ws).

Definition candidates (st : fstate) : list N := remove_n (leader st) (isr st).

(* selectPartitionLeader picks the least-loaded candidate; [pick] is that choice as observed *)
Definition choose (st : fstate) (pick : N) : option N :=
  match candidates st with
  | [] => None
  | c0 :: _ => Some (if mem pick (candidates st) then pick else c0)
  end.

Definition set_wit (st : fstate) (w : list N) (a : bool) : fstate :=
  mkF (replicas st) (isr st) (leader st) (lepoch st) (pepoch st) w a (ridx st).

Definition fstep (clear elig : bool) (st : fstate) (ev : fev) : fstate * fres :=
  match ev with
  | FReport r l e i pick =>
    if negb (N.eqb l (leader st) && N.eqb e (lepoch st)) then (st, RStale) else
    let ws := add_n r (wit st) in
    if Nat.ltb (quorum st) (counted elig st ws) then
      (* leaderFailed: stop the timer, run the failover *)
      let ws' := if clear then [] else ws in
      if Nat.leb (length (isr st)) 1 then (set_wit st ws' false, RNoCandidates) else
      match choose st pick with
      | None => (set_wit st ws' false, RNoCandidates)
      | Some c =>
        if (i <=? ridx st)%N then (set_wit st ws' false, RError) else
        (* CHANGE_LEADER applied at Raft index i *)
        if (i <=? pepoch st)%N then (mkF (replicas st) (isr st) (leader st) (lepoch st) (pepoch st) ws' false i, RElected (leader st))
        else (mkF (replicas st) (isr st) c i i ws' false i, RElected c)
      end
    else (set_wit st ws true, RNoted)
  | FExpire => (set_wit st [] false, RNoted)
  | FLost => (set_wit st [] false, RNoted)
  | FShrink r l e i =>
    if negb (N.eqb l (leader st) && N.eqb e (lepoch st)) then (st, RStale) else
    if (i <=? ridx st)%N then (st, RError) else
    if (i <=? pepoch st)%N then (mkF (replicas st) (isr st) (leader st) (lepoch st) (pepoch st) (wit st) (armed st) i, RApplied) else
    if negb (mem r (replicas st)) then (mkF (replicas st) (isr st) (leader st) (lepoch st) (pepoch st) (wit st) (armed st) i, RError) else
    (mkF (replicas st) (remove_n r (isr st)) (leader st) (lepoch st) i (wit st) (armed st) i, RApplied)
  | FExpand r l e i =>
    if negb (N.eqb l (leader st) && N.eqb e (lepoch st)) then (st, RStale) else
    if (i <=? ridx st)%N then (st, RError) else
    if (i <=? pepoch st)%N then (mkF (replicas st) (isr st) (leader st) (lepoch st) (pepoch st) (wit st) (armed st) i, RApplied) else
    if negb (mem r (replicas st)) then (mkF (replicas st) (isr st) (leader st) (lepoch st) (pepoch st) (wit st) (armed st) i, RError) else
    (mkF (replicas st) (add_n r (isr st)) (leader st) (lepoch st) i (wit st) (armed st) i, RApplied)
  end.

Definition frun (clear elig : bool) (st : fstate) (evs : list fev) : fstate :=
  fold_left (fun s ev => fst (fstep clear elig s ev)) evs st.

(* ---- observation check for the generated case files ---- *)
Definition res_code (r : fres) : N :=
  match r with RStale => 0 | RNoCandidates => 1 | RError => 2 | RElected _ => 3 | RNoted => 4 | RApplied => 5 end%N.

Fixpoint nl_eqb (a b : list N) : bool :=
  match a, b with
  | [], [] => true
  | x :: a', y :: b' => N.eqb x y && nl_eqb a' b'
  | _, _ => false
  end.

Fixpoint ins_n (x : N) (l : list N) : list N :=
  match l with [] => [x] | y :: r => if (x <=? y)%N then x :: l else y :: ins_n x r end.
Definition sortn (l : list N) : list N := fold_right ins_n [] l.

Inductive fobs :=
| FEv (ev : fev) (code : N)
| FObs (ldr le pe : N) (isr_sorted : list N).

Fixpoint fcheck (clear elig : bool) (st : fstate) (os : list fobs) (i : nat) : option nat :=
  match os with
  | [] => None
  | FEv ev code :: r => let '(st', res) := fstep clear elig st ev in
                        if N.eqb (res_code res) code then fcheck clear elig st' r (S i) else Some i
  | FObs l le pe s :: r =>
    if N.eqb (leader st) l && N.eqb (lepoch st) le && N.eqb (pepoch st) pe && nl_eqb (sortn (isr st)) s
    then fcheck clear elig st r (S i) else Some i
  end.

Record fcase := { fc_init : fstate; fc_obs : list fobs }.

Fixpoint fcases_mismatches (clear elig : bool) (cs : list fcase) (i : nat) : list (nat * nat) :=
  match cs with
  | [] => []
  | c :: r => match fcheck clear elig (fc_init c) (fc_obs c) 0 with
              | None => fcases_mismatches clear elig r (S i)
              | Some j => (i, j) :: fcases_mismatches clear elig r (S i)
              end
  end.
