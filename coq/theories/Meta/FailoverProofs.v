From LB Require Import Base.Prelude Meta.Failover.
From Coq Require Import ZifyBool ZifyN.

Lemma mem_in x l : mem x l = true <-> In x l.
Proof.
  unfold mem. rewrite existsb_exists. split.
  - intros (y & Hy & E). apply N.eqb_eq in E. subst. exact Hy.
  - intros H. exists x. split; [exact H|apply N.eqb_refl].
Qed.

Lemma in_remove_n x y l : In x (remove_n y l) <-> In x l /\ x <> y.
Proof.
  unfold remove_n. rewrite filter_In. split; intros [H1 H2]; split; try assumption.
  - intros ->. rewrite N.eqb_refl in H2. discriminate.
  - destruct (N.eqb_spec x y); [contradiction|reflexivity].
Qed.

Lemma in_add_n x y l : In x (add_n y l) <-> In x l \/ x = y.
Proof.
  unfold add_n. destruct (mem y l) eqn:E.
  - apply mem_in in E. split; [auto|]. intros [H| ->]; assumption.
  - rewrite in_app_iff. cbn. split; [intros [H|[H|[]]]; auto|intros [H|H]; auto].
Qed.

Lemma choose_in st pick c : choose st pick = Some c -> In c (isr st) /\ c <> leader st.
Proof.
  unfold choose. destruct (mem pick (candidates st)) eqn:Em.
  - destruct (candidates st) as [|c0 r] eqn:E; [discriminate|]. intros [= <-].
    apply in_remove_n. fold (candidates st). rewrite E. apply mem_in. exact Em.
  - destruct (candidates st) as [|c0 r] eqn:E; [discriminate|]. intros [= <-].
    apply in_remove_n. fold (candidates st). rewrite E. left. reflexivity.
Qed.

(* epochs are ordered: leader epoch <= partition epoch <= last Raft index *)
Definition epochs_ok (st : fstate) : Prop := (lepoch st <= pepoch st)%N /\ (pepoch st <= ridx st)%N.

(* leader in ISR, ISR within the replicas *)
Definition membership_ok (st : fstate) : Prop :=
  In (leader st) (isr st) /\ (forall x, In x (isr st) -> In x (replicas st)).

(* requests of the form internal callers issue: the replicator never asks to remove the leader *)
Definition internal_form (st : fstate) (ev : fev) : Prop :=
  match ev with
  | FShrink r _ _ _ => r <> leader st
  | _ => True
  end.

Ltac step_cases st ev :=
  unfold fstep; destruct ev as [r l e i pick| |r l e i|r l e i|];
  repeat match goal with
  | |- context [if ?c then _ else _] => destruct c eqn:?
  | |- context [match choose st ?p with _ => _ end] => destruct (choose st p) eqn:Hch
  end; cbn [fst snd replicas isr leader lepoch pepoch wit armed ridx set_wit].

(* ---- stale requests ---- *)
Theorem stale_refused clear elig st ev :
  match ev with
  | FReport _ l e _ _ | FShrink _ l e _ | FExpand _ l e _ => l <> leader st \/ e <> lepoch st
  | _ => False
  end -> fstep clear elig st ev = (st, RStale).
Proof.
  destruct ev as [r l e i pick| |r l e i|r l e i|]; intros H; try contradiction; cbn [fstep];
    (destruct (N.eqb_spec l (leader st)) as [E1|E1], (N.eqb_spec e (lepoch st)) as [E2|E2]; cbn [andb negb];
     [exfalso; destruct H; congruence|reflexivity|reflexivity|reflexivity]).
Qed.

(* ---- epochs ---- *)
Theorem epochs_monotone clear elig st ev : epochs_ok st ->
  let st' := fst (fstep clear elig st ev) in
  epochs_ok st' /\ (pepoch st <= pepoch st')%N /\ (lepoch st <= lepoch st')%N /\
  (leader st' <> leader st -> (lepoch st < lepoch st')%N) /\
  (lepoch st' = lepoch st -> leader st' = leader st) /\
  ((isr st' <> isr st \/ leader st' <> leader st) -> (pepoch st < pepoch st')%N).
Proof.
  intros [H1 H2]. unfold epochs_ok.
  step_cases st ev; repeat split; try lia; try congruence; try (intros [?|?]; congruence); try (intros ?; lia).
  all: try (intros [Hx|Hx]; [|congruence]; lia).
Qed.

(* ---- candidate selection ---- *)
Theorem elected_from_isr_not_leader clear elig st r l e i pick c :
  snd (fstep clear elig st (FReport r l e i pick)) = RElected c -> leader (fst (fstep clear elig st (FReport r l e i pick))) = c /\
  (c = leader st \/ (In c (isr st) /\ c <> leader st)).
Proof.
  unfold fstep.
  repeat match goal with
  | |- context [if ?c then _ else _] => destruct c eqn:?
  | |- context [match choose st ?p with _ => _ end] => destruct (choose st p) eqn:Hch
  end; cbn [fst snd leader]; intros H; try discriminate; injection H as <-; split; try reflexivity; try (left; reflexivity).
  all: right; apply (choose_in st pick); exact Hch.
Qed.

(* a leader CHANGE is only ever to an in-sync replica other than the reported leader, and
   only when enough eligible witnesses have reported *)
Theorem leader_change_is_safe st ev : 
  let st' := fst (fstep true true st ev) in
  leader st' <> leader st ->
  exists r l e i pick, ev = FReport r l e i pick /\ l = leader st /\ e = lepoch st /\
    In (leader st') (isr st) /\
    quorum st < counted true st (add_n r (wit st)) /\ wit st' = [].
Proof.
  cbv zeta. unfold fstep. destruct ev as [r l e i pick| |r l e i|r l e i|];
  repeat match goal with
  | |- context [if ?c then _ else _] => destruct c eqn:?
  | |- context [match choose st ?p with _ => _ end] => destruct (choose st p) eqn:Hch
  end; cbn [fst snd leader set_wit wit]; intros H; try congruence.
  all: exists r, l, e, i, pick; split; [reflexivity|].
  all: apply negb_false_iff in Heqb; apply andb_true_iff in Heqb; destruct Heqb as [Ha Hb];
       apply N.eqb_eq in Ha; apply N.eqb_eq in Hb.
  all: split; [assumption|]; split; [assumption|]; split; [|split; [apply Nat.ltb_lt; assumption|reflexivity]].
  all: apply (choose_in st pick) in Hch; tauto.
Qed.

(* every counted witness is an in-sync follower *)
Lemma counted_eligible st ws : counted true st ws = length (filter (eligible st) ws).
Proof. reflexivity. Qed.

Lemma eligible_spec st w : eligible st w = true <-> In w (isr st) /\ w <> leader st.
Proof.
  unfold eligible. rewrite andb_true_iff, mem_in, negb_true_iff. split; intros [H1 H2]; split; try assumption.
  - intros ->. rewrite N.eqb_refl in H2. discriminate.
  - destruct (N.eqb_spec w (leader st)); [contradiction|reflexivity].
Qed.

(* the witness set only ever holds replicas that reported the pair (leader, epoch) that is
   still current: it grows only by a report naming the current pair, and it is emptied
   whenever the pair changes *)
Theorem witnesses_track_current_leader st ev :
  let st' := fst (fstep true true st ev) in
  (leader st' = leader st /\ lepoch st' = lepoch st /\
   forall w, In w (wit st') -> In w (wit st) \/
             exists l e i pick, ev = FReport w l e i pick /\ l = leader st /\ e = lepoch st) \/
  wit st' = [].
Proof.
  cbv zeta. unfold fstep. destruct ev as [r l e i pick| |r l e i|r l e i|];
  repeat match goal with
  | |- context [if ?c then _ else _] => destruct c eqn:?
  | |- context [match choose st ?p with _ => _ end] => destruct (choose st p) eqn:Hch
  end; cbn [fst snd leader lepoch set_wit wit]; try (right; reflexivity);
  left; (split; [reflexivity|]); (split; [reflexivity|]); intros w Hw; try (left; exact Hw).
  apply in_add_n in Hw. destruct Hw as [Hw| ->]; [left; exact Hw|]. right.
  apply negb_false_iff in Heqb. apply andb_true_iff in Heqb. destruct Heqb as [Ha Hb].
  apply N.eqb_eq in Ha. apply N.eqb_eq in Hb. exists l, e, i, pick. auto.
Qed.

(* ---- leader in ISR, ISR within replicas ---- *)
Theorem membership_preserved clear elig st ev : membership_ok st -> internal_form st ev ->
  membership_ok (fst (fstep clear elig st ev)).
Proof.
  intros [H1 H2] Hf. unfold membership_ok.
  step_cases st ev; try (split; assumption).
  all: try (apply (choose_in st pick) in Hch; split; [tauto|assumption]).
  - (* shrink *) cbn in Hf. split.
    + apply in_remove_n. split; [assumption|congruence].
    + intros x Hx. apply in_remove_n in Hx. apply H2. tauto.
  - (* expand *) split.
    + apply in_add_n. left. assumption.
    + intros x Hx. apply in_add_n in Hx. destruct Hx as [Hx| ->]; [apply H2; assumption|].
      match goal with H : negb (mem r (replicas st)) = false |- _ => apply negb_false_iff in H; apply mem_in in H; exact H end.
Qed.

(* ---- the pinned code: witnesses survive a failover and need not be replicas ---- *)
Definition f_init : fstate := mkF [1;2;3]%N [1;2;3]%N 1%N 5%N 5%N [] false 5%N.

(* b and c report a (epoch 5): b is elected at index 6. Then ONE report against (b, 6), by an
   id that is not even a replica, elects again. *)
Theorem pinned_code_refuted :
  let st := frun false false f_init [FReport 2 1 5 6 2; FReport 3 1 5 6 2]%N in
  leader st = 2%N /\ lepoch st = 6%N /\
  snd (fstep false false st (FReport 9 2 6 7 3)%N) = RElected 3%N /\
  counted true st (add_n 9%N []) = 0.
Proof. vm_compute. repeat split. Qed.

(* with both switches on the same history does not re-elect *)
Example fixed_code_holds :
  let st := frun true true f_init [FReport 2 1 5 6 2; FReport 3 1 5 6 2]%N in
  leader st = 2%N /\ snd (fstep true true st (FReport 9 2 6 7 3)%N) = RNoted /\
  snd (fstep true true st (FReport 3 2 6 7 3)%N) = RNoted.
Proof. vm_compute. repeat split. Qed.
