(* Model of the metadata state machine (server/fsm.go, metadata.go, stream.go, the metadata part
   of partition.go, groups.go through Meta.Groups): what Server.apply does to the cluster
   metadata for every Raft operation, live and during replay, Snapshot/Restore and
   finishedRecovery; plus the data directories under <data>/streams.

   Variant switches (true = the repaired code, false = the pinned commit):
     v_pause  : resuming a partition also clears the Paused flag of its protobuf (what a
                snapshot carries); the pinned code left it set for ever
     v_ro     : a partition created from a protobuf whose Readonly flag is set gets a read-only
                log (snapshot restore, resume); the pinned code lost the flag
     v_notify : a stream delete applied during replay tells the consumer groups at once, with the
                operation's own index as epoch; the pinned code told them only when the
                tombstoned stream was purged or re-created, with that later index *)
From LB Require Import Base.Prelude Meta.Groups.
Open Scope Z_scope.

Definition bid := N.     (* broker id *)
Definition gid := N.     (* consumer group id *)

Record variant := mkVariant { v_pause : bool; v_ro : bool; v_notify : bool }.
Definition fixed : variant := mkVariant true true true.
Definition pinned : variant := mkVariant false false false.

Record part := mkPart {
  p_replicas : list bid;
  p_isr : list bid;          (* kept sorted, without duplicates *)
  p_leader : bid;
  p_lepoch : N;
  p_epoch : N;
  p_paused : bool;           (* partition.paused: is the partition stopped *)
  p_pausedp : bool;          (* proto.Partition.Paused: what a snapshot records *)
  p_ro : bool;               (* the commit log's read-only flag *)
  p_rop : bool               (* proto.Partition.Readonly *)
}.

Record strm := mkStrm { st_parts : list part; st_tomb : bool; st_resume_all : bool }.
Record grp := mkGrp { gr_coord : bid; gr_g : group }.

Record meta := mkMeta {
  mt_streams : list (sid * strm);
  mt_groups : list (gid * grp);
  mt_disk : list (sid * N);        (* data directory of a stream name: index of the create whose data it holds, 0 = empty *)
  mt_activity : N
}.

Definition empty_meta : meta := mkMeta [] [] [] 0.

(* ---- association lists ---- *)
Fixpoint alookup {A} (k : N) (l : list (N * A)) : option A :=
  match l with
  | [] => None
  | (k', v) :: r => if N.eqb k' k then Some v else alookup k r
  end.

Fixpoint aremove {A} (k : N) (l : list (N * A)) : list (N * A) :=
  match l with
  | [] => []
  | (k', v) :: r => if N.eqb k' k then aremove k r else (k', v) :: aremove k r
  end.

Definition aset {A} (k : N) (v : A) (l : list (N * A)) : list (N * A) := (k, v) :: aremove k l.

(* ---- partitions ---- *)
Definition set_insert (x : N) (l : list N) : list N := if mem_n x l then l else insert_sorted x l.
Definition set_remove (x : N) (l : list N) : list N := filter (fun y => negb (N.eqb y x)) l.

Fixpoint nth_part (ps : list part) (i : nat) : option part :=
  match ps, i with
  | p :: _, O => Some p
  | _ :: r, S j => nth_part r j
  | [], _ => None
  end.

Fixpoint set_part (ps : list part) (i : nat) (p : part) : list part :=
  match ps, i with
  | _ :: r, O => p :: r
  | q :: r, S j => q :: set_part r j p
  | [], _ => []
  end.

Definition part_ids (ps : list part) : list Z := map Z.of_nat (seq 0 (length ps)).
Definition valid_pid (ps : list part) (i : Z) : bool := (0 <=? i) && (i <? Z.of_nat (length ps)).

(* partitions named by an operation: the empty list means all of them *)
Definition targets (ps : list part) (ids : list Z) : list Z :=
  match ids with [] => part_ids ps | _ => ids end.

Definition map_parts (f : part -> part) (ids : list Z) (ps : list part) : list part :=
  fold_left (fun acc i => match nth_part acc (Z.to_nat i) with
                          | Some p => set_part acc (Z.to_nat i) (f p)
                          | None => acc
                          end) ids ps.

(* a fresh partition i of a stream with the given replicas: leader chosen by the proposer *)
Definition new_part (replicas : list bid) (leader : bid) (idx : N) : part :=
  mkPart replicas (sort_n (dedup replicas)) leader idx idx false false false false.

Fixpoint nth_n (l : list N) (i : nat) (d : N) : N :=
  match l, i with
  | x :: _, O => x
  | _ :: r, S j => nth_n r j d
  | [], _ => d
  end.

Definition new_parts (n : nat) (replicas : list bid) (idx : N) : list part :=
  map (fun i => new_part replicas (nth_n replicas (Nat.modulo i (length replicas)) 0%N) idx) (seq 0 n).

(* ---- consumer groups ---- *)
Definition nparts_of (m : meta) (s : sid) : Z :=
  match alookup s (mt_streams m) with
  | Some st => Z.of_nat (length (st_parts st))
  | None => 0
  end.

(* every group hears that stream s is gone (epoch-guarded, as StreamDeleted is) *)
Definition notify_deleted (np : sid -> Z) (s : sid) (e : N) (gs : list (gid * grp)) : list (gid * grp) :=
  map (fun kv => let '(k, g) := kv in
                 match stream_deleted np (gr_g g) s e with
                 | GOk g' => (k, mkGrp (gr_coord g) g')
                 | _ => (k, g)
                 end) gs.

(* ---- operations ---- *)
Inductive fop :=
| FCreate (s : sid) (n : nat) (replicas : list bid)
| FDelete (s : sid)
| FPause (s : sid) (ps : list Z) (resume_all : bool)
| FResume (s : sid) (ps : list Z)
| FReadonly (s : sid) (ps : list Z) (ro : bool)
| FShrink (s : sid) (p : Z) (r : bid)
| FExpand (s : sid) (p : Z) (r : bid)
| FLeader (s : sid) (p : Z) (l : bid)
| FGCreate (g : gid) (coord : bid) (c : cid) (ss : list sid)
| FJoin (g : gid) (c : cid) (ss : list sid)
| FLeave (g : gid) (c : cid)
| FCoord (g : gid) (coord : bid)
| FActivity (i : N).

Section Apply.
  Variable v : variant.

  Definition pause_part (p : part) : part :=
    mkPart (p_replicas p) (p_isr p) (p_leader p) (p_lepoch p) (p_epoch p) true true (p_ro p) (p_rop p).

  (* ResumePartition: nothing when not paused; else the partition object is replaced (new log) *)
  Definition resume_part (p : part) : part :=
    if p_paused p
    then mkPart (p_replicas p) (p_isr p) (p_leader p) (p_lepoch p) (p_epoch p) false
                (if v_pause v then false else p_pausedp p)
                (if v_ro v then p_rop p else false) (p_rop p)
    else p.

  Definition readonly_part (ro : bool) (p : part) : part :=
    mkPart (p_replicas p) (p_isr p) (p_leader p) (p_lepoch p) (p_epoch p) (p_paused p) (p_pausedp p) ro ro.

  (* a partition rebuilt from its protobuf (snapshot restore) *)
  Definition restore_part (p : part) : part :=
    mkPart (p_replicas p) (p_isr p) (p_leader p) (p_lepoch p) (p_epoch p) (p_pausedp p) (p_pausedp p)
           (if v_ro v then p_rop p else false) (p_rop p).

  Definition with_part (m : meta) (s : sid) (p : Z) (f : part -> option part) : option meta :=
    match alookup s (mt_streams m) with
    | None => None
    | Some st =>
      if valid_pid (st_parts st) p then
        match nth_part (st_parts st) (Z.to_nat p) with
        | None => None
        | Some q => match f q with
                    | None => None
                    | Some q' => Some (mkMeta (aset s (mkStrm (set_part (st_parts st) (Z.to_nat p) q') (st_tomb st) (st_resume_all st)) (mt_streams m))
                                             (mt_groups m) (mt_disk m) (mt_activity m))
                    end
        end
      else None
    end.

  Definition with_stream (m : meta) (s : sid) (f : strm -> option strm) : option meta :=
    match alookup s (mt_streams m) with
    | None => None
    | Some st => match f st with
                 | None => None
                 | Some st' => Some (mkMeta (aset s st' (mt_streams m)) (mt_groups m) (mt_disk m) (mt_activity m))
                 end
    end.

  (* removeStream: out of the map, groups told (the goroutine of the real code is taken to have run) *)
  Definition remove_stream (m : meta) (s : sid) (e : N) : meta :=
    let streams := aremove s (mt_streams m) in
    let m1 := mkMeta streams (mt_groups m) (mt_disk m) (mt_activity m) in
    mkMeta streams (notify_deleted (nparts_of m1) s e (mt_groups m)) (mt_disk m) (mt_activity m).

  (* deleteStream: data directory removed as well *)
  Definition delete_stream (m : meta) (s : sid) (e : N) : meta :=
    let m1 := remove_stream m s e in
    mkMeta (mt_streams m1) (mt_groups m1) (aremove s (mt_disk m1)) (mt_activity m1).

  Definition add_stream (m : meta) (s : sid) (ps : list part) (idx : N) : meta :=
    mkMeta (aset s (mkStrm ps false false) (mt_streams m)) (mt_groups m)
           (match alookup s (mt_disk m) with
            | Some 0%N | None => aset s idx (mt_disk m)     (* no directory, or an empty one: this create's data *)
            | Some _ => mt_disk m                           (* existing data is opened, not replaced *)
            end)
           (mt_activity m).

  (* Server.apply: None = the operation fails (the server panics) *)
  Definition apply (recovered : bool) (idx : N) (m : meta) (o : fop) : option meta :=
    match o with
    | FCreate s n replicas =>
      match n, replicas with
      | O, _ | _, [] => None
      | _, _ =>
        match alookup s (mt_streams m) with
        | None => Some (add_stream m s (new_parts n replicas idx) idx)
        | Some st =>
          if recovered && st_tomb st
          then Some (add_stream (remove_stream m s idx) s (new_parts n replicas idx) idx)   (* un-tombstone: data kept *)
          else None
        end
      end
    | FDelete s =>
      match alookup s (mt_streams m) with
      | None => None
      | Some st =>
        if recovered
        then let m1 := mkMeta (aset s (mkStrm (st_parts st) true (st_resume_all st)) (mt_streams m)) (mt_groups m) (mt_disk m) (mt_activity m) in
             Some (if v_notify v
                   then mkMeta (mt_streams m1) (notify_deleted (nparts_of m1) s idx (mt_groups m1)) (mt_disk m1) (mt_activity m1)
                   else m1)
        else Some (delete_stream m s idx)
      end
    | FPause s ps all =>
      with_stream m s (fun st =>
        if forallb (valid_pid (st_parts st)) ps
        then Some (mkStrm (map_parts pause_part (targets (st_parts st) ps) (st_parts st)) (st_tomb st) all)
        else None)
    | FResume s ps =>
      with_stream m s (fun st =>
        if forallb (valid_pid (st_parts st)) ps
        then Some (mkStrm (map_parts resume_part ps (st_parts st)) (st_tomb st) (st_resume_all st))
        else None)
    | FReadonly s ps ro =>
      with_stream m s (fun st =>
        if forallb (valid_pid (st_parts st)) ps
        then Some (mkStrm (map_parts (readonly_part ro) (targets (st_parts st) ps) (st_parts st)) (st_tomb st) (st_resume_all st))
        else None)
    | FShrink s p r =>
      with_part m s p (fun q =>
        if (idx <=? p_epoch q)%N then Some q
        else if mem_n r (p_replicas q)
        then Some (mkPart (p_replicas q) (set_remove r (p_isr q)) (p_leader q) (p_lepoch q) idx (p_paused q) (p_pausedp q) (p_ro q) (p_rop q))
        else None)
    | FExpand s p r =>
      with_part m s p (fun q =>
        if (idx <=? p_epoch q)%N then Some q
        else if mem_n r (p_replicas q)
        then Some (mkPart (p_replicas q) (set_insert r (p_isr q)) (p_leader q) (p_lepoch q) idx (p_paused q) (p_pausedp q) (p_ro q) (p_rop q))
        else None)
    | FLeader s p l =>
      with_part m s p (fun q =>
        if (idx <=? p_epoch q)%N then Some q
        else if (idx <? p_lepoch q)%N then None
        else Some (mkPart (p_replicas q) (p_isr q) l idx idx (p_paused q) (p_pausedp q) (p_ro q) (p_rop q)))
    | FGCreate g coord c ss =>
      match alookup g (mt_groups m) with
      | Some _ => None
      | None =>
        match add_member (nparts_of m) new_group c ss 0%N with
        | GOk g' => Some (mkMeta (mt_streams m) (aset g (mkGrp coord g') (mt_groups m)) (mt_disk m) (mt_activity m))
        | _ => None
        end
      end
    | FJoin g c ss =>
      match alookup g (mt_groups m) with
      | None => None
      | Some gr =>
        match add_member (nparts_of m) (gr_g gr) c ss idx with
        | GOk g' => Some (mkMeta (mt_streams m) (aset g (mkGrp (gr_coord gr) g') (mt_groups m)) (mt_disk m) (mt_activity m))
        | _ => None
        end
      end
    | FLeave g c =>
      match alookup g (mt_groups m) with
      | None => None
      | Some gr =>
        match remove_member (nparts_of m) (gr_g gr) c idx with
        | GOk g' =>
          Some (mkMeta (mt_streams m)
                       (match g_members g' with [] => aremove g (mt_groups m) | _ => aset g (mkGrp (gr_coord gr) g') (mt_groups m) end)
                       (mt_disk m) (mt_activity m))
        | _ => None
        end
      end
    | FCoord g coord =>
      match alookup g (mt_groups m) with
      | None => None
      | Some gr =>
        if (idx <=? g_epoch (gr_g gr))%N then Some m
        else Some (mkMeta (mt_streams m)
                          (aset g (mkGrp coord (mkGroup (g_members (gr_g gr)) (g_owners (gr_g gr)) (g_keys (gr_g gr)) idx)) (mt_groups m))
                          (mt_disk m) (mt_activity m))
      end
    | FActivity i => Some (mkMeta (mt_streams m) (mt_groups m) (mt_disk m) i)
    end.

  (* finishedRecovery(epoch): tombstoned streams are deleted for good *)
  Definition finish (e : N) (m : meta) : meta :=
    fold_left (fun acc kv => if st_tomb (snd kv) then delete_stream acc (fst kv) e else acc) (mt_streams m) m.

  (* Snapshot: what the protobufs carry.  Restore: drop the state, re-create from the protobufs
     (streams as recovered creates, groups with their members re-added in the snapshot's order) *)
  Record snap_group := mkSnapGroup { sg_coord : bid; sg_epoch : N; sg_members : list member }.
  Record snapshot := mkSnap { sn_streams : list (sid * list part); sn_groups : list (gid * snap_group) }.

  Definition take_snapshot (m : meta) : snapshot :=
    mkSnap (map (fun kv => (fst kv, st_parts (snd kv))) (mt_streams m))
           (map (fun kv => (fst kv, mkSnapGroup (gr_coord (snd kv)) (g_epoch (gr_g (snd kv))) (g_members (gr_g (snd kv))))) (mt_groups m)).

  Definition restore_group (np : sid -> Z) (sg : snap_group) : grp :=
    let g := fold_left (fun g mb => match add_member np g (m_id mb) (Groups.m_streams mb) 0%N with GOk g' => g' | _ => g end)
                       (sg_members sg) new_group in
    mkGrp (sg_coord sg) (mkGroup (g_members g) (g_owners g) (g_keys g) (sg_epoch sg)).

  Definition restore (disk : list (sid * N)) (activity : N) (sn : snapshot) : meta :=
    let streams := map (fun kv => (fst kv, mkStrm (map restore_part (snd kv)) false false)) (sn_streams sn) in
    let disk' := fold_left (fun d kv => match alookup (fst kv) d with Some _ => d | None => aset (fst kv) 0%N d end) (sn_streams sn) disk in
    let m0 := mkMeta streams [] disk' activity in
    mkMeta streams (map (fun kv => (fst kv, restore_group (nparts_of m0) (snd kv))) (sn_groups sn)) disk' activity.

  (* a run of operations numbered from idx *)
  Fixpoint run (recovered : bool) (idx : N) (m : meta) (ops : list fop) : option meta :=
    match ops with
    | [] => Some m
    | o :: r => match apply recovered idx m o with
                | Some m' => run recovered (idx + 1) m' r
                | None => None
                end
    end.
End Apply.
