(* Model of the metadata state machine (server/fsm.go, metadata.go, stream.go, the metadata part
   of partition.go, groups.go through Meta.Groups): what Server.apply does to the cluster
   metadata for every Raft operation, live and during replay, Snapshot/Restore and
   finishedRecovery; plus the data directories under <data>/streams.

   Variant switches (true = the repaired code, false = the pinned commit):
     v_pause  : resuming a partition also clears the Paused flag of its protobuf (what a
                snapshot carries); the pinned code left it set for ever
     v_ro     : a partition created from a protobuf whose Readonly flag is set gets a read-only
                log (snapshot restore, resume); the pinned code lost the flag
     v_notify : a stream delete applied during replay tells the consumer groups at once, with the
                operation's own index as epoch; the pinned code told them only when the
                tombstoned stream was purged or re-created, with that later index *)
From LB Require Import Base.Prelude Meta.Groups.
Open Scope Z_scope.

Definition bid := N.     (* broker id *)
Definition gid := N.     (* consumer group id *)

Record variant := mkVariant { v_pause : bool; v_ro : bool; v_notify : bool }.
Definition fixed : variant := mkVariant true true true.
Definition pinned : variant := mkVariant false false false.

Record part := mkPart {
  p_replicas : list bid;
  p_isr : list bid;          (* kept sorted, without duplicates *)
  p_leader : bid;
  p_lepoch : N;
  p_epoch : N;
  p_paused : bool;           (* partition.paused: is the partition stopped *)
  p_pausedp : bool;          (* proto.Partition.Paused: what a snapshot records *)
  p_ro : bool;               (* the commit log's read-only flag *)
  p_rop : bool               (* proto.Partition.Readonly *)
}.

Record strm := mkStrm { st_parts : list part; st_tomb : bool }.
Record grp := mkGrp { gr_coord : bid; gr_g : group }.

(* the replicated metadata proper *)
Record core := mkCore { c_streams : list (sid * strm); c_groups : list (gid * grp) }.

Record meta := mkMeta {
  mt_core : core;
  mt_disk : list (sid * N);       (* data directory of a stream name: index of the create whose data it holds, 0 = empty *)
  mt_activity : N
}.
Definition mt_streams (m : meta) := c_streams (mt_core m).
Definition mt_groups (m : meta) := c_groups (mt_core m).

Definition empty_core : core := mkCore [] [].
Definition empty_meta : meta := mkMeta empty_core [] 0.

(* ---- association lists ---- *)
Fixpoint alookup {A} (k : N) (l : list (N * A)) : option A :=
  match l with
  | [] => None
  | (k', v) :: r => if N.eqb k' k then Some v else alookup k r
  end.

Fixpoint aremove {A} (k : N) (l : list (N * A)) : list (N * A) :=
  match l with
  | [] => []
  | (k', v) :: r => if N.eqb k' k then aremove k r else (k', v) :: aremove k r
  end.

Definition aset {A} (k : N) (v : A) (l : list (N * A)) : list (N * A) := (k, v) :: aremove k l.

(* ---- partitions ---- *)
Definition set_insert (x : N) (l : list N) : list N := if mem_n x l then l else insert_sorted x l.
Definition set_remove (x : N) (l : list N) : list N := filter (fun y => negb (N.eqb y x)) l.

Fixpoint nth_part (ps : list part) (i : nat) : option part :=
  match ps, i with
  | p :: _, O => Some p
  | _ :: r, S j => nth_part r j
  | [], _ => None
  end.

Fixpoint set_part (ps : list part) (i : nat) (p : part) : list part :=
  match ps, i with
  | _ :: r, O => p :: r
  | q :: r, S j => q :: set_part r j p
  | [], _ => []
  end.

Definition part_ids (ps : list part) : list Z := map Z.of_nat (seq 0 (length ps)).
Definition valid_pid (ps : list part) (i : Z) : bool := (0 <=? i) && (i <? Z.of_nat (length ps)).

(* partitions named by an operation: the empty list means all of them *)
Definition targets (ps : list part) (ids : list Z) : list Z :=
  match ids with [] => part_ids ps | _ => ids end.

Definition map_parts (f : part -> part) (ids : list Z) (ps : list part) : list part :=
  fold_left (fun acc i => match nth_part acc (Z.to_nat i) with
                          | Some p => set_part acc (Z.to_nat i) (f p)
                          | None => acc
                          end) ids ps.

Definition new_part (replicas : list bid) (leader : bid) (idx : N) : part :=
  mkPart replicas (sort_n (dedup replicas)) leader idx idx false false false false.

Fixpoint nth_n (l : list N) (i : nat) (d : N) : N :=
  match l, i with
  | x :: _, O => x
  | _ :: r, S j => nth_n r j d
  | [], _ => d
  end.

(* the proposer spreads the leaders over the replicas *)
Definition new_parts (n : nat) (replicas : list bid) (idx : N) : list part :=
  map (fun i => new_part replicas (nth_n replicas (Nat.modulo i (length replicas)) 0%N) idx) (seq 0 n).

(* ---- consumer groups ---- *)
Definition nparts_of (streams : list (sid * strm)) (s : sid) : Z :=
  match alookup s streams with
  | Some st => Z.of_nat (length (st_parts st))
  | None => 0
  end.

(* every group hears that stream s is gone (epoch-guarded, as StreamDeleted is) *)
Definition notify_group (np : sid -> Z) (s : sid) (e : N) (g : grp) : grp :=
  match stream_deleted np (gr_g g) s e with
  | GOk g' => mkGrp (gr_coord g) g'
  | _ => g
  end.
Definition notify_deleted (np : sid -> Z) (s : sid) (e : N) (gs : list (gid * grp)) : list (gid * grp) :=
  map (fun kv => (fst kv, notify_group np s e (snd kv))) gs.

(* ---- operations ---- *)
Inductive fop :=
| FCreate (s : sid) (n : nat) (replicas : list bid)
| FDelete (s : sid)
| FPause (s : sid) (ps : list Z) (resume_all : bool)
| FResume (s : sid) (ps : list Z)
| FReadonly (s : sid) (ps : list Z) (ro : bool)
| FShrink (s : sid) (p : Z) (r : bid)
| FExpand (s : sid) (p : Z) (r : bid)
| FLeader (s : sid) (p : Z) (l : bid)
| FGCreate (g : gid) (coord : bid) (c : cid) (ss : list sid)
| FJoin (g : gid) (c : cid) (ss : list sid)
| FLeave (g : gid) (c : cid)
| FCoord (g : gid) (coord : bid)
| FActivity (i : N).

(* What the metadata leader checks before it proposes an operation (metadata.go check*Preconditions),
   plus: ISR changes name a replica of the partition (they come from the partition leader's
   replica table; a foreign id makes apply fail and the server panic, by design). *)
Definition stream_exists (c : core) (s : sid) : bool :=
  match alookup s (c_streams c) with Some _ => true | None => false end.

Definition part_of (c : core) (s : sid) (p : Z) : option part :=
  match alookup s (c_streams c) with
  | Some st => if valid_pid (st_parts st) p then nth_part (st_parts st) (Z.to_nat p) else None
  | None => None
  end.

Definition pre (c : core) (o : fop) : bool :=
  match o with
  | FCreate s n replicas => negb (stream_exists c s) && negb (Nat.eqb n 0) && negb (match replicas with [] => true | _ => false end)
  | FDelete s => stream_exists c s
  | FPause s ps _ | FResume s ps | FReadonly s ps _ =>
    match alookup s (c_streams c) with Some st => forallb (valid_pid (st_parts st)) ps | None => false end
  | FShrink s p r | FExpand s p r =>
    match part_of c s p with Some q => mem_n r (p_replicas q) | None => false end
  | FLeader s p _ => match part_of c s p with Some _ => true | None => false end
  | FGCreate g _ _ ss =>
    match alookup g (c_groups c) with Some _ => false | None => forallb (stream_exists c) ss end
  | FJoin g cns ss =>
    match alookup g (c_groups c) with
    | Some gr => negb (existsb (fun m => N.eqb (m_id m) cns) (g_members (gr_g gr))) && forallb (stream_exists c) ss
    | None => false
    end
  | FLeave g cns =>
    match alookup g (c_groups c) with
    | Some gr => existsb (fun m => N.eqb (m_id m) cns) (g_members (gr_g gr))
    | None => false
    end
  | FCoord g _ => match alookup g (c_groups c) with Some _ => true | None => false end
  | FActivity _ => true
  end.

Section Apply.
  Variable v : variant.

  Definition pause_part (p : part) : part :=
    mkPart (p_replicas p) (p_isr p) (p_leader p) (p_lepoch p) (p_epoch p) true true (p_ro p) (p_rop p).

  (* ResumePartition: nothing when not paused; else the partition object is replaced (new log) *)
  Definition resume_part (p : part) : part :=
    if p_paused p
    then mkPart (p_replicas p) (p_isr p) (p_leader p) (p_lepoch p) (p_epoch p) false
                (if v_pause v then false else p_pausedp p)
                (if v_ro v then p_rop p else false) (p_rop p)
    else p.

  Definition readonly_part (ro : bool) (p : part) : part :=
    mkPart (p_replicas p) (p_isr p) (p_leader p) (p_lepoch p) (p_epoch p) (p_paused p) (p_pausedp p) ro ro.

  (* a partition rebuilt from its protobuf (snapshot restore) *)
  Definition restore_part (p : part) : part :=
    mkPart (p_replicas p) (p_isr p) (p_leader p) (p_lepoch p) (p_epoch p) (p_pausedp p) (p_pausedp p)
           (if v_ro v then p_rop p else false) (p_rop p).

  Definition with_stream (c : core) (s : sid) (f : strm -> option strm) : option core :=
    match alookup s (c_streams c) with
    | None => None
    | Some st => match f st with
                 | None => None
                 | Some st' => Some (mkCore (aset s st' (c_streams c)) (c_groups c))
                 end
    end.

  Definition with_part (c : core) (s : sid) (p : Z) (f : part -> option part) : option core :=
    with_stream c s (fun st =>
      if valid_pid (st_parts st) p then
        match nth_part (st_parts st) (Z.to_nat p) with
        | None => None
        | Some q => match f q with
                    | None => None
                    | Some q' => Some (mkStrm (set_part (st_parts st) (Z.to_nat p) q') (st_tomb st))
                    end
        end
      else None).

  (* removeStream: out of the map, groups told (the goroutine of the real code is taken to have run) *)
  Definition remove_stream (c : core) (s : sid) (e : N) : core :=
    let streams := aremove s (c_streams c) in
    mkCore streams (notify_deleted (nparts_of streams) s e (c_groups c)).

  Definition add_stream (c : core) (s : sid) (ps : list part) : core :=
    mkCore (aset s (mkStrm ps false) (c_streams c)) (c_groups c).

  Definition set_group (c : core) (g : gid) (gr : grp) : core := mkCore (c_streams c) (aset g gr (c_groups c)).

  (* Server.apply on the metadata: None = the operation fails (the server panics) *)
  Definition apply_core (recovered : bool) (idx : N) (c : core) (o : fop) : option core :=
    match o with
    | FCreate s n replicas =>
      match n, replicas with
      | O, _ | _, [] => None
      | _, _ =>
        match alookup s (c_streams c) with
        | None => Some (add_stream c s (new_parts n replicas idx))
        | Some st =>
          if recovered && st_tomb st
          then Some (add_stream (remove_stream c s idx) s (new_parts n replicas idx))   (* un-tombstone *)
          else None
        end
      end
    | FDelete s =>
      match alookup s (c_streams c) with
      | None => None
      | Some st =>
        if recovered
        then let streams := aset s (mkStrm (st_parts st) true) (c_streams c) in
             Some (mkCore streams (if v_notify v then notify_deleted (nparts_of streams) s idx (c_groups c) else c_groups c))
        else Some (remove_stream c s idx)
      end
    | FPause s ps _ =>
      with_stream c s (fun st =>
        if forallb (valid_pid (st_parts st)) ps
        then Some (mkStrm (map_parts pause_part (targets (st_parts st) ps) (st_parts st)) (st_tomb st))
        else None)
    | FResume s ps =>
      with_stream c s (fun st =>
        if forallb (valid_pid (st_parts st)) ps
        then Some (mkStrm (map_parts resume_part ps (st_parts st)) (st_tomb st))
        else None)
    | FReadonly s ps ro =>
      with_stream c s (fun st =>
        if forallb (valid_pid (st_parts st)) ps
        then Some (mkStrm (map_parts (readonly_part ro) (targets (st_parts st) ps) (st_parts st)) (st_tomb st))
        else None)
    | FShrink s p r =>
      with_part c s p (fun q =>
        if (idx <=? p_epoch q)%N then Some q
        else if mem_n r (p_replicas q)
        then Some (mkPart (p_replicas q) (set_remove r (p_isr q)) (p_leader q) (p_lepoch q) idx (p_paused q) (p_pausedp q) (p_ro q) (p_rop q))
        else None)
    | FExpand s p r =>
      with_part c s p (fun q =>
        if (idx <=? p_epoch q)%N then Some q
        else if mem_n r (p_replicas q)
        then Some (mkPart (p_replicas q) (set_insert r (p_isr q)) (p_leader q) (p_lepoch q) idx (p_paused q) (p_pausedp q) (p_ro q) (p_rop q))
        else None)
    | FLeader s p l =>
      with_part c s p (fun q =>
        if (idx <=? p_epoch q)%N then Some q
        else if (idx <? p_lepoch q)%N then None
        else Some (mkPart (p_replicas q) (p_isr q) l idx idx (p_paused q) (p_pausedp q) (p_ro q) (p_rop q)))
    | FGCreate g coord cns ss =>
      match alookup g (c_groups c) with
      | Some _ => None
      | None =>
        match add_member (nparts_of (c_streams c)) new_group cns ss 0%N with
        | GOk g' => Some (set_group c g (mkGrp coord g'))
        | _ => None
        end
      end
    | FJoin g cns ss =>
      match alookup g (c_groups c) with
      | None => None
      | Some gr =>
        match add_member (nparts_of (c_streams c)) (gr_g gr) cns ss idx with
        | GOk g' => Some (set_group c g (mkGrp (gr_coord gr) g'))
        | _ => None
        end
      end
    | FLeave g cns =>
      match alookup g (c_groups c) with
      | None => None
      | Some gr =>
        match remove_member (nparts_of (c_streams c)) (gr_g gr) cns idx with
        | GOk g' =>
          Some (match g_members g' with
                | [] => mkCore (c_streams c) (aremove g (c_groups c))
                | _ => set_group c g (mkGrp (gr_coord gr) g')
                end)
        | _ => None
        end
      end
    | FCoord g coord =>
      match alookup g (c_groups c) with
      | None => None
      | Some gr =>
        if (idx <=? g_epoch (gr_g gr))%N then Some c
        else Some (set_group c g (mkGrp coord (mkGroup (g_members (gr_g gr)) (g_owners (gr_g gr)) idx)))
      end
    | FActivity _ => Some c
    end.

  (* the data directories: a create opens what is there or makes a new one; a live delete removes
     the directory, a replayed one leaves it *)
  Definition apply_disk (recovered : bool) (idx : N) (d : list (sid * N)) (o : fop) : list (sid * N) :=
    match o with
    | FCreate s _ _ =>
      match alookup s d with
      | Some 0%N | None => aset s idx d     (* no directory, or an empty one: this create's data *)
      | Some _ => d                         (* existing data is opened, not replaced *)
      end
    | FDelete s => if recovered then d else aremove s d
    | _ => d
    end.

  Definition apply (recovered : bool) (idx : N) (m : meta) (o : fop) : option meta :=
    match apply_core recovered idx (mt_core m) o with
    | Some c' => Some (mkMeta c' (apply_disk recovered idx (mt_disk m) o)
                              (match o with FActivity i => i | _ => mt_activity m end))
    | None => None
    end.

  (* finishedRecovery(epoch): tombstoned streams are deleted for good *)
  Definition finish_core (e : N) (c : core) : core :=
    fold_left (fun acc kv => if st_tomb (snd kv) then remove_stream acc (fst kv) e else acc) (c_streams c) c.
  Definition finish_disk (c : core) (d : list (sid * N)) : list (sid * N) :=
    fold_left (fun acc kv => if st_tomb (snd kv) then aremove (fst kv) acc else acc) (c_streams c) d.
  Definition finish (e : N) (m : meta) : meta :=
    mkMeta (finish_core e (mt_core m)) (finish_disk (mt_core m) (mt_disk m)) (mt_activity m).

  (* Snapshot: what the protobufs carry.  Restore: drop the state, re-create from the protobufs
     (streams as recovered creates, groups with their members re-added in the snapshot's order) *)
  Record snap_group := mkSnapGroup { sg_coord : bid; sg_epoch : N; sg_members : list member }.
  Record snapshot := mkSnap { sn_streams : list (sid * list part); sn_groups : list (gid * snap_group) }.

  Definition take_snapshot (c : core) : snapshot :=
    mkSnap (map (fun kv => (fst kv, st_parts (snd kv))) (c_streams c))
           (map (fun kv => (fst kv, mkSnapGroup (gr_coord (snd kv)) (g_epoch (gr_g (snd kv))) (g_members (gr_g (snd kv))))) (c_groups c)).

  Definition restore_group (np : sid -> Z) (sg : snap_group) : grp :=
    let g := fold_left (fun g mb => match add_member np g (m_id mb) (Groups.m_streams mb) 0%N with GOk g' => g' | _ => g end)
                       (sg_members sg) new_group in
    mkGrp (sg_coord sg) (mkGroup (g_members g) (g_owners g) (sg_epoch sg)).

  Definition restore_core (sn : snapshot) : core :=
    let streams := map (fun kv => (fst kv, mkStrm (map restore_part (snd kv)) false)) (sn_streams sn) in
    mkCore streams (map (fun kv => (fst kv, restore_group (nparts_of streams) (snd kv))) (sn_groups sn)).

  Definition restore_disk (sn : snapshot) (d : list (sid * N)) : list (sid * N) :=
    fold_left (fun d kv => match alookup (fst kv) d with Some _ => d | None => aset (fst kv) 0%N d end) (sn_streams sn) d.

  Definition restore (disk : list (sid * N)) (activity : N) (sn : snapshot) : meta :=
    mkMeta (restore_core sn) (restore_disk sn disk) activity.

  (* runs of operations numbered from idx *)
  Fixpoint run_core (recovered : bool) (idx : N) (c : core) (ops : list fop) : option core :=
    match ops with
    | [] => Some c
    | o :: r => match apply_core recovered idx c o with
                | Some c' => run_core recovered (idx + 1) c' r
                | None => None
                end
    end.

  Fixpoint run (recovered : bool) (idx : N) (m : meta) (ops : list fop) : option meta :=
    match ops with
    | [] => Some m
    | o :: r => match apply recovered idx m o with
                | Some m' => run recovered (idx + 1) m' r
                | None => None
                end
    end.

  (* a live run in which every operation passes the leader's precondition check *)
  Fixpoint valid_run (idx : N) (c : core) (ops : list fop) : bool :=
    match ops with
    | [] => true
    | o :: r => pre c o && match apply_core false idx c o with
                           | Some c' => valid_run (idx + 1) c' r
                           | None => false
                           end
    end.
End Apply.
