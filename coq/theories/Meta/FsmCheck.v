(* Correspondence checker for C06: observed histories of the metadata FSM (live applies on two
   servers, rebuilds from snapshot + replay) replayed on the model. *)
From LB Require Import Base.Prelude Meta.Groups Meta.Fsm.
Open Scope Z_scope.

Record pobs := mkPObs {
  po_replicas : list N; po_isr : list N; po_leader : N; po_lepoch : N; po_epoch : N;
  po_paused : bool; po_pausedp : bool; po_ro : bool; po_rop : bool }.
Definition sobs := (sid * bool * list pobs)%type.
Definition mobs := (cid * list sid * list (sid * list Z))%type.
Definition gobs := (gid * bid * N * list mobs)%type.
Record obs := mkObs { ob_streams : list sobs; ob_groups : list gobs; ob_disk : list sid;
  ob_gens : list (sid * N) (* which create's data a stream's directory holds, where it could be read *) }.

(* ---- canonical projection of a model state ---- *)
Fixpoint insert_key {A} (kv : N * A) (l : list (N * A)) : list (N * A) :=
  match l with
  | [] => [kv]
  | x :: r => if (fst kv <=? fst x)%N then kv :: l else x :: insert_key kv r
  end.
Definition sort_keys {A} (l : list (N * A)) : list (N * A) := fold_right insert_key [] l.

Definition pobs_of (p : part) : pobs :=
  mkPObs (sort_n (p_replicas p)) (p_isr p) (p_leader p) (p_lepoch p) (p_epoch p) (p_paused p) (p_pausedp p) (p_ro p) (p_rop p).

Definition mobs_of (g : group) (m : member) : mobs :=
  (m_id m, sort_n (Groups.m_streams m),
   filter (fun sa => match snd sa with [] => false | _ => true end)
          (map (fun s => (s, assignment_of g (m_id m) s)) (sort_n (dedup (map t_stream (g_owners g)))))).

Definition obs_of (m : meta) : obs :=
  mkObs (map (fun kv => (fst kv, st_tomb (snd kv), map pobs_of (st_parts (snd kv)))) (sort_keys (mt_streams m)))
        (map (fun kv => let g := gr_g (snd kv) in
                        (fst kv, gr_coord (snd kv), g_epoch g,
                         map (fun km => mobs_of g (snd km)) (sort_keys (map (fun mb => (m_id mb, mb)) (g_members g)))))
             (sort_keys (mt_groups m)))
        (map fst (sort_keys (mt_disk m)))
        (mt_disk m).

(* ---- equality ---- *)
Fixpoint leqb {A} (eq : A -> A -> bool) (a b : list A) : bool :=
  match a, b with
  | [], [] => true
  | x :: a', y :: b' => eq x y && leqb eq a' b'
  | _, _ => false
  end.

Definition pobs_eqb (a b : pobs) : bool :=
  leqb N.eqb (po_replicas a) (po_replicas b) && leqb N.eqb (po_isr a) (po_isr b) && N.eqb (po_leader a) (po_leader b) &&
  N.eqb (po_lepoch a) (po_lepoch b) && N.eqb (po_epoch a) (po_epoch b) && Bool.eqb (po_paused a) (po_paused b) &&
  Bool.eqb (po_pausedp a) (po_pausedp b) && Bool.eqb (po_ro a) (po_ro b) && Bool.eqb (po_rop a) (po_rop b).

Definition sobs_eqb (a b : sobs) : bool :=
  let '(s1, t1, p1) := a in let '(s2, t2, p2) := b in N.eqb s1 s2 && Bool.eqb t1 t2 && leqb pobs_eqb p1 p2.

Definition mobs_eqb (asg : bool) (a b : mobs) : bool :=
  let '(c1, ss1, a1) := a in let '(c2, ss2, a2) := b in
  N.eqb c1 c2 && leqb N.eqb ss1 ss2 &&
  (negb asg || leqb (fun x y => N.eqb (fst x) (fst y) && leqb Z.eqb (snd x) (snd y)) a1 a2).

Definition gobs_eqb (asg : bool) (a b : gobs) : bool :=
  let '(g1, c1, e1, m1) := a in let '(g2, c2, e2, m2) := b in
  N.eqb g1 g2 && N.eqb c1 c2 && N.eqb e1 e2 && leqb (mobs_eqb asg) m1 m2.

(* which component differs first: 0 none, 1 streams, 2 groups, 3 disk, 4 data generation;
   a is the model's projection, b the observation *)
Definition obs_diff (asg disk : bool) (a b : obs) : nat :=
  if negb (leqb sobs_eqb (ob_streams a) (ob_streams b)) then 1%nat
  else if negb (leqb (gobs_eqb asg) (ob_groups a) (ob_groups b)) then 2%nat
  else if disk && negb (leqb N.eqb (ob_disk a) (ob_disk b)) then 3%nat
  else if negb (forallb (fun sg => match alookup (fst sg) (ob_gens a) with Some g => N.eqb g (snd sg) | None => false end) (ob_gens b)) then 4%nat
  else 0%nat.

Record fcase := mkFCase {
  fc_ops : list fop;
  fc_obs : list obs;                       (* after each live apply *)
  fc_restarts : list (nat * nat * obs)     (* snapshot taken after i, server stopped after m, rebuilt state *)
}.

(* live states L_1 .. L_n (None from the first failing apply on) *)
Fixpoint live_states (v : variant) (idx : N) (m : meta) (ops : list fop) : list (option meta) :=
  match ops with
  | [] => []
  | o :: r => match apply v false idx m o with
              | Some m' => Some m' :: live_states v (idx + 1) m' r
              | None => map (fun _ => None) ops
              end
  end.

Definition nth_state (l : list (option meta)) (i : nat) : option meta :=
  match i with O => Some empty_meta | S j => nth j l None end.

(* the state rebuilt from the snapshot after i (none when i = 0), the disk left after m, replay of
   i+1..n, finishedRecovery(n) *)
Definition rebuild (v : variant) (ops : list fop) (i m : nat) : option meta :=
  let ls := live_states v 1%N empty_meta ops in
  match nth_state ls i, nth_state ls m with
  | Some li, Some lm =>
    let start := match i with
                 | O => mkMeta empty_core (mt_disk lm) 0%N
                 | _ => restore v (mt_disk lm) 0%N (take_snapshot (mt_core li))
                 end in
    match run v true (N.of_nat i + 1)%N start (skipn i ops) with
    | Some p => Some (finish (N.of_nat (length ops)) p)
    | None => None
    end
  | _, _ => None
  end.

(* mismatches of one case: (position, component); positions 1..n are live applies, 1000+k is restart k *)
Fixpoint check_live (ls : list (option meta)) (os : list obs) (pos : nat) : list (nat * nat) :=
  match ls, os with
  | Some m :: lr, o :: orr =>
    match obs_diff true true (obs_of m) o with
    | O => check_live lr orr (S pos)
    | d => [(pos, d)]
    end
  | None :: _, _ :: _ => [(pos, 9%nat)]
  | _, _ => []
  end.

Fixpoint check_restarts (v : variant) (ops : list fop) (rs : list (nat * nat * obs)) (k : nat) : list (nat * nat) :=
  match rs with
  | [] => []
  | (i, m, o) :: r =>
    match rebuild v ops i m with
    | Some p => match obs_diff (Nat.eqb i 0) true (obs_of p) o with
                | O => check_restarts v ops r (S k)
                | d => (1000 + k, d)%nat :: check_restarts v ops r (S k)
                end
    | None => (1000 + k, 9)%nat :: check_restarts v ops r (S k)
    end
  end.

(* every observed operation had passed the leader's real precondition check: the model's must agree *)
Fixpoint check_pre (v : variant) (idx : N) (m : meta) (ops : list fop) (pos : nat) : list (nat * nat) :=
  match ops with
  | [] => []
  | o :: r => if pre (mt_core m) o
              then match apply v false idx m o with
                   | Some m' => check_pre v (idx + 1) m' r (S pos)
                   | None => []
                   end
              else [(pos, 8%nat)]
  end.

Definition check_case (v : variant) (c : fcase) : list (nat * nat) :=
  check_pre v 1%N empty_meta (fc_ops c) 1%nat ++
  check_live (live_states v 1%N empty_meta (fc_ops c)) (fc_obs c) 1%nat ++ check_restarts v (fc_ops c) (fc_restarts c) 0.

Fixpoint fcases_mismatches (v : variant) (cs : list fcase) (i : nat) : list (nat * (nat * nat)) :=
  match cs with
  | [] => []
  | c :: r => map (fun x => (i, x)) (check_case v c) ++ fcases_mismatches v r (S i)
  end.
