(* Proofs about the metadata state machine: replay (from nothing, or from a snapshot) followed by
   finishedRecovery rebuilds the state the live servers have. *)
From LB Require Import Base.Prelude Meta.Groups Meta.GroupsProofs Meta.Fsm.
From Coq Require Import ZifyBool.
Open Scope Z_scope.

(* ------------------------------------------------------------------ association lists *)
Section AList.
  Context {A : Type}.
  Implicit Types l : list (N * A).

  Definition keys l : list N := map fst l.
  Definition WF l : Prop := NoDup (keys l).

  Lemma alookup_in k l (x : A) : alookup k l = Some x -> In (k, x) l.
  Proof.
    induction l as [|[k' y] r IH]; [discriminate|]. cbn [alookup]. destruct (N.eqb_spec k' k) as [->|Hne].
    - intros [= ->]. left. reflexivity.
    - intros H. right. apply IH. exact H.
  Qed.

  Lemma alookup_none_keys k l : alookup k l = None <-> ~ In k (keys l).
  Proof.
    induction l as [|[k' y] r IH]; [cbn; tauto|]. cbn [alookup keys map fst]. destruct (N.eqb_spec k' k) as [->|Hne].
    - split; [discriminate|]. intros H. exfalso. apply H. left. reflexivity.
    - rewrite IH. unfold keys. split; intros H; [intros [E|E]; [contradiction|apply H; exact E]|intros E; apply H; right; exact E].
  Qed.

  Lemma in_alookup k l (x : A) : WF l -> In (k, x) l -> alookup k l = Some x.
  Proof.
    induction l as [|[k' y] r IH]; intros Hw Hin; [destruct Hin|]. unfold WF in Hw. cbn [keys map fst] in Hw.
    apply NoDup_cons_iff in Hw. destruct Hw as [Hn Hw]. cbn [alookup]. destruct Hin as [[= -> ->]|Hin].
    - rewrite N.eqb_refl. reflexivity.
    - destruct (N.eqb_spec k' k) as [->|Hne]; [|apply IH; assumption].
      exfalso. apply Hn. change (In k (keys r)). apply (in_map fst) in Hin. exact Hin.
  Qed.

  Lemma alookup_aremove_same k l : alookup k (aremove k l) = None.
  Proof.
    induction l as [|[k' y] r IH]; [reflexivity|]. cbn [aremove]. destruct (N.eqb_spec k' k) as [->|Hne]; [exact IH|].
    cbn [alookup]. destruct (N.eqb_spec k' k); [contradiction|exact IH].
  Qed.

  Lemma alookup_aremove_other k k' l : k <> k' -> alookup k (aremove k' l) = alookup k l.
  Proof.
    intros Hne. induction l as [|[a y] r IH]; [reflexivity|]. cbn [aremove alookup].
    destruct (N.eqb_spec a k') as [->|Ha].
    - destruct (N.eqb_spec k' k) as [->|_]; [contradiction|exact IH].
    - cbn [alookup]. destruct (N.eqb a k); [reflexivity|exact IH].
  Qed.

  Lemma alookup_aset_same k (x : A) l : alookup k (aset k x l) = Some x.
  Proof. unfold aset. cbn [alookup]. rewrite N.eqb_refl. reflexivity. Qed.

  Lemma alookup_aset_other k k' (x : A) l : k <> k' -> alookup k (aset k' x l) = alookup k l.
  Proof.
    intros Hne. unfold aset. cbn [alookup]. destruct (N.eqb_spec k' k) as [->|_]; [contradiction|].
    apply alookup_aremove_other. exact Hne.
  Qed.

  Lemma keys_aremove k l : forall x, In x (keys (aremove k l)) <-> In x (keys l) /\ x <> k.
  Proof.
    induction l as [|[a y] r IH]; intros x; [cbn; tauto|]. cbn [aremove]. destruct (N.eqb_spec a k) as [->|Ha].
    - rewrite IH. cbn [keys map fst In]. split; [intros [H Hn]; split; [right; exact H|exact Hn]|].
      intros [[E|H] Hn]; [exfalso; apply Hn; symmetry; exact E|split; assumption].
    - cbn [keys map fst In]. fold (keys (aremove k r)). fold (keys r). rewrite IH. split.
      + intros [E|[H Hn]]; [split; [left; exact E|rewrite <- E; exact Ha]|split; [right; exact H|exact Hn]].
      + intros [[E|H] Hn]; [left; exact E|right; split; assumption].
  Qed.

  Lemma WF_aremove k l : WF l -> WF (aremove k l).
  Proof.
    unfold WF. induction l as [|[a y] r IH]; intros Hw; [exact Hw|]. cbn [keys map fst] in Hw. apply NoDup_cons_iff in Hw.
    destruct Hw as [Hn Hw]. cbn [aremove]. destruct (N.eqb a k); [apply IH; exact Hw|].
    cbn [keys map fst]. apply NoDup_cons; [|apply IH; exact Hw]. intros H. apply keys_aremove in H. apply Hn. apply H.
  Qed.

  Lemma WF_aset k (x : A) l : WF l -> WF (aset k x l).
  Proof.
    intros Hw. unfold WF, aset. cbn [keys map fst]. apply NoDup_cons; [|apply WF_aremove; exact Hw].
    intros H. apply keys_aremove in H. destruct H as [_ H]. apply H. reflexivity.
  Qed.

  Lemma aremove_filter (f : N * A -> bool) k l : aremove k (filter f l) = filter f (aremove k l).
  Proof.
    induction l as [|[a y] r IH]; [reflexivity|]. cbn [filter aremove]. destruct (f (a, y)) eqn:Ef.
    - cbn [aremove]. destruct (N.eqb a k); [exact IH|]. cbn [filter]. rewrite Ef, IH. reflexivity.
    - destruct (N.eqb a k); [exact IH|]. cbn [filter]. rewrite Ef. exact IH.
  Qed.

  Lemma aremove_idem k l : aremove k (aremove k l) = aremove k l.
  Proof.
    induction l as [|[a y] r IH]; [reflexivity|]. cbn [aremove]. destruct (N.eqb_spec a k) as [->|Ha]; [exact IH|].
    cbn [aremove]. destruct (N.eqb_spec a k); [contradiction|]. rewrite IH. reflexivity.
  Qed.

  Lemma aremove_absent k l : alookup k l = None -> aremove k l = l.
  Proof.
    induction l as [|[a y] r IH]; [reflexivity|]. cbn [alookup aremove]. destruct (N.eqb a k); [discriminate|].
    intros H. rewrite IH by exact H. reflexivity.
  Qed.

  Lemma alookup_filter (f : N * A -> bool) k l : WF l ->
    alookup k (filter f l) = match alookup k l with Some x => if f (k, x) then Some x else None | None => None end.
  Proof.
    induction l as [|[a y] r IH]; intros Hw; [reflexivity|]. unfold WF in Hw. cbn [keys map fst] in Hw.
    apply NoDup_cons_iff in Hw. destruct Hw as [Hn Hw]. cbn [filter alookup]. destruct (N.eqb_spec a k) as [->|Ha].
    - destruct (f (k, y)) eqn:Ef; [cbn [alookup]; rewrite N.eqb_refl; reflexivity|].
      rewrite IH by exact Hw. change (~ In k (keys r)) in Hn. apply alookup_none_keys in Hn. rewrite Hn. reflexivity.
    - destruct (f (a, y)); [cbn [alookup]; destruct (N.eqb_spec a k); [contradiction|]|]; apply IH; exact Hw.
  Qed.

  Lemma WF_filter (f : N * A -> bool) l : WF l -> WF (filter f l).
  Proof. unfold WF, keys. apply NoDup_map_filter. Qed.
End AList.

(* ------------------------------------------------------------------ groups: what depends on what *)
Lemma in_insert_sorted x y l : In x (insert_sorted y l) <-> x = y \/ In x l.
Proof.
  induction l as [|z r IH]; [cbn; intuition congruence|]. cbn [insert_sorted]. destruct (y <=? z)%N; [cbn; intuition congruence|].
  cbn [In]. rewrite IH. intuition congruence.
Qed.

Lemma in_sort_n x l : In x (sort_n l) <-> In x l.
Proof.
  induction l as [|y r IH]; [reflexivity|]. unfold sort_n in *. cbn [fold_right]. rewrite in_insert_sorted, IH. cbn. intuition congruence.
Qed.

Lemma in_dedup x l : In x (dedup l) <-> In x l.
Proof.
  induction l as [|y r IH]; [reflexivity|]. cbn [dedup]. destruct (mem_n y r) eqn:E.
  - rewrite IH. cbn. split; [intros H; right; exact H|]. intros [<-|H]; [apply mem_n_in; exact E|exact H].
  - cbn [In]. rewrite IH. reflexivity.
Qed.

Lemma balance_ext np1 np2 s ms ow : np1 s = np2 s -> balance np1 s ms ow = balance np2 s ms ow.
Proof. intros H. unfold balance. rewrite H. reflexivity. Qed.

Lemma fold_balance_ext np1 np2 ms L : (forall s, In s L -> np1 s = np2 s) ->
  forall ow, fold_left (fun ow s => balance np1 s ms ow) L ow = fold_left (fun ow s => balance np2 s ms ow) L ow.
Proof.
  induction L as [|s r IH]; intros H ow; [reflexivity|]. cbn [fold_left].
  rewrite (balance_ext np1 np2 s) by (apply H; left; reflexivity). apply IH. intros x Hx. apply H. right. exact Hx.
Qed.

Lemma add_member_ext np1 np2 g c ss e : (forall s, In s ss -> np1 s = np2 s) ->
  add_member np1 g c ss e = add_member np2 g c ss e.
Proof.
  intros H. unfold add_member. destruct (e <? g_epoch g)%N; [reflexivity|]. f_equal. f_equal.
  apply fold_balance_ext. intros s Hs. apply H. rewrite in_sort_n, in_dedup in Hs. exact Hs.
Qed.

(* every stream some member subscribes to *)
Definition subscribed (g : group) (s : sid) : Prop := exists m, In m (g_members g) /\ In s (m_streams m).

Lemma fold_balance_cond_ext np1 np2 ms (cond : sid -> list triple -> bool) L :
  (forall s, In s L -> np1 s = np2 s) ->
  forall ow, fold_left (fun ow s => if cond s ow then balance np1 s ms ow else ow) L ow =
             fold_left (fun ow s => if cond s ow then balance np2 s ms ow else ow) L ow.
Proof.
  induction L as [|s r IH]; intros H ow; [reflexivity|]. cbn [fold_left].
  rewrite (balance_ext np1 np2 s) by (apply H; left; reflexivity). apply IH. intros x Hx. apply H. right. exact Hx.
Qed.

Lemma remove_member_ext np1 np2 g c e : (forall s, subscribed g s -> np1 s = np2 s) ->
  remove_member np1 g c e = remove_member np2 g c e.
Proof.
  intros H. unfold remove_member. destruct (e <? g_epoch g)%N; [reflexivity|].
  destruct (find (fun m => N.eqb (m_id m) c) (g_members g)) as [lv|] eqn:Ef; [|reflexivity].
  apply find_some_in in Ef. destruct Ef as [Hin _]. f_equal. f_equal. f_equal.
  apply (fold_balance_cond_ext np1 np2 _ (fun s _ => has_assignment c s (g_owners g))).
  intros s Hs. apply H. exists lv. split; assumption.
Qed.

Lemma stream_deleted_ext np1 np2 g s e : (forall x, subscribed g x -> np1 x = np2 x) ->
  stream_deleted np1 g s e = stream_deleted np2 g s e.
Proof.
  intros H. unfold stream_deleted. destruct (e <? g_epoch g)%N; [reflexivity|].
  destruct (negb (existsb (subscribes s) (g_members g))); [reflexivity|]. f_equal. f_equal.
  apply fold_balance_ext. intros x Hx. apply H. rewrite in_sort_n, in_dedup in Hx.
  apply in_concat in Hx. destruct Hx as (l & Hl & Hx). apply in_map_iff in Hl. destruct Hl as (m & <- & Hm).
  apply filter_In in Hm. destruct Hm as [Hm _]. apply filter_In in Hx. destruct Hx as [Hx _]. exists m. split; assumption.
Qed.

Lemma in_aremove {A} k k' (x : A) l : In (k, x) (aremove k' l) -> In (k, x) l /\ k <> k'.
Proof.
  induction l as [|[a y] r IH]; [intros []|]. cbn [aremove]. destruct (N.eqb_spec a k') as [->|Ha].
  - intros H. destruct (IH H) as [H1 H2]. split; [right; exact H1|exact H2].
  - intros [[= -> ->]|H]; [split; [left; reflexivity|exact Ha]|]. destruct (IH H) as [H1 H2]. split; [right; exact H1|exact H2].
Qed.

Lemma in_aset {A} k k' (x y : A) l : In (k, x) (aset k' y l) -> (k = k' /\ x = y) \/ (In (k, x) l /\ k <> k').
Proof. unfold aset. intros [[= -> ->]|H]; [left; split; reflexivity|right; apply in_aremove; exact H]. Qed.

(* ------------------------------------------------------------------ what group operations do to the membership *)
Lemma add_member_shape np g c ss e g' : add_member np g c ss e = GOk g' ->
  g_members g' = g_members g ++ [mkMember c (sort_n (dedup ss))] /\ g_epoch g' = e.
Proof. unfold add_member. destruct (e <? g_epoch g)%N; [discriminate|]. intros [= <-]. split; reflexivity. Qed.

Lemma remove_member_shape np g c e g' : remove_member np g c e = GOk g' ->
  g_members g' = filter (fun m => negb (N.eqb (m_id m) c)) (g_members g) /\ g_epoch g' = e.
Proof.
  unfold remove_member. destruct (e <? g_epoch g)%N; [discriminate|].
  destruct (find _ (g_members g)); [|discriminate]. intros [= <-]. split; reflexivity.
Qed.

Lemma not_subscribed_existsb g s : existsb (subscribes s) (g_members g) = false <-> ~ subscribed g s.
Proof.
  split.
  - intros H (m & Hm & Hs). assert (E : existsb (subscribes s) (g_members g) = true).
    { apply existsb_exists. exists m. split; [exact Hm|]. unfold subscribes. apply mem_n_in. exact Hs. }
    congruence.
  - intros H. destruct (existsb (subscribes s) (g_members g)) eqn:E; [|reflexivity]. exfalso. apply H.
    apply existsb_exists in E. destruct E as (m & Hm & Hs). exists m. split; [exact Hm|]. apply mem_n_in. exact Hs.
Qed.

(* after the notification nobody subscribes to s, nothing new is subscribed, the epoch is the old one or e *)
Lemma stream_deleted_shape np g s e g' : stream_deleted np g s e = GOk g' ->
  ~ subscribed g' s /\ (forall x, subscribed g' x -> subscribed g x /\ x <> s) /\ (g_epoch g' = g_epoch g \/ g_epoch g' = e).
Proof.
  unfold stream_deleted. destruct (e <? g_epoch g)%N; [discriminate|].
  destruct (existsb (subscribes s) (g_members g)) eqn:E; cbn [negb].
  - intros [= <-]. cbn [g_members g_epoch].
    assert (Hsub : forall x, subscribed (mkGroup (map (fun m => mkMember (m_id m) (filter (fun y => negb (N.eqb y s)) (m_streams m))) (g_members g)) [] 0%N) x ->
                             subscribed g x /\ x <> s).
    { intros x (m' & Hm' & Hx). cbn [g_members] in Hm'. apply in_map_iff in Hm'. destruct Hm' as (m & <- & Hm). cbn [m_streams] in Hx.
      apply filter_In in Hx. destruct Hx as [Hx Hn]. split; [exists m; split; assumption|]. intros ->. rewrite N.eqb_refl in Hn. discriminate. }
    split; [|split; [|right; reflexivity]].
    + intros (m' & Hm' & Hx). destruct (Hsub s) as [_ Hn]; [exists m'; split; assumption|]. apply Hn. reflexivity.
    + intros x (m' & Hm' & Hx). apply Hsub. exists m'. split; assumption.
  - intros [= <-]. split; [apply not_subscribed_existsb; exact E|]. split; [|left; reflexivity].
    intros x Hx. split; [exact Hx|]. intros ->. apply not_subscribed_existsb in E. contradiction.
Qed.

Lemma stream_deleted_not_refused np g s e : (g_epoch g <= e)%N -> exists g', stream_deleted np g s e = GOk g'.
Proof.
  intros H. unfold stream_deleted. destruct (N.ltb_spec e (g_epoch g)); [lia|].
  destruct (negb (existsb (subscribes s) (g_members g))); eexists; reflexivity.
Qed.

Lemma stream_deleted_noop np g s e : ~ subscribed g s -> stream_deleted np g s e = GOk g \/ stream_deleted np g s e = GRefused.
Proof.
  intros H. unfold stream_deleted. destruct (e <? g_epoch g)%N; [right; reflexivity|].
  apply not_subscribed_existsb in H. rewrite H. left. reflexivity.
Qed.

(* the other streams of the affected consumers are all that a notification looks at *)
Lemma stream_deleted_ext' np1 np2 g s e : (forall x, subscribed g x -> x <> s -> np1 x = np2 x) ->
  stream_deleted np1 g s e = stream_deleted np2 g s e.
Proof.
  intros H. unfold stream_deleted. destruct (e <? g_epoch g)%N; [reflexivity|].
  destruct (negb (existsb (subscribes s) (g_members g))); [reflexivity|]. f_equal. f_equal.
  apply fold_balance_ext. intros x Hx. rewrite in_sort_n, in_dedup in Hx.
  apply in_concat in Hx. destruct Hx as (l & Hl & Hx). apply in_map_iff in Hl. destruct Hl as (m & <- & Hm).
  apply filter_In in Hm. destruct Hm as [Hm _]. apply filter_In in Hx. destruct Hx as [Hx Hn].
  apply H; [exists m; split; assumption|]. intros ->. rewrite N.eqb_refl in Hn. discriminate.
Qed.

(* ------------------------------------------------------------------ replay state vs live state *)
Definition nt (kv : sid * strm) : bool := negb (st_tomb (snd kv)).
Definition cstrip (c : core) : core := mkCore (filter nt (c_streams c)) (c_groups c).

Definition alive (streams : list (sid * strm)) (s : sid) : Prop :=
  exists st, alookup s streams = Some st /\ st_tomb st = false.

Definition GInv (idx : N) (c : core) : Prop :=
  forall g gr, In (g, gr) (c_groups c) ->
    (g_epoch (gr_g gr) < idx)%N /\ forall s, subscribed (gr_g gr) s -> alive (c_streams c) s.

Definition RInv (idx : N) (c : core) : Prop := WF (c_streams c) /\ WF (c_groups c) /\ GInv idx c.

Lemma alookup_strip l s : WF l ->
  alookup s (filter nt l) = match alookup s l with Some st => if st_tomb st then None else Some st | None => None end.
Proof.
  intros Hw. rewrite alookup_filter by exact Hw. destruct (alookup s l) as [st|]; [|reflexivity].
  unfold nt. cbn [snd]. destruct (st_tomb st); reflexivity.
Qed.

Lemma np_agree l s : WF l -> (alive l s \/ alookup s l = None) -> nparts_of (filter nt l) s = nparts_of l s.
Proof.
  intros Hw H. unfold nparts_of. rewrite alookup_strip by exact Hw. destruct H as [(st & E & Ht)|E]; rewrite E; [rewrite Ht|]; reflexivity.
Qed.

Lemma notify_noop np s e gs : (forall g gr, In (g, gr) gs -> ~ subscribed (gr_g gr) s) -> notify_deleted np s e gs = gs.
Proof.
  intros H. unfold notify_deleted. induction gs as [|[g gr] r IH]; [reflexivity|]. cbn [map fst snd].
  rewrite IH by (intros g' gr' Hin; apply (H g'); right; exact Hin). f_equal. f_equal.
  unfold notify_group. destruct (stream_deleted_noop np (gr_g gr) s e (H g gr (or_introl eq_refl))) as [E|E]; rewrite E; [destruct gr|]; reflexivity.
Qed.

Lemma notify_ext np1 np2 s e gs : (forall g gr x, In (g, gr) gs -> subscribed (gr_g gr) x -> x <> s -> np1 x = np2 x) ->
  notify_deleted np1 s e gs = notify_deleted np2 s e gs.
Proof.
  intros H. unfold notify_deleted. apply map_ext_in. intros [g gr] Hin. cbn [fst snd]. f_equal. unfold notify_group.
  rewrite (stream_deleted_ext' np1 np2) by (intros x Hx Hn; apply (H g gr x Hin Hx Hn)). reflexivity.
Qed.

Lemma keys_notify np s e gs : keys (notify_deleted np s e gs) = keys gs.
Proof. unfold notify_deleted, keys. rewrite map_map. reflexivity. Qed.

Lemma in_notify np s e gs g gr' : In (g, gr') (notify_deleted np s e gs) -> exists gr, In (g, gr) gs /\ gr' = notify_group np s e gr.
Proof. unfold notify_deleted. intros H. apply in_map_iff in H. destruct H as ([g0 gr] & [= <- <-] & Hin). exists gr. split; [exact Hin|reflexivity]. Qed.

Lemma alive_aset_other l s x st : x <> s -> alive l x -> alive (aset s st l) x.
Proof. intros Hn (st0 & E & Ht). exists st0. rewrite alookup_aset_other by exact Hn. split; assumption. Qed.

Lemma alive_aset_same l s st : st_tomb st = false -> alive (aset s st l) s.
Proof. intros Ht. exists st. rewrite alookup_aset_same. split; [reflexivity|exact Ht]. Qed.

Lemma strip_aset l s st : st_tomb st = false -> filter nt (aset s st l) = aset s st (filter nt l).
Proof. intros Ht. unfold aset. cbn [filter]. unfold nt at 1. cbn [snd]. rewrite Ht. cbn [negb]. rewrite aremove_filter. reflexivity. Qed.

Lemma strip_aset_tomb l s st : st_tomb st = true -> filter nt (aset s st l) = aremove s (filter nt l).
Proof. intros Ht. unfold aset. cbn [filter]. unfold nt at 1. cbn [snd]. rewrite Ht. cbn [negb]. rewrite aremove_filter. reflexivity. Qed.

(* operations on one stream: the same on the replay state as on its live part *)
Lemma with_stream_strip P s f L' : WF (c_streams P) ->
  (forall st st', f st = Some st' -> st_tomb st' = st_tomb st) ->
  with_stream (cstrip P) s f = Some L' ->
  exists P', with_stream P s f = Some P' /\ cstrip P' = L' /\ WF (c_streams P') /\ c_groups P' = c_groups P /\
             (forall x, alive (c_streams P) x -> alive (c_streams P') x).
Proof.
  intros Hw Hf H. unfold with_stream in *. cbn [cstrip c_streams c_groups] in H.
  rewrite alookup_strip in H by exact Hw. destruct (alookup s (c_streams P)) as [st|] eqn:E; [|discriminate].
  destruct (st_tomb st) eqn:Et; [discriminate|]. destruct (f st) as [st'|] eqn:Ef; [|discriminate]. injection H as <-.
  pose proof (Hf st st' Ef) as Ht'. rewrite Et in Ht'.
  eexists. split; [reflexivity|]. split; [|split; [|split]].
  - unfold cstrip. cbn [c_streams c_groups]. rewrite strip_aset by exact Ht'. reflexivity.
  - cbn [c_streams]. apply WF_aset. exact Hw.
  - reflexivity.
  - cbn [c_streams]. intros x Hx. destruct (N.eq_dec x s) as [->|Hn]; [apply alive_aset_same; exact Ht'|apply alive_aset_other; assumption].
Qed.

Lemma GInv_streams idx P P' : c_groups P' = c_groups P -> (forall x, alive (c_streams P) x -> alive (c_streams P') x) ->
  GInv idx P -> GInv (idx + 1) P'.
Proof.
  intros Hg Ha Hi g gr Hin. rewrite Hg in Hin. destruct (Hi g gr Hin) as [He Hs]. split; [lia|]. intros s Hsub. apply Ha. apply Hs. exact Hsub.
Qed.

Lemma stream_op_commutes idx P s f L' : RInv idx P ->
  (forall st st', f st = Some st' -> st_tomb st' = st_tomb st) ->
  with_stream (cstrip P) s f = Some L' ->
  exists P', with_stream P s f = Some P' /\ cstrip P' = L' /\ RInv (idx + 1) P'.
Proof.
  intros (Hw & Hwg & Hi) Hf H. destruct (with_stream_strip P s f L' Hw Hf H) as (P' & E & Hs & Hw' & Hg & Ha).
  exists P'. split; [exact E|]. split; [exact Hs|]. split; [exact Hw'|]. split; [rewrite Hg; exact Hwg|].
  apply (GInv_streams idx P P' Hg Ha Hi).
Qed.

Lemma with_part_tomb (f : part -> option part) p st st' :
  (if valid_pid (st_parts st) p then
     match nth_part (st_parts st) (Z.to_nat p) with
     | None => None
     | Some q => match f q with None => None | Some q' => Some (mkStrm (set_part (st_parts st) (Z.to_nat p) q') (st_tomb st)) end
     end
   else None) = Some st' -> st_tomb st' = st_tomb st.
Proof.
  destruct (valid_pid _ _); [|discriminate]. destruct (nth_part _ _) as [q|]; [|discriminate]. destruct (f q); [|discriminate].
  intros [= <-]. reflexivity.
Qed.

Lemma pre_exists_alive P s : WF (c_streams P) -> stream_exists (cstrip P) s = true -> alive (c_streams P) s.
Proof.
  intros Hw H. unfold stream_exists in H. cbn [cstrip c_streams] in H. rewrite alookup_strip in H by exact Hw.
  destruct (alookup s (c_streams P)) as [st|] eqn:E; [|discriminate]. destruct (st_tomb st) eqn:Et; [discriminate|].
  exists st. split; [exact E|exact Et].
Qed.

Lemma GInv_set_group idx P g gr : GInv idx P -> (g_epoch (gr_g gr) < idx + 1)%N ->
  (forall s, subscribed (gr_g gr) s -> alive (c_streams P) s) -> GInv (idx + 1) (set_group P g gr).
Proof.
  intros Hi He Hs g' gr' Hin. cbn [set_group c_groups c_streams] in *. apply in_aset in Hin. destruct Hin as [[-> ->]|[Hin _]].
  - split; assumption.
  - destruct (Hi g' gr' Hin) as [H1 H2]. split; [lia|exact H2].
Qed.

(* One replayed operation: it succeeds whenever the live one does, the live part of the result is
   the live result, and the invariants are kept. *)
Lemma step_commutes idx P o L' : RInv idx P -> pre (cstrip P) o = true ->
  apply_core fixed false idx (cstrip P) o = Some L' ->
  exists P', apply_core fixed true idx P o = Some P' /\ cstrip P' = L' /\ RInv (idx + 1) P'.
Proof.
  intros HR Hpre H. pose proof HR as (Hw & Hwg & Hi).
  destruct o as [s n reps|s|s ps ra|s ps|s ps ro|s p r|s p r|s p l|g coord c ss|g c ss|g c|g coord|i].
  - (* create *)
    cbn [apply_core] in *. destruct n as [|n]; [discriminate|]. destruct reps as [|b reps]; [discriminate|].
    cbn [cstrip c_streams] in H. rewrite alookup_strip in H by exact Hw.
    destruct (alookup s (c_streams P)) as [st|] eqn:E.
    + destruct (st_tomb st) eqn:Et; [|discriminate]. cbn [andb]. injection H as <-.
      (* un-tombstone: nobody subscribes to a tombstoned stream, the notification changes nothing *)
      assert (Hno : forall g gr, In (g, gr) (c_groups P) -> ~ subscribed (gr_g gr) s).
      { intros g gr Hin Hsub. destruct (Hi g gr Hin) as [_ Ha]. destruct (Ha s Hsub) as (st0 & E0 & Ht0). congruence. }
      eexists. split; [reflexivity|]. unfold remove_stream, add_stream. cbn [c_streams c_groups]. rewrite notify_noop by exact Hno.
      split; [|split; [|split]].
      * unfold cstrip, add_stream. cbn [c_streams c_groups]. rewrite strip_aset by reflexivity.
        unfold aset. rewrite <- !aremove_filter, aremove_idem. reflexivity.
      * cbn [c_streams]. apply WF_aset. apply WF_aremove. exact Hw.
      * exact Hwg.
      * intros g gr Hin. cbn [c_groups c_streams] in *. destruct (Hi g gr Hin) as [He Ha]. split; [lia|]. intros x Hx.
        destruct (N.eq_dec x s) as [->|Hn]; [apply alive_aset_same; reflexivity|]. apply alive_aset_other; [exact Hn|].
        destruct (Ha x Hx) as (st0 & E0 & Ht0). exists st0. rewrite alookup_aremove_other by exact Hn. split; assumption.
    + injection H as <-. eexists. split; [reflexivity|]. split; [|split; [|split]].
      * unfold cstrip, add_stream. cbn [c_streams c_groups]. rewrite strip_aset by reflexivity. reflexivity.
      * cbn [add_stream c_streams]. apply WF_aset. exact Hw.
      * exact Hwg.
      * apply (GInv_streams idx P); [reflexivity| |exact Hi]. cbn [add_stream c_streams]. intros x Hx.
        destruct (N.eq_dec x s) as [->|Hn]; [apply alive_aset_same; reflexivity|apply alive_aset_other; assumption].
  - (* delete *)
    cbn [apply_core] in *. cbn [cstrip c_streams] in H. rewrite alookup_strip in H by exact Hw.
    destruct (alookup s (c_streams P)) as [st|] eqn:E; [|discriminate]. destruct (st_tomb st) eqn:Et; [discriminate|]. injection H as <-.
    cbn [fixed v_notify]. eexists. split; [reflexivity|].
    set (streams' := aset s (mkStrm (st_parts st) true) (c_streams P)).
    assert (Hagree : forall g gr x, In (g, gr) (c_groups P) -> subscribed (gr_g gr) x -> x <> s ->
                     nparts_of (aremove s (filter nt (c_streams P))) x = nparts_of streams' x).
    { intros g gr x Hin Hx Hn. destruct (Hi g gr Hin) as [_ Ha]. unfold nparts_of, streams'.
      rewrite alookup_aremove_other, alookup_aset_other by exact Hn. apply (np_agree (c_streams P) x Hw). left. apply Ha. exact Hx. }
    split; [|split; [|split]].
    + unfold cstrip, remove_stream. cbn [c_streams c_groups]. f_equal.
      * unfold streams'. apply strip_aset_tomb. reflexivity.
      * symmetry. apply notify_ext. exact Hagree.
    + cbn [c_streams]. apply WF_aset. exact Hw.
    + cbn [c_groups]. unfold WF. rewrite keys_notify. exact Hwg.
    + intros g gr' Hin. cbn [c_groups c_streams] in *. apply in_notify in Hin. destruct Hin as (gr & Hin & ->).
      destruct (Hi g gr Hin) as [He Ha]. unfold notify_group.
      destruct (stream_deleted_not_refused (nparts_of streams') (gr_g gr) s idx ltac:(lia)) as (g' & Eg). rewrite Eg. cbn [gr_g].
      destruct (stream_deleted_shape _ _ _ _ _ Eg) as (Hns & Hsub & Hep). split; [destruct Hep as [->| ->]; lia|].
      intros x Hx. destruct (Hsub x Hx) as [Hx' Hn]. apply alive_aset_other; [exact Hn|]. apply Ha. exact Hx'.
  - (* pause *)
    cbn [apply_core] in *. apply (stream_op_commutes idx P s _ L' HR); [|exact H].
    intros st st'. destruct (forallb _ ps); [|discriminate]. intros [= <-]. reflexivity.
  - cbn [apply_core] in *. apply (stream_op_commutes idx P s _ L' HR); [|exact H].
    intros st st'. destruct (forallb _ ps); [|discriminate]. intros [= <-]. reflexivity.
  - cbn [apply_core] in *. apply (stream_op_commutes idx P s _ L' HR); [|exact H].
    intros st st'. destruct (forallb _ ps); [|discriminate]. intros [= <-]. reflexivity.
  - cbn [apply_core] in *. unfold with_part in *. apply (stream_op_commutes idx P s _ L' HR); [|exact H]. intros st st'. apply with_part_tomb.
  - cbn [apply_core] in *. unfold with_part in *. apply (stream_op_commutes idx P s _ L' HR); [|exact H]. intros st st'. apply with_part_tomb.
  - cbn [apply_core] in *. unfold with_part in *. apply (stream_op_commutes idx P s _ L' HR); [|exact H]. intros st st'. apply with_part_tomb.
  - (* group create *)
    cbn [apply_core pre] in *. cbn [cstrip c_groups c_streams] in *. destruct (alookup g (c_groups P)) eqn:Eg; [discriminate|].
    assert (Hss : forall s, In s ss -> alive (c_streams P) s).
    { intros s Hs. apply pre_exists_alive; [exact Hw|]. rewrite forallb_forall in Hpre. apply Hpre. exact Hs. }
    rewrite (add_member_ext _ (nparts_of (c_streams P))) in H by (intros s Hs; apply np_agree; [exact Hw|left; apply Hss; exact Hs]).
    destruct (add_member (nparts_of (c_streams P)) new_group c ss 0%N) as [g'| |] eqn:Ea; try discriminate. injection H as <-.
    eexists. split; [reflexivity|]. split; [reflexivity|]. split; [exact Hw|]. split; [apply WF_aset; exact Hwg|].
    destruct (add_member_shape _ _ _ _ _ _ Ea) as [Hm He]. apply GInv_set_group; [exact Hi|cbn [gr_g]; lia|]. cbn [gr_g].
    intros s (m & Hm' & Hs). rewrite Hm in Hm'. cbn [new_group g_members app] in Hm'. destruct Hm' as [<-|[]]. cbn [m_streams] in Hs.
    rewrite in_sort_n, in_dedup in Hs. apply Hss. exact Hs.
  - (* join *)
    cbn [apply_core pre] in *. cbn [cstrip c_groups c_streams] in *. destruct (alookup g (c_groups P)) as [gr|] eqn:Eg; [|discriminate].
    apply andb_true_iff in Hpre. destruct Hpre as [_ Hpre].
    assert (Hss : forall s, In s ss -> alive (c_streams P) s).
    { intros s Hs. apply pre_exists_alive; [exact Hw|]. rewrite forallb_forall in Hpre. apply Hpre. exact Hs. }
    rewrite (add_member_ext _ (nparts_of (c_streams P))) in H by (intros s Hs; apply np_agree; [exact Hw|left; apply Hss; exact Hs]).
    destruct (add_member (nparts_of (c_streams P)) (gr_g gr) c ss idx) as [g'| |] eqn:Ea; try discriminate. injection H as <-.
    eexists. split; [reflexivity|]. split; [reflexivity|]. split; [exact Hw|]. split; [apply WF_aset; exact Hwg|].
    destruct (add_member_shape _ _ _ _ _ _ Ea) as [Hm He]. apply alookup_in in Eg. destruct (Hi g gr Eg) as [_ Ha].
    apply GInv_set_group; [exact Hi|cbn [gr_g]; lia|]. cbn [gr_g].
    intros s (m & Hm' & Hs). rewrite Hm in Hm'. apply in_app_or in Hm'. destruct Hm' as [Hm'|[<-|[]]].
    + apply Ha. exists m. split; assumption.
    + cbn [m_streams] in Hs. rewrite in_sort_n, in_dedup in Hs. apply Hss. exact Hs.
  - (* leave *)
    cbn [apply_core] in *. cbn [cstrip c_groups c_streams] in *. destruct (alookup g (c_groups P)) as [gr|] eqn:Eg; [|discriminate].
    pose proof (alookup_in _ _ _ Eg) as Hin. destruct (Hi g gr Hin) as [_ Ha].
    rewrite (remove_member_ext _ (nparts_of (c_streams P))) in H by (intros s Hs; apply np_agree; [exact Hw|left; apply Ha; exact Hs]).
    destruct (remove_member (nparts_of (c_streams P)) (gr_g gr) c idx) as [g'| |] eqn:Er; try discriminate. injection H as <-.
    destruct (remove_member_shape _ _ _ _ _ Er) as [Hm He].
    assert (Hsubset : forall s, subscribed g' s -> subscribed (gr_g gr) s).
    { intros s (m0 & Hm0 & Hs). exists m0. split; [|exact Hs]. rewrite Hm in Hm0. apply filter_In in Hm0. apply Hm0. }
    clear Hm.
    eexists. split; [reflexivity|]. destruct (g_members g') eqn:Em.
    + split; [reflexivity|]. split; [exact Hw|]. split; [apply WF_aremove; exact Hwg|].
      intros g0 gr0 Hin0. cbn [c_groups c_streams] in *. apply in_aremove in Hin0. destruct Hin0 as [Hin0 _].
      destruct (Hi g0 gr0 Hin0) as [H1 H2]. split; [lia|exact H2].
    + split; [reflexivity|]. split; [exact Hw|]. split; [apply WF_aset; exact Hwg|].
      apply GInv_set_group; [exact Hi|cbn [gr_g]; lia|]. cbn [gr_g]. intros s Hs. apply Ha. apply Hsubset. exact Hs.
  - (* coordinator *)
    cbn [apply_core] in *. cbn [cstrip c_groups c_streams] in *. destruct (alookup g (c_groups P)) as [gr|] eqn:Eg; [|discriminate].
    pose proof (alookup_in _ _ _ Eg) as Hin. destruct (Hi g gr Hin) as [He Ha].
    destruct (idx <=? g_epoch (gr_g gr))%N.
    + injection H as <-. exists P. split; [reflexivity|]. split; [reflexivity|]. split; [exact Hw|]. split; [exact Hwg|].
      intros g0 gr0 Hin0. destruct (Hi g0 gr0 Hin0) as [H1 H2]. split; [lia|exact H2].
    + injection H as <-. eexists. split; [reflexivity|]. split; [reflexivity|]. split; [exact Hw|]. split; [apply WF_aset; exact Hwg|].
      apply GInv_set_group; [exact Hi|cbn [gr_g g_epoch]; lia|]. cbn [gr_g]. intros s (m0 & Hm0 & Hs). apply Ha. exists m0. split; assumption.
  - (* activity *)
    cbn [apply_core] in *. injection H as <-. exists P. split; [reflexivity|]. split; [reflexivity|]. split; [exact Hw|]. split; [exact Hwg|].
    intros g0 gr0 Hin0. destruct (Hi g0 gr0 Hin0) as [H1 H2]. split; [lia|exact H2].
Qed.

(* ------------------------------------------------------------------ finishedRecovery *)
Lemma aremove_as_filter {A} k (l : list (N * A)) : aremove k l = filter (fun kv => negb (N.eqb (fst kv) k)) l.
Proof.
  induction l as [|[a y] r IH]; [reflexivity|]. cbn [aremove filter fst]. destruct (N.eqb a k); cbn [negb]; rewrite IH; reflexivity.
Qed.

Lemma filter_filter_and {A} (p q : A -> bool) l : filter p (filter q l) = filter (fun x => q x && p x) l.
Proof.
  induction l as [|x t IH]; [reflexivity|]. cbn [filter]. destruct (q x); cbn [andb filter]; [destruct (p x)|]; rewrite IH; reflexivity.
Qed.

Definition drop_tombs (l0 S : list (sid * strm)) : list (sid * strm) :=
  fold_left (fun s kv => if st_tomb (snd kv) then aremove (fst kv) s else s) l0 S.

Lemma finish_fold e l0 S G :
  (forall kv, In kv l0 -> st_tomb (snd kv) = true -> forall g gr, In (g, gr) G -> ~ subscribed (gr_g gr) (fst kv)) ->
  fold_left (fun acc kv => if st_tomb (snd kv) then remove_stream acc (fst kv) e else acc) l0 (mkCore S G) = mkCore (drop_tombs l0 S) G.
Proof.
  revert S. induction l0 as [|[k st] r IH]; intros S H; [reflexivity|]. unfold drop_tombs. cbn [fold_left fst snd].
  destruct (st_tomb st) eqn:Et.
  - unfold remove_stream. cbn [c_streams c_groups]. rewrite notify_noop by (apply (H (k, st) (or_introl eq_refl) Et)).
    apply IH. intros kv' Hin. apply H. right. exact Hin.
  - apply IH. intros kv' Hin. apply H. right. exact Hin.
Qed.

Lemma drop_tombs_filter l0 S :
  drop_tombs l0 S = filter (fun kv => forallb (fun kv' => negb (st_tomb (snd kv') && N.eqb (fst kv) (fst kv'))) l0) S.
Proof.
  revert S. induction l0 as [|[k' st'] r IH]; intros S.
  - cbn. symmetry. apply filter_all_true. reflexivity.
  - unfold drop_tombs. cbn [fold_left fst snd]. change (fold_left _ r ?x) with (drop_tombs r x). destruct (st_tomb st') eqn:Et.
    + rewrite IH, aremove_as_filter, filter_filter_and. apply filter_ext_in. intros x _. cbn [forallb fst snd].
      rewrite Et. reflexivity.
    + rewrite IH. apply filter_ext_in. intros x _. cbn [forallb fst snd]. rewrite Et. reflexivity.
Qed.

Lemma drop_tombs_self S : WF S -> drop_tombs S S = filter nt S.
Proof.
  intros Hw. rewrite drop_tombs_filter. apply filter_ext_in. intros [k st] Hin. unfold nt. cbn [fst snd].
  destruct (st_tomb st) eqn:Et; cbn [negb].
  - (* the entry itself is a tombstone *)
    apply not_true_is_false. intros H. rewrite forallb_forall in H. specialize (H (k, st) Hin). cbn [fst snd] in H.
    rewrite Et, N.eqb_refl in H. discriminate.
  - apply forallb_forall. intros [k' st'] Hin'. cbn [fst snd]. destruct (st_tomb st') eqn:Et'; [|reflexivity]. cbn [andb].
    destruct (N.eqb_spec k k') as [<-|Hn]; [|reflexivity].
    (* same key: by uniqueness it is the same entry *)
    pose proof (in_alookup k S st Hw Hin) as E1. pose proof (in_alookup k S st' Hw Hin') as E2. congruence.
Qed.

Theorem finish_is_strip idx e P : RInv idx P -> finish_core e P = cstrip P.
Proof.
  intros (Hw & Hwg & Hi). unfold finish_core. destruct P as [S G]. cbn [c_streams c_groups] in *.
  rewrite finish_fold.
  - rewrite drop_tombs_self by exact Hw. reflexivity.
  - intros [k st] Hin Ht g gr HinG Hsub. cbn [fst snd] in *. destruct (Hi g gr HinG) as [_ Ha].
    destruct (Ha k Hsub) as (st0 & E0 & Ht0). cbn [c_streams] in E0. rewrite (in_alookup k S st Hw Hin) in E0. congruence.
Qed.

(* ------------------------------------------------------------------ whole runs *)
Lemma run_commutes ops : forall idx P L, RInv idx P -> valid_run fixed idx (cstrip P) ops = true ->
  run_core fixed false idx (cstrip P) ops = Some L ->
  exists P', run_core fixed true idx P ops = Some P' /\ cstrip P' = L /\ RInv (idx + N.of_nat (length ops)) P'.
Proof.
  induction ops as [|o r IH]; intros idx P L HR Hv H.
  - cbn in *. injection H as <-. exists P. split; [reflexivity|]. split; [reflexivity|]. rewrite N.add_0_r. exact HR.
  - cbn [valid_run run_core] in *. apply andb_true_iff in Hv. destruct Hv as [Hpre Hv].
    destruct (apply_core fixed false idx (cstrip P) o) as [L1|] eqn:E1; [|discriminate].
    destruct (step_commutes idx P o L1 HR Hpre E1) as (P1 & E2 & Hs & HR1). rewrite E2. subst L1.
    destruct (IH (idx + 1)%N P1 L HR1 Hv H) as (P' & E3 & Hs' & HR'). exists P'. split; [exact E3|]. split; [exact Hs'|].
    cbn [length]. replace (idx + N.of_nat (S (length r)))%N with (idx + 1 + N.of_nat (length r))%N by lia. exact HR'.
Qed.

(* Replaying the whole log into an empty server and finishing recovery rebuilds exactly the
   metadata the live servers have: streams, partitions (replicas, ISR, leaders, epochs, paused and
   read-only flags), consumer groups, members, epochs, assignments. *)
Theorem replay_from_scratch ops L : valid_run fixed 1 empty_core ops = true ->
  run_core fixed false 1 empty_core ops = Some L ->
  exists P, run_core fixed true 1 empty_core ops = Some P /\ finish_core (N.of_nat (length ops)) P = L.
Proof.
  intros Hv H. assert (HR : RInv 1 empty_core).
  { split; [constructor|]. split; [constructor|]. intros g gr []. }
  destruct (run_commutes ops 1%N empty_core L HR Hv H) as (P & E & Hs & HR'). exists P. split; [exact E|].
  rewrite (finish_is_strip _ _ P HR'). exact Hs.
Qed.
