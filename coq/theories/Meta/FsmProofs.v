(* Proofs about the metadata state machine: replay (from nothing, or from a snapshot) followed by
   finishedRecovery rebuilds the state the live servers have. *)
From LB Require Import Base.Prelude Meta.Groups Meta.GroupsProofs Meta.Fsm.
From Coq Require Import ZifyBool Permutation.
Open Scope Z_scope.

(* ------------------------------------------------------------------ association lists *)
Section AList.
  Context {A : Type}.
  Implicit Types l : list (N * A).

  Definition keys l : list N := map fst l.
  Definition WF l : Prop := NoDup (keys l).

  Lemma alookup_in k l (x : A) : alookup k l = Some x -> In (k, x) l.
  Proof.
    induction l as [|[k' y] r IH]; [discriminate|]. cbn [alookup]. destruct (N.eqb_spec k' k) as [->|Hne].
    - intros [= ->]. left. reflexivity.
    - intros H. right. apply IH. exact H.
  Qed.

  Lemma alookup_none_keys k l : alookup k l = None <-> ~ In k (keys l).
  Proof.
    induction l as [|[k' y] r IH]; [cbn; tauto|]. cbn [alookup keys map fst]. destruct (N.eqb_spec k' k) as [->|Hne].
    - split; [discriminate|]. intros H. exfalso. apply H. left. reflexivity.
    - rewrite IH. unfold keys. split; intros H; [intros [E|E]; [contradiction|apply H; exact E]|intros E; apply H; right; exact E].
  Qed.

  Lemma in_alookup k l (x : A) : WF l -> In (k, x) l -> alookup k l = Some x.
  Proof.
    induction l as [|[k' y] r IH]; intros Hw Hin; [destruct Hin|]. unfold WF in Hw. cbn [keys map fst] in Hw.
    apply NoDup_cons_iff in Hw. destruct Hw as [Hn Hw]. cbn [alookup]. destruct Hin as [[= -> ->]|Hin].
    - rewrite N.eqb_refl. reflexivity.
    - destruct (N.eqb_spec k' k) as [->|Hne]; [|apply IH; assumption].
      exfalso. apply Hn. change (In k (keys r)). apply (in_map fst) in Hin. exact Hin.
  Qed.

  Lemma alookup_aremove_same k l : alookup k (aremove k l) = None.
  Proof.
    induction l as [|[k' y] r IH]; [reflexivity|]. cbn [aremove]. destruct (N.eqb_spec k' k) as [->|Hne]; [exact IH|].
    cbn [alookup]. destruct (N.eqb_spec k' k); [contradiction|exact IH].
  Qed.

  Lemma alookup_aremove_other k k' l : k <> k' -> alookup k (aremove k' l) = alookup k l.
  Proof.
    intros Hne. induction l as [|[a y] r IH]; [reflexivity|]. cbn [aremove alookup].
    destruct (N.eqb_spec a k') as [->|Ha].
    - destruct (N.eqb_spec k' k) as [->|_]; [contradiction|exact IH].
    - cbn [alookup]. destruct (N.eqb a k); [reflexivity|exact IH].
  Qed.

  Lemma alookup_aset_same k (x : A) l : alookup k (aset k x l) = Some x.
  Proof. unfold aset. cbn [alookup]. rewrite N.eqb_refl. reflexivity. Qed.

  Lemma alookup_aset_other k k' (x : A) l : k <> k' -> alookup k (aset k' x l) = alookup k l.
  Proof.
    intros Hne. unfold aset. cbn [alookup]. destruct (N.eqb_spec k' k) as [->|_]; [contradiction|].
    apply alookup_aremove_other. exact Hne.
  Qed.

  Lemma keys_aremove k l : forall x, In x (keys (aremove k l)) <-> In x (keys l) /\ x <> k.
  Proof.
    induction l as [|[a y] r IH]; intros x; [cbn; tauto|]. cbn [aremove]. destruct (N.eqb_spec a k) as [->|Ha].
    - rewrite IH. cbn [keys map fst In]. split; [intros [H Hn]; split; [right; exact H|exact Hn]|].
      intros [[E|H] Hn]; [exfalso; apply Hn; symmetry; exact E|split; assumption].
    - cbn [keys map fst In]. fold (keys (aremove k r)). fold (keys r). rewrite IH. split.
      + intros [E|[H Hn]]; [split; [left; exact E|rewrite <- E; exact Ha]|split; [right; exact H|exact Hn]].
      + intros [[E|H] Hn]; [left; exact E|right; split; assumption].
  Qed.

  Lemma WF_aremove k l : WF l -> WF (aremove k l).
  Proof.
    unfold WF. induction l as [|[a y] r IH]; intros Hw; [exact Hw|]. cbn [keys map fst] in Hw. apply NoDup_cons_iff in Hw.
    destruct Hw as [Hn Hw]. cbn [aremove]. destruct (N.eqb a k); [apply IH; exact Hw|].
    cbn [keys map fst]. apply NoDup_cons; [|apply IH; exact Hw]. intros H. apply keys_aremove in H. apply Hn. apply H.
  Qed.

  Lemma WF_aset k (x : A) l : WF l -> WF (aset k x l).
  Proof.
    intros Hw. unfold WF, aset. cbn [keys map fst]. apply NoDup_cons; [|apply WF_aremove; exact Hw].
    intros H. apply keys_aremove in H. destruct H as [_ H]. apply H. reflexivity.
  Qed.

  Lemma aremove_filter (f : N * A -> bool) k l : aremove k (filter f l) = filter f (aremove k l).
  Proof.
    induction l as [|[a y] r IH]; [reflexivity|]. cbn [filter aremove]. destruct (f (a, y)) eqn:Ef.
    - cbn [aremove]. destruct (N.eqb a k); [exact IH|]. cbn [filter]. rewrite Ef, IH. reflexivity.
    - destruct (N.eqb a k); [exact IH|]. cbn [filter]. rewrite Ef. exact IH.
  Qed.

  Lemma aremove_idem k l : aremove k (aremove k l) = aremove k l.
  Proof.
    induction l as [|[a y] r IH]; [reflexivity|]. cbn [aremove]. destruct (N.eqb_spec a k) as [->|Ha]; [exact IH|].
    cbn [aremove]. destruct (N.eqb_spec a k); [contradiction|]. rewrite IH. reflexivity.
  Qed.

  Lemma aremove_absent k l : alookup k l = None -> aremove k l = l.
  Proof.
    induction l as [|[a y] r IH]; [reflexivity|]. cbn [alookup aremove]. destruct (N.eqb a k); [discriminate|].
    intros H. rewrite IH by exact H. reflexivity.
  Qed.

  Lemma alookup_filter (f : N * A -> bool) k l : WF l ->
    alookup k (filter f l) = match alookup k l with Some x => if f (k, x) then Some x else None | None => None end.
  Proof.
    induction l as [|[a y] r IH]; intros Hw; [reflexivity|]. unfold WF in Hw. cbn [keys map fst] in Hw.
    apply NoDup_cons_iff in Hw. destruct Hw as [Hn Hw]. cbn [filter alookup]. destruct (N.eqb_spec a k) as [->|Ha].
    - destruct (f (k, y)) eqn:Ef; [cbn [alookup]; rewrite N.eqb_refl; reflexivity|].
      rewrite IH by exact Hw. change (~ In k (keys r)) in Hn. apply alookup_none_keys in Hn. rewrite Hn. reflexivity.
    - destruct (f (a, y)); [cbn [alookup]; destruct (N.eqb_spec a k); [contradiction|]|]; apply IH; exact Hw.
  Qed.

  Lemma WF_filter (f : N * A -> bool) l : WF l -> WF (filter f l).
  Proof. unfold WF, keys. apply NoDup_map_filter. Qed.
End AList.

(* ------------------------------------------------------------------ groups: what depends on what *)
Lemma in_insert_sorted x y l : In x (insert_sorted y l) <-> x = y \/ In x l.
Proof.
  induction l as [|z r IH]; [cbn; intuition congruence|]. cbn [insert_sorted]. destruct (y <=? z)%N; [cbn; intuition congruence|].
  cbn [In]. rewrite IH. intuition congruence.
Qed.

Lemma in_sort_n x l : In x (sort_n l) <-> In x l.
Proof.
  induction l as [|y r IH]; [reflexivity|]. unfold sort_n in *. cbn [fold_right]. rewrite in_insert_sorted, IH. cbn. intuition congruence.
Qed.

Lemma in_dedup x l : In x (dedup l) <-> In x l.
Proof.
  induction l as [|y r IH]; [reflexivity|]. cbn [dedup]. destruct (mem_n y r) eqn:E.
  - rewrite IH. cbn. split; [intros H; right; exact H|]. intros [<-|H]; [apply mem_n_in; exact E|exact H].
  - cbn [In]. rewrite IH. reflexivity.
Qed.

Lemma balance_ext np1 np2 s ms ow : np1 s = np2 s -> balance np1 s ms ow = balance np2 s ms ow.
Proof. intros H. unfold balance. rewrite H. reflexivity. Qed.

Lemma fold_balance_ext np1 np2 ms L : (forall s, In s L -> np1 s = np2 s) ->
  forall ow, fold_left (fun ow s => balance np1 s ms ow) L ow = fold_left (fun ow s => balance np2 s ms ow) L ow.
Proof.
  induction L as [|s r IH]; intros H ow; [reflexivity|]. cbn [fold_left].
  rewrite (balance_ext np1 np2 s) by (apply H; left; reflexivity). apply IH. intros x Hx. apply H. right. exact Hx.
Qed.

Lemma add_member_ext np1 np2 g c ss e : (forall s, In s ss -> np1 s = np2 s) ->
  add_member np1 g c ss e = add_member np2 g c ss e.
Proof.
  intros H. unfold add_member. destruct (e <? g_epoch g)%N; [reflexivity|]. f_equal. f_equal.
  apply fold_balance_ext. intros s Hs. apply H. rewrite in_sort_n, in_dedup in Hs. exact Hs.
Qed.

(* every stream some member subscribes to *)
Definition subscribed (g : group) (s : sid) : Prop := exists m, In m (g_members g) /\ In s (m_streams m).

Lemma fold_balance_cond_ext np1 np2 ms (cond : sid -> list triple -> bool) L :
  (forall s, In s L -> np1 s = np2 s) ->
  forall ow, fold_left (fun ow s => if cond s ow then balance np1 s ms ow else ow) L ow =
             fold_left (fun ow s => if cond s ow then balance np2 s ms ow else ow) L ow.
Proof.
  induction L as [|s r IH]; intros H ow; [reflexivity|]. cbn [fold_left].
  rewrite (balance_ext np1 np2 s) by (apply H; left; reflexivity). apply IH. intros x Hx. apply H. right. exact Hx.
Qed.

Lemma remove_member_ext np1 np2 g c e : (forall s, subscribed g s -> np1 s = np2 s) ->
  remove_member np1 g c e = remove_member np2 g c e.
Proof.
  intros H. unfold remove_member. destruct (e <? g_epoch g)%N; [reflexivity|].
  destruct (find (fun m => N.eqb (m_id m) c) (g_members g)) as [lv|] eqn:Ef; [|reflexivity].
  apply find_some_in in Ef. destruct Ef as [Hin _]. f_equal. f_equal. f_equal.
  apply (fold_balance_cond_ext np1 np2 _ (fun s _ => has_assignment c s (g_owners g))).
  intros s Hs. apply H. exists lv. split; assumption.
Qed.

Lemma stream_deleted_ext np1 np2 g s e : (forall x, subscribed g x -> np1 x = np2 x) ->
  stream_deleted np1 g s e = stream_deleted np2 g s e.
Proof.
  intros H. unfold stream_deleted. destruct (e <? g_epoch g)%N; [reflexivity|].
  destruct (negb (existsb (subscribes s) (g_members g))); [reflexivity|]. f_equal. f_equal.
  apply fold_balance_ext. intros x Hx. apply H. rewrite in_sort_n, in_dedup in Hx.
  apply in_concat in Hx. destruct Hx as (l & Hl & Hx). apply in_map_iff in Hl. destruct Hl as (m & <- & Hm).
  apply filter_In in Hm. destruct Hm as [Hm _]. apply filter_In in Hx. destruct Hx as [Hx _]. exists m. split; assumption.
Qed.

Lemma in_aremove {A} k k' (x : A) l : In (k, x) (aremove k' l) -> In (k, x) l /\ k <> k'.
Proof.
  induction l as [|[a y] r IH]; [intros []|]. cbn [aremove]. destruct (N.eqb_spec a k') as [->|Ha].
  - intros H. destruct (IH H) as [H1 H2]. split; [right; exact H1|exact H2].
  - intros [[= -> ->]|H]; [split; [left; reflexivity|exact Ha]|]. destruct (IH H) as [H1 H2]. split; [right; exact H1|exact H2].
Qed.

Lemma in_aset {A} k k' (x y : A) l : In (k, x) (aset k' y l) -> (k = k' /\ x = y) \/ (In (k, x) l /\ k <> k').
Proof. unfold aset. intros [[= -> ->]|H]; [left; split; reflexivity|right; apply in_aremove; exact H]. Qed.

(* ------------------------------------------------------------------ what group operations do to the membership *)
Lemma add_member_shape np g c ss e g' : add_member np g c ss e = GOk g' ->
  g_members g' = g_members g ++ [mkMember c (sort_n (dedup ss))] /\ g_epoch g' = e.
Proof. unfold add_member. destruct (e <? g_epoch g)%N; [discriminate|]. intros [= <-]. split; reflexivity. Qed.

Lemma remove_member_shape np g c e g' : remove_member np g c e = GOk g' ->
  g_members g' = filter (fun m => negb (N.eqb (m_id m) c)) (g_members g) /\ g_epoch g' = e.
Proof.
  unfold remove_member. destruct (e <? g_epoch g)%N; [discriminate|].
  destruct (find _ (g_members g)); [|discriminate]. intros [= <-]. split; reflexivity.
Qed.

Lemma not_subscribed_existsb g s : existsb (subscribes s) (g_members g) = false <-> ~ subscribed g s.
Proof.
  split.
  - intros H (m & Hm & Hs). assert (E : existsb (subscribes s) (g_members g) = true).
    { apply existsb_exists. exists m. split; [exact Hm|]. unfold subscribes. apply mem_n_in. exact Hs. }
    congruence.
  - intros H. destruct (existsb (subscribes s) (g_members g)) eqn:E; [|reflexivity]. exfalso. apply H.
    apply existsb_exists in E. destruct E as (m & Hm & Hs). exists m. split; [exact Hm|]. apply mem_n_in. exact Hs.
Qed.

(* after the notification nobody subscribes to s, nothing new is subscribed, the epoch is the old one or e *)
Lemma stream_deleted_shape np g s e g' : stream_deleted np g s e = GOk g' ->
  ~ subscribed g' s /\ (forall x, subscribed g' x -> subscribed g x /\ x <> s) /\ (g_epoch g' = g_epoch g \/ g_epoch g' = e).
Proof.
  unfold stream_deleted. destruct (e <? g_epoch g)%N; [discriminate|].
  destruct (existsb (subscribes s) (g_members g)) eqn:E; cbn [negb].
  - intros [= <-]. cbn [g_members g_epoch].
    assert (Hsub : forall x, subscribed (mkGroup (map (fun m => mkMember (m_id m) (filter (fun y => negb (N.eqb y s)) (m_streams m))) (g_members g)) [] 0%N) x ->
                             subscribed g x /\ x <> s).
    { intros x (m' & Hm' & Hx). cbn [g_members] in Hm'. apply in_map_iff in Hm'. destruct Hm' as (m & <- & Hm). cbn [m_streams] in Hx.
      apply filter_In in Hx. destruct Hx as [Hx Hn]. split; [exists m; split; assumption|]. intros ->. rewrite N.eqb_refl in Hn. discriminate. }
    split; [|split; [|right; reflexivity]].
    + intros (m' & Hm' & Hx). destruct (Hsub s) as [_ Hn]; [exists m'; split; assumption|]. apply Hn. reflexivity.
    + intros x (m' & Hm' & Hx). apply Hsub. exists m'. split; assumption.
  - intros [= <-]. split; [apply not_subscribed_existsb; exact E|]. split; [|left; reflexivity].
    intros x Hx. split; [exact Hx|]. intros ->. apply not_subscribed_existsb in E. contradiction.
Qed.

Lemma stream_deleted_not_refused np g s e : (g_epoch g <= e)%N -> exists g', stream_deleted np g s e = GOk g'.
Proof.
  intros H. unfold stream_deleted. destruct (N.ltb_spec e (g_epoch g)); [lia|].
  destruct (negb (existsb (subscribes s) (g_members g))); eexists; reflexivity.
Qed.

Lemma stream_deleted_noop np g s e : ~ subscribed g s -> stream_deleted np g s e = GOk g \/ stream_deleted np g s e = GRefused.
Proof.
  intros H. unfold stream_deleted. destruct (e <? g_epoch g)%N; [right; reflexivity|].
  apply not_subscribed_existsb in H. rewrite H. left. reflexivity.
Qed.

(* the other streams of the affected consumers are all that a notification looks at *)
Lemma stream_deleted_ext' np1 np2 g s e : (forall x, subscribed g x -> x <> s -> np1 x = np2 x) ->
  stream_deleted np1 g s e = stream_deleted np2 g s e.
Proof.
  intros H. unfold stream_deleted. destruct (e <? g_epoch g)%N; [reflexivity|].
  destruct (negb (existsb (subscribes s) (g_members g))); [reflexivity|]. f_equal. f_equal.
  apply fold_balance_ext. intros x Hx. rewrite in_sort_n, in_dedup in Hx.
  apply in_concat in Hx. destruct Hx as (l & Hl & Hx). apply in_map_iff in Hl. destruct Hl as (m & <- & Hm).
  apply filter_In in Hm. destruct Hm as [Hm _]. apply filter_In in Hx. destruct Hx as [Hx Hn].
  apply H; [exists m; split; assumption|]. intros ->. rewrite N.eqb_refl in Hn. discriminate.
Qed.

(* ------------------------------------------------------------------ replay state vs live state *)
Definition nt (kv : sid * strm) : bool := negb (st_tomb (snd kv)).
Definition cstrip (c : core) : core := mkCore (filter nt (c_streams c)) (c_groups c).

Definition alive (streams : list (sid * strm)) (s : sid) : Prop :=
  exists st, alookup s streams = Some st /\ st_tomb st = false.

Definition GInv (idx : N) (c : core) : Prop :=
  forall g gr, In (g, gr) (c_groups c) ->
    (g_epoch (gr_g gr) < idx)%N /\ forall s, subscribed (gr_g gr) s -> alive (c_streams c) s.

Definition RInv (idx : N) (c : core) : Prop := WF (c_streams c) /\ WF (c_groups c) /\ GInv idx c.

Lemma alookup_strip l s : WF l ->
  alookup s (filter nt l) = match alookup s l with Some st => if st_tomb st then None else Some st | None => None end.
Proof.
  intros Hw. rewrite alookup_filter by exact Hw. destruct (alookup s l) as [st|]; [|reflexivity].
  unfold nt. cbn [snd]. destruct (st_tomb st); reflexivity.
Qed.

Lemma np_agree l s : WF l -> (alive l s \/ alookup s l = None) -> nparts_of (filter nt l) s = nparts_of l s.
Proof.
  intros Hw H. unfold nparts_of. rewrite alookup_strip by exact Hw. destruct H as [(st & E & Ht)|E]; rewrite E; [rewrite Ht|]; reflexivity.
Qed.

Lemma notify_noop np s e gs : (forall g gr, In (g, gr) gs -> ~ subscribed (gr_g gr) s) -> notify_deleted np s e gs = gs.
Proof.
  intros H. unfold notify_deleted. induction gs as [|[g gr] r IH]; [reflexivity|]. cbn [map fst snd].
  rewrite IH by (intros g' gr' Hin; apply (H g'); right; exact Hin). f_equal. f_equal.
  unfold notify_group. destruct (stream_deleted_noop np (gr_g gr) s e (H g gr (or_introl eq_refl))) as [E|E]; rewrite E; [destruct gr|]; reflexivity.
Qed.

Lemma notify_ext np1 np2 s e gs : (forall g gr x, In (g, gr) gs -> subscribed (gr_g gr) x -> x <> s -> np1 x = np2 x) ->
  notify_deleted np1 s e gs = notify_deleted np2 s e gs.
Proof.
  intros H. unfold notify_deleted. apply map_ext_in. intros [g gr] Hin. cbn [fst snd]. f_equal. unfold notify_group.
  rewrite (stream_deleted_ext' np1 np2) by (intros x Hx Hn; apply (H g gr x Hin Hx Hn)). reflexivity.
Qed.

Lemma keys_notify np s e gs : keys (notify_deleted np s e gs) = keys gs.
Proof. unfold notify_deleted, keys. rewrite map_map. reflexivity. Qed.

Lemma in_notify np s e gs g gr' : In (g, gr') (notify_deleted np s e gs) -> exists gr, In (g, gr) gs /\ gr' = notify_group np s e gr.
Proof. unfold notify_deleted. intros H. apply in_map_iff in H. destruct H as ([g0 gr] & [= <- <-] & Hin). exists gr. split; [exact Hin|reflexivity]. Qed.

Lemma alive_aset_other l s x st : x <> s -> alive l x -> alive (aset s st l) x.
Proof. intros Hn (st0 & E & Ht). exists st0. rewrite alookup_aset_other by exact Hn. split; assumption. Qed.

Lemma alive_aset_same l s st : st_tomb st = false -> alive (aset s st l) s.
Proof. intros Ht. exists st. rewrite alookup_aset_same. split; [reflexivity|exact Ht]. Qed.

Lemma strip_aset l s st : st_tomb st = false -> filter nt (aset s st l) = aset s st (filter nt l).
Proof. intros Ht. unfold aset. cbn [filter]. unfold nt at 1. cbn [snd]. rewrite Ht. cbn [negb]. rewrite aremove_filter. reflexivity. Qed.

Lemma strip_aset_tomb l s st : st_tomb st = true -> filter nt (aset s st l) = aremove s (filter nt l).
Proof. intros Ht. unfold aset. cbn [filter]. unfold nt at 1. cbn [snd]. rewrite Ht. cbn [negb]. rewrite aremove_filter. reflexivity. Qed.

(* operations on one stream: the same on the replay state as on its live part *)
Lemma with_stream_strip P s f L' : WF (c_streams P) ->
  (forall st st', f st = Some st' -> st_tomb st' = st_tomb st) ->
  with_stream (cstrip P) s f = Some L' ->
  exists P', with_stream P s f = Some P' /\ cstrip P' = L' /\ WF (c_streams P') /\ c_groups P' = c_groups P /\
             (forall x, alive (c_streams P) x -> alive (c_streams P') x).
Proof.
  intros Hw Hf H. unfold with_stream in *. cbn [cstrip c_streams c_groups] in H.
  rewrite alookup_strip in H by exact Hw. destruct (alookup s (c_streams P)) as [st|] eqn:E; [|discriminate].
  destruct (st_tomb st) eqn:Et; [discriminate|]. destruct (f st) as [st'|] eqn:Ef; [|discriminate]. injection H as <-.
  pose proof (Hf st st' Ef) as Ht'. rewrite Et in Ht'.
  eexists. split; [reflexivity|]. split; [|split; [|split]].
  - unfold cstrip. cbn [c_streams c_groups]. rewrite strip_aset by exact Ht'. reflexivity.
  - cbn [c_streams]. apply WF_aset. exact Hw.
  - reflexivity.
  - cbn [c_streams]. intros x Hx. destruct (N.eq_dec x s) as [->|Hn]; [apply alive_aset_same; exact Ht'|apply alive_aset_other; assumption].
Qed.

Lemma GInv_streams idx P P' : c_groups P' = c_groups P -> (forall x, alive (c_streams P) x -> alive (c_streams P') x) ->
  GInv idx P -> GInv (idx + 1) P'.
Proof.
  intros Hg Ha Hi g gr Hin. rewrite Hg in Hin. destruct (Hi g gr Hin) as [He Hs]. split; [lia|]. intros s Hsub. apply Ha. apply Hs. exact Hsub.
Qed.

Lemma stream_op_commutes idx P s f L' : RInv idx P ->
  (forall st st', f st = Some st' -> st_tomb st' = st_tomb st) ->
  with_stream (cstrip P) s f = Some L' ->
  exists P', with_stream P s f = Some P' /\ cstrip P' = L' /\ RInv (idx + 1) P'.
Proof.
  intros (Hw & Hwg & Hi) Hf H. destruct (with_stream_strip P s f L' Hw Hf H) as (P' & E & Hs & Hw' & Hg & Ha).
  exists P'. split; [exact E|]. split; [exact Hs|]. split; [exact Hw'|]. split; [rewrite Hg; exact Hwg|].
  apply (GInv_streams idx P P' Hg Ha Hi).
Qed.

Lemma with_part_tomb (f : part -> option part) p st st' :
  (if valid_pid (st_parts st) p then
     match nth_part (st_parts st) (Z.to_nat p) with
     | None => None
     | Some q => match f q with None => None | Some q' => Some (mkStrm (set_part (st_parts st) (Z.to_nat p) q') (st_tomb st)) end
     end
   else None) = Some st' -> st_tomb st' = st_tomb st.
Proof.
  destruct (valid_pid _ _); [|discriminate]. destruct (nth_part _ _) as [q|]; [|discriminate]. destruct (f q); [|discriminate].
  intros [= <-]. reflexivity.
Qed.

Lemma pre_exists_alive P s : WF (c_streams P) -> stream_exists (cstrip P) s = true -> alive (c_streams P) s.
Proof.
  intros Hw H. unfold stream_exists in H. cbn [cstrip c_streams] in H. rewrite alookup_strip in H by exact Hw.
  destruct (alookup s (c_streams P)) as [st|] eqn:E; [|discriminate]. destruct (st_tomb st) eqn:Et; [discriminate|].
  exists st. split; [exact E|exact Et].
Qed.

Lemma GInv_set_group idx P g gr : GInv idx P -> (g_epoch (gr_g gr) < idx + 1)%N ->
  (forall s, subscribed (gr_g gr) s -> alive (c_streams P) s) -> GInv (idx + 1) (set_group P g gr).
Proof.
  intros Hi He Hs g' gr' Hin. cbn [set_group c_groups c_streams] in *. apply in_aset in Hin. destruct Hin as [[-> ->]|[Hin _]].
  - split; assumption.
  - destruct (Hi g' gr' Hin) as [H1 H2]. split; [lia|exact H2].
Qed.

(* One replayed operation: it succeeds whenever the live one does, the live part of the result is
   the live result, and the invariants are kept. *)
Lemma step_commutes idx P o L' : RInv idx P -> pre (cstrip P) o = true ->
  apply_core fixed false idx (cstrip P) o = Some L' ->
  exists P', apply_core fixed true idx P o = Some P' /\ cstrip P' = L' /\ RInv (idx + 1) P'.
Proof.
  intros HR Hpre H. pose proof HR as (Hw & Hwg & Hi).
  destruct o as [s n reps|s|s ps ra|s ps|s ps ro|s p r|s p r|s p l|g coord c ss|g c ss|g c|g coord|i].
  - (* create *)
    cbn [apply_core] in *. destruct n as [|n]; [discriminate|]. destruct reps as [|b reps]; [discriminate|].
    cbn [cstrip c_streams] in H. rewrite alookup_strip in H by exact Hw.
    destruct (alookup s (c_streams P)) as [st|] eqn:E.
    + destruct (st_tomb st) eqn:Et; [|discriminate]. cbn [andb]. injection H as <-.
      (* un-tombstone: nobody subscribes to a tombstoned stream, the notification changes nothing *)
      assert (Hno : forall g gr, In (g, gr) (c_groups P) -> ~ subscribed (gr_g gr) s).
      { intros g gr Hin Hsub. destruct (Hi g gr Hin) as [_ Ha]. destruct (Ha s Hsub) as (st0 & E0 & Ht0). congruence. }
      eexists. split; [reflexivity|]. unfold remove_stream, add_stream. cbn [c_streams c_groups]. rewrite notify_noop by exact Hno.
      split; [|split; [|split]].
      * unfold cstrip, add_stream. cbn [c_streams c_groups]. rewrite strip_aset by reflexivity.
        unfold aset. rewrite <- !aremove_filter, aremove_idem. reflexivity.
      * cbn [c_streams]. apply WF_aset. apply WF_aremove. exact Hw.
      * exact Hwg.
      * intros g gr Hin. cbn [c_groups c_streams] in *. destruct (Hi g gr Hin) as [He Ha]. split; [lia|]. intros x Hx.
        destruct (N.eq_dec x s) as [->|Hn]; [apply alive_aset_same; reflexivity|]. apply alive_aset_other; [exact Hn|].
        destruct (Ha x Hx) as (st0 & E0 & Ht0). exists st0. rewrite alookup_aremove_other by exact Hn. split; assumption.
    + injection H as <-. eexists. split; [reflexivity|]. split; [|split; [|split]].
      * unfold cstrip, add_stream. cbn [c_streams c_groups]. rewrite strip_aset by reflexivity. reflexivity.
      * cbn [add_stream c_streams]. apply WF_aset. exact Hw.
      * exact Hwg.
      * apply (GInv_streams idx P); [reflexivity| |exact Hi]. cbn [add_stream c_streams]. intros x Hx.
        destruct (N.eq_dec x s) as [->|Hn]; [apply alive_aset_same; reflexivity|apply alive_aset_other; assumption].
  - (* delete *)
    cbn [apply_core] in *. cbn [cstrip c_streams] in H. rewrite alookup_strip in H by exact Hw.
    destruct (alookup s (c_streams P)) as [st|] eqn:E; [|discriminate]. destruct (st_tomb st) eqn:Et; [discriminate|]. injection H as <-.
    cbn [fixed v_notify]. eexists. split; [reflexivity|].
    set (streams' := aset s (mkStrm (st_parts st) true) (c_streams P)).
    assert (Hagree : forall g gr x, In (g, gr) (c_groups P) -> subscribed (gr_g gr) x -> x <> s ->
                     nparts_of (aremove s (filter nt (c_streams P))) x = nparts_of streams' x).
    { intros g gr x Hin Hx Hn. destruct (Hi g gr Hin) as [_ Ha]. unfold nparts_of, streams'.
      rewrite alookup_aremove_other, alookup_aset_other by exact Hn. apply (np_agree (c_streams P) x Hw). left. apply Ha. exact Hx. }
    split; [|split; [|split]].
    + unfold cstrip, remove_stream. cbn [c_streams c_groups]. f_equal.
      * unfold streams'. apply strip_aset_tomb. reflexivity.
      * symmetry. apply notify_ext. exact Hagree.
    + cbn [c_streams]. apply WF_aset. exact Hw.
    + cbn [c_groups]. unfold WF. rewrite keys_notify. exact Hwg.
    + intros g gr' Hin. cbn [c_groups c_streams] in *. apply in_notify in Hin. destruct Hin as (gr & Hin & ->).
      destruct (Hi g gr Hin) as [He Ha]. unfold notify_group.
      destruct (stream_deleted_not_refused (nparts_of streams') (gr_g gr) s idx ltac:(lia)) as (g' & Eg). rewrite Eg. cbn [gr_g].
      destruct (stream_deleted_shape _ _ _ _ _ Eg) as (Hns & Hsub & Hep). split; [destruct Hep as [->| ->]; lia|].
      intros x Hx. destruct (Hsub x Hx) as [Hx' Hn]. apply alive_aset_other; [exact Hn|]. apply Ha. exact Hx'.
  - (* pause *)
    cbn [apply_core] in *. apply (stream_op_commutes idx P s _ L' HR); [|exact H].
    intros st st'. destruct (forallb _ ps); [|discriminate]. intros [= <-]. reflexivity.
  - cbn [apply_core] in *. apply (stream_op_commutes idx P s _ L' HR); [|exact H].
    intros st st'. destruct (forallb _ ps); [|discriminate]. intros [= <-]. reflexivity.
  - cbn [apply_core] in *. apply (stream_op_commutes idx P s _ L' HR); [|exact H].
    intros st st'. destruct (forallb _ ps); [|discriminate]. intros [= <-]. reflexivity.
  - cbn [apply_core] in *. unfold with_part in *. apply (stream_op_commutes idx P s _ L' HR); [|exact H]. intros st st'. apply with_part_tomb.
  - cbn [apply_core] in *. unfold with_part in *. apply (stream_op_commutes idx P s _ L' HR); [|exact H]. intros st st'. apply with_part_tomb.
  - cbn [apply_core] in *. unfold with_part in *. apply (stream_op_commutes idx P s _ L' HR); [|exact H]. intros st st'. apply with_part_tomb.
  - (* group create *)
    cbn [apply_core pre] in *. cbn [cstrip c_groups c_streams] in *. destruct (alookup g (c_groups P)) eqn:Eg; [discriminate|].
    assert (Hss : forall s, In s ss -> alive (c_streams P) s).
    { intros s Hs. apply pre_exists_alive; [exact Hw|]. rewrite forallb_forall in Hpre. apply Hpre. exact Hs. }
    rewrite (add_member_ext _ (nparts_of (c_streams P))) in H by (intros s Hs; apply np_agree; [exact Hw|left; apply Hss; exact Hs]).
    destruct (add_member (nparts_of (c_streams P)) new_group c ss 0%N) as [g'| |] eqn:Ea; try discriminate. injection H as <-.
    eexists. split; [reflexivity|]. split; [reflexivity|]. split; [exact Hw|]. split; [apply WF_aset; exact Hwg|].
    destruct (add_member_shape _ _ _ _ _ _ Ea) as [Hm He]. apply GInv_set_group; [exact Hi|cbn [gr_g]; lia|]. cbn [gr_g].
    intros s (m & Hm' & Hs). rewrite Hm in Hm'. cbn [new_group g_members app] in Hm'. destruct Hm' as [<-|[]]. cbn [m_streams] in Hs.
    rewrite in_sort_n, in_dedup in Hs. apply Hss. exact Hs.
  - (* join *)
    cbn [apply_core pre] in *. cbn [cstrip c_groups c_streams] in *. destruct (alookup g (c_groups P)) as [gr|] eqn:Eg; [|discriminate].
    apply andb_true_iff in Hpre. destruct Hpre as [_ Hpre].
    assert (Hss : forall s, In s ss -> alive (c_streams P) s).
    { intros s Hs. apply pre_exists_alive; [exact Hw|]. rewrite forallb_forall in Hpre. apply Hpre. exact Hs. }
    rewrite (add_member_ext _ (nparts_of (c_streams P))) in H by (intros s Hs; apply np_agree; [exact Hw|left; apply Hss; exact Hs]).
    destruct (add_member (nparts_of (c_streams P)) (gr_g gr) c ss idx) as [g'| |] eqn:Ea; try discriminate. injection H as <-.
    eexists. split; [reflexivity|]. split; [reflexivity|]. split; [exact Hw|]. split; [apply WF_aset; exact Hwg|].
    destruct (add_member_shape _ _ _ _ _ _ Ea) as [Hm He]. apply alookup_in in Eg. destruct (Hi g gr Eg) as [_ Ha].
    apply GInv_set_group; [exact Hi|cbn [gr_g]; lia|]. cbn [gr_g].
    intros s (m & Hm' & Hs). rewrite Hm in Hm'. apply in_app_or in Hm'. destruct Hm' as [Hm'|[<-|[]]].
    + apply Ha. exists m. split; assumption.
    + cbn [m_streams] in Hs. rewrite in_sort_n, in_dedup in Hs. apply Hss. exact Hs.
  - (* leave *)
    cbn [apply_core] in *. cbn [cstrip c_groups c_streams] in *. destruct (alookup g (c_groups P)) as [gr|] eqn:Eg; [|discriminate].
    pose proof (alookup_in _ _ _ Eg) as Hin. destruct (Hi g gr Hin) as [_ Ha].
    rewrite (remove_member_ext _ (nparts_of (c_streams P))) in H by (intros s Hs; apply np_agree; [exact Hw|left; apply Ha; exact Hs]).
    destruct (remove_member (nparts_of (c_streams P)) (gr_g gr) c idx) as [g'| |] eqn:Er; try discriminate. injection H as <-.
    destruct (remove_member_shape _ _ _ _ _ Er) as [Hm He].
    assert (Hsubset : forall s, subscribed g' s -> subscribed (gr_g gr) s).
    { intros s (m0 & Hm0 & Hs). exists m0. split; [|exact Hs]. rewrite Hm in Hm0. apply filter_In in Hm0. apply Hm0. }
    clear Hm.
    eexists. split; [reflexivity|]. destruct (g_members g') eqn:Em.
    + split; [reflexivity|]. split; [exact Hw|]. split; [apply WF_aremove; exact Hwg|].
      intros g0 gr0 Hin0. cbn [c_groups c_streams] in *. apply in_aremove in Hin0. destruct Hin0 as [Hin0 _].
      destruct (Hi g0 gr0 Hin0) as [H1 H2]. split; [lia|exact H2].
    + split; [reflexivity|]. split; [exact Hw|]. split; [apply WF_aset; exact Hwg|].
      apply GInv_set_group; [exact Hi|cbn [gr_g]; lia|]. cbn [gr_g]. intros s Hs. apply Ha. apply Hsubset. exact Hs.
  - (* coordinator *)
    cbn [apply_core] in *. cbn [cstrip c_groups c_streams] in *. destruct (alookup g (c_groups P)) as [gr|] eqn:Eg; [|discriminate].
    pose proof (alookup_in _ _ _ Eg) as Hin. destruct (Hi g gr Hin) as [He Ha].
    destruct (idx <=? g_epoch (gr_g gr))%N.
    + injection H as <-. exists P. split; [reflexivity|]. split; [reflexivity|]. split; [exact Hw|]. split; [exact Hwg|].
      intros g0 gr0 Hin0. destruct (Hi g0 gr0 Hin0) as [H1 H2]. split; [lia|exact H2].
    + injection H as <-. eexists. split; [reflexivity|]. split; [reflexivity|]. split; [exact Hw|]. split; [apply WF_aset; exact Hwg|].
      apply GInv_set_group; [exact Hi|cbn [gr_g g_epoch]; lia|]. cbn [gr_g]. intros s (m0 & Hm0 & Hs). apply Ha. exists m0. split; assumption.
  - (* activity *)
    cbn [apply_core] in *. injection H as <-. exists P. split; [reflexivity|]. split; [reflexivity|]. split; [exact Hw|]. split; [exact Hwg|].
    intros g0 gr0 Hin0. destruct (Hi g0 gr0 Hin0) as [H1 H2]. split; [lia|exact H2].
Qed.

(* ------------------------------------------------------------------ finishedRecovery *)
Lemma aremove_as_filter {A} k (l : list (N * A)) : aremove k l = filter (fun kv => negb (N.eqb (fst kv) k)) l.
Proof.
  induction l as [|[a y] r IH]; [reflexivity|]. cbn [aremove filter fst]. destruct (N.eqb a k); cbn [negb]; rewrite IH; reflexivity.
Qed.

Lemma filter_filter_and {A} (p q : A -> bool) l : filter p (filter q l) = filter (fun x => q x && p x) l.
Proof.
  induction l as [|x t IH]; [reflexivity|]. cbn [filter]. destruct (q x); cbn [andb filter]; [destruct (p x)|]; rewrite IH; reflexivity.
Qed.

Definition drop_tombs (l0 S : list (sid * strm)) : list (sid * strm) :=
  fold_left (fun s kv => if st_tomb (snd kv) then aremove (fst kv) s else s) l0 S.

Lemma finish_fold e l0 S G :
  (forall kv, In kv l0 -> st_tomb (snd kv) = true -> forall g gr, In (g, gr) G -> ~ subscribed (gr_g gr) (fst kv)) ->
  fold_left (fun acc kv => if st_tomb (snd kv) then remove_stream acc (fst kv) e else acc) l0 (mkCore S G) = mkCore (drop_tombs l0 S) G.
Proof.
  revert S. induction l0 as [|[k st] r IH]; intros S H; [reflexivity|]. unfold drop_tombs. cbn [fold_left fst snd].
  destruct (st_tomb st) eqn:Et.
  - unfold remove_stream. cbn [c_streams c_groups]. rewrite notify_noop by (apply (H (k, st) (or_introl eq_refl) Et)).
    apply IH. intros kv' Hin. apply H. right. exact Hin.
  - apply IH. intros kv' Hin. apply H. right. exact Hin.
Qed.

Lemma drop_tombs_filter l0 S :
  drop_tombs l0 S = filter (fun kv => forallb (fun kv' => negb (st_tomb (snd kv') && N.eqb (fst kv) (fst kv'))) l0) S.
Proof.
  revert S. induction l0 as [|[k' st'] r IH]; intros S.
  - cbn. symmetry. apply filter_all_true. reflexivity.
  - unfold drop_tombs. cbn [fold_left fst snd]. change (fold_left _ r ?x) with (drop_tombs r x). destruct (st_tomb st') eqn:Et.
    + rewrite IH, aremove_as_filter, filter_filter_and. apply filter_ext_in. intros x _. cbn [forallb fst snd].
      rewrite Et. reflexivity.
    + rewrite IH. apply filter_ext_in. intros x _. cbn [forallb fst snd]. rewrite Et. reflexivity.
Qed.

Lemma drop_tombs_self S : WF S -> drop_tombs S S = filter nt S.
Proof.
  intros Hw. rewrite drop_tombs_filter. apply filter_ext_in. intros [k st] Hin. unfold nt. cbn [fst snd].
  destruct (st_tomb st) eqn:Et; cbn [negb].
  - (* the entry itself is a tombstone *)
    apply not_true_is_false. intros H. rewrite forallb_forall in H. specialize (H (k, st) Hin). cbn [fst snd] in H.
    rewrite Et, N.eqb_refl in H. discriminate.
  - apply forallb_forall. intros [k' st'] Hin'. cbn [fst snd]. destruct (st_tomb st') eqn:Et'; [|reflexivity]. cbn [andb].
    destruct (N.eqb_spec k k') as [<-|Hn]; [|reflexivity].
    (* same key: by uniqueness it is the same entry *)
    pose proof (in_alookup k S st Hw Hin) as E1. pose proof (in_alookup k S st' Hw Hin') as E2. congruence.
Qed.

Theorem finish_is_strip idx e P : RInv idx P -> finish_core e P = cstrip P.
Proof.
  intros (Hw & Hwg & Hi). unfold finish_core. destruct P as [S G]. cbn [c_streams c_groups] in *.
  rewrite finish_fold.
  - rewrite drop_tombs_self by exact Hw. reflexivity.
  - intros [k st] Hin Ht g gr HinG Hsub. cbn [fst snd] in *. destruct (Hi g gr HinG) as [_ Ha].
    destruct (Ha k Hsub) as (st0 & E0 & Ht0). cbn [c_streams] in E0. rewrite (in_alookup k S st Hw Hin) in E0. congruence.
Qed.

(* ------------------------------------------------------------------ whole runs *)
Lemma run_commutes ops : forall idx P L, RInv idx P -> valid_run fixed idx (cstrip P) ops = true ->
  run_core fixed false idx (cstrip P) ops = Some L ->
  exists P', run_core fixed true idx P ops = Some P' /\ cstrip P' = L /\ RInv (idx + N.of_nat (length ops)) P'.
Proof.
  induction ops as [|o r IH]; intros idx P L HR Hv H.
  - cbn in *. injection H as <-. exists P. split; [reflexivity|]. split; [reflexivity|]. rewrite N.add_0_r. exact HR.
  - cbn [valid_run run_core] in *. apply andb_true_iff in Hv. destruct Hv as [Hpre Hv].
    destruct (apply_core fixed false idx (cstrip P) o) as [L1|] eqn:E1; [|discriminate].
    destruct (step_commutes idx P o L1 HR Hpre E1) as (P1 & E2 & Hs & HR1). rewrite E2. subst L1.
    destruct (IH (idx + 1)%N P1 L HR1 Hv H) as (P' & E3 & Hs' & HR'). exists P'. split; [exact E3|]. split; [exact Hs'|].
    cbn [length]. replace (idx + N.of_nat (S (length r)))%N with (idx + 1 + N.of_nat (length r))%N by lia. exact HR'.
Qed.

(* Replaying the whole log into an empty server and finishing recovery rebuilds exactly the
   metadata the live servers have: streams, partitions (replicas, ISR, leaders, epochs, paused and
   read-only flags), consumer groups, members, epochs, assignments. *)
Theorem replay_from_scratch ops L : valid_run fixed 1 empty_core ops = true ->
  run_core fixed false 1 empty_core ops = Some L ->
  exists P, run_core fixed true 1 empty_core ops = Some P /\ finish_core (N.of_nat (length ops)) P = L.
Proof.
  intros Hv H. assert (HR : RInv 1 empty_core).
  { split; [constructor|]. split; [constructor|]. intros g gr []. }
  destruct (run_commutes ops 1%N empty_core L HR Hv H) as (P & E & Hs & HR'). exists P. split; [exact E|].
  rewrite (finish_is_strip _ _ P HR'). exact Hs.
Qed.

(* ------------------------------------------------------------------ strictly sorted lists of names *)
Fixpoint ssorted (l : list N) : Prop :=
  match l with
  | [] => True
  | x :: r => (forall y, In y r -> (x < y)%N) /\ ssorted r
  end.

Lemma insert_sorted_ssorted x l : ssorted l -> ~ In x l -> ssorted (insert_sorted x l).
Proof.
  induction l as [|y r IH]; intros Hs Hn; [cbn; split; [intros ? []|exact I]|]. destruct Hs as [Hy Hr]. cbn [insert_sorted].
  destruct (N.leb_spec x y) as [Hle|Hgt].
  - assert (x < y)%N by (assert (x <> y) by (intros ->; apply Hn; left; reflexivity); lia).
    cbn [ssorted]. split; [|split; assumption]. intros z [<-|Hz]; [assumption|]. specialize (Hy z Hz). lia.
  - cbn [ssorted]. split.
    + intros z Hz. apply in_insert_sorted in Hz. destruct Hz as [->|Hz]; [exact Hgt|apply Hy; exact Hz].
    + apply IH; [exact Hr|]. intros H. apply Hn. right. exact H.
Qed.

Lemma dedup_nodup l : NoDup (dedup l).
Proof.
  induction l as [|x r IH]; [constructor|]. cbn [dedup]. destruct (mem_n x r) eqn:E; [exact IH|].
  constructor; [|exact IH]. rewrite in_dedup. intros H. apply mem_n_in in H. congruence.
Qed.

Lemma sort_n_ssorted l : NoDup l -> ssorted (sort_n l).
Proof.
  induction l as [|x r IH]; intros Hn; [exact I|]. apply NoDup_cons_iff in Hn. destruct Hn as [Hx Hr].
  unfold sort_n. cbn [fold_right]. apply insert_sorted_ssorted; [apply IH; exact Hr|]. fold (sort_n r). rewrite in_sort_n. exact Hx.
Qed.

Lemma ssorted_nodup l : ssorted l -> NoDup l.
Proof.
  induction l as [|x r IH]; intros Hs; [constructor|]. destruct Hs as [Hx Hr]. constructor; [|apply IH; exact Hr].
  intros H. specialize (Hx x H). lia.
Qed.

Lemma dedup_id l : NoDup l -> dedup l = l.
Proof.
  induction l as [|x r IH]; intros Hn; [reflexivity|]. apply NoDup_cons_iff in Hn. destruct Hn as [Hx Hr]. cbn [dedup].
  destruct (mem_n x r) eqn:E; [apply mem_n_in in E; contradiction|]. rewrite IH by exact Hr. reflexivity.
Qed.

Lemma sort_n_id l : ssorted l -> sort_n l = l.
Proof.
  induction l as [|x r IH]; intros Hs; [reflexivity|]. destruct Hs as [Hx Hr]. unfold sort_n. cbn [fold_right]. fold (sort_n r).
  rewrite IH by exact Hr. destruct r as [|y t]; [reflexivity|]. cbn [insert_sorted]. specialize (Hx y (or_introl eq_refl)).
  destruct (N.leb_spec x y); [reflexivity|lia].
Qed.

Lemma normal_id l : ssorted l -> sort_n (dedup l) = l.
Proof. intros Hs. rewrite dedup_id by (apply ssorted_nodup; exact Hs). apply sort_n_id. exact Hs. Qed.

Lemma normal_ssorted l : ssorted (sort_n (dedup l)).
Proof. apply sort_n_ssorted. apply dedup_nodup. Qed.

Lemma ssorted_filter f l : ssorted l -> ssorted (filter f l).
Proof.
  induction l as [|x r IH]; intros Hs; [exact I|]. destruct Hs as [Hx Hr]. cbn [filter]. destruct (f x); [|apply IH; exact Hr].
  split; [|apply IH; exact Hr]. intros y Hy. apply filter_In in Hy. apply Hx. apply Hy.
Qed.

(* ------------------------------------------------------------------ invariants of live states *)
Definition part_ok (p : part) : Prop := p_pausedp p = p_paused p /\ p_ro p = p_rop p.
Definition PInv (c : core) : Prop := forall k st, In (k, st) (c_streams c) -> Forall part_ok (st_parts st).
Definition MInv (c : core) : Prop :=
  forall g gr m, In (g, gr) (c_groups c) -> In m (g_members (gr_g gr)) -> ssorted (m_streams m).
Definition NoTomb (c : core) : Prop := forall k st, In (k, st) (c_streams c) -> st_tomb st = false.

Lemma Forall_set_part (Q : part -> Prop) ps i q : Forall Q ps -> Q q -> Forall Q (set_part ps i q).
Proof.
  revert i. induction ps as [|p r IH]; intros i Hf Hq; [destruct i; constructor|]. inversion Hf as [|? ? Hp Hr]; subst.
  destruct i as [|j]; cbn [set_part]; constructor; auto.
Qed.

Lemma nth_part_Forall (Q : part -> Prop) ps i q : Forall Q ps -> nth_part ps i = Some q -> Q q.
Proof.
  revert i. induction ps as [|p r IH]; intros i Hf H; [destruct i; discriminate|]. inversion Hf as [|? ? Hp Hr]; subst.
  destruct i as [|j]; cbn [nth_part] in H; [injection H as <-; exact Hp|apply (IH j); assumption].
Qed.

Lemma Forall_map_parts (Q : part -> Prop) f ids ps : (forall p, Q p -> Q (f p)) -> Forall Q ps -> Forall Q (map_parts f ids ps).
Proof.
  intros Hf. unfold map_parts. revert ps. induction ids as [|i r IH]; intros ps Hp; [exact Hp|]. cbn [fold_left]. apply IH.
  destruct (nth_part ps (Z.to_nat i)) as [p|] eqn:E; [|exact Hp]. apply Forall_set_part; [exact Hp|]. apply Hf. apply (nth_part_Forall Q ps _ p Hp E).
Qed.

Lemma new_parts_ok n reps idx : Forall part_ok (new_parts n reps idx).
Proof. unfold new_parts. apply Forall_forall. intros p Hp. apply in_map_iff in Hp. destruct Hp as (i & <- & _). split; reflexivity. Qed.

Lemma PInv_with_stream c s f c' : PInv c ->
  (forall st st', f st = Some st' -> Forall part_ok (st_parts st) -> Forall part_ok (st_parts st')) ->
  with_stream c s f = Some c' -> PInv c'.
Proof.
  intros Hp Hf H. unfold with_stream in H. destruct (alookup s (c_streams c)) as [st|] eqn:E; [|discriminate].
  destruct (f st) as [st'|] eqn:Ef; [|discriminate]. injection H as <-. intros k st0 Hin. cbn [c_streams] in Hin.
  apply in_aset in Hin. destruct Hin as [[-> ->]|[Hin _]]; [|apply (Hp k); exact Hin].
  apply (Hf st _ Ef). apply (Hp s). apply alookup_in. exact E.
Qed.

Lemma PInv_step r idx c o c' : PInv c -> apply_core fixed r idx c o = Some c' -> PInv c'.
Proof.
  intros Hp H. destruct o as [s n reps|s|s ps ra|s ps|s ps ro|s p rr|s p rr|s p l|g coord cn ss|g cn ss|g cn|g coord|i]; cbn [apply_core] in H.
  - destruct n as [|n]; [discriminate|]. destruct reps as [|b reps]; [discriminate|].
    assert (Hnew : forall c0, PInv c0 -> PInv (add_stream c0 s (new_parts (S n) (b :: reps) idx))).
    { intros c0 H0 k st Hin. cbn [add_stream c_streams] in Hin. apply in_aset in Hin. destruct Hin as [[-> ->]|[Hin _]]; [apply new_parts_ok|apply (H0 k); exact Hin]. }
    destruct (alookup s (c_streams c)) as [st|]; [|injection H as <-; apply Hnew; exact Hp].
    destruct (r && st_tomb st); [|discriminate]. injection H as <-. apply Hnew. intros k st0 Hin. cbn [remove_stream c_streams] in Hin.
    apply in_aremove in Hin. apply (Hp k). apply Hin.
  - destruct (alookup s (c_streams c)) as [st|] eqn:E; [|discriminate]. destruct r; injection H as <-.
    + intros k st0 Hin. cbn [c_streams] in Hin. apply in_aset in Hin. destruct Hin as [[-> ->]|[Hin _]]; [|apply (Hp k); exact Hin].
      cbn [st_parts]. apply (Hp s). apply alookup_in. exact E.
    + intros k st0 Hin. cbn [remove_stream c_streams] in Hin. apply in_aremove in Hin. apply (Hp k). apply Hin.
  - refine (PInv_with_stream c s _ c' Hp _ H). intros st st'. destruct (forallb _ ps); [|discriminate]. intros [= <-] Hf. cbn [st_parts].
    apply Forall_map_parts; [|exact Hf]. intros p [H1 H2]. split; [reflexivity|exact H2].
  - refine (PInv_with_stream c s _ c' Hp _ H). intros st st'. destruct (forallb _ ps); [|discriminate]. intros [= <-] Hf. cbn [st_parts].
    apply Forall_map_parts; [|exact Hf]. intros p Hok. unfold resume_part. destruct (p_paused p); [split; reflexivity|exact Hok].
  - refine (PInv_with_stream c s _ c' Hp _ H). intros st st'. destruct (forallb _ ps); [|discriminate]. intros [= <-] Hf. cbn [st_parts].
    apply Forall_map_parts; [|exact Hf]. intros p [H1 H2]. split; [exact H1|reflexivity].
  - unfold with_part in H. refine (PInv_with_stream c s _ c' Hp _ H). intros st st'. destruct (valid_pid _ _); [|discriminate].
    destruct (nth_part _ _) as [q|] eqn:En; [|discriminate]. intros Hq Hf. pose proof (nth_part_Forall _ _ _ _ Hf En) as [Hq1 Hq2].
    destruct (idx <=? p_epoch q)%N; [injection Hq as <-; apply Forall_set_part; [exact Hf|split; assumption]|].
    destruct (mem_n rr (p_replicas q)); [|discriminate]. injection Hq as <-. apply Forall_set_part; [exact Hf|split; assumption].
  - unfold with_part in H. refine (PInv_with_stream c s _ c' Hp _ H). intros st st'. destruct (valid_pid _ _); [|discriminate].
    destruct (nth_part _ _) as [q|] eqn:En; [|discriminate]. intros Hq Hf. pose proof (nth_part_Forall _ _ _ _ Hf En) as [Hq1 Hq2].
    destruct (idx <=? p_epoch q)%N; [injection Hq as <-; apply Forall_set_part; [exact Hf|split; assumption]|].
    destruct (mem_n rr (p_replicas q)); [|discriminate]. injection Hq as <-. apply Forall_set_part; [exact Hf|split; assumption].
  - unfold with_part in H. refine (PInv_with_stream c s _ c' Hp _ H). intros st st'. destruct (valid_pid _ _); [|discriminate].
    destruct (nth_part _ _) as [q|] eqn:En; [|discriminate]. intros Hq Hf. pose proof (nth_part_Forall _ _ _ _ Hf En) as [Hq1 Hq2].
    destruct (idx <=? p_epoch q)%N; [injection Hq as <-; apply Forall_set_part; [exact Hf|split; assumption]|].
    destruct (idx <? p_lepoch q)%N; [discriminate|]. injection Hq as <-. apply Forall_set_part; [exact Hf|split; assumption].
  - destruct (alookup g (c_groups c)); [discriminate|]. destruct (add_member _ _ _ _ _); try discriminate. injection H as <-. exact Hp.
  - destruct (alookup g (c_groups c)); [|discriminate]. destruct (add_member _ _ _ _ _); try discriminate. injection H as <-. exact Hp.
  - destruct (alookup g (c_groups c)); [|discriminate]. destruct (remove_member _ _ _ _) as [g'| |]; try discriminate. injection H as <-.
    destruct (g_members g'); exact Hp.
  - destruct (alookup g (c_groups c)) as [gr|]; [|discriminate]. destruct (idx <=? g_epoch (gr_g gr))%N; injection H as <-; exact Hp.
  - injection H as <-. exact Hp.
Qed.

Definition members_sorted (g : group) : Prop := forall m, In m (g_members g) -> ssorted (m_streams m).

Lemma stream_deleted_sorted np g s e g' : members_sorted g -> stream_deleted np g s e = GOk g' -> members_sorted g'.
Proof.
  intros Hs. unfold stream_deleted. destruct (e <? g_epoch g)%N; [discriminate|].
  destruct (negb (existsb (subscribes s) (g_members g))); intros [= <-]; [exact Hs|].
  intros m' Hm'. cbn [g_members] in Hm'. apply in_map_iff in Hm'. destruct Hm' as (m & <- & Hm). cbn [m_streams].
  apply ssorted_filter. apply Hs. exact Hm.
Qed.

Lemma notify_sorted np s e gs : (forall g gr, In (g, gr) gs -> members_sorted (gr_g gr)) ->
  forall g gr, In (g, gr) (notify_deleted np s e gs) -> members_sorted (gr_g gr).
Proof.
  intros H g gr' Hin. apply in_notify in Hin. destruct Hin as (gr & Hin & ->). unfold notify_group.
  destruct (stream_deleted np (gr_g gr) s e) as [g'| |] eqn:E; [|apply (H g); exact Hin|apply (H g); exact Hin].
  cbn [gr_g]. apply (stream_deleted_sorted np (gr_g gr) s e g'); [apply (H g); exact Hin|exact E].
Qed.

Lemma MInv_step r idx c o c' : MInv c -> apply_core fixed r idx c o = Some c' -> MInv c'.
Proof.
  unfold MInv. intros Hm H.
  assert (Hm' : forall g gr, In (g, gr) (c_groups c) -> members_sorted (gr_g gr)) by (intros g gr Hin m Hi; apply (Hm g gr m Hin Hi)).
  assert (Goal' : (forall g gr, In (g, gr) (c_groups c') -> members_sorted (gr_g gr)) -> forall g gr m, In (g, gr) (c_groups c') -> In m (g_members (gr_g gr)) -> ssorted (m_streams m))
    by (intros G g gr m Hin Hi; apply (G g gr Hin m Hi)).
  apply Goal'. clear Goal' Hm.
  destruct o as [s n reps|s|s ps ra|s ps|s ps ro|s p rr|s p rr|s p l|g coord cn ss|g cn ss|g cn|g coord|i]; cbn [apply_core] in H.
  - destruct n as [|n]; [discriminate|]. destruct reps as [|b reps]; [discriminate|].
    destruct (alookup s (c_streams c)) as [st|]; [|injection H as <-; exact Hm'].
    destruct (r && st_tomb st); [|discriminate]. injection H as <-. cbn [add_stream remove_stream c_groups]. apply notify_sorted. exact Hm'.
  - destruct (alookup s (c_streams c)) as [st|]; [|discriminate]. destruct r; injection H as <-; cbn [fixed v_notify remove_stream c_groups]; apply notify_sorted; exact Hm'.
  - unfold with_stream in H. destruct (alookup s (c_streams c)) as [st|]; [|discriminate]. destruct (if forallb _ ps then _ else _); [|discriminate]. injection H as <-. exact Hm'.
  - unfold with_stream in H. destruct (alookup s (c_streams c)) as [st|]; [|discriminate]. destruct (if forallb _ ps then _ else _); [|discriminate]. injection H as <-. exact Hm'.
  - unfold with_stream in H. destruct (alookup s (c_streams c)) as [st|]; [|discriminate]. destruct (if forallb _ ps then _ else _); [|discriminate]. injection H as <-. exact Hm'.
  - unfold with_part, with_stream in H. destruct (alookup s (c_streams c)) as [st|]; [|discriminate]. destruct (if valid_pid _ p then _ else _); [|discriminate]. injection H as <-. exact Hm'.
  - unfold with_part, with_stream in H. destruct (alookup s (c_streams c)) as [st|]; [|discriminate]. destruct (if valid_pid _ p then _ else _); [|discriminate]. injection H as <-. exact Hm'.
  - unfold with_part, with_stream in H. destruct (alookup s (c_streams c)) as [st|]; [|discriminate]. destruct (if valid_pid _ p then _ else _); [|discriminate]. injection H as <-. exact Hm'.
  - destruct (alookup g (c_groups c)); [discriminate|]. destruct (add_member _ _ _ _ _) as [g'| |] eqn:Ea; try discriminate. injection H as <-.
    intros g0 gr0 Hin. cbn [set_group c_groups] in Hin. apply in_aset in Hin. destruct Hin as [[-> ->]|[Hin _]]; [|apply (Hm' g0); exact Hin].
    cbn [gr_g]. destruct (add_member_shape _ _ _ _ _ _ Ea) as [Hmm _]. intros m Hi. rewrite Hmm in Hi. cbn in Hi. destruct Hi as [<-|[]]. apply normal_ssorted.
  - destruct (alookup g (c_groups c)) as [gr|] eqn:Eg; [|discriminate]. destruct (add_member _ _ _ _ _) as [g'| |] eqn:Ea; try discriminate. injection H as <-.
    intros g0 gr0 Hin. cbn [set_group c_groups] in Hin. apply in_aset in Hin. destruct Hin as [[-> ->]|[Hin _]]; [|apply (Hm' g0); exact Hin].
    cbn [gr_g]. destruct (add_member_shape _ _ _ _ _ _ Ea) as [Hmm _]. intros m Hi. rewrite Hmm in Hi. apply in_app_or in Hi.
    destruct Hi as [Hi|[<-|[]]]; [apply (Hm' g gr (alookup_in _ _ _ Eg)); exact Hi|apply normal_ssorted].
  - destruct (alookup g (c_groups c)) as [gr|] eqn:Eg; [|discriminate]. destruct (remove_member _ _ _ _) as [g'| |] eqn:Er; try discriminate. injection H as <-.
    destruct (remove_member_shape _ _ _ _ _ Er) as [Hmm _].
    assert (Hg' : members_sorted g').
    { intros m Hi. rewrite Hmm in Hi. apply filter_In in Hi. apply (Hm' g gr (alookup_in _ _ _ Eg)). apply Hi. }
    destruct (g_members g') eqn:Em.
    + intros g0 gr0 Hin. cbn [c_groups] in Hin. apply in_aremove in Hin. apply (Hm' g0). apply Hin.
    + intros g0 gr0 Hin. cbn [set_group c_groups] in Hin. apply in_aset in Hin. destruct Hin as [[-> ->]|[Hin _]]; [|apply (Hm' g0); exact Hin].
      cbn [gr_g]. intros m0 Hi. apply Hg'. exact Hi.
  - destruct (alookup g (c_groups c)) as [gr|] eqn:Eg; [|discriminate]. destruct (idx <=? g_epoch (gr_g gr))%N; injection H as <-; [exact Hm'|].
    intros g0 gr0 Hin. cbn [set_group c_groups] in Hin. apply in_aset in Hin. destruct Hin as [[-> ->]|[Hin _]]; [|apply (Hm' g0); exact Hin].
    cbn [gr_g]. intros m Hi. cbn [g_members] in Hi. apply (Hm' g gr (alookup_in _ _ _ Eg)). exact Hi.
  - injection H as <-. exact Hm'.
Qed.

(* ------------------------------------------------------------------ states that agree on everything but the assignments *)
(* members as a set: a snapshot lists them in Go's map order *)
Definition gpe (g1 g2 : group) : Prop := Permutation (g_members g1) (g_members g2) /\ g_epoch g1 = g_epoch g2.
Definition geq (a b : gid * grp) : Prop := fst a = fst b /\ gr_coord (snd a) = gr_coord (snd b) /\ gpe (gr_g (snd a)) (gr_g (snd b)).
Definition core_eqv (c1 c2 : core) : Prop := c_streams c1 = c_streams c2 /\ Forall2 geq (c_groups c1) (c_groups c2).

Lemma gpe_refl g : gpe g g.
Proof. split; [apply Permutation_refl|reflexivity]. Qed.

Lemma gpe_sym g1 g2 : gpe g1 g2 -> gpe g2 g1.
Proof. intros [H1 H2]. split; [apply Permutation_sym; exact H1|symmetry; exact H2]. Qed.

Lemma existsb_perm {A} (f : A -> bool) l1 l2 : Permutation l1 l2 -> existsb f l1 = existsb f l2.
Proof.
  induction 1 as [|x l l' _ IH|x y l|l l' l'' _ IH1 _ IH2]; cbn [existsb]; [reflexivity|rewrite IH; reflexivity| |congruence].
  destruct (f x), (f y); reflexivity.
Qed.

Lemma filter_perm {A} (f : A -> bool) l1 l2 : Permutation l1 l2 -> Permutation (filter f l1) (filter f l2).
Proof.
  induction 1 as [|x l l' _ IH|x y l|l l' l'' _ IH1 _ IH2]; cbn [filter]; [constructor| | |eapply Permutation_trans; eassumption].
  - destruct (f x); [constructor; exact IH|exact IH].
  - destruct (f x), (f y); try apply Permutation_refl. constructor.
Qed.

Lemma find_none_perm {A} (f : A -> bool) l1 l2 : Permutation l1 l2 -> find f l1 = None -> find f l2 = None.
Proof.
  intros Hp H. destruct (find f l2) as [x|] eqn:E; [|reflexivity]. apply find_some in E. destruct E as [Hin Hf].
  apply (Permutation_in _ (Permutation_sym Hp)) in Hin. pose proof (find_none f l1 H x Hin). congruence.
Qed.

Lemma add_member_cong np1 np2 g1 g2 c ss e : gpe g1 g2 ->
  match add_member np1 g1 c ss e, add_member np2 g2 c ss e with
  | GOk a, GOk b => gpe a b
  | GRefused, GRefused => True
  | _, _ => False
  end.
Proof.
  intros [Hm He]. unfold add_member. rewrite He. destruct (e <? g_epoch g2)%N; [exact I|].
  split; cbn [g_members g_epoch]; [apply Permutation_app_tail; exact Hm|reflexivity].
Qed.

Lemma remove_member_cong np1 np2 g1 g2 c e : gpe g1 g2 ->
  match remove_member np1 g1 c e, remove_member np2 g2 c e with
  | GOk a, GOk b => gpe a b
  | GRefused, GRefused => True
  | GNotMember, GNotMember => True
  | _, _ => False
  end.
Proof.
  intros [Hm He]. unfold remove_member. rewrite He. destruct (e <? g_epoch g2)%N; [exact I|].
  destruct (find (fun m => N.eqb (m_id m) c) (g_members g1)) eqn:E1, (find (fun m => N.eqb (m_id m) c) (g_members g2)) eqn:E2.
  - split; cbn [g_members g_epoch]; [apply filter_perm; exact Hm|reflexivity].
  - rewrite (find_none_perm _ _ _ (Permutation_sym Hm) E2) in E1. discriminate.
  - rewrite (find_none_perm _ _ _ Hm E1) in E2. discriminate.
  - exact I.
Qed.

Lemma stream_deleted_cong np1 np2 g1 g2 s e : gpe g1 g2 ->
  match stream_deleted np1 g1 s e, stream_deleted np2 g2 s e with
  | GOk a, GOk b => gpe a b
  | GRefused, GRefused => True
  | _, _ => False
  end.
Proof.
  intros H. pose proof H as [Hm He]. unfold stream_deleted. rewrite He, (existsb_perm _ _ _ Hm). destruct (e <? g_epoch g2)%N; [exact I|].
  destruct (negb (existsb (subscribes s) (g_members g2))); [exact H|]. split; cbn [g_members g_epoch]; [apply Permutation_map; exact Hm|reflexivity].
Qed.

Lemma alookup_eqv g l1 l2 : Forall2 geq l1 l2 ->
  match alookup g l1, alookup g l2 with
  | Some a, Some b => gr_coord a = gr_coord b /\ gpe (gr_g a) (gr_g b)
  | None, None => True
  | _, _ => False
  end.
Proof.
  induction 1 as [|[k1 a] [k2 b] r1 r2 (Hk & Hc & Hg) _ IH]; [exact I|]. cbn [fst snd] in *. subst k2. cbn [alookup].
  destruct (N.eqb k1 g); [split; assumption|exact IH].
Qed.

Lemma aremove_eqv g l1 l2 : Forall2 geq l1 l2 -> Forall2 geq (aremove g l1) (aremove g l2).
Proof.
  induction 1 as [|[k1 a] [k2 b] r1 r2 Hg _ IH]; [constructor|]. pose proof Hg as (Hk & _). cbn [fst] in Hk. subst k2. cbn [aremove].
  destruct (N.eqb k1 g); [exact IH|constructor; assumption].
Qed.

Lemma aset_eqv g a b l1 l2 : Forall2 geq l1 l2 -> gr_coord a = gr_coord b -> gpe (gr_g a) (gr_g b) ->
  Forall2 geq (aset g a l1) (aset g b l2).
Proof. intros H Hc Hg. unfold aset. constructor; [split; [reflexivity|split; assumption]|apply aremove_eqv; exact H]. Qed.

Lemma notify_eqv np1 np2 s e l1 l2 : Forall2 geq l1 l2 -> Forall2 geq (notify_deleted np1 s e l1) (notify_deleted np2 s e l2).
Proof.
  induction 1 as [|[k1 a] [k2 b] r1 r2 (Hk & Hc & Hg) _ IH]; [constructor|]. cbn [fst snd] in *. subst k2. unfold notify_deleted. cbn [map fst snd].
  constructor; [|exact IH]. split; [reflexivity|]. cbn [snd]. unfold notify_group.
  pose proof (stream_deleted_cong np1 np2 (gr_g a) (gr_g b) s e Hg) as Hsd.
  destruct (stream_deleted np1 (gr_g a) s e), (stream_deleted np2 (gr_g b) s e); try contradiction; cbn [gr_coord gr_g]; split; assumption.
Qed.

Lemma with_stream_eqv c1 c2 s f c1' : core_eqv c1 c2 -> with_stream c1 s f = Some c1' ->
  exists c2', with_stream c2 s f = Some c2' /\ core_eqv c1' c2'.
Proof.
  intros [Hs Hg] H. unfold with_stream in *. rewrite <- Hs. destruct (alookup s (c_streams c1)); [|discriminate].
  destruct (f s0); [|discriminate]. injection H as <-. eexists. split; [reflexivity|]. split; [reflexivity|exact Hg].
Qed.

Lemma forallb_exists_eqv c1 c2 ss : c_streams c1 = c_streams c2 -> forallb (stream_exists c1) ss = forallb (stream_exists c2) ss.
Proof. intros H. unfold stream_exists. rewrite H. reflexivity. Qed.

Lemma pre_eqv c1 c2 o : core_eqv c1 c2 -> pre c1 o = pre c2 o.
Proof.
  intros [Hs Hg]. destruct o as [s n reps|s|s ps ra|s ps|s ps ro|s p rr|s p rr|s p l|g coord cn ss|g cn ss|g cn|g coord|i]; cbn [pre];
    unfold stream_exists, part_of; rewrite <- ?Hs; try reflexivity.
  - pose proof (alookup_eqv g _ _ Hg) as H. destruct (alookup g (c_groups c1)), (alookup g (c_groups c2)); try contradiction; reflexivity.
  - pose proof (alookup_eqv g _ _ Hg) as H. destruct (alookup g (c_groups c1)), (alookup g (c_groups c2)); try contradiction; [|reflexivity].
    destruct H as [_ [Hm _]]. rewrite (existsb_perm _ _ _ Hm). reflexivity.
  - pose proof (alookup_eqv g _ _ Hg) as H. destruct (alookup g (c_groups c1)), (alookup g (c_groups c2)); try contradiction; [|reflexivity].
    destruct H as [_ [Hm _]]. rewrite (existsb_perm _ _ _ Hm). reflexivity.
  - pose proof (alookup_eqv g _ _ Hg) as H. destruct (alookup g (c_groups c1)), (alookup g (c_groups c2)); try contradiction; reflexivity.
Qed.

Lemma apply_eqv r idx c1 c2 o c1' : core_eqv c1 c2 -> apply_core fixed r idx c1 o = Some c1' ->
  exists c2', apply_core fixed r idx c2 o = Some c2' /\ core_eqv c1' c2'.
Proof.
  intros He H. pose proof He as [Hs Hg].
  destruct o as [s n reps|s|s ps ra|s ps|s ps ro|s p rr|s p rr|s p l|g coord cn ss|g cn ss|g cn|g coord|i]; cbn [apply_core] in *.
  - destruct n as [|n]; [discriminate|]. destruct reps as [|b reps]; [discriminate|]. rewrite <- Hs.
    destruct (alookup s (c_streams c1)) as [st|].
    + destruct (r && st_tomb st); [|discriminate]. injection H as <-. eexists. split; [reflexivity|].
      unfold add_stream, remove_stream. cbn [c_streams c_groups]. rewrite <- Hs. split; [reflexivity|]. apply notify_eqv. exact Hg.
    + injection H as <-. eexists. split; [reflexivity|]. unfold add_stream. cbn [c_streams c_groups]. rewrite <- Hs. split; [reflexivity|exact Hg].
  - rewrite <- Hs. destruct (alookup s (c_streams c1)) as [st|]; [|discriminate]. destruct r; injection H as <-; (eexists; split; [reflexivity|]).
    + cbn [fixed v_notify c_streams c_groups]. split; [reflexivity|]. apply notify_eqv. exact Hg.
    + unfold remove_stream. cbn [c_streams c_groups]. rewrite <- Hs. split; [reflexivity|]. apply notify_eqv. exact Hg.
  - apply (with_stream_eqv c1 c2 s _ c1' He H).
  - apply (with_stream_eqv c1 c2 s _ c1' He H).
  - apply (with_stream_eqv c1 c2 s _ c1' He H).
  - unfold with_part in *. apply (with_stream_eqv c1 c2 s _ c1' He H).
  - unfold with_part in *. apply (with_stream_eqv c1 c2 s _ c1' He H).
  - unfold with_part in *. apply (with_stream_eqv c1 c2 s _ c1' He H).
  - pose proof (alookup_eqv g _ _ Hg) as Ha. destruct (alookup g (c_groups c1)); [discriminate|]. destruct (alookup g (c_groups c2)); [contradiction|].
    pose proof (add_member_cong (nparts_of (c_streams c1)) (nparts_of (c_streams c2)) new_group new_group cn ss 0%N (gpe_refl _)) as Hc.
    destruct (add_member (nparts_of (c_streams c1)) new_group cn ss 0%N) as [a| |]; try discriminate. injection H as <-.
    destruct (add_member (nparts_of (c_streams c2)) new_group cn ss 0%N) as [b| |]; try contradiction.
    eexists. split; [reflexivity|]. split; [exact Hs|]. cbn [set_group c_groups]. apply aset_eqv; [exact Hg|reflexivity|exact Hc].
  - pose proof (alookup_eqv g _ _ Hg) as Ha. destruct (alookup g (c_groups c1)) as [gr1|]; [|discriminate]. destruct (alookup g (c_groups c2)) as [gr2|]; [|contradiction].
    destruct Ha as [Hco Hgp].
    pose proof (add_member_cong (nparts_of (c_streams c1)) (nparts_of (c_streams c2)) (gr_g gr1) (gr_g gr2) cn ss idx Hgp) as Hc.
    destruct (add_member (nparts_of (c_streams c1)) (gr_g gr1) cn ss idx) as [a| |]; try discriminate. injection H as <-.
    destruct (add_member (nparts_of (c_streams c2)) (gr_g gr2) cn ss idx) as [b| |]; try contradiction.
    eexists. split; [reflexivity|]. split; [exact Hs|]. cbn [set_group c_groups]. apply aset_eqv; [exact Hg|exact Hco|exact Hc].
  - pose proof (alookup_eqv g _ _ Hg) as Ha. destruct (alookup g (c_groups c1)) as [gr1|]; [|discriminate]. destruct (alookup g (c_groups c2)) as [gr2|]; [|contradiction].
    destruct Ha as [Hco Hgp].
    pose proof (remove_member_cong (nparts_of (c_streams c1)) (nparts_of (c_streams c2)) (gr_g gr1) (gr_g gr2) cn idx Hgp) as Hc.
    destruct (remove_member (nparts_of (c_streams c1)) (gr_g gr1) cn idx) as [a| |]; try discriminate. injection H as <-.
    destruct (remove_member (nparts_of (c_streams c2)) (gr_g gr2) cn idx) as [b| |]; try contradiction.
    pose proof Hc as [Hm _].
    eexists. split; [reflexivity|]. destruct (g_members a) eqn:Ea, (g_members b) eqn:Eb.
    + split; [exact Hs|]. cbn [c_groups]. apply aremove_eqv. exact Hg.
    + apply Permutation_nil in Hm. discriminate.
    + apply Permutation_sym, Permutation_nil in Hm. discriminate.
    + split; [exact Hs|]. cbn [set_group c_groups]. apply aset_eqv; [exact Hg|exact Hco|exact Hc].
  - pose proof (alookup_eqv g _ _ Hg) as Ha. destruct (alookup g (c_groups c1)) as [gr1|]; [|discriminate]. destruct (alookup g (c_groups c2)) as [gr2|]; [|contradiction].
    destruct Ha as [Hco Hgp]. pose proof Hgp as [Hm Hep]. rewrite <- Hep.
    destruct (idx <=? g_epoch (gr_g gr1))%N; injection H as <-; (eexists; split; [reflexivity|]); [exact He|].
    split; [exact Hs|]. cbn [set_group c_groups]. apply aset_eqv; [exact Hg|reflexivity|]. split; cbn [gr_g g_members g_epoch]; [exact Hm|reflexivity].
  - injection H as <-. exists c2. split; [reflexivity|exact He].
Qed.

Lemma run_eqv ops : forall idx c1 c2 c1', core_eqv c1 c2 -> run_core fixed false idx c1 ops = Some c1' ->
  exists c2', run_core fixed false idx c2 ops = Some c2' /\ core_eqv c1' c2'.
Proof.
  induction ops as [|o r IH]; intros idx c1 c2 c1' He H; cbn [run_core] in *.
  - injection H as <-. exists c2. split; [reflexivity|exact He].
  - destruct (apply_core fixed false idx c1 o) as [d1|] eqn:E; [|discriminate].
    destruct (apply_eqv false idx c1 c2 o d1 He E) as (d2 & E2 & He2). rewrite E2. apply (IH _ d1 d2 c1' He2 H).
Qed.

Lemma valid_eqv ops : forall idx c1 c2, core_eqv c1 c2 -> valid_run fixed idx c1 ops = valid_run fixed idx c2 ops.
Proof.
  induction ops as [|o r IH]; intros idx c1 c2 He; [reflexivity|]. cbn [valid_run]. rewrite (pre_eqv c1 c2 o He).
  destruct (apply_core fixed false idx c1 o) as [d1|] eqn:E.
  - destruct (apply_eqv false idx c1 c2 o d1 He E) as (d2 & E2 & He2). rewrite E2. rewrite (IH _ d1 d2 He2). reflexivity.
  - destruct (apply_core fixed false idx c2 o) as [d2|] eqn:E2; [|reflexivity].
    assert (He' : core_eqv c2 c1).
    { destruct He as [Hs Hg]. split; [symmetry; exact Hs|]. clear -Hg. induction Hg as [|a b r1 r2 (H1 & H2 & H3) _ IH']; constructor; [|exact IH'].
      split; [symmetry; exact H1|split; [symmetry; exact H2|apply gpe_sym; exact H3]]. }
    destruct (apply_eqv false idx c2 c1 o d2 He' E2) as (d1 & E1 & _). congruence.
Qed.

(* ------------------------------------------------------------------ snapshot and restore *)
Lemma restore_part_id p : part_ok p -> restore_part fixed p = p.
Proof. intros [H1 H2]. destruct p. cbn in *. subst. reflexivity. Qed.

Lemma map_restore_id ps : Forall part_ok ps -> map (restore_part fixed) ps = ps.
Proof. induction 1 as [|p t Hp _ IH]; [reflexivity|]. cbn [map]. rewrite restore_part_id by exact Hp. rewrite IH. reflexivity. Qed.

Lemma restore_streams_id S : (forall k st, In (k, st) S -> st_tomb st = false /\ Forall part_ok (st_parts st)) ->
  map (fun kv => (fst kv, mkStrm (map (restore_part fixed) (snd kv)) false)) (map (fun kv : sid * strm => (fst kv, st_parts (snd kv))) S) = S.
Proof.
  intros H. induction S as [|[k st] r IH]; [reflexivity|]. cbn [map fst snd].
  rewrite IH by (intros k0 st0 Hin; apply (H k0); right; exact Hin). f_equal.
  destruct (H k st (or_introl eq_refl)) as [Ht Hp]. destruct st as [ps tb]. cbn in *. subst tb. f_equal. f_equal.
  apply map_restore_id. exact Hp.
Qed.

Lemma restore_members np ms : forall acc, g_epoch acc = 0%N -> (forall m, In m ms -> ssorted (m_streams m)) ->
  let g := fold_left (fun g mb => match add_member np g (m_id mb) (m_streams mb) 0%N with GOk g' => g' | _ => g end) ms acc in
  g_members g = g_members acc ++ ms /\ g_epoch g = 0%N.
Proof.
  induction ms as [|m r IH]; intros acc He Hs; cbn [fold_left]; [rewrite app_nil_r; split; [reflexivity|exact He]|].
  assert (Hok : exists g1, add_member np acc (m_id m) (m_streams m) 0%N = GOk g1).
  { unfold add_member. rewrite He. cbn [N.ltb N.compare]. eexists. reflexivity. }
  destruct Hok as (g1 & E1). rewrite E1. destruct (add_member_shape _ _ _ _ _ _ E1) as [Hm1 He1].
  destruct (IH g1 He1 (fun m0 H0 => Hs m0 (or_intror H0))) as [H1 H2]. split; [|exact H2].
  rewrite H1, Hm1, <- app_assoc. cbn [app]. f_equal. f_equal.
  rewrite normal_id by (apply Hs; left; reflexivity). destruct m. reflexivity.
Qed.

(* what a snapshot of a live state may look like: the members of a group come in any order *)
Definition sgeq (a b : gid * snap_group) : Prop :=
  fst a = fst b /\ sg_coord (snd a) = sg_coord (snd b) /\ sg_epoch (snd a) = sg_epoch (snd b) /\
  Permutation (sg_members (snd a)) (sg_members (snd b)).
Definition snap_of (sn : snapshot) (L : core) : Prop :=
  sn_streams sn = sn_streams (take_snapshot L) /\ Forall2 sgeq (sn_groups sn) (sn_groups (take_snapshot L)).

Lemma snap_of_self L : snap_of (take_snapshot L) L.
Proof.
  split; [reflexivity|]. generalize (sn_groups (take_snapshot L)). intros l. induction l as [|x r IH]; constructor; [|exact IH].
  split; [reflexivity|split; [reflexivity|split; [reflexivity|apply Permutation_refl]]].
Qed.

(* Restoring a snapshot of a live state gives back its streams and partitions exactly, and its
   groups with the same coordinator, members and epoch (the assignments are recomputed). *)
Lemma restore_eqv sn L : snap_of sn L -> NoTomb L -> PInv L -> MInv L -> core_eqv (restore_core fixed sn) L.
Proof.
  intros [Hss Hsg] Hn Hp Hm. unfold restore_core. rewrite Hss. unfold take_snapshot in *. cbn [sn_streams sn_groups] in *.
  rewrite restore_streams_id by (intros k st Hin; split; [apply (Hn k); exact Hin|apply (Hp k); exact Hin]).
  split; [reflexivity|]. cbn [c_groups].
  assert (G : forall gs l1, (forall g gr m, In (g, gr) gs -> In m (g_members (gr_g gr)) -> ssorted (m_streams m)) ->
              Forall2 sgeq l1 (map (fun kv : gid * grp => (fst kv, mkSnapGroup (gr_coord (snd kv)) (g_epoch (gr_g (snd kv))) (g_members (gr_g (snd kv))))) gs) ->
              Forall2 geq (map (fun kv => (fst kv, restore_group (nparts_of (c_streams L)) (snd kv))) l1) gs).
  { induction gs as [|[g gr] r IH]; intros l1 H HF; cbn [map] in HF; inversion HF as [|[g1 sg] y l1' ? Hhd Htl]; subst; [constructor|].
    cbn [map fst snd]. constructor; [|apply IH; [intros g0 gr0 m Hin; apply (H g0); right; exact Hin|exact Htl]].
    destruct Hhd as (Hk & Hc & He & Hperm). cbn [fst snd sg_coord sg_epoch sg_members] in *. subst g1.
    split; [reflexivity|]. cbn [snd]. unfold restore_group. split; [exact Hc|].
    assert (Hsorted : forall m, In m (sg_members sg) -> ssorted (m_streams m)).
    { intros m Hi. apply (H g gr m (or_introl eq_refl)). apply (Permutation_in _ Hperm). exact Hi. }
    destruct (restore_members (nparts_of (c_streams L)) (sg_members sg) new_group eq_refl Hsorted) as [H1 _].
    split; cbn [gr_g g_members g_epoch]; [rewrite H1; exact Hperm|exact He]. }
  apply G; [exact Hm|exact Hsg].
Qed.

(* ------------------------------------------------------------------ runs in two parts *)
Lemma run_app r a : forall idx c b, run_core fixed r idx c (a ++ b) =
  match run_core fixed r idx c a with Some c' => run_core fixed r (idx + N.of_nat (length a)) c' b | None => None end.
Proof.
  induction a as [|o t IH]; intros idx c b; cbn [app run_core length]; [rewrite N.add_0_r; reflexivity|].
  destruct (apply_core fixed r idx c o); [|reflexivity]. rewrite IH. replace (idx + 1 + N.of_nat (length t))%N with (idx + N.of_nat (S (length t)))%N by lia. reflexivity.
Qed.

Lemma valid_app a : forall idx c b, valid_run fixed idx c (a ++ b) = true ->
  valid_run fixed idx c a = true /\ forall c', run_core fixed false idx c a = Some c' -> valid_run fixed (idx + N.of_nat (length a)) c' b = true.
Proof.
  induction a as [|o t IH]; intros idx c b H; cbn [app valid_run run_core length] in *.
  - split; [reflexivity|]. intros c' [= <-]. rewrite N.add_0_r. exact H.
  - apply andb_true_iff in H. destruct H as [Hp H]. rewrite Hp. destruct (apply_core fixed false idx c o) as [d|]; [|discriminate].
    destruct (IH _ d b H) as [H1 H2]. split; [exact H1|]. intros c' Hc. replace (idx + N.of_nat (S (length t)))%N with (idx + 1 + N.of_nat (length t))%N by lia. apply H2. exact Hc.
Qed.

Lemma run_invs r ops : forall idx c c', PInv c -> MInv c -> run_core fixed r idx c ops = Some c' -> PInv c' /\ MInv c'.
Proof.
  induction ops as [|o t IH]; intros idx c c' Hp Hm H; cbn [run_core] in H; [injection H as <-; split; assumption|].
  destruct (apply_core fixed r idx c o) as [d|] eqn:E; [|discriminate].
  apply (IH _ d c' (PInv_step r idx c o d Hp E) (MInv_step r idx c o d Hm E) H).
Qed.

Lemma RInv_strip idx P : RInv idx P -> RInv idx (cstrip P) /\ NoTomb (cstrip P).
Proof.
  intros (Hw & Hwg & Hi). split; [split; [apply WF_filter; exact Hw|split; [exact Hwg|]]|].
  - intros g gr Hin. destruct (Hi g gr Hin) as [He Ha]. split; [exact He|]. intros s Hs. destruct (Ha s Hs) as (st & E & Ht).
    exists st. cbn [cstrip c_streams]. rewrite alookup_strip by exact Hw. rewrite E, Ht. split; reflexivity.
  - intros k st Hin. cbn [cstrip c_streams] in Hin. apply filter_In in Hin. destruct Hin as [_ H]. unfold nt in H. cbn [snd] in H.
    destruct (st_tomb st); [discriminate|reflexivity].
Qed.

Lemma strip_notomb c : NoTomb c -> cstrip c = c.
Proof.
  intros H. destruct c as [S G]. unfold cstrip. cbn [c_streams c_groups] in *. f_equal. apply filter_all_true. intros [k st] Hin.
  unfold nt. cbn [snd]. rewrite (H k st Hin). reflexivity.
Qed.

Lemma RInv_eqv idx c1 c2 : core_eqv c1 c2 -> RInv idx c2 -> RInv idx c1.
Proof.
  intros [Hs Hg] (Hw & Hwg & Hi). split; [rewrite Hs; exact Hw|]. split.
  - assert (E : keys (c_groups c1) = keys (c_groups c2)).
    { clear -Hg. unfold keys. induction Hg as [|a b r1 r2 (H1 & _) _ IH]; [reflexivity|]. cbn [map]. f_equal; assumption. }
    unfold WF. rewrite E. exact Hwg.
  - intros g gr Hin. assert (Hex : exists gr2, In (g, gr2) (c_groups c2) /\ gpe (gr_g gr) (gr_g gr2)).
    { clear -Hg Hin. induction Hg as [|[k1 a] [k2 b] r1 r2 (H1 & _ & H3) _ IH]; [destruct Hin|]. cbn [fst snd] in *. subst k2.
      destruct Hin as [[= -> ->]|Hin]; [exists b; split; [left; reflexivity|exact H3]|]. destruct (IH Hin) as (gr2 & H & H'). exists gr2. split; [right; exact H|exact H']. }
    destruct Hex as (gr2 & Hin2 & [Hm He]). destruct (Hi g gr2 Hin2) as [H1 H2].
    split; [rewrite He; exact H1|]. intros s (m & Hmm & Hss). rewrite Hs. apply H2. exists m. split; [apply (Permutation_in _ Hm); exact Hmm|exact Hss].
Qed.

(* A server rebuilt from the snapshot taken after the first i operations plus a replay of the
   rest, followed by finishedRecovery, has the metadata of the live servers: the same streams,
   partitions, replicas, ISR, leaders, epochs, paused and read-only flags, and the same groups
   with the same coordinator, members and epoch. *)
Theorem snapshot_restart ops i Li Ln sn : (i <= length ops)%nat ->
  valid_run fixed 1 empty_core ops = true ->
  run_core fixed false 1 empty_core (firstn i ops) = Some Li ->
  run_core fixed false 1 empty_core ops = Some Ln ->
  snap_of sn Li ->
  exists P, run_core fixed true (N.of_nat i + 1) (restore_core fixed sn) (skipn i ops) = Some P /\
            core_eqv (finish_core (N.of_nat (length ops)) P) Ln.
Proof.
  intros Hi Hv HLi HLn Hsn. rewrite <- (firstn_skipn i ops) in Hv, HLn.
  assert (Hlen : length (firstn i ops) = i) by (apply firstn_length_le; exact Hi).
  destruct (valid_app _ _ _ _ Hv) as [Hv1 Hv2]. specialize (Hv2 Li HLi). rewrite Hlen in Hv2.
  rewrite run_app, HLi, Hlen in HLn. replace (1 + N.of_nat i)%N with (N.of_nat i + 1)%N in * by lia.
  (* the live state after i operations and its invariants *)
  assert (HR0 : RInv 1 empty_core) by (split; [constructor|split; [constructor|intros g gr []]]).
  change empty_core with (cstrip empty_core) in Hv1, HLi at 1.
  destruct (run_commutes (firstn i ops) 1%N empty_core Li HR0 Hv1 HLi) as (Pi & _ & Hsi & HRi). rewrite Hlen in HRi.
  replace (1 + N.of_nat i)%N with (N.of_nat i + 1)%N in HRi by lia.
  destruct (RInv_strip _ _ HRi) as [HRLi HnLi]. rewrite Hsi in HRLi, HnLi.
  assert (HPM : PInv Li /\ MInv Li).
  { apply (run_invs false (firstn i ops) 1%N (cstrip empty_core) Li); [intros k st []|intros g gr m []|exact HLi]. }
  destruct HPM as [HpLi HmLi].
  (* the restored state agrees with it up to assignments *)
  pose proof (restore_eqv sn Li Hsn HnLi HpLi HmLi) as He. set (R := restore_core fixed sn) in *.
  assert (HnR : NoTomb R) by (intros k st Hin; destruct He as [Hs _]; rewrite Hs in Hin; apply (HnLi k); exact Hin).
  assert (HRR : RInv (N.of_nat i + 1) R) by (apply (RInv_eqv _ R Li He HRLi)).
  (* live continuation from the restored state *)
  assert (He' : core_eqv Li R).
  { destruct He as [Hs Hg]. split; [symmetry; exact Hs|]. clear -Hg. induction Hg as [|a b r1 r2 (H1 & H2 & H3) _ IH']; constructor; [|exact IH'].
    split; [symmetry; exact H1|split; [symmetry; exact H2|apply gpe_sym; exact H3]]. }
  destruct (run_eqv (skipn i ops) _ Li R Ln He' HLn) as (Ln' & HLn' & Heq).
  rewrite (valid_eqv (skipn i ops) _ Li R He') in Hv2.
  rewrite <- (strip_notomb R HnR) in HLn', Hv2.
  destruct (run_commutes (skipn i ops) _ R Ln' HRR Hv2 HLn') as (P & HP & HsP & HRP).
  exists P. split; [exact HP|]. rewrite (finish_is_strip _ _ P HRP), HsP.
  destruct Heq as [Hs Hg]. split; [symmetry; exact Hs|]. clear -Hg. induction Hg as [|a b r1 r2 (H1 & H2 & H3) _ IH']; constructor; [|exact IH'].
  split; [symmetry; exact H1|split; [symmetry; exact H2|apply gpe_sym; exact H3]].
Qed.

(* ------------------------------------------------------------------ the data directories *)
Lemma apply_disk_keeps r idx d o s g : alookup s d = Some g -> g <> 0%N -> r = true -> alookup s (apply_disk r idx d o) = Some g.
Proof.
  intros E Hg ->. destruct o; cbn [apply_disk]; try exact E.
  destruct (N.eq_dec s0 s) as [->|Hn].
  - rewrite E. destruct g; [contradiction|exact E].
  - destruct (alookup s0 d) as [[|p]|]; [rewrite alookup_aset_other by (intros ->; contradiction); exact E|exact E|rewrite alookup_aset_other by (intros ->; contradiction); exact E].
Qed.

Lemma run_disk_keeps ops : forall idx m m' s g, run fixed true idx m ops = Some m' ->
  alookup s (mt_disk m) = Some g -> g <> 0%N -> alookup s (mt_disk m') = Some g.
Proof.
  induction ops as [|o t IH]; intros idx m m' s g H E Hg; cbn [run] in H; [injection H as <-; exact E|].
  unfold apply in H. destruct (apply_core fixed true idx (mt_core m) o) as [c'|]; [|discriminate].
  apply (IH _ _ m' s g H); [cbn [mt_disk]; apply apply_disk_keeps; auto|exact Hg].
Qed.

Lemma restore_disk_keeps sn d s g : alookup s d = Some g -> alookup s (restore_disk sn d) = Some g.
Proof.
  unfold restore_disk. generalize (sn_streams sn). intros l. revert d. induction l as [|kv r IH]; intros d E; [exact E|]. cbn [fold_left]. apply IH.
  destruct kv as [k ps]. cbn [fst]. destruct (alookup k d) eqn:E2; [exact E|]. rewrite alookup_aset_other; [exact E|]. intros ->. congruence.
Qed.

Lemma finish_disk_lookup c d s : WF (c_streams c) ->
  alookup s (finish_disk c d) =
  match alookup s (c_streams c) with Some st => if st_tomb st then None else alookup s d | None => alookup s d end.
Proof.
  intros Hw. unfold finish_disk.
  assert (G : forall (l : list (sid * strm)) (d0 : list (sid * N)), (forall k st, In (k, st) l -> alookup k (c_streams c) = Some st) ->
              alookup s (fold_left (fun acc kv => if st_tomb (snd kv) then aremove (fst kv) acc else acc) l d0) =
              if existsb (fun kv => N.eqb (fst kv) s && st_tomb (snd kv)) l then None else alookup s d0).
  { induction l as [|[k st] r IH]; intros d0 Hl; [reflexivity|]. cbn [fold_left existsb fst snd].
    rewrite IH by (intros k0 st0 Hin; apply Hl; right; exact Hin).
    set (ex := existsb (fun kv : N * strm => (fst kv =? s)%N && st_tomb (snd kv)) r).
    destruct (N.eqb_spec k s) as [->|Hn]; cbn [andb orb].
    - destruct (st_tomb st); cbn [orb]; [destruct ex; [reflexivity|apply alookup_aremove_same]|reflexivity].
    - destruct (st_tomb st); [|reflexivity]. destruct ex; [reflexivity|]. apply alookup_aremove_other. intros ->. contradiction. }
  rewrite G by (intros k st Hin; apply in_alookup; assumption).
  destruct (alookup s (c_streams c)) as [st|] eqn:E.
  - destruct (st_tomb st) eqn:Et.
    + assert (Hex : existsb (fun kv => N.eqb (fst kv) s && st_tomb (snd kv)) (c_streams c) = true).
      { apply existsb_exists. exists (s, st). split; [apply alookup_in; exact E|]. cbn [fst snd]. rewrite N.eqb_refl, Et. reflexivity. }
      rewrite Hex. reflexivity.
    + assert (Hex : existsb (fun kv => N.eqb (fst kv) s && st_tomb (snd kv)) (c_streams c) = false).
      { apply not_true_is_false. intros H. apply existsb_exists in H. destruct H as ([k st'] & Hin & H). cbn [fst snd] in H.
        apply andb_true_iff in H. destruct H as [Hk Ht]. apply N.eqb_eq in Hk. subst k. rewrite (in_alookup s _ st' Hw Hin) in E. congruence. }
      rewrite Hex. reflexivity.
  - assert (Hex : existsb (fun kv => N.eqb (fst kv) s && st_tomb (snd kv)) (c_streams c) = false).
    { apply not_true_is_false. intros H. apply existsb_exists in H. destruct H as ([k st'] & Hin & H). cbn [fst snd] in H.
      apply andb_true_iff in H. destruct H as [Hk _]. apply N.eqb_eq in Hk. subst k. rewrite (in_alookup s _ st' Hw Hin) in E. discriminate. }
    rewrite Hex. reflexivity.
Qed.

(* Replay never deletes or replaces the data of a stream that exists at the end of the log:
   whatever directory with data the server had when it stopped is still there, untouched. *)
Theorem replay_keeps_data ops idx m0 P e s g : run fixed true idx m0 ops = Some P -> WF (mt_streams P) ->
  alive (mt_streams P) s -> alookup s (mt_disk m0) = Some g -> g <> 0%N ->
  alookup s (mt_disk (finish e P)) = Some g.
Proof.
  intros H Hw (st & E & Ht) Ed Hg. unfold finish. cbn [mt_disk]. rewrite finish_disk_lookup by exact Hw.
  unfold mt_streams in E. rewrite E, Ht. apply (run_disk_keeps ops idx m0 P s g H Ed Hg).
Qed.

(* ... and leaves no directory behind for a stream that does not exist at the end, provided every
   directory present at the restart names a stream of the restored state or one that a replayed
   operation creates (which is the case for a server that had applied a prefix of the log). *)
Definition creates (s : sid) (o : fop) : bool := match o with FCreate s' _ _ => N.eqb s' s | _ => false end.
Definition covered (d : list (sid * N)) (c : core) (ops : list fop) : Prop :=
  forall s, alookup s d <> None -> alookup s (c_streams c) <> None \/ existsb (creates s) ops = true.

Lemma present_aset {A} s k (x : A) l : alookup s l <> None \/ s = k -> alookup s (aset k x l) <> None.
Proof.
  intros H. destruct (N.eq_dec s k) as [->|Hn]; [rewrite alookup_aset_same; discriminate|].
  rewrite alookup_aset_other by exact Hn. destruct H as [H|H]; [exact H|contradiction].
Qed.

Lemma with_stream_present c k f c' s : with_stream c k f = Some c' -> alookup s (c_streams c) <> None -> alookup s (c_streams c') <> None.
Proof.
  unfold with_stream. destruct (alookup k (c_streams c)); [|discriminate]. destruct (f s0); [|discriminate]. intros [= <-] H.
  cbn [c_streams]. apply present_aset. left. exact H.
Qed.

(* replay never takes a name out of the stream map, and a replayed create puts its name in *)
Lemma keys_step_replay idx c o c' s : apply_core fixed true idx c o = Some c' ->
  alookup s (c_streams c) <> None \/ creates s o = true -> alookup s (c_streams c') <> None.
Proof.
  intros H Hs.
  destruct o as [k n reps|k|k ps ra|k ps|k ps ro|k p rr|k p rr|k p l|g coord cn ss|g cn ss|g cn|g coord|i]; cbn [apply_core creates] in *;
    try (destruct Hs as [Hs|Hs]; [|discriminate]).
  - destruct n as [|n]; [discriminate|]. destruct reps as [|b reps]; [discriminate|].
    assert (Hk : alookup s (c_streams c) <> None \/ s = k) by (destruct Hs as [Hs|Hs]; [left; exact Hs|right; apply N.eqb_eq in Hs; symmetry; exact Hs]).
    destruct (alookup k (c_streams c)) as [st|] eqn:E.
    + destruct (true && st_tomb st); [|discriminate]. injection H as <-. cbn [add_stream remove_stream c_streams]. apply present_aset.
      destruct Hk as [Hk| ->]; [|right; reflexivity]. destruct (N.eq_dec s k) as [->|Hn]; [right; reflexivity|left]. rewrite alookup_aremove_other by exact Hn. exact Hk.
    + injection H as <-. cbn [add_stream c_streams]. apply present_aset. exact Hk.
  - destruct (alookup k (c_streams c)) as [st|]; [|discriminate]. injection H as <-. cbn [c_streams]. apply present_aset. left. exact Hs.
  - apply (with_stream_present c k _ c' s H Hs).
  - apply (with_stream_present c k _ c' s H Hs).
  - apply (with_stream_present c k _ c' s H Hs).
  - unfold with_part in H. apply (with_stream_present c k _ c' s H Hs).
  - unfold with_part in H. apply (with_stream_present c k _ c' s H Hs).
  - unfold with_part in H. apply (with_stream_present c k _ c' s H Hs).
  - destruct (alookup g (c_groups c)); [discriminate|]. destruct (add_member _ _ _ _ _); try discriminate. injection H as <-. exact Hs.
  - destruct (alookup g (c_groups c)); [|discriminate]. destruct (add_member _ _ _ _ _); try discriminate. injection H as <-. exact Hs.
  - destruct (alookup g (c_groups c)); [|discriminate]. destruct (remove_member _ _ _ _) as [g'| |]; try discriminate. injection H as <-. destruct (g_members g'); exact Hs.
  - destruct (alookup g (c_groups c)) as [gr|]; [|discriminate]. destruct (idx <=? g_epoch (gr_g gr))%N; injection H as <-; exact Hs.
  - injection H as <-. exact Hs.
Qed.

(* a directory appears during replay only together with its stream *)
Lemma disk_step_replay idx d o s : alookup s (apply_disk true idx d o) <> None -> alookup s d <> None \/ creates s o = true.
Proof.
  destruct o; cbn [apply_disk creates]; try (intros H; left; exact H).
  destruct (N.eqb_spec s0 s) as [->|Hn]; [intros _; right; reflexivity|]. intros H. left.
  destruct (alookup s0 d) as [[|p]|]; [rewrite alookup_aset_other in H by (intros E; apply Hn; symmetry; exact E); exact H|exact H|
                                      rewrite alookup_aset_other in H by (intros E; apply Hn; symmetry; exact E); exact H].
Qed.

Lemma covered_run ops : forall idx m P, run fixed true idx m ops = Some P -> covered (mt_disk m) (mt_core m) ops ->
  forall s, alookup s (mt_disk P) <> None -> alookup s (mt_streams P) <> None.
Proof.
  induction ops as [|o t IH]; intros idx m P H Hc s Hs; cbn [run] in H.
  - injection H as <-. destruct (Hc s Hs) as [H|H]; [exact H|discriminate].
  - unfold apply in H. destruct (apply_core fixed true idx (mt_core m) o) as [c'|] eqn:E; [|discriminate].
    apply (IH _ _ P H); [|exact Hs]. intros x Hx. cbn [mt_disk mt_core] in *.
    destruct (disk_step_replay idx (mt_disk m) o x Hx) as [Hd|Hcr].
    + destruct (Hc x Hd) as [Hin|Hex].
      * left. apply (keys_step_replay idx _ o c' x E). left. exact Hin.
      * cbn [existsb] in Hex. apply orb_true_iff in Hex. destruct Hex as [Hcr|Hex]; [left; apply (keys_step_replay idx _ o c' x E); right; exact Hcr|right; exact Hex].
    + left. apply (keys_step_replay idx _ o c' x E). right. exact Hcr.
Qed.

Theorem replay_leaves_no_orphans ops idx m0 P e s : run fixed true idx m0 ops = Some P -> WF (mt_streams P) ->
  covered (mt_disk m0) (mt_core m0) ops ->
  alookup s (mt_disk (finish e P)) <> None -> alive (mt_streams P) s.
Proof.
  intros H Hw Hc Hs. unfold finish in Hs. cbn [mt_disk] in Hs. rewrite finish_disk_lookup in Hs by exact Hw.
  unfold mt_streams. destruct (alookup s (c_streams (mt_core P))) as [st|] eqn:E.
  - destruct (st_tomb st) eqn:Et; [contradiction|]. exists st. split; [exact E|exact Et].
  - exfalso. apply (covered_run ops idx m0 P H Hc s Hs). exact E.
Qed.

(* ---- the hypothesis of the last theorem holds for the disk of a server that applied a prefix ---- *)
Lemma run_core_of_run r ops : forall idx m m', run fixed r idx m ops = Some m' -> run_core fixed r idx (mt_core m) ops = Some (mt_core m').
Proof.
  induction ops as [|o t IH]; intros idx m m' H; cbn [run run_core] in *; [injection H as <-; reflexivity|].
  unfold apply in H. destruct (apply_core fixed r idx (mt_core m) o) as [c'|]; [|discriminate]. apply (IH _ _ m') in H. exact H.
Qed.

Lemma absent_aremove {A} s k (l : list (N * A)) : alookup s (aremove k l) <> None -> alookup s l <> None /\ s <> k.
Proof.
  intros H. destruct (N.eq_dec s k) as [->|Hn]; [rewrite alookup_aremove_same in H; contradiction|].
  rewrite alookup_aremove_other in H by exact Hn. split; assumption.
Qed.

Lemma with_stream_keys c k f c' s : with_stream c k f = Some c' -> (alookup s (c_streams c') <> None <-> alookup s (c_streams c) <> None).
Proof.
  unfold with_stream. destruct (alookup k (c_streams c)) eqn:E; [|discriminate]. destruct (f s0); [|discriminate]. intros [= <-]. cbn [c_streams].
  destruct (N.eq_dec s k) as [->|Hn]; [rewrite alookup_aset_same, E; split; discriminate|rewrite alookup_aset_other by exact Hn; reflexivity].
Qed.

(* live: which names are in the stream map after one operation *)
Lemma keys_step_live idx c o c' s : apply_core fixed false idx c o = Some c' ->
  (alookup s (c_streams c') <> None <->
   match o with
   | FCreate k _ _ => s = k \/ alookup s (c_streams c) <> None
   | FDelete k => s <> k /\ alookup s (c_streams c) <> None
   | _ => alookup s (c_streams c) <> None
   end).
Proof.
  intros H.
  destruct o as [k n reps|k|k ps ra|k ps|k ps ro|k p rr|k p rr|k p l|g coord cn ss|g cn ss|g cn|g coord|i]; cbn [apply_core] in *.
  - destruct n as [|n]; [discriminate|]. destruct reps as [|b reps]; [discriminate|]. destruct (alookup k (c_streams c)) as [st|] eqn:E; [discriminate|].
    injection H as <-. cbn [add_stream c_streams]. destruct (N.eq_dec s k) as [->|Hn].
    + rewrite alookup_aset_same. split; [intros _; left; reflexivity|discriminate].
    + rewrite alookup_aset_other by exact Hn. split; [intros H; right; exact H|intros [H|H]; [contradiction|exact H]].
  - destruct (alookup k (c_streams c)) as [st|]; [|discriminate]. injection H as <-. cbn [remove_stream c_streams]. split.
    + intros H. apply absent_aremove in H. destruct H. split; assumption.
    + intros [Hn H]. rewrite alookup_aremove_other by exact Hn. exact H.
  - apply (with_stream_keys c k _ c' s H).
  - apply (with_stream_keys c k _ c' s H).
  - apply (with_stream_keys c k _ c' s H).
  - unfold with_part in H. apply (with_stream_keys c k _ c' s H).
  - unfold with_part in H. apply (with_stream_keys c k _ c' s H).
  - unfold with_part in H. apply (with_stream_keys c k _ c' s H).
  - destruct (alookup g (c_groups c)); [discriminate|]. destruct (add_member _ _ _ _ _); try discriminate. injection H as <-. reflexivity.
  - destruct (alookup g (c_groups c)); [|discriminate]. destruct (add_member _ _ _ _ _); try discriminate. injection H as <-. reflexivity.
  - destruct (alookup g (c_groups c)); [|discriminate]. destruct (remove_member _ _ _ _) as [g'| |]; try discriminate. injection H as <-. destruct (g_members g'); reflexivity.
  - destruct (alookup g (c_groups c)) as [gr|]; [|discriminate]. destruct (idx <=? g_epoch (gr_g gr))%N; injection H as <-; reflexivity.
  - injection H as <-. reflexivity.
Qed.

(* on a live server a data directory exists only for a stream that exists *)
Lemma live_disk_streams ops : forall idx m m', run fixed false idx m ops = Some m' ->
  (forall s, alookup s (mt_disk m) <> None -> alookup s (mt_streams m) <> None) ->
  forall s, alookup s (mt_disk m') <> None -> alookup s (mt_streams m') <> None.
Proof.
  induction ops as [|o t IH]; intros idx m m' H Hm; cbn [run] in H; [injection H as <-; exact Hm|].
  unfold apply in H. destruct (apply_core fixed false idx (mt_core m) o) as [c'|] eqn:E; [|discriminate].
  apply (IH _ _ m' H). cbn [mt_disk mt_streams mt_core]. intros s Hs. unfold mt_streams in Hm. apply (keys_step_live idx _ o c' s E).
  destruct o; cbn [apply_disk] in Hs; try (apply Hm; exact Hs).
  - destruct (N.eq_dec s s0) as [->|Hn]; [left; reflexivity|right]. apply Hm.
    destruct (alookup s0 (mt_disk m)) as [[|p]|]; [rewrite alookup_aset_other in Hs by exact Hn; exact Hs|exact Hs|rewrite alookup_aset_other in Hs by exact Hn; exact Hs].
  - apply absent_aremove in Hs. destruct Hs as [Hs Hn]. split; [exact Hn|apply Hm; exact Hs].
Qed.

(* a stream of a later live state was there before or was created in between *)
Lemma live_keys_origin ops : forall idx c c' s, run_core fixed false idx c ops = Some c' ->
  alookup s (c_streams c') <> None -> alookup s (c_streams c) <> None \/ existsb (creates s) ops = true.
Proof.
  induction ops as [|o t IH]; intros idx c c' s H Hs; cbn [run_core] in H; [injection H as <-; left; exact Hs|].
  destruct (apply_core fixed false idx c o) as [d|] eqn:E; [|discriminate]. destruct (IH _ d c' s H Hs) as [Hd|Hex]; [|right; cbn [existsb]; rewrite Hex; apply orb_true_r].
  apply (keys_step_live idx c o d s E) in Hd. destruct o; try (left; exact Hd).
  - destruct Hd as [->|Hd]; [right; cbn [existsb creates]; rewrite N.eqb_refl; reflexivity|left; exact Hd].
  - left. apply Hd.
Qed.

Lemma restore_disk_origin sn d s : alookup s (restore_disk sn d) <> None -> alookup s d <> None \/ alookup s (sn_streams sn) <> None.
Proof.
  unfold restore_disk. generalize (sn_streams sn). intros l. revert d. induction l as [|[k ps] r IH]; intros d H; [left; exact H|]. cbn [fold_left fst] in H.
  destruct (IH _ H) as [Hd|Hr].
  - destruct (alookup k d) eqn:E; [left; exact Hd|]. destruct (N.eq_dec s k) as [->|Hn]; [right; cbn [alookup]; rewrite N.eqb_refl; discriminate|].
    rewrite alookup_aset_other in Hd by exact Hn. left. exact Hd.
  - right. cbn [alookup]. destruct (N.eqb k s); [discriminate|exact Hr].
Qed.

Lemma alookup_map_keys {A B} (f : A -> B) s (l : list (N * A)) : alookup s (map (fun kv => (fst kv, f (snd kv))) l) = option_map f (alookup s l).
Proof. induction l as [|[k x] r IH]; [reflexivity|]. cbn [map alookup fst snd]. destruct (N.eqb k s); [reflexivity|exact IH]. Qed.

Lemma In_firstn {A} (x : A) n l : In x (firstn n l) -> In x l.
Proof. revert l. induction n as [|n IH]; intros l H; [destruct H|]. destruct l as [|y t]; [destruct H|]. cbn [firstn] in H. destruct H as [->|H]; [left; reflexivity|right; apply IH; exact H]. Qed.

Theorem prefix_disk_covered ops i m Li Lm : (i <= m)%nat -> (m <= length ops)%nat ->
  run fixed false 1 empty_meta (firstn i ops) = Some Li ->
  run fixed false 1 empty_meta (firstn m ops) = Some Lm ->
  covered (restore_disk (take_snapshot (mt_core Li)) (mt_disk Lm)) (restore_core fixed (take_snapshot (mt_core Li))) (skipn i ops).
Proof.
  intros Him Hm HLi HLm s Hs.
  assert (Hkeys : forall x, alookup x (c_streams (mt_core Li)) <> None -> alookup x (c_streams (restore_core fixed (take_snapshot (mt_core Li)))) <> None).
  { intros x Hx. unfold restore_core, take_snapshot. cbn [c_streams sn_streams]. rewrite map_map. cbn [fst snd].
    rewrite (alookup_map_keys (fun st => mkStrm (map (restore_part fixed) (st_parts st)) false)). destruct (alookup x (c_streams (mt_core Li))); [discriminate|contradiction]. }
  apply restore_disk_origin in Hs. destruct Hs as [Hd|Hsn].
  - (* a directory left by the prefix: its stream exists after m operations *)
    assert (Hst : alookup s (mt_streams Lm) <> None).
    { apply (live_disk_streams (firstn m ops) 1%N empty_meta Lm HLm); [intros x Hx; cbn in Hx; contradiction|exact Hd]. }
    (* split the prefix of length m at i *)
    assert (Esplit : firstn m ops = firstn i ops ++ firstn (m - i) (skipn i ops)).
    { rewrite <- (firstn_skipn i ops) at 1. rewrite firstn_app, firstn_firstn. rewrite Nat.min_r by lia.
      rewrite firstn_length_le by lia. reflexivity. }
    apply run_core_of_run in HLi, HLm. rewrite Esplit, run_app in HLm. cbn [mt_core empty_meta] in *. rewrite HLi in HLm.
    destruct (live_keys_origin _ _ _ _ s HLm Hst) as [Hin|Hex]; [left; apply Hkeys; exact Hin|right].
    apply existsb_exists in Hex. destruct Hex as (o & Hin & Ho). apply existsb_exists. exists o. split; [|exact Ho].
    apply (In_firstn o (m - i) (skipn i ops)). exact Hin.
  - left. apply Hkeys. unfold take_snapshot in Hsn. cbn [sn_streams] in Hsn. rewrite (alookup_map_keys st_parts) in Hsn.
    destruct (alookup s (c_streams (mt_core Li))); [discriminate|contradiction].
Qed.
