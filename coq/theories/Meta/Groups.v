(* Model of server/groups.go: consumer-group membership and partition assignment.

   Representation: the assignment is one global list of triples (stream, partition, consumer);
   a member's list for a stream is the sub-list of its triples, which is in ascending
   partition order because a rebalance of a stream removes all of the stream's triples and
   appends partitions 0,1,2,... (exactly what balanceAssignmentsForStream does with
   removeStreamAssignments + append). A consumer's assignedCount is the number of its triples.
   Peek() on a heap that was heap.Init'ed with the current counts is the minimum by
   (assignedCount, id); every Peek in groups.go is preceded by such an Init. *)
From LB Require Import Base.Prelude.
Open Scope Z_scope.

Definition cid := N.   (* consumer id, order-preserving encoding of the string *)
Definition sid := N.   (* stream name, order-preserving encoding *)

Record member := mkMember { m_id : cid; m_streams : list sid }.
Definition triple := (sid * Z * cid)%type.

Record group := mkGroup {
  g_members : list member;
  g_owners : list triple;
  g_epoch : N
}.

Definition t_stream (t : triple) : sid := fst (fst t).
Definition t_part (t : triple) : Z := snd (fst t).
Definition t_cons (t : triple) : cid := snd t.

Definition mem_n (x : N) (l : list N) : bool := existsb (N.eqb x) l.
Definition subscribes (s : sid) (m : member) : bool := mem_n s (m_streams m).
Definition count_of (c : cid) (ow : list triple) : Z :=
  Z.of_nat (length (filter (fun t => N.eqb (t_cons t) c) ow)).

(* Less of consumerHeap *)
Definition better (ow : list triple) (a b : member) : bool :=
  (count_of (m_id a) ow <? count_of (m_id b) ow) ||
  ((count_of (m_id a) ow =? count_of (m_id b) ow) && (m_id a <? m_id b)%N).

Fixpoint min_sub (s : sid) (ow : list triple) (ms : list member) (best : option member) : option member :=
  match ms with
  | [] => best
  | m :: r =>
    if subscribes s m then
      match best with
      | None => min_sub s ow r (Some m)
      | Some b => if better ow m b then min_sub s ow r (Some m) else min_sub s ow r best
      end
    else min_sub s ow r best
  end.

Fixpoint assign_parts (s : sid) (ms : list member) (fuel : nat) (p : Z) (ow : list triple) : list triple :=
  match fuel with
  | O => ow
  | S f => match min_sub s ow ms None with
           | None => ow
           | Some m => assign_parts s ms f (p + 1) (ow ++ [(s, p, m_id m)])
           end
  end.

Section WithParts.
  Variable nparts : sid -> Z.     (* getStreamPartitions *)

  (* balanceAssignmentsForStream over the subscribers found in ms *)
  Definition balance (s : sid) (ms : list member) (ow : list triple) : list triple :=
    if existsb (subscribes s) ms
    then assign_parts s ms (Z.to_nat (nparts s)) 0 (filter (fun t => negb (N.eqb (t_stream t) s)) ow)
    else ow.

  Fixpoint insert_sorted (x : N) (l : list N) : list N :=
    match l with
    | [] => [x]
    | y :: r => if (x <=? y)%N then x :: l else y :: insert_sorted x r
    end.
  Definition sort_n (l : list N) : list N := fold_right insert_sorted [] l.
  Fixpoint dedup (l : list N) : list N :=
    match l with
    | [] => []
    | x :: r => if mem_n x r then dedup r else x :: dedup r
    end.

  Inductive gres := GOk (g : group) | GRefused | GNotMember.

  (* AddMember(consumer, streams, epoch) -- the caller has checked that it is not a member *)
  Definition add_member (g : group) (c : cid) (streams : list sid) (e : N) : gres :=
    if (e <? g_epoch g)%N then GRefused else
    let ss := sort_n (dedup streams) in
    let ms := g_members g ++ [mkMember c ss] in
    GOk (mkGroup ms (fold_left (fun ow s => balance s ms ow) ss (g_owners g)) e).

  Definition has_assignment (c : cid) (s : sid) (ow : list triple) : bool :=
    existsb (fun t => N.eqb (t_stream t) s && N.eqb (t_cons t) c) ow.

  (* RemoveMember(consumer, epoch) *)
  Definition remove_member (g : group) (c : cid) (e : N) : gres :=
    if (e <? g_epoch g)%N then GRefused else
    match find (fun m => N.eqb (m_id m) c) (g_members g) with
    | None => GNotMember
    | Some lv =>
      let ms := filter (fun m => negb (N.eqb (m_id m) c)) (g_members g) in
      let ow0 := g_owners g in
      let ow1 := fold_left (fun ow s => if has_assignment c s ow0 then balance s ms ow else ow)
                           (m_streams lv) ow0 in
      GOk (mkGroup ms (filter (fun t => negb (N.eqb (t_cons t) c)) ow1) e)
    end.

  (* StreamDeleted(stream, epoch) *)
  Definition stream_deleted (g : group) (s : sid) (e : N) : gres :=
    if (e <? g_epoch g)%N then GRefused else
    (* no member subscribes to it (no subscriber heap, or an empty one): nothing changes.  Which
       streams have a heap is therefore not part of the state. *)
    if negb (existsb (subscribes s) (g_members g))
    then GOk g else
    let subs := filter (subscribes s) (g_members g) in
    let ms := map (fun m => mkMember (m_id m) (filter (fun x => negb (N.eqb x s)) (m_streams m))) (g_members g) in
    let others := sort_n (dedup (concat (map (fun m => filter (fun x => negb (N.eqb x s)) (m_streams m)) subs))) in
    let ow0 := filter (fun t => negb (N.eqb (t_stream t) s)) (g_owners g) in
    GOk (mkGroup ms (fold_left (fun ow x => balance x ms ow) others ow0) e).
End WithParts.

Definition new_group : group := mkGroup [] [] 0%N.

(* what GetAssignments hands to consumer c for stream s *)
Definition assignment_of (g : group) (c : cid) (s : sid) : list Z :=
  map t_part (filter (fun t => N.eqb (t_stream t) s && N.eqb (t_cons t) c) (g_owners g)).
