From LB Require Import Base.Prelude Meta.Groups.
Open Scope Z_scope.

Inductive gop :=
| GJoin (c : cid) (ss : list sid) (e : N) (res : N)
| GLeave (c : cid) (e : N) (res : N)
| GSDel (s : sid) (e : N) (res : N)
| GParts (s : sid) (n : Z)        (* the stream is created again with n partitions *)
| GObs (epoch : N) (members : list cid) (tbl : list (cid * sid * list Z)).

Record gcase := { gc_parts : list (sid * Z); gc_ops : list gop }.

Definition parts_fn (tbl : list (sid * Z)) (s : sid) : Z :=
  match find (fun p => N.eqb (fst p) s) tbl with Some p => snd p | None => 0 end.

Definition res_code (r : gres) : N := match r with GOk _ => 0 | GRefused => 1 | GNotMember => 2 end%N.
Definition res_group (g : group) (r : gres) : group := match r with GOk g' => g' | _ => g end.

Fixpoint zlist_eqb (a b : list Z) : bool :=
  match a, b with
  | [], [] => true
  | x :: a', y :: b' => (x =? y) && zlist_eqb a' b'
  | _, _ => false
  end.

Fixpoint nlist_eqb (a b : list N) : bool :=
  match a, b with
  | [], [] => true
  | x :: a', y :: b' => N.eqb x y && nlist_eqb a' b'
  | _, _ => false
  end.

Definition gstep (np : sid -> Z) (g : group) (o : gop) : group * bool :=
  match o with
  | GJoin c ss e res => let r := add_member np g c ss e in (res_group g r, N.eqb (res_code r) res)
  | GLeave c e res => let r := remove_member np g c e in (res_group g r, N.eqb (res_code r) res)
  | GSDel s e res => let r := stream_deleted np g s e in (res_group g r, N.eqb (res_code r) res)
  | GParts _ _ => (g, true)
  | GObs ep ms tbl =>
    (g, N.eqb (g_epoch g) ep &&
        nlist_eqb (sort_n (map m_id (g_members g))) ms &&
        forallb (fun row => let '(c, s, ps) := row in zlist_eqb (assignment_of g c s) ps) tbl &&
        (Z.of_nat (length (g_owners g)) =? fold_left (fun a row => a + Z.of_nat (length (snd row))) tbl 0))
  end.

Fixpoint grun (tbl : list (sid * Z)) (g : group) (ops : list gop) (i : nat) : option nat :=
  match ops with
  | [] => None
  | GParts s n :: r => grun ((s, n) :: tbl) g r (S i)
  | o :: r => let '(g', ok) := gstep (parts_fn tbl) g o in if ok then grun tbl g' r (S i) else Some i
  end.

Fixpoint gcases_mismatches (cs : list gcase) (i : nat) : list (nat * nat) :=
  match cs with
  | [] => []
  | c :: r => match grun (gc_parts c) new_group (gc_ops c) 0 with
              | None => gcases_mismatches r (S i)
              | Some j => (i, j) :: gcases_mismatches r (S i)
              end
  end.
