(* Invariants of the consumer-group model: every partition of every stream that has a
   subscribed member is owned exactly once, by a member that subscribes to the stream. *)
From LB Require Import Base.Prelude Meta.Groups.
From Coq Require Import ZifyBool.
Open Scope Z_scope.

Definition is_s (s : sid) (t : triple) : bool := N.eqb (t_stream t) s.
Definition not_s (s : sid) (t : triple) : bool := negb (N.eqb (t_stream t) s).

Definition has_sub (s : sid) (ms : list member) : Prop := existsb (subscribes s) ms = true.

Definition owned (ms : list member) (ow : list triple) : Prop :=
  Forall (fun t => exists m, In m ms /\ m_id m = t_cons t /\ subscribes (t_stream t) m = true) ow.

Lemma NoDup_app_snoc {A} (l : list A) x : NoDup l -> ~ In x l -> NoDup (l ++ [x]).
Proof.
  induction 1 as [|y t Hy Ht IH]; intros Hx; cbn; [constructor; [intros []|constructor]|].
  constructor.
  - intros H. apply in_app_or in H. destruct H as [H|[H|[]]]; [contradiction|]. subst. apply Hx. left. reflexivity.
  - apply IH. intros H. apply Hx. right. exact H.
Qed.

Section Proofs.
  Variable np : sid -> Z.

  Definition good (s : sid) (ow : list triple) : Prop :=
    map t_part (filter (is_s s) ow) = zseq 0 (Z.to_nat (np s)).

  (* ---------------------------------------------------------------- min_sub *)
  Lemma min_sub_in s ow ms best m :
    min_sub s ow ms best = Some m ->
    (In m ms /\ subscribes s m = true) \/ best = Some m.
  Proof.
    revert best. induction ms as [|x r IH]; intros best H; cbn [min_sub] in H.
    - right. exact H.
    - destruct (subscribes s x) eqn:Ex.
      + destruct best as [b|].
        * destruct (better ow x b).
          -- apply IH in H. destruct H as [[H1 H2]|H]; [left; split; [right; exact H1|exact H2]|].
             injection H as <-. left. split; [left; reflexivity|exact Ex].
          -- apply IH in H. destruct H as [[H1 H2]|H]; [left; split; [right; exact H1|exact H2]|right; exact H].
        * apply IH in H. destruct H as [[H1 H2]|H]; [left; split; [right; exact H1|exact H2]|].
          injection H as <-. left. split; [left; reflexivity|exact Ex].
      + apply IH in H. destruct H as [[H1 H2]|H]; [left; split; [right; exact H1|exact H2]|right; exact H].
  Qed.

  Lemma min_sub_some s ow ms best :
    (has_sub s ms \/ best <> None) -> min_sub s ow ms best <> None.
  Proof.
    revert best. induction ms as [|x r IH]; intros best H; cbn [min_sub].
    - destruct H as [H|H]; [discriminate H|exact H].
    - destruct (subscribes s x) eqn:Ex.
      + destruct best as [b|]; [destruct (better ow x b)|]; apply IH; right; discriminate.
      + apply IH. destruct H as [H|H]; [left|right; exact H].
        unfold has_sub in *. cbn [existsb] in H. rewrite Ex in H. exact H.
  Qed.

  (* ---------------------------------------------------------------- assign_parts *)
  Lemma assign_parts_shape s ms k p ow : has_sub s ms ->
    exists new, assign_parts s ms k p ow = ow ++ new /\ map t_part new = zseq p k /\
                Forall (fun t => t_stream t = s) new /\ owned ms new.
  Proof.
    intros Hs. revert p ow. induction k as [|k IH]; intros p ow.
    - exists []. cbn. rewrite app_nil_r. repeat split; constructor.
    - cbn [assign_parts]. destruct (min_sub s ow ms None) as [m|] eqn:E.
      + destruct (min_sub_in _ _ _ _ _ E) as [[Hin Hsub]|Hb]; [|discriminate].
        destruct (IH (p + 1) (ow ++ [(s, p, m_id m)])) as (new & E1 & E2 & E3 & E4).
        exists ((s, p, m_id m) :: new). rewrite E1, <- app_assoc. split; [reflexivity|].
        split; [cbn; rewrite E2; reflexivity|]. split; [constructor; [reflexivity|exact E3]|].
        constructor; [|exact E4]. exists m. cbn. auto.
      + exfalso. apply (min_sub_some s ow ms None); [left; exact Hs|exact E].
  Qed.

  (* ---------------------------------------------------------------- filters *)
  Lemma filter_is_not s ow : filter (is_s s) (filter (not_s s) ow) = [].
  Proof.
    induction ow as [|t r IH]; [reflexivity|]. cbn [filter]. unfold not_s at 1.
    destruct (N.eqb_spec (t_stream t) s) as [E|E]; cbn [negb]; [exact IH|].
    cbn [filter]. unfold is_s at 1. destruct (N.eqb_spec (t_stream t) s); [contradiction|exact IH].
  Qed.

  Lemma filter_is_other s x ow : x <> s -> filter (is_s x) (filter (not_s s) ow) = filter (is_s x) ow.
  Proof.
    intros Hne. induction ow as [|t r IH]; [reflexivity|]. cbn [filter]. unfold not_s at 1.
    destruct (N.eqb_spec (t_stream t) s) as [E|E]; cbn [negb].
    - unfold is_s at 2. destruct (N.eqb_spec (t_stream t) x); [congruence|exact IH].
    - cbn [filter]. destruct (is_s x t); [f_equal|]; exact IH.
  Qed.

  Lemma filter_is_all s new : Forall (fun t => t_stream t = s) new -> filter (is_s s) new = new.
  Proof.
    induction 1 as [|t r H _ IH]; [reflexivity|]. cbn [filter]. unfold is_s at 1.
    rewrite H, N.eqb_refl. f_equal. exact IH.
  Qed.

  Lemma filter_is_none s x new : x <> s -> Forall (fun t => t_stream t = s) new -> filter (is_s x) new = [].
  Proof.
    intros Hne. induction 1 as [|t r H _ IH]; [reflexivity|]. cbn [filter]. unfold is_s at 1.
    destruct (N.eqb_spec (t_stream t) x); [congruence|exact IH].
  Qed.

  Lemma owned_app ms a b : owned ms a -> owned ms b -> owned ms (a ++ b).
  Proof. intros. apply Forall_app. split; assumption. Qed.

  Lemma owned_filter ms f ow : owned ms ow -> owned ms (filter f ow).
  Proof.
    induction 1 as [|t r H _ IH]; [constructor|]. cbn [filter]. destruct (f t); [constructor; assumption|assumption].
  Qed.

  (* ---------------------------------------------------------------- balance *)
  Lemma balance_good s ms ow : has_sub s ms -> good s (balance np s ms ow).
  Proof.
    intros Hs. unfold balance. unfold has_sub in Hs. rewrite Hs.
    destruct (assign_parts_shape s ms (Z.to_nat (np s)) 0 (filter (not_s s) ow) Hs) as (new & E & Hp & Hst & _).
    unfold good. fold (not_s s). unfold not_s in E. unfold not_s. rewrite E.
    rewrite filter_app. fold (not_s s). rewrite filter_is_not, filter_is_all by exact Hst. exact Hp.
  Qed.

  Lemma balance_other s x ms ow : x <> s -> filter (is_s x) (balance np s ms ow) = filter (is_s x) ow.
  Proof.
    intros Hne. unfold balance. destruct (existsb (subscribes s) ms) eqn:Hs; [|reflexivity].
    destruct (assign_parts_shape s ms (Z.to_nat (np s)) 0 (filter (not_s s) ow) Hs) as (new & E & _ & Hst & _).
    fold (not_s s). unfold not_s in E. unfold not_s. rewrite E. rewrite filter_app. fold (not_s s).
    rewrite filter_is_other by exact Hne. rewrite (filter_is_none s x new Hne Hst). apply app_nil_r.
  Qed.

  Lemma balance_owned s ms ow : owned ms ow -> owned ms (balance np s ms ow).
  Proof.
    intros Ho. unfold balance. destruct (existsb (subscribes s) ms) eqn:Hs; [|exact Ho].
    destruct (assign_parts_shape s ms (Z.to_nat (np s)) 0 (filter (not_s s) ow) Hs) as (new & E & _ & _ & Hn).
    fold (not_s s). unfold not_s in E. unfold not_s. rewrite E. apply owned_app; [apply owned_filter; exact Ho|exact Hn].
  Qed.

  (* a sequence of rebalances, each guarded by an arbitrary condition *)
  Definition bal_if (ms : list member) (cond : sid -> bool) (ow : list triple) (s : sid) : list triple :=
    if cond s then balance np s ms ow else ow.

  Lemma fold_bal_owned ms cond L ow : owned ms ow -> owned ms (fold_left (bal_if ms cond) L ow).
  Proof.
    revert ow. induction L as [|s r IH]; intros ow Ho; [exact Ho|]. cbn [fold_left]. apply IH.
    unfold bal_if. destruct (cond s); [apply balance_owned|]; exact Ho.
  Qed.

  Lemma fold_bal_other ms cond L ow x : (forall s, In s L -> cond s = true -> s <> x) ->
    filter (is_s x) (fold_left (bal_if ms cond) L ow) = filter (is_s x) ow.
  Proof.
    revert ow. induction L as [|s r IH]; intros ow H; [reflexivity|]. cbn [fold_left].
    rewrite IH by (intros; apply H; [right|]; assumption).
    unfold bal_if. destruct (cond s) eqn:Ec; [|reflexivity].
    apply balance_other. intros ->. apply (H s); [left; reflexivity|exact Ec|reflexivity].
  Qed.

  Lemma fold_bal_good ms cond L ow x : In x L -> cond x = true -> has_sub x ms ->
    good x (fold_left (bal_if ms cond) L ow).
  Proof.
    revert ow. induction L as [|s r IH]; intros ow Hin Hc Hs; [destruct Hin|]. cbn [fold_left].
    destruct (N.eq_dec s x) as [->|Hne].
    - destruct (in_dec N.eq_dec x r) as [Hr|Hr]; [apply IH; assumption|].
      unfold good. rewrite fold_bal_other by (intros s Hs' _ ->; contradiction).
      unfold bal_if. rewrite Hc. apply balance_good. exact Hs.
    - destruct Hin as [E|Hin]; [contradiction|]. apply IH; assumption.
  Qed.

  (* ---------------------------------------------------------------- the invariant *)
  Record inv (g : group) : Prop := {
    inv_nodup : NoDup (map m_id (g_members g));
    inv_owned : owned (g_members g) (g_owners g);
    inv_good : forall s, has_sub s (g_members g) -> good s (g_owners g)
  }.

  Lemma inv_new : inv new_group.
  Proof. constructor; cbn; [constructor|constructor|intros s H; discriminate H]. Qed.

  Lemma owned_mono ms ms' ow : (forall m, In m ms -> In m ms') -> owned ms ow -> owned ms' ow.
  Proof.
    intros Hsub Ho. eapply Forall_impl; [|exact Ho]. cbn beta. intros t (m & Hin & H1 & H2). exists m. auto.
  Qed.

  Lemma has_sub_app s a b : has_sub s (a ++ b) <-> has_sub s a \/ has_sub s b.
  Proof. unfold has_sub. rewrite existsb_app. rewrite orb_true_iff. tauto. Qed.

  Lemma mem_n_in x l : mem_n x l = true <-> In x l.
  Proof.
    unfold mem_n. rewrite existsb_exists. split.
    - intros (y & Hy & E). apply N.eqb_eq in E. subst. exact Hy.
    - intros H. exists x. split; [exact H|apply N.eqb_refl].
  Qed.

  (* join *)
  Theorem add_member_inv g c ss e g' :
    inv g -> ~ In c (map m_id (g_members g)) -> add_member np g c ss e = GOk g' -> inv g'.
  Proof.
    intros [Hnd Ho Hg] Hfresh H. unfold add_member in H. destruct (e <? g_epoch g)%N; [discriminate|].
    injection H as <-. set (S := sort_n (dedup ss)). set (ms := g_members g ++ [mkMember c S]).
    assert (Hfold : forall ow, fold_left (fun ow s => balance np s ms ow) S ow = fold_left (bal_if ms (fun _ => true)) S ow).
    { intros ow. reflexivity. }
    constructor; cbn [g_members g_owners].
    - unfold ms. rewrite map_app. cbn. apply NoDup_app_snoc; assumption.
    - rewrite Hfold. apply fold_bal_owned. eapply owned_mono; [|exact Ho]. intros m Hm. apply in_or_app. left. exact Hm.
    - intros s Hs. rewrite Hfold. destruct (in_dec N.eq_dec s S) as [Hin|Hnin].
      + apply fold_bal_good; [exact Hin|reflexivity|exact Hs].
      + unfold good. rewrite fold_bal_other by (intros x Hx _ ->; contradiction).
        apply Hg. unfold ms in Hs. apply has_sub_app in Hs. destruct Hs as [Hs|Hs]; [exact Hs|].
        exfalso. unfold has_sub in Hs. cbn in Hs. rewrite orb_false_r in Hs. unfold subscribes in Hs. cbn in Hs.
        apply mem_n_in in Hs. contradiction.
  Qed.

  (* ---------------------------------------------------------------- more plumbing *)
  Lemma filter_comm {A} (p q : A -> bool) l : filter p (filter q l) = filter q (filter p l).
  Proof.
    induction l as [|x r IH]; [reflexivity|]. cbn [filter].
    destruct (q x) eqn:Eq, (p x) eqn:Ep; cbn [filter]; rewrite ?Eq, ?Ep, IH; reflexivity.
  Qed.

  Lemma filter_all_true {A} (p : A -> bool) l : (forall x, In x l -> p x = true) -> filter p l = l.
  Proof.
    induction l as [|x r IH]; intros H; [reflexivity|]. cbn [filter]. rewrite (H x (or_introl eq_refl)).
    f_equal. apply IH. intros y Hy. apply H. right. exact Hy.
  Qed.

  Lemma balance_owned_sup s ms ms' ow : (forall m, In m ms -> In m ms') -> owned ms' ow -> owned ms' (balance np s ms ow).
  Proof.
    intros Hsub Ho. unfold balance. destruct (existsb (subscribes s) ms) eqn:Hs; [|exact Ho].
    destruct (assign_parts_shape s ms (Z.to_nat (np s)) 0 (filter (not_s s) ow) Hs) as (new & E & _ & _ & Hn).
    fold (not_s s). unfold not_s in E. unfold not_s. rewrite E.
    apply owned_app; [apply owned_filter; exact Ho|eapply owned_mono; eassumption].
  Qed.

  Lemma fold_bal_owned_sup ms ms' cond L ow : (forall m, In m ms -> In m ms') -> owned ms' ow ->
    owned ms' (fold_left (bal_if ms cond) L ow).
  Proof.
    intros Hsub. revert ow. induction L as [|s r IH]; intros ow Ho; [exact Ho|]. cbn [fold_left]. apply IH.
    unfold bal_if. destruct (cond s); [apply balance_owned_sup; assumption|exact Ho].
  Qed.

  Lemma balance_stream_owned s ms ow : has_sub s ms -> owned ms (filter (is_s s) (balance np s ms ow)).
  Proof.
    intros Hs. unfold balance. unfold has_sub in Hs. rewrite Hs.
    destruct (assign_parts_shape s ms (Z.to_nat (np s)) 0 (filter (not_s s) ow) Hs) as (new & E & _ & Hst & Hn).
    fold (not_s s). unfold not_s in E. unfold not_s. rewrite E. rewrite filter_app. fold (not_s s).
    rewrite filter_is_not, filter_is_all by exact Hst. exact Hn.
  Qed.

  Lemma fold_bal_stream_owned ms cond L ow x : In x L -> cond x = true -> has_sub x ms ->
    owned ms (filter (is_s x) (fold_left (bal_if ms cond) L ow)).
  Proof.
    revert ow. induction L as [|s r IH]; intros ow Hin Hc Hs; [destruct Hin|]. cbn [fold_left].
    destruct (N.eq_dec s x) as [->|Hne].
    - destruct (in_dec N.eq_dec x r) as [Hr|Hr]; [apply IH; assumption|].
      rewrite fold_bal_other by (intros s Hs' _ ->; contradiction).
      unfold bal_if. rewrite Hc. apply balance_stream_owned. exact Hs.
    - destruct Hin as [E|Hin]; [contradiction|]. apply IH; assumption.
  Qed.

  Definition not_c (c : cid) (t : triple) : bool := negb (N.eqb (t_cons t) c).

  Lemma NoDup_map_filter {A B} (f : A -> B) p l : NoDup (map f l) -> NoDup (map f (filter p l)).
  Proof.
    induction l as [|x r IH]; intros H; [constructor|]. cbn in H. inversion H as [|? ? Hx Hr]; subst.
    cbn [filter]. destruct (p x); [|apply IH; exact Hr]. cbn. constructor; [|apply IH; exact Hr].
    intros Hin. apply Hx. apply in_map_iff in Hin. destruct Hin as (y & E & Hy). apply filter_In in Hy.
    apply in_map_iff. exists y. tauto.
  Qed.

  Lemma find_some_in {A} (p : A -> bool) l x : find p l = Some x -> In x l /\ p x = true.
  Proof. apply find_some. Qed.

  Lemma has_sub_filter s p ms : has_sub s (filter p ms) -> has_sub s ms.
  Proof.
    unfold has_sub. rewrite !existsb_exists. intros (m & Hin & Hs). apply filter_In in Hin. exists m. tauto.
  Qed.

  Lemma has_assignment_false c s ow : has_assignment c s ow = false ->
    forall t, In t (filter (is_s s) ow) -> not_c c t = true.
  Proof.
    intros H t Hin. apply filter_In in Hin. destruct Hin as [Hin Hs].
    unfold has_assignment in H. unfold not_c. destruct (N.eqb_spec (t_cons t) c) as [E|E]; [|reflexivity].
    exfalso. assert (existsb (fun t0 => N.eqb (t_stream t0) s && N.eqb (t_cons t0) c) ow = true).
    { apply existsb_exists. exists t. split; [exact Hin|]. unfold is_s in Hs. rewrite Hs, E, N.eqb_refl. reflexivity. }
    congruence.
  Qed.

  Lemma has_assignment_true c s ow : has_assignment c s ow = true ->
    exists t, In t ow /\ t_stream t = s /\ t_cons t = c.
  Proof.
    unfold has_assignment. rewrite existsb_exists. intros (t & Hin & H). apply andb_true_iff in H.
    destruct H as [H1 H2]. apply N.eqb_eq in H1. apply N.eqb_eq in H2. eauto.
  Qed.

  (* leave / expire *)
  Theorem remove_member_inv g c e g' : inv g -> remove_member np g c e = GOk g' -> inv g'.
  Proof.
    intros [Hnd Ho Hg] H. unfold remove_member in H. destruct (e <? g_epoch g)%N; [discriminate|].
    destruct (find (fun m => N.eqb (m_id m) c) (g_members g)) as [lv|] eqn:Ef; [|discriminate].
    injection H as <-. apply find_some in Ef. destruct Ef as [Hlv Eid]. apply N.eqb_eq in Eid.
    set (ms := filter (fun m => negb (N.eqb (m_id m) c)) (g_members g)).
    set (cond := fun s => has_assignment c s (g_owners g)).
    assert (Hfold : forall L ow, fold_left (fun ow s => if has_assignment c s (g_owners g) then balance np s ms ow else ow) L ow
                                 = fold_left (bal_if ms cond) L ow) by reflexivity.
    assert (Hsub : forall m, In m ms -> In m (g_members g)) by (intros m Hm; apply filter_In in Hm; tauto).
    assert (Hms_ne : forall m, In m ms -> m_id m <> c).
    { intros m Hm. apply filter_In in Hm. destruct Hm as [_ Hm]. intros E. rewrite E, N.eqb_refl in Hm. discriminate. }
    constructor; cbn [g_members g_owners].
    - apply NoDup_map_filter. exact Hnd.
    - rewrite Hfold. fold (not_c c).
      pose proof (fold_bal_owned_sup ms (g_members g) cond (m_streams lv) (g_owners g) Hsub Ho) as H1.
      clear - H1 Hnd. induction H1 as [|t r Ht _ IH]; [constructor|]. cbn [filter]. unfold not_c at 1.
      destruct (N.eqb_spec (t_cons t) c) as [E|E]; cbn [negb]; [exact IH|]. constructor; [|exact IH].
      destruct Ht as (m & Hin & H1 & H2). exists m. split; [|tauto]. apply filter_In. split; [exact Hin|].
      rewrite H1. destruct (N.eqb_spec (t_cons t) c); [contradiction|reflexivity].
    - intros s Hs. rewrite Hfold. fold (not_c c). unfold good. rewrite filter_comm.
      destruct (cond s) eqn:Ec.
      + (* c held partitions of s: it subscribed, so s was rebalanced among the others *)
        assert (Hin : In s (m_streams lv)).
        { destruct (has_assignment_true _ _ _ Ec) as (t & Ht & Est & Ect).
          unfold owned in Ho. rewrite Forall_forall in Ho. destruct (Ho t Ht) as (m & Hm & Hid & Hsub').
          assert (m = lv).
          { clear - Hnd Hm Hlv Hid Ect Eid. assert (m_id m = m_id lv) by congruence.
            revert Hnd Hm Hlv H. generalize (g_members g). intros l. induction l as [|x r IH]; intros Hnd Hm Hlv E; [destruct Hm|].
            cbn in Hnd. inversion Hnd as [|? ? Hx Hr]; subst. destruct Hm as [->|Hm], Hlv as [->|Hlv]; try reflexivity.
            - exfalso. apply Hx. rewrite E. apply in_map. exact Hlv.
            - exfalso. apply Hx. rewrite <- E. apply in_map. exact Hm.
            - apply IH; assumption. }
          subst m. rewrite Est in Hsub'. apply mem_n_in in Hsub'. exact Hsub'. }
        rewrite filter_all_true.
        * apply fold_bal_good; assumption.
        * intros t Ht. pose proof (fold_bal_stream_owned ms cond (m_streams lv) (g_owners g) s Hin Ec Hs) as Hown.
          unfold owned in Hown. rewrite Forall_forall in Hown. destruct (Hown t Ht) as (m & Hm & Hid & _).
          unfold not_c. rewrite <- Hid. destruct (N.eqb_spec (m_id m) c) as [E|E]; [exfalso; apply (Hms_ne m Hm E)|reflexivity].
      + rewrite fold_bal_other by (intros x _ Hx ->; unfold cond in *; congruence).
        rewrite filter_all_true by (apply has_assignment_false; exact Ec).
        apply Hg. eapply has_sub_filter. exact Hs.
  Qed.

  Definition strip (s : sid) (m : member) : member :=
    mkMember (m_id m) (filter (fun x => negb (N.eqb x s)) (m_streams m)).

  Lemma subscribes_strip s x m : subscribes x (strip s m) = subscribes x m && negb (N.eqb x s).
  Proof.
    unfold subscribes, strip. cbn [m_streams]. induction (m_streams m) as [|y r IH]; [reflexivity|].
    cbn [filter mem_n existsb]. destruct (N.eqb_spec y s) as [E|E]; cbn [negb].
    - fold (mem_n x (filter (fun x0 => negb (N.eqb x0 s)) r)). rewrite IH. unfold mem_n.
      destruct (N.eqb_spec x y) as [E2|E2]; cbn [orb]; [|reflexivity].
      subst. rewrite N.eqb_refl. cbn. rewrite andb_false_r. reflexivity.
    - cbn [existsb]. fold (mem_n x (filter (fun x0 => negb (N.eqb x0 s)) r)). rewrite IH. unfold mem_n.
      destruct (N.eqb_spec x y) as [E2|E2]; cbn [orb]; [|reflexivity].
      subst. destruct (N.eqb_spec y s); [contradiction|reflexivity].
  Qed.

  Lemma has_sub_strip s x ms : has_sub x (map (strip s) ms) -> x <> s /\ has_sub x ms.
  Proof.
    unfold has_sub. rewrite !existsb_exists. intros (m' & Hin & Hs). apply in_map_iff in Hin.
    destruct Hin as (m & <- & Hm). rewrite subscribes_strip in Hs. apply andb_true_iff in Hs. destruct Hs as [H1 H2].
    split; [intros ->; rewrite N.eqb_refl in H2; discriminate|]. exists m. tauto.
  Qed.

  (* stream deletion *)
  Theorem stream_deleted_inv g s e g' : inv g -> stream_deleted np g s e = GOk g' -> inv g'.
  Proof.
    intros Hinv H. pose proof Hinv as [Hnd Ho Hg]. unfold stream_deleted in H. destruct (e <? g_epoch g)%N; [discriminate|].
    destruct (negb (existsb (subscribes s) (g_members g))); [injection H as <-; exact Hinv|].
    injection H as <-. fold (strip s). fold (not_s s).
    set (ms := map (strip s) (g_members g)).
    set (others := sort_n (dedup (concat (map (fun m => filter (fun x => negb (N.eqb x s)) (m_streams m)) (filter (subscribes s) (g_members g)))))).
    assert (Hfold : forall ow, fold_left (fun ow x => balance np x ms ow) others ow = fold_left (bal_if ms (fun _ => true)) others ow) by reflexivity.
    assert (Ho0 : owned ms (filter (not_s s) (g_owners g))).
    { unfold owned in *. rewrite Forall_forall in *. intros t Ht. apply filter_In in Ht. destruct Ht as [Ht Hns].
      destruct (Ho t Ht) as (m & Hm & Hid & Hsub). exists (strip s m). split; [apply in_map; exact Hm|]. split; [exact Hid|].
      rewrite subscribes_strip, Hsub. exact Hns. }
    constructor; cbn [g_members g_owners].
    - unfold ms. rewrite map_map. cbn. exact Hnd.
    - rewrite Hfold. apply fold_bal_owned. exact Ho0.
    - intros x Hx. rewrite Hfold. destruct (has_sub_strip s x (g_members g) Hx) as [Hne Hx'].
      destruct (in_dec N.eq_dec x others) as [Hin|Hnin].
      + apply fold_bal_good; [exact Hin|reflexivity|exact Hx].
      + unfold good. rewrite fold_bal_other by (intros y Hy _ ->; contradiction).
        rewrite filter_is_other by exact Hne. apply Hg. exact Hx'.
  Qed.

  (* ---------------------------------------------------------------- consequences *)
  Inductive gop_ok : group -> group -> Prop :=
  | ok_join g c ss e g' : ~ In c (map m_id (g_members g)) -> add_member np g c ss e = GOk g' -> gop_ok g g'
  | ok_leave g c e g' : remove_member np g c e = GOk g' -> gop_ok g g'
  | ok_sdel g s e g' : stream_deleted np g s e = GOk g' -> gop_ok g g'.

  Inductive greachable : group -> Prop :=
  | gr_new : greachable new_group
  | gr_step g g' : greachable g -> gop_ok g g' -> greachable g'.

  Theorem reachable_inv g : greachable g -> inv g.
  Proof.
    induction 1 as [|g g' _ IH Hop]; [apply inv_new|].
    destruct Hop; [eapply add_member_inv|eapply remove_member_inv|eapply stream_deleted_inv]; eassumption.
  Qed.

  Lemma zseq_nth_unique p k n : 0 <= n - p < Z.of_nat k ->
    exists a b, zseq p k = a ++ n :: b /\ ~ In n a /\ ~ In n b.
  Proof.
    revert p. induction k as [|k IH]; intros p H; [lia|]. cbn [zseq].
    destruct (Z.eq_dec n p) as [->|Hne].
    - exists [], (zseq (p + 1) k). split; [reflexivity|]. split; [intros []|].
      clear. assert (forall q, p < q -> ~ In p (zseq q k)) as Hq.
      { induction k as [|k IH]; intros q Hq; [intros []|]. cbn. intros [E|Hin]; [lia|]. apply (IH (q + 1)); [lia|exact Hin]. }
      apply Hq. lia.
    - destruct (IH (p + 1)) as (a & b & E & Ha & Hb); [lia|]. exists (p :: a), b. rewrite E. split; [reflexivity|].
      split; [intros [E'|Hin]; [congruence|contradiction]|exact Hb].
  Qed.

  (* exactly one owner, and the owner subscribes to the stream *)
  Theorem exactly_one_owner g s p : inv g -> has_sub s (g_members g) -> 0 <= p < np s ->
    exists t, filter (fun t => is_s s t && (t_part t =? p)) (g_owners g) = [t] /\
              exists m, In m (g_members g) /\ m_id m = t_cons t /\ subscribes s m = true.
  Proof.
    intros [Hnd Ho Hg] Hs Hp. specialize (Hg s Hs). unfold good in Hg.
    assert (Hsplit : forall l, filter (fun t => is_s s t && (t_part t =? p)) l = filter (fun t => t_part t =? p) (filter (is_s s) l)).
    { induction l as [|t r IH]; [reflexivity|]. cbn [filter]. destruct (is_s s t); cbn [andb filter]; [destruct (t_part t =? p); [f_equal|]|]; exact IH. }
    rewrite Hsplit.
    destruct (zseq_nth_unique 0 (Z.to_nat (np s)) p ltac:(lia)) as (a & b & E & Ha & Hb).
    rewrite E in Hg. apply map_eq_app in Hg. destruct Hg as (la & lb & El & Ea & Eb).
    destruct lb as [|t lb']; [discriminate|]. cbn in Eb. injection Eb as Et Eb'.
    exists t. rewrite El, filter_app. cbn [filter]. rewrite Et, Z.eqb_refl.
    assert (Hfa : filter (fun t0 => t_part t0 =? p) la = []).
    { clear - Ea Ha. revert a Ea Ha. induction la as [|x r IH]; intros a Ea Ha; [reflexivity|].
      destruct a as [|y a']; [discriminate|]. cbn in Ea. injection Ea as Ex Er. cbn [filter].
      destruct (Z.eqb_spec (t_part x) p) as [E|E]; [exfalso; apply Ha; left; congruence|].
      apply (IH a' Er). intros H. apply Ha. right. exact H. }
    assert (Hfb : filter (fun t0 => t_part t0 =? p) lb' = []).
    { clear - Eb' Hb. revert b Eb' Hb. induction lb' as [|x r IH]; intros b Eb Hb; [reflexivity|].
      destruct b as [|y b']; [discriminate|]. cbn in Eb. injection Eb as Ex Er. cbn [filter].
      destruct (Z.eqb_spec (t_part x) p) as [E|E]; [exfalso; apply Hb; left; congruence|].
      apply (IH b' Er). intros H. apply Hb. right. exact H. }
    rewrite Hfa, Hfb. split; [reflexivity|].
    assert (Hin : In t (g_owners g)).
    { assert (In t (filter (is_s s) (g_owners g))) by (rewrite El; apply in_or_app; right; left; reflexivity).
      apply filter_In in H. tauto. }
    assert (Hst : t_stream t = s).
    { assert (In t (filter (is_s s) (g_owners g))) by (rewrite El; apply in_or_app; right; left; reflexivity).
      apply filter_In in H. destruct H as [_ H]. apply N.eqb_eq in H. exact H. }
    unfold owned in Ho. rewrite Forall_forall in Ho. destruct (Ho t Hin) as (m & Hm & Hid & Hsub).
    exists m. rewrite Hst in Hsub. auto.
  Qed.

  (* nobody holds a partition of a stream it does not subscribe to *)
  Theorem only_subscribed g t : inv g -> In t (g_owners g) ->
    exists m, In m (g_members g) /\ m_id m = t_cons t /\ subscribes (t_stream t) m = true.
  Proof. intros [_ Ho _] Hin. unfold owned in Ho. rewrite Forall_forall in Ho. apply Ho. exact Hin. Qed.

  (* no partition outside the stream's range is ever assigned *)
  Theorem only_existing_partitions g t : inv g -> In t (g_owners g) -> 0 <= t_part t < np (t_stream t).
  Proof.
    intros Hinv Hin. destruct (only_subscribed g t Hinv Hin) as (m & Hm & _ & Hsub).
    destruct Hinv as [_ _ Hg].
    assert (Hs : has_sub (t_stream t) (g_members g)) by (apply existsb_exists; exists m; auto).
    specialize (Hg _ Hs). unfold good in Hg.
    assert (Hp : In (t_part t) (zseq 0 (Z.to_nat (np (t_stream t))))).
    { rewrite <- Hg. apply in_map. apply filter_In. split; [exact Hin|apply N.eqb_refl]. }
    clear - Hp. assert (forall q k x, In x (zseq q k) -> q <= x < q + Z.of_nat k) as Hz.
    { intros q k. revert q. induction k as [|k IH]; intros q x H; [destruct H|]. cbn in H. destruct H as [<-|H]; [lia|].
      apply IH in H. lia. }
    apply Hz in Hp. lia.
  Qed.

  (* ---------------------------------------------------------------- balance of a single stream *)
  Lemma count_of_app c a b : count_of c (a ++ b) = count_of c a + count_of c b.
  Proof. unfold count_of. rewrite filter_app, app_length. lia. Qed.

  Lemma min_sub_minimal s ow ms best r : min_sub s ow ms best = Some r ->
    (forall b, best = Some b -> count_of (m_id r) ow <= count_of (m_id b) ow) /\
    (forall x, In x ms -> subscribes s x = true -> count_of (m_id r) ow <= count_of (m_id x) ow).
  Proof.
    revert best. induction ms as [|x t IH]; intros best H; cbn [min_sub] in H.
    - subst best. split; [intros b [= <-]; lia|intros x []].
    - destruct (subscribes s x) eqn:Ex.
      + destruct best as [b|].
        * destruct (better ow x b) eqn:Eb.
          -- destruct (IH _ H) as [H1 H2]. specialize (H1 x eq_refl). unfold better in Eb.
             split; [intros b' [= <-]; lia|]. intros y [<-|Hy] Hs; [exact H1|apply H2; assumption].
          -- destruct (IH _ H) as [H1 H2]. specialize (H1 b eq_refl). unfold better in Eb.
             split; [intros b' [= <-]; exact H1|]. intros y [<-|Hy] Hs; [lia|apply H2; assumption].
        * destruct (IH _ H) as [H1 H2]. specialize (H1 x eq_refl).
          split; [intros b [=]|]. intros y [<-|Hy] Hs; [exact H1|apply H2; assumption].
      + destruct (IH _ H) as [H1 H2]. split; [exact H1|]. intros y [<-|Hy] Hs; [congruence|apply H2; assumption].
  Qed.

  Definition spread (s : sid) (ms : list member) (ow : list triple) : Prop :=
    forall m1 m2, In m1 ms -> In m2 ms -> subscribes s m1 = true -> subscribes s m2 = true ->
                  count_of (m_id m1) ow <= count_of (m_id m2) ow + 1.

  Lemma assign_parts_spread s ms k p ow : spread s ms ow -> spread s ms (assign_parts s ms k p ow).
  Proof.
    revert p ow. induction k as [|k IH]; intros p ow Hsp; [exact Hsp|]. cbn [assign_parts].
    destruct (min_sub s ow ms None) as [m|] eqn:E; [|exact Hsp]. apply IH.
    destruct (min_sub_minimal _ _ _ _ _ E) as [_ Hmin].
    intros m1 m2 H1 H2 S1 S2. rewrite !count_of_app. unfold count_of at 2 4. cbn [filter t_cons snd].
    specialize (Hsp m1 m2 H1 H2 S1 S2). pose proof (Hmin m2 H2 S2) as Hm2.
    destruct (N.eqb_spec (m_id m) (m_id m1)) as [E1|E1], (N.eqb_spec (m_id m) (m_id m2)) as [E2|E2]; cbn [length]; try lia.
    rewrite <- E1. lia.
  Qed.

  (* In a group consuming a single stream the members' partition counts differ by at most one *)
  Theorem balance_single_stream s ms ow : (forall t, In t ow -> t_stream t = s) -> has_sub s ms ->
    spread s ms (balance np s ms ow).
  Proof.
    intros Hall Hs. unfold balance. unfold has_sub in Hs. rewrite Hs. apply assign_parts_spread.
    assert (E : filter (fun t => negb (N.eqb (t_stream t) s)) ow = []).
    { clear - Hall. induction ow as [|t r IH]; [reflexivity|]. cbn [filter]. rewrite (Hall t (or_introl eq_refl)), N.eqb_refl.
      cbn [negb]. apply IH. intros x Hx. apply Hall. right. exact Hx. }
    rewrite E. intros m1 m2 _ _ _ _. cbn. lia.
  Qed.
End Proofs.

Lemma stale_epoch_refused np g c ss s e : (e < g_epoch g)%N ->
  add_member np g c ss e = GRefused /\ remove_member np g c e = GRefused /\ stream_deleted np g s e = GRefused.
Proof.
  intros H. unfold add_member, remove_member, stream_deleted.
  destruct (N.ltb_spec e (g_epoch g)); [auto|lia].
Qed.

Lemma accepted_sets_epoch np g c ss e g' : add_member np g c ss e = GOk g' -> g_epoch g' = e /\ (g_epoch g <= e)%N.
Proof.
  unfold add_member. destruct (N.ltb_spec e (g_epoch g)); [discriminate|]. intros [= <-]. cbn. split; [reflexivity|assumption].
Qed.
