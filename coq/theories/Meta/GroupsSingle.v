(* C12, "in a group consuming a single stream the members' partition counts differ by at most
   one" -- lifted from one rebalance (GroupsProofs.balance_single_stream) to every state
   reachable by joins and leaves of members that all subscribe to exactly that stream. *)
From LB Require Import Base.Prelude Meta.Groups Meta.GroupsProofs.
Open Scope Z_scope.

Section Single.
  Variable np : sid -> Z.
  Variable s : sid.

  Definition single (g : group) : Prop :=
    (forall m, In m (g_members g) -> m_streams m = [s]) /\
    (forall t, In t (g_owners g) -> t_stream t = s).

  Lemma assign_parts_streams ms k p ow : (forall t, In t ow -> t_stream t = s) ->
    forall t, In t (assign_parts s ms k p ow) -> t_stream t = s.
  Proof.
    revert p ow. induction k as [|k IH]; intros p ow H t Ht; [apply H; exact Ht|].
    cbn [assign_parts] in Ht. destruct (min_sub s ow ms None) as [m|]; [|apply H; exact Ht].
    eapply IH; [|exact Ht]. intros x Hx. apply in_app_or in Hx. destruct Hx as [Hx|[<-|[]]]; [apply H; exact Hx|reflexivity].
  Qed.

  Lemma balance_streams ms ow : (forall t, In t ow -> t_stream t = s) ->
    forall t, In t (balance np s ms ow) -> t_stream t = s.
  Proof.
    intros H t. unfold balance. destruct (existsb (subscribes s) ms); [|apply H].
    apply assign_parts_streams. intros x Hx. apply filter_In in Hx. apply H. apply Hx.
  Qed.

  Lemma count_filter_other c c' ow : c <> c' ->
    count_of c (filter (fun t => negb (N.eqb (t_cons t) c')) ow) = count_of c ow.
  Proof.
    intros Hne. unfold count_of. f_equal. f_equal. induction ow as [|t r IH]; [reflexivity|].
    cbn [filter]. destruct (N.eqb_spec (t_cons t) c') as [E|E]; cbn [negb filter].
    - destruct (N.eqb_spec (t_cons t) c) as [E'|E']; [congruence|exact IH].
    - destruct (N.eqb (t_cons t) c); [f_equal|]; exact IH.
  Qed.

  Lemma spread_sub ms ms' ow : (forall m, In m ms -> In m ms') -> spread s ms' ow -> spread s ms ow.
  Proof. intros Hsub H m1 m2 H1 H2. apply H; apply Hsub; assumption. Qed.

  (* spread holds trivially where nobody subscribes; otherwise the rebalance establishes it *)
  Lemma balance_spread ms ow : (forall t, In t ow -> t_stream t = s) -> spread s ms (balance np s ms ow).
  Proof.
    intros H m1 m2 H1 H2 S1 S2.
    assert (Hs : has_sub s ms) by (apply existsb_exists; exists m1; split; assumption).
    exact (balance_single_stream np s ms ow H Hs m1 m2 H1 H2 S1 S2).
  Qed.

  Definition balanced (g : group) : Prop := single g /\ spread s (g_members g) (g_owners g).

  Theorem join_single g c e g' : balanced g -> add_member np g c [s] e = GOk g' -> balanced g'.
  Proof.
    intros [[Hm Ho] _]. unfold add_member. destruct (e <? g_epoch g)%N; [discriminate|].
    change (sort_n (dedup [s])) with [s]. cbn [fold_left]. intros [= <-]. split; [split|]; cbn [g_members g_owners].
    - intros m Hin. apply in_app_or in Hin. destruct Hin as [Hin|[<-|[]]]; [apply Hm; exact Hin|reflexivity].
    - apply balance_streams. exact Ho.
    - apply balance_spread. exact Ho.
  Qed.

  Theorem leave_single g c e g' : balanced g -> remove_member np g c e = GOk g' -> balanced g'.
  Proof.
    intros [[Hm Ho] Hsp]. unfold remove_member. destruct (e <? g_epoch g)%N; [discriminate|].
    destruct (find (fun m => N.eqb (m_id m) c) (g_members g)) as [lv|] eqn:Ef; [|discriminate].
    destruct (find_some_in _ _ _ Ef) as [Hlv _]. rewrite (Hm lv Hlv). cbn [fold_left].
    intros [= <-].
    set (ms := filter (fun m => negb (N.eqb (m_id m) c)) (g_members g)).
    set (ow1 := if has_assignment c s (g_owners g) then balance np s ms (g_owners g) else g_owners g).
    assert (Hsub : forall m, In m ms -> In m (g_members g)) by (intros m Hin; apply filter_In in Hin; apply Hin).
    assert (Ho1 : forall t, In t ow1 -> t_stream t = s).
    { unfold ow1. destruct (has_assignment c s (g_owners g)); [apply balance_streams; exact Ho|exact Ho]. }
    assert (Hs1 : spread s ms ow1).
    { unfold ow1. destruct (has_assignment c s (g_owners g)); [apply balance_spread; exact Ho|].
      eapply spread_sub; [exact Hsub|exact Hsp]. }
    split; [split|]; cbn [g_members g_owners].
    - intros m Hin. apply Hm. apply Hsub. exact Hin.
    - intros t Hin. apply filter_In in Hin. apply Ho1. apply Hin.
    - intros m1 m2 H1 H2 S1 S2.
      assert (N1 : m_id m1 <> c).
      { apply filter_In in H1. destruct H1 as [_ H1]. destruct (N.eqb_spec (m_id m1) c); [discriminate|assumption]. }
      assert (N2 : m_id m2 <> c).
      { apply filter_In in H2. destruct H2 as [_ H2]. destruct (N.eqb_spec (m_id m2) c); [discriminate|assumption]. }
      rewrite !count_filter_other by assumption. apply Hs1; assumption.
  Qed.

  (* histories of a single-stream group *)
  Inductive sreach : group -> Prop :=
  | sr_new : sreach new_group
  | sr_join g c e g' : sreach g -> ~ In c (map m_id (g_members g)) -> add_member np g c [s] e = GOk g' -> sreach g'
  | sr_leave g c e g' : sreach g -> remove_member np g c e = GOk g' -> sreach g'.

  Lemma sreach_greachable g : sreach g -> greachable np g.
  Proof.
    induction 1 as [|g c e g' _ IH Hn Ha|g c e g' _ IH Hr]; [constructor| |].
    - eapply gr_step; [exact IH|]. eapply ok_join; eassumption.
    - eapply gr_step; [exact IH|]. eapply ok_leave; eassumption.
  Qed.

  (* every state of a single-stream group, after any history of joins and leaves/expiries:
     all assignments are of that stream and the members' partition counts differ by at most one *)
  Theorem sreach_balanced g : sreach g -> balanced g.
  Proof.
    induction 1 as [|g c e g' _ IH Hn Ha|g c e g' _ IH Hr].
    - split; [split|]; cbn [new_group g_members g_owners]; [intros m []|intros t []|intros m1 m2 []].
    - eapply join_single; eassumption.
    - eapply leave_single; eassumption.
  Qed.

  Theorem sreach_balanced_flat g : sreach g ->
    (forall m, In m (g_members g) -> m_streams m = [s]) /\
    (forall t, In t (g_owners g) -> t_stream t = s) /\
    spread s (g_members g) (g_owners g).
  Proof. intros H. destruct (sreach_balanced g H) as [[H1 H2] H3]. auto. Qed.
End Single.

(* non-vacuity: 5 partitions, three joins and a leave: counts 2/2/1, then 3/2 *)
Example sreach_example :
  let np := fun _ : sid => 5 in
  let run := fun g (f : group -> gres) => match f g with GOk g' => g' | _ => g end in
  let g3 := fold_left (fun g c => run g (fun g => add_member np g c [7%N] 1%N)) [1; 2; 3]%N new_group in
  let g4 := run g3 (fun g => remove_member np g 2%N 2%N) in
  map (fun c => count_of c (g_owners g3)) [1; 2; 3]%N = [2; 2; 1] /\
  map (fun c => count_of c (g_owners g4)) [1; 3]%N = [3; 2] /\ length (g_owners g4) = 5%nat.
Proof. vm_compute. repeat split. Qed.

