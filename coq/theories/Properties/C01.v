(* C01 -- The partition log is a gap-free, ordered, immutable record of what was appended.
   Only property theorems, each closed by [exact] of a lemma from Log.Refine / Log.Proofs. *)
From LB Require Import Base.Prelude Log.Model Log.Proofs Log.Refine Codec.Message Codec.MessageProofs Log.TailWait Log.TailWaitProofs.
Open Scope Z_scope.

(* Every log reachable by any history of appends, message-set appends that continue the log,
   truncations at any offset, reopen and HW moves -- for every segment limit -- is well
   formed: segment bases and record offsets strictly increase. *)
Theorem C01_reachable_wf : forall maxb l, reachable maxb l -> wf l.
Proof. exact reachable_wf. Qed.
Print Assumptions C01_reachable_wf.

(* Append hands out exactly the next consecutive offsets, stores exactly the batch after the
   existing content, and moves the log end by the batch size -- across a segment roll or not. *)
Theorem C01_offsets_consecutive : forall maxb l ms l' offs,
  wf l -> append maxb false l ms = Ok (l', offs) ->
  wf l' /\ all_recs l' = all_recs l ++ number (newest l + 1) ms /\
  offs = zseq (newest l + 1) (length ms) /\ l_hw l' = l_hw l.
Proof. exact append_refines. Qed.
Print Assumptions C01_offsets_consecutive.

Theorem C01_log_end_advances : forall maxb l ms l' offs,
  wf l -> append maxb false l ms = Ok (l', offs) -> newest l' = newest l + Z.of_nat (length ms).
Proof. exact append_newest. Qed.
Print Assumptions C01_log_end_advances.

(* Each operation changes the readable content exactly as the abstract log says: append adds
   at the end, truncate keeps the records below the offset, reopen and HW moves change nothing. *)
Theorem C01_step_refines_abstract_log : forall maxb l o, wf l -> hop_valid l o ->
  wf (hstep maxb l o) /\ all_recs (hstep maxb l o) = spec_step l (all_recs l) o /\
  l_hw l <= l_hw (hstep maxb l o).
Proof. exact hstep_refines. Qed.
Print Assumptions C01_step_refines_abstract_log.

(* A reader started at any offset returns exactly the retained records with offset >= start,
   in order, with the stored timestamp, epoch and bytes; "not found" iff start is past the end. *)
Theorem C01_read_is_filter : forall l o, wf l ->
  fst (read_uncommitted l o) = filter (ge_off o) (all_recs l) /\
  (snd (read_uncommitted l o) = EndNotFound <-> newest l < o).
Proof. exact read_uncommitted_refines. Qed.
Print Assumptions C01_read_is_filter.

(* The retained content is strictly ordered by offset. *)
Theorem C01_content_sorted : forall l, wf l -> sorted_from 0 (all_recs l).
Proof. exact wf_all_sorted. Qed.
Print Assumptions C01_content_sorted.

(* What is readable at an offset never changes, except that a truncation removes a suffix. *)
Theorem C01_immutable : forall maxb l o x, wf l -> hop_valid l o -> x <= newest l ->
  (forall t, o = HTruncate t -> x < t) ->
  at_off (all_recs (hstep maxb l o)) x = at_off (all_recs l) x.
Proof. exact immutable. Qed.
Print Assumptions C01_immutable.

Theorem C01_truncate_removes_suffix : forall l o, wf l ->
  wf (truncate l o) /\ all_recs (truncate l o) = filter (lt_off o) (all_recs l) /\ l_hw (truncate l o) = l_hw l.
Proof. exact truncate_refines. Qed.
Print Assumptions C01_truncate_removes_suffix.

(* Reading the stored form of a message returns exactly the key, value and headers that were
   stored -- nil and empty distinguished -- for every message within the encoder's own limits. *)
Theorem C01_message_roundtrip : forall m, message_wf m ->
  key_of (encode m) = g_key m /\ value_of (encode m) = g_value m /\ headers_of (encode m) = g_headers m.
Proof. exact message_roundtrip. Qed.
Print Assumptions C01_message_roundtrip.

(* non-vacuity: a concrete history with two rolls, a truncation inside a segment and a reopen *)
Example C01_example :
  let m := mkMsg 5 1%N [1;2;3]%N (-1) in
  let l := fold_left (hstep 70) [HAppend [m; m]; HAppend [m; m; m]; HAppend [m]; HTruncate 4; HReopen; HAppend [m]] new_log in
  map r_off (all_recs l) = [0; 1; 2; 3; 4] /\ map s_base (l_segs l) = [0; 4] /\
  map r_off (fst (read_uncommitted l 2)) = [2; 3; 4].
Proof. vm_compute. repeat split. Qed.

(* ---- a reader that WAITS at the end of the log (Log.TailWait: the wake-up protocol between the
   writers -- appends, rolls by size and by AGE, truncations -- and a blocking uncommitted reader, one
   transition per critical section; the real Reader.ReadMessage loop, held by a verif hook in front
   of segment.waitForData, is compared with it block by block on every run) ----
   For every schedule: a reader registered as a waiter has consumed the whole log, unless the seal of
   its segment -- which wakes it -- is still to come ... *)
Theorem C01_waiting_reader_has_read_everything : forall cap sched,
  let s := trun tcode (tinit cap) sched in
  t_phase (s_rd s) = Parked -> s_pending s <> Some (t_seg (s_rd s)) ->
  t_seg (s_rd s) = last_idx (s_segs s) /\ t_pos (s_rd s) = g_len (nth_sg (s_segs s) (last_idx (s_segs s))).
Proof. exact parked_reader_has_read_everything. Qed.
Print Assumptions C01_waiting_reader_has_read_everything.

Theorem C01_seal_wakes_the_waiters : forall s i, tinv s -> s_pending s = Some i ->
  ~ (t_phase (s_rd (tstep tcode s TSeal)) = Parked /\ t_seg (s_rd (tstep tcode s TSeal)) = i).
Proof. exact seal_wakes. Qed.
Print Assumptions C01_seal_wakes_the_waiters.

(* ... and it never skips a message: it leaves a segment only for the next one and only when it has
   consumed all of it. *)
Theorem C01_reader_leaves_only_consumed_segments : forall s lb, tinv s ->
  t_seg (s_rd (tstep tcode s lb)) <> t_seg (s_rd s) ->
  t_seg (s_rd (tstep tcode s lb)) = S (t_seg (s_rd s)) /\ t_pos (s_rd s) = g_len (nth_sg (s_segs s) (t_seg (s_rd s))).
Proof. exact reader_leaves_only_consumed_segments. Qed.
Print Assumptions C01_reader_leaves_only_consumed_segments.

Theorem C01_wait_invariant_reachable : forall cap sched, tinv (trun tcode (tinit cap) sched).
Proof. intros cap sched. apply trun_inv. apply tinit_inv. Qed.
Print Assumptions C01_wait_invariant_reachable.

(* The pinned commit, refuted: a segment rolled because of its age between the reader's look at the
   segment list and waitForData (the reader parks on a sealed segment with offset 1 in the next one);
   a truncation that leaves the active segment marked sealed, rolled by age later. And half of the
   repair is not enough: with the sealed test alone the reader of a truncated segment skips messages. *)
Theorem C01_pinned_age_roll_refuted :
  tshow (trun (mkTv false false) (tinit 10) [TAppend; TStep; TStep; TRollNew; TSeal; TAppend; TWaitDec])
  = ([(1, true); (1, false)], None, (0%nat, 1, Parked, 1)).
Proof. exact pinned_age_roll_race. Qed.
Print Assumptions C01_pinned_age_roll_refuted.

Theorem C01_pinned_truncate_then_age_roll_refuted :
  tshow (trun (mkTv false false) (tinit 10) [TAppend; TAppend; TTruncCopy 1; TStep; TStep; TWaitDec; TRollNew; TSeal; TAppend])
  = ([(1, true); (1, false)], None, (0%nat, 1, Parked, 1)).
Proof. exact pinned_truncate_then_age_roll. Qed.
Print Assumptions C01_pinned_truncate_then_age_roll_refuted.

Theorem C01_sealed_test_alone_refuted :
  tshow (trun (mkTv true false) (tinit 3) [TAppend; TAppend; TTruncCopy 1; TStep; TStep; TWaitDec; TStep; TAppend; TWaitDec; TStep; TWaitDec; TAppend; TRollNew; TSeal; TAppend; TStep; TStep])
  = ([(3, true); (1, false)], None, (1%nat, 1, Running, 2)).
Proof. exact sealed_test_alone_skips. Qed.
Print Assumptions C01_sealed_test_alone_refuted.

(* ... and it does not stall: with the writers quiet and no seal outstanding, a reader that is behind the
   end of the log delivers its next message within 4*(number of segments)+2 of its own steps -- it
   neither parks nor spins. (A reader that has consumed everything may spin at the end of a full,
   not yet rolled segment: waitForData returns at once there; that costs CPU, not messages.) *)
Theorem C01_waiting_reader_makes_progress : forall cap sched,
  let s := trun tcode (tinit cap) sched in
  s_pending s = None -> has_data s ->
  exists n, (n <= 4 * length (s_segs s) + 2)%nat /\ t_got (s_rd (riter n s)) = t_got (s_rd s) + 1.
Proof. exact reader_progress. Qed.
Print Assumptions C01_waiting_reader_makes_progress.

(* The only way to go round without delivering or parking is at the end of a full active segment that has
   not been rolled yet: everything the log holds has then been delivered. *)
Theorem C01_spinning_reader_has_read_everything : forall cap sched,
  let s := trun tcode (tinit cap) sched in
  t_waiting (s_rd s) = 2%N -> t_seg (s_rd s) = last_idx (s_segs s) ->
  full (nth_sg (s_segs s) (last_idx (s_segs s))) = true /\
  t_pos (s_rd s) = g_len (nth_sg (s_segs s) (last_idx (s_segs s))).
Proof. exact spinning_reader_has_read_everything. Qed.
Print Assumptions C01_spinning_reader_has_read_everything.
