(* C02 -- Committed messages survive leader changes; replicas never diverge below the HW. *)
From LB Require Import Base.Prelude Meta.Fsm Repl.Cluster Repl.ClusterProofs Repl.EpochCache Repl.EpochCacheProofs Repl.Fallback Repl.FallbackProofs.
Open Scope Z_scope.

(* The protocol model (Repl.Cluster): publishes at the leader, fetches of any size by reconciled
   followers, elections of a reconciled in-sync replica in a fresh epoch, reconciliation (a replica
   asks the leader where its last epoch ends and truncates), ISR shrinks and expansions, the
   commit rule with any minimum ISR size -- in any order, for any number of replicas. *)

(* every state of every history satisfies the invariant ... *)
Theorem C02_invariant : forall replicas L e m xs, In L replicas -> Inv (run true (init_cluster replicas L e m) xs).
Proof. intros replicas L e m xs HL. apply run_inv. apply inv_init. exact HL. Qed.
Print Assumptions C02_invariant.

(* ... from which: any two replicas hold identical entries at every offset at or below both of
   their high watermarks; *)
Theorem C02_replicas_agree_below_hw : forall c r1 r2 o e1 e2, Inv c ->
  Z.of_nat o <= hw_of c r1 -> Z.of_nat o <= hw_of c r2 ->
  nth_error (log_of c r1) o = Some e1 -> nth_error (log_of c r2) o = Some e2 -> e1 = e2.
Proof. exact replicas_agree_below_hw. Qed.
Print Assumptions C02_replicas_agree_below_hw.

(* the leader and every in-sync replica -- the only ones that can be elected -- hold everything
   that was ever committed, and every replica's HW lies within it; *)
Theorem C02_electable_replicas_hold_committed : forall c r, Inv c -> In r (c_isr c) -> prefix (c_committed c) (log_of c r).
Proof. exact isr_holds_committed. Qed.
Print Assumptions C02_electable_replicas_hold_committed.

Theorem C02_leader_holds_committed : forall c, Inv c -> prefix (c_committed c) (log_of c (c_leader c)).
Proof. exact leader_holds_committed. Qed.
Print Assumptions C02_leader_holds_committed.

Theorem C02_hw_within_committed : forall c r, Inv c -> hw_of c r + 1 <= Z.of_nat (length (c_committed c)).
Proof. exact hw_is_committed. Qed.
Print Assumptions C02_hw_within_committed.

(* Read strictly -- both replicas HOLD a message at the offset, and the same one: so it is for the
   replicas that can be elected (the in-sync ones and the leader), at every offset at or below both
   of their HWs.  A replica outside the in-sync set that is catching up takes the leader's HW from
   every replication response, also from one that brings it only part of the way: its HW can lie
   beyond its own log end (last statement; the real follower does the same, the tie compares every
   replica's HW after every step).  It holds nothing different there, serves no reader and cannot
   be elected before it has caught up. *)
Theorem C02_electable_replicas_identical_below_both_hws : forall c r1 r2 o, Inv c ->
  In r1 (c_isr c) \/ r1 = c_leader c -> In r2 (c_isr c) \/ r2 = c_leader c ->
  Z.of_nat o <= hw_of c r1 -> Z.of_nat o <= hw_of c r2 ->
  exists e, nth_error (log_of c r1) o = Some e /\ nth_error (log_of c r2) o = Some e.
Proof. exact electable_identical_below_both_hws. Qed.
Print Assumptions C02_electable_replicas_identical_below_both_hws.

Theorem C02_lagging_replica_hw_beyond_its_log :
  let c := run true (init_cluster [0; 1; 2]%N 0%N 4%N 1)
             [KPublish 0; KPublish 1; KPublish 2; KFetch 1 3; KFetch 1 0; KShrink 2; KFetch 2 1]%N in
  hw_of c 2%N = 2 /\ length (log_of c 2%N) = 1%nat /\ ~ In 2%N (c_isr c) /\ hw_of c 0%N = 2.
Proof. exact lagging_replica_hw_beyond_its_log. Qed.
Print Assumptions C02_lagging_replica_hw_beyond_its_log.

(* and what is committed stays committed, at the same offsets, whatever happens next. *)
Theorem C02_committed_survives : forall xs c, Inv c -> prefix (c_committed c) (c_committed (run true c xs)).
Proof. exact committed_survives. Qed.
Print Assumptions C02_committed_survives.

(* The reconciliation step: with the leader's log ahead only by later epochs, cutting at the
   leader's answer leaves a prefix of the leader's log and keeps everything both had in common. *)
Theorem C02_reconcile_correct : forall r L, chain r L -> mono r ->
  let r' := firstn (Z.to_nat (last_le (last_epoch r) L + 1)) r in
  prefix r' L /\ forall c, prefix c r -> prefix c L -> prefix c r'.
Proof. exact reconcile_correct. Qed.
Print Assumptions C02_reconcile_correct.

(* The leader's answer, computed from its leader-epoch cache, is that offset -- along any life of
   appends (own or replicated), elections and truncations. *)
Theorem C02_epoch_cache_answer : forall ops q, ops_ok ([], []) ops ->
  answer true (snd (crun true ops)) (fst (crun true ops)) q = last_le q (fst (crun true ops)).
Proof. exact cache_answer_exact. Qed.
Print Assumptions C02_epoch_cache_answer.

(* not vacuous: a history with two elections, a follower that kept an uncommitted tail, a shrink *)
Example C02_history :
  let c := run true (init_cluster [0; 1; 2]%N 0%N 4%N 2)
             [KPublish 0; KPublish 1; KFetch 1 2; KFetch 2 2; KFetch 1 0; KPublish 2; KElect 1 5; KReconcile 0; KReconcile 2; KPublish 12;
              KFetch 0 3; KFetch 0 0; KShrink 2; KPublish 13; KFetch 0 1; KFetch 0 0; KElect 0 6; KReconcile 1; KPublish 24; KFetch 1 2; KFetch 1 0]%N in
  log_of c 0%N = [(4, 0); (4, 1); (5, 12); (5, 13); (6, 24)]%N /\ log_of c 1%N = log_of c 0%N /\ log_of c 2%N = [(4, 0); (4, 1)]%N /\
  hw_of c 0%N = 4 /\ c_committed c = log_of c 0%N.
Proof. vm_compute. repeat split; reflexivity. Qed.

(* The truncation fallback (truncateUncommitted when the leader-epoch request gets no answer: the
   replica cuts its log at its own HW).  Histories without it are the histories above; the step
   keeps the invariant -- and with it every statement above -- for a replica outside the in-sync
   set and for one whose HW covers everything committed; *)
Theorem C02_histories_without_fallback : forall xs c, frun c (map FBase xs) = run true c xs.
Proof. exact frun_base. Qed.
Print Assumptions C02_histories_without_fallback.

Theorem C02_fallback_harmless_outside_isr_or_with_current_hw : forall c r, Inv c -> ~ In r (c_synced c) ->
  (~ In r (c_isr c) \/ hw_of c r + 1 = Z.of_nat (length (c_committed c))) -> Inv (fallback c r).
Proof. exact fallback_inv. Qed.
Print Assumptions C02_fallback_harmless_outside_isr_or_with_current_hw.

(* for an in-sync replica whose HW lags it is not: the current code, refuted (open finding; the
   history is replayed on the real server by the driver's fourth corpus history) *)
Theorem C02_refuted_hw_truncation_fallback :
  let c := frun (init_cluster [0; 1; 2]%N 0%N 4%N 1)
                [FBase (KPublish 0); FBase (KFetch 1 1); FBase (KFetch 2 1); FBase (KFetch 1 0); FBase (KFetch 2 0);
                 FBase (KElect 2 5); FFallback 1; FBase (KElect 1 6)]%N in
  c_committed c = [(4, 0)]%N /\ c_leader c = 1%N /\ log_of c 1%N = [] /\ committed_lost c = true.
Proof. exact fallback_loses_committed. Qed.
Print Assumptions C02_refuted_hw_truncation_fallback.

(* Re-admission to the in-sync set.  The leader's tick (server/replicator.go) adds a replica back
   when it was seen, and at the log end, at some moment within the last max-lag interval.  Adding a
   reconciled replica that holds everything committed keeps the invariant; the time rule admits
   more, and the current code is refuted (open finding; replayed on the real leader with its real
   timers by TestVerifC02ExpandByTime). *)
Theorem C02_readmission_safe_when_replica_holds_committed : forall c r, Inv c -> In r (c_synced c) ->
  (length (c_committed c) <= length (log_of c r))%nat -> Inv (expand_behind c r).
Proof. exact expand_behind_inv. Qed.
Print Assumptions C02_readmission_safe_when_replica_holds_committed.

Theorem C02_refuted_readmission_by_time :
  let c := frun (init_cluster [0; 1; 2]%N 0%N 4%N 1)
                [FBase (KPublish 0); FBase (KFetch 2 1); FBase (KFetch 2 0); FBase (KShrink 2);
                 FBase (KPublish 1); FBase (KPublish 2); FBase (KFetch 1 3); FBase (KFetch 1 0);
                 FExpandBehind 2; FBase (KElect 2 5)]%N in
  c_committed c = [(4, 0); (4, 1); (4, 2)]%N /\ c_leader c = 2%N /\ log_of c 2%N = [(4, 0)]%N /\ committed_lost c = true.
Proof. exact expansion_by_time_loses_committed. Qed.
Print Assumptions C02_refuted_readmission_by_time.

(* ... and these two are the only ways out: every history of the extended steps in which each
   fallback is taken outside the in-sync set or with a current HW, and each re-admission is of a
   replica that holds everything committed, keeps the invariant. *)
Theorem C02_guarded_histories_keep_the_invariant : forall xs c, Inv c -> guarded c xs -> Inv (frun c xs).
Proof. exact guarded_histories_keep_the_invariant. Qed.
Print Assumptions C02_guarded_histories_keep_the_invariant.

(* The pinned code, refuted twice. *)
Theorem C02_refuted_epoch_boundary :
  let '(log, c) := crun false [CElect 4; CAppend [(4, 0); (4, 1); (4, 2)]; CTruncate 2; CAppend [(5, 10); (5, 11)]; CElect 6]%N in
  answer false c log 4%N = 2 /\ last_le 4%N log = 1 /\
  (let '(log', c') := crun true [CElect 4; CAppend [(4, 0); (4, 1); (4, 2)]; CTruncate 2; CAppend [(5, 10); (5, 11)]; CElect 6]%N in answer true c' log' 4%N = 1).
Proof. exact pinned_answer_refuted. Qed.
Print Assumptions C02_refuted_epoch_boundary.

Theorem C02_refuted_stale_offsets :
  let c := run false (init_cluster [0; 1; 2]%N 0%N 4%N 1)
             [KPublish 0; KPublish 1; KPublish 2; KPublish 3; KPublish 4; KPublish 5; KFetch 1 6; KFetch 1 0; KFetch 2 4; KFetch 2 0;
              KElect 2 5; KReconcile 0; KReconcile 1; KPublish 14; KFetch 0 5; KFetch 1 5;
              KElect 0 6; KReconcile 1; KReconcile 2; KPublish 25; KFetch 2 5; KFetch 2 0]%N in
  hw_of c 0%N = 5 /\ length (log_of c 1%N) = 5%nat /\ In 1%N (c_isr c).
Proof. exact stale_view_refuted. Qed.
Print Assumptions C02_refuted_stale_offsets.
