(* C02 -- Committed messages survive leader changes; replicas never diverge below the HW. (theorems follow) *)
From LB Require Import Base.Prelude Repl.Cluster.
