(* C02 -- Committed messages survive leader changes; replicas never diverge below the HW. *)
From LB Require Import Base.Prelude Meta.Fsm Repl.Cluster Repl.ClusterProofs Repl.EpochCache Repl.EpochCacheProofs.
Open Scope Z_scope.

(* The protocol model (Repl.Cluster): publishes at the leader, fetches of any size by reconciled
   followers, elections of a reconciled in-sync replica in a fresh epoch, reconciliation (a replica
   asks the leader where its last epoch ends and truncates), ISR shrinks and expansions, the
   commit rule with any minimum ISR size -- in any order, for any number of replicas. *)

(* every state of every history satisfies the invariant ... *)
Theorem C02_invariant : forall replicas L e m xs, In L replicas -> Inv (run true (init_cluster replicas L e m) xs).
Proof. intros replicas L e m xs HL. apply run_inv. apply inv_init. exact HL. Qed.
Print Assumptions C02_invariant.

(* ... from which: any two replicas hold identical entries at every offset at or below both of
   their high watermarks; *)
Theorem C02_replicas_agree_below_hw : forall c r1 r2 o e1 e2, Inv c ->
  Z.of_nat o <= hw_of c r1 -> Z.of_nat o <= hw_of c r2 ->
  nth_error (log_of c r1) o = Some e1 -> nth_error (log_of c r2) o = Some e2 -> e1 = e2.
Proof. exact replicas_agree_below_hw. Qed.
Print Assumptions C02_replicas_agree_below_hw.

(* the leader and every in-sync replica -- the only ones that can be elected -- hold everything
   that was ever committed, and every replica's HW lies within it; *)
Theorem C02_electable_replicas_hold_committed : forall c r, Inv c -> In r (c_isr c) -> prefix (c_committed c) (log_of c r).
Proof. exact isr_holds_committed. Qed.
Print Assumptions C02_electable_replicas_hold_committed.

Theorem C02_leader_holds_committed : forall c, Inv c -> prefix (c_committed c) (log_of c (c_leader c)).
Proof. exact leader_holds_committed. Qed.
Print Assumptions C02_leader_holds_committed.

Theorem C02_hw_within_committed : forall c r, Inv c -> hw_of c r + 1 <= Z.of_nat (length (c_committed c)).
Proof. exact hw_is_committed. Qed.
Print Assumptions C02_hw_within_committed.

(* and what is committed stays committed, at the same offsets, whatever happens next. *)
Theorem C02_committed_survives : forall xs c, Inv c -> prefix (c_committed c) (c_committed (run true c xs)).
Proof. exact committed_survives. Qed.
Print Assumptions C02_committed_survives.

(* The reconciliation step: with the leader's log ahead only by later epochs, cutting at the
   leader's answer leaves a prefix of the leader's log and keeps everything both had in common. *)
Theorem C02_reconcile_correct : forall r L, chain r L -> mono r ->
  let r' := firstn (Z.to_nat (last_le (last_epoch r) L + 1)) r in
  prefix r' L /\ forall c, prefix c r -> prefix c L -> prefix c r'.
Proof. exact reconcile_correct. Qed.
Print Assumptions C02_reconcile_correct.

(* The leader's answer, computed from its leader-epoch cache, is that offset -- along any life of
   appends (own or replicated), elections and truncations. *)
Theorem C02_epoch_cache_answer : forall ops q, ops_ok ([], []) ops ->
  answer true (snd (crun true ops)) (fst (crun true ops)) q = last_le q (fst (crun true ops)).
Proof. exact cache_answer_exact. Qed.
Print Assumptions C02_epoch_cache_answer.

(* not vacuous: a history with two elections, a follower that kept an uncommitted tail, a shrink *)
Example C02_history :
  let c := run true (init_cluster [0; 1; 2]%N 0%N 4%N 2)
             [KPublish 0; KPublish 1; KFetch 1 2; KFetch 2 2; KFetch 1 0; KPublish 2; KElect 1 5; KReconcile 0; KReconcile 2; KPublish 12;
              KFetch 0 3; KFetch 0 0; KShrink 2; KPublish 13; KFetch 0 1; KFetch 0 0; KElect 0 6; KReconcile 1; KPublish 24; KFetch 1 2; KFetch 1 0]%N in
  log_of c 0%N = [(4, 0); (4, 1); (5, 12); (5, 13); (6, 24)]%N /\ log_of c 1%N = log_of c 0%N /\ log_of c 2%N = [(4, 0); (4, 1)]%N /\
  hw_of c 0%N = 4 /\ c_committed c = log_of c 0%N.
Proof. vm_compute. repeat split; reflexivity. Qed.

(* The pinned code, refuted twice. *)
Theorem C02_refuted_epoch_boundary :
  let '(log, c) := crun false [CElect 4; CAppend [(4, 0); (4, 1); (4, 2)]; CTruncate 2; CAppend [(5, 10); (5, 11)]; CElect 6]%N in
  answer false c log 4%N = 2 /\ last_le 4%N log = 1 /\
  (let '(log', c') := crun true [CElect 4; CAppend [(4, 0); (4, 1); (4, 2)]; CTruncate 2; CAppend [(5, 10); (5, 11)]; CElect 6]%N in answer true c' log' 4%N = 1).
Proof. exact pinned_answer_refuted. Qed.
Print Assumptions C02_refuted_epoch_boundary.

Theorem C02_refuted_stale_offsets :
  let c := run false (init_cluster [0; 1; 2]%N 0%N 4%N 1)
             [KPublish 0; KPublish 1; KPublish 2; KPublish 3; KPublish 4; KPublish 5; KFetch 1 6; KFetch 1 0; KFetch 2 4; KFetch 2 0;
              KElect 2 5; KReconcile 0; KReconcile 1; KPublish 14; KFetch 0 5; KFetch 1 5;
              KElect 0 6; KReconcile 1; KReconcile 2; KPublish 25; KFetch 2 5; KFetch 2 0]%N in
  hw_of c 0%N = 5 /\ length (log_of c 1%N) = 5%nat /\ In 1%N (c_isr c).
Proof. exact stale_view_refuted. Qed.
Print Assumptions C02_refuted_stale_offsets.
