(* C03 -- Consumers see only committed messages: all of them, once, in order. *)
From LB Require Import Base.Prelude Log.Model Log.Proofs Log.Refine Log.CommittedProofs Log.HwWait Log.HwWaitRo Log.HwWaitRoProofs.
Open Scope Z_scope.

(* Sequential semantics: a committed reader started at or below the HW returns exactly the
   retained records from its start up to the HW -- all of them, once, in order, none above. *)
Theorem C03_reader_returns_exactly_committed : forall l o, wf l -> o <= l_hw l -> oldest l <> -1 ->
  (exists r, In r (all_recs l) /\ r_off r = l_hw l) ->
  fst (read_committed l o) = filter (in_window o (l_hw l)) (all_recs l).
Proof. exact read_committed_refines. Qed.
Print Assumptions C03_reader_returns_exactly_committed.

Theorem C03_never_above_hw_sequential : forall l o r, wf l -> o <= l_hw l -> oldest l <> -1 ->
  (exists x, In x (all_recs l) /\ r_off x = l_hw l) -> In r (fst (read_committed l o)) -> r_off r <= l_hw l.
Proof. exact read_committed_never_above_hw. Qed.
Print Assumptions C03_never_above_hw_sequential.

(* The high watermark never moves backwards (log model and wake-up LTS). *)
Theorem C03_hw_monotone_log : forall l h, wf l ->
  wf (set_hw l h) /\ all_recs (set_hw l h) = all_recs l /\ l_hw l <= l_hw (set_hw l h) /\
  l_hw (set_hw l h) = Z.max (l_hw l) h.
Proof. exact set_hw_refines. Qed.
Print Assumptions C03_hw_monotone_log.

Theorem C03_hw_monotone : forall rc s lb, h_hw s <= h_hw (hstep rc s lb).
Proof. exact hw_monotone. Qed.
Print Assumptions C03_hw_monotone.

(* For EVERY schedule of appends, HW advances, and reader steps (sync / deliver / wait) of any
   number of readers: no reader has been handed a message above the HW ... *)
Theorem C03_never_above_hw : forall s sched r, hinv s -> In r (h_readers (hrun true s sched)) ->
  r_next r - 1 <= h_hw (hrun true s sched).
Proof. exact never_above_hw. Qed.
Print Assumptions C03_never_above_hw.

(* ... and no wake-up is lost: a reader whose next message is covered by the HW is never
   parked, so its next steps are enabled and deliver that message (progress under fairness). *)
Theorem C03_no_lost_wakeup : forall s sched r, hinv s -> In r (h_readers (hrun true s sched)) ->
  r_next r <= h_hw (hrun true s sched) -> r_parked r = false.
Proof. exact no_lost_wakeup. Qed.
Print Assumptions C03_no_lost_wakeup.

Theorem C03_progress_enabled : forall s i r, nth_error (h_readers s) i = Some r -> r_parked r = false -> r_next r <= h_hw s ->
  exists r', nth_error (h_readers (hstep true (hstep true s (HSync i)) (HDeliver i))) i = Some r' /\ r_next r' = r_next r + 1.
Proof. exact progress_enabled. Qed.
Print Assumptions C03_progress_enabled.

(* Without the re-check of the HW under the log lock in waitForHW a wake-up is lost. *)
Theorem C03_refuted_without_recheck :
  let s := hrun false (mkH (-1) (-1) [mkR 0 (-1) false]) [HAppend 1; HSync 0; HSetHW 0; HWait 0] in
  h_hw s = 0 /\ map r_parked (h_readers s) = [true] /\ map r_next (h_readers s) = [0].
Proof. exact without_recheck_wakeup_lost. Qed.
Print Assumptions C03_refuted_without_recheck.

(* ---- the read-only end of a log (Log.HwWaitRo: the wake-up LTS with SetReadonly and the three-way
   decision of waitForHW; every label is one call into the real commit log and the two are compared
   label by label on every run) ----
   For every schedule of appends, SetReadonly(true/false) (flag store and notification as separate
   steps), HW advances and reader steps: a reader is told "end of read-only log" only when it has
   delivered every message the log held at that moment ... *)
Theorem C03_readonly_end_only_after_everything_was_delivered : forall s sched r e, winv s ->
  In r (w_readers (wrun wcode s sched)) -> n_ended r = Some e -> n_next r = e + 1.
Proof. exact ended_delivered_all. Qed.
Print Assumptions C03_readonly_end_only_after_everything_was_delivered.

(* ... where e is what the step that ended the reader recorded: the newest offset of a log that was
   read-only with its HW at that offset. *)
Theorem C03_readonly_end_step : forall s lb j r r' e, winv s -> nth_error (w_readers s) j = Some r -> n_ended r = None ->
  nth_error (w_readers (wstep wcode s lb)) j = Some r' -> n_ended r' = Some e ->
  e = w_newest s /\ w_ro s = true /\ w_hw s = w_newest s /\ n_next r' = w_newest s + 1.
Proof. exact end_step_sound. Qed.
Print Assumptions C03_readonly_end_step.

(* No reader stays parked on a finished read-only log: one that is parked there is about to be
   notified, and the notification leaves nobody parked. *)
Theorem C03_no_reader_parked_on_finished_log : forall s sched r, winv s -> In r (w_readers (wrun wcode s sched)) -> n_parked r = true ->
  w_ro (wrun wcode s sched) = true -> w_hw (wrun wcode s sched) = w_newest (wrun wcode s sched) ->
  w_pending (wrun wcode s sched) = true.
Proof. exact parked_on_finished_log_is_notified. Qed.
Print Assumptions C03_no_reader_parked_on_finished_log.

Theorem C03_readonly_notification_wakes_all : forall s r, winv s -> w_ro s = true -> w_hw s = w_newest s ->
  In r (w_readers (wstep wcode s WRoNotify)) -> n_parked r = false.
Proof. exact notify_leaves_nobody_parked. Qed.
Print Assumptions C03_readonly_notification_wakes_all.

(* the earlier invariants hold of the extended system too, from the initial state of any number of readers *)
Theorem C03_ro_never_above_hw : forall n sched r, In r (w_readers (wrun wcode (winit n) sched)) -> n_next r - 1 <= w_hw (wrun wcode (winit n) sched).
Proof. intros n sched r. apply ro_never_above_hw. apply winit_inv. Qed.
Print Assumptions C03_ro_never_above_hw.

Theorem C03_ro_no_lost_wakeup : forall n sched r, In r (w_readers (wrun wcode (winit n) sched)) ->
  n_next r <= w_hw (wrun wcode (winit n) sched) -> n_parked r = false.
Proof. intros n sched r. apply ro_no_lost_wakeup. apply winit_inv. Qed.
Print Assumptions C03_ro_no_lost_wakeup.

(* Both decisions of waitForHW are needed, in the code's order: with "read-only and caught up" tested
   first, or without "caught up", a reader is told "end" with messages undelivered. *)
Theorem C03_refuted_readonly_check_first :
  map (fun r => (n_next r, n_ended r)) (w_readers (wrun (mkWv true false true) (winit 1) [WAppend 1; WRoFlag true; WRoNotify; WSetHW 0; WWait 0%nat]))
  = [(0, Some 0)].
Proof. exact swapped_order_ends_early. Qed.
Print Assumptions C03_refuted_readonly_check_first.

Theorem C03_refuted_readonly_end_below_log_end :
  map (fun r => (n_next r, n_ended r)) (w_readers (wrun (mkWv true true false) (winit 1)
     [WAppend 2; WSetHW 0; WRoFlag true; WRoNotify; WSync 0%nat; WDeliver 0%nat; WWait 0%nat]))
  = [(1, Some 1)].
Proof. exact end_without_leo_ends_early. Qed.
Print Assumptions C03_refuted_readonly_end_below_log_end.

(* progress in the extended system: a reader that is neither parked nor ended and whose next message is
   covered by the HW delivers it after one look at the HW *)
Theorem C03_ro_progress_enabled : forall s i r, nth_error (w_readers s) i = Some r -> ractive r = true -> n_next r <= w_hw s ->
  exists r', nth_error (w_readers (wstep wcode (wstep wcode s (WSync i)) (WDeliver i))) i = Some r' /\ n_next r' = n_next r + 1.
Proof. exact ro_progress_enabled. Qed.
Print Assumptions C03_ro_progress_enabled.
