(* C03 -- Consumers see only committed messages: all of them, once, in order. *)
From LB Require Import Base.Prelude Log.Model Log.Proofs Log.Refine Log.CommittedProofs Log.HwWait.
Open Scope Z_scope.

(* Sequential semantics: a committed reader started at or below the HW returns exactly the
   retained records from its start up to the HW -- all of them, once, in order, none above. *)
Theorem C03_reader_returns_exactly_committed : forall l o, wf l -> o <= l_hw l -> oldest l <> -1 ->
  (exists r, In r (all_recs l) /\ r_off r = l_hw l) ->
  fst (read_committed l o) = filter (in_window o (l_hw l)) (all_recs l).
Proof. exact read_committed_refines. Qed.
Print Assumptions C03_reader_returns_exactly_committed.

Theorem C03_never_above_hw_sequential : forall l o r, wf l -> o <= l_hw l -> oldest l <> -1 ->
  (exists x, In x (all_recs l) /\ r_off x = l_hw l) -> In r (fst (read_committed l o)) -> r_off r <= l_hw l.
Proof. exact read_committed_never_above_hw. Qed.
Print Assumptions C03_never_above_hw_sequential.

(* The high watermark never moves backwards (log model and wake-up LTS). *)
Theorem C03_hw_monotone_log : forall l h, wf l ->
  wf (set_hw l h) /\ all_recs (set_hw l h) = all_recs l /\ l_hw l <= l_hw (set_hw l h) /\
  l_hw (set_hw l h) = Z.max (l_hw l) h.
Proof. exact set_hw_refines. Qed.
Print Assumptions C03_hw_monotone_log.

Theorem C03_hw_monotone : forall rc s lb, h_hw s <= h_hw (hstep rc s lb).
Proof. exact hw_monotone. Qed.
Print Assumptions C03_hw_monotone.

(* For EVERY schedule of appends, HW advances, and reader steps (sync / deliver / wait) of any
   number of readers: no reader has been handed a message above the HW ... *)
Theorem C03_never_above_hw : forall s sched r, hinv s -> In r (h_readers (hrun true s sched)) ->
  r_next r - 1 <= h_hw (hrun true s sched).
Proof. exact never_above_hw. Qed.
Print Assumptions C03_never_above_hw.

(* ... and no wake-up is lost: a reader whose next message is covered by the HW is never
   parked, so its next steps are enabled and deliver that message (progress under fairness). *)
Theorem C03_no_lost_wakeup : forall s sched r, hinv s -> In r (h_readers (hrun true s sched)) ->
  r_next r <= h_hw (hrun true s sched) -> r_parked r = false.
Proof. exact no_lost_wakeup. Qed.
Print Assumptions C03_no_lost_wakeup.

Theorem C03_progress_enabled : forall s i r, nth_error (h_readers s) i = Some r -> r_parked r = false -> r_next r <= h_hw s ->
  exists r', nth_error (h_readers (hstep true (hstep true s (HSync i)) (HDeliver i))) i = Some r' /\ r_next r' = r_next r + 1.
Proof. exact progress_enabled. Qed.
Print Assumptions C03_progress_enabled.

(* Without the re-check of the HW under the log lock in waitForHW a wake-up is lost. *)
Theorem C03_refuted_without_recheck :
  let s := hrun false (mkH (-1) (-1) [mkR 0 (-1) false]) [HAppend 1; HSync 0; HSetHW 0; HWait 0] in
  h_hw s = 0 /\ map r_parked (h_readers s) = [true] /\ map r_next (h_readers s) = [0].
Proof. exact without_recheck_wakeup_lost. Qed.
Print Assumptions C03_refuted_without_recheck.
