(* C04 -- Acknowledgements mean what the ack policy says. *)
From LB Require Import Base.Prelude Repl.Acks Repl.AcksProofs Repl.AcksTerm.
Open Scope Z_scope.

(* For every sequence of batches (any mix of policies, sizes, expected offsets), follower progress
   reports, ISR shrinks and expansions, and leader terms (another replica leads for a while, this
   server follows it and then leads again), from any state whose commit queue names stored messages
   (the initial state does), every acknowledgement sent by a step means this, in the state right
   after the step:
     ALL    : the message is stored at the acknowledged offset with that correlation id, the ISR
              has at least the minimum size, and every ISR member has reported an offset at or
              beyond it (and the HW covers it);
     LEADER : the message is stored at the acknowledged offset with that correlation id, by this
              very step;
     NONE   : never acknowledged. *)
Theorem C04_every_ack_means_its_policy : forall xs s, QInv s -> all_steps_ok s xs.
Proof. exact every_ack_means_its_policy. Qed.
Print Assumptions C04_every_ack_means_its_policy.

Theorem C04_initial_state_ok : forall replicas min_isr cc, QInv (init_state replicas min_isr cc).
Proof. exact qinv_init. Qed.
Print Assumptions C04_initial_state_ok.

(* the offset of a positive acknowledgement keeps naming that message: within a leader term the
   log only grows *)
Theorem C04_log_only_grows : forall xs s s' acks, QInv s -> forallb (fun x => negb (is_regain x)) xs = true ->
  run s xs = (s', acks) -> exists st, l_log s' = l_log s ++ st.
Proof. exact log_only_grows. Qed.
Print Assumptions C04_log_only_grows.

(* across a change of leader: the change itself acknowledges nothing and leaves no ack pending, the
   HW does not go back, and every message at or below the HW stays at its offset when the log was
   cut back no further than the HW (that it is not is C02's) *)
Theorem C04_new_term_keeps_committed : forall s keep foreign hw s' out, step s (LRegain keep foreign hw) = (s', out) ->
  out = [] /\ l_queue s' = [] /\ l_hw s <= l_hw s' /\
  (l_hw s <= keep -> forall i m, Z.of_nat i <= l_hw s -> nth_error (l_log s) i = Some m -> nth_error (l_log s') i = Some m).
Proof. exact regain_keeps_committed. Qed.
Print Assumptions C04_new_term_keeps_committed.

(* "every member of the in-sync set has stored the message" is known to the leader only through
   what the members report.  Beside the leader's state runs the list of progress reports received
   in the current leader term (emptied when a new term starts).  For every history, every
   ALL-policy acknowledgement: each in-sync replica other than the leader has itself reported, in
   this term, an offset at or beyond the message's.  Nothing remembered from an earlier term counts. *)
Theorem C04_all_ack_rests_on_reports_of_this_term : forall xs s g, QInv s -> Believes s g -> all_told_ok s g xs.
Proof. exact every_all_ack_rests_on_this_terms_reports. Qed.
Print Assumptions C04_all_ack_rests_on_reports_of_this_term.

Theorem C04_initial_state_believes_nothing : forall replicas min_isr cc, Believes (init_state replicas min_isr cc) [].
Proof. exact believes_init. Qed.
Print Assumptions C04_initial_state_believes_nothing.

Theorem C04_new_term_forgets_reports : forall s keep foreign hw s' out, step s (LRegain keep foreign hw) = (s', out) ->
  forall r o, In (r, o) (l_isr s') -> r <> 0%N -> o = -1.
Proof. exact regain_forgets_reports. Qed.
Print Assumptions C04_new_term_forgets_reports.

(* a rejected message is not stored: what a publish step appends are messages of the batch that
   are not too large and whose value could be sealed, and a batch refused for its expected offset leaves the log unchanged (with
   concurrency control each message is a batch of its own) *)
Theorem C04_only_accepted_messages_stored : forall s ms s' out, QInv s -> step s (LPublish ms) = (s', out) ->
  exists st, l_log s' = l_log s ++ st /\ forall m, In m st -> In m ms /\ pm_too_large m = false /\ pm_seal_fails m = false.
Proof. exact step_stores_only_accepted. Qed.
Print Assumptions C04_only_accepted_messages_stored.

(* ... and is negatively acknowledged: an encryption error for a value that cannot be sealed
   (whatever its size), a too-large error otherwise *)
Theorem C04_refused_messages_are_nacked : forall s ms s' out m, step s (LPublish ms) = (s', out) -> In m ms ->
  (pm_seal_fails m = true -> In (mkAck (pm_corr m) (pm_policy m) 0 AEncryption) out) /\
  (pm_seal_fails m = false -> pm_too_large m = true -> In (mkAck (pm_corr m) (pm_policy m) 0 ATooLarge) out).
Proof. exact refused_messages_are_nacked. Qed.
Print Assumptions C04_refused_messages_are_nacked.

Theorem C04_refused_batch_not_stored : forall s ms s' out a, QInv s -> store_batch s ms = (s', out) -> In a out ->
  ak_kind a = AIncorrectOffset -> l_log s' = l_log s.
Proof. exact refused_batch_not_stored. Qed.
Print Assumptions C04_refused_batch_not_stored.

(* the statement is not vacuous: a history with all three policies, a slow follower, a shrink, an
   expansion, a too-large message; and the replication-factor-1 fast path *)
Example C04_history :
  snd (run (init_state [0; 1; 2]%N 2 false)
           [LPublish [mkMsg 1 PAll false (-1); mkMsg 2 PLeader false (-1); mkMsg 3 PNone false (-1); mkMsg 4 PAll true (-1)];
            LFollower 1 2; LFollower 2 0; LShrink 2; LExpand 2; LPublish [mkMsg 5 PAll false (-1)]; LFollower 1 3; LFollower 2 3])
  = [mkAck 4 PAll 0 ATooLarge; mkAck 2 PLeader 1 AOk; mkAck 1 PAll 0 AOk; mkAck 5 PAll 3 AOk].
Proof. vm_compute. reflexivity. Qed.

Example C04_fast_path :
  let '(s, acks) := run (init_state [0%N] 1 true)
                        [LPublish [mkMsg 1 PLeader false (-1)]; LPublish [mkMsg 2 PAll false 1]; LPublish [mkMsg 3 PAll false 5]; LPublish [mkMsg 4 PNone false 2]] in
  acks = [mkAck 1 PLeader 0 AOk; mkAck 2 PAll 1 AOk; mkAck 3 PAll 0 AIncorrectOffset] /\ l_hw s = 2 /\ length (l_log s) = 3%nat.
Proof. vm_compute. repeat split; reflexivity. Qed.

(* two leader terms: replica 2 reported offset 2 in the first term; replica 1 leads and overwrites
   the tail; in the second term replica 1 alone reports the ALL message at offset 2 -- no ack; it
   comes when replica 2 reports too *)
Example C04_two_terms :
  let xs := [LPublish [mkMsg 1 PNone false (-1)]; LPublish [mkMsg 2 PNone false (-1)]; LPublish [mkMsg 3 PNone false (-1)];
             LFollower 2 2; LFollower 1 0; LRegain 0 1 0; LPublish [mkMsg 4 PAll false (-1)]; LFollower 1 2] in
  snd (run (init_state [0; 1; 2]%N 2 false) xs) = [] /\
  snd (run (init_state [0; 1; 2]%N 2 false) (xs ++ [LFollower 2 2])) = [mkAck 4 PAll 2 AOk].
Proof. vm_compute. split; reflexivity. Qed.

(* a batch on an encrypting stream: the value of message 2 cannot be sealed, message 3 is too large
   and cannot be sealed either: 1 and 4 are stored *)
Example C04_seal_failures :
  let '(s, acks) := run (init_state [0%N] 1 false)
                        [LPublish [mkMsg 1 PLeader false (-1); mkMsgE 2 PAll false (-1) true; mkMsgE 3 PLeader true (-1) true; mkMsg 4 PAll false (-1)]] in
  acks = [mkAck 2 PAll 0 AEncryption; mkAck 3 PLeader 0 AEncryption; mkAck 1 PLeader 0 AOk; mkAck 4 PAll 1 AOk] /\ length (l_log s) = 2%nat.
Proof. vm_compute. split; reflexivity. Qed.
