(* C05 -- The partition log recovers from a crash at any instant. *)
From LB Require Import Base.Prelude Log.Model Log.Retention Log.Compact Codec.Message Log.Proofs Log.Disk Log.DiskBase Log.DiskProofs
  Log.DiskBlocks Log.DiskTrunc Log.DiskClean Log.DiskCleanOp Log.DiskSafety Log.DiskTear Log.DiskTorn Log.DiskRecover Log.DiskRecoverProofs Log.DiskRefute.
Open Scope Z_scope.

(* The crash model (Log.Disk): the directory of a partition (segment logs and indexes, the
   .cleaned/.truncated replacement files, the HW and leader-epoch checkpoints), every operation of the
   commit log compiled into the list of its file-system effects in the order the code performs them
   (`script`), a crash as an arbitrary prefix of that list (`crash s o n`: the first n effects reached
   the disk), and commitlog.New on what is left (`recover`). `Good` is a log as it is between
   operations: segments in order with strictly increasing offsets, every index describing exactly its
   log, no stray index, the epoch history sorted, within the log and attributing to every record its
   leader epoch (`cmatch`), the HW checkpoint not above the HW. *)

(* What commitlog.New recovers from a crash image (indexes right or visibly short of their logs,
   segments well-formed, an epoch history that fits what is there): a good log with exactly the
   records of the image, the checkpointed HW, and the scratch files untouched. *)
Theorem C05_recovery : forall H d, Mid H d ->
  let r := recover fixed d in
  Good (mkSt r (d_hw r)) /\ content r = content d /\ d_hw r <= H /\ d_scr r = d_scr d /\ (d_segs d <> [] -> segs_of r = segs_of d).
Proof. exact mid_recover. Qed.
Print Assumptions C05_recovery.

(* Every operation, stopped after ANY number n of its effects: reopening succeeds ... *)
Theorem C05_reopen_succeeds : forall key_of p, 0 < p_maxb p -> forall s o n, Good s -> op_ok s o ->
  exists s', crash key_of fixed p s o n = Some s'.
Proof. exact crash_recovers. Qed.
Print Assumptions C05_reopen_succeeds.

(* ... and yields a good log whose HW is not above the one before, which holds nothing but what was
   there or was being appended (no phantom), and everything that was there except what the
   operation was removing (a truncation: offsets >= its argument; a clean: records outside the
   segments it leaves). *)
Theorem C05_crash_safe : forall key_of p, 0 < p_maxb p -> forall s o n s', Good s -> op_ok s o ->
  crash key_of fixed p s o n = Some s' ->
  Good s' /\ s_hw s' <= s_hw s /\
  (forall x, In x (content (s_disk s')) -> In x (content (s_disk s)) \/ In x (incoming s o)) /\
  (forall x, In x (content (s_disk s)) -> survives key_of p s o x -> In x (content (s_disk s'))).
Proof. exact crash_safe. Qed.
Print Assumptions C05_crash_safe.

(* A good log has no offset twice (offsets strictly increase along what a reader scans), and its
   epoch history is sorted and attributes to every record the epoch it was written in. *)
Theorem C05_no_duplicate_offsets : forall s, Good s -> sorted_from 0 (content (s_disk s)).
Proof. exact good_sorted. Qed.
Print Assumptions C05_no_duplicate_offsets.

Theorem C05_epoch_history_matches : forall s, Good s ->
  csorted (d_ep (s_disk s)) /\ cbound (d_ep (s_disk s)) (next_of s) /\
  forall x, In x (content (s_disk s)) -> epoch_at (d_ep (s_disk s)) (r_off x) = r_ep x.
Proof. intros s G. split; [apply (g_csorted _ G)|split; [apply (g_cbound _ G)|apply (g_cmatch _ G)]]. Qed.
Print Assumptions C05_epoch_history_matches.

(* A good log is a well-formed log of the in-memory model (C01), with the same records: C01's reader
   theorem applies to whatever a crash leaves -- an uncommitted reader from any offset returns exactly
   the recovered records at or above it, in order. *)
Theorem C05_recovered_log_reads : forall s o, Good s ->
  wf (log_of s) /\ all_recs (log_of s) = content (s_disk s) /\
  fst (read_uncommitted (log_of s) o) = filter (ge_off o) (content (s_disk s)).
Proof. intros s o G. destruct (good_wf s G) as [A B]. split; [exact A|split; [exact B|apply recovered_read; exact G]]. Qed.
Print Assumptions C05_recovered_log_reads.

(* Operations that complete keep the log good (so the next crash is covered as well). *)
Theorem C05_completed_operation : forall key_of p, 0 < p_maxb p -> forall s o, Good s -> op_ok s o ->
  exists s', exec key_of fixed p s o = Some s' /\ Good s'.
Proof. exact exec_good. Qed.
Print Assumptions C05_completed_operation.

(* ... and are exactly the operations of the in-memory model: what C01 (append, truncate, reopen, HW),
   C08 (compaction) and C09 (retention) prove about Log.Model holds of what is on disk. *)
Theorem C05_completed_operation_is_model_operation : forall key_of p, 0 < p_maxb p -> forall s o s', Good s -> op_ok s o ->
  exec key_of fixed p s o = Some s' -> log_of s' = model_op key_of p (log_of s) o.
Proof. exact exec_refines. Qed.
Print Assumptions C05_completed_operation_is_model_operation.

(* Whole histories: any sequence of completed operations and crashes (any number of them, each at any
   effect of any operation), from the empty directory on. *)
Theorem C05_initial_log : forall key_of p, exists s0, init key_of fixed p = Some s0 /\ Good s0 /\ content (s_disk s0) = [].
Proof. exact init_good. Qed.
Print Assumptions C05_initial_log.

Theorem C05_histories : forall key_of p, 0 < p_maxb p -> forall hs s, Good s -> hist_ok key_of p s hs ->
  exists s', fold_left (hstep_run key_of fixed p) hs (Some s) = Some s' /\ Good s'.
Proof. exact history_safe. Qed.
Print Assumptions C05_histories.

(* The premises can be met: a history with a roll, crashes inside an append, a truncation and a clean. *)
Theorem C05_premises_satisfiable : exists s0, init key_of fixed P30 = Some s0 /\ hist_ok key_of P30 s0 sample_history /\
  offsets_of (fold_left (hstep_run key_of fixed P30) sample_history (Some s0)) = [0; 1].
Proof. exact sample_history_ok. Qed.
Print Assumptions C05_premises_satisfiable.

(* The pinned commit, refuted: each of the three repairs is needed. *)
Theorem C05_pinned_no_rebuild_refuted :
  offsets_of (run key_of (mkV false true true) P1000 [HDo (DAppend [msg1 1]); HCrash (DAppend [msg1 1]) 2; HDo (DAppend [msg1 1])]) = [0; 1; 1].
Proof. exact no_rebuild_duplicates. Qed.
Print Assumptions C05_pinned_no_rebuild_refuted.

Theorem C05_pinned_no_rebuild_hang_refuted :
  run key_of (mkV false true true) P30 [HCrash (DAppend [msg1 1]) 3; HDo (DAppend [msg1 1])] = None.
Proof. exact no_rebuild_hangs. Qed.
Print Assumptions C05_pinned_no_rebuild_hang_refuted.

Theorem C05_pinned_epoch_after_write_refuted :
  match run key_of (mkV true false true) P1000 [HDo (DAppend [msg1 1]); HCrash (DAppend [msg1 2]) 4] with
  | Some s => map (fun r => (r_off r, r_ep r, epoch_at (d_ep (s_disk s)) (r_off r))) (content (s_disk s))
  | None => []
  end = [(0, 1%N, 1%N); (1, 2%N, 1%N)].
Proof. exact epoch_after_mismatch. Qed.
Print Assumptions C05_pinned_epoch_after_write_refuted.

Theorem C05_pinned_stale_replacement_refuted :
  offsets_of (run key_of (mkV true true false) P1000 [HDo (DAppend [msg1 1; msg1 1; msg1 1]); HCrash (DTrunc 2) 8; HDo (DTrunc 2)]) = [0; 1; 0; 1].
Proof. exact stale_replacement_duplicates. Qed.
Print Assumptions C05_pinned_stale_replacement_refuted.

(* ---- a crash INSIDE a write (Log.DiskTear Log.DiskTorn) ----
   The unit of atomicity above is one file-system effect. A killed process can also leave a short
   write(2) of a batch (some whole frames and j bytes of the next) or a partly stored run of index
   entries (some whole entries and a visible part of the next whose position+size fields read q).
   For every operation, every effect of it that appends, every number k of whole frames/entries that
   arrived and every such remainder: commitlog.New succeeds (the junk is always detected by
   indexCoversLog and cut off by rebuildIndex -- `crash_torn` would answer None otherwise) and the
   recovered log is good, holds no phantom, and has lost nothing but what was being removed. *)
Theorem C05_torn_write_safe : forall key_of p, 0 < p_maxb p -> forall s o n k z e d, Good s -> op_ok s o ->
  torn_image key_of fixed p s o n k = Some (e, d) -> tear_ok d e k z ->
  exists s', crash_torn key_of fixed p s o n k z = Some s' /\
    Good s' /\ s_hw s' <= s_hw s /\
    (forall x, In x (content (s_disk s')) -> In x (content (s_disk s)) \/ In x (incoming s o)) /\
    (forall x, In x (content (s_disk s)) -> survives key_of p s o x -> In x (content (s_disk s'))).
Proof. exact torn_safe. Qed.
Print Assumptions C05_torn_write_safe.

(* histories of completed operations, crashes between effects and crashes inside writes *)
Theorem C05_torn_histories : forall key_of p, 0 < p_maxb p -> forall ts s, Good s -> thist_ok key_of p s ts ->
  exists s', fold_left (tstep_run key_of p) ts (Some s) = Some s' /\ Good s'.
Proof. exact thistory_safe. Qed.
Print Assumptions C05_torn_histories.

Theorem C05_torn_premises_satisfiable : exists s0, init key_of fixed P1000 = Some s0 /\
  thist_ok key_of P1000 s0 (torn_history 1 5) /\ thist_ok key_of P1000 s0 (torn_history 3 41).
Proof. exact torn_history_ok. Qed.
Print Assumptions C05_torn_premises_satisfiable.

Theorem C05_torn_examples :
  offsets_of (fold_left (tstep_run key_of P1000) (torn_history 1 5) (init key_of fixed P1000)) = [0; 1; 2] /\
  offsets_of (fold_left (tstep_run key_of P1000) (torn_history 3 41) (init key_of fixed P1000)) = [0; 1; 2; 3].
Proof. exact torn_histories_fine. Qed.
Print Assumptions C05_torn_examples.

(* the pinned commit (no index rebuild) keeps the junk of a torn write in the log file *)
Theorem C05_pinned_torn_write_refuted :
  match init key_of (mkV false true true) P1000 with
  | Some s0 => match exec key_of (mkV false true true) P1000 s0 (DAppend [msg1 1]) with
               | Some s1 => crash_torn key_of (mkV false true true) P1000 s1 (DAppend [msg1 1; msg1 1]) 1 1 (Some 5)
               | None => None
               end
  | None => None
  end = None.
Proof. exact torn_no_rebuild_stuck. Qed.
Print Assumptions C05_pinned_torn_write_refuted.

(* ---- a crash INSIDE commitlog.New (Log.DiskRecover) ----
   commitlog.New is itself a sequence of file-system effects (`recover_effs`: stray indexes removed,
   missing indexes created, indexes that do not end where their log ends removed, created again and
   written entry by entry, segment 0 created in an empty directory, the epoch checkpoint trimmed
   twice). After ANY prefix of them the directory is again a crash image with the same records and
   the same HW checkpoint ... *)
Theorem C05_crash_inside_recovery : forall H d, Mid H d -> forall j,
  let d' := run_effs d (firstn j (recover_effs d)) in
  Mid H d' /\ content d' = content d /\ d_hw d' = d_hw d.
Proof. exact recover_prefix. Qed.
Print Assumptions C05_crash_inside_recovery.

(* ... so an operation cut short after any n effects, followed by any number of recoveries cut short
   after j1, j2, ... effects, followed by a recovery that completes, gives a good log with the same
   guarantees as a single crash. *)
Theorem C05_recoveries_cut_short : forall key_of p, 0 < p_maxb p -> forall s o n js, Good s -> op_ok s o ->
  exists s', crash_rec key_of p s o n js = Some s' /\
    Good s' /\ s_hw s' <= s_hw s /\
    (forall x, In x (content (s_disk s')) -> In x (content (s_disk s)) \/ In x (incoming s o)) /\
    (forall x, In x (content (s_disk s)) -> survives key_of p s o x -> In x (content (s_disk s'))).
Proof. exact crash_rec_safe. Qed.
Print Assumptions C05_recoveries_cut_short.

Theorem C05_recovery_crash_example :
  match init key_of fixed P1000 with
  | Some s0 => match exec key_of fixed P1000 s0 (DAppend [msg1 1]) with
               | Some s1 => (length (recover_effs (run_effs (s_disk s1) (firstn 3 (match script key_of fixed P1000 s1 (DAppend [msg1 1; msg1 2]) with Some es => es | None => [] end)))),
                             offsets_of (crash_rec key_of P1000 s1 (DAppend [msg1 1; msg1 2]) 3 [1; 5]%nat),
                             offsets_of (match crash_rec key_of P1000 s1 (DAppend [msg1 1; msg1 2]) 3 [1; 5]%nat with
                                         | Some s2 => exec key_of fixed P1000 s2 (DAppend [msg1 2]) | None => None end))
               | None => (O, [], [])
               end
  | None => (O, [], [])
  end = (11%nat, [0; 1; 2], [0; 1; 2; 3]).
Proof. exact recovery_crashes_fine. Qed.
Print Assumptions C05_recovery_crash_example.
