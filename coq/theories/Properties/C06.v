(* C06 -- Cluster metadata is a deterministic, restart-stable state machine. (theorems follow) *)
From LB Require Import Base.Prelude Meta.Groups Meta.Fsm.
