(* C06 -- Cluster metadata is a deterministic, restart-stable state machine. *)
From LB Require Import Base.Prelude Meta.Groups Meta.Fsm Meta.FsmProofs.
From Coq Require Import Permutation.
Open Scope Z_scope.

(* Same committed sequence, same metadata: apply is a function of the state, the operation and
   its Raft index and of nothing else (that the Go code is, is what the correspondence check
   compares two servers for after every operation). *)
Theorem C06_same_log_same_metadata : forall v r idx c ops a b,
  run_core v r idx c ops = Some a -> run_core v r idx c ops = Some b -> a = b.
Proof. intros v r idx c ops a b Ha Hb. rewrite Ha in Hb. injection Hb as <-. reflexivity. Qed.
Print Assumptions C06_same_log_same_metadata.

(* A server that replays the whole log (every operation as a recovered entry) and then finishes
   recovery has exactly the metadata of the servers that applied the log live -- streams,
   partitions, replicas, ISR, leaders, epochs, paused and read-only flags, consumer groups,
   coordinators, epochs, members and assignments -- for every sequence of operations that the
   metadata leader's precondition checks let through. *)
Theorem C06_replay_rebuilds_live_state : forall ops L,
  valid_run fixed 1 empty_core ops = true ->
  run_core fixed false 1 empty_core ops = Some L ->
  exists P, run_core fixed true 1 empty_core ops = Some P /\ finish_core (N.of_nat (length ops)) P = L.
Proof. exact replay_from_scratch. Qed.
Print Assumptions C06_replay_rebuilds_live_state.

(* Every snapshot-plus-replay split: a snapshot taken after any i operations (its group members
   listed in any order, as Go's map iteration produces them), restored, followed by a replay of
   the remaining operations and finishedRecovery, gives the live servers' streams and partitions
   exactly and their groups with the same coordinators, epochs and members. *)
Theorem C06_snapshot_plus_replay_rebuilds_live_state : forall ops i Li Ln sn,
  (i <= length ops)%nat ->
  valid_run fixed 1 empty_core ops = true ->
  run_core fixed false 1 empty_core (firstn i ops) = Some Li ->
  run_core fixed false 1 empty_core ops = Some Ln ->
  snap_of sn Li ->
  exists P, run_core fixed true (N.of_nat i + 1) (restore_core fixed sn) (skipn i ops) = Some P /\
            core_eqv (finish_core (N.of_nat (length ops)) P) Ln.
Proof. exact snapshot_restart. Qed.
Print Assumptions C06_snapshot_plus_replay_rebuilds_live_state.

(* Replay never deletes or replaces data of a stream that exists at the end of the log ... *)
Theorem C06_replay_keeps_data : forall ops idx m0 P e s g,
  run fixed true idx m0 ops = Some P -> WF (mt_streams P) -> alive (mt_streams P) s ->
  alookup s (mt_disk m0) = Some g -> g <> 0%N -> alookup s (mt_disk (finish e P)) = Some g.
Proof. exact replay_keeps_data. Qed.
Print Assumptions C06_replay_keeps_data.

(* ... and never leaves the directory of a stream that does not exist at the end, when the
   directories found at the restart are those of a server that had applied a prefix of the log. *)
Theorem C06_replay_leaves_no_deleted_stream : forall ops idx m0 P e s,
  run fixed true idx m0 ops = Some P -> WF (mt_streams P) -> covered (mt_disk m0) (mt_core m0) ops ->
  alookup s (mt_disk (finish e P)) <> None -> alive (mt_streams P) s.
Proof. exact replay_leaves_no_orphans. Qed.
Print Assumptions C06_replay_leaves_no_deleted_stream.

Theorem C06_prefix_disk_is_covered : forall ops i m Li Lm, (i <= m)%nat -> (m <= length ops)%nat ->
  run fixed false 1 empty_meta (firstn i ops) = Some Li ->
  run fixed false 1 empty_meta (firstn m ops) = Some Lm ->
  covered (restore_disk (take_snapshot (mt_core Li)) (mt_disk Lm)) (restore_core fixed (take_snapshot (mt_core Li))) (skipn i ops).
Proof. exact prefix_disk_covered. Qed.
Print Assumptions C06_prefix_disk_is_covered.

(* ---- the hypotheses are met by a history that does all of it ---- *)
Definition n0 := 0%N. Definition n1 := 1%N. Definition n2 := 2%N. Definition n3 := 3%N.
Definition demo : list fop :=
  [FCreate n0 3 [n3]; FCreate n1 3 [n0; n1]; FGCreate n0 n0 n0 [n0; n1]; FPause n1 [] false; FDelete n0; FResume n1 [0; 1; 2];
   FJoin n0 n1 [n1]; FReadonly n1 [1] true; FShrink n1 0 n1; FCreate n0 2 [n2]; FLeader n1 1 n1; FLeave n0 n0; FExpand n1 0 n1; FDelete n1].

Example C06_demo_is_valid :
  valid_run fixed 1 empty_core demo = true /\
  (exists L, run_core fixed false 1 empty_core demo = Some L /\
             exists P, run_core fixed true 1 empty_core demo = Some P /\ P <> L /\ finish_core 14%N P = L).
Proof.
  split; [vm_compute; reflexivity|]. eexists. split; [vm_compute; reflexivity|]. eexists. split; [vm_compute; reflexivity|].
  split; [intros H; vm_compute in H; discriminate|vm_compute; reflexivity].
Qed.

(* ---- the pinned code, refuted ---- *)
Definition obs_flags (c : core) : list (sid * list (bool * bool)) :=
  map (fun kv => (fst kv, map (fun p => (p_paused p, p_ro p)) (st_parts (snd kv)))) (c_streams c).

(* (1) pause, resume, snapshot: the restored server pauses the partition again *)
Theorem C06_refuted_resume_forgotten_by_snapshot :
  let ops := [FCreate n1 1 [n0]; FPause n1 [] false; FResume n1 [0]] in
  forall L, run_core pinned false 1 empty_core ops = Some L ->
  obs_flags L = [(1%N, [(false, false)])] /\ obs_flags (restore_core pinned (take_snapshot L)) = [(1%N, [(true, false)])].
Proof. intros ops L H. vm_compute in H. injection H as <-. vm_compute. split; reflexivity. Qed.
Print Assumptions C06_refuted_resume_forgotten_by_snapshot.

(* (2) read-only, snapshot: the restored partition is writable *)
Theorem C06_refuted_readonly_lost_by_snapshot :
  let ops := [FCreate n1 1 [n0]; FReadonly n1 [] true] in
  forall L, run_core pinned false 1 empty_core ops = Some L ->
  obs_flags L = [(1%N, [(false, true)])] /\ obs_flags (restore_core pinned (take_snapshot L)) = [(1%N, [(false, false)])].
Proof. intros ops L H. vm_compute in H. injection H as <-. vm_compute. split; reflexivity. Qed.
Print Assumptions C06_refuted_readonly_lost_by_snapshot.

(* (3) a group over two streams, one of them deleted, a later join: live servers and a server that
   replays the log end with different group epochs and different assignments *)
Definition obs_groups (c : core) := map (fun kv => (fst kv, g_epoch (gr_g (snd kv)), g_owners (gr_g (snd kv)))) (c_groups c).
Theorem C06_refuted_replayed_delete_not_told_to_groups :
  let ops := [FCreate n0 3 [n3]; FCreate n1 3 [n0]; FGCreate n0 n0 n0 [n0; n1]; FDelete n0; FJoin n0 n1 [n1]; FCreate n2 1 [n1]] in
  forall L P, run_core pinned false 1 empty_core ops = Some L -> run_core pinned true 1 empty_core ops = Some P ->
  obs_groups L <> obs_groups (finish_core 6%N P).
Proof. intros ops L P HL HP. vm_compute in HL, HP. injection HL as <-. injection HP as <-. vm_compute. discriminate. Qed.
Print Assumptions C06_refuted_replayed_delete_not_told_to_groups.

(* ---- open findings of the current code, as theorems about the faithful model ---- *)
(* (4) the server stopped after create s; delete s and a second create s are replayed: the
   re-created stream gets the directory with the first incarnation's data *)
Theorem C06_refuted_deleted_data_comes_back :
  let ops := [FCreate n2 1 [n0]; FDelete n2; FCreate n2 2 [n1]] in
  forall m1 P, run fixed false 1 empty_meta (firstn 1 ops) = Some m1 ->
  run fixed true 1 (mkMeta empty_core (mt_disk m1) 0%N) ops = Some P ->
  alookup 2%N (mt_disk (finish 3%N P)) = Some 1%N      (* the data the first create made ... *)
  /\ option_map (fun st => map p_epoch (st_parts st)) (alookup 2%N (mt_streams (finish 3%N P))) = Some [3%N; 3%N].   (* ... in the stream the third made *)
Proof. intros ops m1 P H1 HP. vm_compute in H1. injection H1 as <-. vm_compute in HP. injection HP as <-. vm_compute. split; reflexivity. Qed.
Print Assumptions C06_refuted_deleted_data_comes_back.

(* (5) snapshots do not carry assignments: restoring with the members in another order (Go map
   iteration) re-balances differently than the history did *)
Theorem C06_refuted_assignments_after_restore :
  let ops := [FCreate n0 3 [n1; n2]; FCreate n1 2 [n0]; FGCreate n0 n3 n2 [n0]; FJoin n0 n1 [n0; n1]] in
  forall L, run_core fixed false 1 empty_core ops = Some L ->
  let sn := take_snapshot L in
  let sn' := mkSnap (sn_streams sn) (map (fun kv => (fst kv, mkSnapGroup (sg_coord (snd kv)) (sg_epoch (snd kv)) (rev (sg_members (snd kv))))) (sn_groups sn)) in
  snap_of sn' L /\ obs_groups (restore_core fixed sn) = obs_groups L /\ obs_groups (restore_core fixed sn') <> obs_groups L.
Proof.
  intros ops L H. vm_compute in H. injection H as <-. cbv zeta. split; [|split; [vm_compute; reflexivity|vm_compute; discriminate]].
  split; [reflexivity|]. vm_compute. constructor; [|constructor]. split; [reflexivity|split; [reflexivity|split; [reflexivity|]]].
  cbn. apply perm_swap.
Qed.
Print Assumptions C06_refuted_assignments_after_restore.
