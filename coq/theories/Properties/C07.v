(* C07 -- Partition leadership changes are safe and fenced by epochs. *)
From LB Require Import Base.Prelude Meta.Failover Meta.FailoverProofs.

(* Requests that name a stale leader or leader epoch are refused and change nothing
   (both code variants). *)
Theorem C07_stale_refused : forall clear elig st ev,
  match ev with
  | FReport _ l e _ _ | FShrink _ l e _ | FExpand _ l e _ => l <> leader st \/ e <> lepoch st
  | _ => False
  end -> fstep clear elig st ev = (st, RStale).
Proof. exact stale_refused. Qed.
Print Assumptions C07_stale_refused.

(* Partition and leader epochs only increase; a leader change strictly increases the leader
   epoch, so a leader epoch identifies one leader; any ISR or leader change strictly
   increases the partition epoch (both code variants). *)
Theorem C07_epochs_increase : forall clear elig st ev, epochs_ok st ->
  let st' := fst (fstep clear elig st ev) in
  epochs_ok st' /\ (pepoch st <= pepoch st')%N /\ (lepoch st <= lepoch st')%N /\
  (leader st' <> leader st -> (lepoch st < lepoch st')%N) /\
  (lepoch st' = lepoch st -> leader st' = leader st) /\
  ((isr st' <> isr st \/ leader st' <> leader st) -> (pepoch st < pepoch st')%N).
Proof. exact epochs_monotone. Qed.
Print Assumptions C07_epochs_increase.

(* A new leader is only ever an in-sync replica other than the reported leader, chosen by a
   report that names the current leader and epoch, when MORE than (|ISR|-1)/2 witnesses that
   are in-sync followers are on record -- and the record is emptied by the election. *)
Theorem C07_leader_change_is_safe : forall st ev,
  let st' := fst (fstep true true st ev) in
  leader st' <> leader st ->
  exists r l e i pick, ev = FReport r l e i pick /\ l = leader st /\ e = lepoch st /\
    In (leader st') (isr st) /\
    quorum st < counted true st (add_n r (wit st)) /\ wit st' = [].
Proof. exact leader_change_is_safe. Qed.
Print Assumptions C07_leader_change_is_safe.

(* The record only ever holds replicas that reported the (leader, epoch) pair that is still
   current: it grows only by such a report and is emptied whenever the pair changes, the
   timer expires or the controller loses leadership. *)
Theorem C07_witnesses_report_current_leader : forall st ev,
  let st' := fst (fstep true true st ev) in
  (leader st' = leader st /\ lepoch st' = lepoch st /\
   forall w, In w (wit st') -> In w (wit st) \/
             exists l e i pick, ev = FReport w l e i pick /\ l = leader st /\ e = lepoch st) \/
  wit st' = [].
Proof. exact witnesses_track_current_leader. Qed.
Print Assumptions C07_witnesses_report_current_leader.

(* The leader is always in the ISR, which is a subset of the replicas, under requests of the
   form internal callers issue (the replicator never asks to remove the leader). *)
Theorem C07_leader_in_isr_subset_replicas : forall clear elig st ev,
  membership_ok st -> internal_form st ev -> membership_ok (fst (fstep clear elig st ev)).
Proof. exact membership_preserved. Qed.
Print Assumptions C07_leader_in_isr_subset_replicas.

(* The pinned code: witnesses survive a failover and are not checked against the ISR. After b
   and c made b the leader, ONE report against (b, 6) by an id that is not a replica elects c;
   no in-sync follower had reported b. *)
Theorem C07_refuted_stale_and_foreign_witnesses :
  let st := frun false false f_init [FReport 2 1 5 6 2; FReport 3 1 5 6 2]%N in
  leader st = 2%N /\ lepoch st = 6%N /\
  snd (fstep false false st (FReport 9 2 6 7 3)%N) = RElected 3%N /\
  counted true st (add_n 9%N []) = 0.
Proof. exact pinned_code_refuted. Qed.
Print Assumptions C07_refuted_stale_and_foreign_witnesses.
