(* C08 -- Compaction keeps the latest value of every key and changes nothing else. *)
From LB Require Import Base.Prelude Log.Model Log.Retention Log.Compact Log.Proofs Log.Refine Log.CompactProofs Codec.Message.
Open Scope Z_scope.

(* After compaction every record without a key, every record at or above the high watermark,
   every record of the newest segment and the latest committed record of every key is still
   present (for any key extraction function, any HW, any segment layout). *)
Theorem C08_survivors : forall key_of cf hw lo older last r,
  0 <= lo -> older <> [] -> segs_wf lo (older ++ [last]) -> In r (flat (older ++ [last])) ->
  (has_key key_of r = false \/ hw <= r_off r \/ In r (s_recs last) \/
   (cf = false /\ r_off r = latest_for key_of false hw (flat (older ++ [last])) (kstr key_of r))) ->
  In r (flat (compact_segs key_of cf hw (older ++ [last]))).
Proof. exact survivors. Qed.
Print Assumptions C08_survivors.

(* ... where "latest" is what one expects: the highest committed offset carrying that key. *)
Theorem C08_latest_is_max : forall key_of hw all r,
  In r all -> has_key key_of r = true -> r_off r <= hw -> 0 <= r_off r ->
  (forall r', In r' all -> has_key key_of r' = true -> kstr key_of r' = kstr key_of r -> r_off r' <= hw -> r_off r' <= r_off r) ->
  latest_for key_of false hw all (kstr key_of r) = r_off r.
Proof. exact latest_for_is_max. Qed.
Print Assumptions C08_latest_is_max.

(* Each surviving message is unchanged, at its original offset and in its original order: the
   compacted content is a filter of the original content ... *)
Theorem C08_survivors_unchanged : forall key_of cf hw lo older last,
  0 <= lo -> older <> [] -> segs_wf lo (older ++ [last]) ->
  flat (compact_segs key_of cf hw (older ++ [last])) =
  filter (keep key_of cf hw (flat (older ++ [last])) (s_base last)) (flat (older ++ [last])).
Proof. exact compact_content. Qed.
Print Assumptions C08_survivors_unchanged.

(* ... and the compacted log is a well-formed log, so forward readers started at any offset
   return exactly the surviving messages from there on (C01_read_is_filter applies). *)
Theorem C08_compacted_log_wf : forall key_of cf hw lo older last,
  0 <= lo -> older <> [] -> segs_wf lo (older ++ [last]) ->
  segs_wf lo (compact_segs key_of cf hw (older ++ [last])).
Proof. exact compact_wf. Qed.
Print Assumptions C08_compacted_log_wf.

(* Backwards: a reverse reader started at any offset returns exactly the surviving messages at
   or below it, newest first, down to the stop offset -- on any well-formed log, with or
   without offset gaps (scanner that searches its start entry). *)
Theorem C08_reverse_read : forall l start stop, wf l ->
  match read_reverse true l start true stop with
  | Some rs => rs = take_while_ge stop (rev (filter (le_off start) (all_recs l)))
  | None => newest l < start
  end.
Proof. exact read_reverse_refines. Qed.
Print Assumptions C08_reverse_read.

(* The pinned code.  Bodies: crc, magic, attributes, key, nil value, no headers. *)
Definition body (key : option bytes) : bytes := [0;0;0;0;1;0]%N ++ put_bytes key ++ put_bytes None ++ [0;0]%N.
Definition rk (o : Z) (key : option bytes) : rec := mkRec o (o + 1) 1%N (body key).

(* (1) an empty key shares the scan entry of keyless messages: the latest (only) message with
   the empty key, offset 0, is dropped because the keyless message at offset 2 is "newer" *)
Theorem C08_refuted_empty_key :
  let segs := [mkSeg 0 [rk 0 (Some []); rk 1 (Some [97%N]); rk 2 None]; mkSeg 3 [rk 3 (Some [97%N])]] in
  map r_off (flat (compact_segs key_of true 3 segs)) = [2; 3] /\
  map r_off (flat (compact_segs key_of false 3 segs)) = [0; 2; 3].
Proof. vm_compute. split; reflexivity. Qed.
Print Assumptions C08_refuted_empty_key.

(* (2) the reverse scanner that starts at index (start - base): on a compacted segment holding
   offsets 2,5,8 a reader from 8 skips the segment, a reader from 2 returns 8 5 2 *)
Theorem C08_refuted_reverse_sparse :
  let l := mkLog [mkSeg 0 [rk 2 None; rk 5 None; rk 8 None]; mkSeg 9 [rk 9 None]] 9 [] false in
  option_map (map r_off) (read_reverse false l 8 true (-1)) = Some [] /\
  option_map (map r_off) (read_reverse false l 2 true (-1)) = Some [8; 5; 2] /\
  option_map (map r_off) (read_reverse true l 8 true (-1)) = Some [8; 5; 2] /\
  option_map (map r_off) (read_reverse true l 2 true (-1)) = Some [2].
Proof. vm_compute. repeat split; reflexivity. Qed.
Print Assumptions C08_refuted_reverse_sparse.
