(* C09 -- Retention removes only whole oldest segments, no more than the limits require. *)
From LB Require Import Base.Prelude Log.Model Log.Retention Log.Proofs Log.RetentionProofs.
Open Scope Z_scope.

(* Only complete segments from the oldest end are removed, and never the newest one. *)
Theorem C09_suffix_keeps_newest : forall lim ttl segs,
  exists d, retain lim ttl segs = skipn d segs /\ (segs <> [] -> (d < length segs)%nat).
Proof. exact retain_suffix. Qed.
Print Assumptions C09_suffix_keeps_newest.

(* Afterwards every configured limit holds unless only the newest segment remains
   (age: given that last-write times come from one clock, i.e. are non-decreasing). *)
Theorem C09_limits_hold_after : forall lim ttl segs, ts_sorted segs ->
  let r := retain lim ttl segs in
  (length r <= 1)%nat \/
  ((0 < lim_msgs lim -> wsum s_count r <= lim_msgs lim) /\
   (0 < lim_bytes lim -> wsum s_pos r <= lim_bytes lim) /\
   (0 < lim_age lim -> unexpired_but_last ttl r)).
Proof. exact retain_limits_hold. Qed.
Print Assumptions C09_limits_hold_after.

(* No segment is removed unless a limit requires it: the newest removed segment, kept
   together with the survivors, would violate one of the configured limits. *)
Theorem C09_minimal : forall lim ttl segs pre x,
  segs = pre ++ x :: retain lim ttl segs ->
  (0 < lim_age lim /\ s_last_ts x < ttl) \/
  (0 < lim_msgs lim /\ lim_msgs lim < wsum s_count (retain lim ttl segs) + s_count x) \/
  (0 < lim_bytes lim /\ lim_bytes lim < wsum s_pos (retain lim ttl segs) + s_pos x).
Proof. exact retain_minimal. Qed.
Print Assumptions C09_minimal.

(* The surviving log is a contiguous suffix of the content ... *)
Theorem C09_content_contiguous_suffix : forall lim ttl l,
  exists n, all_recs (clean lim ttl l) = skipn n (all_recs l).
Proof. exact clean_content_suffix. Qed.
Print Assumptions C09_content_contiguous_suffix.

(* ... and a well-formed log again, so that (C01_read_is_filter) readers from its new
   oldest offset, or any other, return exactly the surviving records. *)
Theorem C09_cleaned_log_wf : forall lim ttl l, wf l -> wf (clean lim ttl l).
Proof. exact clean_wf. Qed.
Print Assumptions C09_cleaned_log_wf.

(* non-vacuity: three full segments and an active one; a message limit of 3 keeps two *)
Example C09_example :
  let m := mkMsg 5 1%N [1;2;3]%N (-1) in
  let l := fold_left (fun l _ => append_log 70 false l [m; m; m]) [1;2;3;4]%nat new_log in
  map s_base (l_segs l) = [0; 3; 6; 9] /\
  map s_base (l_segs (clean (mkLimits 0 7 0) 0 l)) = [6; 9] /\
  map s_base (l_segs (clean (mkLimits 100 0 0) 0 l)) = [9] /\
  map s_base (l_segs (clean (mkLimits 0 0 1) 6 l)) = [9].
Proof. vm_compute. repeat split. Qed.
