(* C09 -- Retention removes only whole oldest segments, no more than the limits require. *)
From LB Require Import Base.Prelude Log.Model Log.Retention Log.Proofs Log.Refine Log.RetentionProofs Log.RetentionRepeat.
Open Scope Z_scope.

(* Only complete segments from the oldest end are removed, and never the newest one. *)
Theorem C09_suffix_keeps_newest : forall lim ttl segs,
  exists d, retain lim ttl segs = skipn d segs /\ (segs <> [] -> (d < length segs)%nat).
Proof. exact retain_suffix. Qed.
Print Assumptions C09_suffix_keeps_newest.

(* Afterwards every configured limit holds unless only the newest segment remains
   (age: given that last-write times come from one clock, i.e. are non-decreasing). *)
Theorem C09_limits_hold_after : forall lim ttl segs, ts_sorted segs ->
  let r := retain lim ttl segs in
  (length r <= 1)%nat \/
  ((0 < lim_msgs lim -> wsum s_count r <= lim_msgs lim) /\
   (0 < lim_bytes lim -> wsum s_pos r <= lim_bytes lim) /\
   (0 < lim_age lim -> unexpired_but_last ttl r)).
Proof. exact retain_limits_hold. Qed.
Print Assumptions C09_limits_hold_after.

(* No segment is removed unless a limit requires it: the newest removed segment, kept
   together with the survivors, would violate one of the configured limits. *)
Theorem C09_minimal : forall lim ttl segs pre x,
  segs = pre ++ x :: retain lim ttl segs ->
  (0 < lim_age lim /\ s_last_ts x < ttl) \/
  (0 < lim_msgs lim /\ lim_msgs lim < wsum s_count (retain lim ttl segs) + s_count x) \/
  (0 < lim_bytes lim /\ lim_bytes lim < wsum s_pos (retain lim ttl segs) + s_pos x).
Proof. exact retain_minimal. Qed.
Print Assumptions C09_minimal.

(* The surviving log is a contiguous suffix of the content ... *)
Theorem C09_content_contiguous_suffix : forall lim ttl l,
  exists n, all_recs (clean lim ttl l) = skipn n (all_recs l).
Proof. exact clean_content_suffix. Qed.
Print Assumptions C09_content_contiguous_suffix.

(* ... and a well-formed log again, so that (C01_read_is_filter) readers from its new
   oldest offset, or any other, return exactly the surviving records. *)
Theorem C09_cleaned_log_wf : forall lim ttl l, wf l -> wf (clean lim ttl l).
Proof. exact clean_wf. Qed.
Print Assumptions C09_cleaned_log_wf.

(* Repeated cleans: a layout on which every configured limit already holds (or of which
   only the newest segment is left) is a fixed point -- Clean removes nothing from it. *)
Theorem C09_nothing_removed_when_limits_hold : forall lim ttl segs,
  (length segs <= 1)%nat \/
  ((0 < lim_msgs lim -> wsum s_count segs <= lim_msgs lim) /\
   (0 < lim_bytes lim -> wsum s_pos segs <= lim_bytes lim) /\
   (0 < lim_age lim -> unexpired_but_last ttl segs)) ->
  retain lim ttl segs = segs.
Proof. exact retain_fixpoint. Qed.
Print Assumptions C09_nothing_removed_when_limits_hold.

(* ... hence a second Clean under the same limits and clock removes nothing more (given
   last-write times from one clock; C09_repeat_needs_one_clock shows the condition is needed). *)
Theorem C09_repeated_clean_idempotent : forall lim ttl segs, ts_sorted segs ->
  retain lim ttl (retain lim ttl segs) = retain lim ttl segs.
Proof. exact retain_idempotent. Qed.
Print Assumptions C09_repeated_clean_idempotent.

Theorem C09_repeat_needs_one_clock : exists lim ttl segs,
  retain lim ttl (retain lim ttl segs) <> retain lim ttl segs.
Proof. exact retain_idempotent_needs_one_clock. Qed.
Print Assumptions C09_repeat_needs_one_clock.

(* Any number of cleans, each under its own limits and cut-off: what survives is still a
   suffix of the original layout that keeps the newest segment. *)
Theorem C09_repeated_cleans_suffix : forall (cs : list (limits * Z)) segs,
  exists d, fold_left (fun s c => retain (fst c) (snd c) s) cs segs = skipn d segs /\
            (segs <> [] -> (d < length segs)%nat).
Proof. exact retains_suffix. Qed.
Print Assumptions C09_repeated_cleans_suffix.

(* Cleans that run while the log is written: a Clean leaves the log end, the HW and the
   read-only flag alone, and the append that follows hands out the offsets and stores the
   records it would have without the Clean -- only older content is missing in front. *)
Theorem C09_clean_keeps_log_end : forall lim ttl l, wf l ->
  active (clean lim ttl l) = active l /\ newest (clean lim ttl l) = newest l /\
  l_hw (clean lim ttl l) = l_hw l /\ l_ro (clean lim ttl l) = l_ro l.
Proof. exact clean_keeps_end. Qed.
Print Assumptions C09_clean_keeps_log_end.

Theorem C09_append_after_clean : forall maxb lim ttl l ms l' offs, wf l ->
  append maxb false (clean lim ttl l) ms = Ok (l', offs) ->
  wf l' /\ offs = zseq (newest l + 1) (length ms) /\
  (exists n, all_recs l' = skipn n (all_recs l) ++ number (newest l + 1) ms) /\
  newest l' = newest l + Z.of_nat (length ms).
Proof. exact append_after_clean. Qed.
Print Assumptions C09_append_after_clean.

(* Every log reachable by any history of the writers' operations of C01 (appends, message
   sets, truncations, reopen, HW moves) interleaved with cleans under any limits and
   cut-offs is well formed; a writer's step changes the content as the abstract log says, a
   Clean removes a prefix and nothing else. *)
Theorem C09_histories_with_cleans_wf : forall maxb l, creachable maxb l -> wf l.
Proof. exact creachable_wf. Qed.
Print Assumptions C09_histories_with_cleans_wf.

Theorem C09_step_with_cleans : forall maxb l c, wf l -> cop_valid l c ->
  match c with
  | CHop o => all_recs (cstep maxb l c) = spec_step l (all_recs l) o
  | CClean _ _ => (exists n, all_recs (cstep maxb l c) = skipn n (all_recs l)) /\
                  newest (cstep maxb l c) = newest l
  end /\ l_hw l <= l_hw (cstep maxb l c).
Proof. exact cstep_content. Qed.
Print Assumptions C09_step_with_cleans.

(* non-vacuity: three full segments and an active one; a message limit of 3 keeps two *)
Example C09_example :
  let m := mkMsg 5 1%N [1;2;3]%N (-1) in
  let l := fold_left (fun l _ => append_log 70 false l [m; m; m]) [1;2;3;4]%nat new_log in
  map s_base (l_segs l) = [0; 3; 6; 9] /\
  map s_base (l_segs (clean (mkLimits 0 7 0) 0 l)) = [6; 9] /\
  map s_base (l_segs (clean (mkLimits 100 0 0) 0 l)) = [9] /\
  map s_base (l_segs (clean (mkLimits 0 0 1) 6 l)) = [9].
Proof. vm_compute. repeat split. Qed.
