(* C10 -- A subscription delivers exactly the requested range. *)
From LB Require Import Base.Prelude Log.Model Log.Compact Log.Proofs Log.Refine Log.CompactProofs Log.CommittedProofs Api.Range Api.RangeProofs Api.RangeOrder Log.HwWaitRo Log.HwWaitRoProofs.
From Coq Require Import Sorted.
Open Scope Z_scope.

(* Forward: for every start and stop position, on any well-formed log (dense, compacted with
   offset gaps, trimmed by retention, read-only), the messages delivered are exactly the
   committed retained records between the resolved start and stop, in offset order, each once. *)
Theorem C10_forward_range_exact : forall l sp tp stop, wf l -> oldest l <> -1 ->
  (exists r, In r (all_recs l) /\ r_off r = l_hw l) ->
  resolve_stop l tp = Ok stop -> resolve_start l sp <= l_hw l ->
  (stop = -1 \/ resolve_start l sp <= stop) ->
  fst (subscribe l sp tp false) =
  map r_off (filter (in_fwd_range (resolve_start l sp) (l_hw l) stop) (all_recs l)).
Proof. exact subscribe_forward_exact. Qed.
Print Assumptions C10_forward_range_exact.

(* Reverse: exactly the committed retained records from min(start, HW) down to the stop offset,
   newest first. *)
Theorem C10_reverse_range_exact : forall l sp tp stop, wf l -> l_hw l <> -1 ->
  resolve_stop l tp = Ok stop -> (stop = -1 \/ stop <= resolve_start l sp) ->
  let eff := if (l_hw l <? resolve_start l sp) || (resolve_start l sp =? -1) then l_hw l else resolve_start l sp in
  eff <= newest l ->
  fst (subscribe l sp tp true) = map r_off (rev (filter (in_rev_range eff stop) (all_recs l))).
Proof. exact subscribe_reverse_exact. Qed.
Print Assumptions C10_reverse_range_exact.

(* "In offset order, each once": what a forward subscription delivers is strictly increasing
   (so nothing twice), inside [start, HW] and not beyond the stop offset ... *)
Theorem C10_forward_in_order_each_once : forall l sp tp stop, wf l -> oldest l <> -1 ->
  (exists r, In r (all_recs l) /\ r_off r = l_hw l) ->
  resolve_stop l tp = Ok stop -> resolve_start l sp <= l_hw l ->
  (stop = -1 \/ resolve_start l sp <= stop) ->
  let out := fst (subscribe l sp tp false) in
  StronglySorted Z.lt out /\ NoDup out /\
  Forall (fun o => resolve_start l sp <= o <= l_hw l /\ (stop = -1 \/ o <= stop)) out.
Proof. exact forward_ordered_once. Qed.
Print Assumptions C10_forward_in_order_each_once.

(* ... and what a reverse one delivers is strictly decreasing, at or below the effective start
   and not below the stop offset. *)
Theorem C10_reverse_in_order_each_once : forall l sp tp stop, wf l -> l_hw l <> -1 ->
  resolve_stop l tp = Ok stop -> (stop = -1 \/ stop <= resolve_start l sp) ->
  let eff := if (l_hw l <? resolve_start l sp) || (resolve_start l sp =? -1) then l_hw l else resolve_start l sp in
  eff <= newest l ->
  let out := fst (subscribe l sp tp true) in
  NoDup out /\ StronglySorted Z.lt (rev out) /\ Forall (fun o => o <= eff /\ (stop = -1 \/ stop <= o)) out.
Proof. exact reverse_once. Qed.
Print Assumptions C10_reverse_in_order_each_once.

(* A range whose stop lies before its start in the direction of reading is refused. *)
Theorem C10_empty_range_refused : forall l sp tp stop (rv : bool), resolve_stop l tp = Ok stop -> stop <> -1 ->
  (if rv then resolve_start l sp < stop else stop < resolve_start l sp) ->
  subscribe l sp tp rv = ([], EInvalid).
Proof. exact subscribe_empty_range_refused. Qed.
Print Assumptions C10_empty_range_refused.

(* The committed reader underneath: exactly the retained records in [start, HW]. *)
Theorem C10_committed_reader_window : forall l o, wf l -> o <= l_hw l -> oldest l <> -1 ->
  (exists r, In r (all_recs l) /\ r_off r = l_hw l) ->
  fst (read_committed l o) = filter (in_window o (l_hw l)) (all_recs l).
Proof. exact read_committed_refines. Qed.
Print Assumptions C10_committed_reader_window.

(* non-vacuity: a compacted log {0,2,5 | 6,7}, HW 6; forward from 1 to stop 4 (gone) and
   reverse from 6 down to 2 *)
Example C10_example :
  let r := fun o => mkRec o (100 + o) 1%N [] in
  let l := mkLog [mkSeg 0 [r 0; r 2; r 5]; mkSeg 6 [r 6; r 7]] 6 [] false in
  subscribe l (SOffset 1) (TOffset 4) false = ([2], EStop) /\
  subscribe l (SOffset 6) (TOffset 2) true = ([6; 5; 2], EStop) /\
  subscribe l (STimestamp 103) TCancel false = ([5; 6], EWait) /\
  subscribe l SEarliest (TTimestamp 104) false = ([0; 2], EStop) /\
  subscribe l (SOffset 5) (TOffset 3) false = ([], EInvalid).
Proof. vm_compute. repeat split. Qed.

(* A forward subscription on a read-only partition ends with "end of read-only partition" only when
   the reader has delivered everything the log holds: the step that ends a reader (Log.HwWaitRo, the
   decision of commitLog.waitForHW, compared with the code label by label in C03's check) is taken on
   a read-only log whose HW is at its newest offset, by a reader whose next offset is just above it. *)
Theorem C10_readonly_end_only_at_the_log_end : forall s lb j r r' e, winv s -> nth_error (w_readers s) j = Some r -> n_ended r = None ->
  nth_error (w_readers (wstep wcode s lb)) j = Some r' -> n_ended r' = Some e ->
  e = w_newest s /\ w_ro s = true /\ w_hw s = w_newest s /\ n_next r' = w_newest s + 1.
Proof. exact end_step_sound. Qed.
Print Assumptions C10_readonly_end_only_at_the_log_end.
