(* C11 -- A cursor fetch returns the last cursor that was stored. *)
From LB Require Import Base.Prelude Log.Model Log.Retention Log.Compact Log.Proofs Log.CompactProofs
  Api.Cursors Api.CursorsProofs Api.CursorsLog.
Open Scope Z_scope.

(* Sequential histories: after ANY sequence of successful and failed SetCursor calls, fetches
   (through the cache or scanning), cache evictions, cache purges (leader change, restart) and
   compactions of the cursors partition that keep the latest message of every key, FetchCursor
   returns the offset of the most recent successful SetCursor for the key, or -1. *)
Theorem C11_fetch_returns_last_set : forall ops k, all_legal (mkC [] []) ops ->
  snd (cstep (run (mkC [] []) ops) (CGet k)) = Some (spec_value k ops (-1)) /\
  snd (cstep (run (mkC [] []) ops) (CGetScan k)) = Some (spec_value k ops (-1)).
Proof.
  intros ops k Hl. split; [exact (fetch_returns_last_set ops k Hl)|].
  assert (Hc : coherent (mkC [] [])) by (intros k0 v0; cbn; discriminate).
  destruct (run_props (mkC [] []) ops k Hc Hl) as [_ H2]. cbn [cstep snd]. rewrite H2. reflexivity.
Qed.
Print Assumptions C11_fetch_returns_last_set.

(* the hypothesis is met by a history that does all of it *)
Example C11_history_is_legal :
  let ops := [CSet 1%N 10; CSet 2%N 20; CGet 1%N; CSet 1%N 11; CEvict 1%N; CCompact [(2%N, 20); (1%N, 11)]; CPurge; CSetFailed 2%N 99; CGet 2%N] in
  all_legal (mkC [] []) ops /\ spec_value 1%N ops (-1) = 11 /\ spec_value 2%N ops (-1) = 20.
Proof.
  cbn. repeat split; try (intros ? Hd; discriminate Hd).
  intros nl [= <-] k. unfold latest. cbn [rev app scan_back c_log].
  destruct (N.eqb 1 k), (N.eqb 2 k); reflexivity.
Qed.

(* Interleavings: a fetch that misses the cache scans the log and then fills the cache; with the
   lock held across both, in every enabled schedule every fetch returns what the log holds for
   its key at the moment it returns, which is the most recent completed SetCursor. *)
Theorem C11_every_schedule : forall ops answers,
  all_alegal true (mkA (mkC [] []) []) ops -> arun true (mkA (mkC [] []) []) ops = Some answers ->
  Forall (fun p => fst p = snd p) answers.
Proof.
  intros ops answers. apply arun_correct. split; [intros k v; cbn; discriminate|intros t k v; cbn; discriminate].
Qed.
Print Assumptions C11_every_schedule.

Theorem C11_log_follows_sets : forall locked s o s' ans k, alegal s o -> astep locked s o = Some (s', ans) ->
  latest k (c_log (a_c s')) = aspec k [o] (latest k (c_log (a_c s))).
Proof. exact astep_latest. Qed.
Print Assumptions C11_log_follows_sets.

(* The pinned code released the lock between scan and fill. *)
Theorem C11_refuted_unlocked_fill :
  arun false (mkA (mkC [] []) []) [AScan 1 7%N; ASet 7%N 5; AFill 1; AHit 7%N; AHit 7%N] = Some [(-1, 5); (-1, 5); (-1, 5)] /\
  arun true (mkA (mkC [] []) []) [AScan 1 7%N; ASet 7%N 5; AFill 1; AHit 7%N] = None /\
  arun true (mkA (mkC [] []) []) [AScan 1 7%N; AFill 1; ASet 7%N 5; AHit 7%N] = Some [(-1, -1); (5, 5)].
Proof. exact unlocked_refuted. Qed.
Print Assumptions C11_refuted_unlocked_fill.

(* On the commit-log model: the scan GetCursor performs (committed reverse read from the latest
   offset, first message with the key) never fails on a well-formed log and finds the newest
   committed record with the key ... *)
Theorem C11_scan_finds_newest_committed : forall key_of l k, wf l -> 0 <= l_hw l <= newest l -> oldest l <> -1 ->
  get_cursor_log key_of l k = Some (scan_log key_of (l_hw l) k (all_recs l)).
Proof. exact get_cursor_log_scan. Qed.
Print Assumptions C11_scan_finds_newest_committed.

(* ... and compaction of any segment layout, at any HW, does not change what it finds: this is
   the keeps_latest hypothesis above, for the compaction the commit log actually performs. *)
Theorem C11_compaction_keeps_scan_result : forall key_of hw k lo older last,
  0 <= lo -> older <> [] -> segs_wf lo (older ++ [last]) ->
  scan_log key_of hw k (flat (compact_segs key_of false hw (older ++ [last]))) = scan_log key_of hw k (flat (older ++ [last])).
Proof. exact scan_after_compaction. Qed.
Print Assumptions C11_compaction_keeps_scan_result.
