(* C12 -- Each partition is assigned to exactly one consumer of a group. *)
From LB Require Import Base.Prelude Meta.Groups Meta.GroupsProofs Meta.GroupsSingle.
Open Scope Z_scope.

(* After ANY sequence of joins (of non-members), leaves/expiries and stream deletions, for
   any partition counts: every partition of every stream with at least one subscribed member
   has exactly one owner, and that owner subscribes to the stream. *)
Theorem C12_exactly_one_owner : forall (np : sid -> Z) g s p,
  greachable np g -> has_sub s (g_members g) -> 0 <= p < np s ->
  exists t, filter (fun t => is_s s t && (t_part t =? p)) (g_owners g) = [t] /\
            exists m, In m (g_members g) /\ m_id m = t_cons t /\ subscribes s m = true.
Proof. intros np g s p H. apply exactly_one_owner. apply reachable_inv. exact H. Qed.
Print Assumptions C12_exactly_one_owner.

(* No member is assigned a partition of a stream it did not subscribe to ... *)
Theorem C12_only_subscribed : forall (np : sid -> Z) g t, greachable np g -> In t (g_owners g) ->
  exists m, In m (g_members g) /\ m_id m = t_cons t /\ subscribes (t_stream t) m = true.
Proof. intros np g t H. apply (only_subscribed np). apply reachable_inv. exact H. Qed.
Print Assumptions C12_only_subscribed.

(* ... nor a partition the stream does not have. *)
Theorem C12_only_existing_partitions : forall (np : sid -> Z) g t, greachable np g -> In t (g_owners g) ->
  0 <= t_part t < np (t_stream t).
Proof. intros np g t H. apply only_existing_partitions. apply reachable_inv. exact H. Qed.
Print Assumptions C12_only_existing_partitions.

(* Rebalancing a stream in a group that consumes only that stream leaves the subscribers'
   partition counts within one of each other. *)
Theorem C12_single_stream_balanced : forall (np : sid -> Z) s ms ow,
  (forall t, In t ow -> t_stream t = s) -> has_sub s ms -> spread s ms (balance np s ms ow).
Proof. exact balance_single_stream. Qed.
Print Assumptions C12_single_stream_balanced.

(* ... and so in EVERY state of a group consuming a single stream, after any history of joins
   and leaves/expiries (any ids, any order, any partition count): all assignments are of that
   stream and the members' partition counts differ by at most one.  Such histories are
   histories of C12_exactly_one_owner as well (second theorem). *)
Theorem C12_single_stream_histories_balanced : forall (np : sid -> Z) s g, sreach np s g ->
  (forall m, In m (g_members g) -> m_streams m = [s]) /\
  (forall t, In t (g_owners g) -> t_stream t = s) /\
  spread s (g_members g) (g_owners g).
Proof. exact sreach_balanced_flat. Qed.
Print Assumptions C12_single_stream_histories_balanced.

Theorem C12_single_stream_histories_reachable : forall (np : sid -> Z) s g, sreach np s g -> greachable np g.
Proof. exact sreach_greachable. Qed.
Print Assumptions C12_single_stream_histories_reachable.

(* Operations carrying an older group epoch are refused (and so change nothing). The
   assignment is a function of the operation sequence by construction of the model; that
   the implementation computes the same function -- on two independently built groups and
   under Go's randomised map iteration -- is what the correspondence run checks. *)
Theorem C12_stale_epoch_refused : forall np g c ss s e, (e < g_epoch g)%N ->
  add_member np g c ss e = GRefused /\ remove_member np g c e = GRefused /\ stream_deleted np g s e = GRefused.
Proof. exact stale_epoch_refused. Qed.
Print Assumptions C12_stale_epoch_refused.

(* non-vacuity: two streams with 3 and 2 partitions, three consumers with overlapping subscriptions *)
Example C12_example :
  let np := fun s : sid => if N.eqb s 1 then 3 else 2 in
  let run := fun g (f : group -> gres) => match f g with GOk g' => g' | _ => g end in
  let g1 := run new_group (fun g => add_member np g 1%N [1; 2]%N 1%N) in
  let g2 := run g1 (fun g => add_member np g 2%N [1]%N 2%N) in
  let g3 := run g2 (fun g => add_member np g 3%N [2; 1]%N 3%N) in
  let g4 := run g3 (fun g => remove_member np g 1%N 4%N) in
  (assignment_of g3 1%N 1%N, assignment_of g3 2%N 1%N, assignment_of g3 3%N 1%N, assignment_of g3 1%N 2%N, assignment_of g3 3%N 2%N)
    = ([], [0; 2], [1], [0; 1], []) /\
  (assignment_of g4 2%N 1%N, assignment_of g4 3%N 1%N, assignment_of g4 3%N 2%N) = ([0; 2], [1], [0; 1]).
Proof. vm_compute. split; reflexivity. Qed.
