(* C13 -- Only one member of a consumer group consumes a partition at a time. *)
From LB Require Import Base.Prelude Api.GroupSlot Api.GroupSlotProofs.

(* For every interleaving of group subscribes (any epochs, same or different consumer ids),
   subscription closes and loop returns: at most one subscription is active. *)
Theorem C13_at_most_one_active : forall evs : list gev, length (active (grun true evs)) <= 1.
Proof. exact at_most_one_active. Qed.
Print Assumptions C13_at_most_one_active.

(* A subscriber carrying an older group epoch is refused and leaves everything untouched. *)
Theorem C13_stale_epoch_refused : forall ident st x c e, slot st = Some x -> (e < sb_ep x)%N ->
  gstep ident st (ESub c e) = (st, false).
Proof. exact stale_epoch_refused. Qed.
Print Assumptions C13_stale_epoch_refused.

(* An equal or newer epoch replaces and cancels the current subscriber. *)
Theorem C13_newer_epoch_replaces : forall st x c e, slot_inv st -> slot st = Some x -> (sb_ep x <= e)%N ->
  let st' := fst (gstep true st (ESub c e)) in
  snd (gstep true st (ESub c e)) = true /\ active st' = [nxt st] /\
  slot st' = Some (mkSub (nxt st) c e).
Proof. exact newer_epoch_replaces. Qed.
Print Assumptions C13_newer_epoch_replaces.

(* The pinned code removed the slot by consumer id: c1/5, c1/5 again, the first loop returns,
   then c2 with the OLDER epoch 1 is accepted -- two active subscriptions. *)
Theorem C13_refuted_same_consumer_id :
  length (active (grun false [ESub 1 5; ESub 1 5; EExit 0; ESub 2 1]%N)) = 2.
Proof. exact by_consumer_id_refuted. Qed.
Print Assumptions C13_refuted_same_consumer_id.

(* The race the tests never schedule: the replaced subscription's loop returns (or its client
   goes away) AFTER the replacement -- the current subscriber and the slot are left alone. *)
Theorem C13_late_cleanup_keeps_current : forall st x i, slot_inv st -> slot st = Some x -> i <> sb_id x ->
  let st' := fst (gstep true st (EExit i)) in
  slot st' = Some x /\ active st' = active st /\
  active (fst (gstep true st (EClose i))) = active st /\ slot (fst (gstep true st (EClose i))) = Some x.
Proof. exact exit_of_other_keeps_current. Qed.
Print Assumptions C13_late_cleanup_keeps_current.

(* With no current subscriber any epoch is accepted, and the newcomer is the only active one. *)
Theorem C13_empty_slot_accepts : forall st c e, slot_inv st -> slot st = None ->
  let st' := fst (gstep true st (ESub c e)) in
  snd (gstep true st (ESub c e)) = true /\ active st' = [nxt st] /\ slot st' = Some (mkSub (nxt st) c e).
Proof. exact empty_slot_accepts. Qed.
Print Assumptions C13_empty_slot_accepts.

(* While a partition has a group subscriber, the group epoch it carries never goes back. *)
Theorem C13_slot_epoch_monotone : forall ident st ev x y,
  slot st = Some x -> slot (fst (gstep ident st ev)) = Some y -> (sb_ep x <= sb_ep y)%N.
Proof. exact slot_epoch_monotone. Qed.
Print Assumptions C13_slot_epoch_monotone.

(* After every history the active subscription is the one the slot (GetGroupConsumer) names. *)
Theorem C13_active_is_the_registered_one : forall evs i, In i (active (grun true evs)) ->
  exists x, slot (grun true evs) = Some x /\ sb_id x = i.
Proof. exact active_is_slot. Qed.
Print Assumptions C13_active_is_the_registered_one.
