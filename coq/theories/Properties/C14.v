(* C14 -- No NATS payload can crash or confuse the server.
   This file contains only the property theorems, each closed by [exact] of a lemma from
   Codec.EnvelopeProofs, followed by Print Assumptions. *)
From LB Require Import Base.Prelude Codec.Envelope Codec.EnvelopeProofs.

(* Decoding any byte string as any envelope type never panics (bounds-checked code). *)
Theorem C14_total : forall (crc : bytes -> N) (data : bytes) (ty : N),
  check_envelope crc true data ty <> Panic.
Proof. exact check_envelope_total. Qed.
Print Assumptions C14_total.

Theorem C14_replication_response_total : forall (crc : bytes -> N) (data : bytes),
  unmarshal_repl_response crc true data <> Panic.
Proof. exact repl_response_total. Qed.
Print Assumptions C14_replication_response_total.

(* The code of the pinned commit (no bounds check) is refuted by an 8-byte input. *)
Theorem C14_refuted_header_len : forall (crc : bytes -> N),
  check_envelope crc false [185; 14; 67; 180; 0; 255; 0; 0]%N 0%N = Panic.
Proof. exact check_envelope_unguarded_panics. Qed.
Print Assumptions C14_refuted_header_len.

(* Encoding then decoding returns the same payload, for every payload and type. *)
Theorem C14_roundtrip : forall (crc : bytes -> N) (g : bool) (ty : N) (payload : bytes),
  (ty < 256)%N -> check_envelope crc g (marshal ty payload) ty = Ok payload.
Proof. exact marshal_roundtrip. Qed.
Print Assumptions C14_roundtrip.

Theorem C14_roundtrip_crc : forall (crc : bytes -> N) (g : bool) (ty : N) (payload : bytes),
  (ty < 256)%N -> (crc payload < 256 ^ 4)%N ->
  check_envelope crc g (marshal_crc crc ty payload) ty = Ok payload.
Proof. exact marshal_crc_roundtrip. Qed.
Print Assumptions C14_roundtrip_crc.

(* An accepted byte string is exactly the envelope it encodes. *)
Theorem C14_accepted_is_envelope : forall (crc : bytes -> N) g data ty p,
  check_envelope crc g data ty = Ok p ->
  min_header_len <= length data /\ firstn 4 data = magic /\ nth 4 data 0%N = 0%N /\
  nth 7 data 0%N = ty /\ N.to_nat (nth 5 data 0%N) <= length data /\
  p = skipn (N.to_nat (nth 5 data 0%N)) data /\
  (N.testbit (nth 6 data 0%N) 0 = true ->
     N.to_nat (nth 5 data 0%N) = 12 /\ crc p = be_decode (firstn 4 (skipn 8 data))).
Proof. exact check_envelope_ok_shape. Qed.
Print Assumptions C14_accepted_is_envelope.

(* A payload whose optional checksum does not match is rejected. *)
Theorem C14_crc_rejects : forall (crc : bytes -> N) g data ty,
  N.testbit (nth 6 data 0%N) 0 = true ->
  crc (skipn 12 data) <> be_decode (firstn 4 (skipn 8 data)) ->
  forall p, check_envelope crc g data ty <> Ok p.
Proof. exact crc_mismatch_rejected. Qed.
Print Assumptions C14_crc_rejects.

(* Publish path: every byte string is either the decoded envelope or stored verbatim. *)
Theorem C14_envelope_or_raw : forall (crc : bytes -> N) (msg : Type) (pb : bytes -> option msg) data,
  (nats_to_message crc msg pb true data = Raw data) \/
  (exists m p, nats_to_message crc msg pb true data = Envelope m /\
               check_envelope crc true data 0%N = Ok p /\ pb p = Some m).
Proof. exact nats_to_message_cases. Qed.
Print Assumptions C14_envelope_or_raw.

Theorem C14_marshalled_is_decoded : forall (crc : bytes -> N) (msg : Type) (pb : bytes -> option msg) m payload,
  pb payload = Some m -> nats_to_message crc msg pb true (marshal 0%N payload) = Envelope m.
Proof. exact nats_to_message_marshalled. Qed.
Print Assumptions C14_marshalled_is_decoded.
