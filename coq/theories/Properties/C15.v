(* C15 -- With ACLs on, an unauthorised call is refused and changes nothing.
   The handler terms are regenerated from server/api.go on every run (Generated/Handlers.v);
   which of them satisfy [guarded] is decided by computation in the run (a finite list). *)
From Coq Require Import List String Bool.
From LB Require Import Api.Authz Api.AuthzProofs.
Import ListNotations.

(* For EVERY handler term, policy, request shape, branch outcome and number of loop iterations:
   if the term satisfies the syntactic condition, a client that lacks the policy entry causes
   no effect at all and gets an error. *)
Theorem C15_guarded_means_refused_without_effect : forall h tr o,
  guarded h = true -> exec h tr o -> tr = [] /\ o = Returned false.
Proof. exact guarded_sound. Qed.
Print Assumptions C15_guarded_means_refused_without_effect.

(* The shapes the pinned commit had for Subscribe (check after the effect) and for the
   PublishAsync loop (denial reported, message published anyway) do misbehave. *)
Theorem C15_refuted_shapes :
  exec [Effect "subscribe"; Check [RetErr]; RetOk] ["subscribe"%string] (Returned false) /\
  exec [Loop false [Check []; Effect "publish"]; RetOk] ["publish"%string] (Returned true).
Proof. exact unguarded_misbehaves. Qed.
Print Assumptions C15_refuted_shapes.
