(* C16 -- A conditional publish lands only at the offset it expected. *)
From LB Require Import Base.Prelude Log.Model Log.Proofs Log.Refine.
From LB Require Repl.Acks Repl.AcksProofs Repl.AcksOcc.
Open Scope Z_scope.

(* With optimistic concurrency control a single-message batch is stored iff its expected
   offset is -1 or exactly the next offset, and then it is stored at exactly that offset;
   otherwise the append fails and the content (and the log end) are unchanged. *)
Theorem C16_stored_iff_expected : forall maxb l m,
  wf l -> l_ro l = false ->
  (m_exp m = -1 \/ m_exp m = newest l + 1 ->
     exists l', append maxb true l [m] = Ok (l', [newest l + 1]) /\ wf l' /\
                all_recs l' = all_recs l ++ [mkRec (newest l + 1) (m_ts m) (m_ep m) (m_body m)]) /\
  (m_exp m <> -1 -> m_exp m <> newest l + 1 ->
     append maxb true l [m] = Err /\ all_recs (append_log maxb true l [m]) = all_recs l /\
     wf (append_log maxb true l [m]) /\ newest (append_log maxb true l [m]) = newest l).
Proof. exact append_occ. Qed.
Print Assumptions C16_stored_iff_expected.

(* ---- at the partition leader and at the API (Repl.Acks: the model C04's histories are tied to; the
   API histories of TestVerifC16Api are replayed against it) ---- *)
Module Server.
Import Repl.Acks Repl.AcksProofs Repl.AcksOcc.

(* one message on a stream with concurrency control: with the check waived or the next offset
   expected it is appended and nothing negative is said; otherwise the state is unchanged and the
   publisher gets the incorrect-offset error *)
Theorem C16_leader_stores_iff_expected : forall s m s' out, l_cc s = true -> QInv s -> store_batch s [m] = (s', out) ->
  l_cc s' = true /\
  (accepted s m = true -> l_log s' = l_log s ++ [m] /\ forall a, In a out -> ak_kind a = AOk) /\
  (accepted s m = false -> s' = s /\ out = [mkAck (pm_corr m) (pm_policy m) 0 AIncorrectOffset]).
Proof. exact store_one. Qed.
Print Assumptions C16_leader_stores_iff_expected.

(* "of any set of publishers racing with the same expected offset at most one succeeds": any number
   of messages with one expected offset (not -1), in whatever order they reach the leader *)
Theorem C16_racers_at_most_one : forall ms s e s' out, l_cc s = true -> QInv s -> e <> -1 ->
  (forall m, In m ms -> pm_expected m = e) -> store_each s ms = (s', out) ->
  (length (l_log s') <= length (l_log s) + 1)%nat.
Proof. exact racers_at_most_one. Qed.
Print Assumptions C16_racers_at_most_one.

(* the API refuses the NONE policy on such streams, and what it lets through never has it *)
Theorem C16_api_refuses_none : forall s ms s' out, l_cc s = true -> QInv s -> step s (LApi ms) = (s', out) ->
  (forall m, In m ms -> pm_policy m = PNone -> In (mkAck (pm_corr m) PNone 0 ARefused) out) /\
  exists st, l_log s' = l_log s ++ st /\ forall m, In m st -> In m ms /\ pm_policy m <> PNone.
Proof. exact api_none_refused. Qed.
Print Assumptions C16_api_refuses_none.

(* so every publisher is served or told: each message of an API call is stored, or an answer that
   is not a positive acknowledgement names it *)
Theorem C16_every_publisher_served_or_told : forall s ms s' out, l_cc s = true -> QInv s -> step s (LApi ms) = (s', out) ->
  exists st, l_log s' = l_log s ++ st /\
  forall m, In m ms -> In m st \/ exists a, In a out /\ ak_corr a = pm_corr m /\ ak_kind a <> AOk.
Proof. exact api_every_publisher_served_or_told. Qed.
Print Assumptions C16_every_publisher_served_or_told.

Example C16_api_history :
  let '(s, acks) := run (init_state [0%N] 1 true)
                        [LApi [mkMsg 1 PLeader false 0; mkMsg 2 PNone false 1; mkMsg 3 PAll false 5; mkMsg 4 PAll false (-1)];
                         LApi [mkMsg 5 PLeader false 2; mkMsg 6 PLeader false 2; mkMsg 7 PLeader false 2]] in
  acks = [mkAck 2 PNone 0 ARefused; mkAck 1 PLeader 0 AOk; mkAck 3 PAll 0 AIncorrectOffset; mkAck 4 PAll 1 AOk;
          mkAck 5 PLeader 2 AOk; mkAck 6 PLeader 0 AIncorrectOffset; mkAck 7 PLeader 0 AIncorrectOffset] /\ length (l_log s) = 3%nat.
Proof. vm_compute. split; reflexivity. Qed.
End Server.
