(* C16 -- A conditional publish lands only at the offset it expected. *)
From LB Require Import Base.Prelude Log.Model Log.Proofs Log.Refine.
Open Scope Z_scope.

(* With optimistic concurrency control a single-message batch is stored iff its expected
   offset is -1 or exactly the next offset, and then it is stored at exactly that offset;
   otherwise the append fails and the content (and the log end) are unchanged. *)
Theorem C16_stored_iff_expected : forall maxb l m,
  wf l -> l_ro l = false ->
  (m_exp m = -1 \/ m_exp m = newest l + 1 ->
     exists l', append maxb true l [m] = Ok (l', [newest l + 1]) /\ wf l' /\
                all_recs l' = all_recs l ++ [mkRec (newest l + 1) (m_ts m) (m_ep m) (m_body m)]) /\
  (m_exp m <> -1 -> m_exp m <> newest l + 1 ->
     append maxb true l [m] = Err /\ all_recs (append_log maxb true l [m]) = all_recs l /\
     wf (append_log maxb true l [m]) /\ newest (append_log maxb true l [m]) = newest l).
Proof. exact append_occ. Qed.
Print Assumptions C16_stored_iff_expected.
