(* C17 -- Encrypted streams never store plaintext and always return it.
   AES-GCM and the RFC 5649 key wrap are parameters; what is assumed about them appears as
   premises of each theorem (nothing is an axiom). *)
From LB Require Import Base.Prelude Codec.EncFrame Codec.EncFrameProofs.

(* Reading any byte string returns a value or an error, never a crash (length-checked code). *)
Theorem C17_read_total : forall unwrap key_ok aead_open (d : bytes),
  read unwrap key_ok aead_open true d <> Panic.
Proof. exact read_total. Qed.
Print Assumptions C17_read_total.

(* The pinned code: empty value, or a key-size byte beyond the data. *)
Theorem C17_refuted_unchecked_lengths : forall unwrap key_ok aead_open,
  read unwrap key_ok aead_open false [] = Panic /\
  forall t, length t < 255 -> read unwrap key_ok aead_open false (255%N :: t) = Panic.
Proof. exact (fun u k o => read_unguarded_panics (fun x => x) u k (fun _ _ x => x) o). Qed.
Print Assumptions C17_refuted_unchecked_lengths.

(* Every subscriber receives exactly the value that was published (given that unwrap inverts
   wrap and open inverts seal for this key and nonce). *)
Theorem C17_roundtrip : forall wrap unwrap key_ok aead_seal aead_open g dek nonce data,
  unwrap (wrap dek) = Some dek -> key_ok dek = true -> length nonce = nonce_len ->
  length (wrap dek) < 256 ->
  aead_open dek nonce (aead_seal dek nonce data) = Some data ->
  read unwrap key_ok aead_open g (seal wrap aead_seal dek nonce data) = Ok data.
Proof. exact seal_read_roundtrip. Qed.
Print Assumptions C17_roundtrip.

(* A stored value that was tampered with yields an error instead of data: given ciphertext
   integrity of both primitives, whatever is accepted is a sealed value. *)
Theorem C17_tamper_rejected : forall wrap unwrap key_ok aead_seal aead_open g d,
  (forall w k, unwrap w = Some k -> w = wrap k) ->
  (forall k n c q, aead_open k n c = Some q -> length n = nonce_len -> c = aead_seal k n q) ->
  (forall k, length (wrap k) < 256) ->
  (forall dek nonce data, length nonce = nonce_len -> d <> seal wrap aead_seal dek nonce data) ->
  forall p, read unwrap key_ok aead_open g d <> Ok p.
Proof. exact tampered_value_rejected. Qed.
Print Assumptions C17_tamper_rejected.

(* A value sealed under a different master key yields an error (given that the other key's
   wrapping does not unwrap under this one). *)
Theorem C17_wrong_key_rejected : forall unwrap key_ok aead_seal aead_open g (wrap' : bytes -> bytes) dek nonce data,
  unwrap (wrap' dek) = None -> length (wrap' dek) < 256 ->
  forall p, read unwrap key_ok aead_open g (seal wrap' aead_seal dek nonce data) <> Ok p.
Proof. exact wrong_master_key_rejected. Qed.
Print Assumptions C17_wrong_key_rejected.
