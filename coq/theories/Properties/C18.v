(* C18 -- The activity stream lists metadata changes in commit order, at least once. *)
From LB Require Import Base.Prelude Api.Activity Api.ActivityProofs.

(* For every schedule of commits, controller changes, dispatcher steps with any outcome (publish
   fails; publish succeeds but recording the index fails; both succeed), snapshots with log
   compaction and restarts: *)

(* the dispatcher never asks the log store for a compacted entry (no panic); *)
Theorem C18_dispatcher_never_panics : forall xs, arun true init xs <> Panic.
Proof. exact activity_never_panics. Qed.
Print Assumptions C18_dispatcher_never_panics.

(* every id in the stream is the Raft index of a stream or group operation -- so it is the same on
   every redelivery and larger than the id of every earlier operation -- and an id appears for the
   first time only after the events of all earlier operations have appeared; *)
Theorem C18_events_in_commit_order : forall xs s, arun true init xs = Ok s ->
  first_seen_ok (a_log s) [] (a_stream s) = true.
Proof. exact activity_order. Qed.
Print Assumptions C18_events_in_commit_order.

Theorem C18_ids_are_operation_indices : forall xs s j, arun true init xs = Ok s -> In j (a_stream s) -> is_ev (a_log s) j = true.
Proof. exact activity_ids_are_operations. Qed.
Print Assumptions C18_ids_are_operation_indices.

(* whenever the dispatcher has caught up with the log, every operation has been delivered; *)
Theorem C18_at_least_once : forall xs s i, arun true init xs = Ok s -> a_disp s = Some i -> length (a_log s) < i ->
  all_delivered (a_log s) (a_stream s) = true.
Proof. exact activity_at_least_once. Qed.
Print Assumptions C18_at_least_once.

(* and an index is recorded as published only after its event is in the stream. *)
Theorem C18_recorded_means_published : forall xs s, arun true init xs = Ok s -> records_ok (a_log s) (a_stream s) = true.
Proof. exact activity_records_published. Qed.
Print Assumptions C18_recorded_means_published.

(* a schedule with publish failures, a lost record, a controller change, a snapshot and a restart:
   the event of the second operation is delivered twice, nothing is lost, the order holds *)
Example C18_schedule_with_faults :
  match arun true init [XCommit (ECmd true); XCommit ENoop; XCommit (ECmd true); XStart; XStep PubOk; XStep PubOk; XStep PubFail; XStep PubOkRecFail; XStop;
                        XCommit (ECmd false); XStart; XStep PubOk; XStep PubOk; XStep PubOk; XStep PubOk; XStep PubOk; XSnapshot 1; XRestart; XStart; XCommit (ECmd true);
                        XStep PubOk; XStep PubOk; XStep PubOk; XStep PubOk] with
  | Ok s => a_stream s = [1; 3; 3; 7] /\ a_lastpub s = 7 /\ a_first s = 6
  | _ => False
  end.
Proof. vm_compute. repeat split; reflexivity. Qed.

(* The pinned code. *)
Theorem C18_refuted_panic_after_snapshot :
  arun false init [XCommit (ECmd true); XStart; XStep PubOk; XStop; XSnapshot 0; XRestart; XStart; XStep PubOk] = Panic.
Proof. exact pinned_panics. Qed.
Print Assumptions C18_refuted_panic_after_snapshot.

(* The dispatcher trails behind entries that do not wake it (barriers after the recorded event); the
   log is compacted with every event published; the next operation wakes it.  The repaired
   dispatcher continues at the first entry there is and delivers the new event; the code before
   that repair panicked on the entry that is gone (found by the thorough tier on the real server). *)
Theorem C18_refuted_panic_on_trailing_entries :
  option_map a_stream (match arun true init trailing_schedule with Ok s => Some s | _ => None end) = Some [1; 5] /\
  arun false init trailing_schedule = Panic.
Proof. exact trailing_dispatcher_survives. Qed.
Print Assumptions C18_refuted_panic_on_trailing_entries.
