(* C19 -- Telemetry can be switched off and never carries user data. *)
From Coq Require Import List String Bool.
From LB Require Import Generated.Telemetry Api.Telemetry Api.TelemetryProofs.
Import ListNotations.

(* Every way of disabling telemetry -- programmatic config, environment variable, config file --
   resolves the switch to off (tree that honours the environment variable). *)
Theorem C19_disabling_routes_work : forall c,
  c_prog c = Some false \/ (c_prog c = None /\ c_env c = Some false) \/
  (c_prog c = None /\ c_env c = None /\ c_file c = Some false) ->
  resolve true c = false.
Proof. exact disabling_routes_work. Qed.
Print Assumptions C19_disabling_routes_work.

(* The pinned commit: LIFTBRIDGE_TELEMETRY_ENABLED=false alone leaves telemetry on. *)
Theorem C19_refuted_env_route : resolve false (mkCfg None (Some false) None) = true.
Proof. exact env_route_refuted. Qed.
Print Assumptions C19_refuted_env_route.

(* With the switch off no request is ever made, whatever sequence of start/tick/stop ... *)
Theorem C19_disabled_no_send : forall gate check evs, gate || check = true ->
  sends (crun gate check false evs) = 0.
Proof. exact disabled_never_sends. Qed.
Print Assumptions C19_disabled_no_send.

(* ... and the current sources do gate the collector, check the switch in Start, and have a
   single path to the only HTTP client in the tree (regenerated from /repo on every run). *)
Theorem C19_source_gates_and_checks :
  gate_in_source = true /\ start_returns_when_disabled = true /\ send_path_in_source = true /\
  only_http_client = true.
Proof. exact (conj source_gates_collector (conj source_start_checks_switch (conj source_single_send_path single_http_client))). Qed.
Print Assumptions C19_source_gates_and_checks.

(* The report contains only the documented fields, computed only from the instance id, the
   version string, runtime.* and the clock. *)
Theorem C19_payload_whitelisted :
  subset payload_keys documented_keys = true /\ subset payload_sources allowed_sources = true /\
  subset send_sources allowed_send_sources = true.
Proof. exact (conj payload_keys_documented (conj payload_sources_allowed send_sources_allowed)). Qed.
Print Assumptions C19_payload_whitelisted.
