(* C04 model: the partition leader's write/commit/ack path (server/partition.go
   messageProcessingLoop, processPendingMessage, commitLoop, updateISRLatestOffset, AddToISR,
   RemoveFromISR; server/replicator.go for where follower progress comes from).

   A message is (correlation id, ack policy, too large?, expected offset).  Offsets are positions in
   the leader's log.  The in-sync set is a list of (replica, latest offset). *)
From LB Require Import Base.Prelude.
Open Scope Z_scope.

Inductive policy := PLeader | PAll | PNone.
Definition policy_eqb (a b : policy) : bool :=
  match a, b with PLeader, PLeader | PAll, PAll | PNone, PNone => true | _, _ => false end.

Record pmsg := mkMsgE { pm_corr : N; pm_policy : policy; pm_too_large : bool; pm_expected : Z (* -1 = unconditional *);
                        pm_seal_fails : bool (* the stream encrypts at rest and sealing this value fails *) }.
Definition mkMsg (c : N) (p : policy) (l : bool) (e : Z) : pmsg := mkMsgE c p l e false.

Inductive ackkind := AOk | ATooLarge | AIncorrectOffset | AEncryption | ARefused.
Record ack := mkAck { ak_corr : N; ak_policy : policy; ak_offset : Z; ak_kind : ackkind }.

Record lstate := mkL {
  l_log : list pmsg;               (* what the leader has stored; offset = position *)
  l_isr : list (N * Z);            (* in-sync replicas and their latest offsets; the leader is replica 0 *)
  l_replicas : list N;
  l_min_isr : nat;
  l_queue : list ack;              (* commit queue: pending acks in offset order *)
  l_hw : Z;
  l_cc : bool                      (* optimistic concurrency control enabled on the stream *)
}.

Definition newest (s : lstate) : Z := Z.of_nat (length (l_log s)) - 1.

Fixpoint set_offset (r : N) (o : Z) (isr : list (N * Z)) : list (N * Z) :=
  match isr with
  | [] => []
  | (r', o') :: t => if N.eqb r' r then (r', Z.max o' o) :: t else (r', o') :: set_offset r o t
  end.

Definition min_offset (isr : list (N * Z)) : Z :=
  match isr with
  | [] => -1
  | (_, o) :: t => fold_left (fun m x => Z.min m (snd x)) t o
  end.

(* commitLoop body: nothing below the minimum ISR size; else everything up to the smallest latest
   offset in the ISR is committed and the ALL-policy entries among it are acknowledged *)
Definition commit (s : lstate) : lstate * list ack :=
  if Nat.ltb (length (l_isr s)) (l_min_isr s) then (s, [])
  else
    let m := min_offset (l_isr s) in
    let taken := filter (fun a => ak_offset a <=? m) (l_queue s) in
    let rest := filter (fun a => negb (ak_offset a <=? m)) (l_queue s) in
    (mkL (l_log s) (l_isr s) (l_replicas s) (l_min_isr s) rest (Z.max (l_hw s) m) (l_cc s),
     filter (fun a => policy_eqb (ak_policy a) PAll) taken).

Definition rf1 (s : lstate) : bool := Nat.eqb (length (l_replicas s)) 1.

(* a batch is appended: offsets assigned, LEADER-policy messages acknowledged at once, the rest
   queued (with replication factor 1 only ALL-policy messages are queued, and a batch without
   any sets the HW directly), the leader's own ISR offset moves, the commit rule runs *)
Definition store_ok (s : lstate) (ms : list pmsg) : lstate * list ack :=
  let base := newest s + 1 in
  let acks := map (fun im => mkAck (pm_corr (snd im)) (pm_policy (snd im)) (base + Z.of_nat (fst im)) AOk)
                  (combine (seq 0 (length ms)) ms) in
  let leader_acks := filter (fun a => policy_eqb (ak_policy a) PLeader) acks in
  let queued := if rf1 s then filter (fun a => policy_eqb (ak_policy a) PAll) acks else acks in
  let last := base + Z.of_nat (length ms) - 1 in
  let fast := rf1 s && forallb (fun m => negb (policy_eqb (pm_policy m) PAll)) ms in
  let s1 := mkL (l_log s ++ ms) (set_offset 0%N last (l_isr s)) (l_replicas s) (l_min_isr s) (l_queue s ++ queued)
                (if fast then Z.max (l_hw s) last else l_hw s) (l_cc s) in
  let '(s2, cacks) := commit s1 in
  (s2, leader_acks ++ cacks).

(* one received batch (already past the size check) *)
Definition store_batch (s : lstate) (ms : list pmsg) : lstate * list ack :=
  match ms with
  | [] => (s, [])
  | first :: _ =>
    (* concurrency control: the batch size is 1; an expected offset that is not the next one
       rejects it *)
    if l_cc s && negb (pm_expected first =? -1) && negb (pm_expected first =? newest s + 1)
    then (s, [mkAck (pm_corr first) (pm_policy first) 0 AIncorrectOffset])
    else store_ok s ms
  end.

(* with optimistic concurrency control the loop takes one message per batch *)
Fixpoint store_each (s : lstate) (ms : list pmsg) : lstate * list ack :=
  match ms with
  | [] => (s, [])
  | m :: r => let '(s1, a1) := store_batch s [m] in let '(s2, a2) := store_each s1 r in (s2, a1 ++ a2)
  end.

Inductive lstep :=
| LPublish (ms : list pmsg)        (* messages that reach the loop as one batch *)
| LFollower (r : N) (o : Z)        (* a replication request from r: it has everything up to o *)
| LShrink (r : N)
| LExpand (r : N)
| LRegain (keep : Z) (foreign : nat) (hw : Z)
| LApi (ms : list pmsg).
    (* the same messages arriving through the API (Publish, PublishAsync): on a stream with
       optimistic concurrency control a message with the NONE policy is refused there -- its
       publisher could not be told that the expected offset was wrong *)
    (* another replica led for a term and this server leads again: of its log the offsets up to
       `keep` are left, followed by `foreign` messages the other leader wrote; `hw` is the high
       watermark that leader announced.  The follower stint itself is C02's; here its outcome is an
       input.  What starts the new term is becomeLeader: pending acks are gone with the old commit
       queue, the leader's own offset is its log end and every other replica starts from -1. *)

(* a message written by the other leader: no publisher of this history waits for it *)
Definition foreign_msg : pmsg := mkMsg 0%N PNone false (-1).

Definition publish_step (s : lstate) (ms : list pmsg) : lstate * list ack :=

    (* a value that cannot be sealed is refused first, whatever its size; the size limit is on the
       payload as it was received *)
    let enacks := map (fun m => mkAck (pm_corr m) (pm_policy m) 0 AEncryption) (filter pm_seal_fails ms) in
    let sealed := filter (fun m => negb (pm_seal_fails m)) ms in
    let nacks := map (fun m => mkAck (pm_corr m) (pm_policy m) 0 ATooLarge) (filter pm_too_large sealed) in
    let good := filter (fun m => negb (pm_too_large m)) sealed in
    let '(s', acks) := if l_cc s then store_each s good else store_batch s good in
    (s', enacks ++ nacks ++ acks).
Definition api_refuses (s : lstate) (m : pmsg) : bool := l_cc s && policy_eqb (pm_policy m) PNone.

Definition step (s : lstate) (x : lstep) : lstate * list ack :=
  match x with
  | LPublish ms => publish_step s ms
  | LApi ms =>
    let refused := map (fun m => mkAck (pm_corr m) (pm_policy m) 0 ARefused) (filter (api_refuses s) ms) in
    let '(s', out) := publish_step s (filter (fun m => negb (api_refuses s m)) ms) in
    (s', refused ++ out)
  | LFollower r o =>
    if existsb (N.eqb r) (l_replicas s) && negb (N.eqb r 0)
    then commit (mkL (l_log s) (set_offset r o (l_isr s)) (l_replicas s) (l_min_isr s) (l_queue s) (l_hw s) (l_cc s))
    else (s, [])
  | LShrink r =>
    commit (mkL (l_log s) (filter (fun x => negb (N.eqb (fst x) r)) (l_isr s)) (l_replicas s) (l_min_isr s) (l_queue s) (l_hw s) (l_cc s))
  | LExpand r =>
    if existsb (N.eqb r) (map fst (l_isr s)) then (s, [])
    else (mkL (l_log s) (l_isr s ++ [(r, -1)]) (l_replicas s) (l_min_isr s) (l_queue s) (l_hw s) (l_cc s), [])
  | LRegain keep foreign hw =>
    let log' := firstn (Z.to_nat (keep + 1)) (l_log s) ++ repeat foreign_msg foreign in
    let nw := Z.of_nat (length log') - 1 in
    (mkL log' (map (fun x => (fst x, if N.eqb (fst x) 0 then nw else -1)) (l_isr s)) (l_replicas s) (l_min_isr s) []
         (Z.max (l_hw s) (Z.min hw nw)) (l_cc s), [])
  end.

Definition init_state (replicas : list N) (min_isr : nat) (cc : bool) : lstate :=
  mkL [] (map (fun r => (r, -1)) replicas) replicas min_isr [] (-1) cc.

(* run, collecting (step index, ack) *)
Fixpoint run (s : lstate) (xs : list lstep) : lstate * list ack :=
  match xs with
  | [] => (s, [])
  | x :: r => let '(s1, a1) := step s x in let '(s2, a2) := run s1 r in (s2, a1 ++ a2)
  end.

(* ---- what the followers themselves said, in this leader term ----
   The in-sync list holds what the leader believes each replica stores.  Beside it runs a record
   that is no part of the leader's state: the progress reports received since this server last
   became the leader.  A new term empties it -- what a replica reported to an earlier term's
   leader says nothing about what it stores after following someone else in between. *)
Definition reports := list (N * Z).
Definition told (g : reports) (r : N) : Z :=
  fold_right (fun x m => if N.eqb (fst x) r then Z.max m (snd x) else m) (-1) g.
Definition gstep (g : reports) (x : lstep) : reports :=
  match x with
  | LFollower r o => (r, o) :: g
  | LRegain _ _ _ => []
  | _ => g
  end.
Fixpoint grun (s : lstate) (g : reports) (xs : list lstep) : lstate * reports :=
  match xs with
  | [] => (s, g)
  | x :: r => grun (fst (step s x)) (gstep g x) r
  end.

(* ---- correspondence ---- *)
Record lobs := mkLObs { lo_newest : Z; lo_hw : Z; lo_isr : list (N * Z); lo_acks : list (N * Z * nat) (* corr, offset, kind code; sorted by corr *) }.
Definition kind_code (k : ackkind) : nat := match k with AOk => 0 | ATooLarge => 1 | AIncorrectOffset => 2 | AEncryption => 3 | ARefused => 4 end.

Fixpoint insert_by {A} (key : A -> N) (x : A) (l : list A) : list A :=
  match l with
  | [] => [x]
  | y :: r => if (key x <=? key y)%N then x :: l else y :: insert_by key x r
  end.
Definition sort_by {A} (key : A -> N) (l : list A) : list A := fold_right (insert_by key) [] l.

Definition obs_of (s : lstate) (acks : list ack) : lobs :=
  mkLObs (newest s) (l_hw s) (sort_by fst (l_isr s))
         (map (fun a => (ak_corr a, match ak_kind a with AOk => ak_offset a | _ => 0 end, kind_code (ak_kind a))) (sort_by ak_corr acks)).

Fixpoint list_eqb {A} (eq : A -> A -> bool) (a b : list A) : bool :=
  match a, b with
  | [], [] => true
  | x :: a', y :: b' => eq x y && list_eqb eq a' b'
  | _, _ => false
  end.

Definition lobs_eqb (a b : lobs) : bool :=
  (lo_newest a =? lo_newest b) && (lo_hw a =? lo_hw b) &&
  list_eqb (fun x y => N.eqb (fst x) (fst y) && (snd x =? snd y)) (lo_isr a) (lo_isr b) &&
  list_eqb (fun x y => let '(c1, o1, k1) := x in let '(c2, o2, k2) := y in N.eqb c1 c2 && (o1 =? o2) && Nat.eqb k1 k2) (lo_acks a) (lo_acks b).

(* first step after which the observation differs from the model's *)
Fixpoint check_run (s : lstate) (acks : list ack) (xs : list (lstep * lobs)) (i : nat) : option nat :=
  match xs with
  | [] => None
  | (x, o) :: r =>
    let '(s', out) := step s x in
    let acks' := acks ++ out in
    if lobs_eqb (obs_of s' acks') o then check_run s' acks' r (S i) else Some i
  end.

Record lcase := mkLCase { lc_replicas : list N; lc_min_isr : nat; lc_cc : bool; lc_steps : list (lstep * lobs) }.

Fixpoint lcases_mismatches (cs : list lcase) (i : nat) : list (nat * nat) :=
  match cs with
  | [] => []
  | c :: r => match check_run (init_state (lc_replicas c) (lc_min_isr c) (lc_cc c)) [] (lc_steps c) 0 with
              | None => lcases_mismatches r (S i)
              | Some j => (i, j) :: lcases_mismatches r (S i)
              end
  end.
