(* C16 at the partition leader and at the API: on a stream with optimistic concurrency control
   every message is a batch of its own (store_each); it is stored iff its expected offset is -1 or
   the next offset, its publisher is told otherwise, and of publishers racing with one expected
   offset at most one is stored.  The API refuses the NONE policy on such streams: a publisher who
   asked for no acknowledgement could not be told. *)
From LB Require Import Base.Prelude Repl.Acks Repl.AcksProofs.
From Coq Require Import ZifyBool.
Open Scope Z_scope.

Lemma commit_cc s : l_cc (fst (commit s)) = l_cc s.
Proof. unfold commit. destruct (Nat.ltb _ _); reflexivity. Qed.

Lemma commit_log s : l_log (fst (commit s)) = l_log s.
Proof. unfold commit. destruct (Nat.ltb _ _); reflexivity. Qed.

Lemma store_ok_log s ms : l_log (fst (store_ok s ms)) = l_log s ++ ms /\ l_cc (fst (store_ok s ms)) = l_cc s.
Proof.
  unfold store_ok. match goal with |- context [commit ?S1] => set (s1 := S1) end.
  pose proof (commit_log s1) as H1. pose proof (commit_cc s1) as H2. destruct (commit s1) as [s2 cacks]. cbn [fst] in *. split; [exact H1|exact H2].
Qed.

(* the expected offset of m is waived or is the next offset *)
Definition accepted (s : lstate) (m : pmsg) : bool := (pm_expected m =? -1) || (pm_expected m =? newest s + 1).

Lemma store_one s m s' out : l_cc s = true -> QInv s -> store_batch s [m] = (s', out) ->
  l_cc s' = true /\
  (accepted s m = true -> l_log s' = l_log s ++ [m] /\ forall a, In a out -> ak_kind a = AOk) /\
  (accepted s m = false -> s' = s /\ out = [mkAck (pm_corr m) (pm_policy m) 0 AIncorrectOffset]).
Proof.
  intros Hcc HQ H. pose proof (store_batch_spec s [m] s' out HQ H) as (_ & _ & Hacks).
  unfold accepted. unfold store_batch in H. rewrite Hcc in H. cbn [andb] in H.
  destruct (pm_expected m =? -1) eqn:E1; cbn [negb andb orb] in *.
  - destruct (store_ok_log s [m]) as [H1 H2]. rewrite H in H1, H2. cbn [fst] in H1, H2. split; [congruence|]. split; [|discriminate].
    intros _. split; [exact H1|]. intros a Ha. specialize (Hacks a Ha). unfold batch_ack_ok in Hacks.
    destruct (ak_kind a); [reflexivity|contradiction| |contradiction..]. rewrite H1 in Hacks. apply (f_equal (@length pmsg)) in Hacks. rewrite app_length in Hacks. cbn in Hacks. lia.
  - destruct (pm_expected m =? newest s + 1) eqn:E2; cbn [negb] in *.
    + destruct (store_ok_log s [m]) as [H1 H2]. rewrite H in H1, H2. cbn [fst] in H1, H2. split; [congruence|]. split; [|discriminate].
      intros _. split; [exact H1|]. intros a Ha. specialize (Hacks a Ha). unfold batch_ack_ok in Hacks.
      destruct (ak_kind a); [reflexivity|contradiction| |contradiction..]. rewrite H1 in Hacks. apply (f_equal (@length pmsg)) in Hacks. rewrite app_length in Hacks. cbn in Hacks. lia.
    + injection H as <- <-. split; [exact Hcc|]. split; [discriminate|]. intros _. split; reflexivity.
Qed.

(* every message of the list, each a batch of its own: stored, or its publisher is told *)
Lemma store_each_total ms : forall s s' out, l_cc s = true -> QInv s -> store_each s ms = (s', out) ->
  l_cc s' = true /\ exists st, l_log s' = l_log s ++ st /\
  forall m, In m ms -> In m st \/ In (mkAck (pm_corr m) (pm_policy m) 0 AIncorrectOffset) out.
Proof.
  induction ms as [|m r IH]; intros s s' out Hcc HQ H; cbn [store_each] in H.
  - injection H as <- <-. split; [exact Hcc|]. exists []. rewrite app_nil_r. split; [reflexivity|intros ? []].
  - destruct (store_batch s [m]) as [s1 a1] eqn:E1. destruct (store_each s1 r) as [s2 a2] eqn:E2. injection H as <- <-.
    destruct (store_one s m s1 a1 Hcc HQ E1) as (Hcc1 & Hyes & Hno).
    assert (HQ1 : QInv s1) by (apply (store_batch_spec s [m] s1 a1 HQ E1)).
    destruct (IH s1 s2 a2 Hcc1 HQ1 E2) as (Hcc2 & st2 & Hst2 & Hall2). split; [exact Hcc2|].
    destruct (accepted s m) eqn:Ea.
    + destruct (Hyes eq_refl) as [Hl _]. exists ([m] ++ st2). split; [rewrite Hst2, Hl, <- app_assoc; reflexivity|].
      intros x [<-|Hx]; [left; left; reflexivity|]. destruct (Hall2 x Hx) as [Hi|Hi]; [left; right; exact Hi|right; apply in_or_app; right; exact Hi].
    + destruct (Hno eq_refl) as [-> ->]. exists st2. split; [exact Hst2|].
      intros x [<-|Hx]; [right; left; reflexivity|]. destruct (Hall2 x Hx) as [Hi|Hi]; [left; exact Hi|right; right; exact Hi].
Qed.

(* publishers that all expect an offset which is not the next one: nothing is stored *)
Lemma store_each_all_refused ms : forall s e, l_cc s = true -> e <> -1 -> e <> newest s + 1 ->
  (forall m, In m ms -> pm_expected m = e) -> fst (store_each s ms) = s.
Proof.
  induction ms as [|m r IH]; intros s e Hcc H1 H2 Hall; cbn [store_each]; [reflexivity|].
  assert (Em : pm_expected m = e) by (apply Hall; left; reflexivity).
  unfold store_batch at 1. rewrite Hcc, Em. cbn [andb].
  replace (negb (e =? -1) && negb (e =? newest s + 1)) with true by (symmetry; apply andb_true_intro; split; apply negb_true_iff; lia).
  specialize (IH s e Hcc H1 H2 (fun x Hx => Hall x (or_intror Hx))). destruct (store_each s r) as [s2 a2]. cbn [fst] in *. exact IH.
Qed.

(* publishers racing with the same expected offset: at most one of them is stored, in whatever
   order they reach the leader *)
Theorem racers_at_most_one ms : forall s e s' out, l_cc s = true -> QInv s -> e <> -1 ->
  (forall m, In m ms -> pm_expected m = e) -> store_each s ms = (s', out) ->
  (length (l_log s') <= length (l_log s) + 1)%nat.
Proof.
  induction ms as [|m r IH]; intros s e s' out Hcc HQ He Hall H; cbn [store_each] in H; [injection H as <- <-; lia|].
  destruct (store_batch s [m]) as [s1 a1] eqn:E1. destruct (store_each s1 r) as [s2 a2] eqn:E2. injection H as <- <-.
  destruct (store_one s m s1 a1 Hcc HQ E1) as (Hcc1 & Hyes & Hno).
  assert (HQ1 : QInv s1) by (apply (store_batch_spec s [m] s1 a1 HQ E1)).
  assert (Em : pm_expected m = e) by (apply Hall; left; reflexivity).
  destruct (accepted s m) eqn:Ea.
  - destruct (Hyes eq_refl) as [Hl _]. unfold accepted in Ea. rewrite Em in Ea.
    assert (Hnext : e = newest s + 1) by lia.
    (* the others now all expect an offset that is taken *)
    pose proof (store_each_all_refused r s1 e Hcc1 He) as Hr. rewrite E2 in Hr. cbn [fst] in Hr. rewrite Hr.
    + rewrite Hl, app_length. cbn. lia.
    + unfold newest. rewrite Hl, app_length. cbn. unfold newest in Hnext. lia.
    + intros x Hx. apply Hall. right. exact Hx.
  - destruct (Hno eq_refl) as [-> _]. apply (IH s e s2 a2 Hcc HQ He); [intros x Hx; apply Hall; right; exact Hx|exact E2].
Qed.

(* ---- the API in front: NONE is refused on such streams ---- *)
Theorem api_none_refused s ms s' out : l_cc s = true -> QInv s -> step s (LApi ms) = (s', out) ->
  (forall m, In m ms -> pm_policy m = PNone -> In (mkAck (pm_corr m) PNone 0 ARefused) out) /\
  exists st, l_log s' = l_log s ++ st /\ forall m, In m st -> In m ms /\ pm_policy m <> PNone.
Proof.
  intros Hcc HQ H. cbn [step] in H. destruct (publish_step s (filter (fun m => negb (api_refuses s m)) ms)) as [s1 o1] eqn:Ep. injection H as <- <-.
  split.
  - intros m Hin Hp. apply in_or_app. left. apply in_map_iff. exists m. split; [rewrite Hp; reflexivity|]. apply filter_In. split; [exact Hin|].
    unfold api_refuses. rewrite Hcc, Hp. reflexivity.
  - assert (E : step s (LPublish (filter (fun m => negb (api_refuses s m)) ms)) = (s1, o1)) by exact Ep.
    destruct (step_stores_only_accepted s _ s1 o1 HQ E) as (st & Hst & Hin). exists st. split; [exact Hst|]. intros m Hm.
    destruct (Hin m Hm) as (H1 & _). apply filter_In in H1. destruct H1 as [H1 H2]. split; [exact H1|].
    unfold api_refuses in H2. rewrite Hcc in H2. cbn [andb] in H2. intros Hp. rewrite Hp in H2. discriminate.
Qed.

(* every publisher is served or told: a message sent through the API to a stream with concurrency
   control is stored, or one of the error answers names it *)
Theorem api_every_publisher_served_or_told s ms s' out : l_cc s = true -> QInv s -> step s (LApi ms) = (s', out) ->
  exists st, l_log s' = l_log s ++ st /\
  forall m, In m ms -> In m st \/ exists a, In a out /\ ak_corr a = pm_corr m /\ ak_kind a <> AOk.
Proof.
  intros Hcc HQ H. cbn [step] in H. set (pass := filter (fun m => negb (api_refuses s m)) ms) in *.
  destruct (publish_step s pass) as [s1 o1] eqn:Ep. injection H as <- <-. unfold publish_step in Ep. rewrite Hcc in Ep.
  set (sealed := filter (fun m => negb (pm_seal_fails m)) pass) in *. set (good := filter (fun m => negb (pm_too_large m)) sealed) in *.
  destruct (store_each s good) as [s2 acks] eqn:Es. injection Ep as <- <-.
  destruct (store_each_total good s s2 acks Hcc HQ Es) as (_ & st & Hst & Hall). exists st. split; [exact Hst|].
  intros m Hin. destruct (api_refuses s m) eqn:Er.
  { right. exists (mkAck (pm_corr m) (pm_policy m) 0 ARefused). split; [|split; [reflexivity|discriminate]].
    apply in_or_app. left. apply in_map_iff. exists m. split; [reflexivity|apply filter_In; split; assumption]. }
  assert (Hp : In m pass) by (apply filter_In; split; [exact Hin|rewrite Er; reflexivity]).
  destruct (pm_seal_fails m) eqn:Esl.
  { right. exists (mkAck (pm_corr m) (pm_policy m) 0 AEncryption). split; [|split; [reflexivity|discriminate]].
    apply in_or_app. right. apply in_or_app. left. apply in_map_iff. exists m. split; [reflexivity|apply filter_In; split; assumption]. }
  assert (Hs : In m sealed) by (apply filter_In; split; [exact Hp|rewrite Esl; reflexivity]).
  destruct (pm_too_large m) eqn:El.
  { right. exists (mkAck (pm_corr m) (pm_policy m) 0 ATooLarge). split; [|split; [reflexivity|discriminate]].
    apply in_or_app. right. apply in_or_app. right. apply in_or_app. left. apply in_map_iff. exists m. split; [reflexivity|apply filter_In; split; assumption]. }
  assert (Hg : In m good) by (apply filter_In; split; [exact Hs|rewrite El; reflexivity]).
  destruct (Hall m Hg) as [Hi|Hi]; [left; exact Hi|].
  right. exists (mkAck (pm_corr m) (pm_policy m) 0 AIncorrectOffset). split; [|split; [reflexivity|discriminate]].
  apply in_or_app. right. apply in_or_app. right. apply in_or_app. right. exact Hi.
Qed.
